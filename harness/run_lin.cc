// C12 harness, second half of the property: arithmetic on Linear_Form<FP_Interval> and linearize()
// of floating point expressions (src/Linear_Form_templates.hh, src/linearize.hh).
//
//   run_lin <seed> <ncases> [only-case]
//
// LIN cases: a random expression tree (depth <= 4; variables, floating constants, integer constants
// under a cast, unary minus, + - * /, casts between the two formats) whose arithmetic is done in the
// ANALYSED format (IEEE single or double), an abstract store (Box of intervals with double bounds) and
// concrete stores sampled inside it.  The concrete machine evaluates the tree in the analysed format
// under each of the four rounding modes (<cfenv>; the library's own mode is saved and restored around
// every concrete operation).  Oracle (independent of any model): the concrete result, converted exactly
// to mpq, must lie in the linear form returned by linearize() evaluated at the concrete store in exact
// rational arithmetic.  linearize() returning false is accepted ("reports failure").
// LF cases: random interval linear forms; + - unary- *interval /=interval += intervalize
// relative_error are checked by sampling coefficient points and store points (exact rationals).
//
// Output: "S <key> <count>" statistics and "F <kind> case=<n> ..." one line per failure.
#include <iostream>
#include <sstream>
#include <string>
#include <vector>
#include <set>
#include <map>
#include <limits>
#include <cfenv>
#include <cmath>
#include <cstdlib>
#include <cstdio>
#include <gmpxx.h>
#include "ppl-config.h"
#include "Init_defs.hh"
#include "Concrete_Expression_defs.hh"
#include "Float_defs.hh"
#include "Linear_Form_defs.hh"
#include "Box_defs.hh"
#include "linearize.hh"
#include "Linear_Form_templates.hh"
#include "Init_inlines.hh"

namespace Parma_Polyhedra_Library {

// A minimal Concrete_Expression target, after tests/Concrete_Expression/C_Expr_defs.hh.
struct Toy;
enum Toy_Kind { T_BOP, T_UOP, T_CAST, T_INT_CON, T_FP_CON, T_APPROX_REF };

template <>
class Concrete_Expression<Toy> : public Concrete_Expression_Common<Toy> {
public:
  Concrete_Expression(Concrete_Expression_Type t, Toy_Kind k) : expr_type(t), expr_kind(k) {}
  virtual ~Concrete_Expression() {}
  Concrete_Expression_Type type() const { return expr_type; }
  Concrete_Expression_Kind kind() const { return expr_kind; }
  Concrete_Expression_Type expr_type;
  Toy_Kind expr_kind;
};

template <>
class Binary_Operator<Toy> : public Concrete_Expression<Toy>, public Binary_Operator_Common<Toy> {
public:
  Binary_Operator(Concrete_Expression_Type t, Concrete_Expression_BOP op,
                  const Concrete_Expression<Toy>* l, const Concrete_Expression<Toy>* r)
    : Concrete_Expression<Toy>(t, T_BOP), bop(op), lhs(l), rhs(r) {}
  Concrete_Expression_Type type() const { return expr_type; }
  Concrete_Expression_BOP binary_operator() const { return bop; }
  const Concrete_Expression<Toy>* left_hand_side() const { return lhs; }
  const Concrete_Expression<Toy>* right_hand_side() const { return rhs; }
  enum Kind { KIND = T_BOP };
  enum Operation { ADD, SUB, MUL, DIV, REM, BAND, BOR, BXOR, LSHIFT, RSHIFT };
  const Concrete_Expression_BOP bop;
  const Concrete_Expression<Toy>* lhs;
  const Concrete_Expression<Toy>* rhs;
};

template <>
class Unary_Operator<Toy> : public Concrete_Expression<Toy>, public Unary_Operator_Common<Toy> {
public:
  Unary_Operator(Concrete_Expression_Type t, Concrete_Expression_UOP op, const Concrete_Expression<Toy>* a)
    : Concrete_Expression<Toy>(t, T_UOP), uop(op), arg(a) {}
  Concrete_Expression_Type type() const { return expr_type; }
  Concrete_Expression_UOP unary_operator() const { return uop; }
  const Concrete_Expression<Toy>* argument() const { return arg; }
  enum Kind { KIND = T_UOP };
  enum Operation { UPLUS, UMINUS, BNOT };
  const Concrete_Expression_UOP uop;
  const Concrete_Expression<Toy>* arg;
};

template <>
class Cast_Operator<Toy> : public Concrete_Expression<Toy>, public Cast_Operator_Common<Toy> {
public:
  Cast_Operator(Concrete_Expression_Type t, const Concrete_Expression<Toy>* a)
    : Concrete_Expression<Toy>(t, T_CAST), arg(a) {}
  Concrete_Expression_Type type() const { return expr_type; }
  const Concrete_Expression<Toy>* argument() const { return arg; }
  enum Kind { KIND = T_CAST };
  const Concrete_Expression<Toy>* arg;
};

template <>
class Integer_Constant<Toy> : public Concrete_Expression<Toy>, public Integer_Constant_Common<Toy> {
public:
  Integer_Constant(Concrete_Expression_Type t, long v) : Concrete_Expression<Toy>(t, T_INT_CON), value(v) {}
  Concrete_Expression_Type type() const { return expr_type; }
  enum Kind { KIND = T_INT_CON };
  long value;
};

template <>
class Floating_Point_Constant<Toy> : public Concrete_Expression<Toy>, public Floating_Point_Constant_Common<Toy> {
public:
  Floating_Point_Constant(Concrete_Expression_Type t, double v)
    : Concrete_Expression<Toy>(t, T_FP_CON), value(v) {}
  Concrete_Expression_Type type() const { return expr_type; }
  enum Kind { KIND = T_FP_CON };
  double value;
};

template <>
class Approximable_Reference<Toy> : public Concrete_Expression<Toy>, public Approximable_Reference_Common<Toy> {
public:
  Approximable_Reference(Concrete_Expression_Type t, dimension_type index)
    : Concrete_Expression<Toy>(t, T_APPROX_REF), dim(index) {}
  Concrete_Expression_Type type() const { return expr_type; }
  enum Kind { KIND = T_APPROX_REF };
  dimension_type dim;
};

} // namespace Parma_Polyhedra_Library

using namespace Parma_Polyhedra_Library;
static Parma_Polyhedra_Library::Init init_obj;

// The policy of the test-suite / interfaced Double_Box for floating point analysis.
struct FP_Info_Policy {
  const_bool_nodef(store_special, false);
  const_bool_nodef(store_open, true);
  const_bool_nodef(cache_empty, true);
  const_bool_nodef(cache_singleton, true);
  const_bool_nodef(cache_normalized, false);
  const_int_nodef(next_bit, 0);
  const_bool_nodef(may_be_empty, true);
  const_bool_nodef(may_contain_infinity, false);
  const_bool_nodef(check_empty_result, false);
  const_bool_nodef(check_inexact, false);
};
typedef Interval_Info_Bitset<unsigned int, FP_Info_Policy> FP_Info;
typedef Interval<double, FP_Info> FP_Interval;
typedef Linear_Form<FP_Interval> FP_Linear_Form;
typedef Box<FP_Interval> FP_Store;
typedef std::map<dimension_type, FP_Linear_Form> FP_LF_Store;

class Toy_Oracle : public FP_Oracle<Toy, FP_Interval> {
public:
  Toy_Oracle(const FP_Store& s) : int_store(s) {}
  bool get_interval(dimension_type dim, FP_Interval& result) const {
    result = int_store.get_interval(Variable(dim));
    return true;
  }
  bool get_fp_constant_value(const Floating_Point_Constant<Toy>& e, FP_Interval& result) const {
    result = FP_Interval(e.value);
    return true;
  }
  bool get_integer_expr_value(const Concrete_Expression<Toy>& e, FP_Interval& result) const {
    result = FP_Interval(static_cast<double>(static_cast<const Integer_Constant<Toy>&>(e).value));
    return true;
  }
  bool get_associated_dimensions(const Approximable_Reference<Toy>& e, std::set<dimension_type>& result) const {
    result.clear();
    result.insert(e.dim);
    return true;
  }
  FP_Store int_store;
};

// ---------------------------------------------------------------------------------------------------
// deterministic pseudo-random numbers
struct Rng {
  unsigned long long s;
  explicit Rng(unsigned long long seed) : s(seed * 6364136223846793005ULL + 1442695040888963407ULL) { next(); next(); }
  unsigned long next() { s = s * 6364136223846793005ULL + 1442695040888963407ULL; return (unsigned long)(s >> 33); }
  unsigned long below(unsigned long n) { return next() % n; }
};

// ---------------------------------------------------------------------------------------------------
// extended rationals for exact evaluation of interval linear forms
struct Ext { int inf; mpq_class v; Ext() : inf(0), v(0) {} };   // inf: -1, 0, +1
static Ext ext_of(double d) {
  Ext e;
  if (std::isinf(d)) e.inf = d > 0 ? 1 : -1; else e.v = mpq_class(d);
  return e;
}
struct QItv { Ext lo, hi; bool nan; QItv() : nan(false) {} };

static QItv q_of(const FP_Interval& c) {
  QItv r;
  r.lo = c.lower_is_boundary_infinity() ? ext_of(-HUGE_VAL) : ext_of(c.lower());
  r.hi = c.upper_is_boundary_infinity() ? ext_of(HUGE_VAL) : ext_of(c.upper());
  return r;
}
static Ext ext_mul(const Ext& a, const mpq_class& x) {   // x finite
  Ext r;
  if (a.inf != 0) {
    int s = sgn(x);
    if (s == 0) { r.inf = 0; r.v = 0; } else r.inf = a.inf * s;
  } else r.v = a.v * x;
  return r;
}
static bool ext_le(const Ext& a, const Ext& b) {
  if (a.inf != 0 || b.inf != 0) {
    int x = a.inf, y = b.inf;
    if (x == y && x != 0) return true;
    if (x == -1 || y == 1) return true;
    if (x == 1 || y == -1) return false;
    return true;
  }
  return a.v <= b.v;
}
static Ext ext_add(const Ext& a, const Ext& b, bool& nan) {
  Ext r;
  if (a.inf != 0 && b.inf != 0 && a.inf != b.inf) { nan = true; return r; }
  if (a.inf != 0) { r.inf = a.inf; return r; }
  if (b.inf != 0) { r.inf = b.inf; return r; }
  r.v = a.v + b.v;
  return r;
}
// the set { c * x | c in I } and the sum of such sets (closed hulls; open flags are not used: weaker, never wrong)
static QItv q_scale(const QItv& i, const mpq_class& x) {
  QItv r;
  Ext a = ext_mul(i.lo, x), b = ext_mul(i.hi, x);
  if (ext_le(a, b)) { r.lo = a; r.hi = b; } else { r.lo = b; r.hi = a; }
  return r;
}
static QItv q_add(const QItv& a, const QItv& b) {
  QItv r;
  bool nan = a.nan || b.nan;
  r.lo = ext_add(a.lo, b.lo, nan);
  r.hi = ext_add(a.hi, b.hi, nan);
  r.nan = nan;
  return r;
}
static bool q_contains(const QItv& i, const mpq_class& x) {
  if (i.nan) return true;
  Ext e; e.v = x;
  return ext_le(i.lo, e) && ext_le(e, i.hi);
}
static QItv evaluate(const FP_Linear_Form& lf, const std::vector<double>& store) {
  QItv r = q_of(lf.inhomogeneous_term());
  for (dimension_type i = 0; i < lf.space_dimension(); ++i) {
    mpq_class x(i < store.size() ? store[i] : 0.0);
    r = q_add(r, q_scale(q_of(lf.coefficient(Variable(i))), x));
  }
  return r;
}
static std::string q_str(const QItv& i) {
  std::ostringstream s;
  s.precision(17);
  s << "[";
  if (i.lo.inf) s << (i.lo.inf < 0 ? "-inf" : "+inf"); else s << i.lo.v.get_d();
  s << ",";
  if (i.hi.inf) s << (i.hi.inf < 0 ? "-inf" : "+inf"); else s << i.hi.v.get_d();
  s << "]";
  return s.str();
}

// ---------------------------------------------------------------------------------------------------
// expression trees
static const int NVARS = 3;
enum NKind { N_VAR, N_FCON, N_ICAST, N_NEG, N_ADD, N_SUB, N_MUL, N_DIV, N_CAST };
struct Node {
  NKind k;
  int fmt;            // 0: IEEE single, 1: IEEE double -- the format of the value of this node
  int var;
  double con;
  long icon;
  Node* a;
  Node* b;
  Node() : k(N_VAR), fmt(0), var(0), con(0), icon(0), a(0), b(0) {}
};

static std::vector<Node*> g_nodes;
static std::vector<Concrete_Expression<Toy>*> g_exprs;
static Node* mknode() { Node* n = new Node(); g_nodes.push_back(n); return n; }
template <typename T> static T* keep(T* e) { g_exprs.push_back(e); return e; }
static void free_all() {
  for (size_t i = 0; i < g_nodes.size(); ++i) delete g_nodes[i];
  for (size_t i = 0; i < g_exprs.size(); ++i) delete g_exprs[i];
  g_nodes.clear(); g_exprs.clear();
}

static const double CONSTS[] = { 0.0, 1.0, -1.0, 2.0, 0.5, 3.0, -0.25, 1.5, 7.0, 1.0 / 1024, 1048576.0, -5.0 };

// var_fmt[i]: the format variable i is declared with
static Node* gen(Rng& rng, int depth, int fmt, const int* var_fmt) {
  Node* n = mknode();
  n->fmt = fmt;
  unsigned long r = rng.below(100);
  if (depth == 0 || r < 22) {
    unsigned long t = rng.below(10);
    if (t < 6) {
      // a variable of this format, if there is one
      int cand[NVARS]; int nc = 0;
      for (int i = 0; i < NVARS; ++i) if (var_fmt[i] == fmt) cand[nc++] = i;
      if (nc > 0) { n->k = N_VAR; n->var = cand[rng.below(nc)]; return n; }
    }
    if (t < 9) { n->k = N_FCON; n->con = CONSTS[rng.below(sizeof(CONSTS) / sizeof(CONSTS[0]))]; return n; }
    n->k = N_ICAST; n->icon = (long)rng.below(41) - 20; return n;
  }
  if (r < 30) { n->k = N_NEG; n->a = gen(rng, depth - 1, fmt, var_fmt); return n; }
  if (r < 40) { n->k = N_CAST; n->a = gen(rng, depth - 1, 1 - fmt, var_fmt); return n; }
  if (r < 62) n->k = N_ADD; else if (r < 78) n->k = N_SUB; else if (r < 92) n->k = N_MUL; else n->k = N_DIV;
  n->a = gen(rng, depth - 1, fmt, var_fmt);
  n->b = gen(rng, depth - 1, fmt, var_fmt);
  return n;
}

static Concrete_Expression_Type ctype(int fmt) {
  return Concrete_Expression_Type::floating_point(fmt == 0 ? IEEE754_SINGLE : IEEE754_DOUBLE);
}

static const Concrete_Expression<Toy>* build(const Node* n) {
  Concrete_Expression_Type t = ctype(n->fmt);
  switch (n->k) {
  case N_VAR: return keep(new Approximable_Reference<Toy>(t, n->var));
  case N_FCON: return keep(new Floating_Point_Constant<Toy>(t, n->con));
  case N_ICAST: {
    Integer_Constant<Toy>* ic = keep(new Integer_Constant<Toy>(Concrete_Expression_Type::bounded_integer(BITS_32, SIGNED_2_COMPLEMENT, OVERFLOW_IMPOSSIBLE), n->icon));
    return keep(new Cast_Operator<Toy>(t, ic));
  }
  case N_NEG: return keep(new Unary_Operator<Toy>(t, Unary_Operator<Toy>::UMINUS, build(n->a)));
  case N_CAST: return keep(new Cast_Operator<Toy>(t, build(n->a)));
  default: {
    Concrete_Expression_BOP op = n->k == N_ADD ? Binary_Operator<Toy>::ADD : n->k == N_SUB ? Binary_Operator<Toy>::SUB
      : n->k == N_MUL ? Binary_Operator<Toy>::MUL : Binary_Operator<Toy>::DIV;
    const Concrete_Expression<Toy>* l = build(n->a);
    const Concrete_Expression<Toy>* r = build(n->b);
    return keep(new Binary_Operator<Toy>(t, op, l, r));
  }
  }
}

static std::string show(const Node* n) {
  std::ostringstream s;
  s.precision(17);
  const char* f = n->fmt == 0 ? "f" : "d";
  switch (n->k) {
  case N_VAR: s << "v" << n->var << f; break;
  case N_FCON: s << n->con << f; break;
  case N_ICAST: s << "(" << f << ")int:" << n->icon; break;
  case N_NEG: s << "-(" << show(n->a) << ")"; break;
  case N_CAST: s << "(" << f << ")(" << show(n->a) << ")"; break;
  default: s << "(" << show(n->a) << (n->k == N_ADD ? " +" : n->k == N_SUB ? " -" : n->k == N_MUL ? " *" : " /") << f << " " << show(n->b) << ")";
  }
  return s.str();
}

// The concrete machine.  Values are carried in a double; a node of format 0 always holds a value that
// is a float.  Every operation is performed in the node's format under rounding mode `mode'; the
// library's rounding mode is put back immediately afterwards.
static const int MODES[4] = { FE_TONEAREST, FE_UPWARD, FE_DOWNWARD, FE_TOWARDZERO };
static const char* MODE_NAMES[4] = { "to-nearest", "upward", "downward", "toward-zero" };

static double op_f(int k, double x, double y, int mode) {
  const int saved = fegetround();
  volatile float a = (float)x, b = (float)y;   // exact: both are floats
  fesetround(mode);
  volatile float r = k == N_ADD ? a + b : k == N_SUB ? a - b : k == N_MUL ? a * b : a / b;
  fesetround(saved);
  return (double)r;
}
static double op_d(int k, double x, double y, int mode) {
  const int saved = fegetround();
  volatile double a = x, b = y;
  fesetround(mode);
  volatile double r = k == N_ADD ? a + b : k == N_SUB ? a - b : k == N_MUL ? a * b : a / b;
  fesetround(saved);
  return r;
}
static double cast_to_f(double x, int mode) {
  const int saved = fegetround();
  volatile double a = x;
  fesetround(mode);
  volatile float r = (float)a;
  fesetround(saved);
  return (double)r;
}

static double concrete(const Node* n, const std::vector<double>& store, int mode) {
  switch (n->k) {
  case N_VAR: return store[n->var];
  case N_FCON: return n->con;
  case N_ICAST: return (double)n->icon;
  case N_NEG: return -concrete(n->a, store, mode);
  case N_CAST: {
    double v = concrete(n->a, store, mode);
    return n->fmt == 0 ? cast_to_f(v, mode) : v;   // float -> double is exact
  }
  default: {
    double x = concrete(n->a, store, mode), y = concrete(n->b, store, mode);
    return n->fmt == 0 ? op_f(n->k, x, y, mode) : op_d(n->k, x, y, mode);
  }
  }
}

// ---------------------------------------------------------------------------------------------------
// abstract stores and concrete samples
static const double BOUNDS[] = { -3.0, -1.0, -0.5, 0.0, 0.5, 1.0, 3.0, 4.0, -4.0, 1.0 / 1073741824, 1e3, -1e3 };

struct AItv { bool linf, uinf; double l, u; bool lo, uo; };

static AItv gen_itv(Rng& rng) {
  AItv a;
  const unsigned nb = sizeof(BOUNDS) / sizeof(BOUNDS[0]);
  double x = BOUNDS[rng.below(nb)], y = BOUNDS[rng.below(nb)];
  if (x > y) std::swap(x, y);
  a.l = x; a.u = y;
  unsigned long t = rng.below(40);
  a.linf = (t == 0); a.uinf = (t == 1);
  a.lo = a.linf || (x < y && rng.below(6) == 0);
  a.uo = a.uinf || (x < y && rng.below(6) == 0);
  return a;
}
static FP_Interval mk_itv(const AItv& a) {
  FP_Interval r;
  r.assign(UNIVERSE);
  if (!a.linf) r.refine_existential(a.lo ? GREATER_THAN : GREATER_OR_EQUAL, FP_Interval(a.l));
  if (!a.uinf) r.refine_existential(a.uo ? LESS_THAN : LESS_OR_EQUAL, FP_Interval(a.u));
  return r;
}
static bool a_contains(const AItv& a, double x) {
  if (!a.linf && (a.lo ? !(x > a.l) : !(x >= a.l))) return false;
  if (!a.uinf && (a.uo ? !(x < a.u) : !(x <= a.u))) return false;
  return true;
}
// a member of the interval representable as a float (hence in both formats)
static bool sample(Rng& rng, const AItv& a, double& out) {
  double lo = a.linf ? a.u - 8.0 : a.l, hi = a.uinf ? a.l + 8.0 : a.u;
  if (a.linf && a.uinf) { lo = -8; hi = 8; }
  for (int tries = 0; tries < 12; ++tries) {
    double x;
    switch (rng.below(6)) {
    case 0: x = lo; break;
    case 1: x = hi; break;
    case 2: x = (lo + hi) / 2; break;
    case 3: x = lo + (hi - lo) * std::ldexp(1.0, -(int)rng.below(40)); break;
    case 4: x = hi - (hi - lo) * std::ldexp(1.0, -(int)rng.below(40)); break;
    default: x = lo + (hi - lo) * ((double)rng.below(1000001) / 1000000.0) * std::ldexp(1.0, -(int)rng.below(12)); break;
    }
    // round to float toward the inside of the interval, in the library's mode (any mode will do: membership is re-checked)
    volatile float f = (float)x;
    double y = (double)f;
    if (a_contains(a, y)) { out = y; return true; }
    y = (double)std::nextafterf(f, f > x ? -HUGE_VALF : HUGE_VALF);
    if (a_contains(a, y)) { out = y; return true; }
  }
  return false;
}

static std::map<std::string, long> stats;

static void lin_case(unsigned long long seed, long idx) {
  Rng rng(seed * 1000003ULL + (unsigned long long)idx * 7919ULL + 17);
  int main_fmt = (int)rng.below(2);
  int var_fmt[NVARS];
  for (int i = 0; i < NVARS; ++i) var_fmt[i] = rng.below(4) == 0 ? 1 - main_fmt : main_fmt;
  int depth = 1 + (int)rng.below(4);
  Node* root = gen(rng, depth, main_fmt, var_fmt);
  const Concrete_Expression<Toy>* expr = build(root);
  AItv ai[NVARS];
  FP_Store box(NVARS);
  for (int i = 0; i < NVARS; ++i) {
    ai[i] = gen_itv(rng);
    box.set_interval(Variable(i), mk_itv(ai[i]));
  }
  Toy_Oracle oracle(box);
  FP_Linear_Form lf;
  bool ok = false;
  try {
    ok = linearize(*expr, oracle, FP_LF_Store(), lf);
  } catch (const std::exception& e) {
    std::cout << "F LIN-EXCEPTION case=" << idx << " expr=" << show(root) << " what=" << e.what() << "\n";
    free_all();
    return;
  }
  stats[main_fmt == 0 ? "lin:single" : "lin:double"]++;
  if (!ok) { stats["lin:reported-failure"]++; free_all(); return; }
  stats["lin:linearized"]++;
  {
    std::ostringstream k; k << "lin:depth" << depth; stats[k.str()]++;
  }
  int nsamples = 8;
  bool reported = false;
  for (int s = 0; s < nsamples && !reported; ++s) {
    std::vector<double> store(NVARS);
    bool have = true;
    for (int i = 0; i < NVARS; ++i) have = have && sample(rng, ai[i], store[i]);
    if (!have) { stats["lin:no-sample"]++; continue; }
    QItv enc = evaluate(lf, store);
    for (int m = 0; m < 4 && !reported; ++m) {
      double r = concrete(root, store, MODES[m]);
      if (std::isnan(r) || std::isinf(r)) { stats["lin:concrete-not-finite"]++; continue; }
      stats["lin:evaluations"]++;
      if (!q_contains(enc, mpq_class(r))) {
        std::cout.precision(17);
        std::cout << "F LIN case=" << idx << " fmt=" << (main_fmt == 0 ? "single" : "double") << " mode=" << MODE_NAMES[m]
                  << " expr=" << show(root) << " store=";
        for (int i = 0; i < NVARS; ++i) std::cout << (i ? "," : "") << store[i];
        std::cout << " concrete=" << r << " enclosure=" << q_str(enc) << "\n";
        reported = true;
      }
    }
  }
  free_all();
}

// ---------------------------------------------------------------------------------------------------
// direct tests of the Linear_Form operators
static FP_Linear_Form gen_form(Rng& rng, std::vector<AItv>& desc, bool bounded) {
  int n = 1 + (int)rng.below(NVARS + 1);     // vector size: inhomogeneous term + up to NVARS coefficients
  desc.clear();
  FP_Linear_Form f;
  for (int j = 0; j < n; ++j) {
    AItv a = gen_itv(rng);
    if (bounded) { a.linf = a.uinf = false; if (a.l == a.u) a.lo = a.uo = false; else { a.lo = a.lo && true; a.uo = a.uo && true; } }
    desc.push_back(a);
    FP_Interval c = mk_itv(a);
    if (j == 0) f = FP_Linear_Form(c);
    else {
      FP_Linear_Form t(Variable(j - 1));
      t *= c;
      f += t;
    }
  }
  return f;
}
// the j-th entry of the vector of a form (0: inhomogeneous term)
static FP_Interval entry(const FP_Linear_Form& f, unsigned j) {
  if (j == 0) return f.inhomogeneous_term();
  if (j - 1 < f.space_dimension()) return f.coefficient(Variable(j - 1));
  return FP_Interval(0.0);
}
static bool itv_has(const FP_Interval& c, const mpq_class& x) {
  if (c.is_empty()) return false;
  if (!c.lower_is_boundary_infinity()) {
    mpq_class l(c.lower());
    if (c.lower_is_open() ? !(x > l) : !(x >= l)) return false;
  }
  if (!c.upper_is_boundary_infinity()) {
    mpq_class u(c.upper());
    if (c.upper_is_open() ? !(x < u) : !(x <= u)) return false;
  }
  return true;
}
static std::string itv_str(const FP_Interval& c) {
  std::ostringstream s; s.precision(17);
  if (c.is_empty()) return "[]";
  s << (c.lower_is_open() ? "(" : "[");
  if (c.lower_is_boundary_infinity()) s << "-inf"; else s << c.lower();
  s << ",";
  if (c.upper_is_boundary_infinity()) s << "+inf"; else s << c.upper();
  s << (c.upper_is_open() ? ")" : "]");
  return s.str();
}

static void lf_fail(long idx, const char* op, unsigned j, const std::string& what) {
  std::cout << "F LF case=" << idx << " op=" << op << " entry=" << j << " " << what << "\n";
}

static void lf_case(unsigned long long seed, long idx) {
  Rng rng(seed * 999983ULL + (unsigned long long)idx * 104729ULL + 5);
  std::vector<AItv> d1, d2;
  FP_Linear_Form f1 = gen_form(rng, d1, true), f2 = gen_form(rng, d2, true);
  AItv an = gen_itv(rng);
  FP_Interval n = mk_itv(an);
  // sample points of the coefficients and of the scalar interval
  std::vector<double> c1(NVARS + 1, 0.0), c2(NVARS + 1, 0.0);
  bool have = true;
  for (unsigned j = 0; j < d1.size(); ++j) have = have && sample(rng, d1[j], c1[j]);
  for (unsigned j = 0; j < d2.size(); ++j) have = have && sample(rng, d2[j], c2[j]);
  double y = 0;
  have = have && sample(rng, an, y);
  if (!have) { stats["lf:no-sample"]++; return; }
  stats["lf:cases"]++;
  FP_Linear_Form sum = f1 + f2, dif = f1 - f2, neg = -f1, sc = n * f1;
  FP_Linear_Form acc(f1); acc += f2;
  FP_Linear_Form acd(f1); acd -= f2;
  FP_Linear_Form ng2(f1); ng2.negate();
  for (unsigned j = 0; j <= (unsigned)NVARS; ++j) {
    mpq_class a(c1[j]), b(c2[j]), q(y);
    if (!itv_has(entry(sum, j), a + b)) lf_fail(idx, "operator+", j, itv_str(entry(f1, j)) + " + " + itv_str(entry(f2, j)) + " -> " + itv_str(entry(sum, j)));
    if (!itv_has(entry(acc, j), a + b)) lf_fail(idx, "operator+=", j, itv_str(entry(acc, j)));
    if (!itv_has(entry(dif, j), a - b)) lf_fail(idx, "operator-", j, itv_str(entry(f1, j)) + " - " + itv_str(entry(f2, j)) + " -> " + itv_str(entry(dif, j)));
    if (!itv_has(entry(acd, j), a - b)) lf_fail(idx, "operator-=", j, itv_str(entry(acd, j)));
    if (!itv_has(entry(neg, j), -a)) lf_fail(idx, "unary-", j, itv_str(entry(neg, j)));
    if (!itv_has(entry(ng2, j), -a)) lf_fail(idx, "negate", j, itv_str(entry(ng2, j)));
    if (!itv_has(entry(sc, j), q * a)) lf_fail(idx, "operator*", j, itv_str(n) + " * " + itv_str(entry(f1, j)) + " -> " + itv_str(entry(sc, j)));
  }
  stats["lf:entry-checks"] += 7 * (NVARS + 1);
  if (y != 0) {
    FP_Linear_Form dv(f1); dv /= n;
    for (unsigned j = 0; j <= (unsigned)NVARS; ++j) {
      mpq_class a(c1[j]), q(y);
      if (!itv_has(entry(dv, j), a / q))
        lf_fail(idx, "operator/=", j, itv_str(entry(f1, j)) + " / " + itv_str(n) + " -> " + itv_str(entry(dv, j)));
    }
    stats["lf:entry-checks"] += NVARS + 1;
  }
  // a store, a concrete point of it, the value of the form there
  AItv ai[NVARS]; FP_Store box(NVARS); std::vector<double> store(NVARS);
  bool hs = true;
  for (int i = 0; i < NVARS; ++i) { ai[i] = gen_itv(rng); box.set_interval(Variable(i), mk_itv(ai[i])); hs = hs && sample(rng, ai[i], store[i]); }
  if (!hs) return;
  mpq_class v(c1[0]);
  for (int i = 0; i < NVARS; ++i) v += mpq_class(c1[i + 1]) * mpq_class(store[i]);
  // intervalize
  Toy_Oracle oracle(box);
  FP_Interval iv;
  if (f1.intervalize(oracle, iv)) {
    stats["lf:intervalize"]++;
    if (!itv_has(iv, v)) lf_fail(idx, "intervalize", 0, itv_str(iv) + " misses " + v.get_str());
  }
  // relative_error: one unit in the last place of the analysed format, relative to |v|
  for (int fmt = 0; fmt < 2; ++fmt) {
    FP_Linear_Form re;
    f1.relative_error(fmt == 0 ? IEEE754_SINGLE : IEEE754_DOUBLE, re);
    mpq_class eps(fmt == 0 ? (double)std::numeric_limits<float>::epsilon() : std::numeric_limits<double>::epsilon());
    mpq_class e = eps * abs(v);
    QItv enc = evaluate(re, store);
    stats["lf:relative_error"]++;
    if (!q_contains(enc, e) || !q_contains(enc, -e)) {
      std::ostringstream s; s.precision(17);
      s << "format=" << (fmt == 0 ? "single" : "double") << " |v|*epsilon=" << e.get_d() << " not in " << q_str(enc);
      lf_fail(idx, "relative_error", 0, s.str());
    }
  }
}

int main(int argc, char** argv) {
  std::ios::sync_with_stdio(false);
  unsigned long long seed = argc > 1 ? std::strtoull(argv[1], 0, 10) : 1;
  long n = argc > 2 ? std::atol(argv[2]) : 1000;
  long only = argc > 3 ? std::atol(argv[3]) : -1;
  std::string what = argc > 4 ? argv[4] : "both";
  for (long i = 0; i < n; ++i) {
    if (only >= 0 && i != only) continue;
    if (what != "lf") lin_case(seed, i);
    if (what != "lin") lf_case(seed, i);
  }
  for (std::map<std::string, long>::const_iterator i = stats.begin(); i != stats.end(); ++i)
    std::cout << "S " << i->first << " " << i->second << "\n";
  return 0;
}
