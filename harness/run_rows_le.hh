// C16 harness, expression histories: the same history is applied in four worlds
//   w0: every register DENSE, w1: every register SPARSE, w2: odd registers SPARSE, w3: even registers SPARSE
// and after each operation the observation and the coefficients of the target register are printed
// (for a SPARSE register also the stored entries of its private Sparse_Row).
static const int NW = 4, NLR = 4;
static Linear_Expression* le[NW][NLR];
static Constraint_System* csys[NW];
static Generator_System* gsys[NW];
static Congruence_System* cgsys[NW];

static Representation rep_of(int w, int r) {
  bool sp = (w == 0) ? false : (w == 1) ? true : (w == 2) ? (r % 2 == 1) : (r % 2 == 0);
  return sp ? SPARSE : DENSE;
}

static void le_reset() {
  for (int w = 0; w < NW; ++w) {
    for (int r = 0; r < NLR; ++r) {
      delete le[w][r];
      le[w][r] = new Linear_Expression(rep_of(w, r));
    }
    delete csys[w]; delete gsys[w]; delete cgsys[w];
    csys[w] = new Constraint_System(rep_of(w, 0));
    gsys[w] = new Generator_System(rep_of(w, 0));
    cgsys[w] = new Congruence_System(rep_of(w, 0));
  }
}

static std::string describe(const Linear_Expression& e) {
  std::ostringstream o;
  dim n = e.space_dimension() + 1;
  o << "n=" << n << " co=";
  for (dim i = 0; i < n; ++i) { if (i) o << ","; o << zs(e.get(i)); }
  o << " st=";
  if (e.representation() == SPARSE) {
    const Sparse_Row& row = static_cast<const Linear_Expression_Impl<Sparse_Row>*>(e.impl)->row;
    o << "[";
    bool first = true;
    for (Sparse_Row::const_iterator i = row.begin(), ie = row.end(); i != ie; ++i) {
      if (!first) o << ";"; first = false;
      o << i.index() << ":" << zs(*i);
    }
    o << "]";
    if (!row.tree.OK()) o << "!TREE";
  }
  else o << "-";
  return o.str();
}

static std::string show_con(const Constraint& c) {
  std::ostringstream o;
  o << (c.is_equality() ? "=" : c.is_strict_inequality() ? ">" : ">=") << " sd=" << c.space_dimension() << " [" << zs(c.inhomogeneous_term());
  for (dim i = 0; i < c.space_dimension(); ++i) o << "," << zs(c.coefficient(Variable(i)));
  o << "] taut=" << c.is_tautological() << " inc=" << c.is_inconsistent() << " ok=" << c.OK();
  return o.str();
}
static std::string show_gen(const Generator& g) {
  std::ostringstream o;
  o << (g.is_line() ? "l" : g.is_ray() ? "r" : g.is_point() ? "p" : "c") << " sd=" << g.space_dimension() << " [";
  if (g.is_point() || g.is_closure_point()) o << zs(g.divisor()); else o << "0";
  for (dim i = 0; i < g.space_dimension(); ++i) o << "," << zs(g.coefficient(Variable(i)));
  o << "] ok=" << g.OK();
  return o.str();
}
static std::string show_cg(const Congruence& c) {
  std::ostringstream o;
  o << "mod=" << zs(c.modulus()) << " sd=" << c.space_dimension() << " [" << zs(c.inhomogeneous_term());
  for (dim i = 0; i < c.space_dimension(); ++i) o << "," << zs(c.coefficient(Variable(i)));
  o << "] taut=" << c.is_tautological() << " inc=" << c.is_inconsistent() << " ok=" << c.OK();
  return o.str();
}

static void le_op(std::vector<std::string>& tk) {
  const std::string& name = tk[0];
  int r = std::atoi(tk[1].c_str());
#define NARG(k) ((dim) std::strtoul(tk[k].c_str(), 0, 10))
#define IARG(k) (std::atoi(tk[k].c_str()))
  for (int w = 0; w < NW; ++w) {
    Linear_Expression& x = *le[w][r];
    std::ostringstream out;
    bool has_out = false;
    if (name == "new") { Linear_Expression f(rep_of(w, r)); f.set_space_dimension(NARG(2) - 1); swap(x, f); }
    else if (name == "set") {
      dim i = NARG(2); mpz_class v(tk[3]);
      if (i == 0) x.set_inhomogeneous_term(v); else x.set_coefficient(Variable(i - 1), v);
    }
    else if (name == "add") {
      dim i = NARG(2); mpz_class v(tk[3]);
      if (i == 0) { if (v >= 0) x += v; else { mpz_class m = -v; x -= m; } }
      else if (v == 1) x += Variable(i - 1);
      else if (v == -1) x -= Variable(i - 1);
      else if (v > 0) add_mul_assign(x, v, Variable(i - 1));
      else { mpz_class m = -v; sub_mul_assign(x, m, Variable(i - 1)); }
    }
    else if (name == "swap") x.swap_space_dimensions(Variable(NARG(2) - 1), Variable(NARG(3) - 1));
    else if (name == "shift") x.shift_space_dimensions(Variable(NARG(2) - 1), NARG(3));
    else if (name == "resize") x.set_space_dimension(NARG(2) - 1);
    else if (name == "mulr") { mpz_class c(tk[2]); x.mul_assign(c, NARG(3), NARG(4)); }
    else if (name == "negr") x.negate(NARG(2), NARG(3));
    else if (name == "ediv") { mpz_class c(tk[2]); x.exact_div_assign(c, NARG(3), NARG(4)); }
    else if (name == "rem") {
      Variables_Set vs;
      for (size_t k = 2; k < tk.size(); ++k) vs.insert(Variable(NARG(k) - 1));
      x.remove_space_dimensions(vs);
    }
    else if (name == "perm") {
      std::vector<Variable> cyc;
      for (size_t k = 2; k < tk.size(); ++k) cyc.push_back(Variable(NARG(k) - 1));
      x.permute_space_dimensions(cyc);
    }
    else if (name == "norm") x.normalize();
    else if (name == "sgn") x.sign_normalize();
    else if (name == "mula") { mpz_class c(tk[2]); x *= c; }
    else if (name == "lc") { mpz_class c1(tk[3]), c2(tk[4]); x.linear_combine(*le[w][IARG(2)], c1, c2, NARG(5), NARG(6)); }
    else if (name == "lca") { mpz_class c1(tk[3]), c2(tk[4]); x.linear_combine(*le[w][IARG(2)], c1, c2); }
    else if (name == "laxs") { mpz_class c1(tk[3]); x.linear_combine_lax(*le[w][IARG(2)], c1, Coefficient(0), NARG(4), NARG(5)); }
    else if (name == "laxz") x.linear_combine_lax(*le[w][IARG(2)], Coefficient(0), Coefficient(0), NARG(3), NARG(4));
    else if (name == "lax0") { mpz_class c2(tk[3]); x.linear_combine_lax(*le[w][IARG(2)], Coefficient(0), c2, NARG(4), NARG(5)); }
    else if (name == "get") { out << zs(x.get(NARG(2))); has_out = true; }
    else if (name == "gcd") { out << zs(x.gcd(NARG(2), NARG(3))); has_out = true; }
    else if (name == "az") { out << (x.all_zeroes(NARG(2), NARG(3)) ? 1 : 0); has_out = true; }
    else if (name == "nz") { out << x.num_zeroes(NARG(2), NARG(3)); has_out = true; }
    else if (name == "fnz") { out << x.first_nonzero(NARG(2), NARG(3)); has_out = true; }
    else if (name == "lnz") { out << x.last_nonzero(NARG(2), NARG(3)); has_out = true; }
    else if (name == "lnza") { out << x.last_nonzero(); has_out = true; }
    else if (name == "iter") {
      out << "["; bool first = true;
      for (Linear_Expression::const_iterator i = x.begin(), ie = x.end(); i != ie; ++i) {
        if (!first) out << ";"; first = false;
        out << (i.variable().id() + 1) << ":" << zs(*i);
      }
      out << "]"; has_out = true;
    }
    else if (name == "size") { out << (x.space_dimension() + 1); has_out = true; }
    else if (name == "sp") {
      Coefficient res; x.scalar_product_assign(res, *le[w][IARG(2)], NARG(3), NARG(4));
      out << zs(res); has_out = true;
    }
    else if (name == "eq") { out << (x.is_equal_to(*le[w][IARG(2)]) ? 1 : 0); has_out = true; }
    else if (name == "eqr") { out << (x.is_equal_to(*le[w][IARG(2)], NARG(3), NARG(4)) ? 1 : 0); has_out = true; }
    else if (name == "cmp") { out << compare(x, *le[w][IARG(2)]); has_out = true; }
    else if (name == "copy") { Linear_Expression f(*le[w][IARG(2)], rep_of(w, r)); swap(x, f); }
    else if (name == "copyn") { Linear_Expression f(*le[w][IARG(2)], NARG(3) - 1, rep_of(w, r)); swap(x, f); }
    else if (name == "con") {
      // a constraint built from the expression, in the representation of the world's register
      int k = IARG(2);
      Constraint c = (k == 0) ? (x >= 0) : (k == 1) ? (x == 0) : (x > 0);
      Constraint c2(c, rep_of(w, r));
      std::cout << "C" << w << " con " << show_con(c2) << "\n";
      if (csys[w]->space_dimension() < c2.space_dimension()) csys[w]->set_space_dimension(c2.space_dimension());
      if (!c2.is_strict_inequality() || csys[w]->topology() == NOT_NECESSARILY_CLOSED) csys[w]->insert(c2);
      continue;
    }
    else if (name == "gen") {
      int k = IARG(2);
      Linear_Expression h(x);
      h.set_inhomogeneous_term(0);
      mpz_class d(tk[3]);
      if (k != 2 && h.all_homogeneous_terms_are_zero()) h += Variable(0);
      Generator g = (k == 0) ? line(h) : (k == 1) ? ray(h) : point(h, d);
      Generator g2(g, rep_of(w, r));
      std::cout << "C" << w << " gen " << show_gen(g2) << "\n";
      gsys[w]->insert(g2);
      continue;
    }
    else if (name == "cg") {
      mpz_class m(tk[2]);
      Congruence c = (x %= 0) / m;
      Congruence c2(c, rep_of(w, r));
      c2.strong_normalize();
      std::cout << "C" << w << " cg " << show_cg(c2) << "\n";
      cgsys[w]->insert(c2);
      continue;
    }
    else if (name == "sysop") {
      // Linear_System-level operations on copies of the world's systems (they use linear_combine,
      // swap/permute/remove/shift of columns, normalisation and row comparison on both representations)
      int k = IARG(2);
      Constraint_System cs(*csys[w]);
      Generator_System gs(*gsys[w]);
      Congruence_System cgs(*cgsys[w]);
      dim cd = cs.space_dimension(), gd = gs.space_dimension(), qd = cgs.space_dimension();
      if (k == 0) { cs.strong_normalize(); cs.sort_rows(); gs.strong_normalize(); gs.sort_rows(); }
      else if (k == 1) {
        // Linear_System::back_substitute takes Variable(last_nonzero() - 1): an equality whose homogeneous
        // part is (or becomes, after Gaussian elimination) zero makes it throw std::length_error, in both
        // representations alike; not this property's business, the throw itself is printed and compared
        try { cs.simplify(); }
        catch (const std::length_error&) { std::cout << "C" << w << " sysop1 cs.simplify-threw-length_error\n"; continue; }
        gs.simplify();
      }
      else if (k == 2) {
        if (cd >= 2) { std::vector<Variable> c; for (dim i = 0; i < cd; ++i) c.push_back(Variable(i)); cs.permute_space_dimensions(c); }
        if (gd >= 2) { std::vector<Variable> c; for (dim i = 0; i < gd; ++i) c.push_back(Variable(i)); gs.permute_space_dimensions(c); }
        if (qd >= 2) { std::vector<Variable> c; for (dim i = 0; i < qd; ++i) c.push_back(Variable(i)); cgs.permute_space_dimensions(c); }
      }
      else if (k == 3) {
        Variables_Set vs; vs.insert(Variable(0));
        if (cd >= 2) cs.remove_space_dimensions(vs);
        if (gd >= 2) gs.remove_space_dimensions(vs);
      }
      else if (k == 4) {
        if (cd >= 1) cs.shift_space_dimensions(Variable(0), 2);
        if (gd >= 1) gs.shift_space_dimensions(Variable(0), 2);
      }
      else {
        if (cd >= 2) cs.swap_space_dimensions(Variable(0), Variable(cd - 1));
        if (gd >= 2) gs.swap_space_dimensions(Variable(0), Variable(gd - 1));
        if (qd >= 2) cgs.swap_space_dimensions(Variable(0), Variable(qd - 1));
      }
      std::cout << "C" << w << " sysop" << k << " cs{";
      for (Constraint_System::const_iterator i = cs.begin(), ie = cs.end(); i != ie; ++i) std::cout << show_con(*i) << "|";
      std::cout << "} gs{";
      for (Generator_System::const_iterator i = gs.begin(), ie = gs.end(); i != ie; ++i) std::cout << show_gen(*i) << "|";
      std::cout << "} cgs{";
      for (Congruence_System::const_iterator i = cgs.begin(), ie = cgs.end(); i != ie; ++i) std::cout << show_cg(*i) << "|";
      std::cout << "}\n";
      continue;
    }
    else if (name == "sys") {
      std::cout << "C" << w << " sys cs{";
      for (Constraint_System::const_iterator i = csys[w]->begin(), ie = csys[w]->end(); i != ie; ++i) std::cout << show_con(*i) << "|";
      std::cout << "} ok=" << csys[w]->OK() << " gs{";
      for (Generator_System::const_iterator i = gsys[w]->begin(), ie = gsys[w]->end(); i != ie; ++i) std::cout << show_gen(*i) << "|";
      std::cout << "} ok=" << gsys[w]->OK() << " cgs{";
      for (Congruence_System::const_iterator i = cgsys[w]->begin(), ie = cgsys[w]->end(); i != ie; ++i) std::cout << show_cg(*i) << "|";
      std::cout << "} ok=" << cgsys[w]->OK() << "\n";
      continue;
    }
    else { std::cout << "!UNKNOWN-E " << name << "\n"; continue; }
    std::cout << "E" << w << " " << name << " out=" << (has_out ? out.str() : std::string("-")) << " " << describe(x) << "\n";
  }
}
