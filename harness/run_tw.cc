// C19 harness: the REAL Threshold_Watcher<Weightwatch_Traits> (weight-based watchdog).  Untrusted glue.
// stdin: one sequence per line; tokens a<delta> (construct) r<id> (destroy) w<inc> (weight += inc) k (maybe_abandon's
// check: call Weightwatch_Traits::check_function if set).  stdout: per op the pending list, weight, whether the check
// function is installed, handlers run by this op -- same format as ocaml/wd_model.ml prints for the Coq model (TW.v).
#include <cstdio>
#include <cstdlib>
#include <string>
#include <vector>
#include <sstream>
#include <iostream>
#include <new>
#include <gmpxx.h>
#define private public
#define protected public
#include "ppl-config.h"
#include "Init_defs.hh"
#include "globals_defs.hh"
#include "Threshold_Watcher_defs.hh"
#undef private
#undef protected
using namespace Parma_Polyhedra_Library;
typedef Threshold_Watcher<Weightwatch_Traits> TW;
namespace {
Init ppl_init;
const int MAXW = 16;
TW* objs[MAXW]; void* mem[MAXW]; int next_id = 0; std::string fired;
int id_of_flag(const bool* f) { for (int i = 0; i < next_id; ++i) if (objs[i] && &objs[i]->expired == f) return i; return -1; }
void on_fire(int id) { char b[64]; snprintf(b, sizeof b, " %d@%llu", id, (unsigned long long) Weightwatch_Traits::weight); fired += b; }
template <int N> void hf() { on_fire(N); }
typedef void (*hfun)();
hfun table[MAXW] = { hf<0>, hf<1>, hf<2>, hf<3>, hf<4>, hf<5>, hf<6>, hf<7>, hf<8>, hf<9>, hf<10>, hf<11>, hf<12>, hf<13>, hf<14>, hf<15> };
void emit(size_t idx, const std::string& tok) {
  std::ostringstream o; o << idx << " " << tok << " P=[";
  bool first = true;
  for (TW::TW_Pending_List::iterator i = TW::init.pending.begin(); i != TW::init.pending.end(); ++i) {
    if (!first) o << ","; first = false; o << i->deadline() << ":" << id_of_flag(&i->expired_flag());
  }
  o << "] w=" << Weightwatch_Traits::weight << " fn=" << (Weightwatch_Traits::check_function ? 1 : 0) << " exp=[";
  first = true;
  for (int i = 0; i < next_id; ++i) if (objs[i] && objs[i]->expired) { if (!first) o << ","; first = false; o << i; }
  o << "] fired=[" << fired << " ]";
  puts(o.str().c_str()); fired.clear();
}
}
int main() {
  std::string line; long n = 0;
  while (std::getline(std::cin, line)) {
    if (line.empty()) continue;
    printf("BEGIN %ld\n", n++);
    // reset: destroy what is left, weight back to 0
    for (int i = 0; i < next_id; ++i) if (objs[i]) { objs[i]->~TW(); operator delete(mem[i]); objs[i] = 0; }
    next_id = 0; Weightwatch_Traits::weight = 0; fired.clear();
    std::istringstream in(line); std::string tok; size_t idx = 0;
    while (in >> tok) {
      long long a = tok.size() > 1 ? atoll(tok.c_str() + 1) : 0;
      try {
        switch (tok[0]) {
        case 'a': if (next_id < MAXW && a >= 0) { int id = next_id++; mem[id] = operator new(sizeof(TW));
                    objs[id] = static_cast<TW*>(mem[id]);
                    try { new (mem[id]) TW((Weightwatch_Traits::Delta) a, table[id]); }
                    catch (...) { objs[id] = 0; operator delete(mem[id]); --next_id; throw; } } break;
        case 'r': if (a >= 0 && a < next_id && objs[a]) { objs[a]->~TW(); operator delete(mem[a]); objs[a] = 0; } break;
        case 'w': if (a >= 0) Weightwatch_Traits::weight += (Weightwatch_Traits::Threshold) a; break;
        case 'k': if (Weightwatch_Traits::check_function != 0) Weightwatch_Traits::check_function(); break;
        default: break;
        }
      } catch (const std::exception& e) { fired += " !EXC"; }
      emit(idx++, tok);
    }
    puts("END");
  }
  return 0;
}
