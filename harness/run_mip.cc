// C06: history interpreter for MIP_Problem against the real library.
// usage: run_mip <casefile> [step-timeout-seconds]
// Case language (one command per line, integers in decimal):
//   case <id>
//   new <dim>                                   MIP_Problem(dim)
//   newfull <dim> max|min <lin> <k> <con>*      MIP_Problem(dim, cs, obj, mode)
//   ctl F|E|T                                   set_control_parameter(PRICING_*)
//   addc <con> | addcs <k> <con>*               add_constraint / add_constraints
//   obj <lin> | mode max|min | dims <m> | ints <k> <i>*
//   solve | issat | fpoint | opoint | oval | eval <pt>
//   <lin> = <n> <b> <a0> .. <a_{n-1}>     <con> = (=|>=) <lin>     <pt> = <n> <den> <c0> .. <c_{n-1}>
// For every command four lines are printed (b, r, s, f):
//   r ...   the value returned / exception raised by the call on the INCREMENTAL object
//   s <status keyword from ascii_dump> <last_generator as pt> ok <OK()> ncs <input_cs.size()> lgd <last_generator.space_dimension()>
//   (and, before them:  b risk <0|1>  about the state the command STARTS from: some pending inequality is satisfied by
//    last_generator but violated by the basic solution the first phase starts from, see compute_risk)
//   f ...   what two FRESH objects built from the data accumulated so far answer
//           (solve + optimal value + optimizing point ; is_satisfiable + feasible_point)
#define VH_PRIVATE_ACCESS
#include "vh_common.hh"
#include <signal.h>
#include <sys/time.h>
#include <unistd.h>
using namespace Parma_Polyhedra_Library;
using namespace vh;

static Linear_Expression read_lin(Toks& tk) { mpz_class b; return read_expr_n(tk, b); }
static Constraint read_mcon(Toks& tk) {
  std::string k = tk.next(); Linear_Expression e = read_lin(tk);
  if (k == "=") return e == 0; if (k == ">=") return e >= 0;
  throw std::runtime_error("case: bad constraint kind " + k);
}
static Generator read_pt(Toks& tk) {
  unsigned n = tk.nextl(); mpz_class d = tk.nextz(); Linear_Expression e;
  if (n > 0) e.set_space_dimension(n);
  for (unsigned i = 0; i < n; ++i) { mpz_class a = tk.nextz(); if (a != 0) e += a * Variable(i); }
  return Generator::point(e, d);
}
static void print_pt(std::ostream& o, const Generator& g, unsigned dim) {
  o << "pt " << dim << " " << g.divisor();
  for (unsigned i = 0; i < dim; ++i) o << " " << (i < g.space_dimension() ? g.coefficient(Variable(i)) : Coefficient(0));
}
static MIP_Problem::Control_Parameter_Value pricing_of(const std::string& s) {
  if (s == "F") return MIP_Problem::PRICING_STEEPEST_EDGE_FLOAT;
  if (s == "E") return MIP_Problem::PRICING_STEEPEST_EDGE_EXACT;
  if (s == "T") return MIP_Problem::PRICING_TEXTBOOK;
  throw std::runtime_error("case: bad pricing " + s);
}
static const char* status_name(MIP_Problem_Status st) {
  return st == UNFEASIBLE_MIP_PROBLEM ? "UNF" : st == UNBOUNDED_MIP_PROBLEM ? "UNB" : "OPT";
}

// the data accumulated by the history (what a fresh problem is built from)
struct Data {
  unsigned dim; std::vector<Constraint> cons; Variables_Set ints; Linear_Expression obj; Optimization_Mode mode;
  MIP_Problem::Control_Parameter_Value pricing;
  Data() : dim(0), mode(MAXIMIZATION), pricing(MIP_Problem::PRICING_STEEPEST_EDGE_FLOAT) {}
};
static Data data;
static MIP_Problem* mip = 0;

static MIP_Problem* fresh() {
  Constraint_System cs; if (data.dim > 0) cs.set_space_dimension(data.dim);
  for (size_t i = 0; i < data.cons.size(); ++i) cs.insert(data.cons[i]);
  MIP_Problem* p = new MIP_Problem(data.dim, cs, data.obj, data.mode);
  p->add_to_integer_space_dimensions(data.ints);
  p->set_control_parameter(data.pricing);
  return p;
}

static std::string keyword(const MIP_Problem& p) {
  std::ostringstream os; p.ascii_dump(os); std::string s = os.str();
  size_t i = s.find("\nstatus: "); if (i == std::string::npos) return "?";
  i += 9; size_t j = s.find('\n', i); return s.substr(i, j - i);
}

// root-cause probe for known finding C06-stale-last-generator (see known_findings.d/C06.json):
// parse_constraints() is about to classify a pending inequality "already satisfied" by evaluating it at
// last_generator, although the basic solution from which the first phase will start violates it.  That basic
// solution is recomputed here on a COPY: merge the split variables that the pending constraints make
// remergeable (as process_pending_constraints does), then read the tableau (compute_generator).
static int compute_risk() {
  if (!mip || !mip->initialized || mip->status != MIP_Problem::PARTIALLY_SATISFIABLE) return 0;
  if (mip->internal_space_dim == 0 || mip->mapping.size() != mip->internal_space_dim + 1) return 0;
  if (mip->first_pending_constraint >= mip->input_cs.size()) return 0;
  try {
    MIP_Problem cp(*mip);                       // copies tableau, base, mapping, last_generator; re-adds the constraints
    cp.first_pending_constraint = mip->first_pending_constraint;
    dimension_type rows = 0, slacks = 0;
    std::deque<bool> is_tab, is_sat, is_nonneg, is_remerge;
    if (!cp.parse_constraints(rows, slacks, is_tab, is_sat, is_nonneg, is_remerge)) return 0;
    for (dimension_type i = cp.internal_space_dim; i-- > 0; )
      if (is_remerge[i]) cp.merge_split_variable(i);
    const Generator claimed = cp.last_generator;
    cp.external_space_dim = cp.internal_space_dim;
    cp.compute_generator();                     // the basic solution, as a point of the internal space
    const Generator& vertex = cp.last_generator;
    for (dimension_type i = 0; i < is_sat.size(); ++i) {
      if (!is_sat[i]) continue;
      const Constraint& c = *cp.input_cs[cp.first_pending_constraint + i];
      if (MIP_Problem::is_satisfied(c, claimed) && !MIP_Problem::is_satisfied(c, vertex)) return 1;
    }
  } catch (const std::exception&) { return 0; }
  return 0;
}
static void print_state() {
  std::cout << "s " << keyword(*mip) << " "; print_pt(std::cout, mip->last_generator, mip->space_dimension());
  int ok; try { ok = mip->OK() ? 1 : 0; } catch (const std::exception&) { ok = 2; }   // 2: OK() itself threw
  std::cout << " ok " << ok << " ncs " << mip->input_cs.size() << " lgd " << mip->last_generator.space_dimension() << std::endl;
}
static void print_fresh() {
  std::cout << "f solve ";
  { MIP_Problem* p = fresh();
    MIP_Problem_Status st = p->solve(); std::cout << status_name(st);
    if (st == OPTIMIZED_MIP_PROBLEM) { Coefficient n, d; p->optimal_value(n, d); std::cout << " val " << n << " " << d << " "; print_pt(std::cout, p->optimizing_point(), data.dim); }
    else if (st == UNBOUNDED_MIP_PROBLEM) { std::cout << " "; print_pt(std::cout, p->feasible_point(), data.dim); }
    int ok; try { ok = p->OK() ? 1 : 0; } catch (const std::exception&) { ok = 2; }
    std::cout << " ok " << ok;
    delete p; }
  { MIP_Problem* p = fresh();
    bool b = p->is_satisfiable(); std::cout << " sat " << (b ? 1 : 0);
    if (b) { std::cout << " "; print_pt(std::cout, p->feasible_point(), data.dim); }
    delete p; }
  std::cout << "\n";
}

static void on_alarm(int) { const char m[] = "\nTIMEOUT\n"; if (write(1, m, sizeof(m) - 1)) {} _exit(4); }
static void arm(double s) { struct itimerval it; it.it_interval.tv_sec = 0; it.it_interval.tv_usec = 0;
  it.it_value.tv_sec = (long) s; it.it_value.tv_usec = (long) ((s - (long) s) * 1e6); setitimer(ITIMER_REAL, &it, 0); }

static void step(const std::string& cmd, Toks& tk) {
  if (cmd == "new") { unsigned d = tk.nextl(); delete mip; data = Data(); data.dim = d; mip = new MIP_Problem(d); std::cout << "r ok\n"; }
  else if (cmd == "newfull") {
    unsigned d = tk.nextl(); std::string m = tk.next(); delete mip; mip = 0; data = Data(); data.dim = d;
    data.mode = (m == "max") ? MAXIMIZATION : MINIMIZATION; data.obj = read_lin(tk);
    long k = tk.nextl(); Constraint_System cs; if (d > 0) cs.set_space_dimension(d);
    for (long i = 0; i < k; ++i) { Constraint c = read_mcon(tk); data.cons.push_back(c); cs.insert(c); }
    mip = new MIP_Problem(d, cs, data.obj, data.mode); std::cout << "r ok\n"; }
  else if (!mip) throw std::runtime_error("case: no problem yet");
  else if (cmd == "ctl") { data.pricing = pricing_of(tk.next()); mip->set_control_parameter(data.pricing); std::cout << "r ok\n"; }
  else if (cmd == "addc") { Constraint c = read_mcon(tk); data.cons.push_back(c); mip->add_constraint(c); std::cout << "r ok\n"; }
  else if (cmd == "addcs") { long k = tk.nextl(); Constraint_System cs; if (data.dim > 0) cs.set_space_dimension(data.dim);
    for (long i = 0; i < k; ++i) { Constraint c = read_mcon(tk); data.cons.push_back(c); cs.insert(c); }
    mip->add_constraints(cs); std::cout << "r ok\n"; }
  else if (cmd == "obj") { data.obj = read_lin(tk); mip->set_objective_function(data.obj); std::cout << "r ok\n"; }
  else if (cmd == "mode") { data.mode = (tk.next() == "max") ? MAXIMIZATION : MINIMIZATION; mip->set_optimization_mode(data.mode); std::cout << "r ok\n"; }
  else if (cmd == "dims") { unsigned m = tk.nextl(); data.dim += m; mip->add_space_dimensions_and_embed(m); std::cout << "r ok\n"; }
  else if (cmd == "ints") { long k = tk.nextl(); Variables_Set vs; for (long i = 0; i < k; ++i) { unsigned v = tk.nextl(); vs.insert(v); data.ints.insert(v); }
    mip->add_to_integer_space_dimensions(vs); std::cout << "r ok\n"; }
  else if (cmd == "solve") { std::cout << "r solve " << status_name(mip->solve()) << "\n"; }
  else if (cmd == "issat") { std::cout << "r issat " << (mip->is_satisfiable() ? 1 : 0) << "\n"; }
  else if (cmd == "fpoint") { try { const Generator& g = mip->feasible_point(); std::cout << "r fpoint "; print_pt(std::cout, g, data.dim); std::cout << "\n"; }
    catch (const std::domain_error&) { std::cout << "r fpoint exn domain_error\n"; } }
  else if (cmd == "opoint") { try { const Generator& g = mip->optimizing_point(); std::cout << "r opoint "; print_pt(std::cout, g, data.dim); std::cout << "\n"; }
    catch (const std::domain_error&) { std::cout << "r opoint exn domain_error\n"; } }
  else if (cmd == "oval") { try { Coefficient n, d; mip->optimal_value(n, d); std::cout << "r oval " << n << " " << d << "\n"; }
    catch (const std::domain_error&) { std::cout << "r oval exn domain_error\n"; } }
  else if (cmd == "eval") { Generator g = read_pt(tk); Coefficient n, d; mip->evaluate_objective_function(g, n, d); std::cout << "r eval " << n << " " << d << "\n"; }
  else throw std::runtime_error("case: unknown command " + cmd);
}

int main(int argc, char** argv) {
  if (argc < 2) { std::cerr << "usage: run_mip casefile [step-timeout]\n"; return 2; }
  double tmo = argc > 2 ? std::atof(argv[2]) : 10.0;
  signal(SIGALRM, on_alarm);
  std::ifstream in(argv[1]); std::string line;
  while (std::getline(in, line)) {
    Toks tk(line); if (!tk.more()) continue;
    std::string cmd = tk.next();
    if (cmd[0] == '#') continue;
    try {
      if (cmd == "case") { std::cout << "case " << tk.next() << "\n"; }
      else if (cmd == "end") { std::cout << "end\n"; }
      else {
        arm(tmo);
        std::cout << "b risk " << ((cmd == "new" || cmd == "newfull") ? 0 : compute_risk()) << std::endl;
        try { step(cmd, tk); std::cout.flush(); }
        catch (const std::exception& e) {
          if (std::string(e.what()).substr(0, 5) == "case:") throw;
          std::cout << "r exn " << exn_class(e) << "\n";
        }
        print_state();
        print_fresh();
        arm(0);
      }
    } catch (const std::exception& e) {
      std::cout << "HARNESS-ERROR " << e.what() << " in: " << line << std::endl;
      return 3;
    }
    std::cout.flush();
  }
  delete mip;
  return 0;
}
