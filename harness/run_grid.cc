// C05 harness: executes histories over a pool of PPL Grid objects and prints, after every step, the result
// of the step and what every pool object reports (congruences / minimized congruences / generators /
// minimized generators / OK()).  Values are read from COPIES so that reading does not move the lazy state of
// the pool objects (objects marked empty are read directly: reading them does not change anything, and the
// copy constructor is itself under test through the explicit `copy` operation of the histories).
#include <iostream>
#include <sstream>
#include <string>
#include <vector>
#include <stdexcept>
#include <typeinfo>
#include <gmpxx.h>
#define private public
#define protected public
#include "ppl-config.h"
#include "Grid_defs.hh"
#include "Grid_inlines.hh"
#include "Grid_templates.hh"
#include "Congruence_defs.hh"
#include "Congruence_System_defs.hh"
#include "Grid_Generator_defs.hh"
#include "Grid_Generator_System_defs.hh"
#include "Linear_Expression_defs.hh"
#include "Variable_defs.hh"
#include "Poly_Con_Relation_defs.hh"
#include "Poly_Gen_Relation_defs.hh"
#include "Variables_Set_defs.hh"
#include "Init_defs.hh"
#undef private
#undef protected

using namespace Parma_Polyhedra_Library;
static Init ppl_init;

// partial function on space dimensions for map_space_dimensions: m[i] = new index of dimension i, or -1
struct PFunc {
  std::vector<long> m;
  bool has_empty_codomain() const { for (size_t i = 0; i < m.size(); ++i) if (m[i] >= 0) return false; return true; }
  dimension_type max_in_codomain() const { long b = 0; for (size_t i = 0; i < m.size(); ++i) if (m[i] > b) b = m[i]; return (dimension_type) b; }
  bool maps(dimension_type i, dimension_type& j) const { if (i >= m.size() || m[i] < 0) return false; j = (dimension_type) m[i]; return true; }
};

static const int POOL = 4;
static Grid* pool[POOL];

typedef std::vector<mpz_class> zvec;

static bool read_z(std::istringstream& in, mpz_class& z) {
  std::string t;
  if (!(in >> t)) return false;
  z = mpz_class(t);
  return true;
}

static Linear_Expression lin(const zvec& a, const mpz_class& b) {
  Linear_Expression e;
  for (size_t i = 0; i < a.size(); ++i)
    if (a[i] != 0) e += a[i] * Variable(i);
  e += b;
  return e;
}

static bool read_vec(std::istringstream& in, unsigned n, zvec& a) {
  a.resize(n);
  for (unsigned i = 0; i < n; ++i) if (!read_z(in, a[i])) return false;
  return true;
}

// "b m a0..a(n-1)"
static Congruence read_cg(std::istringstream& in, unsigned n) {
  mpz_class b, m; zvec a;
  read_z(in, b); read_z(in, m); read_vec(in, n, a);
  return (lin(a, b) %= 0) / m;
}

// "p d a.. | q d a.. | l 1 a.."
static Grid_Generator read_gen(std::istringstream& in, unsigned n) {
  std::string t; mpz_class d; zvec a;
  in >> t; read_z(in, d); read_vec(in, n, a);
  Linear_Expression e = lin(a, 0);
  if (t == "p") return grid_point(e, d);
  if (t == "q") return parameter(e, d);
  return grid_line(e);
}

static void print_cgs(const char* tag, int o, const Congruence_System& cs, unsigned n) {
  std::cout << tag << " " << o;
  unsigned k = 0;
  for (Congruence_System::const_iterator i = cs.begin(); i != cs.end(); ++i) ++k;
  std::cout << " " << k;
  for (Congruence_System::const_iterator i = cs.begin(); i != cs.end(); ++i) {
    const Congruence& c = *i;
    std::cout << " ; " << c.inhomogeneous_term() << " " << c.modulus();
    for (unsigned v = 0; v < n; ++v) {
      if (v < c.space_dimension()) std::cout << " " << c.coefficient(Variable(v));
      else std::cout << " 0";
    }
  }
  std::cout << "\n";
}

static void print_gens(const char* tag, int o, const Grid_Generator_System& gs, unsigned n) {
  std::cout << tag << " " << o;
  unsigned k = 0;
  for (Grid_Generator_System::const_iterator i = gs.begin(); i != gs.end(); ++i) ++k;
  std::cout << " " << k;
  for (Grid_Generator_System::const_iterator i = gs.begin(); i != gs.end(); ++i) {
    const Grid_Generator& g = *i;
    if (g.is_line()) std::cout << " ; l 1";
    else if (g.is_point()) std::cout << " ; p " << g.divisor();
    else std::cout << " ; q " << g.divisor();
    for (unsigned v = 0; v < n; ++v) {
      if (v < g.space_dimension()) std::cout << " " << g.coefficient(Variable(v));
      else std::cout << " 0";
    }
  }
  std::cout << "\n";
}

// is there a parameter row before the first point row of an up-to-date generator system
static bool param_before_point(const Grid& g) {
  if (g.marked_empty() || !g.generators_are_up_to_date()) return false;
  for (dimension_type r = 0; r < g.gen_sys.num_rows(); ++r) {
    if (g.gen_sys[r].is_point()) return false;
    if (g.gen_sys[r].is_parameter()) return true;
  }
  return false;
}

static void print_flags(int o) {
  const Grid& g = *pool[o];
  std::cout << "F " << o << " " << g.space_dimension()
            << " EM=" << g.marked_empty()
            << " CU=" << g.congruences_are_up_to_date() << " CM=" << g.congruences_are_minimized()
            << " GU=" << g.generators_are_up_to_date() << " GM=" << g.generators_are_minimized()
            << " R0L=" << (!g.marked_empty() && g.generators_are_up_to_date() && g.gen_sys.num_rows() > 0
                           && g.gen_sys[0].is_line())
            << " PBP=" << param_before_point(g)
            << " LN=" << ((!g.marked_empty() && g.generators_are_up_to_date()) ? (long) g.gen_sys.num_lines() : -1L)
            << std::endl;
}

static void dump_state(int o) {
  const Grid& g = *pool[o];
  unsigned n = g.space_dimension();
  print_flags(o);
  try {
    if (g.marked_empty()) {
      print_cgs("C", o, g.congruences(), n);
      print_cgs("MC", o, g.minimized_congruences(), n);
      print_gens("G", o, g.grid_generators(), n);
      print_gens("MG", o, g.minimized_grid_generators(), n);
      std::cout << "OK " << o << " " << g.OK() << "\n";
    }
    else {
      { Grid t(g); print_cgs("C", o, t.congruences(), n); }
      { Grid t(g); print_cgs("MC", o, t.minimized_congruences(), n); }
      { Grid t(g); print_gens("G", o, t.grid_generators(), n); }
      { Grid t(g); print_gens("MG", o, t.minimized_grid_generators(), n); }
      { Grid t(g); std::cout << "OK " << o << " " << (g.OK() && t.OK()) << "\n"; }
    }
  }
  catch (const std::exception& e) {
    std::cout << "X " << o << " exception while reading: " << e.what() << "\n";
  }
}

static std::string run_line(const std::string& line) {
  std::istringstream in(line);
  std::string op; in >> op;
  std::ostringstream r;
  int o = -1; in >> o;
  if (o < 0 || o >= POOL) return "bad";
  if (op == "new") {
    std::string dimkw, kind; unsigned n; in >> dimkw >> n >> kind;
    Grid* g = 0;
    if (kind == "universe") g = new Grid(n, UNIVERSE);
    else if (kind == "empty") g = new Grid(n, EMPTY);
    else if (kind == "cgs") {
      unsigned k; in >> k; Congruence_System cs(n);
      for (unsigned i = 0; i < k; ++i) cs.insert(read_cg(in, n));
      g = new Grid(cs);
    }
    else if (kind == "gens") {
      unsigned k; in >> k; Grid_Generator_System gs(n);
      for (unsigned i = 0; i < k; ++i) gs.insert(read_gen(in, n));
      g = new Grid(gs);
    }
    else return "bad";
    pool[o] = g;  /* old objects are leaked on purpose: an object damaged by an earlier (already reported) failure must not crash the run in its destructor */
    return "ok";
  }
  Grid& x = *pool[o];
  unsigned n = x.space_dimension();
  if (op == "copy") { int s; in >> s; Grid* g = new Grid(*pool[s]); pool[o] = g;  /* old objects are leaked on purpose: an object damaged by an earlier (already reported) failure must not crash the run in its destructor */ return "ok"; }
  if (op == "assign") { int s; in >> s; x = *pool[s]; return "ok"; }
  if (op == "swap") { int s; in >> s; x.m_swap(*pool[s]); return "ok"; }
  if (op == "addcg") { x.add_congruence(read_cg(in, n)); return "ok"; }
  if (op == "refcg") { x.refine_with_congruence(read_cg(in, n)); return "ok"; }
  if (op == "addcgs") {
    unsigned k; in >> k; Congruence_System cs(n);
    for (unsigned i = 0; i < k; ++i) cs.insert(read_cg(in, n));
    x.add_congruences(cs); return "ok";
  }
  if (op == "addgen") { x.add_grid_generator(read_gen(in, n)); return "ok"; }
  if (op == "addgens") {
    unsigned k; in >> k; Grid_Generator_System gs(n);
    for (unsigned i = 0; i < k; ++i) gs.insert(read_gen(in, n));
    x.add_grid_generators(gs); return "ok";
  }
  if (op == "inters") { int y; in >> y; x.intersection_assign(*pool[y]); return "ok"; }
  if (op == "join") { int y; in >> y; x.upper_bound_assign(*pool[y]); return "ok"; }
  if (op == "joinx") { int y; in >> y; bool b = x.upper_bound_assign_if_exact(*pool[y]); r << "bool " << b; return r.str(); }
  if (op == "diff") { int y; in >> y; x.difference_assign(*pool[y]); return "ok"; }
  if (op == "telapse") { int y; in >> y; x.time_elapse_assign(*pool[y]); return "ok"; }
  if (op == "image" || op == "preimage") {
    unsigned var; mpz_class b, d; zvec a; in >> var; read_z(in, b); read_z(in, d); read_vec(in, n, a);
    if (op == "image") x.affine_image(Variable(var), lin(a, b), d);
    else x.affine_preimage(Variable(var), lin(a, b), d);
    return "ok";
  }
  if (op == "freq") {
    mpz_class b; zvec a; read_z(in, b); read_vec(in, n, a);
    Coefficient fn, fd, vn, vd;
    bool ok = x.frequency(lin(a, b), fn, fd, vn, vd);
    if (ok) r << "freq 1 " << fn << " " << fd << " " << vn << " " << vd; else r << "freq 0";
    return r.str();
  }
  if (op == "gimage" || op == "gpreimage") {
    unsigned var; std::string rel; mpz_class b, d, m; zvec a;
    in >> var >> rel; read_z(in, b); read_z(in, d); read_z(in, m); read_vec(in, n, a);
    Relation_Symbol rs = rel == "eq" ? EQUAL : rel == "ge" ? GREATER_OR_EQUAL : rel == "le" ? LESS_OR_EQUAL
                        : rel == "gt" ? GREATER_THAN : LESS_THAN;
    if (op == "gimage") x.generalized_affine_image(Variable(var), rs, lin(a, b), d, m);
    else x.generalized_affine_preimage(Variable(var), rs, lin(a, b), d, m);
    return "ok";
  }
  if (op == "gimagel" || op == "gpreimagel") {
    std::string rel; mpz_class m, lb, rb; zvec la, ra;
    in >> rel; read_z(in, m); read_z(in, lb); read_vec(in, n, la); read_z(in, rb); read_vec(in, n, ra);
    Relation_Symbol rs = rel == "eq" ? EQUAL : rel == "ge" ? GREATER_OR_EQUAL : rel == "le" ? LESS_OR_EQUAL
                        : rel == "gt" ? GREATER_THAN : LESS_THAN;
    if (op == "gimagel") x.generalized_affine_image(lin(la, lb), rs, lin(ra, rb), m);
    else x.generalized_affine_preimage(lin(la, lb), rs, lin(ra, rb), m);
    return "ok";
  }
  if (op == "relgen") {
    Grid_Generator g = read_gen(in, n);
    Poly_Gen_Relation rel = x.relation_with(g);
    r << "bool " << rel.implies(Poly_Gen_Relation::subsumes());
    return r.str();
  }
  if (op == "unconstrain") { unsigned var; in >> var; x.unconstrain(Variable(var)); return "ok"; }
  if (op == "embed") { unsigned m; in >> m; x.add_space_dimensions_and_embed(m); return "ok"; }
  if (op == "project") { unsigned m; in >> m; x.add_space_dimensions_and_project(m); return "ok"; }
  if (op == "rmhigher") { unsigned m; in >> m; x.remove_higher_space_dimensions(m); return "ok"; }
  if (op == "mapdims") {
    PFunc pf; pf.m.resize(n);
    for (unsigned i = 0; i < n; ++i) in >> pf.m[i];
    x.map_space_dimensions(pf); return "ok";
  }
  if (op == "rmdims") {
    unsigned k; in >> k; Variables_Set vs;
    for (unsigned i = 0; i < k; ++i) { unsigned v; in >> v; vs.insert(Variable(v)); }
    x.remove_space_dimensions(vs); return "ok";
  }
  if (op == "expand") { unsigned var, m; in >> var >> m; x.expand_space_dimension(Variable(var), m); return "ok"; }
  if (op == "fold") {
    unsigned dest, k; in >> dest >> k; Variables_Set vs;
    for (unsigned i = 0; i < k; ++i) { unsigned v; in >> v; vs.insert(Variable(v)); }
    x.fold_space_dimensions(vs, Variable(dest)); return "ok";
  }
  if (op == "concat") { int y; in >> y; x.concatenate_assign(*pool[y]); return "ok"; }
  if (op == "closure") { x.topological_closure_assign(); return "ok"; }
  if (op == "obs") {
    std::string what; in >> what;
    if (what == "cgs") print_cgs("O", o, x.congruences(), n);
    else if (what == "mcgs") print_cgs("O", o, x.minimized_congruences(), n);
    else if (what == "gens") print_gens("O", o, x.grid_generators(), n);
    else if (what == "mgens") print_gens("O", o, x.minimized_grid_generators(), n);
    else if (what == "ok") { r << "bool " << x.OK(); return r.str(); }
    else return "bad";
    return "ok";
  }
  if (op == "q") {
    std::string what; in >> what; bool b;
    if (what == "is_empty") b = x.is_empty();
    else if (what == "is_universe") b = x.is_universe();
    else if (what == "is_discrete") b = x.is_discrete();
    else if (what == "is_bounded") b = x.is_bounded();
    else if (what == "is_topologically_closed") b = x.is_topologically_closed();
    else return "bad";
    r << "bool " << b; return r.str();
  }
  if (op == "q2") {
    int y; std::string what; in >> y >> what; bool b; const Grid& yy = *pool[y];
    if (what == "contains") b = x.contains(yy);
    else if (what == "strictly_contains") b = x.strictly_contains(yy);
    else if (what == "disjoint") b = x.is_disjoint_from(yy);
    else if (what == "equals") b = (x == yy);
    else return "bad";
    r << "bool " << b; return r.str();
  }
  if (op == "rel") {
    Congruence c = read_cg(in, n);
    Poly_Con_Relation rel = x.relation_with(c);
    r << "rel " << rel.implies(Poly_Con_Relation::is_disjoint()) << " "
      << rel.implies(Poly_Con_Relation::is_included()) << " "
      << rel.implies(Poly_Con_Relation::strictly_intersects()) << " "
      << rel.implies(Poly_Con_Relation::saturates());
    return r.str();
  }
  if (op == "adim") { r << "num " << x.affine_dimension(); return r.str(); }
  return "bad";
}

int main() {
  for (int i = 0; i < POOL; ++i) pool[i] = 0;
  std::string line;
  while (std::getline(std::cin, line)) {
    if (line.empty() || line[0] == '#') continue;
    if (line.compare(0, 4, "case") == 0) {
      for (int i = 0; i < POOL; ++i) pool[i] = new Grid(0, UNIVERSE);
      std::cout << line << "\n";
      continue;
    }
    if (line == "end") { std::cout << "end\n"; continue; }
    std::cout << "> " << line << std::endl;
    for (int i = 0; i < POOL; ++i) print_flags(i);
    std::string res;
    try { res = run_line(line); }
    catch (const std::invalid_argument& e) { res = "exn invalid_argument"; }
    catch (const std::length_error& e) { res = "exn length_error"; }
    catch (const std::exception& e) { res = std::string("exn other ") + typeid(e).name(); }
    std::cout << "R " << res << "\n";
    for (int i = 0; i < POOL; ++i) dump_state(i);
    std::cout << "." << std::endl;
  }
  return 0;
}
