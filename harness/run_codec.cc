// C15 harness: ascii_dump / ascii_load on objects REACHED BY HISTORIES.
//
// usage: run_codec <seed> <count> <objs-file> [maxmut]
//   For object number i (class chosen round-robin, history derived from seed and i):
//     D1 = dump(x); y default-constructed; ok = y.ascii_load(D1); D2 = dump(y); y.OK(); y == x;
//     t  = a USED object (history-built or EMPTY), tf = its status word; ok3 = t.ascii_load(D1); D3 = dump(t);
//     mutated streams (token deleted / replaced by "@@"): accept or reject, must not crash;
//     battery(x) vs battery(y): queries + one mutator + dump, compared as text.
//   stdout: one "R ..." line per object, "M idx tok kind accept" lines, "H cls flags" lines.
//   objs-file: the dumps for the OCaml side (model re-emission and model accept/reject).
#include <iostream>
#include <fstream>
#include <sstream>
#include <string>
#include <vector>
#include <stdexcept>
#include <cstdlib>
#include <cstdint>
#include <sys/resource.h>
#include <sys/wait.h>
#include <unistd.h>
#include <gmpxx.h>
#define private public
#define protected public
#include "ppl-config.h"
#include "C_Polyhedron_defs.hh"
#include "NNC_Polyhedron_defs.hh"
#include "Grid_defs.hh"
#include "BD_Shape_defs.hh"
#include "Octagonal_Shape_defs.hh"
#include "Box_defs.hh"
#include "Rational_Box.hh"
#include "interfaces/interfaced_boxes.hh"
#include "Pointset_Powerset_defs.hh"
#include "Partially_Reduced_Product_defs.hh"
#include "MIP_Problem_defs.hh"
#include "PIP_Problem_defs.hh"
#include "PIP_Tree_defs.hh"
#include "Constraint_System_defs.hh"
#include "Generator_System_defs.hh"
#include "Congruence_System_defs.hh"
#include "Grid_Generator_System_defs.hh"
#include "Linear_Expression_defs.hh"
#include "Variables_Set_defs.hh"
#include "Bit_Matrix_defs.hh"
#include "Dense_Row_defs.hh"
#include "Sparse_Row_defs.hh"
#include "Matrix_defs.hh"
#include "DB_Matrix_defs.hh"
#include "OR_Matrix_defs.hh"
#include "Init_defs.hh"
#undef private
#undef protected

using namespace Parma_Polyhedra_Library;
static Init ppl_init_object;

struct Rng {
  uint64_t s;
  explicit Rng(uint64_t seed) : s(seed * 0x9E3779B97F4A7C15ULL + 0x1234567ULL) { next(); next(); }
  uint64_t next() { s ^= s << 13; s ^= s >> 7; s ^= s << 17; return s; }
  int range(int lo, int hi) { return lo + int(next() % uint64_t(hi - lo + 1)); }   // inclusive
  bool coin(int num = 1, int den = 2) { return int(next() % uint64_t(den)) < num; }
};

template <class T> std::string dump(const T& x) { std::ostringstream s; x.ascii_dump(s); return s.str(); }
template <class T> bool load(T& y, const std::string& d) {
  std::istringstream s(d);
  try { return y.ascii_load(s); } catch (const std::exception&) { return false; }
}

static std::vector<std::string> tokens(const std::string& d) {
  std::vector<std::string> v; std::istringstream s(d); std::string w;
  while (s >> w) v.push_back(w);
  return v;
}
static std::string join(const std::vector<std::string>& v, long skip, long repl) {
  std::string r;
  for (size_t i = 0; i < v.size(); ++i) {
    if (long(i) == skip) continue;
    r += (long(i) == repl) ? std::string("@@") : v[i];
    r += ((i % 7) == 6) ? "\n" : " ";
  }
  return r;
}

// ---------------------------------------------------------------------------------------------
// random pieces
static Linear_Expression rexpr(Rng& r, dimension_type dim, int maxc = 4, bool with_inhomo = true) {
  Linear_Expression e;
  for (dimension_type i = 0; i < dim; ++i)
    if (r.coin(2, 3)) e += r.range(-maxc, maxc) * Variable(i);
  if (with_inhomo) e += r.range(-6, 6);
  if (dim > 0) e += 0 * Variable(dim - 1);
  return e;
}
static Constraint rcon(Rng& r, dimension_type dim, bool strict_ok) {
  Linear_Expression e = rexpr(r, dim);
  int k = r.range(0, strict_ok ? 5 : 4);
  if (k == 0) return e == 0;
  if (k == 5) return e > 0;
  return e >= 0;
}
static Generator rgen(Rng& r, dimension_type dim, bool nnc) {
  Linear_Expression e = rexpr(r, dim, 4, false);
  int k = r.range(0, nnc ? 5 : 4);
  if (k == 0) { if (e.all_homogeneous_terms_are_zero()) e += Variable(0); return line(e); }
  if (k == 1) { if (e.all_homogeneous_terms_are_zero()) e += Variable(0); return ray(e); }
  if (k == 5) return closure_point(e, r.range(1, 3));
  return point(e, r.range(1, 3));
}
static Congruence rcg(Rng& r, dimension_type dim) {
  Linear_Expression e = rexpr(r, dim, 3);
  int m = r.range(0, 4);
  return (e %= 0) / m;
}
static Grid_Generator rgg(Rng& r, dimension_type dim) {
  Linear_Expression e = rexpr(r, dim, 4, false);
  int k = dim == 0 ? 3 : r.range(0, 3);
  if (k == 0) { if (e.all_homogeneous_terms_are_zero()) e += Variable(0); return grid_line(e); }
  if (k == 1) return parameter(e, r.range(1, 3));
  return grid_point(e, r.range(1, 3));
}
// constraints of the shape each weakly-relational domain accepts
enum Shape { SH_ANY, SH_BD, SH_OCT, SH_BOX };
static Constraint shaped(Rng& r, dimension_type dim, Shape sh, bool strict_ok) {
  if (sh == SH_ANY || dim == 0) return rcon(r, dim, strict_ok);
  static const int scales[] = {1, 1, 1, 2, 3, 4, 8, 16};
  int a = scales[r.range(0, 7)];
  int b = r.range(-20, 20);
  dimension_type i = r.range(0, int(dim) - 1), j = r.range(0, int(dim) - 1);
  Linear_Expression e;
  if (sh == SH_BOX || i == j || r.coin(1, 3)) e = a * Variable(i);
  else if (sh == SH_BD) e = a * Variable(i) - a * Variable(j);
  else e = a * Variable(i) + (r.coin() ? a : -a) * Variable(j);
  if (r.coin()) e = -e;
  e += 0 * Variable(dim - 1);
  int k = r.range(0, strict_ok ? 6 : 5);
  if (k == 0) return e == b;
  if (k == 6) return e < b;
  return e <= b;
}

// ---------------------------------------------------------------------------------------------
// per-class operations
template <class D> struct Traits;   // shape, strict, name, flags(), ...

#define STATUS_FLAGS(x) (unsigned((x).status.flags))

template <class D> struct DomBase {
  static bool eq(const D& a, const D& b) { return a == b; }
};

template <> struct Traits<C_Polyhedron> : DomBase<C_Polyhedron> {
  static const char* name() { return "C_Polyhedron"; }
  static Shape shape() { return SH_ANY; } static bool strict() { return false; }
  static unsigned flags(const C_Polyhedron& x) { return STATUS_FLAGS(x); }
};
template <> struct Traits<NNC_Polyhedron> : DomBase<NNC_Polyhedron> {
  static const char* name() { return "NNC_Polyhedron"; }
  static Shape shape() { return SH_ANY; } static bool strict() { return true; }
  static unsigned flags(const NNC_Polyhedron& x) { return STATUS_FLAGS(x); }
};
template <> struct Traits<Grid> : DomBase<Grid> {
  static const char* name() { return "Grid"; }
  static Shape shape() { return SH_ANY; } static bool strict() { return false; }
  static unsigned flags(const Grid& x) { return STATUS_FLAGS(x); }
};
#define WR_TRAITS(TYPE, NAME, SHAPE, STRICT)                                  \
  template <> struct Traits<TYPE > : DomBase<TYPE > {                         \
    static const char* name() { return NAME; }                                \
    static Shape shape() { return SHAPE; } static bool strict() { return STRICT; } \
    static unsigned flags(const TYPE& x) { return STATUS_FLAGS(x); }          \
  };
WR_TRAITS(BD_Shape<mpq_class>, "BD_Shape_mpq", SH_BD, false)
WR_TRAITS(BD_Shape<mpz_class>, "BD_Shape_mpz", SH_BD, false)
WR_TRAITS(BD_Shape<double>, "BD_Shape_double", SH_BD, false)
WR_TRAITS(Octagonal_Shape<mpq_class>, "Octagonal_Shape_mpq", SH_OCT, false)
WR_TRAITS(Octagonal_Shape<double>, "Octagonal_Shape_double", SH_OCT, false)
WR_TRAITS(Rational_Box, "Rational_Box", SH_BOX, true)
WR_TRAITS(Z_Box, "Z_Box", SH_BOX, false)
WR_TRAITS(Double_Box, "Double_Box", SH_BOX, true)

// class-specific extra steps of a history
template <class D> void extra_op(D&, Rng&) {}
template <class PH> void poly_extra(PH& x, Rng& r, bool nnc) {
  dimension_type d = x.space_dimension();
  switch (r.range(0, 7)) {
  case 0: if (!x.is_empty() || r.coin()) { Generator g = rgen(r, d, nnc); if (x.is_empty() && !g.is_point()) break; if (d > 0 || g.is_point()) x.add_generator(g); } break;
  case 1: (void) x.generators(); break;
  case 2: (void) x.minimized_generators(); break;
  case 3: { Constraint_System cs; for (int k = r.range(1, 3); k-- > 0; ) cs.insert(rcon(r, d, nnc)); x.add_constraints(cs); } break;
  case 4: { PH y(d); for (int k = r.range(1, 2); k-- > 0; ) y.add_constraint(rcon(r, d, nnc)); x.poly_difference_assign(y); } break;
  case 5: x.topological_closure_assign(); break;
  case 6: if (!x.is_empty()) { Generator_System gs; gs.insert(point(rexpr(r, d, 3, false))); if (d > 0) gs.insert(rgen(r, d, false)); x.add_generators(gs); } break;
  default: (void) x.constraints(); break;
  }
}
template <> void extra_op(C_Polyhedron& x, Rng& r) { poly_extra(x, r, false); }
template <> void extra_op(NNC_Polyhedron& x, Rng& r) { poly_extra(x, r, true); }
template <> void extra_op(Grid& x, Rng& r) {
  dimension_type d = x.space_dimension();
  switch (r.range(0, 6)) {
  case 0: x.add_congruence(rcg(r, d)); break;
  case 1: { Grid_Generator g = rgg(r, d); if (x.is_empty() && !g.is_point()) break; x.add_grid_generator(g); } break;
  case 2: (void) x.congruences(); break;
  case 3: (void) x.minimized_congruences(); break;
  case 4: (void) x.grid_generators(); break;
  case 5: (void) x.minimized_grid_generators(); break;
  default: (void) x.is_discrete(); break;
  }
}

template <class BOX> void box_extra(BOX& x, Rng& r) {
  dimension_type d = x.space_dimension();
  if (d == 0) return;
  BOX src = BOX(d);
  for (int k = r.range(1, 3); k-- > 0; ) src.add_constraint(shaped(r, d, SH_BOX, Traits<BOX>::strict()));
  Variable v(r.range(0, int(d) - 1));
  if (r.coin(1, 3)) x = BOX(d, EMPTY);                       // set_interval on a marked-empty box: the stale state "-EUP +EM"
  x.set_interval(v, src.get_interval(v));
}
template <> void extra_op(Rational_Box& x, Rng& r) { box_extra(x, r); }
template <> void extra_op(Z_Box& x, Rng& r) { box_extra(x, r); }
template <> void extra_op(Double_Box& x, Rng& r) { box_extra(x, r); }

template <class D> D small_random(Rng& r, dimension_type d) {
  D y(d);
  for (int k = r.range(0, 3); k-- > 0; ) y.add_constraint(shaped(r, d, Traits<D>::shape(), Traits<D>::strict()));
  return y;
}
template <> Grid small_random<Grid>(Rng& r, dimension_type d) {
  Grid y(d);
  for (int k = r.range(0, 2); k-- > 0; ) y.add_congruence(rcg(r, d));
  return y;
}

template <class D> void add_shaped(D& x, Rng& r) {
  x.add_constraint(shaped(r, x.space_dimension(), Traits<D>::shape(), Traits<D>::strict()));
}
template <> void add_shaped(Grid& x, Rng& r) {
  if (r.coin()) x.add_congruence(rcg(r, x.space_dimension()));
  else x.add_constraint(rexpr(r, x.space_dimension(), 3) == 0);
}

template <class D> void widen(D& x, const D& old) { x.widening_assign(old); }

static Generator_System start_gs(Rng& r, dimension_type d) {
  Generator_System gs; gs.insert(point(rexpr(r, d, 3, false), r.range(1, 2)));
  for (int k = r.range(0, 3); k-- > 0; ) gs.insert(rgen(r, d, false));
  return gs;
}
template <class D> void alt_start(D& x, Rng& r, dimension_type d) {       // weakly relational domains and boxes
  switch (r.range(0, 2)) {
  case 0: x = D(start_gs(r, d)); break;
  case 1: { Constraint_System cs; for (int k = r.range(0, 3); k-- > 0; ) cs.insert(shaped(r, d, Traits<D>::shape(), false)); cs.set_space_dimension(d); x = D(cs); } break;
  default: { C_Polyhedron p(d); for (int k = r.range(0, 3); k-- > 0; ) p.add_constraint(rcon(r, d, false)); x = D(p); } break;
  }
}
template <class PH> void alt_start_poly(PH& x, Rng& r, dimension_type d, bool nnc) {
  if (r.coin()) { Generator_System gs = start_gs(r, d); if (nnc && r.coin()) gs.insert(closure_point(rexpr(r, d, 3, false))); x = PH(gs); }
  else { Constraint_System cs; for (int k = r.range(0, 4); k-- > 0; ) cs.insert(rcon(r, d, nnc)); cs.set_space_dimension(d); x = PH(cs); }
}
template <> void alt_start(C_Polyhedron& x, Rng& r, dimension_type d) { alt_start_poly(x, r, d, false); }
template <> void alt_start(NNC_Polyhedron& x, Rng& r, dimension_type d) { alt_start_poly(x, r, d, true); }
template <> void alt_start(Grid& x, Rng& r, dimension_type d) {
  if (r.coin()) {              // generators only: con_sys has no rows and a positive dimension
    Grid_Generator_System gs; gs.insert(grid_point(rexpr(r, d, 3, false), r.range(1, 2)));
    for (int k = r.range(0, 3); k-- > 0; ) gs.insert(rgg(r, d));
    gs.set_space_dimension(d); x = Grid(gs);
  }
  else { Congruence_System cs(d); for (int k = r.range(0, 3); k-- > 0; ) cs.insert(rcg(r, d)); x = Grid(cs); }
}
// Grid::remove_higher_space_dimensions on a minimized grid with virtual dimensions corrupts gen_sys
// (a later conversion crashes): outside this property (C05); histories avoid it.
template <class D> bool remove_dims_ok() { return true; }
template <> bool remove_dims_ok<Grid>() { return false; }

static bool trace_on = std::getenv("C15_TRACE") != 0;
template <class D> D make_domain(Rng& r, int steps_lo = 2, int steps_hi = 9) {
  dimension_type d = r.range(0, 9) == 0 ? 0 : r.range(1, 3);
  bool em = r.range(0, 11) == 0;
  D x(d, em ? EMPTY : UNIVERSE);
  if (trace_on) std::cerr << "make " << Traits<D>::name() << " dim " << d << (em ? " EMPTY" : " UNIVERSE") << std::endl;
  int steps = r.range(steps_lo, steps_hi);
  // every fourth object starts from the OTHER description (generators / a system / another domain) and is
  // possibly dumped at once: the lazy state in which the description the dump shows first was never computed
  if (d > 0 && r.range(0, 3) == 0) { alt_start(x, r, d); steps = r.range(0, 3); }
  for (int s = 0; s < steps; ++s) {
    d = x.space_dimension();
    int op = r.range(0, 15);
    if (trace_on) { std::cerr << " op " << op << " on:\n"; x.ascii_dump(std::cerr); std::cerr << std::endl; }
    switch (op) {
    case 0: case 1: case 2: case 3: add_shaped(x, r); break;
    case 4: x.intersection_assign(small_random<D>(r, d)); break;
    case 5: x.upper_bound_assign(small_random<D>(r, d)); break;
    case 6: if (d > 0) { Variable v(r.range(0, int(d) - 1)); x.affine_image(v, rexpr(r, d, 2), r.range(1, 2)); } break;
    case 7: if (d > 0) x.unconstrain(Variable(r.range(0, int(d) - 1))); break;
    case 8: if (d < 4) { if (r.coin()) x.add_space_dimensions_and_embed(1); else x.add_space_dimensions_and_project(1); } break;
    case 9: if (d > 1 && r.coin(1, 3) && remove_dims_ok<D>()) x.remove_higher_space_dimensions(d - 1); break;
    case 10: (void) x.is_empty(); break;
    case 11: (void) x.minimized_constraints(); break;
    case 12: (void) x.is_universe(); (void) x.is_bounded(); break;
    case 13: { D old(x); x.upper_bound_assign(small_random<D>(r, d)); widen(x, old); } break;
    default: extra_op(x, r); break;
    }
  }
  return x;
}

template <class D> D used_target(Rng& r) {
  switch (r.range(0, 5)) {
  case 0: return D(r.range(0, 3), EMPTY);
  case 1: return D(r.range(0, 3), UNIVERSE);
  case 2: case 3: { D t = make_domain<D>(r); (void) t.is_empty(); (void) t.minimized_constraints(); return t; }   // closed / reduced / minimized
  default: return make_domain<D>(r, 1, 6);
  }
}

template <class D> std::string battery(D& x, uint64_t seed) {
  Rng r(seed);
  std::ostringstream o;
  o << x.space_dimension() << ' ' << x.is_empty() << ' ' << x.is_universe() << ' ' << x.is_bounded()
    << ' ' << x.affine_dimension() << '\n';
  add_shaped(x, r);
  o << x.is_empty() << '\n';
  (void) x.minimized_constraints();
  o << "@@DUMP@@\n"; x.ascii_dump(o);
  return o.str();
}

// ---------------------------------------------------------------------------------------------
// the four systems
template <> struct Traits<Constraint_System> {
  static const char* name() { return "Constraint_System"; }
  static unsigned flags(const Constraint_System&) { return 0; }
  static bool eq(const Constraint_System& a, const Constraint_System& b) { return dump(a) == dump(b); }
};
template <> struct Traits<Generator_System> {
  static const char* name() { return "Generator_System"; }
  static unsigned flags(const Generator_System&) { return 0; }
  static bool eq(const Generator_System& a, const Generator_System& b) { return dump(a) == dump(b); }
};
template <> struct Traits<Congruence_System> {
  static const char* name() { return "Congruence_System"; }
  static unsigned flags(const Congruence_System&) { return 0; }
  static bool eq(const Congruence_System& a, const Congruence_System& b) { return dump(a) == dump(b); }
};
template <> struct Traits<Grid_Generator_System> {
  static const char* name() { return "Grid_Generator_System"; }
  static unsigned flags(const Grid_Generator_System&) { return 0; }
  static bool eq(const Grid_Generator_System& a, const Grid_Generator_System& b) { return dump(a) == dump(b); }
};

static Constraint_System make_cs(Rng& r) {
  if (r.coin()) {           // the raw system of a polyhedron reached by a history (pending rows, sortedness)
    if (r.coin()) { C_Polyhedron p = make_domain<C_Polyhedron>(r); return Constraint_System(p.con_sys); }
    NNC_Polyhedron p = make_domain<NNC_Polyhedron>(r); return Constraint_System(p.con_sys);
  }
  dimension_type d = r.range(0, 3);
  bool nnc = r.coin(1, 3);
  Constraint_System cs;
  if (r.coin(1, 4)) cs = Constraint_System(r.coin() ? DENSE : SPARSE);
  switch (r.range(0, 5)) {     // degenerate shapes
  case 0: cs.set_space_dimension(r.range(1, 4)); return cs;                                      // no rows, positive dimension
  case 1: cs.insert(Constraint::zero_dim_false()); if (r.coin()) cs.insert(Constraint::zero_dim_positivity()); return cs;   // rows, dimension 0
  case 2: for (int k = r.range(1, 3); k-- > 0; ) cs.insert_pending(rcon(r, d, nnc)); return cs;   // pending rows only
  default: break;
  }
  for (int k = r.range(0, 5); k-- > 0; ) cs.insert(rcon(r, d, nnc));
  if (r.coin(1, 3)) for (int k = r.range(1, 2); k-- > 0; ) cs.insert_pending(rcon(r, d, nnc));
  return cs;
}
static Generator_System make_gs(Rng& r) {
  if (r.coin()) {
    if (r.coin()) { C_Polyhedron p = make_domain<C_Polyhedron>(r); return Generator_System(p.gen_sys); }
    NNC_Polyhedron p = make_domain<NNC_Polyhedron>(r); return Generator_System(p.gen_sys);
  }
  dimension_type d = r.range(1, 3);
  bool nnc = r.coin(1, 3);
  Generator_System gs;
  switch (r.range(0, 5)) {
  case 0: gs.set_space_dimension(r.range(1, 4)); return gs;
  case 1: gs.insert(Generator::zero_dim_point()); return gs;
  case 2: for (int k = r.range(1, 3); k-- > 0; ) gs.insert_pending(rgen(r, d, nnc)); return gs;
  default: break;
  }
  for (int k = r.range(0, 5); k-- > 0; ) gs.insert(rgen(r, d, nnc));
  if (r.coin(1, 3)) gs.insert_pending(rgen(r, d, nnc));
  return gs;
}
static Congruence_System make_cgs(Rng& r) {
  if (r.coin()) { Grid g = make_domain<Grid>(r); return Congruence_System(g.con_sys); }
  dimension_type d = r.range(0, 3);
  switch (r.range(0, 5)) {
  case 0: return Congruence_System(dimension_type(r.range(1, 4)));                 // no rows, positive dimension
  case 1: { Congruence_System z; z.insert(Congruence::zero_dim_false()); if (r.coin()) z.insert(Congruence::zero_dim_integrality()); return z; }
  case 2: { Grid g(r.range(1, 3)); g.add_grid_generator(grid_point(rexpr(r, g.space_dimension(), 3, false))); return Congruence_System(g.con_sys); }
  default: break;
  }
  Congruence_System cs;
  for (int k = r.range(0, 5); k-- > 0; ) cs.insert(rcg(r, d));
  return cs;
}
static Grid_Generator_System make_ggs(Rng& r) {
  if (r.coin()) { Grid g = make_domain<Grid>(r); return Grid_Generator_System(g.gen_sys); }
  dimension_type d = r.range(1, 3);
  switch (r.range(0, 5)) {
  case 0: return Grid_Generator_System(dimension_type(r.range(1, 4)));             // no rows, positive dimension
  case 1: { Grid_Generator_System z; z.insert(Grid_Generator::zero_dim_point()); return z; }
  case 2: { Grid g(r.range(1, 3)); g.add_congruence(rcg(r, g.space_dimension())); return Grid_Generator_System(g.gen_sys); }  // never computed
  default: break;
  }
  Grid_Generator_System gs;
  gs.insert(grid_point(rexpr(r, d, 3, false), r.range(1, 2)));
  for (int k = r.range(0, 4); k-- > 0; ) gs.insert(rgg(r, d));
  return gs;
}
static std::string battery(Constraint_System& x, uint64_t seed) {
  Rng r(seed); std::ostringstream o;
  o << x.space_dimension() << ' ' << x.has_strict_inequalities() << ' ' << x.has_equalities() << '\n';
  x.insert(rcon(r, x.space_dimension(), x.has_strict_inequalities()));
  o << "@@DUMP@@\n"; x.ascii_dump(o); return o.str();
}
static std::string battery(Generator_System& x, uint64_t seed) {
  Rng r(seed); std::ostringstream o;
  o << x.space_dimension() << ' ' << x.has_points() << ' ' << x.has_closure_points() << '\n';
  x.insert(point(rexpr(r, x.space_dimension(), 3, false)));
  o << "@@DUMP@@\n"; x.ascii_dump(o); return o.str();
}
static std::string battery(Congruence_System& x, uint64_t seed) {
  Rng r(seed); std::ostringstream o;
  o << x.space_dimension() << ' ' << x.num_equalities() << ' ' << x.num_proper_congruences() << '\n';
  x.insert(rcg(r, x.space_dimension()));
  o << "@@DUMP@@\n"; x.ascii_dump(o); return o.str();
}
static std::string battery(Grid_Generator_System& x, uint64_t seed) {
  Rng r(seed); std::ostringstream o;
  o << x.space_dimension() << ' ' << x.num_rows() << ' ' << x.has_points() << '\n';
  x.insert(grid_point(rexpr(r, x.space_dimension(), 3, false)));
  o << "@@DUMP@@\n"; x.ascii_dump(o); return o.str();
}
template <class S> S used_system(Rng&);
template <> Constraint_System used_system(Rng& r) { return make_cs(r); }
template <> Generator_System used_system(Rng& r) { return make_gs(r); }
template <> Congruence_System used_system(Rng& r) { return make_cgs(r); }
template <> Grid_Generator_System used_system(Rng& r) { return make_ggs(r); }

// ---------------------------------------------------------------------------------------------
// powerset, product, MIP, PIP
typedef Pointset_Powerset<C_Polyhedron> PSet;
typedef Domain_Product<C_Polyhedron, Grid>::Constraints_Product CProd;
typedef Domain_Product<NNC_Polyhedron, BD_Shape<mpq_class> >::Direct_Product DProd;

template <> struct Traits<PSet> {
  static const char* name() { return "Pointset_Powerset_C"; }
  static unsigned flags(const PSet& x) { return unsigned(x.size()); }
  static bool eq(const PSet& a, const PSet& b) { return a.geometrically_equals(b); }
};
template <> struct Traits<CProd> {
  static const char* name() { return "Constraints_Product_C_Grid"; }
  static unsigned flags(const CProd& x) { return x.reduced ? 1u : 0u; }
  static bool eq(const CProd& a, const CProd& b) { return a == b; }
};
template <> struct Traits<DProd> {
  static const char* name() { return "Direct_Product_NNC_BDS"; }
  static unsigned flags(const DProd& x) { return x.reduced ? 1u : 0u; }
  static bool eq(const DProd& a, const DProd& b) { return a == b; }
};
static PSet make_pset(Rng& r) {
  dimension_type d = r.range(1, 3);
  PSet x(d, r.coin(1, 5) ? UNIVERSE : EMPTY);
  for (int s = r.range(1, 6); s-- > 0; ) {
    switch (r.range(0, 8)) {
    case 0: case 1: case 2: { C_Polyhedron p = small_random<C_Polyhedron>(r, d); if (r.coin()) (void) p.minimized_generators(); x.add_disjunct(p); } break;
    case 3: x.add_constraint(rcon(r, d, false)); break;
    case 4: x.pairwise_reduce(); break;
    case 5: x.omega_reduce(); break;
    case 6: (void) x.is_bounded(); break;
    case 7: { Variable v(r.range(0, int(d) - 1)); x.affine_image(v, rexpr(r, d, 2)); } break;
    default: { PSet y(d, EMPTY); y.add_disjunct(small_random<C_Polyhedron>(r, d)); x.intersection_assign(y); } break;
    }
  }
  return x;
}
static std::string battery(PSet& x, uint64_t seed) {
  Rng r(seed); std::ostringstream o;
  o << x.space_dimension() << ' ' << x.size() << ' ' << x.is_empty() << ' ' << x.is_bounded() << '\n';
  x.omega_reduce(); o << x.size() << '\n';
  x.add_constraint(rcon(r, x.space_dimension(), false));
  o << "@@DUMP@@\n"; x.ascii_dump(o); return o.str();
}
template <class P> P make_prod(Rng& r) {
  dimension_type d = r.range(1, 3);
  P x(d);
  for (int s = r.range(1, 6); s-- > 0; ) {
    switch (r.range(0, 6)) {
    case 0: case 1: x.refine_with_constraint(rcon(r, d, false)); break;
    case 2: x.refine_with_congruence(rcg(r, d)); break;
    case 3: (void) x.is_empty(); break;
    case 4: { Variable v(r.range(0, int(d) - 1)); x.affine_image(v, rexpr(r, d, 2)); } break;
    case 5: { P y(d); y.refine_with_constraint(rcon(r, d, false)); x.upper_bound_assign(y); } break;
    default: (void) x.is_universe(); break;
    }
  }
  return x;
}
template <class P> std::string battery_prod(P& x, uint64_t seed) {
  Rng r(seed); std::ostringstream o;
  o << x.space_dimension() << ' ' << x.is_empty() << ' ' << x.is_universe() << ' ' << x.is_bounded() << '\n';
  x.refine_with_constraint(rcon(r, x.space_dimension(), false));
  o << x.is_empty() << '\n';
  o << "@@DUMP@@\n"; x.ascii_dump(o); return o.str();
}
static std::string battery(CProd& x, uint64_t seed) { return battery_prod(x, seed); }
static std::string battery(DProd& x, uint64_t seed) { return battery_prod(x, seed); }

template <> struct Traits<MIP_Problem> {
  static const char* name() { return "MIP_Problem"; }
  static unsigned flags(const MIP_Problem& x) { return unsigned(x.status) * 2 + (x.initialized ? 1 : 0); }
  static bool eq(const MIP_Problem& a, const MIP_Problem& b) { return dump(a) == dump(b); }
};
static Constraint bounded_con(Rng& r, dimension_type d) {
  Linear_Expression e = rexpr(r, d, 3);
  return r.coin(1, 6) ? Constraint(e == 0) : Constraint(e >= 0);
}
static MIP_Problem make_mip(Rng& r) {
  dimension_type d = r.range(1, 3);
  MIP_Problem m(d);
  for (dimension_type i = 0; i < d; ++i) { m.add_constraint(Variable(i) >= -r.range(0, 4)); m.add_constraint(Variable(i) <= r.range(0, 5)); }
  if (r.coin()) m.set_optimization_mode(MINIMIZATION);
  m.set_objective_function(rexpr(r, d, 3));
  if (r.coin(1, 3)) m.set_control_parameter(r.coin() ? MIP_Problem::PRICING_TEXTBOOK : MIP_Problem::PRICING_STEEPEST_EDGE_EXACT);
  for (int s = r.range(1, 6); s-- > 0; ) {
    switch (r.range(0, 6)) {
    case 0: case 1: m.add_constraint(bounded_con(r, d)); break;
    case 2: (void) m.is_satisfiable(); break;
    case 3: (void) m.solve(); break;
    case 4: { Variables_Set vs; vs.insert(Variable(r.range(0, int(d) - 1))); m.add_to_integer_space_dimensions(vs); } break;
    case 5: if (d < 4) { m.add_space_dimensions_and_embed(1); ++d; m.add_constraint(Variable(d - 1) >= 0); m.add_constraint(Variable(d - 1) <= 3); } break;
    default: m.set_objective_function(rexpr(r, d, 3)); break;
    }
  }
  return m;
}
static std::string battery(MIP_Problem& m, uint64_t seed) {
  Rng r(seed); std::ostringstream o;
  using namespace IO_Operators;
  o << m.space_dimension() << ' ' << m.is_satisfiable() << ' ';
  MIP_Problem_Status st = m.solve(); o << int(st) << ' ';
  if (st == OPTIMIZED_MIP_PROBLEM) { Coefficient n, d; m.optimal_value(n, d); o << n << '/' << d << ' ' << m.optimizing_point(); }
  o << '\n';
  m.add_constraint(bounded_con(r, m.space_dimension()));
  o << int(m.solve()) << '\n';
  o << "@@DUMP@@\n"; m.ascii_dump(o); return o.str();
}
template <> struct Traits<PIP_Problem> {
  static const char* name() { return "PIP_Problem"; }
  static unsigned flags(const PIP_Problem& x) { return unsigned(x.status) * 4 + (x.current_solution == 0 ? 0 : (x.current_solution->as_decision() ? 2 : 1)); }
  static bool eq(const PIP_Problem& a, const PIP_Problem& b) { return dump(a) == dump(b); }
};
static PIP_Problem make_pip(Rng& r) {
  dimension_type d = r.range(2, 3);
  PIP_Problem p(d);
  Variables_Set params; params.insert(Variable(d - 1));
  p.add_to_parameter_space_dimensions(params);
  // variables and the parameter are boxed: the solver need not terminate quickly (or at all) on the
  // unbounded problems a random generator produces, which is another property's business (C07)
  for (dimension_type i = 0; i < d; ++i) { p.add_constraint(Variable(i) >= 0); p.add_constraint(Variable(i) <= 4); }
  for (int s = r.range(1, 5); s-- > 0; ) {
    switch (r.range(0, 5)) {
    case 0: case 1: case 2: { Linear_Expression e = rexpr(r, d, 2); p.add_constraint(e >= 0); } break;
    case 3: (void) p.is_satisfiable(); break;
    case 4: (void) p.solve(); break;
    // PIVOT_ROW_STRATEGY_MAX_COLUMN is not used: solve() loops forever with it on some tiny bounded problems (reported to C07)
    default: if (r.coin(1, 3)) p.set_control_parameter(r.coin() ? PIP_Problem::CUTTING_STRATEGY_DEEPEST : PIP_Problem::CUTTING_STRATEGY_ALL); break;
    }
  }
  return p;
}
// behavioural view of a solution tree, node by node: every node reached by traversal is printed ON ITS OWN
// (PIP_Tree_Node::print numbers the node's artificial parameters by walking its ancestors), and its chain of
// parent() links is walked up and must end in the root after exactly `depth` steps (links are not part of a dump)
static void walk_pip(std::ostream& o, const PIP_Tree_Node* root, const PIP_Tree_Node* nd, unsigned depth, const std::string& path) {
  if (nd == 0) { o << "node " << path << " bottom\n"; return; }
  unsigned up = 0; const PIP_Tree_Node* a = nd;
  while (a->parent() != 0 && up <= depth + 1) { a = a->parent(); ++up; }
  o << "node " << path << " depth " << depth << " parents " << up << " reaches_root " << (a == root ? 1 : 0)
    << " artificials " << std::distance(nd->art_parameter_begin(), nd->art_parameter_end()) << "\n";
  nd->print(o, 2);
  if (const PIP_Decision_Node* d = nd->as_decision()) {
    walk_pip(o, root, d->child_node(true), depth + 1, path + "t");
    walk_pip(o, root, d->child_node(false), depth + 1, path + "f");
  }
}
static std::string battery(PIP_Problem& p, uint64_t seed) {
  Rng r(seed); std::ostringstream o;
  using namespace IO_Operators;
  PIP_Problem_Status st = p.solve(); o << p.space_dimension() << ' ' << int(st) << '\n';
  if (st == OPTIMIZED_PIP_PROBLEM) { p.print_solution(o); walk_pip(o, p.solution(), p.solution(), 0, "r"); }
  // incremental re-solve on top of the (loaded) tree: the resulting trees must be identical as well
  p.add_constraint(rexpr(r, p.space_dimension(), 2) >= 0);
  PIP_Problem_Status st2 = p.solve(); o << int(st2) << '\n';
  if (st2 == OPTIMIZED_PIP_PROBLEM) { p.print_solution(o); walk_pip(o, p.solution(), p.solution(), 0, "r"); }
  o << "@@DUMP@@\n"; p.ascii_dump(o); return o.str();
}

// ---------------------------------------------------------------------------------------------
static std::ofstream objs;
static int maxmut = 40;

// part of the target's state, besides the status word, that a loader may leave untouched
template <class T> std::string target_extra(const T&) { return ""; }
template <> std::string target_extra(const Grid& g) {
  std::ostringstream o; for (size_t i = 0; i < g.dim_kinds.size(); ++i) o << ' ' << int(g.dim_kinds[i]); return o.str();
}

template <class T> struct Maker { static T make(Rng& r) { return make_domain<T>(r); } static T target(Rng& r) { return used_target<T>(r); } };
#define SYS_MAKER(T, F) template <> struct Maker<T > { static T make(Rng& r) { return F(r); } static T target(Rng& r) { return F(r); } };
SYS_MAKER(Constraint_System, make_cs)
SYS_MAKER(Generator_System, make_gs)
SYS_MAKER(Congruence_System, make_cgs)
SYS_MAKER(Grid_Generator_System, make_ggs)
SYS_MAKER(PSet, make_pset)
SYS_MAKER(CProd, make_prod<CProd>)
SYS_MAKER(DProd, make_prod<DProd>)
SYS_MAKER(MIP_Problem, make_mip)
SYS_MAKER(PIP_Problem, make_pip)

// OK() of the original is the reference: some OK() implementations throw or fail on states the
// library itself produces (e.g. MIP_Problem after add_space_dimensions_and_embed); 2 = threw
// ---------------------------------------------------------------------------------------------
// every other class with an ascii_dump / ascii_load pair, round-tripped on its own
typedef Checked_Number<mpq_class, Extended_Number_Policy> ExtQ;
typedef Rational_Box::interval_type RItv;
#define PLAIN_CLASS(T, NAME, MAKE)                                                                \
  template <> struct Traits<T > {                                                                 \
    static const char* name() { return NAME; }                                                    \
    static unsigned flags(const T&) { return 0; }                                                 \
    static bool eq(const T& a, const T& b) { return dump(a) == dump(b); }                         \
  };                                                                                              \
  template <> struct Maker<T > { static T make(Rng& r) { return MAKE(r); } static T target(Rng& r) { return MAKE(r); } }; \
  static std::string battery(T& x, uint64_t) { std::ostringstream o; o << "@@DUMP@@\n"; x.ascii_dump(o); return o.str(); }

static Linear_Expression make_le(Rng& r) {
  switch (r.range(0, 4)) {
  case 0: return Linear_Expression();
  case 1: return Linear_Expression(Coefficient(r.range(-9, 9)));
  case 2: return Linear_Expression(rexpr(r, r.range(1, 4)), SPARSE);
  default: return Linear_Expression(rexpr(r, r.range(0, 4)), DENSE);
  }
}
static Variables_Set make_vs(Rng& r) { Variables_Set v; for (int k = r.range(0, 4); k-- > 0; ) v.insert(Variable(r.range(0, 7))); return v; }
static Bit_Matrix make_bm(Rng& r) {
  if (r.coin(1, 3)) { C_Polyhedron p = make_domain<C_Polyhedron>(r); return Bit_Matrix(r.coin() ? p.sat_c : p.sat_g); }
  dimension_type nr = r.range(0, 4), nc = r.range(0, 5);
  Bit_Matrix m(nr, nc);
  for (dimension_type i = 0; i < nr; ++i) for (dimension_type j = 0; j < nc; ++j) if (r.coin()) m[i].set(j);
  return m;
}
static Dense_Row make_dr(Rng& r) { dimension_type n = r.range(0, 5); Dense_Row x(n); for (dimension_type i = 0; i < n; ++i) if (r.coin()) x[i] = r.range(-9, 9); return x; }
static Sparse_Row make_sr(Rng& r) { dimension_type n = r.range(0, 6); Sparse_Row x(n); for (dimension_type i = 0; i < n; ++i) if (r.coin(1, 3)) x.insert(i, Coefficient(r.range(-9, 9))); return x; }
template <class Row> Matrix<Row> make_mat(Rng& r) {
  dimension_type nr = r.range(0, 3), nc = r.range(0, 4);
  Matrix<Row> m(nr, nc);
  for (dimension_type i = 0; i < nr; ++i) for (dimension_type j = 0; j < nc; ++j) if (r.coin()) m[i].insert(j, Coefficient(r.range(-9, 9)));
  return m;
}
static Matrix<Dense_Row> make_dm(Rng& r) { return make_mat<Dense_Row>(r); }
static Matrix<Sparse_Row> make_sm(Rng& r) { return make_mat<Sparse_Row>(r); }
static DB_Matrix<ExtQ> make_dbm(Rng& r) { BD_Shape<mpq_class> b = make_domain<BD_Shape<mpq_class> >(r); return DB_Matrix<ExtQ>(b.dbm); }
static OR_Matrix<ExtQ> make_orm(Rng& r) { Octagonal_Shape<mpq_class> b = make_domain<Octagonal_Shape<mpq_class> >(r); return OR_Matrix<ExtQ>(b.matrix); }
static Constraint make_crow(Rng& r) {
  switch (r.range(0, 5)) {
  case 0: return Constraint::zero_dim_false();
  case 1: return Constraint::zero_dim_positivity();
  case 2: return Constraint::epsilon_leq_one();
  default: return rcon(r, r.range(0, 3), r.coin());
  }
}
static Generator make_grow(Rng& r) { if (r.coin(1, 5)) return Generator::zero_dim_point(); return rgen(r, r.range(1, 3), r.coin()); }
static Congruence make_cgrow(Rng& r) { if (r.coin(1, 5)) return r.coin() ? Congruence::zero_dim_false() : Congruence::zero_dim_integrality(); return rcg(r, r.range(0, 3)); }
static Grid_Generator make_ggrow(Rng& r) { if (r.coin(1, 5)) return Grid_Generator::zero_dim_point(); return rgg(r, r.range(1, 3)); }
static RItv make_itv(Rng& r) {
  Rational_Box b = make_domain<Rational_Box>(r);
  if (b.space_dimension() == 0 || b.marked_empty()) { RItv i; i.assign(r.coin() ? UNIVERSE : EMPTY); return i; }
  return b.get_interval(Variable(0));
}
PLAIN_CLASS(Linear_Expression, "Linear_Expression", make_le)
PLAIN_CLASS(Variables_Set, "Variables_Set", make_vs)
PLAIN_CLASS(Bit_Matrix, "Bit_Matrix", make_bm)
PLAIN_CLASS(Dense_Row, "Dense_Row", make_dr)
PLAIN_CLASS(Sparse_Row, "Sparse_Row", make_sr)
PLAIN_CLASS(Matrix<Dense_Row>, "Matrix_Dense_Row", make_dm)
PLAIN_CLASS(Matrix<Sparse_Row>, "Matrix_Sparse_Row", make_sm)
PLAIN_CLASS(DB_Matrix<ExtQ>, "DB_Matrix_mpq", make_dbm)
PLAIN_CLASS(OR_Matrix<ExtQ>, "OR_Matrix_mpq", make_orm)
PLAIN_CLASS(Constraint, "Constraint", make_crow)
PLAIN_CLASS(Generator, "Generator", make_grow)
PLAIN_CLASS(Congruence, "Congruence", make_cgrow)
PLAIN_CLASS(Grid_Generator, "Grid_Generator", make_ggrow)
PLAIN_CLASS(RItv, "Rational_Interval", make_itv)

// a default-constructed load target (OR_Matrix declares a default constructor it does not define)
template <class T> T fresh() { return T(); }
template <> OR_Matrix<ExtQ> fresh() { return OR_Matrix<ExtQ>(0); }

template <class T> int ok_of(const T& x) { try { return x.OK() ? 1 : 0; } catch (const std::exception&) { return 2; } }

template <class T> void run_one(long idx, uint64_t seed) {
  Rng r(seed);
  const char* cls = Traits<T>::name();
  T x = Maker<T>::make(r);
  const std::string d1 = dump(x);
  const unsigned xflags = Traits<T>::flags(x);
  // (i) (ii) (iii) and semantic equality
  T y = fresh<T>();
  bool ok = load(y, d1);
  std::string d2 = ok ? dump(y) : std::string();
  const int okx = ok_of(x);
  const int oky = ok ? ok_of(y) : -1;
  bool inv = ok && (oky == okx);
  bool eq = false;
  if (ok) { try { eq = Traits<T>::eq(x, y); } catch (const std::exception&) { eq = false; } }
  // load into a USED object
  T t = Maker<T>::target(r);
  const unsigned tflags = Traits<T>::flags(t);
  const std::string textra = target_extra(t);
  bool ok3 = load(t, d1);
  std::string d3 = ok3 ? dump(t) : std::string();
  // for the OCaml side
  objs << "OBJ " << idx << ' ' << cls << "\n" << d1 << "\nENDD\n";
  objs << "D2 " << (ok ? 1 : 0) << "\n" << d2 << "\nENDD\n";
  objs << "D3 " << (ok3 ? 1 : 0) << ' ' << tflags << textra << "\n" << d3 << "\nENDD\n";
  // (vi) malformed streams
  std::vector<std::string> tk = tokens(d1);
  std::vector<long> pos;
  if (long(tk.size()) <= maxmut) for (size_t i = 0; i < tk.size(); ++i) pos.push_back(long(i));
  else for (int k = 0; k < maxmut; ++k) pos.push_back(long(r.next() % tk.size()));
  objs << "MUTS";
  for (size_t k = 0; k < pos.size(); ++k) objs << ' ' << pos[k];
  objs << "\n";
  objs.flush();
  std::cout << "B " << idx << ' ' << cls << std::endl;      // begin marker (crash localisation)
  // the mutated loads run in a child process: a loader that crashes on a malformed stream must not
  // take the rest of the run with it; the child announces each load before doing it
  std::cout.flush();
  pid_t pid = fork();
  if (pid == 0) {
    for (size_t k = 0; k < pos.size(); ++k) {
      for (int kind = 0; kind < 2; ++kind) {
        std::string m = kind == 0 ? join(tk, pos[k], -1) : join(tk, -1, pos[k]);
        std::cout << "MB " << idx << ' ' << pos[k] << ' ' << (kind == 0 ? 'D' : 'R') << std::endl;
        T z = fresh<T>();
        bool acc = load(z, m);
        std::cout << "M " << idx << ' ' << pos[k] << ' ' << (kind == 0 ? 'D' : 'R') << ' ' << (acc ? 1 : 0) << std::endl;
      }
    }
    std::cout.flush();
    _exit(0);
  }
  else if (pid > 0) {
    int st = 0;
    waitpid(pid, &st, 0);
    if (!(WIFEXITED(st) && WEXITSTATUS(st) == 0))
      std::cout << "CRASH " << idx << ' ' << cls << " status=" << st << std::endl;
  }
  // (iv) follow-up battery on the original and on the loaded object -- in a child process, because
  // a loaded object that is not the object dumped may crash the library (markers BX / BY / BZ tell where)
  std::cout.flush(); objs.flush();
  pid_t bp = fork();
  if (bp == 0) {
    bool bat = false, ans = false;
    if (ok) {
      try {
        std::cout << "BX " << idx << std::endl;
        std::string b1 = battery(x, seed ^ 0xABCDEFULL);
        std::cout << "BY " << idx << std::endl;
        std::string b2 = battery(y, seed ^ 0xABCDEFULL);
        std::cout << "BZ " << idx << std::endl;
        bat = (b1 == b2);
        ans = b1.substr(0, b1.find("@@DUMP@@")) == b2.substr(0, b2.find("@@DUMP@@"));
        objs << "B1\n" << b1.substr(b1.find("@@DUMP@@") + 9) << "\nENDD\nB2\n" << b2.substr(b2.find("@@DUMP@@") + 9) << "\nENDD\n";
      } catch (const std::exception& e) { bat = false; }
    }
    std::cout << "R " << idx << ' ' << cls << " load=" << ok << " same=" << (ok && d2 == d1) << " ok=" << inv << " okx=" << okx << " oky=" << oky
              << " eq=" << eq << " answers=" << ans << " battery=" << bat << " bcrash=0 xflags=" << xflags
              << " used_load=" << ok3 << " used_same=" << (ok3 && d3 == d1) << " tflags=" << tflags
              << " ntok=" << tk.size() << " h=" << std::hash<std::string>()(d1) << std::endl;
    objs.flush(); std::cout.flush();
    _exit(0);
  }
  int bst = 0;
  if (bp > 0) waitpid(bp, &bst, 0);
  if (bp <= 0 || !(WIFEXITED(bst) && WEXITSTATUS(bst) == 0)) {
    std::cout << "R " << idx << ' ' << cls << " load=" << ok << " same=" << (ok && d2 == d1) << " ok=" << inv << " okx=" << okx << " oky=" << oky
              << " eq=" << eq << " answers=0 battery=0 bcrash=1 xflags=" << xflags
              << " used_load=" << ok3 << " used_same=" << (ok3 && d3 == d1) << " tflags=" << tflags
              << " ntok=" << tk.size() << " h=" << std::hash<std::string>()(d1) << std::endl;
  }
}

// replay of a status witness: an object of class `cls` whose status word is forced to `st`
// is dumped and loaded into an object whose status word is forced to `tgt`
template <class D> void witness(unsigned tgt, unsigned st) {
  D x(1); x.status.flags = st;
  D t(1); t.status.flags = tgt;
  std::string d1 = dump(x);
  bool ok = load(t, d1);
  std::cout << "W " << Traits<D>::name() << " tgt=" << tgt << " st=" << st << " load=" << ok
            << " result=" << unsigned(t.status.flags) << " same=" << (ok && dump(t) == d1) << std::endl;
}

// every status word the dump can print, loaded into a default-constructed object, into every single-flag word,
// into the blank word and into the all-flags word
template <class D> void status_all(const char* cls, unsigned nbits) {
  std::vector<long> tgts; tgts.push_back(-1);                       // -1: default-constructed target
  tgts.push_back(0); tgts.push_back((1L << nbits) - 1);
  for (unsigned b = 0; b < nbits; ++b) tgts.push_back(1L << b);
  for (size_t k = 0; k < tgts.size(); ++k)
    for (unsigned st = 0; st < (1u << nbits); ++st) {
      D x(1); x.status.flags = st;
      std::string d1 = dump(x);
      D t0; D t1(1);
      D& t = tgts[k] < 0 ? t0 : t1;
      if (tgts[k] >= 0) t.status.flags = unsigned(tgts[k]);
      unsigned tw = unsigned(t.status.flags);
      bool ok = load(t, d1);
      std::string d2 = ok ? dump(t) : std::string();
      std::cout << "S " << cls << ' ' << (tgts[k] < 0 ? "fresh" : "forced") << ' ' << tw << ' ' << st << ' ' << ok << ' '
                << unsigned(t.status.flags) << ' ' << (ok && d2 == d1) << "\n";
    }
}

template <class D> void base_dom() {
  for (dimension_type d = 0; d <= 4; ++d) {
    std::cout << "BASE " << Traits<D>::name() << ' ' << std::hash<std::string>()(dump(D(d, UNIVERSE))) << "\n";
    std::cout << "BASE " << Traits<D>::name() << ' ' << std::hash<std::string>()(dump(D(d, EMPTY))) << "\n";
  }
}
template <class T> void base_def() { std::cout << "BASE " << Traits<T>::name() << ' ' << std::hash<std::string>()(dump(T())) << "\n"; }
static void baselines() {
  base_dom<C_Polyhedron>(); base_dom<NNC_Polyhedron>(); base_dom<Grid>();
  base_dom<BD_Shape<mpq_class> >(); base_dom<BD_Shape<mpz_class> >(); base_dom<BD_Shape<double> >();
  base_dom<Octagonal_Shape<mpq_class> >(); base_dom<Octagonal_Shape<double> >();
  base_dom<Rational_Box>(); base_dom<Z_Box>(); base_dom<Double_Box>();
  base_dom<PSet>(); base_dom<CProd>(); base_dom<DProd>();
  base_def<Constraint_System>(); base_def<Generator_System>(); base_def<Congruence_System>(); base_def<Grid_Generator_System>();
  for (dimension_type d = 0; d <= 4; ++d) {
    std::cout << "BASE MIP_Problem " << std::hash<std::string>()(dump(MIP_Problem(d))) << "\n";
    std::cout << "BASE PIP_Problem " << std::hash<std::string>()(dump(PIP_Problem(d))) << "\n";
  }
}

int main(int argc, char** argv) {
  struct rlimit rl; rl.rlim_cur = rl.rlim_max = 3ULL << 30; setrlimit(RLIMIT_AS, &rl);
  if (argc >= 2 && std::string(argv[1]) == "witness") {
    // witness <class> <tgt> <st>
    std::string c = argv[2]; unsigned tgt = std::atoi(argv[3]), st = std::atoi(argv[4]);
    if (c == "ph") witness<C_Polyhedron>(tgt, st);
    else if (c == "grid") witness<Grid>(tgt, st);
    else if (c == "bds") witness<BD_Shape<mpq_class> >(tgt, st);
    else if (c == "og") witness<Octagonal_Shape<mpq_class> >(tgt, st);
    else if (c == "box") witness<Rational_Box>(tgt, st);
    return 0;
  }
  if (argc >= 2 && std::string(argv[1]) == "statusall") {
    status_all<C_Polyhedron>("ph", 9); status_all<NNC_Polyhedron>("ph", 9); status_all<Grid>("grid", 9);
    status_all<BD_Shape<mpq_class> >("bds", 3); status_all<BD_Shape<double> >("bds", 3);
    status_all<Octagonal_Shape<mpq_class> >("og", 2); status_all<Octagonal_Shape<double> >("og", 2);
    status_all<Rational_Box>("box", 3); status_all<Z_Box>("box", 3); status_all<Double_Box>("box", 3);
    std::cout << "DONE statusall" << std::endl;
    return 0;
  }
  if (argc < 4) { std::cerr << "usage: run_codec <seed> <count> <objs-file> [maxmut]\n"; return 2; }
  uint64_t seed = std::strtoull(argv[1], 0, 10);
  long count = std::atol(argv[2]);
  objs.open(argv[3]);
  if (argc >= 5) maxmut = std::atoi(argv[4]);
  baselines();
  const int NCLS = 35;
  for (long i = 0; i < count; ++i) {
    uint64_t s = seed * 1000003ULL + uint64_t(i) * 7919ULL + 17ULL;
    switch (i % NCLS) {
    case 0: run_one<C_Polyhedron>(i, s); break;
    case 1: run_one<NNC_Polyhedron>(i, s); break;
    case 2: run_one<Grid>(i, s); break;
    case 3: run_one<BD_Shape<mpq_class> >(i, s); break;
    case 4: run_one<BD_Shape<mpz_class> >(i, s); break;
    case 5: run_one<BD_Shape<double> >(i, s); break;
    case 6: run_one<Octagonal_Shape<mpq_class> >(i, s); break;
    case 7: run_one<Octagonal_Shape<double> >(i, s); break;
    case 8: run_one<Rational_Box>(i, s); break;
    case 9: run_one<Z_Box>(i, s); break;
    case 10: run_one<Double_Box>(i, s); break;
    case 11: run_one<PSet>(i, s); break;
    case 12: run_one<CProd>(i, s); break;
    case 13: run_one<DProd>(i, s); break;
    case 14: run_one<Constraint_System>(i, s); break;
    case 15: run_one<Generator_System>(i, s); break;
    case 16: run_one<Congruence_System>(i, s); break;
    case 17: run_one<Grid_Generator_System>(i, s); break;
    case 18: run_one<MIP_Problem>(i, s); break;
    case 19: run_one<PIP_Problem>(i, s); break;
    case 20: run_one<Linear_Expression>(i, s); break;
    case 21: run_one<Variables_Set>(i, s); break;
    case 22: run_one<Bit_Matrix>(i, s); break;
    case 23: run_one<Dense_Row>(i, s); break;
    case 24: run_one<Sparse_Row>(i, s); break;
    case 25: run_one<Matrix<Dense_Row> >(i, s); break;
    case 26: run_one<Matrix<Sparse_Row> >(i, s); break;
    case 27: run_one<DB_Matrix<ExtQ> >(i, s); break;
    case 28: run_one<OR_Matrix<ExtQ> >(i, s); break;
    case 29: run_one<Constraint>(i, s); break;
    case 30: run_one<Generator>(i, s); break;
    case 31: run_one<Congruence>(i, s); break;
    case 32: run_one<Grid_Generator>(i, s); break;
    case 33: run_one<RItv>(i, s); break;
    default: run_one<NNC_Polyhedron>(i, s); break;
    }
  }
  std::cout << "DONE " << count << std::endl;
  return 0;
}
