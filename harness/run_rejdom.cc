// C14(a), domains other than Polyhedron: every public mutator / query / constructor that documents an exception is driven with
// ill-formed arguments of each documented kind on receivers of every state class; one line per attempt:
//   att dom=.. state=.. op=.. kind=.. expect=.. got=.. dump_same=.. sem_same=.. ok=.. args_same=..
// tools/c14_rejdom.py requires got == expect and (dump_same or (sem_same and ok)) and args_same.
// usage: run_rejdom [domain-filter]
#include "vh_ppl.hh"
#include <functional>
#include <limits>
using namespace Parma_Polyhedra_Library;

typedef BD_Shape<mpq_class> BDS; typedef Octagonal_Shape<mpq_class> OCT; typedef Box<Rational_Interval> RBOX;
typedef Pointset_Powerset<C_Polyhedron> PSET; typedef Pointset_Powerset<NNC_Polyhedron> NPSET;
typedef Domain_Product<C_Polyhedron, Grid>::Direct_Product DPROD;
typedef Domain_Product<C_Polyhedron, Grid>::Smash_Product SPROD;
typedef Domain_Product<NNC_Polyhedron, Grid>::Constraints_Product CPROD;

static const char* exn_name(const std::exception& e) {
  if (dynamic_cast<const std::invalid_argument*>(&e)) return "invalid_argument";
  if (dynamic_cast<const std::length_error*>(&e)) return "length_error";
  if (dynamic_cast<const std::domain_error*>(&e)) return "domain_error";
  if (dynamic_cast<const std::out_of_range*>(&e)) return "out_of_range";
  if (dynamic_cast<const std::logic_error*>(&e)) return "logic_error";
  if (dynamic_cast<const std::overflow_error*>(&e)) return "overflow_error";
  if (dynamic_cast<const std::runtime_error*>(&e)) return "runtime_error";
  if (dynamic_cast<const std::bad_alloc*>(&e)) return "bad_alloc";
  return "exception";
}
template <typename X> static std::string dump(const X& x) { std::ostringstream os; x.ascii_dump(os); return os.str(); }
static std::string dump(const Variables_Set& vs) { std::ostringstream os; for (Variables_Set::const_iterator i = vs.begin(); i != vs.end(); ++i) os << *i << ","; return os.str(); }
static long n_attempts = 0;
template <typename D> static std::string sdump(const D& y);

// ---- receivers ---------------------------------------------------------------------------------------------------
static const char* const STATES[] = { "universe", "bounded", "marked_empty", "empty_undetected", "empty_detected", "minimized", "zero_universe", "zero_empty", 0 };
static bool is_zero_state(const std::string& s) { return s.compare(0, 5, "zero_") == 0; }

template <typename D> struct Tr {     // default: constraint-based domains
  static void bounded(D& x) {
    x.refine_with_constraint(Variable(0) >= 0); x.refine_with_constraint(Variable(0) <= 5); x.refine_with_constraint(Variable(1) >= 1);
    x.refine_with_constraint(Variable(1) <= 4); x.refine_with_constraint(Variable(2) >= -2); x.refine_with_constraint(Variable(2) <= 2);
  }
  static void contradict(D& x) { x.refine_with_constraint(Variable(0) >= 6); }
  static void minimize(const D& x) { (void) x.is_empty(); (void) x.minimized_constraints(); }
};
template <> struct Tr<Grid> {
  static void bounded(Grid& x) { x.add_congruence((Variable(0) %= 0) / 2); x.add_congruence((Variable(1) + Variable(2) %= 1) / 3); x.add_constraint(Variable(2) == 4); }
  static void contradict(Grid& x) { x.add_congruence((Variable(0) %= 1) / 2); }
  static void minimize(const Grid& x) { (void) x.is_empty(); (void) x.minimized_congruences(); (void) x.minimized_grid_generators(); }
};
template <> struct Tr<C_Polyhedron> {
  template <typename X> static void bounded_generic(X& x) {
    x.refine_with_constraint(Variable(0) >= 0); x.refine_with_constraint(Variable(0) <= 5); x.refine_with_constraint(Variable(1) >= 1);
    x.refine_with_constraint(Variable(1) <= 4); x.refine_with_constraint(Variable(2) >= -2); x.refine_with_constraint(Variable(2) <= 2);
  }
};
template <typename D1, typename D2, typename R> struct Tr<Partially_Reduced_Product<D1, D2, R> > {
  typedef Partially_Reduced_Product<D1, D2, R> P;
  static void bounded(P& x) { Tr<C_Polyhedron>::bounded_generic(x); x.refine_with_congruence((Variable(0) %= 0) / 2); }
  static void contradict(P& x) { x.refine_with_constraint(Variable(0) >= 6); }
  static void minimize(const P& x) { (void) x.is_empty(); }
};
template <typename PH> struct Tr<Pointset_Powerset<PH> > {
  typedef Pointset_Powerset<PH> P;
  static void bounded(P& x) { Tr<C_Polyhedron>::bounded_generic(x); PH q(3); q.add_constraint(Variable(0) == 9); q.add_constraint(Variable(1) <= 2); x.add_disjunct(q); }
  static void contradict(P& x) { x.refine_with_constraint(Variable(0) >= 12); }
  static void minimize(const P& x) { (void) x.is_empty(); x.omega_reduce(); }
};

template <typename D> static D* mk(const std::string& st) {
  if (st == "zero_universe") return new D(0, UNIVERSE);
  if (st == "zero_empty") return new D(0, EMPTY);
  if (st == "marked_empty") return new D(3, EMPTY);
  D* x = new D(3, UNIVERSE);
  if (st == "universe") return x;
  Tr<D>::bounded(*x);
  if (st == "bounded") return x;
  if (st == "minimized") { Tr<D>::minimize(*x); return x; }
  Tr<D>::contradict(*x);
  if (st == "empty_detected") (void) x->is_empty();
  return x;
}

template <typename D> static std::string sdump(const D& y) { D c(y); Tr<D>::minimize(c); D c2(c); return dump(c2); }

// ---- one attempt ---------------------------------------------------------------------------------------------------
template <typename D>
static void attempt(const char* dom, const std::string& st, const char* op, const char* kind, const char* expect,
                    std::function<void(D&)> f, std::function<std::string()> argdump = std::function<std::string()>()) {
  ++n_attempts;
  D* x = mk<D>(st);
  std::string before = dump(*x), abefore = argdump ? argdump() : std::string();
  D snap(*x);
  std::string got = "none";
  try { f(*x); } catch (const std::exception& e) { got = exn_name(e); } catch (...) { got = "unknown"; }
  std::string after = dump(*x), aafter = argdump ? argdump() : std::string();
  bool sem = false, ok = false;
  try { ok = x->OK(); sem = (x->space_dimension() == snap.space_dimension()) && (*x == snap); } catch (const std::exception& e) { sem = false; }
  std::cout << "att dom=" << dom << " state=" << st << " op=" << op << " kind=" << kind << " expect=" << expect << " got=" << got
            << " dump_same=" << (before == after) << " sem_same=" << sem << " ok=" << ok << " args_same=" << (abefore == aafter) << std::endl;
  delete x;
}

struct PF { std::vector<long> m;
  bool has_empty_codomain() const { for (size_t i = 0; i < m.size(); ++i) if (m[i] >= 0) return false; return true; }
  dimension_type max_in_codomain() const { long mx = 0; for (size_t i = 0; i < m.size(); ++i) if (m[i] > mx) mx = m[i]; return mx; }
  bool maps(dimension_type i, dimension_type& j) const { if (i >= m.size() || m[i] < 0) return false; j = m[i]; return true; } };

// capability tags
template <typename D> struct Cap { enum { binary_full = 1, widening = 1, frequency = 1, simplify = 1, wrap = 1, expand_fold = 1, strictly = 1 }; };
template <typename PH> struct Cap<Pointset_Powerset<PH> > { enum { binary_full = 1, widening = 0, frequency = 0, simplify = 0, wrap = 0, expand_fold = 1, strictly = 1 }; };
template <typename D1, typename D2, typename R> struct Cap<Partially_Reduced_Product<D1, D2, R> > { enum { binary_full = 1, widening = 1, frequency = 0, simplify = 0, wrap = 0, expand_fold = 1, strictly = 1 }; };
template <int> struct Tag {};
// the weakly relational shapes document no exception for a space-dimension overflow (they just try to allocate): only "unchanged" is required there
template <typename D> struct Ovf { static const char* expect() { return "length_error"; } };
template <typename T> struct Ovf<BD_Shape<T> > { static const char* expect() { return "undocumented"; } };
template <typename T> struct Ovf<Octagonal_Shape<T> > { static const char* expect() { return "undocumented"; } };

#define ATT(OP, KIND, EXPECT, ...) attempt<D>(dom, st, OP, KIND, EXPECT, [=](D& x) { __VA_ARGS__; })
#define ATTA(OP, KIND, EXPECT, ARGD, ...) attempt<D>(dom, st, OP, KIND, EXPECT, [=](D& x) { __VA_ARGS__; }, [=]() { return ARGD; })

template <typename D> static void att_widening(const char* dom, const std::string& st, const D* y4, Tag<1>) { ATTA("widening_assign", "dim", "invalid_argument", sdump(*y4), x.widening_assign(*y4)); }
template <typename D> static void att_widening(const char*, const std::string&, const D*, Tag<0>) {}
template <typename D> static void att_frequency(const char* dom, const std::string& st, unsigned n, Tag<1>) {
  ATT("frequency", "dim", "invalid_argument", Coefficient a, b, c, d; (void) x.frequency(Linear_Expression(Variable(n)), a, b, c, d)); }
template <typename D> static void att_frequency(const char*, const std::string&, unsigned, Tag<0>) {}
template <typename D> static void att_simplify(const char* dom, const std::string& st, const D* y4, Tag<1>) { ATTA("simplify_using_context_assign", "dim", "invalid_argument", sdump(*y4), (void) x.simplify_using_context_assign(*y4)); }
template <typename D> static void att_simplify(const char*, const std::string&, const D*, Tag<0>) {}
template <typename D> static void att_wrap(const char* dom, const std::string& st, unsigned n, Tag<1>) {
  ATT("wrap_assign", "var", "invalid_argument", Variables_Set vs; vs.insert(Variable(n)); x.wrap_assign(vs, BITS_8, UNSIGNED, OVERFLOW_WRAPS)); }
template <typename D> static void att_wrap(const char*, const std::string&, unsigned, Tag<0>) {}

// ---- the generic battery ---------------------------------------------------------------------------------------------------
template <typename D> static void generic_battery(const char* dom) {
  for (int si = 0; STATES[si]; ++si) {
    const std::string st = STATES[si];
    const unsigned n = is_zero_state(st) ? 0 : 3;           // space dimension of the receiver
    const Variable W(n);                                     // first variable outside the space
    const Linear_Expression eW = Linear_Expression(W) + 1;   // dimension-incompatible expression
    Linear_Expression e0; if (n > 0) e0 = Variable(0) + 2; else e0 = Linear_Expression(2);
    // dimension-incompatible arguments
    ATT("add_constraint", "dim", "invalid_argument", x.add_constraint(W == 1));
    ATT("refine_with_constraint", "dim", "invalid_argument", x.refine_with_constraint(W >= 1));
    for (int pos = 0; pos < 3; ++pos) {
      Constraint_System* cs = new Constraint_System;
      const char* kd[] = { "dim-first", "dim-middle", "dim-last" };
      for (int j = 0; j < 3; ++j) { if (j == pos) cs->insert(W == 1); else if (n > 0) cs->insert(Variable(j % n) == (j % n == 0 ? 1 : (j % n == 1 ? 2 : 0))); else cs->insert(Linear_Expression(0) == 0); }
      ATTA("add_constraints", kd[pos], "invalid_argument", dump(*cs), x.add_constraints(*cs));
      ATTA("refine_with_constraints", kd[pos], "invalid_argument", dump(*cs), x.refine_with_constraints(*cs));
    }
    ATT("add_congruence", "dim", "invalid_argument", x.add_congruence((W %= 1) / 0));
    ATT("refine_with_congruence", "dim", "invalid_argument", x.refine_with_congruence((W %= 1) / 2));
    { Congruence_System* cgs = new Congruence_System; if (n > 0) cgs->insert((Variable(0) %= 0) / 0); cgs->insert((W %= 1) / 0);
      ATTA("add_congruences", "dim-last", "invalid_argument", dump(*cgs), x.add_congruences(*cgs));
      ATTA("refine_with_congruences", "dim-last", "invalid_argument", dump(*cgs), x.refine_with_congruences(*cgs)); }
    ATT("relation_with(c)", "dim", "invalid_argument", (void) x.relation_with(W >= 0));
    ATT("relation_with(cg)", "dim", "invalid_argument", (void) x.relation_with((W %= 0) / 2));
    ATT("relation_with(g)", "dim", "invalid_argument", (void) x.relation_with(point(W)));
    ATT("bounds_from_above", "dim", "invalid_argument", (void) x.bounds_from_above(eW));
    ATT("bounds_from_below", "dim", "invalid_argument", (void) x.bounds_from_below(eW));
    ATT("maximize", "dim", "invalid_argument", Coefficient a, b; bool m; (void) x.maximize(eW, a, b, m));
    ATT("minimize(point)", "dim", "invalid_argument", Coefficient a, b; bool m; Generator g = point(); (void) x.minimize(eW, a, b, m, g));
    att_frequency<D>(dom, st, n, Tag<Cap<D>::frequency>());
    ATT("constrains", "var", "invalid_argument", (void) x.constrains(W));
    ATT("unconstrain(v)", "var", "invalid_argument", x.unconstrain(W));
    ATT("unconstrain(vs)", "var", "invalid_argument", Variables_Set vs; if (n > 0) vs.insert(Variable(0)); vs.insert(Variable(n + 1)); x.unconstrain(vs));
    att_wrap<D>(dom, st, n, Tag<Cap<D>::wrap>());
    ATT("affine_image", "var", "invalid_argument", x.affine_image(W, e0));
    ATT("affine_image", "dim-expr", "invalid_argument", if (n > 0) x.affine_image(Variable(0), eW); else x.affine_image(W, eW));
    ATT("affine_preimage", "var", "invalid_argument", x.affine_preimage(W, e0));
    ATT("affine_preimage", "dim-expr", "invalid_argument", if (n > 0) x.affine_preimage(Variable(0), eW); else x.affine_preimage(W, eW));
    ATT("generalized_affine_image(v)", "var", "invalid_argument", x.generalized_affine_image(W, LESS_OR_EQUAL, e0));
    ATT("generalized_affine_preimage(v)", "var", "invalid_argument", x.generalized_affine_preimage(W, GREATER_OR_EQUAL, e0));
    ATT("generalized_affine_image(lhs)", "dim-lhs", "invalid_argument", x.generalized_affine_image(eW, LESS_OR_EQUAL, e0));
    ATT("generalized_affine_image(lhs)", "dim-rhs", "invalid_argument", x.generalized_affine_image(e0, LESS_OR_EQUAL, eW));
    ATT("generalized_affine_preimage(lhs)", "dim-lhs", "invalid_argument", x.generalized_affine_preimage(eW, GREATER_OR_EQUAL, e0));
    ATT("generalized_affine_preimage(lhs)", "dim-rhs", "invalid_argument", x.generalized_affine_preimage(e0, GREATER_OR_EQUAL, eW));
    ATT("bounded_affine_image", "var", "invalid_argument", x.bounded_affine_image(W, e0, e0));
    ATT("bounded_affine_preimage", "var", "invalid_argument", x.bounded_affine_preimage(W, e0, e0));
    ATT("remove_space_dimensions", "var", "invalid_argument", Variables_Set vs; vs.insert(W); x.remove_space_dimensions(vs));
    ATT("remove_higher_space_dimensions", "dim", "invalid_argument", x.remove_higher_space_dimensions(n + 1));
    ATT("expand_space_dimension", "var", "invalid_argument", x.expand_space_dimension(W, 1));
    ATT("fold_space_dimensions", "var-dest", "invalid_argument", Variables_Set vs; if (n > 1) vs.insert(Variable(1)); x.fold_space_dimensions(vs, W));
    // space-dimension overflow
    ATT("add_space_dimensions_and_embed", "overflow", Ovf<D>::expect(), x.add_space_dimensions_and_embed(D::max_space_dimension() - n + 1));
    ATT("add_space_dimensions_and_project", "overflow", Ovf<D>::expect(), x.add_space_dimensions_and_project(D::max_space_dimension() - n + 1));
    // huge counts: the count alone exceeds the maximum, and counts for which `space_dimension() + m' wraps around
    { const dimension_type SM = std::numeric_limits<dimension_type>::max();
      const dimension_type huge[] = { SM, SM - 1, SM - n + 1, SM - n, D::max_space_dimension() };
      static const char* hk[] = { "overflow-size-max", "overflow-size-max-1", "overflow-wraps-to-1", "overflow-wraps-to-0", "overflow-max" };
      for (int h = 0; h < 5; ++h) {
        if (h == 4 && n == 0) continue;      // adding max dimensions to a zero-dim object is legal
        if (h == 2 && n == 0) continue;      // SIZE_MAX - 0 + 1 is 0: adding no dimension is legal
        if (std::string(Ovf<D>::expect()) == "undocumented") continue;   // (the shapes document nothing here and compute n + m unchecked)
        const dimension_type m = huge[h];
        ATT("add_space_dimensions_and_embed", hk[h], "length_error", x.add_space_dimensions_and_embed(m));
        ATT("add_space_dimensions_and_project", hk[h], "length_error", x.add_space_dimensions_and_project(m));
        if (n > 0 && h < 4) ATT("expand_space_dimension", hk[h], "length_error", x.expand_space_dimension(Variable(0), m));
      } }
    // binary operations with an argument of another dimension
    {
      const D* y4 = new D(n + 1, UNIVERSE);
      ATTA("intersection_assign", "dim", "invalid_argument", sdump(*y4), x.intersection_assign(*y4));
      ATTA("upper_bound_assign", "dim", "invalid_argument", sdump(*y4), x.upper_bound_assign(*y4));
      ATTA("difference_assign", "dim", "invalid_argument", sdump(*y4), x.difference_assign(*y4));
      ATTA("time_elapse_assign", "dim", "invalid_argument", sdump(*y4), x.time_elapse_assign(*y4));
      ATTA("contains", "dim", "invalid_argument", sdump(*y4), (void) x.contains(*y4));
      ATTA("strictly_contains", "dim", "invalid_argument", sdump(*y4), (void) x.strictly_contains(*y4));
      ATTA("is_disjoint_from", "dim", "invalid_argument", sdump(*y4), (void) x.is_disjoint_from(*y4));
      att_widening<D>(dom, st, y4, Tag<Cap<D>::widening>());
      att_simplify<D>(dom, st, y4, Tag<Cap<D>::simplify>());
    }
    if (n == 0) continue;
    // ---- the remaining kinds need variables ----
    ATT("affine_image", "zero-denominator", "invalid_argument", x.affine_image(Variable(0), e0, Coefficient(0)));
    ATT("affine_preimage", "zero-denominator", "invalid_argument", x.affine_preimage(Variable(1), e0, Coefficient(0)));
    ATT("generalized_affine_image(v)", "zero-denominator", "invalid_argument", x.generalized_affine_image(Variable(0), LESS_OR_EQUAL, e0, Coefficient(0)));
    ATT("generalized_affine_preimage(v)", "zero-denominator", "invalid_argument", x.generalized_affine_preimage(Variable(0), LESS_OR_EQUAL, e0, Coefficient(0)));
    ATT("bounded_affine_image", "zero-denominator", "invalid_argument", x.bounded_affine_image(Variable(0), e0, e0, Coefficient(0)));
    ATT("bounded_affine_preimage", "zero-denominator", "invalid_argument", x.bounded_affine_preimage(Variable(0), e0, e0, Coefficient(0)));
    ATT("bounded_affine_image", "dim-lb", "invalid_argument", x.bounded_affine_image(Variable(0), eW, e0));
    ATT("bounded_affine_image", "dim-ub", "invalid_argument", x.bounded_affine_image(Variable(0), e0, eW));
    ATT("bounded_affine_preimage", "dim-lb", "invalid_argument", x.bounded_affine_preimage(Variable(0), eW, e0));
    ATT("bounded_affine_preimage", "dim-ub", "invalid_argument", x.bounded_affine_preimage(Variable(0), e0, eW));
    ATT("generalized_affine_image(v)", "dim-expr", "invalid_argument", x.generalized_affine_image(Variable(0), LESS_OR_EQUAL, eW));
    ATT("generalized_affine_preimage(v)", "dim-expr", "invalid_argument", x.generalized_affine_preimage(Variable(0), LESS_OR_EQUAL, eW));
    ATT("generalized_affine_image(v)", "not-equal", "invalid_argument", x.generalized_affine_image(Variable(0), NOT_EQUAL, e0));
    ATT("generalized_affine_preimage(v)", "not-equal", "invalid_argument", x.generalized_affine_preimage(Variable(0), NOT_EQUAL, e0));
    ATT("generalized_affine_image(lhs)", "not-equal", "invalid_argument", x.generalized_affine_image(Linear_Expression(Variable(1)), NOT_EQUAL, e0));
    ATT("generalized_affine_preimage(lhs)", "not-equal", "invalid_argument", x.generalized_affine_preimage(Linear_Expression(Variable(1)), NOT_EQUAL, e0));
    ATT("fold_space_dimensions", "dest-in-set", "invalid_argument", Variables_Set vs; vs.insert(Variable(0)); vs.insert(Variable(1)); x.fold_space_dimensions(vs, Variable(0)));
    ATT("fold_space_dimensions", "var-set", "invalid_argument", Variables_Set vs; vs.insert(Variable(1)); vs.insert(Variable(4)); x.fold_space_dimensions(vs, Variable(0)));
    ATT("expand_space_dimension", "overflow", "length_error", x.expand_space_dimension(Variable(0), D::max_space_dimension()));
  }
}

// constraints of an unsupported kind (first / middle / last in a system) and proper congruences
template <typename D> static void kind_battery(const char* dom, const Constraint& bad, const char* badname, bool proper_cg_rejected) {
  for (int si = 0; STATES[si]; ++si) {
    const std::string st = STATES[si];
    if (is_zero_state(st)) continue;
    const Constraint* b = new Constraint(bad);
    ATT("add_constraint", badname, "invalid_argument", x.add_constraint(*b));
    for (int pos = 0; pos < 3; ++pos) {
      Constraint_System* cs = new Constraint_System;
      static const char* kd[] = { "first", "middle", "last" };
      std::string* k = new std::string(std::string(badname) + "-" + kd[pos]);
      for (int j = 0; j < 3; ++j) { if (j == pos) cs->insert(*b); else cs->insert(Variable(j) == j + 1); }
      ATTA("add_constraints", k->c_str(), "invalid_argument", dump(*cs), x.add_constraints(*cs));
    }
    if (proper_cg_rejected) {
      ATT("add_congruence", "proper-congruence", "invalid_argument", x.add_congruence((Variable(0) + Variable(1) %= 1) / 3));
      for (int pos = 0; pos < 3; ++pos) {
        Congruence_System* cgs = new Congruence_System;
        static const char* kd[] = { "proper-congruence-first", "proper-congruence-middle", "proper-congruence-last" };
        for (int j = 0; j < 3; ++j) { if (j == pos) cgs->insert((Variable(0) %= 1) / 3); else cgs->insert((Variable(j) %= j + 1) / 0); }
        ATTA("add_congruences", kd[pos], "invalid_argument", dump(*cgs), x.add_congruences(*cgs));
      }
    }
  }
}
template <typename D> static void strict_rel_battery(const char* dom) {
  for (int si = 0; STATES[si]; ++si) {
    const std::string st = STATES[si];
    if (is_zero_state(st)) continue;
    Linear_Expression e0 = Variable(0) + 2;
    ATT("generalized_affine_image(v)", "strict-relation", "invalid_argument", x.generalized_affine_image(Variable(0), LESS_THAN, e0));
    ATT("generalized_affine_preimage(v)", "strict-relation", "invalid_argument", x.generalized_affine_preimage(Variable(0), GREATER_THAN, e0));
    ATT("generalized_affine_image(lhs)", "strict-relation", "invalid_argument", x.generalized_affine_image(Linear_Expression(Variable(1)), LESS_THAN, e0));
    ATT("generalized_affine_preimage(lhs)", "strict-relation", "invalid_argument", x.generalized_affine_preimage(Linear_Expression(Variable(1)), GREATER_THAN, e0));
  }
}
template <typename D> static void ctor_battery(const char* dom, const Constraint& bad, const char* badname) {
  const std::string st = "none";
  std::string got = "none";
  try { D x(D::max_space_dimension() + 1, UNIVERSE); } catch (const std::exception& e) { got = exn_name(e); }
  std::cout << "att dom=" << dom << " state=ctor op=ctor(dim) kind=overflow expect=" << Ovf<D>::expect() << " got=" << got << " dump_same=1 sem_same=1 ok=1 args_same=1\n";
  Constraint_System cs; cs.insert(Variable(0) >= 0); cs.insert(bad); cs.insert(Variable(1) <= 3);
  std::string b = dump(cs); got = "none";
  try { D x(cs); } catch (const std::exception& e) { got = exn_name(e); }
  std::cout << "att dom=" << dom << " state=ctor op=ctor(cs) kind=" << badname << "-middle expect=invalid_argument got=" << got << " dump_same=1 sem_same=1 ok=1 args_same=" << (b == dump(cs)) << "\n";
  n_attempts += 2;
}

// Grid-specific: generators
static void grid_battery() {
  typedef Grid D; const char* dom = "Grid";
  for (int si = 0; STATES[si]; ++si) {
    const std::string st = STATES[si];
    const unsigned n = is_zero_state(st) ? 0 : 3;
    ATT("add_grid_generator", "dim", "invalid_argument", x.add_grid_generator(grid_point(Variable(n))));
    { Grid_Generator_System* gs = new Grid_Generator_System; gs->insert(grid_point()); gs->insert(grid_point(Variable(n)));
      ATTA("add_grid_generators", "dim-last", "invalid_argument", dump(*gs), x.add_grid_generators(*gs)); }
    ATT("relation_with(gg)", "dim", "invalid_argument", (void) x.relation_with(grid_point(Variable(n))));
    if (n == 0) continue;
    bool empty = (st == "marked_empty" || st == "empty_undetected" || st == "empty_detected");
    if (empty) {
      ATT("add_grid_generator", "non-point-into-empty", "invalid_argument", x.add_grid_generator(parameter(Variable(0))));
      { Grid_Generator_System* gs = new Grid_Generator_System; gs->insert(grid_line(Variable(0))); gs->insert(parameter(Variable(1)));
        ATTA("add_grid_generators", "no-point-into-empty", "invalid_argument", dump(*gs), x.add_grid_generators(*gs)); }
    }
    ATT("generalized_affine_image(v,m)", "zero-denominator", "invalid_argument", x.generalized_affine_image(Variable(0), EQUAL, Variable(1) + 1, Coefficient(0), Coefficient(2)));
    { const Grid* y4 = new Grid(4); Congruence_System* cgs = new Congruence_System; cgs->insert((Variable(0) %= 0) / 2);
      ATTA("limited_extrapolation_assign", "dim", "invalid_argument", sdump(*y4), x.limited_extrapolation_assign(*y4, *cgs));
      const Grid* y3 = new Grid(3, EMPTY); Congruence_System* cg4 = new Congruence_System; cg4->insert((Variable(3) %= 0) / 2);
      ATTA("limited_extrapolation_assign", "dim-cgs", "invalid_argument", dump(*cg4), x.limited_extrapolation_assign(*y3, *cg4)); }
  }
}
// powerset-specific
template <typename PH> static void powerset_battery(const char* dom) {
  typedef Pointset_Powerset<PH> D;
  for (int si = 0; STATES[si]; ++si) {
    const std::string st = STATES[si];
    const unsigned n = is_zero_state(st) ? 0 : 3;
    { const PH* d4 = new PH(n + 1, UNIVERSE); ATTA("add_disjunct", "dim", "invalid_argument", dump(*d4), x.add_disjunct(*d4)); }
    { const D* y4 = new D(n + 1, UNIVERSE);
      ATTA("geometrically_covers", "dim", "invalid_argument", sdump(*y4), (void) x.geometrically_covers(*y4));
      ATTA("BHZ03_widening_assign", "dim", "invalid_argument", sdump(*y4), x.template BHZ03_widening_assign<BHRZ03_Certificate>(*y4, widen_fun_ref(&Polyhedron::H79_widening_assign)));
    }
  }
}

// ---- MIP_Problem ---------------------------------------------------------------------------------------------------
static const char* const MIP_STATES[] = { "fresh", "solved", "solved_int", "unsat_undetected", "unsat_detected", "unbounded_solved", "zero_dim", 0 };
static MIP_Problem* mk_mip(const std::string& st) {
  if (st == "zero_dim") return new MIP_Problem(0);
  Constraint_System cs; cs.insert(Variable(0) >= 0); cs.insert(Variable(1) >= 0); cs.insert(Variable(2) >= 0);
  cs.insert(2 * Variable(0) + Variable(1) + Variable(2) <= 14); cs.insert(Variable(0) - Variable(1) >= -3);
  MIP_Problem* p = new MIP_Problem(3, cs, Variable(0) + 2 * Variable(1) + Variable(2), MAXIMIZATION);
  if (st == "fresh") return p;
  if (st == "solved") { (void) p->solve(); return p; }
  if (st == "solved_int") { Variables_Set vs; vs.insert(Variable(0)); vs.insert(Variable(2)); p->add_to_integer_space_dimensions(vs); (void) p->solve(); return p; }
  if (st == "unbounded_solved") { delete p; Constraint_System c2; c2.insert(Variable(0) >= 0); c2.insert(Variable(1) >= 1); p = new MIP_Problem(3, c2, Variable(0) + Variable(1), MAXIMIZATION); (void) p->solve(); return p; }
  p->add_constraint(Variable(0) + Variable(1) + Variable(2) <= -1);
  if (st == "unsat_detected") (void) p->is_satisfiable();
  return p;
}
static std::string mip_obs(const MIP_Problem& p) {     // semantic observation on a COPY
  MIP_Problem z(p); std::ostringstream os;
  dimension_type nc = 0; for (MIP_Problem::const_iterator i = z.constraints_begin(); i != z.constraints_end(); ++i) ++nc;
  os << "dim=" << z.space_dimension() << ";cons=" << nc << ";ints=" << z.integer_space_dimensions().size() << ";mode=" << z.optimization_mode() << ";ok=" << z.OK();
  MIP_Problem_Status s = z.solve(); os << ";solve=" << s;
  if (s == OPTIMIZED_MIP_PROBLEM) { Coefficient a, b; z.optimal_value(a, b); os << ";opt=" << a << "/" << b; }
  return os.str();
}
static void mip_attempt(const std::string& st, const char* op, const char* kind, const char* expect, std::function<void(MIP_Problem&)> f,
                        std::function<std::string()> argdump = std::function<std::string()>()) {
  ++n_attempts;
  MIP_Problem* p = mk_mip(st);
  std::string before = dump(*p), ob = mip_obs(*p), ab = argdump ? argdump() : std::string(), got = "none";
  try { f(*p); } catch (const std::exception& e) { got = exn_name(e); }
  std::string after = dump(*p), oa = mip_obs(*p);
  // a follow-up valid constraint must not activate anything that the rejected call left behind
  std::string fa, fb;
  { MIP_Problem* q = mk_mip(st); q->add_constraint(Linear_Expression(0) >= -1); fb = mip_obs(*q); delete q; MIP_Problem z(*p); z.add_constraint(Linear_Expression(0) >= -1); fa = mip_obs(z); }
  std::cout << "att dom=MIP_Problem state=" << st << " op=" << op << " kind=" << kind << " expect=" << expect << " got=" << got
            << " dump_same=" << (before == after) << " sem_same=" << (ob == oa && fa == fb) << " ok=" << p->OK() << " args_same=" << (ab == (argdump ? argdump() : std::string())) << std::endl;
  delete p;
}
static void mip_battery() {
  for (int si = 0; MIP_STATES[si]; ++si) {
    const std::string st = MIP_STATES[si];
    const unsigned n = (st == "zero_dim") ? 0 : 3; const Variable W(n);
    mip_attempt(st, "add_constraint", "dim", "invalid_argument", [=](MIP_Problem& p) { p.add_constraint(W >= 1); });
    mip_attempt(st, "set_objective_function", "dim", "invalid_argument", [=](MIP_Problem& p) { p.set_objective_function(Linear_Expression(W)); });
    mip_attempt(st, "add_to_integer_space_dimensions", "var", "invalid_argument", [=](MIP_Problem& p) { Variables_Set vs; vs.insert(W); p.add_to_integer_space_dimensions(vs); });
    mip_attempt(st, "add_space_dimensions_and_embed", "overflow", "length_error", [=](MIP_Problem& p) { p.add_space_dimensions_and_embed(MIP_Problem::max_space_dimension() - n + 1); });
    { const dimension_type SM = std::numeric_limits<dimension_type>::max();
      const dimension_type huge[] = { SM, SM - 1, SM - n + 1, SM - n };
      static const char* hk[] = { "overflow-size-max", "overflow-size-max-1", "overflow-wraps-to-1", "overflow-wraps-to-0" };
      for (int h = 0; h < 4; ++h) { const dimension_type m = huge[h];
        if (h == 2 && n == 0) continue;
        mip_attempt(st, "add_space_dimensions_and_embed", hk[h], "length_error", [=](MIP_Problem& p) { p.add_space_dimensions_and_embed(m); }); } }
    mip_attempt(st, "evaluate_objective_function", "dim", "invalid_argument", [=](MIP_Problem& p) { Coefficient a, b; p.evaluate_objective_function(point(W), a, b); });
    { Constraint_System* cs = new Constraint_System; cs->insert(Linear_Expression(1) >= 0); cs->insert(W >= 0);
      mip_attempt(st, "add_constraints", "dim-last", "invalid_argument", [=](MIP_Problem& p) { p.add_constraints(*cs); }, [=]() { return dump(*cs); }); }
    if (n == 0) continue;
    mip_attempt(st, "add_constraint", "strict", "invalid_argument", [=](MIP_Problem& p) { p.add_constraint(Variable(0) + Variable(1) > 1); });
    mip_attempt(st, "evaluate_objective_function", "non-point", "invalid_argument", [=](MIP_Problem& p) { Coefficient a, b; p.evaluate_objective_function(ray(Variable(0)), a, b); });
    for (int pos = 0; pos < 3; ++pos) {
      static const char* kd[] = { "strict-first", "strict-middle", "strict-last" };
      Constraint_System* cs = new Constraint_System;
      // the valid members really cut the feasible region, so that a partial insertion is visible in the optimum
      for (int j = 0; j < 3; ++j) { if (j == pos) cs->insert(Variable(1) > 0); else cs->insert(Variable(j) <= 1); }
      mip_attempt(st, "add_constraints", kd[pos], "invalid_argument", [=](MIP_Problem& p) { p.add_constraints(*cs); }, [=]() { return dump(*cs); });
    }
    bool unsat = (st.compare(0, 5, "unsat") == 0), unbounded = (st == "unbounded_solved");
    if (unsat) mip_attempt(st, "feasible_point", "unsatisfiable", "domain_error", [=](MIP_Problem& p) { (void) p.feasible_point(); });
    if (unsat || unbounded) {
      mip_attempt(st, "optimizing_point", unsat ? "unsatisfiable" : "unbounded", "domain_error", [=](MIP_Problem& p) { (void) p.optimizing_point(); });
      mip_attempt(st, "optimal_value", unsat ? "unsatisfiable" : "unbounded", "domain_error", [=](MIP_Problem& p) { Coefficient a, b; p.optimal_value(a, b); });
    }
  }
  // constructors
  struct C { const char* kind; const char* expect; std::function<void()> f; };
  Constraint_System good; good.insert(Variable(0) >= 0); good.insert(Variable(1) <= 3);
  Constraint_System strict_mid; strict_mid.insert(Variable(0) >= 0); strict_mid.insert(Variable(1) > 0); strict_mid.insert(Variable(0) <= 4);
  Constraint_System dim4; dim4.insert(Variable(0) >= 0); dim4.insert(Variable(3) <= 1);
  Variables_Set iv; iv.insert(Variable(5));
  C cs[] = {
    { "overflow", "length_error", [&]() { MIP_Problem p(MIP_Problem::max_space_dimension() + 1); } },
    { "overflow-full", "length_error", [&]() { MIP_Problem p(MIP_Problem::max_space_dimension() + 1, good, Linear_Expression(0), MAXIMIZATION); } },
    { "cs-dim", "invalid_argument", [&]() { MIP_Problem p(3, dim4, Linear_Expression(0), MAXIMIZATION); } },
    { "cs-strict-middle", "invalid_argument", [&]() { MIP_Problem p(3, strict_mid, Linear_Expression(0), MAXIMIZATION); } },
    { "obj-dim", "invalid_argument", [&]() { MIP_Problem p(3, good, Linear_Expression(Variable(3)), MAXIMIZATION); } },
    { "range-dim", "invalid_argument", [&]() { MIP_Problem p(3, dim4.begin(), dim4.end(), Linear_Expression(0), MAXIMIZATION); } },
    { "range-strict-middle", "invalid_argument", [&]() { MIP_Problem p(3, strict_mid.begin(), strict_mid.end(), Linear_Expression(0), MAXIMIZATION); } },
    { "int-vars-dim", "invalid_argument", [&]() { MIP_Problem p(3, good.begin(), good.end(), iv, Linear_Expression(0), MAXIMIZATION); } },
  };
  for (size_t i = 0; i < sizeof cs / sizeof cs[0]; ++i) {
    std::string got = "none"; try { cs[i].f(); } catch (const std::exception& e) { got = exn_name(e); }
    std::cout << "att dom=MIP_Problem state=ctor op=ctor kind=" << cs[i].kind << " expect=" << cs[i].expect << " got=" << got << " dump_same=1 sem_same=1 ok=1 args_same=1\n"; ++n_attempts;
  }
}

// ---- PIP_Problem ---------------------------------------------------------------------------------------------------
static const char* const PIP_STATES[] = { "fresh", "solved", "unsat_undetected", "unsat_solved", "zero_dim", 0 };
static PIP_Problem* mk_pip(const std::string& st) {
  if (st == "zero_dim") return new PIP_Problem(0);
  Constraint_System cs; cs.insert(2 * Variable(1) - Variable(0) >= 0); cs.insert(Variable(1) <= Variable(2)); cs.insert(Variable(0) <= Variable(3));
  cs.insert(Variable(0) >= 0); cs.insert(Variable(1) >= 0); cs.insert(Variable(3) >= 0); cs.insert(Variable(2) <= 12);
  Variables_Set params; params.insert(Variable(2)); params.insert(Variable(3));
  PIP_Problem* p = new PIP_Problem(4, cs.begin(), cs.end(), params);
  if (st == "fresh") return p;
  if (st == "solved") { (void) p->solve(); return p; }
  p->add_constraint(Variable(0) + Variable(1) <= -1);
  if (st == "unsat_solved") (void) p->solve();
  return p;
}
static std::string pip_obs(const PIP_Problem& p) {
  PIP_Problem z(p); std::ostringstream os;
  dimension_type nc = 0; for (PIP_Problem::const_iterator i = z.constraints_begin(); i != z.constraints_end(); ++i) ++nc;
  os << "dim=" << z.space_dimension() << ";cons=" << nc << ";params=" << dump(z.parameter_space_dimensions()) << ";big=" << (long) z.get_big_parameter_dimension() << ";ok=" << z.OK();
  PIP_Problem_Status s = z.solve(); os << ";solve=" << s << ";";
  if (s == OPTIMIZED_PIP_PROBLEM) z.print_solution(os);
  return os.str();
}
static void pip_attempt(const std::string& st, const char* op, const char* kind, const char* expect, std::function<void(PIP_Problem&)> f) {
  ++n_attempts;
  PIP_Problem* p = mk_pip(st);
  std::string before = dump(*p), ob = pip_obs(*p), got = "none";
  try { f(*p); } catch (const std::exception& e) { got = exn_name(e); }
  std::string after = dump(*p), oa = pip_obs(*p);
  std::cout << "att dom=PIP_Problem state=" << st << " op=" << op << " kind=" << kind << " expect=" << expect << " got=" << got
            << " dump_same=" << (before == after) << " sem_same=" << (ob == oa) << " ok=" << p->OK() << " args_same=1" << std::endl;
  delete p;
}
static void pip_battery() {
  for (int si = 0; PIP_STATES[si]; ++si) {
    const std::string st = PIP_STATES[si];
    const unsigned n = (st == "zero_dim") ? 0 : 4; const Variable W(n);
    pip_attempt(st, "add_constraint", "dim", "invalid_argument", [=](PIP_Problem& p) { p.add_constraint(W >= 1); });
    pip_attempt(st, "add_constraints", "dim-last", "invalid_argument", [=](PIP_Problem& p) { Constraint_System cs; cs.insert(Linear_Expression(1) >= 0); cs.insert(W >= 0); p.add_constraints(cs); });
    pip_attempt(st, "add_to_parameter_space_dimensions", "dim", "invalid_argument", [=](PIP_Problem& p) { Variables_Set vs; vs.insert(W); p.add_to_parameter_space_dimensions(vs); });
    pip_attempt(st, "set_big_parameter_dimension", "dim", "invalid_argument", [=](PIP_Problem& p) { p.set_big_parameter_dimension(n + 2); });
    pip_attempt(st, "add_space_dimensions_and_embed", "overflow-vars", "length_error", [=](PIP_Problem& p) { p.add_space_dimensions_and_embed(PIP_Problem::max_space_dimension() - n + 1, 0); });
    pip_attempt(st, "add_space_dimensions_and_embed", "overflow-params", "length_error", [=](PIP_Problem& p) { p.add_space_dimensions_and_embed(0, PIP_Problem::max_space_dimension() - n + 1); });
    { const dimension_type SM = std::numeric_limits<dimension_type>::max(); const dimension_type MX = PIP_Problem::max_space_dimension();
      const dimension_type pairs[][2] = { { SM, 2 }, { SM - 1, 3 }, { 2, SM }, { 3, SM - 1 }, { SM, SM }, { SM - n + 1, 0 }, { 0, SM - n + 1 }, { MX - n, 1 }, { 1, MX - n }, { MX, MX }, { SM / 2 + 1, SM / 2 + 1 } };
      static const char* pk[] = { "overflow-sum-wraps(SIZE_MAX,2)", "overflow-sum-wraps(SIZE_MAX-1,3)", "overflow-sum-wraps(2,SIZE_MAX)", "overflow-sum-wraps(3,SIZE_MAX-1)", "overflow-both-size-max",
                                  "overflow-vars-wrap", "overflow-params-wrap", "overflow-one-past(vars=max-n,params=1)", "overflow-one-past(vars=1,params=max-n)", "overflow-both-max", "overflow-halves-wrap" };
      for (int h = 0; h < 11; ++h) { const dimension_type a = pairs[h][0], b = pairs[h][1];
        if ((h == 5 || h == 6) && n == 0) continue;     // SIZE_MAX - 0 + 1 is 0
        pip_attempt(st, "add_space_dimensions_and_embed", pk[h], "length_error", [=](PIP_Problem& p) { p.add_space_dimensions_and_embed(a, b); }); } }
    if (n == 0) continue;
    pip_attempt(st, "add_to_parameter_space_dimensions", "existing-variable", "optional:invalid_argument", [=](PIP_Problem& p) { Variables_Set vs; vs.insert(Variable(1)); p.add_to_parameter_space_dimensions(vs); });
    pip_attempt(st, "add_to_parameter_space_dimensions", "existing-variable-and-new", "optional:invalid_argument", [=](PIP_Problem& p) { p.add_space_dimensions_and_embed(0, 0); Variables_Set vs; vs.insert(Variable(0)); vs.insert(Variable(3)); p.add_to_parameter_space_dimensions(vs); });
    pip_attempt(st, "set_big_parameter_dimension", "not-a-parameter", "invalid_argument", [=](PIP_Problem& p) { p.set_big_parameter_dimension(0); });
  }
  struct C { const char* kind; const char* expect; std::function<void()> f; };
  Constraint_System good; good.insert(Variable(0) >= 0); good.insert(Variable(1) <= 3);
  Constraint_System dim4; dim4.insert(Variable(0) >= 0); dim4.insert(Variable(3) <= 1); dim4.insert(Variable(1) >= 0);
  Variables_Set pv; pv.insert(Variable(5)); Variables_Set nopar;
  C cs[] = {
    { "overflow", "length_error", [&]() { PIP_Problem p(PIP_Problem::max_space_dimension() + 1); } },
    { "range-overflow", "length_error", [&]() { PIP_Problem p(PIP_Problem::max_space_dimension() + 1, good.begin(), good.end(), nopar); } },
    { "range-dim-middle", "invalid_argument", [&]() { PIP_Problem p(3, dim4.begin(), dim4.end(), nopar); } },
    { "params-dim", "invalid_argument", [&]() { PIP_Problem p(3, good.begin(), good.end(), pv); } },
  };
  for (size_t i = 0; i < sizeof cs / sizeof cs[0]; ++i) {
    std::string got = "none"; try { cs[i].f(); } catch (const std::exception& e) { got = exn_name(e); }
    std::cout << "att dom=PIP_Problem state=ctor op=ctor kind=" << cs[i].kind << " expect=" << cs[i].expect << " got=" << got << " dump_same=1 sem_same=1 ok=1 args_same=1\n"; ++n_attempts;
  }
}

int main(int argc, char** argv) {
  std::string only = argc > 1 ? argv[1] : "";
#define WANT(N) (only.empty() || only == N)
  const Constraint sum2 = (Variable(0) + Variable(1) <= 3);
  const Constraint coef2 = (2 * Variable(0) - Variable(1) <= 3);
  const Constraint three = (Variable(0) + Variable(1) + Variable(2) <= 3);
  const Constraint strict = (Variable(0) - Variable(1) < 3);
  const Constraint ineq = (Variable(0) >= 1);
  if (WANT("Box")) { generic_battery<RBOX>("Box"); kind_battery<RBOX>("Box", sum2, "non-interval", true); ctor_battery<RBOX>("Box", sum2, "non-interval"); }
  if (WANT("BD_Shape")) { generic_battery<BDS>("BD_Shape"); kind_battery<BDS>("BD_Shape", sum2, "non-bounded-difference", true); kind_battery<BDS>("BD_Shape", coef2, "non-bounded-difference-coefficient", false);
    kind_battery<BDS>("BD_Shape", strict, "strict", false); strict_rel_battery<BDS>("BD_Shape"); ctor_battery<BDS>("BD_Shape", sum2, "non-bounded-difference"); }
  if (WANT("Octagonal_Shape")) { generic_battery<OCT>("Octagonal_Shape"); kind_battery<OCT>("Octagonal_Shape", coef2, "non-octagonal", true); kind_battery<OCT>("Octagonal_Shape", three, "non-octagonal-three-variables", false);
    kind_battery<OCT>("Octagonal_Shape", strict, "strict", false); strict_rel_battery<OCT>("Octagonal_Shape"); ctor_battery<OCT>("Octagonal_Shape", coef2, "non-octagonal"); }
  if (WANT("Grid")) { generic_battery<Grid>("Grid"); kind_battery<Grid>("Grid", ineq, "inequality", false); grid_battery(); ctor_battery<Grid>("Grid", ineq, "inequality"); }
  if (WANT("Powerset")) { generic_battery<PSET>("Powerset_C"); kind_battery<PSET>("Powerset_C", strict, "strict", true); powerset_battery<C_Polyhedron>("Powerset_C");
    generic_battery<NPSET>("Powerset_NNC"); powerset_battery<NNC_Polyhedron>("Powerset_NNC"); }
  if (WANT("Product")) { generic_battery<DPROD>("Direct_Product"); kind_battery<DPROD>("Direct_Product", strict, "strict", false);
    generic_battery<SPROD>("Smash_Product"); kind_battery<SPROD>("Smash_Product", strict, "strict", false);
    generic_battery<CPROD>("Constraints_Product"); }
  if (WANT("MIP_Problem")) mip_battery();
  if (WANT("PIP_Problem")) pip_battery();
  std::cout << "attempts " << n_attempts << "\n";
  return 0;
}
