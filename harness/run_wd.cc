// C19 harness: runs the REAL Watchdog bookkeeping (src/Watchdog.cc compiled with -DPPL_VERIF_HOOKS) against a
// virtual one-shot timer.  Untrusted glue.
//
// stdin : one schedule per line; tokens  c<centisecs> (construct)  d<id> (destroy)  s (run to the next yield)
//         t<microsecs> (time passes)  f (the rest of the count-down passes; the registered signal handler runs)
// stdout: per schedule  "BEGIN <n>", one line per event with the complete bookkeeping state after it (same format
//         as ocaml/wd_model.ml prints for the Coq model), a "SUM ..." line (what the property-level oracle reads:
//         creations, handler invocations, destructor returns, all with virtual time stamps), "END".
// Every schedule runs in a forked child (static state of Watchdog; crashes of mutants).
#include <cstdio>
#include <cstdlib>
#include <cstring>
#include <string>
#include <vector>
#include <sstream>
#include <iostream>
#include <new>
#include <csignal>
#include <sys/time.h>
#include <sys/wait.h>
#include <unistd.h>
#include <gmpxx.h>
#define private public
#define protected public
#include "ppl-config.h"
#include "Init_defs.hh"
#include "Watchdog_defs.hh"
#undef private
#undef protected

#ifndef PPL_VERIF_HOOKS
#error "this harness needs the PPL_VERIF_HOOKS hooks"
#endif

using namespace Parma_Polyhedra_Library;
typedef Implementation::Watchdog::Time WTime;

namespace {

const int MAXW = 16;
long long v_rem = 0, v_now = 0;          // virtual timer: microseconds left (0 = disarmed), elapsed timer time
void (*registered)(int) = 0; int registered_sig = 0; int n_sigaction = 0;
std::string new_calls, new_fired, notes;
int cur_yield = 0;
long seq = 0;

struct Ev { char k; long long a; std::string tok; };
std::vector<Ev> evs; size_t pos = 0; long cur_ev = -1;

void* mem[MAXW]; Watchdog* objs[MAXW]; bool constructed[MAXW];
int next_id = 0; int in_call_id = -1;
std::vector<int> alive;
std::ostringstream sum;

int v_getitimer(int which, struct itimerval* v) {
  if (which != ITIMER_PROF && which != ITIMER_REAL) notes += " !which";
  v->it_interval.tv_sec = 0; v->it_interval.tv_usec = 0;
  v->it_value.tv_sec = v_rem / 1000000; v->it_value.tv_usec = v_rem % 1000000;
  char b[64]; snprintf(b, sizeof b, " G%lld:%lld", v_rem / 1000000, v_rem % 1000000); new_calls += b;
  return 0;
}
int v_setitimer(int which, const struct itimerval* v, struct itimerval* old) {
  if (old != 0) notes += " !old";
  if (v->it_interval.tv_sec != 0 || v->it_interval.tv_usec != 0) notes += " !interval";
  long long s = v->it_value.tv_sec, u = v->it_value.tv_usec;
  v_rem = s * 1000000 + u;
  if (s == 0 && u == 0) new_calls += " X";
  else { char b[64]; snprintf(b, sizeof b, " S%lld:%lld", s, u); new_calls += b; }
  return 0;
}
int v_sigaction(int signum, const struct sigaction* act, struct sigaction*) {
  registered = act->sa_handler; registered_sig = signum; ++n_sigaction;
  return 0;
}

int id_of_flag(const bool* f) {
  for (int i = 0; i < next_id; ++i)
    if (objs[i] != 0 && &objs[i]->expired == f) return i;
  return -1;
}

void on_fire(int id) {
  // the element being fired is pending.begin() (handle_timeout erases it afterwards)
  Watchdog::WD_Pending_List::iterator b = Watchdog::pending.begin();
  long long ds = -1, du = -1; bool ord = true;
  if (b != Watchdog::pending.end()) {
    ds = b->deadline().seconds(); du = b->deadline().microseconds();
    Watchdog::WD_Pending_List::iterator j = b;
    for (++j; j != Watchdog::pending.end(); ++j) {
      long long s = j->deadline().seconds(), u = j->deadline().microseconds();
      if (s < ds || (s == ds && u < du)) ord = false;
    }
    if (id_of_flag(&b->expired_flag()) != id) notes += " !fired-not-first";
  }
  char buf[128]; snprintf(buf, sizeof buf, " %d@%lld:%lld:%lld", id, v_now, ds, du); new_fired += buf;
  sum << " F " << id << " " << v_now << " " << ds << " " << du << " " << (seq++) << " " << (ord ? 1 : 0)
      << " " << (Watchdog::in_critical_section ? 1 : 0);
}
template <int N> void hf() { on_fire(N); }
typedef void (*hfun)();
hfun table[MAXW] = { hf<0>, hf<1>, hf<2>, hf<3>, hf<4>, hf<5>, hf<6>, hf<7>,
                     hf<8>, hf<9>, hf<10>, hf<11>, hf<12>, hf<13>, hf<14>, hf<15> };

void emit() {
  std::ostringstream o;
  if (cur_ev >= 0) o << cur_ev << " " << evs[cur_ev].tok; else o << "F s";
  o << " y=" << cur_yield << " P=[";
  bool first = true;
  for (Watchdog::WD_Pending_List::iterator i = Watchdog::pending.begin(); i != Watchdog::pending.end(); ++i) {
    if (!first) o << ","; first = false;
    o << i->deadline().seconds() << ":" << i->deadline().microseconds() << ":" << id_of_flag(&i->expired_flag());
  }
  o << "] tsf=" << Watchdog::time_so_far.seconds() << ":" << Watchdog::time_so_far.microseconds()
    << " ltr=" << Watchdog::last_time_requested.seconds() << ":" << Watchdog::last_time_requested.microseconds()
    << " run=" << (Watchdog::alarm_clock_running ? 1 : 0) << " cs=" << (Watchdog::in_critical_section ? 1 : 0)
    << " exp=[";
  first = true;
  for (int i = 0; i < next_id; ++i)
    if (objs[i] != 0 && objs[i]->expired) { if (!first) o << ","; first = false; o << i; }
  o << "] rem=" << v_rem << " now=" << v_now << " calls=[" << new_calls << " ] fired=[" << new_fired << " ]" << notes;
  puts(o.str().c_str());
  new_calls.clear(); new_fired.clear(); notes.clear();
}

void do_tick(long long us) {
  if (us <= 0) return;
  if (v_rem == 0) v_now += us;
  else if (us < v_rem) { v_now += us; v_rem -= us; }
}
void do_fire() {
  if (v_rem > 0) {
    v_now += v_rem; v_rem = 0;
    if (registered == 0) { notes += " !no-handler-registered"; return; }
    (*registered)(registered_sig);
  }
}

// called by PPL_VERIF_YIELD(n): the event that brought us here is complete; consume events up to the next `s`
void on_yield(int n) {
  cur_yield = n;
  emit();
  for (;;) {
    if (pos >= evs.size()) { cur_ev = -1; return; }   // schedule exhausted: let the call run to its end
    cur_ev = (long) pos; const Ev& e = evs[pos++];
    switch (e.k) {
    case 's': return;
    case 't': do_tick(e.a); emit(); break;
    case 'f': do_fire(); emit(); break;
    default: emit(); break;                            // c / d inside a call: not enabled
    }
  }
}

bool is_alive(int id) { for (size_t i = 0; i < alive.size(); ++i) if (alive[i] == id) return true; return false; }

void run_schedule() {
  for (int i = 0; i < MAXW; ++i) { mem[i] = 0; objs[i] = 0; constructed[i] = false; }
  while (pos < evs.size()) {
    cur_ev = (long) pos; const Ev& e = evs[pos++];
    switch (e.k) {
    case 'c':
      if (e.a > 0 && next_id < MAXW) {
        int id = next_id++;
        alive.push_back(id);
        sum << " C " << id << " " << v_now << " " << e.a << " " << (seq++);
        mem[id] = operator new(sizeof(Watchdog)); objs[id] = static_cast<Watchdog*>(mem[id]);
        // `expired` is read by emit() at the first yield: it is set by the mem-initialiser before any yield
        in_call_id = id;
        new (mem[id]) Watchdog(static_cast<long>(e.a), table[id]);
        in_call_id = -1; constructed[id] = true;
        sum << " R " << id << " " << v_now << " " << (seq++);
        cur_yield = 0;
      }
      emit();
      break;
    case 'd':
      if (e.a >= 0 && e.a < next_id && is_alive((int) e.a)) {
        int id = (int) e.a;
        for (size_t i = 0; i < alive.size(); ++i) if (alive[i] == id) { alive.erase(alive.begin() + i); break; }
        sum << " B " << id << " " << v_now << " " << (seq++);
        in_call_id = id;
        objs[id]->~Watchdog();
        in_call_id = -1;
        sum << " D " << id << " " << v_now << " " << (seq++);
        objs[id] = 0; operator delete(mem[id]); mem[id] = 0;
        cur_yield = 0;
      }
      emit();
      break;
    case 't': do_tick(e.a); emit(); break;
    case 'f': do_fire(); emit(); break;
    default: emit(); break;                            // `s` when no call is under way: not enabled
    }
  }
}

bool parse(const std::string& line) {
  evs.clear(); pos = 0;
  std::istringstream in(line); std::string tok;
  while (in >> tok) {
    Ev e; e.k = tok[0]; e.a = 0; e.tok = tok;
    if (e.k == 'c' || e.k == 'd' || e.k == 't') { if (tok.size() < 2) return false; e.a = atoll(tok.c_str() + 1); }
    else if (e.k != 's' && e.k != 'f') return false;
    evs.push_back(e);
  }
  return true;
}

struct Hook_Setter {
  Hook_Setter() {
    Verif_Hooks::getitimer_p = &v_getitimer; Verif_Hooks::setitimer_p = &v_setitimer;
    Verif_Hooks::sigaction_p = &v_sigaction; Verif_Hooks::yield_p = &on_yield;
  }
};
Hook_Setter hook_setter;   // before Init: Watchdog::initialize() must register its handler with the virtual sigaction
Init ppl_init;

} // namespace

int main() {
  std::string line; long n = 0;
  setvbuf(stdout, 0, _IOFBF, 1 << 16);
  while (std::getline(std::cin, line)) {
    if (line.empty()) continue;
    printf("BEGIN %ld\n", n); fflush(stdout);
    pid_t pid = fork();
    if (pid == 0) {
      if (n_sigaction != 1 || registered == 0) puts("NOTE sigaction-registration-unexpected");
      if (!parse(line)) { puts("BAD-SCHEDULE"); fflush(stdout); _exit(0); }
      try { run_schedule(); }
      catch (const std::exception& e) { printf("EXC %s\n", e.what()); }
      catch (...) { puts("EXC unknown"); }
      printf("SUM%s\n", sum.str().c_str());
      fflush(stdout); _exit(0);
    }
    int status = 0; waitpid(pid, &status, 0);
    if (!WIFEXITED(status) || WEXITSTATUS(status) != 0) printf("CRASH %d\n", status);
    printf("END\n"); fflush(stdout);
    ++n;
  }
  return 0;
}
