// C16 harness: drives the real PPL (CO_Tree / Sparse_Row / Dense_Row / Linear_Expression and the
// classes built on it) with generated histories and prints one observation line per operation,
// in the same format as ocaml/judge_rows.ml (the extracted Coq model).
//   T <op> ...   operations on Sparse_Row registers (CO_Tree driven directly, private access)
//   E <op> ...   operations on Linear_Expression registers, executed twice (DENSE and SPARSE)
// An independent std::map oracle is kept for the T registers; "!..." lines report harness-side failures.
#include <iostream>
#include <fstream>
#include <sstream>
#include <map>
#include <set>
#include <vector>
#include <string>
#include <cstdlib>
#include <gmpxx.h>
#define private public
#define protected public
#include "ppl-config.h"
#include "CO_Tree_defs.hh"
#include "Sparse_Row_defs.hh"
#include "Dense_Row_defs.hh"
#include "Linear_Expression_defs.hh"
#include "Linear_Expression_Impl_defs.hh"
#include "Constraint_defs.hh"
#include "Generator_defs.hh"
#include "Congruence_defs.hh"
#include "Constraint_System_defs.hh"
#include "Generator_System_defs.hh"
#include "Congruence_System_defs.hh"
#include "Constraint_System_inlines.hh"
#include "Generator_System_inlines.hh"
#include "Congruence_System_inlines.hh"
#include "Variables_Set_defs.hh"
#include "Init_defs.hh"

using namespace Parma_Polyhedra_Library;
typedef dimension_type dim;
static Parma_Polyhedra_Library::Init ppl_init_object;

static std::string zs(const mpz_class& z) { return z.get_str(); }

// ---------------------------------------------------------------------------------------------
// T: Sparse_Row registers
// ---------------------------------------------------------------------------------------------
static const int NREG = 4;
static Sparse_Row* regs[NREG];
static std::map<dim, mpz_class> orc[NREG];
static dim orc_size[NREG];
static dim prevp[NREG], erasedp[NREG];

static const long MODULUS = 2147483647L;
static long vhash(const std::string& s) {
  long h = 0;
  for (size_t i = 0; i < s.size(); ++i) h = (h * 131 + (unsigned char) s[i]) % MODULUS;
  return h;
}

static std::string layout_string(const CO_Tree& t) {
  std::ostringstream o;
  dim R = t.reserved_size;
  if (R <= 31) {
    for (dim i = 1; i <= R; ++i) {
      if (i > 1) o << ",";
      if (t.indexes[i] == CO_Tree::unused_index) o << "-";
      else o << t.indexes[i] << ":" << zs(t.data[i]);
    }
  }
  else {
    long h = 7;
    for (dim i = 1; i <= R; ++i) {
      if (t.indexes[i] == CO_Tree::unused_index) h = (h * 1000003L) % MODULUS;
      else h = (h * 1000003L + (long)(t.indexes[i] % MODULUS) * 31 + vhash(zs(t.data[i])) + 1) % MODULUS;
    }
    o << "#" << h;
  }
  return o.str();
}

static dim pos_of(CO_Tree& t, const CO_Tree::iterator& it) {
  if (t.reserved_size == 0) return 1;
  return (dim)(it.current_index - t.indexes);
}
static dim pos_of(const CO_Tree& t, const CO_Tree::const_iterator& it) {
  if (t.reserved_size == 0) return 1;
  return (dim)(it.current_index - t.indexes);
}
static CO_Tree::iterator iter_at(CO_Tree& t, dim p) {
  if (t.reserved_size == 0) return t.end();
  return CO_Tree::iterator(t, p);
}

static dim scan_up(const CO_Tree& t, dim p) {
  while (p <= t.reserved_size && t.indexes[p] == CO_Tree::unused_index) ++p;
  return p;
}
static dim scan_down(const CO_Tree& t, dim p) {
  while (p >= 1 && t.indexes[p] == CO_Tree::unused_index) --p;
  return p;
}

// hint tokens: B E L P D K<key> R<raw>; all resolve to a valid iterator (used slot or end)
static dim resolve(int r, const std::string& tok) {
  Sparse_Row& row = *regs[r];
  CO_Tree& t = row.tree;
  dim R = t.reserved_size, e = R + 1;
  if (t.size_ == 0) return e;
  dim raw = 1;
  switch (tok[0]) {
  case 'B': raw = 1; break;
  case 'E': raw = e; break;
  case 'L': { dim p = scan_down(t, R); raw = (p == 0) ? e : p; break; }
  case 'P': raw = prevp[r]; break;
  case 'D': raw = erasedp[r]; break;
  case 'K': { dim k = std::strtoul(tok.c_str() + 1, 0, 10);
              Sparse_Row::iterator it = row.lower_bound(k); raw = pos_of(t, it); break; }
  case 'R': raw = std::strtoul(tok.c_str() + 1, 0, 10); break;
  default: std::cout << "!HINT " << tok << "\n";
  }
  if (raw < 1) raw = 1;
  if (raw > e) raw = e;
  return scan_up(t, raw);
}

static void check_oracle(const char* name, int r, bool modulo_zero) {
  Sparse_Row& row = *regs[r];
  std::map<dim, mpz_class>& m = orc[r];
  bool ok = (row.size() == orc_size[r]);
  if (modulo_zero) {
    // compare the nonzero content, then adopt the set of stored zeroes
    std::map<dim, mpz_class> a, b;
    for (Sparse_Row::const_iterator i = row.begin(), e = row.end(); i != e; ++i) if (*i != 0) a[i.index()] = *i;
    for (std::map<dim, mpz_class>::iterator i = m.begin(); i != m.end(); ++i) if (i->second != 0) b[i->first] = i->second;
    ok = ok && (a == b);
    m.clear();
    for (Sparse_Row::const_iterator i = row.begin(), e = row.end(); i != e; ++i) m[i.index()] = *i;
  }
  else {
    std::map<dim, mpz_class>::iterator j = m.begin();
    dim cnt = 0;
    for (Sparse_Row::const_iterator i = row.begin(), e = row.end(); i != e; ++i, ++j, ++cnt) {
      if (j == m.end() || j->first != i.index() || j->second != *i) { ok = false; break; }
    }
    if (ok && (j != m.end() || cnt != row.tree.size_)) ok = false;
  }
  if (!ok) {
    std::cout << "!ORACLE " << name << " reg=" << r << " tree:";
    for (Sparse_Row::const_iterator i = row.begin(), e = row.end(); i != e; ++i) std::cout << " " << i.index() << ":" << zs(*i);
    std::cout << " size=" << row.size() << " oracle:";
    for (std::map<dim, mpz_class>::iterator i = m.begin(); i != m.end(); ++i) std::cout << " " << i->first << ":" << zs(i->second);
    std::cout << " size=" << orc_size[r] << "\n";
  }
  // unstored entries read as zero, stored ones as stored (sampled through get())
  if (row.size() > 0 && !modulo_zero) {
    dim probes[3] = { 0, row.size() / 2, row.size() - 1 };
    for (int q = 0; q < 3; ++q) {
      dim k = probes[q];
      mpz_class want = m.count(k) ? m[k] : mpz_class(0);
      if (row.get(k) != want) std::cout << "!GET " << name << " reg=" << r << " key=" << k << "\n";
    }
  }
}

// for big trees (reserved_size > 255) OK() and the layout hash are printed on every 4th operation of the
// history and on every iteration only (same rule as the model side); OK() itself is still evaluated each time
static unsigned long opcount = 0;
static void obs(const std::string& name, const std::string& ret, int r) {
  Sparse_Row& row = *regs[r];
  CO_Tree& t = row.tree;
  ++opcount;
  bool full = t.reserved_size <= 255 || opcount % 4 == 0 || name == "iter";
  bool ok = row.OK() && t.OK();
  std::cout << name << " ret=" << ret << " S=" << t.size_ << " R=" << t.reserved_size << " D=" << t.max_depth
            << " n=" << row.size() << " ok=";
  if (full) std::cout << (ok ? 1 : 0) << " lay=" << layout_string(t) << "\n";
  else {
    std::cout << "~ lay=~\n";
    if (!ok) std::cout << "!OKFALSE " << name << " reg=" << r << "\n";
  }
}

static std::string dstr(dim d) { std::ostringstream o; o << d; return o.str(); }

static void tree_op(std::vector<std::string>& tk) {
  const std::string& name = tk[0];
  int r = std::atoi(tk[1].c_str());
  Sparse_Row& row = *regs[r];
  CO_Tree& t = row.tree;
  std::map<dim, mpz_class>& m = orc[r];
  std::string ret = "-";
  bool modz = false;
#define DIMARG(k) ((dim) std::strtoul(tk[k].c_str(), 0, 10))
#define ZARG(k) (mpz_class(tk[k]))
  if (name == "new") {
    Sparse_Row fresh(DIMARG(2));
    swap(row, fresh);
    m.clear(); orc_size[r] = DIMARG(2); prevp[r] = 1; erasedp[r] = 1;
  }
  else if (name == "ins") {
    dim k = DIMARG(2); mpz_class v = ZARG(3);
    CO_Tree::iterator it = t.insert(k, v);
    prevp[r] = pos_of(t, it); ret = dstr(prevp[r]);
    m[k] = v;
  }
  else if (name == "insk") {
    dim k = DIMARG(2);
    CO_Tree::iterator it = t.insert(k);
    prevp[r] = pos_of(t, it); ret = dstr(prevp[r]);
    if (!m.count(k)) m[k] = 0;
  }
  else if (name == "insh") {
    dim h = resolve(r, tk[2]); dim k = DIMARG(3); mpz_class v = ZARG(4);
    CO_Tree::iterator it = t.insert(iter_at(t, h), k, v);
    prevp[r] = pos_of(t, it); ret = dstr(prevp[r]);
    m[k] = v;
  }
  else if (name == "inshk") {
    dim h = resolve(r, tk[2]); dim k = DIMARG(3);
    CO_Tree::iterator it = t.insert(iter_at(t, h), k);
    prevp[r] = pos_of(t, it); ret = dstr(prevp[r]);
    if (!m.count(k)) m[k] = 0;
  }
  else if (name == "era") {
    dim k = DIMARG(2);
    if (t.size_ > 0) {
      CO_Tree::iterator f = t.bisect(k);
      if (f != t.end() && f.index() == k) erasedp[r] = pos_of(t, f);
    }
    CO_Tree::iterator it = t.erase(k);
    prevp[r] = pos_of(t, it); ret = dstr(prevp[r]);
    m.erase(k);
  }
  else if (name == "erap") {
    dim h = resolve(r, tk[2]);
    if (h != t.reserved_size + 1) {
      erasedp[r] = h;
      dim k = t.indexes[h];
      CO_Tree::iterator it = t.erase(iter_at(t, h));
      prevp[r] = pos_of(t, it); ret = dstr(prevp[r]);
      m.erase(k);
    }
  }
  else if (name == "easl") {
    dim k = DIMARG(2);
    row.delete_element_and_shift(k);
    std::map<dim, mpz_class> n;
    for (std::map<dim, mpz_class>::iterator i = m.begin(); i != m.end(); ++i) {
      if (i->first < k) n[i->first] = i->second;
      else if (i->first > k) n[i->first - 1] = i->second;
    }
    m.swap(n); orc_size[r] -= 1;
  }
  else if (name == "incr") {
    dim k = DIMARG(2), nn = DIMARG(3);
    row.add_zeroes_and_shift(nn, k);
    std::map<dim, mpz_class> n;
    for (std::map<dim, mpz_class>::iterator i = m.begin(); i != m.end(); ++i)
      n[i->first >= k ? i->first + nn : i->first] = i->second;
    m.swap(n); orc_size[r] += nn;
  }
  else if (name == "get") {
    dim k = DIMARG(2);
    mpz_class v = row.get(k);
    ret = zs(v);
    mpz_class want = m.count(k) ? m[k] : mpz_class(0);
    if (v != want) std::cout << "!GET get reg=" << r << " key=" << k << "\n";
  }
  else if (name == "lb") {
    dim h = resolve(r, tk[2]); dim k = DIMARG(3);
    Sparse_Row::iterator it = row.lower_bound(iter_at(t, h), k);
    prevp[r] = pos_of(t, it); ret = dstr(prevp[r]);
    std::map<dim, mpz_class>::iterator w = m.lower_bound(k);
    bool good = (w == m.end()) ? (it == row.end()) : (it != row.end() && it.index() == w->first);
    if (!good) std::cout << "!LB reg=" << r << " hint=" << tk[2] << " key=" << k << "\n";
  }
  else if (name == "find") {
    dim h = resolve(r, tk[2]); dim k = DIMARG(3);
    Sparse_Row::iterator it = row.find(iter_at(t, h), k);
    ret = dstr(pos_of(t, it));
    bool good = m.count(k) ? (it != row.end() && it.index() == k) : (it == row.end());
    if (!good) std::cout << "!FIND reg=" << r << " hint=" << tk[2] << " key=" << k << "\n";
  }
  else if (name == "bis") {
    dim h = resolve(r, tk[2]); dim k = DIMARG(3);
    CO_Tree::iterator it = t.bisect_near(iter_at(t, h), k);
    ret = dstr(pos_of(t, it));
  }
  else if (name == "swp") {
    dim i = DIMARG(2), j = DIMARG(3);
    row.swap_coefficients(i, j);
    bool hi = m.count(i), hj = m.count(j);
    if (hi && hj) std::swap(m[i], m[j]);
    else if (hi) { m[j] = m[i]; m.erase(i); }
    else if (hj) { m[i] = m[j]; m.erase(j); }
  }
  else if (name == "rsa") {
    dim i = DIMARG(2);
    row.reset_after(i);
    m.erase(m.lower_bound(i), m.end());
  }
  else if (name == "rsz") {
    dim n = DIMARG(2);
    row.resize(n);
    if (n < orc_size[r]) m.erase(m.lower_bound(n), m.end());
    orc_size[r] = n;
  }
  else if (name == "rr") {
    dim f = DIMARG(2), l = DIMARG(3);
    Sparse_Row::iterator i = row.lower_bound(f);
    const Sparse_Row::iterator& i_end = row.end();
    while (i != i_end && i.index() < l) i = row.reset(i);
    m.erase(m.lower_bound(f), m.lower_bound(l));
  }
  else if (name == "lc" || name == "lcr") {
    int s = std::atoi(tk[2].c_str());
    mpz_class c1 = ZARG(3), c2 = ZARG(4);
    dim f = 0, l = (dim) -1;
    bool ranged = (name == "lcr");
    if (ranged) { f = DIMARG(5); l = DIMARG(6); }
    // oracle: nonzero content semantics
    std::map<dim, mpz_class>& y = orc[s];
    std::set<dim> keys;
    for (std::map<dim, mpz_class>::iterator i = m.begin(); i != m.end(); ++i) keys.insert(i->first);
    for (std::map<dim, mpz_class>::iterator i = y.begin(); i != y.end(); ++i) keys.insert(i->first);
    std::map<dim, mpz_class> n;
    for (std::set<dim>::iterator k = keys.begin(); k != keys.end(); ++k) {
      mpz_class xv = m.count(*k) ? m[*k] : mpz_class(0);
      mpz_class yv = y.count(*k) ? y[*k] : mpz_class(0);
      if (*k >= f && *k < l) n[*k] = xv * c1 + yv * c2; else n[*k] = xv;
    }
    if (ranged) row.linear_combine(*regs[s], c1, c2, f, l);
    else row.linear_combine(*regs[s], c1, c2);
    m.swap(n);
    modz = true;
  }
  else if (name == "eim") {
    dim mm = DIMARG(2), rem = DIMARG(3);
    Sparse_Row::iterator i = row.begin();
    while (i != row.end()) {
      if (i.index() % mm == rem) i = row.reset(i); else ++i;
    }
    for (std::map<dim, mpz_class>::iterator i2 = m.begin(); i2 != m.end(); ) {
      if (i2->first % mm == rem) m.erase(i2++); else ++i2;
    }
  }
  else if (name == "cpy") {
    int s = std::atoi(tk[2].c_str()); dim sz = DIMARG(3);
    Sparse_Row tmp(*regs[s], sz, sz);
    swap(row, tmp);
    dim lim = std::min(orc_size[s], sz);
    std::map<dim, mpz_class> n;
    for (std::map<dim, mpz_class>::iterator i = orc[s].begin(); i != orc[s].end(); ++i) if (i->first < lim) n[i->first] = i->second;
    m.swap(n); orc_size[r] = sz;
  }
  else if (name == "asg") {
    int s = std::atoi(tk[2].c_str());
    if (s != r) { row = *regs[s]; m = orc[s]; orc_size[r] = orc_size[s]; }
  }
  else if (name == "dconv") {
    // conversions between the two row classes; expected = the coefficients of the sparse row
    int k = std::atoi(tk[2].c_str());
    dim n = row.size();
    std::vector<mpz_class> want(n);
    for (std::map<dim, mpz_class>::iterator i = m.begin(); i != m.end(); ++i) if (i->first < n) want[i->first] = i->second;
    std::vector<mpz_class> got;
    if (k == 0) { Dense_Row d(row); for (dim i = 0; i < d.size(); ++i) got.push_back(d[i]); }
    else if (k == 1) {
      // assignment to a non-empty dense row with enough capacity (size() <= row.size() < capacity())
      dim s0 = std::min<dim>(n, DIMARG(3));
      Dense_Row d(s0, n + 2);
      for (dim i = 0; i < s0; ++i) d[i] = 1000 + i;
      d = row;
      for (dim i = 0; i < d.size(); ++i) got.push_back(d[i]);
    }
    else if (k == 2) { Dense_Row d; d = row; for (dim i = 0; i < d.size(); ++i) got.push_back(d[i]); }
    else if (k == 3) { Dense_Row d(row); Sparse_Row s2(d); Dense_Row d2(s2); for (dim i = 0; i < d2.size(); ++i) got.push_back(d2[i]); if (!s2.OK()) std::cout << "!DCONV k=3 notok\n"; }
    else {
      dim sz = DIMARG(3);
      Dense_Row d(row, sz, sz + 1);
      want.resize(sz);
      for (dim i = 0; i < d.size(); ++i) got.push_back(d[i]);
      Sparse_Row s2(d, sz, sz + 1);
      if (!s2.OK()) std::cout << "!DCONV k=5 reg=" << r << "\n";
    }
    if (got != want) std::cout << "!DCONV k=" << k << " reg=" << r << " n=" << n << "\n";
  }
  else if (name == "mixeq" || name == "mixlc" || name == "mixswap" || name == "comb") {
    // operations that mix the two row classes / the generic combine templates, on copies of the registers;
    // expected results are computed coefficient-wise from the oracle maps
    int s = std::atoi(tk[2].c_str());
    Sparse_Row& yrow = *regs[s];
    std::map<dim, mpz_class>& ym = orc[s];
    dim nx = row.size(), ny = yrow.size();
    std::vector<mpz_class> xv(nx), yv(ny);
    for (std::map<dim, mpz_class>::iterator i = m.begin(); i != m.end(); ++i) if (i->first < nx) xv[i->first] = i->second;
    for (std::map<dim, mpz_class>::iterator i = ym.begin(); i != ym.end(); ++i) if (i->first < ny) yv[i->first] = i->second;
    if (name == "mixeq") {
      Dense_Row yd(yrow); Dense_Row xd(row);
      bool want = (xv == yv);
      if ((row == yd) != want || (yd == row) != want || (xd == yrow) != want || (row == yrow) != want || (xd == yd) != want
          || (yrow == row) != want || (yrow == xd) != want)
        std::cout << "!MIXEQ reg=" << r << " other=" << s << "\n";
      // explicitly stored zeroes are not part of a row's value: the same comparisons, both ways round, on copies
      // that store zeroes at indices the originals do not store; and rows that differ in exactly one coefficient
      // sitting next to stored zeroes must compare different (sparse/sparse, sparse/dense, dense/sparse)
      {
        dim limx = nx < 48 ? nx : 48, limy = ny < 48 ? ny : 48;
        Sparse_Row az(row), yz(yrow);
        for (dim i = 0; i < limx; i += 2) az.insert(i);
        for (dim i = 1; i < limy; i += 3) yz.insert(i);
        bool bad = !az.OK() || !yz.OK();
        const Sparse_Row* xs[2] = { &row, &az };
        const Sparse_Row* ys[2] = { &yrow, &yz };
        for (int a = 0; a < 2; ++a)
          for (int b = 0; b < 2; ++b)
            if ((*xs[a] == *ys[b]) != want || (*ys[b] == *xs[a]) != want
                || (*xs[a] == yd) != want || (xd == *ys[b]) != want) bad = true;
        if (!(az == row) || !(row == az) || !(yz == yrow) || !(yrow == yz) || !(az == xd) || !(xd == az)) bad = true;
        for (dim j = 0; j < limx && !bad; ++j) {
          if (xv[j] != 0) continue;
          Sparse_Row b1(az); b1[j] = 7;
          Sparse_Row b2(row); b2[j] = 7;
          Dense_Row bd(b2);
          if ((az == b1) || (b1 == az) || (row == b1) || (b1 == row) || (az == b2) || (b2 == az)
              || (row == b2) || (b2 == row) || (az == bd) || (bd == az) || (xd == b1) || (b1 == xd)) bad = true;
        }
        if (bad) std::cout << "!MIXEQ zeros=1 reg=" << r << " other=" << s << "\n";
      }
    }
    else if (name == "mixswap") {
      Sparse_Row a(row); Dense_Row b(yrow);
      swap(a, b);
      bool good = (a.size() == ny && b.size() == nx && a.OK() && a.tree.OK());
      for (dim i = 0; good && i < ny; ++i) if (a.get(i) != yv[i]) good = false;
      for (dim i = 0; good && i < nx; ++i) if (b[i] != xv[i]) good = false;
      if (!good) std::cout << "!MIXSWAP reg=" << r << " other=" << s << "\n";
    }
    else if (name == "mixlc") {
      mpz_class c1(tk[3]), c2(tk[4]);
      bool ranged = tk.size() > 5;
      dim f = 0, l = ny;
      if (ranged) { f = DIMARG(5); l = DIMARG(6); }
      std::vector<mpz_class> want(xv);
      for (dim i = f; i < l; ++i) want[i] = xv[i] * c1 + yv[i] * c2;
      // whole-row versions: x = c1*x + c2*y with y read as zero beyond its size (what Sparse/Sparse and
      // Dense/Sparse compute)
      if (!ranged) for (dim i = l; i < nx; ++i) want[i] = xv[i] * c1;
      bool tail = false;
      if (!ranged && c1 != 1) for (dim i = l; i < nx; ++i) if (xv[i] != 0) tail = true;
      {
        Sparse_Row a(row); Dense_Row yd(yrow);
        if (ranged) linear_combine(a, yd, c1, c2, f, l); else linear_combine(a, yd, c1, c2);
        bool good = a.OK() && a.tree.OK() && a.size() == nx;
        for (dim i = 0; good && i < nx; ++i) if (a.get(i) != want[i]) good = false;
        if (!good) {
          // is the only difference the unscaled tail x[y.size()..)?
          bool only_tail = tail && a.OK() && a.tree.OK() && a.size() == nx;
          for (dim i = 0; only_tail && i < nx; ++i) if (a.get(i) != (i < l ? want[i] : xv[i])) only_tail = false;
          std::cout << "!MIXLC dir=sd ranged=" << ranged << " tail=" << (only_tail ? 1 : 0) << " reg=" << r << " other=" << s << "\n";
        }
      }
      {
        Dense_Row xd(row);
        std::vector<mpz_class> want2(want);
        if (ranged) linear_combine(xd, yrow, c1, c2, f, l); else linear_combine(xd, yrow, c1, c2);
        bool good = xd.size() == nx;
        for (dim i = 0; good && i < nx; ++i) if (xd[i] != want2[i]) good = false;
        if (!good) std::cout << "!MIXLC dir=ds ranged=" << ranged << " tail=0 reg=" << r << " other=" << s << "\n";
      }
    }
    else {
      int k = std::atoi(tk[3].c_str());
      Sparse_Row a(row);
      std::vector<mpz_class> want(xv);
      struct F3 { void operator()(Coefficient& x) const { x *= 3; } };
      struct G1 { void operator()(Coefficient& x, Coefficient_traits::const_reference y) const { Coefficient t = y + 3; x *= t; } };
      struct G2 { void operator()(Coefficient& x, Coefficient_traits::const_reference y) const { x += 2 * y; } };
      struct G3 { void operator()(Coefficient& x, Coefficient_traits::const_reference y) const { x *= 3; x += 5 * y; } };
      for (dim i = 0; i < nx; ++i) {
        mpz_class yi = (i < ny) ? yv[i] : mpz_class(0);
        if (k == 0) want[i] = xv[i] * (yi + 3);
        else if (k == 1) want[i] = xv[i] + 2 * yi;
        else want[i] = 3 * xv[i] + 5 * yi;
      }
      if (k == 0) a.combine_needs_first(yrow, F3(), G1());
      else if (k == 1) a.combine_needs_second(yrow, G2(), G2());
      else a.combine(yrow, F3(), G3(), G3());
      bool good = a.OK() && a.tree.OK() && a.size() == nx;
      for (dim i = 0; good && i < nx; ++i) if (a.get(i) != want[i]) good = false;
      if (!good) std::cout << "!COMB k=" << k << " reg=" << r << " other=" << s << "\n";
    }
  }
  else if (name == "iter") {
    std::ostringstream o; bool first = true;
    for (Sparse_Row::const_iterator i = row.begin(), e = row.end(); i != e; ++i) {
      if (!first) o << ";"; first = false;
      o << i.index() << ":" << zs(*i);
    }
    ret = o.str();
    // and backwards
    if (row.begin() != row.end()) {
      std::map<dim, mpz_class>::reverse_iterator w = m.rbegin();
      Sparse_Row::const_iterator i = row.end();
      bool good = true;
      do { --i; if (w == m.rend() || w->first != i.index()) { good = false; break; } ++w; } while (i != row.begin());
      if (!good || w != m.rend()) std::cout << "!RITER reg=" << r << "\n";
    }
  }
  else {
    std::cout << "!UNKNOWN " << name << "\n";
  }
  obs(name, ret, r);
  check_oracle(name.c_str(), r, modz);
}

#include "run_rows_le.hh"

int main(int argc, char** argv) {
  for (int i = 0; i < NREG; ++i) { regs[i] = new Sparse_Row(0); orc_size[i] = 0; prevp[i] = erasedp[i] = 1; }
  std::istream* in = &std::cin;
  std::ifstream f;
  if (argc > 1) { f.open(argv[1]); in = &f; }
  std::string line;
  while (std::getline(*in, line)) {
    std::istringstream is(line);
    std::vector<std::string> tk;
    std::string w;
    while (is >> w) tk.push_back(w);
    if (tk.empty()) continue;
    if (tk[0] == "H") {
      for (int i = 0; i < NREG; ++i) {
        Sparse_Row fresh(0); swap(*regs[i], fresh);
        orc[i].clear(); orc_size[i] = 0; prevp[i] = erasedp[i] = 1;
      }
      le_reset();
      opcount = 0;
      std::cout << "H " << tk[1] << "\n";
    }
    else if (tk[0] == "T") { tk.erase(tk.begin()); tree_op(tk); }
    else if (tk[0] == "E") { tk.erase(tk.begin()); le_op(tk); }
    else std::cout << "?? " << line << "\n";
  }
  return 0;
}
