(* C05 -- set-level exactness of the affine image, the generalized (modular) affine image, and of the
   generalized image / preimage with an expression on the left-hand side (computed in dimension n+1). *)
From Coq Require Import List ZArith QArith Lia Lqa Bool Setoid Morphisms.
Require Import PPLV.Grid.QVec PPLV.Grid.IntLin PPLV.Grid.GridSem PPLV.Grid.GridRef PPLV.Grid.GridOps2
               PPLV.Grid.GridFreq PPLV.Grid.GridOpsSpec.
Import ListNotations.
Local Open Scope Q_scope.

(* expr_val a b x = dotf (map inject_Z a) x + inject_Z b   (GridFreq.v) *)

Lemma in_qgens_peq n G x y : peq n x y -> in_qgens n G x -> in_qgens n G y.
Proof.
  intros E [a [u [v [Ha [Hu [Hv Hx]]]]]]. exists a, u, v. split; [exact Ha|]. split; [exact Hu|].
  split; [exact Hv|]. eapply peq_trans; [apply peq_sym; exact E|exact Hx].
Qed.

Lemma expr_val_peq n a b x y : (length a <= n)%nat -> peq n x y -> expr_val a b x == expr_val a b y.
Proof.
  intros Hl E. unfold expr_val. rewrite (dotf_peq (map inject_Z a) n x y); [reflexivity| |exact E].
  rewrite map_length. exact Hl.
Qed.

Lemma qdiv1 q : q / 1 == q.
Proof. field. Qed.

(* ---------- A. affine image ---------- *)
Section Img.
Variable k : nat.
Variable qa : list Q.
Variables qb qd : Q.
Hypothesis Hd : ~ qd == 0.

Definition phiA (p : vec) : vec := vupd p k (Qred ((fdot qa p + qb) / qd)).
Definition phi0 (q : vec) : vec := vupd q k (Qred (fdot qa q / qd)).

Lemma vnth_phiA p i : vnth (phiA p) i == if Nat.eqb i k then (fdot qa p + qb) / qd else vnth p i.
Proof. unfold phiA. rewrite vnth_upd. destruct (Nat.eqb i k); [apply Qred_correct|reflexivity]. Qed.
Lemma vnth_phi0 p i : vnth (phi0 p) i == if Nat.eqb i k then fdot qa p / qd else vnth p i.
Proof. unfold phi0. rewrite vnth_upd. destruct (Nat.eqb i k); [apply Qred_correct|reflexivity]. Qed.

Lemma phi0_linear : linear phi0.
Proof.
  split.
  - intros u v E i. rewrite !vnth_phi0. destruct (Nat.eqb i k); [rewrite (fdot_eq qa u v E); reflexivity|apply E].
  - intros u v i. rewrite vnth_add, !vnth_phi0. destruct (Nat.eqb i k).
    + rewrite fdot_add. field. exact Hd.
    + apply vnth_add.
  - intros c u i. rewrite vnth_scale, !vnth_phi0. destruct (Nat.eqb i k).
    + rewrite fdot_scale. field. exact Hd.
    + apply vnth_scale.
  - intros i. rewrite vnth_phi0. destruct (Nat.eqb i k); [|reflexivity].
    rewrite fdot_zero, vnth_zero. field. exact Hd.
Qed.

Lemma phiA_eq u v : veq u v -> veq (phiA u) (phiA v).
Proof.
  intros E i. rewrite !vnth_phiA. destruct (Nat.eqb i k); [rewrite (fdot_eq qa u v E); reflexivity|apply E].
Qed.

Lemma phiA_move a p q : veq (phiA (vadd a (vsub p q))) (vadd (phiA a) (vsub (phiA p) (phiA q))).
Proof.
  intros i. unfold vsub. rewrite !vnth_add, vnth_scale, !vnth_phiA. destruct (Nat.eqb i k).
  - rewrite !fdot_add, fdot_scale. field. exact Hd.
  - rewrite !vnth_add, vnth_scale. reflexivity.
Qed.

Lemma phiA_sum a u v : veq (vadd (phiA a) (vadd (phi0 u) (phi0 v))) (phiA (vadd a (vadd u v))).
Proof.
  intros i. rewrite !vnth_add, !vnth_phiA, !vnth_phi0. destruct (Nat.eqb i k).
  - rewrite !fdot_add. field. exact Hd.
  - rewrite !vnth_add. reflexivity.
Qed.

Lemma iaff_img P a : iaff P a -> iaff (map phiA P) (phiA a).
Proof.
  intros Ha. induction Ha as [p Hp|a p q _ IH Hp Hq|a a' E _ IH].
  - apply ia_pt. now apply in_map.
  - eapply ia_eq; [|apply (ia_move _ (phiA a) (phiA p) (phiA q) IH); now apply in_map].
    symmetry. apply phiA_move.
  - eapply ia_eq; [apply phiA_eq; exact E|exact IH].
Qed.

Lemma iaff_img_inv P b : iaff (map phiA P) b -> exists a, iaff P a /\ veq b (phiA a).
Proof.
  intros Hb. induction Hb as [p Hp|b p q _ [a [Ha Ea]] Hp Hq|b b' E _ [a [Ha Ea]]].
  - apply in_map_iff in Hp. destruct Hp as [p0 [<- Hp0]]. exists p0. split; [now apply ia_pt|reflexivity].
  - apply in_map_iff in Hp. destruct Hp as [p0 [<- Hp0]].
    apply in_map_iff in Hq. destruct Hq as [q0 [<- Hq0]].
    exists (vadd a (vsub p0 q0)). split; [now apply ia_move|].
    rewrite phiA_move, Ea. reflexivity.
  - exists a. split; [exact Ha|]. rewrite <- E. exact Ea.
Qed.

Lemma points_img G : points (map (img_gen k qa qb qd) G) = map phiA (points G).
Proof. induction G as [|[v|v|v] G IH]; cbn [map img_gen points]; rewrite ?IH; reflexivity. Qed.
Lemma params_img G : params (map (img_gen k qa qb qd) G) = map phi0 (params G).
Proof. induction G as [|[v|v|v] G IH]; cbn [map img_gen params]; rewrite ?IH; reflexivity. Qed.
Lemma glines_img G : glines (map (img_gen k qa qb qd) G) = map phi0 (glines G).
Proof. induction G as [|[v|v|v] G IH]; cbn [map img_gen glines]; rewrite ?IH; reflexivity. Qed.

Theorem img_spec n G x' : (length qa <= n)%nat ->
  (in_qgens n (map (img_gen k qa qb qd) G) x' <->
   exists x, in_qgens n G x /\ peq n x' (upd x k ((dotf qa x + qb) / qd))).
Proof.
  intros Hl. pose proof phi0_linear as L. split.
  - intros [a' [u' [v' [Ha [Hu [Hv Hx]]]]]].
    rewrite points_img in Ha. rewrite params_img in Hu. rewrite glines_img in Hv.
    apply iaff_img_inv in Ha. destruct Ha as [a [Ha Ea]].
    apply (span_map_inv _ _ _ _ L) in Hu. destruct Hu as [u [Hu Eu]].
    apply (span_map_inv _ _ _ _ L) in Hv. destruct Hv as [v [Hv Ev]].
    exists (vnth (vadd a (vadd u v))). split.
    + exists a, u, v. split; [exact Ha|]. split; [exact Hu|]. split; [exact Hv|apply peq_refl].
    + intros i Hi. rewrite (Hx i Hi). rewrite !vnth_add, (Ea i), (Eu i), (Ev i), <- !vnth_add.
      rewrite (phiA_sum a u v i), vnth_phiA. unfold upd. destruct (Nat.eqb i k); [|reflexivity].
      rewrite fdot_spec. reflexivity.
  - intros [x [[a [u [v [Ha [Hu [Hv Hx]]]]]] Hx']].
    exists (phiA a), (phi0 u), (phi0 v). rewrite points_img, params_img, glines_img.
    split; [now apply iaff_img|]. split; [now apply span_map|]. split; [now apply span_map|].
    intros i Hi. rewrite (Hx' i Hi), (phiA_sum a u v i), vnth_phiA. unfold upd.
    destruct (Nat.eqb i k); [|exact (Hx i Hi)].
    rewrite fdot_spec, (dotf_peq qa n x _ Hl Hx). reflexivity.
Qed.
End Img.

(* length a <= n is needed: the points are only known on their first n coordinates, so the expression must not
   read further; k < n is not needed (for k >= n the update is invisible on both sides) *)
Theorem affine_image_spec : forall n k a b d G x', d <> 0%Z -> (length a <= n)%nat ->
  (in_qgens n (affine_image k a b d G) x' <->
   exists x, in_qgens n G x /\ peq n x' (upd x k (expr_val a b x / inject_Z d))).
Proof.
  intros n k a b d G x' Hd Hl. unfold affine_image, expr_val. apply img_spec.
  - intros H. apply Hd. apply inject_Z_inj. exact H.
  - rewrite map_length. exact Hl.
Qed.

(* ---------- B. generalized affine image (modulus m) ---------- *)
Lemma add_param_spec n G c x :
  in_qgens n (add_gen G (QParam c)) x <->
  exists y (z : Z), in_qgens n G y /\ peq n x (fun i => y i + inject_Z z * vnth c i).
Proof.
  unfold add_gen. split.
  - destruct (is_empty_b G) eqn:EG; [intros H; destruct (in_qgens_nil n x H)|].
    intros [a [u' [v [Ha [Hu [Hv Hx]]]]]].
    rewrite points_app, params_app, glines_app in *. cbn [points params glines] in *.
    rewrite app_nil_r in Ha, Hv.
    apply span_app_inv in Hu. destruct Hu as [u [w [Hu [Hw E]]]].
    apply zspan_cons in Hw. destruct Hw as [z [o [Ho Ew]]]. apply span_nil in Ho.
    exists (vnth (vadd a (vadd u v))), z. split.
    + exists a, u, v. split; [exact Ha|]. split; [exact Hu|]. split; [exact Hv|apply peq_refl].
    + intros i Hi. rewrite (Hx i Hi). cbn beta. vpush. rewrite (E i). vpush. rewrite (Ew i). vpush.
      rewrite (Ho i). vpush. ring.
  - intros [y [z [[a [u [v [Ha [Hu [Hv Hy]]]]]] Hx]]].
    rewrite (is_empty_false G a Ha).
    exists a, (vadd u (vscale (inject_Z z) c)), v.
    rewrite points_app, params_app, glines_app. cbn [points params glines]. rewrite !app_nil_r.
    split; [exact Ha|].
    split; [apply span_app; [exact Hu|]; apply sp_scale; [apply isZ_inj|]; apply sp_in; now left|].
    split; [exact Hv|].
    intros i Hi. rewrite (Hx i Hi). cbn beta. rewrite (Hy i Hi). vpush. ring.
Qed.

Theorem gen_image_spec : forall n k a b d m G x', d <> 0%Z -> (length a <= n)%nat ->
  (in_qgens n (gen_image k a b d m G) x' <->
   exists x (z : Z), in_qgens n G x /\
     peq n x' (upd x k (expr_val a b x / inject_Z d + inject_Z z * inject_Z m))).
Proof.
  intros n k a b d m G x' Hd Hl. unfold gen_image. destruct (Z.eqb_spec m 0) as [->|Hm].
  - rewrite (affine_image_spec n k a b d G x' Hd Hl). split.
    + intros [x [Hx E]]. exists x, 0%Z. split; [exact Hx|]. intros i Hi. rewrite (E i Hi). unfold upd.
      destruct (Nat.eqb i k); [|reflexivity]. change (inject_Z 0) with 0. ring.
    + intros [x [z [Hx E]]]. exists x. split; [exact Hx|]. intros i Hi. rewrite (E i Hi). unfold upd.
      destruct (Nat.eqb i k); [|reflexivity]. change (inject_Z 0) with 0. ring.
  - rewrite add_param_spec. split.
    + intros [y [z [Hy E]]]. apply (affine_image_spec n k a b d G y Hd Hl) in Hy. destruct Hy as [x [Hx Ey]].
      exists x, z. split; [exact Hx|]. intros i Hi. rewrite (E i Hi). cbn beta. rewrite (Ey i Hi).
      rewrite vnth_scale, vnth_unit. unfold upd. destruct (Nat.eqb i k); ring.
    + intros [x [z [Hx E]]]. exists (upd x k (expr_val a b x / inject_Z d)), z. split.
      * apply (affine_image_spec n k a b d G _ Hd Hl). exists x. split; [exact Hx|apply peq_refl].
      * intros i Hi. rewrite (E i Hi). cbn beta. rewrite vnth_scale, vnth_unit. unfold upd.
        destruct (Nat.eqb i k); ring.
Qed.

(* ---------- C. generalized image / preimage with an expression on the left-hand side ---------- *)
(* the variables occurring in the left-hand side *)
Definition lhs_vars (n : nat) (la : list Z) : list nat :=
  filter (fun v => negb (nth v la 0 =? 0)%Z) (seq 0 n).

Definition unconstrain_all (L : list nat) (G : list qgen) : list qgen :=
  fold_left (fun g v => unconstrain v g) L G.

(* lhs(x') = rhs(x) (mod m), x' = x on the variables not occurring in lhs *)
Definition gen_image_lhs (n : nat) (la : list Z) (lb : Z) (ra : list Z) (rb m : Z) (G : list qgen)
  : ans (list qgen) :=
  let g1 := add_dims_embed n 1 G in
  let g2 := gen_image n ra rb 1 m g1 in
  let g3 := unconstrain_all (lhs_vars n la) g2 in
  match gens_add_cgs (S n) g3 [ {| cg_a := la ++ [(-1)%Z]; cg_b := lb; cg_m := 0%Z |} ] with
  | Unk => Unk
  | Ans g4 => Ans (remove_higher n g4)
  end.

Definition gen_preimage_lhs (n : nat) (la : list Z) (lb : Z) (ra : list Z) (rb m : Z) (G : list qgen)
  : ans (list qgen) :=
  let g1 := add_dims_embed n 1 G in
  let g2 := gen_image n la lb 1 0 g1 in
  let g3 := unconstrain_all (lhs_vars n la) g2 in
  match gens_add_cgs (S n) g3 [ {| cg_a := ra ++ [(-1)%Z]; cg_b := rb; cg_m := m |} ] with
  | Unk => Unk
  | Ans g4 => Ans (remove_higher n g4)
  end.

(* the common shape, for the proofs only *)
Definition lhs_core (n : nat) (la a1 : list Z) (b1 m1 : Z) (a2 : list Z) (b2 m2 : Z) (G : list qgen)
  : ans (list qgen) :=
  let g1 := add_dims_embed n 1 G in
  let g2 := gen_image n a1 b1 1 m1 g1 in
  let g3 := unconstrain_all (lhs_vars n la) g2 in
  match gens_add_cgs (S n) g3 [ {| cg_a := a2 ++ [(-1)%Z]; cg_b := b2; cg_m := m2 |} ] with
  | Unk => Unk
  | Ans g4 => Ans (remove_higher n g4)
  end.

Lemma gen_image_lhs_core n la lb ra rb m G : gen_image_lhs n la lb ra rb m G = lhs_core n la ra rb m la lb 0 G.
Proof. reflexivity. Qed.
Lemma gen_preimage_lhs_core n la lb ra rb m G : gen_preimage_lhs n la lb ra rb m G = lhs_core n la la lb 0 ra rb m G.
Proof. reflexivity. Qed.

Lemma in_lhs_vars n la i : In i (lhs_vars n la) <-> (i < n)%nat /\ nth i la 0%Z <> 0%Z.
Proof.
  unfold lhs_vars. rewrite filter_In, in_seq, negb_true_iff, Z.eqb_neq. split; intros [H1 H2]; split; auto; lia.
Qed.

Lemma unconstrain_all_spec N : forall L g y, (forall k, In k L -> (k < N)%nat) ->
  (in_qgens N (unconstrain_all L g) y <->
   exists y0, in_qgens N g y0 /\ forall i, (i < N)%nat -> ~ In i L -> y i == y0 i).
Proof.
  induction L as [|k L IH]; intros g y HL.
  - cbn [unconstrain_all fold_left]. split.
    + intros H. exists y. split; [exact H|]. intros; reflexivity.
    + intros [y0 [H E]]. eapply in_qgens_peq; [|exact H]. intros i Hi. symmetry. apply E; [exact Hi|intros []].
  - unfold unconstrain_all. cbn [fold_left]. fold (unconstrain_all L (unconstrain k g)).
    rewrite IH by (intros j Hj; apply HL; now right). split.
    + intros [y0 [H0 E]]. apply unconstrain_spec in H0; [|apply HL; now left]. destruct H0 as [v Hv].
      exists (upd y0 k v). split; [exact Hv|]. intros i Hi Hn. unfold upd.
      destruct (Nat.eqb_spec i k) as [e|ne]; [exfalso; apply Hn; left; symmetry; exact e|].
      apply E; [exact Hi|]. intros H. apply Hn. now right.
    + intros [y1 [H1 E]]. exists (upd y1 k (y k)). split.
      * apply unconstrain_spec; [apply HL; now left|]. exists (y1 k).
        eapply in_qgens_peq; [|exact H1]. intros i Hi. unfold upd.
        destruct (Nat.eqb_spec i k) as [e|ne]; [rewrite e; reflexivity|reflexivity].
      * intros i Hi Hn. unfold upd. destruct (Nat.eqb_spec i k) as [e|ne]; [rewrite e; reflexivity|].
        apply E; [exact Hi|]. intros [H|H]; [apply ne; symmetry; exact H|apply Hn; exact H].
Qed.

Lemma dotf_snoc a c : forall y : point, dotf (a ++ [c]) y == dotf a y + c * y (length a).
Proof.
  induction a as [|x a IH]; intros y; cbn [app dotf length]; [ring|].
  rewrite (IH (fun j => y (S j))). ring.
Qed.

(* a congruence whose last coefficient (on coordinate n) is -1: the m-congruence, or the equality when m = 0 *)
Lemma sat_last n a b m y : length a = n ->
  (sat_cg {| cg_a := a ++ [(-1)%Z]; cg_b := b; cg_m := m |} y <->
   exists mu : Z, expr_val a b y - y n == inject_Z mu * inject_Z m).
Proof.
  intros Hl. unfold sat_cg, expr_val. cbn [cg_a cg_b cg_m].
  assert (E : dotf (map inject_Z (a ++ [(-1)%Z])) y == dotf (map inject_Z a) y - y n).
  { rewrite map_app. cbn [map]. rewrite dotf_snoc, map_length, Hl. change (inject_Z (-1)) with (-(1)). ring. }
  split; intros [mu H]; exists mu.
  - rewrite <- H, E. ring.
  - rewrite E, <- H. ring.
Qed.

Theorem lhs_core_spec n la a1 b1 m1 a2 b2 m2 G G' : length a1 = n -> length a2 = n ->
  lhs_core n la a1 b1 m1 a2 b2 m2 G = Ans G' ->
  forall t, in_qgens n G' t <->
    exists s (z1 z2 : Z), in_qgens n G s /\
      (forall i, (i < n)%nat -> nth i la 0%Z = 0%Z -> t i == s i) /\
      expr_val a2 b2 t - (expr_val a1 b1 s + inject_Z z1 * inject_Z m1) == inject_Z z2 * inject_Z m2.
Proof.
  intros L1 L2. unfold lhs_core.
  destruct (gens_add_cgs (S n) _ _) as [|g4] eqn:E4; [discriminate|]. intros [= <-] t.
  assert (HV : forall k, In k (lhs_vars n la) -> (k < S n)%nat).
  { intros k Hk. apply in_lhs_vars in Hk. lia. }
  assert (One : (1 <> 0)%Z) by discriminate.
  assert (L1' : (length a1 <= S n)%nat) by lia.
  rewrite (remove_higher_spec (S n) n g4 t) by lia. split.
  - intros [y [Hy Ety]]. apply (gens_add_cgs_spec _ _ _ _ E4) in Hy. destruct Hy as [Hy3 Hsat].
    specialize (Hsat _ (or_introl eq_refl)). apply (sat_last n a2 b2 m2 y L2) in Hsat. destruct Hsat as [mu Hmu].
    apply (unconstrain_all_spec (S n) _ _ _ HV) in Hy3. destruct Hy3 as [y' [Hy2 Eyy]].
    apply (gen_image_spec (S n) n a1 b1 1 m1 _ _ One L1') in Hy2. destruct Hy2 as [y0 [z [Hy1 Ey']]].
    replace (S n) with (n + 1)%nat in Hy1 by lia. apply (proj1 (add_dims_embed_spec n 1 G y0)) in Hy1.
    exists y0, z, mu. split; [exact Hy1|]. split.
    + intros i Hi Hla. rewrite (Ety i Hi). rewrite (Eyy i); [|lia|intros H; apply in_lhs_vars in H; tauto].
      rewrite (Ey' i) by lia. unfold upd. destruct (Nat.eqb_spec i n); [lia|reflexivity].
    + rewrite (expr_val_peq n a2 b2 t y) by (try lia; exact Ety).
      assert (Yn : y n == expr_val a1 b1 y0 + inject_Z z * inject_Z m1).
      { rewrite (Eyy n); [|lia|intros H; apply in_lhs_vars in H; lia].
        rewrite (Ey' n) by lia. unfold upd. rewrite Nat.eqb_refl. change (inject_Z 1) with 1.
        rewrite qdiv1. reflexivity. }
      rewrite <- Yn. exact Hmu.
  - intros [s [z1 [z2 [Hs [Eag Ex]]]]].
    set (w := expr_val a1 b1 s + inject_Z z1 * inject_Z m1) in *.
    exists (upd t n w). split; [|intros i Hi; unfold upd; destruct (Nat.eqb_spec i n); [lia|reflexivity]].
    apply (gens_add_cgs_spec _ _ _ _ E4). split.
    + apply (unconstrain_all_spec (S n) _ _ _ HV). exists (upd s n w). split.
      * apply (gen_image_spec (S n) n a1 b1 1 m1 _ _ One L1'). exists s, z1. split.
        -- replace (S n) with (n + 1)%nat by lia. apply add_dims_embed_spec. exact Hs.
        -- intros i Hi. unfold upd. destruct (Nat.eqb i n); [|reflexivity].
           unfold w. change (inject_Z 1) with 1. rewrite qdiv1. reflexivity.
      * intros i Hi Hn. unfold upd. destruct (Nat.eqb_spec i n) as [e|ne]; [reflexivity|].
        apply Eag; [lia|]. destruct (Z.eq_dec (nth i la 0%Z) 0) as [e0|n0]; [exact e0|].
        exfalso. apply Hn. apply in_lhs_vars. split; [lia|exact n0].
    + intros c [<-|[]]. apply (sat_last n a2 b2 m2 _ L2). exists z2.
      rewrite (expr_val_peq n a2 b2 (upd t n w) t);
        [|lia|intros i Hi; unfold upd; destruct (Nat.eqb_spec i n); [lia|reflexivity]].
      unfold upd. rewrite Nat.eqb_refl. exact Ex.
Qed.

(* sat_cg reads  a.x + b = 0 (mod m)  as  exists mu, a.x + b == mu * m ; with m = 0 it is the equality.
   The hypotheses length la = n and 0 <= m are not needed (nth has default 0; the sign of m is immaterial). *)
Theorem gen_image_lhs_spec : forall n la lb ra rb m G G', length ra = n -> length la = n ->
  gen_image_lhs n la lb ra rb m G = Ans G' ->
  forall x', in_qgens n G' x' <->
    exists x, in_qgens n G x /\
      (forall i, (i < n)%nat -> nth i la 0%Z = 0%Z -> x' i == x i) /\
      exists z : Z, expr_val la lb x' == expr_val ra rb x + inject_Z z * inject_Z m.
Proof.
  intros n la lb ra rb m G G' Lr Ll E x'. rewrite gen_image_lhs_core in E.
  rewrite (lhs_core_spec n la ra rb m la lb 0%Z G G' Lr Ll E x'). split.
  - intros [x [z1 [z2 [Hx [Ea Ex]]]]]. exists x. split; [exact Hx|]. split; [exact Ea|]. exists z1.
    change (inject_Z 0) with 0 in Ex.
    transitivity (expr_val la lb x' - (expr_val ra rb x + inject_Z z1 * inject_Z m)
                  + (expr_val ra rb x + inject_Z z1 * inject_Z m)); [ring|]. rewrite Ex. ring.
  - intros [x [Hx [Ea [z Ex]]]]. exists x, z, 0%Z. split; [exact Hx|]. split; [exact Ea|].
    rewrite Ex. change (inject_Z 0) with 0. ring.
Qed.

Theorem gen_preimage_lhs_spec : forall n la lb ra rb m G G', length ra = n -> length la = n ->
  gen_preimage_lhs n la lb ra rb m G = Ans G' ->
  forall x, in_qgens n G' x <->
    exists x', in_qgens n G x' /\
      (forall i, (i < n)%nat -> nth i la 0%Z = 0%Z -> x' i == x i) /\
      exists z : Z, expr_val la lb x' == expr_val ra rb x + inject_Z z * inject_Z m.
Proof.
  intros n la lb ra rb m G G' Lr Ll E x. rewrite gen_preimage_lhs_core in E.
  rewrite (lhs_core_spec n la la lb 0%Z ra rb m G G' Ll Lr E x). split.
  - intros [x' [z1 [z2 [Hx [Ea Ex]]]]]. exists x'. split; [exact Hx|].
    split; [intros i Hi H0; symmetry; now apply Ea|]. exists (- z2)%Z.
    change (inject_Z 0) with 0 in Ex. rewrite inject_Z_opp.
    transitivity (expr_val ra rb x - (expr_val ra rb x - (expr_val la lb x' + inject_Z z1 * 0))); [ring|].
    rewrite Ex. ring.
  - intros [x' [Hx [Ea [z Ex]]]]. exists x', 0%Z, (- z)%Z. split; [exact Hx|].
    split; [intros i Hi H0; symmetry; now apply Ea|].
    rewrite Ex, inject_Z_opp. change (inject_Z 0) with 0. ring.
Qed.

Print Assumptions affine_image_spec.
Print Assumptions gen_image_spec.
Print Assumptions gen_image_lhs_spec.
Print Assumptions gen_preimage_lhs_spec.
