(* C05 -- reference queries and operators on grids.  A reference grid of dimension n is a generator
   system G : list qgen (no point = empty) together with, when needed, a congruence system C; every
   function is executable; every theorem relates it to the set-level meaning (in_qgens / sat_cgs). *)
From Coq Require Import List ZArith QArith Lia Lqa Bool Setoid Morphisms.
Require Import PPLV.Grid.QVec PPLV.Grid.IntLin PPLV.Grid.GridSem.
Import ListNotations.
Local Open Scope Q_scope.

(* answers of the engine: Unk only when a run-time check of the untrusted gcd failed or a dimension is wrong *)
Inductive ans (A : Type) := Unk | Ans (a : A).
Arguments Unk {A}.
Arguments Ans {A} a.

Definition is_empty_b (G : list qgen) : bool := match points G with [] => true | _ => false end.

Theorem is_empty_spec n G : is_empty_b G = true <-> (forall x, ~ in_qgens n G x).
Proof.
  unfold is_empty_b. destruct (points G) as [|p0 ps] eqn:EP.
  - split; [|reflexivity]. intros _ x [a [u [v [Ha _]]]]. rewrite EP in Ha. exact (iaff_nil a Ha).
  - split; [discriminate|]. intros H. exfalso. apply (H (vnth (vadd p0 (vadd vzero vzero)))).
    exists p0, vzero, vzero. split; [apply ia_pt; rewrite EP; now left|].
    split; [constructor|]. split; [constructor|apply peq_refl].
Qed.

(* ---------- congruence system -> generator system ---------- *)
Definition cgs_to_gens (n : nat) (C : list cg) : ans (list qgen) :=
  match solve n (map qcg_of C) with
  | Fail => Unk
  | Empty => Ans []
  | Lat L => Ans (qgens_of L)
  end.

Theorem cgs_to_gens_exact n C G : cgs_to_gens n C = Ans G ->
  forall x, in_qgens n G x <-> sat_cgs C x.
Proof.
  unfold cgs_to_gens. destruct (solve n (map qcg_of C)) as [| |S] eqn:E; [discriminate| |]; intros [= <-] x.
  - split.
    + intros [a [u [v [Ha _]]]]. destruct (iaff_nil a Ha).
    + intros H. exfalso. apply (solve_empty _ _ E x). now apply sat_cgs_qs.
  - rewrite <- den_qgens, (solve_lat _ _ _ E x). symmetry. apply sat_cgs_qs.
Qed.

(* ---------- adding congruences to a generator system (intersection with sat C) ---------- *)
Definition gens_add_cgs (n : nat) (G : list qgen) (C : list cg) : ans (list qgen) :=
  match alat_of G with
  | None => Ans []
  | Some L => match add_cgs n (map qcg_of C) L with
              | Fail => Unk
              | Empty => Ans []
              | Lat L' => Ans (qgens_of L')
              end
  end.

Theorem gens_add_cgs_spec n G C G' : gens_add_cgs n G C = Ans G' ->
  forall x, in_qgens n G' x <-> in_qgens n G x /\ sat_cgs C x.
Proof.
  unfold gens_add_cgs. destruct (alat_of G) as [S|] eqn:EG.
  - destruct (add_cgs n (map qcg_of C) S) as [| |S'] eqn:E; [discriminate| |]; intros [= <-] x.
    + split.
      * intros [a [u [v [Ha _]]]]. destruct (iaff_nil a Ha).
      * intros [H1 H2]. exfalso. apply (add_cgs_empty _ _ _ E x). split.
        -- now apply (alat_of_some n G S EG).
        -- now apply sat_cgs_qs.
    + rewrite <- den_qgens, (add_cgs_lat _ _ _ _ E x), (alat_of_some n G S EG x), <- sat_cgs_qs. reflexivity.
  - intros [= <-] x. split.
    + intros [a [u [v [Ha _]]]]. destruct (iaff_nil a Ha).
    + intros [H _]. exfalso. exact (alat_of_none n G EG x H).
Qed.

(* ---------- inclusion / equality of generator systems ---------- *)
Definition gens_incl (n : nat) (G1 G2 : list qgen) : ans bool :=
  match alat_of G1 with
  | None => Ans true
  | Some L1 => match alat_of G2 with
               | None => Ans false
               | Some L2 => match incl_lat n L1 L2 with None => Unk | Some b => Ans b end
               end
  end.

Theorem gens_incl_sound n G1 G2 : gens_incl n G1 G2 = Ans true ->
  forall x, in_qgens n G1 x -> in_qgens n G2 x.
Proof.
  unfold gens_incl. destruct (alat_of G1) as [S1|] eqn:E1.
  - destruct (alat_of G2) as [S2|] eqn:E2; [|discriminate].
    destruct (incl_lat n S1 S2) as [b|] eqn:Ei; [|discriminate]. intros [= ->] x Hx.
    apply (alat_of_some n G2 S2 E2). apply (incl_lat_sound n S1 S2 Ei). now apply (alat_of_some n G1 S1 E1).
  - intros _ x Hx. exfalso. exact (alat_of_none n G1 E1 x Hx).
Qed.

Definition ans_and (a b : ans bool) : ans bool :=
  match a, b with Ans x, Ans y => Ans (x && y) | _, _ => Unk end.

Definition gens_equiv (n : nat) (G1 G2 : list qgen) : ans bool := ans_and (gens_incl n G1 G2) (gens_incl n G2 G1).

Theorem gens_equiv_sound n G1 G2 : gens_equiv n G1 G2 = Ans true ->
  forall x, in_qgens n G1 x <-> in_qgens n G2 x.
Proof.
  unfold gens_equiv, ans_and. destruct (gens_incl n G1 G2) as [|b1] eqn:E1; [discriminate|].
  destruct (gens_incl n G2 G1) as [|b2] eqn:E2; [discriminate|]. intros [= H].
  apply andb_true_iff in H. destruct H as [-> ->]. intros x. split.
  - now apply gens_incl_sound. - now apply gens_incl_sound.
Qed.

(* ---------- do a congruence system and a generator system describe the same set ---------- *)
Definition dims_ok (n : nat) (C : list cg) : bool := forallb (cg_dim_ok n) C.

Definition dd_agree (n : nat) (C : list cg) (G : list qgen) : ans bool :=
  if negb (dims_ok n C) then Unk else
  if negb (qgens_sat_cgs n G C) then Ans false else
  match cgs_to_gens n C with
  | Unk => Unk
  | Ans GC => gens_incl n GC G
  end.

Theorem dd_agree_sound n C G : dd_agree n C G = Ans true ->
  forall x, sat_cgs C x <-> in_qgens n G x.
Proof.
  unfold dd_agree. destruct (dims_ok n C) eqn:Ed; [|discriminate]. cbn [negb].
  destruct (qgens_sat_cgs n G C) eqn:Es; [|discriminate]. cbn [negb].
  destruct (cgs_to_gens n C) as [|GC] eqn:Ec; [discriminate|]. intros Hi x. split.
  - intros H. apply (gens_incl_sound n GC G Hi). now apply (cgs_to_gens_exact n C GC Ec).
  - intros H. exact (proj1 (qgens_sat_cgs_exact n G C Ed) Es x H).
Qed.

(* the negative answer caused by the generator-wise test is proved as well *)
Theorem dd_agree_gens_outside n C G : dims_ok n C = true -> qgens_sat_cgs n G C = false ->
  ~ (forall x, in_qgens n G x -> sat_cgs C x).
Proof.
  intros Hd Hs H. apply (qgens_sat_cgs_exact n G C Hd) in H. congruence.
Qed.

(* ---------- queries ---------- *)
(* universe: the universe generators satisfy every congruence *)
Definition is_universe_b (n : nat) (C : list cg) : bool := qgens_sat_cgs n (qgens_of (universe n)) C.

Theorem is_universe_spec n C : dims_ok n C = true ->
  (is_universe_b n C = true <-> (forall x, sat_cgs C x)).
Proof.
  intros Hd. unfold is_universe_b. rewrite (qgens_sat_cgs_exact n _ C Hd). split.
  - intros H x. apply H. apply den_qgens. apply universe_den.
  - intros H x _. apply H.
Qed.

(* X contains Y, X given by congruences, Y by generators *)
Definition contains_b (n : nat) (CX : list cg) (GY : list qgen) : bool := qgens_sat_cgs n GY CX.

Theorem contains_spec n CX GY : dims_ok n CX = true ->
  (contains_b n CX GY = true <-> (forall x, in_qgens n GY x -> sat_cgs CX x)).
Proof. intros Hd. apply qgens_sat_cgs_exact. exact Hd. Qed.

(* disjointness: X by generators, Y by congruences *)
Definition is_disjoint_b (n : nat) (GX : list qgen) (CY : list cg) : ans bool :=
  match gens_add_cgs n GX CY with Unk => Unk | Ans G' => Ans (is_empty_b G') end.

Theorem is_disjoint_spec n GX CY b : is_disjoint_b n GX CY = Ans b ->
  (b = true <-> (forall x, ~ (in_qgens n GX x /\ sat_cgs CY x))).
Proof.
  unfold is_disjoint_b. destruct (gens_add_cgs n GX CY) as [|G'] eqn:E; [discriminate|]. intros [= <-].
  rewrite (is_empty_spec n G'). split; intros H x Hx; apply (H x); now apply (gens_add_cgs_spec n GX CY G' E).
Qed.

(* relation with a congruence: (is_disjoint, is_included) *)
Definition relation_cg (n : nat) (G : list qgen) (c : cg) : ans (bool * bool) :=
  match is_disjoint_b n G [c] with
  | Unk => Unk
  | Ans d => Ans (d, qgens_sat_cgs n G [c])
  end.

Theorem relation_cg_spec n G c d i : cg_dim_ok n c = true -> relation_cg n G c = Ans (d, i) ->
  (d = true <-> (forall x, ~ (in_qgens n G x /\ sat_cg c x))) /\
  (i = true <-> (forall x, in_qgens n G x -> sat_cg c x)).
Proof.
  intros Hd. unfold relation_cg. destruct (is_disjoint_b n G [c]) as [|d0] eqn:E; [discriminate|].
  intros [= <- <-]. split.
  - rewrite (is_disjoint_spec n G [c] d0 E). split; intros H x [H1 H2]; apply (H x); split; auto.
    + intros c' [<-|[]]. exact H2.
    + apply H2. now left.
  - rewrite (qgens_sat_cgs_exact n G [c]) by (cbn; rewrite Hd; reflexivity). split; intros H x Hx.
    + apply (H x Hx). now left.
    + intros c' [<-|[]]. now apply H.
Qed.

(* bounded = at most one point: every parameter and line is null on the first n coordinates,
   and all the points coincide there *)
Definition vnull_b (n : nat) (v : vec) : bool := forallb (fun i => Qeq_bool (vnth v i) 0) (seq 0 n).

Lemma vnull_spec n v : vnull_b n v = true <-> peq n (vnth v) (vnth vzero).
Proof.
  unfold vnull_b. rewrite forallb_forall. split.
  - intros H i Hi. rewrite vnth_zero. apply Qeq_bool_iff. apply H. apply in_seq. lia.
  - intros H i Hi. apply in_seq in Hi. apply Qeq_bool_iff. rewrite (H i) by lia. apply vnth_zero.
Qed.

Definition is_discrete_b (n : nat) (G : list qgen) : bool :=
  is_empty_b G || forallb (vnull_b n) (glines G).

Definition is_bounded_b (n : nat) (G : list qgen) : bool :=
  match alat_of G with
  | None => true
  | Some L => forallb (vnull_b n) (pars L) && forallb (vnull_b n) (lins L)
  end.

Lemma span_null K n bs u : (forall b, In b bs -> peq n (vnth b) (vnth vzero)) -> span K bs u -> peq n (vnth u) (vnth vzero).
Proof.
  intros H Hu. induction Hu as [|b Hb|u v _ IHu _ IHv|k u Hk _ IHu|u v E _ IHu].
  - apply peq_refl. - now apply H.
  - intros i Hi. vpush. rewrite (IHu i Hi), (IHv i Hi). vpush. ring.
  - intros i Hi. vpush. rewrite (IHu i Hi). vpush. ring.
  - intros i Hi. rewrite <- (E i). now apply IHu.
Qed.

Theorem is_bounded_spec n G :
  is_bounded_b n G = true <-> (forall x y, in_qgens n G x -> in_qgens n G y -> peq n x y).
Proof.
  unfold is_bounded_b. destruct (alat_of G) as [S|] eqn:E.
  - rewrite andb_true_iff, !forallb_forall. split.
    + intros [Hb Hl] x y Hx Hy. apply (alat_of_some n G S E) in Hx. apply (alat_of_some n G S E) in Hy.
      assert (One : forall z, den n S z -> peq n z (vnth (pt S))).
      { intros z [u [v [Hu [Hv Hz]]]].
        pose proof (span_null _ n _ u (fun b Hb' => proj1 (vnull_spec n b) (Hb b Hb')) Hu) as Nu.
        pose proof (span_null _ n _ v (fun b Hb' => proj1 (vnull_spec n b) (Hl b Hb')) Hv) as Nv.
        intros i Hi. rewrite (Hz i Hi). vpush. rewrite (Nu i Hi), (Nv i Hi). vpush. ring. }
      eapply peq_trans; [apply One; exact Hx|apply peq_sym; apply One; exact Hy].
    + intros H. split; intros b Hb; apply vnull_spec.
      * assert (Hd : den n S (vnth (vadd (pt S) (vadd b vzero)))).
        { exists b, vzero. split; [now apply sp_in|]. split; [constructor|apply peq_refl]. }
        pose proof (H _ _ (proj2 (alat_of_some n G S E _) Hd) (proj2 (alat_of_some n G S E _) (den_pt n S))) as P.
        intros i Hi. specialize (P i Hi). revert P. vpush. intros P.
        transitivity (vnth (pt S) i + (vnth b i + 0) - vnth (pt S) i); [ring|]. rewrite P. ring.
      * assert (Hd : den n S (vnth (vadd (pt S) (vadd vzero b)))).
        { exists vzero, b. split; [constructor|]. split; [now apply sp_in|apply peq_refl]. }
        pose proof (H _ _ (proj2 (alat_of_some n G S E _) Hd) (proj2 (alat_of_some n G S E _) (den_pt n S))) as P.
        intros i Hi. specialize (P i Hi). revert P. vpush. intros P.
        transitivity (vnth (pt S) i + (0 + vnth b i) - vnth (pt S) i); [ring|]. rewrite P. ring.
  - split; [|reflexivity]. intros _ x y Hx. exfalso. exact (alat_of_none n G E x Hx).
Qed.

(* ---------- join: least grid containing both ---------- *)
Definition join (G1 G2 : list qgen) : list qgen :=
  if is_empty_b G1 then G2 else if is_empty_b G2 then G1 else G1 ++ G2.

Lemma iaff_incl P P' a : incl P P' -> iaff P a -> iaff P' a.
Proof.
  intros H Ha. induction Ha as [p Hp|a p q _ IH Hp Hq|a a' E _ IH].
  - apply ia_pt. now apply H. - apply ia_move; auto. - eapply ia_eq; eauto.
Qed.

Lemma in_qgens_app_l n G1 G2 x : in_qgens n G1 x -> in_qgens n (G1 ++ G2) x.
Proof.
  intros [a [u [v [Ha [Hu [Hv Hx]]]]]]. exists a, u, v. rewrite points_app, params_app, glines_app.
  split; [eapply iaff_incl; [|exact Ha]; apply incl_appl, incl_refl|].
  split; [eapply span_incl; [|exact Hu]; apply incl_appl, incl_refl|].
  split; [eapply span_incl; [|exact Hv]; apply incl_appl, incl_refl|exact Hx].
Qed.
Lemma in_qgens_app_r n G1 G2 x : in_qgens n G2 x -> in_qgens n (G1 ++ G2) x.
Proof.
  intros [a [u [v [Ha [Hu [Hv Hx]]]]]]. exists a, u, v. rewrite points_app, params_app, glines_app.
  split; [eapply iaff_incl; [|exact Ha]; apply incl_appr, incl_refl|].
  split; [eapply span_incl; [|exact Hu]; apply incl_appr, incl_refl|].
  split; [eapply span_incl; [|exact Hv]; apply incl_appr, incl_refl|exact Hx].
Qed.

Theorem join_upper n G1 G2 x : in_qgens n G1 x \/ in_qgens n G2 x -> in_qgens n (join G1 G2) x.
Proof.
  unfold join. destruct (is_empty_b G1) eqn:E1.
  - intros [H|H]; [|exact H]. exfalso. exact (proj1 (is_empty_spec n G1) E1 x H).
  - destruct (is_empty_b G2) eqn:E2.
    + intros [H|H]; [exact H|]. exfalso. exact (proj1 (is_empty_spec n G2) E2 x H).
    + intros [H|H]; [now apply in_qgens_app_l|now apply in_qgens_app_r].
Qed.

(* least among the sets described by congruence systems (PPL's definition of a rational grid) *)
Theorem join_least n G1 G2 C : dims_ok n C = true ->
  (forall x, in_qgens n G1 x -> sat_cgs C x) -> (forall x, in_qgens n G2 x -> sat_cgs C x) ->
  forall x, in_qgens n (join G1 G2) x -> sat_cgs C x.
Proof.
  intros Hd H1 H2. unfold join. destruct (is_empty_b G1) eqn:E1; [exact H2|].
  destruct (is_empty_b G2) eqn:E2; [exact H1|].
  apply (qgens_sat_cgs_exact n _ C Hd).
  apply (qgens_sat_cgs_exact n _ C Hd) in H1. apply (qgens_sat_cgs_exact n _ C Hd) in H2.
  unfold qgens_sat_cgs in *. rewrite forallb_forall in *. intros c Hc.
  specialize (H1 c Hc). specialize (H2 c Hc). apply andb_true_iff in H1, H2. destruct H1 as [D1 S1], H2 as [_ S2].
  rewrite D1. cbn [andb]. unfold qgens_sat, is_empty_b in *. rewrite points_app.
  destruct (points G1) as [|p1 P1]; [discriminate|]. destruct (points G2) as [|p2 P2]; [discriminate|].
  cbn [app]. rewrite forallb_app, S1, S2. reflexivity.
Qed.

(* adding one generator is the join with it (PPL rejects a non-point added to the empty grid) *)
Definition add_gen (G : list qgen) (g : qgen) : list qgen :=
  match g with
  | QPoint _ => G ++ [g]
  | _ => if is_empty_b G then [] else G ++ [g]
  end.

(* ---------- affine image / preimage of  x_k := (a.x + b) / d ---------- *)
Fixpoint vupd (v : vec) (k : nat) (q : Q) : vec :=
  match k, v with
  | O, [] => [q]
  | O, _ :: v' => q :: v'
  | S k', [] => 0 :: vupd [] k' q
  | S k', y :: v' => y :: vupd v' k' q
  end.

Lemma vnth_upd v : forall k q i, vnth (vupd v k q) i == if Nat.eqb i k then q else vnth v i.
Proof.
  induction v as [|y v IH]; intros k.
  - induction k as [|k IHk]; intros q i; cbn [vupd].
    + destruct i as [|[|i]]; reflexivity.
    + destruct i as [|i]; [reflexivity|]. unfold vnth in *. cbn [nth Nat.eqb]. rewrite IHk.
      destruct (Nat.eqb i k); [reflexivity|]. destruct i; reflexivity.
  - intros q i. destruct k as [|k]; cbn [vupd].
    + destruct i as [|i]; reflexivity.
    + destruct i as [|i]; [reflexivity|]. unfold vnth in *. cbn [nth Nat.eqb]. apply IH.
Qed.

Definition upd (x : point) (k : nat) (q : Q) : point := fun i => if Nat.eqb i k then q else x i.

Definition img_gen (k : nat) (a : list Q) (b d : Q) (g : qgen) : qgen :=
  match g with
  | QPoint p => QPoint (vupd p k (Qred ((fdot a p + b) / d)))
  | QParam q => QParam (vupd q k (Qred (fdot a q / d)))
  | QLine l => QLine (vupd l k (Qred (fdot a l / d)))
  end.

Definition affine_image (k : nat) (a : list Z) (b d : Z) (G : list qgen) : list qgen :=
  map (img_gen k (map inject_Z a) (inject_Z b) (inject_Z d)) G.

(* preimage on congruences: substitute x_k := (a.x + b)/d in  ac.x + bc = 0 (mod m), scaled by d *)
Fixpoint zadd (u v : list Z) : list Z :=
  match u, v with
  | [], _ => v
  | _, [] => u
  | x :: u', y :: v' => (x + y)%Z :: zadd u' v'
  end.
Fixpoint zupd (v : list Z) (k : nat) (q : Z) : list Z :=
  match k, v with
  | O, [] => [q]
  | O, _ :: v' => q :: v'
  | S k', [] => 0%Z :: zupd [] k' q
  | S k', y :: v' => y :: zupd v' k' q
  end.

Definition pre_cg (k : nat) (a : list Z) (b d : Z) (c : cg) : cg :=
  let ck := nth k (cg_a c) 0%Z in
  {| cg_a := zadd (map (Z.mul d) (zupd (cg_a c) k 0%Z)) (map (Z.mul ck) a);
     cg_b := (d * cg_b c + ck * b)%Z;
     cg_m := (d * cg_m c)%Z |}.

Definition affine_preimage (k : nat) (a : list Z) (b d : Z) (C : list cg) : list cg :=
  map (pre_cg k a b d) C.

(* ---------- dimension operators on generators ---------- *)
Definition embed_lines (n m : nat) : list qgen := map (fun i => QLine (unit_vec i)) (seq n m).

Definition add_dims_embed (n m : nat) (G : list qgen) : list qgen :=
  if is_empty_b G then [] else G ++ embed_lines n m.

(* project: new coordinates are 0; generators unchanged (missing coordinates are 0), congruences get x_i = 0 *)
Definition project_cgs (n m : nat) : list cg :=
  map (fun i => {| cg_a := zupd [] i 1%Z; cg_b := 0%Z; cg_m := 0%Z |}) (seq n m).

(* truncate a generator to the first n coordinates (removing higher space dimensions) *)
Definition trunc_gen (n : nat) (g : qgen) : qgen :=
  match g with QPoint p => QPoint (firstn n p) | QParam p => QParam (firstn n p) | QLine p => QLine (firstn n p) end.
Definition remove_higher (n : nat) (G : list qgen) : list qgen := map (trunc_gen n) G.

(* PPL-format generators *)
Definition gens_of_ppl (G : list ggen) : list qgen := map qgen_of G.
