(* C05 -- reference for Grid::frequency: the values of  e = a.x + b  on a generated grid form
   c0 + h Z (h the "gcd" of the values of a on the parameters, obtained by the checked Bezout fold)
   unless some line is not orthogonal to a (then every rational is a value). *)
From Coq Require Import List ZArith QArith Qround Qabs Lia Lqa Bool Setoid Morphisms.
Require Import PPLV.Grid.QVec PPLV.Grid.IntLin PPLV.Grid.GridSem PPLV.Grid.GridRef.
Import ListNotations.
Local Open Scope Q_scope.

(* answer: NoFreq (empty grid, or the expression is not constant along a line) | Freq f v *)
Inductive freq_ans := NoFreq | Freq (f v : Q).

(* element of c0 + h Z closest to zero (h > 0): in [-h/2, h/2) *)
Definition closest (c0 h : Q) : Q := Qred (c0 - inject_Z (Qfloor (c0 / h + (1 # 2))) * h).

Definition lat_frequency (a : list Q) (b : Q) (S : alat) : ans freq_ans :=
  match split_line a (lins S) with
  | Some _ => Ans NoFreq
  | None =>
      match bfold a vzero [] (pars S) with
      | None => Unk
      | Some (b0, orth) =>
          let h := Qred (Qabs (fdot a b0)) in
          let c0 := Qred (fdot a (pt S) + b) in
          if Qeq_bool h 0 then Ans (Freq 0 c0) else Ans (Freq h (closest c0 h))
      end
  end.

Definition frequency (n : nat) (G : list qgen) (a : list Z) (b : Z) : ans freq_ans :=
  if negb (length a <=? n)%nat then Unk else
  match alat_of G with
  | None => Ans NoFreq
  | Some L => lat_frequency (map inject_Z a) (inject_Z b) L
  end.

(* ---------- specification ---------- *)
Lemma closest_bounds c0 h : 0 < h ->
  exists K : Z, closest c0 h == c0 - inject_Z K * h /\ - (h * (1 # 2)) <= closest c0 h /\ closest c0 h < h * (1 # 2).
Proof.
  intros Hh. unfold closest. set (y := c0 / h + (1 # 2)). exists (Qfloor y).
  rewrite Qred_correct. split; [reflexivity|].
  pose proof (Qfloor_le y) as L. pose proof (Qlt_floor y) as U.
  rewrite inject_Z_plus in U. change (inject_Z 1) with 1 in U.
  set (K := inject_Z (Qfloor y)) in *. clearbody K.
  set (t := c0 / h) in *. assert (Et : c0 == t * h) by (unfold t; field; lra).
  unfold y in *. clearbody t. rewrite Et.
  assert (P1 : 0 <= (t + (1 # 2) - K) * h) by (apply Qmult_le_0_compat; lra).
  assert (P2 : 0 < (K + 1 - (t + (1 # 2))) * h).
  { apply Qmult_lt_0_compat; lra. }
  assert (X1 : (t + (1 # 2) - K) * h == t * h - K * h + h * (1 # 2)) by field.
  assert (X2 : (K + 1 - (t + (1 # 2))) * h == h * (1 # 2) - (t * h - K * h)) by field.
  rewrite X1 in P1. rewrite X2 in P2.
  set (z := t * h - K * h) in *. clearbody z. split; lra.
Qed.

Lemma closest_min v h (j : Z) : 0 < h -> - (h * (1 # 2)) <= v -> v < h * (1 # 2) ->
  Qabs v <= Qabs (v + inject_Z j * h).
Proof.
  intros Hh L U.
  assert (A : Qabs v <= h * (1 # 2)) by (apply Qabs_Qle_condition; lra).
  destruct (Z_dec j 0) as [[Hj|Hj]|Hj].
  - (* j <= -1 *)
    assert (Hq : inject_Z j <= - (1)).
    { change (- (1)) with (inject_Z (-1)). rewrite <- Zle_Qle. lia. }
    assert (P : 0 <= (- (1) - inject_Z j) * h) by (apply Qmult_le_0_compat; lra).
    assert (X : (- (1) - inject_Z j) * h == - h - inject_Z j * h) by ring. rewrite X in P.
    eapply Qle_trans; [exact A|]. rewrite <- Qabs_opp.
    eapply Qle_trans; [|apply Qle_Qabs]. clear X. set (z := inject_Z j * h) in *. clearbody z. lra.
  - (* j >= 1 *)
    assert (Hq : 1 <= inject_Z j).
    { change 1 with (inject_Z 1). rewrite <- Zle_Qle. lia. }
    assert (P : 0 <= (inject_Z j - 1) * h) by (apply Qmult_le_0_compat; lra).
    assert (X : (inject_Z j - 1) * h == inject_Z j * h - h) by ring. rewrite X in P.
    eapply Qle_trans; [exact A|]. eapply Qle_trans; [|apply Qle_Qabs].
    clear X. set (z := inject_Z j * h) in *. clearbody z. lra.
  - subst j. assert (E : v + inject_Z 0 * h == v) by (change (inject_Z 0) with 0; ring).
    rewrite E. apply Qle_refl.
Qed.

Section FreqSpec.
Variable a : list Q.
Variable b : Q.
Variable n : nat.
Hypothesis Hlen : (length a <= n)%nat.
Let f := fdot a.
Let Lf : linfun f := fdot_linfun a.

Theorem lat_frequency_none S : lat_frequency a b S = Ans NoFreq ->
  forall q : Q, exists x, den n S x /\ dotf a x + b == q.
Proof.
  unfold lat_frequency. destruct (split_line a (lins S)) as [[l0 rest]|] eqn:Esl.
  - intros _ q. destruct (split_line_some a _ _ _ Esl) as [Hl Hin]. fold f in Hl.
    set (r := (q - f (pt S) - b) / f l0).
    exists (vnth (vadd (pt S) (vadd vzero (vscale r l0)))). split.
    + exists vzero, (vscale r l0). split; [constructor|]. split; [|apply peq_refl].
      apply sp_scale; [exact I|]. apply sp_in. apply Hin. now left.
    + rewrite (F_of_peq a n Hlen _ _ (peq_refl n _)). fold f.
      rewrite !(lf_add _ Lf), (lf_zero _ Lf), (lf_scale _ Lf). unfold r. field. exact Hl.
  - destruct (bfold a vzero [] (pars S)) as [[b0 orth]|]; [|discriminate].
    destruct (Qeq_bool _ 0); discriminate.
Qed.

Theorem lat_frequency_some S fr v : lat_frequency a b S = Ans (Freq fr v) ->
  0 <= fr /\
  (forall x, den n S x -> exists k : Z, dotf a x + b == v + inject_Z k * fr) /\
  (forall k : Z, exists x, den n S x /\ dotf a x + b == v + inject_Z k * fr) /\
  (forall x, den n S x -> Qabs v <= Qabs (dotf a x + b)).
Proof.
  unfold lat_frequency. destruct (split_line a (lins S)) as [[l0 rest]|] eqn:Esl; [discriminate|].
  pose proof (split_line_none a _ Esl) as Hlo. fold f in Hlo.
  destruct (bfold a vzero [] (pars S)) as [[b0 orth]|] eqn:Ebf; [|discriminate].
  destruct (bfold_spec a _ _ _ _ _ (fun o (H : In o []) => match H with end) Ebf) as [Horth Hsp].
  fold f in Horth.
  assert (Hpars : forall u, zspan (pars S) u <->
            exists (k : Z) o, zspan orth o /\ veq u (vadd (vscale (inject_Z k) b0) o)).
  { intros u. rewrite <- zspan_cons, <- Hsp. cbn [app]. symmetry. apply zspan_zero_cons. }
  set (c0 := f (pt S) + b).
  (* value of the expression on a member, and members with a prescribed coefficient *)
  assert (Val : forall x, den n S x -> exists k : Z, dotf a x + b == c0 + inject_Z k * f b0).
  { intros x [u [w [Hu [Hw Hx]]]]. apply Hpars in Hu. destruct Hu as [k [o [Ho Eu]]]. exists k.
    rewrite (F_of_peq a n Hlen _ _ Hx). fold f. rewrite !(lf_add _ Lf), (lf_eq _ Lf _ _ Eu), (lf_add _ Lf), (lf_scale _ Lf).
    rewrite (span_f0 _ _ _ _ Lf Horth Ho), (span_f0 _ _ _ _ Lf Hlo Hw). unfold c0. ring. }
  assert (Mem : forall k : Z, exists x, den n S x /\ dotf a x + b == c0 + inject_Z k * f b0).
  { intros k. exists (vnth (vadd (pt S) (vadd (vscale (inject_Z k) b0) vzero))). split.
    - exists (vscale (inject_Z k) b0), vzero. split; [|split; [constructor|apply peq_refl]].
      apply Hpars. exists k, vzero. split; [constructor|]. vpoint i. ring.
    - rewrite (F_of_peq a n Hlen _ _ (peq_refl n _)). fold f.
      rewrite !(lf_add _ Lf), (lf_scale _ Lf), (lf_zero _ Lf). unfold c0. ring. }
  fold f. fold c0.
  set (v1 := Qred c0). set (h1 := Qred (Qabs (f b0))). set (v2 := closest v1 h1).
  assert (Ev1 : v1 == c0) by (unfold v1; apply Qred_correct).
  assert (Eh1 : h1 == Qabs (f b0)) by (unfold h1; apply Qred_correct).
  clearbody v1 h1.
  destruct (Qeq_bool h1 0) eqn:Eh.
  - apply Qeq_bool_iff in Eh. rewrite Eh1 in Eh.
    assert (E0 : f b0 == 0).
    { revert Eh. apply (Qabs_case (f b0) (fun y => y == 0 -> f b0 == 0)); intros; lra. }
    intros [= <- <-]. split; [apply Qle_refl|]. split; [|split].
    + intros x Hx. destruct (Val x Hx) as [k E]. exists 0%Z. rewrite E, E0, Ev1. ring.
    + intros k. destruct (Mem 0%Z) as [x [Hx E]]. exists x. split; [exact Hx|]. rewrite E, E0, Ev1. ring.
    + intros x Hx. destruct (Val x Hx) as [k E]. rewrite E, E0, Ev1.
      assert (E1 : c0 + inject_Z k * 0 == c0) by ring. rewrite E1. apply Qle_refl.
  - apply Qeq_bool_false in Eh. rewrite Eh1 in Eh.
    intros [= <- <-].
    set (h := Qabs (f b0)) in *.
    assert (Hh : 0 < h).
    { pose proof (Qabs_nonneg (f b0)) as P. fold h in P. destruct (Qle_lt_or_eq _ _ P) as [L|E]; [exact L|].
      exfalso. apply Eh. symmetry. exact E. }
    assert (Sg : exists sg : Z, (sg = 1 \/ sg = -1)%Z /\ f b0 == inject_Z sg * h).
    { unfold h. apply (Qabs_case (f b0) (fun y => exists sg : Z, (sg = 1 \/ sg = -1)%Z /\ f b0 == inject_Z sg * y)); intros _.
      - exists 1%Z. split; [now left|]. change (inject_Z 1) with 1. ring.
      - exists (-1)%Z. split; [now right|]. change (inject_Z (-1)) with (- (1)). ring. }
    destruct Sg as [sg [Hsg Esg]].
    assert (Eq1 : h1 == h) by exact Eh1.
    assert (Eq2 : v2 == closest c0 h).
    { unfold v2, closest. rewrite !Qred_correct.
      assert (E3 : v1 / h1 + (1 # 2) == c0 / h + (1 # 2)) by (rewrite Ev1, Eq1; reflexivity).
      rewrite (Qfloor_comp _ _ E3), Ev1, Eq1. reflexivity. }
    destruct (closest_bounds c0 h Hh) as [K [EK [LB UB]]].
    split; [rewrite Eq1; apply Qlt_le_weak; exact Hh|]. split; [|split].
    + intros x Hx. destruct (Val x Hx) as [k E]. exists (K + k * sg)%Z.
      rewrite E, Eq1, Eq2, EK, Esg, inject_Z_plus, inject_Z_mult. ring.
    + intros k. destruct (Mem ((k - K) * sg)%Z) as [x [Hx E]]. exists x. split; [exact Hx|].
      rewrite E, Eq1, Eq2, EK, Esg, inject_Z_mult. unfold Zminus. rewrite inject_Z_plus, inject_Z_opp.
      assert (S2 : inject_Z sg * inject_Z sg == 1).
      { destruct Hsg as [-> | ->]; reflexivity. }
      transitivity (c0 + (inject_Z k + - inject_Z K) * (inject_Z sg * inject_Z sg) * h); [ring|]. rewrite S2. ring.
    + intros x Hx. destruct (Val x Hx) as [k E]. rewrite E, Eq2.
      assert (E4 : c0 + inject_Z k * f b0 == closest c0 h + inject_Z (K + k * sg) * h).
      { rewrite EK, Esg, inject_Z_plus, inject_Z_mult. ring. }
      rewrite E4. apply closest_min; assumption.
Qed.
End FreqSpec.

(* the query on generator systems with PPL's integer expressions  a.x + b *)
Definition expr_val (a : list Z) (b : Z) (x : point) : Q := dotf (map inject_Z a) x + inject_Z b.

Theorem frequency_undefined n G a b : frequency n G a b = Ans NoFreq ->
  (forall x, ~ in_qgens n G x) \/ (forall q : Q, exists x, in_qgens n G x /\ expr_val a b x == q).
Proof.
  unfold frequency. destruct (Nat.leb_spec (length a) n) as [Hl|]; [|discriminate]. cbn [negb].
  destruct (alat_of G) as [L|] eqn:E.
  - intros H. right. intros q.
    destruct (lat_frequency_none (map inject_Z a) (inject_Z b) n ltac:(rewrite map_length; exact Hl) L H q) as [x [Hx Ex]].
    exists x. split; [now apply (alat_of_some n G L E)|exact Ex].
  - intros _. left. intros x. exact (alat_of_none n G E x).
Qed.

Theorem frequency_defined n G a b fr v : frequency n G a b = Ans (Freq fr v) ->
  0 <= fr /\
  (forall x, in_qgens n G x -> exists k : Z, expr_val a b x == v + inject_Z k * fr) /\
  (forall k : Z, exists x, in_qgens n G x /\ expr_val a b x == v + inject_Z k * fr) /\
  (forall x, in_qgens n G x -> Qabs v <= Qabs (expr_val a b x)).
Proof.
  unfold frequency. destruct (Nat.leb_spec (length a) n) as [Hl|]; [|discriminate]. cbn [negb].
  destruct (alat_of G) as [L|] eqn:E; [|discriminate]. intros H.
  destruct (lat_frequency_some (map inject_Z a) (inject_Z b) n ltac:(rewrite map_length; exact Hl) L fr v H) as [H0 [H1 [H2 H3]]].
  split; [exact H0|]. split; [|split].
  - intros x Hx. apply H1. now apply (alat_of_some n G L E).
  - intros k. destruct (H2 k) as [x [Hx Ex]]. exists x. split; [now apply (alat_of_some n G L E)|exact Ex].
  - intros x Hx. apply H3. now apply (alat_of_some n G L E).
Qed.
