(* C05 -- reference for Grid::frequency: the values of  e = a.x + b  on a generated grid form
   c0 + h Z (h the "gcd" of the values of a on the parameters, obtained by the checked Bezout fold)
   unless some line is not orthogonal to a (then every rational is a value). *)
From Coq Require Import List ZArith QArith Qround Qabs Lia Lqa Bool Setoid Morphisms.
Require Import PPLV.Grid.QVec PPLV.Grid.IntLin PPLV.Grid.GridSem PPLV.Grid.GridRef.
Import ListNotations.
Local Open Scope Q_scope.

(* answer: NoFreq (empty grid, or the expression is not constant along a line) | Freq f v *)
Inductive freq_ans := NoFreq | Freq (f v : Q).

(* element of c0 + h Z closest to zero (h > 0): in [-h/2, h/2) *)
Definition closest (c0 h : Q) : Q := Qred (c0 - inject_Z (Qfloor (c0 / h + (1 # 2))) * h).

Definition lat_frequency (a : list Q) (b : Q) (S : alat) : ans freq_ans :=
  match split_line a (lins S) with
  | Some _ => Ans NoFreq
  | None =>
      match bfold a vzero [] (pars S) with
      | None => Unk
      | Some (b0, orth) =>
          let h := Qred (Qabs (fdot a b0)) in
          let c0 := Qred (fdot a (pt S) + b) in
          if Qeq_bool h 0 then Ans (Freq 0 c0) else Ans (Freq h (closest c0 h))
      end
  end.

Definition frequency (n : nat) (G : list qgen) (a : list Z) (b : Z) : ans freq_ans :=
  if negb (length a <=? n)%nat then Unk else
  match alat_of G with
  | None => Ans NoFreq
  | Some L => lat_frequency (map inject_Z a) (inject_Z b) L
  end.
