(* C05 -- set-level meaning of PPL's congruence systems and grid generator systems, the exact
   generator-wise inclusion test, and inclusion / membership between generator-given grids. *)
From Coq Require Import List ZArith QArith Lia Lqa Bool Setoid Morphisms.
Require Import PPLV.Grid.QVec PPLV.Grid.IntLin.
Import ListNotations.
Local Open Scope Q_scope.

(* ---------- congruences as PPL stores them:  a.x + b = 0 (mod m), integers; m = 0: equality ---------- *)
Record cg := mkCg { cg_a : list Z; cg_b : Z; cg_m : Z }.

Definition sat_cg (c : cg) (x : point) : Prop :=
  exists mu : Z, dotf (map inject_Z (cg_a c)) x + inject_Z (cg_b c) == inject_Z mu * inject_Z (cg_m c).
Definition sat_cgs (C : list cg) (x : point) : Prop := forall c, In c C -> sat_cg c x.

Definition qcg_of (c : cg) : qcg :=
  {| ca := map inject_Z (cg_a c); cb := inject_Z (cg_b c); cm := inject_Z (cg_m c) |}.

Lemma sat_cg_q c x : sat_cg c x <-> sat_q (qcg_of c) x.
Proof. reflexivity. Qed.
Lemma sat_cgs_qs C x : sat_cgs C x <-> sat_qs (map qcg_of C) x.
Proof.
  unfold sat_cgs, sat_qs. split.
  - intros H c Hc. apply in_map_iff in Hc. destruct Hc as [c0 [<- Hc0]]. now apply H.
  - intros H c Hc. apply sat_cg_q. apply H. now apply in_map.
Qed.

(* ---------- grid generators ----------
   ggen: as PPL stores them (integer vector, positive divisor); qgen: the rational vectors they denote. *)
Inductive ggen := GPoint (v : list Z) (d : positive) | GParam (v : list Z) (d : positive) | GLine (v : list Z).
Inductive qgen := QPoint (v : vec) | QParam (v : vec) | QLine (v : vec).

Definition qv (v : list Z) (d : positive) : vec := map (fun z => Qred (z # d)) v.
Definition qgen_of (g : ggen) : qgen :=
  match g with GPoint v d => QPoint (qv v d) | GParam v d => QParam (qv v d) | GLine v => QLine (qv v 1) end.

Fixpoint points (G : list qgen) : list vec :=
  match G with [] => [] | QPoint v :: G' => v :: points G' | _ :: G' => points G' end.
Fixpoint params (G : list qgen) : list vec :=
  match G with [] => [] | QParam v :: G' => v :: params G' | _ :: G' => params G' end.
Fixpoint glines (G : list qgen) : list vec :=
  match G with [] => [] | QLine v :: G' => v :: glines G' | _ :: G' => glines G' end.

Definition vsub (u v : vec) : vec := vadd u (vscale (-(1)) v).

(* integer affine hull of the points: start at a point, move by differences of points *)
Inductive iaff (P : list vec) : vec -> Prop :=
| ia_pt p : In p P -> iaff P p
| ia_move a p q : iaff P a -> In p P -> In q P -> iaff P (vadd a (vsub p q))
| ia_eq a a' : veq a a' -> iaff P a -> iaff P a'.

(* PPL: grid = linear hull of the lines + integer hull of the parameters + integer affine hull of the points *)
Definition in_qgens (n : nat) (G : list qgen) (x : point) : Prop :=
  exists a u v, iaff (points G) a /\ zspan (params G) u /\ qspan (glines G) v /\
                peq n x (vnth (vadd a (vadd u v))).
Definition in_ggens (n : nat) (G : list ggen) (x : point) : Prop := in_qgens n (map qgen_of G) x.

Definition alat_of (G : list qgen) : option alat :=
  match points G with
  | [] => None
  | p0 :: ps => Some {| pt := p0; pars := map (fun p => vsub p p0) ps ++ params G; lins := glines G |}
  end.

Lemma iaff_nil a : ~ iaff [] a.
Proof. intros H. induction H as [p Hp| |]; auto. Qed.

Section Iaff.
Variable p0 : vec.
Variable ps : list vec.
Let D := map (fun p => vsub p p0) ps.

Lemma diff_in p : In p (p0 :: ps) -> exists d, zspan D d /\ veq d (vsub p p0).
Proof.
  intros [<-|Hp].
  - exists vzero. split; [constructor|]. unfold vsub. vpoint i. ring.
  - exists (vsub p p0). split; [|reflexivity]. apply sp_in. unfold D. now apply in_map with (f := fun p => vsub p p0).
Qed.

Lemma iaff_to_span a : iaff (p0 :: ps) a -> exists u, zspan D u /\ veq a (vadd p0 u).
Proof.
  intros H. induction H as [p Hp|a p q _ [u [Hu E]] Hp Hq|a a' E _ [u [Hu E']]].
  - destruct (diff_in p Hp) as [d [Hd Ed]]. exists d. split; [exact Hd|]. rewrite Ed. unfold vsub. vpoint i. ring.
  - destruct (diff_in p Hp) as [dp [Hdp Edp]]. destruct (diff_in q Hq) as [dq [Hdq Edq]].
    exists (vadd u (vadd dp (vscale (inject_Z (-1)) dq))). split.
    + apply sp_add; [exact Hu|]. apply sp_add; [exact Hdp|]. apply sp_scale; [apply isZ_inj|exact Hdq].
    + rewrite E, Edp, Edq. unfold vsub. vpoint i. change (inject_Z (-1)) with (-(1)). ring.
  - exists u. split; [exact Hu|]. rewrite <- E. exact E'.
Qed.

Definition movable (u : vec) : Prop :=
  forall a, iaff (p0 :: ps) a -> iaff (p0 :: ps) (vadd a u) /\ iaff (p0 :: ps) (vsub a u).

Lemma movable_eq u v : veq u v -> movable u -> movable v.
Proof.
  intros E H a Ha. destruct (H a Ha) as [H1 H2]. split.
  - eapply ia_eq; [|exact H1]. rewrite E. reflexivity.
  - eapply ia_eq; [|exact H2]. unfold vsub. rewrite E. reflexivity.
Qed.
Lemma movable_zero : movable vzero.
Proof. intros a Ha. split; (eapply ia_eq; [|exact Ha]); unfold vsub; vpoint i; ring. Qed.
Lemma movable_add u v : movable u -> movable v -> movable (vadd u v).
Proof.
  intros Hu Hv a Ha. split.
  - eapply ia_eq; [|exact (proj1 (Hv _ (proj1 (Hu a Ha))))]. vpoint i. ring.
  - eapply ia_eq; [|exact (proj2 (Hv _ (proj2 (Hu a Ha))))]. unfold vsub. vpoint i. ring.
Qed.
Lemma movable_opp u : movable u -> movable (vscale (-(1)) u).
Proof.
  intros Hu a Ha. split.
  - eapply ia_eq; [|exact (proj2 (Hu a Ha))]. unfold vsub. reflexivity.
  - eapply ia_eq; [|exact (proj1 (Hu a Ha))]. unfold vsub. vpoint i. ring.
Qed.
Lemma movable_nat u (k : nat) : movable u -> movable (vscale (inject_Z (Z.of_nat k)) u).
Proof.
  intros Hu. induction k as [|k IH].
  - eapply movable_eq; [|apply movable_zero]. vpoint i. cbn. ring.
  - eapply movable_eq; [|apply (movable_add _ _ IH Hu)].
    vpoint i. rewrite Nat2Z.inj_succ. unfold Z.succ. rewrite inject_Z_plus. change (inject_Z 1) with 1. ring.
Qed.
Lemma movable_Z u (z : Z) : movable u -> movable (vscale (inject_Z z) u).
Proof.
  intros Hu. destruct (Z_le_gt_dec 0 z) as [Hz|Hz].
  - rewrite <- (Z2Nat.id z Hz). now apply movable_nat.
  - eapply movable_eq; [|apply movable_opp; apply (movable_nat u (Z.to_nat (- z)) Hu)].
    vpoint i. rewrite Z2Nat.id by lia. rewrite inject_Z_opp. ring.
Qed.

Lemma span_movable u : zspan D u -> movable u.
Proof.
  intros H. induction H as [|b Hb|u v _ IHu _ IHv|k u [z Hk] _ IHu|u v E _ IHu].
  - apply movable_zero.
  - unfold D in Hb. apply in_map_iff in Hb. destruct Hb as [p [<- Hp]]. intros a Ha. split.
    + apply ia_move; [exact Ha|now right|now left].
    + eapply ia_eq; [|apply (ia_move _ a p0 p Ha); [now left|now right]].
      unfold vsub. vpoint i. ring.
  - now apply movable_add.
  - eapply movable_eq; [|apply (movable_Z u z IHu)]. vpoint i. rewrite Hk. reflexivity.
  - eapply movable_eq; eassumption.
Qed.

Lemma iaff_cons a : iaff (p0 :: ps) a <-> exists u, zspan D u /\ veq a (vadd p0 u).
Proof.
  split; [apply iaff_to_span|]. intros [u [Hu E]]. eapply ia_eq; [symmetry; exact E|].
  assert (H0 : iaff (p0 :: ps) p0) by (apply ia_pt; now left).
  exact (proj1 (span_movable u Hu p0 H0)).
Qed.
End Iaff.

Theorem alat_of_some n G S : alat_of G = Some S -> forall x, in_qgens n G x <-> den n S x.
Proof.
  unfold alat_of. destruct (points G) as [|p0 ps] eqn:EP; [discriminate|]. intros [= <-] x.
  unfold in_qgens, den. rewrite EP. cbn [pt pars lins]. split.
  - intros [a [u [v [Ha [Hu [Hv Hx]]]]]]. apply iaff_cons in Ha. destruct Ha as [d [Hd Ea]].
    exists (vadd d u), v. split; [now apply span_app|]. split; [exact Hv|].
    eapply peq_trans; [exact Hx|]. apply veq_peq. rewrite Ea. vpoint i. ring.
  - intros [w [v [Hw [Hv Hx]]]]. apply span_app_inv in Hw. destruct Hw as [d [u [Hd [Hu Ew]]]].
    exists (vadd p0 d), u, v. split; [apply iaff_cons; exists d; split; [exact Hd|reflexivity]|].
    split; [exact Hu|]. split; [exact Hv|].
    eapply peq_trans; [exact Hx|]. apply veq_peq. rewrite Ew. vpoint i. ring.
Qed.

Theorem alat_of_none n G : alat_of G = None -> forall x, ~ in_qgens n G x.
Proof.
  unfold alat_of. destruct (points G) as [|p0 ps] eqn:EP; [|discriminate]. intros _ x [a [u [v [Ha _]]]].
  rewrite EP in Ha. exact (iaff_nil a Ha).
Qed.

(* a lattice value as a generator system, and back *)
Definition qgens_of (S : alat) : list qgen := QPoint (pt S) :: map QParam (pars S) ++ map QLine (lins S).

Lemma points_app G1 G2 : points (G1 ++ G2) = points G1 ++ points G2.
Proof. induction G1 as [|[v|v|v] G1 IH]; cbn [app points]; rewrite ?IH; reflexivity. Qed.
Lemma params_app G1 G2 : params (G1 ++ G2) = params G1 ++ params G2.
Proof. induction G1 as [|[v|v|v] G1 IH]; cbn [app params]; rewrite ?IH; reflexivity. Qed.
Lemma glines_app G1 G2 : glines (G1 ++ G2) = glines G1 ++ glines G2.
Proof. induction G1 as [|[v|v|v] G1 IH]; cbn [app glines]; rewrite ?IH; reflexivity. Qed.
Lemma points_params l : points (map QParam l) = [] /\ params (map QParam l) = l /\ glines (map QParam l) = [].
Proof. induction l as [|x l [H1 [H2 H3]]]; cbn; rewrite ?H1, ?H2, ?H3; auto. Qed.
Lemma points_lines l : points (map QLine l) = [] /\ params (map QLine l) = [] /\ glines (map QLine l) = l.
Proof. induction l as [|x l [H1 [H2 H3]]]; cbn; rewrite ?H1, ?H2, ?H3; auto. Qed.

Lemma alat_of_qgens S : alat_of (qgens_of S) = Some S.
Proof.
  unfold alat_of, qgens_of. cbn [points params glines].
  rewrite points_app, params_app, glines_app.
  destruct (points_params (pars S)) as [-> [-> ->]]. destruct (points_lines (lins S)) as [-> [-> ->]].
  cbn [app map]. rewrite app_nil_r. destruct S; reflexivity.
Qed.

Theorem den_qgens n S x : den n S x <-> in_qgens n (qgens_of S) x.
Proof. symmetry. apply alat_of_some. apply alat_of_qgens. Qed.

Lemma in_points p G : In (QPoint p) G -> In p (points G).
Proof.
  induction G as [|g G IH]; [intros []|]. intros [->|H]; [now left|].
  destruct g; cbn [points]; try right; now apply IH.
Qed.
Lemma in_params p G : In (QParam p) G -> In p (params G).
Proof.
  induction G as [|g G IH]; [intros []|]. intros [->|H]; [now left|].
  destruct g; cbn [params]; try right; now apply IH.
Qed.
Lemma in_glines p G : In (QLine p) G -> In p (glines G).
Proof.
  induction G as [|g G IH]; [intros []|]. intros [->|H]; [now left|].
  destruct g; cbn [glines]; try right; now apply IH.
Qed.
Lemma points_in p G : In p (points G) -> In (QPoint p) G.
Proof.
  induction G as [|g G IH]; [intros []|]. destruct g; cbn [points In]; try (intros H; right; now apply IH).
  intros [->|H]; [now left|right; now apply IH].
Qed.
Lemma params_in p G : In p (params G) -> In (QParam p) G.
Proof.
  induction G as [|g G IH]; [intros []|]. destruct g; cbn [params In]; try (intros H; right; now apply IH).
  intros [->|H]; [now left|right; now apply IH].
Qed.
Lemma glines_in p G : In p (glines G) -> In (QLine p) G.
Proof.
  induction G as [|g G IH]; [intros []|]. destruct g; cbn [glines In]; try (intros H; right; now apply IH).
  intros [->|H]; [now left|right; now apply IH].
Qed.

(* ---------- the generator-wise test: is a generated grid included in a congruence ---------- *)
Definition gen_sat (c : qcg) (g : qgen) : bool :=
  let f := fdot (ca c) in
  match g with
  | QPoint p => divides_b (cm c) (f p + cb c)
  | QParam q => divides_b (cm c) (f q)
  | QLine l => Qeq_bool (f l) 0
  end.

Definition qgens_sat (c : qcg) (G : list qgen) : bool :=
  match points G with [] => true | _ => forallb (gen_sat c) G end.

Lemma half_not_int (z : Z) : ~ inject_Z z == 1 # 2.
Proof. unfold Qeq, inject_Z; cbn. lia. Qed.

Section GenWise.
Variable n : nat.
Variable c : qcg.
Hypothesis Hlen : (length (ca c) <= n)%nat.
Let f := fdot (ca c).
Let Lf : linfun f := fdot_linfun (ca c).

Lemma F_peq x w : peq n x (vnth w) -> dotf (ca c) x == f w.
Proof. intros H. unfold f. rewrite fdot_spec. apply dotf_peq with n; assumption. Qed.

Lemma span_div bs u : (forall b, In b bs -> exists mu : Z, f b == inject_Z mu * cm c) ->
  zspan bs u -> exists mu : Z, f u == inject_Z mu * cm c.
Proof.
  intros H Hu. induction Hu as [|b Hb|u v _ [m1 E1] _ [m2 E2]|k u [z Hk] _ [m1 E1]|u v E _ [m1 E1]].
  - exists 0%Z. rewrite (lf_zero _ Lf). ring.
  - now apply H.
  - exists (m1 + m2)%Z. rewrite (lf_add _ Lf), E1, E2, inject_Z_plus. ring.
  - exists (z * m1)%Z. rewrite (lf_scale _ Lf), E1, Hk, inject_Z_mult. ring.
  - exists m1. rewrite <- (lf_eq _ Lf _ _ E). exact E1.
Qed.

Lemma iaff_div P a : (forall p, In p P -> exists mu : Z, f p + cb c == inject_Z mu * cm c) ->
  iaff P a -> exists mu : Z, f a + cb c == inject_Z mu * cm c.
Proof.
  intros H Ha. induction Ha as [p Hp|a p q _ [m0 E0] Hp Hq|a a' E _ [m0 E0]].
  - now apply H.
  - destruct (H p Hp) as [m1 E1]. destruct (H q Hq) as [m2 E2].
    exists (m0 + m1 - m2)%Z. unfold vsub. rewrite !(lf_add _ Lf), (lf_scale _ Lf).
    unfold Zminus. rewrite !inject_Z_plus, inject_Z_opp.
    transitivity ((f a + cb c) + (f p + cb c) - (f q + cb c)); [ring|]. rewrite E0, E1, E2. ring.
  - exists m0. rewrite <- (lf_eq _ Lf _ _ E). exact E0.
Qed.

Theorem qgens_sat_exact G : qgens_sat c G = true <-> (forall x, in_qgens n G x -> sat_q c x).
Proof.
  unfold qgens_sat. destruct (points G) as [|p0 ps] eqn:EP.
  { split; [|reflexivity]. intros _ x [a [u [v [Ha _]]]]. rewrite EP in Ha. destruct (iaff_nil a Ha). }
  rewrite forallb_forall. split.
  - intros H x [a [u [v [Ha [Hu [Hv Hx]]]]]]. rewrite EP in Ha.
    destruct (iaff_div (p0 :: ps) a) as [m0 E0]; [|exact Ha|].
    { intros p Hp. apply divides_b_spec. rewrite <- EP in Hp. apply (H _ (points_in _ _ Hp)). }
    destruct (span_div (params G) u) as [m1 E1]; [|exact Hu|].
    { intros q Hq. apply divides_b_spec. apply (H _ (params_in _ _ Hq)). }
    assert (E2 : f v == 0).
    { apply (span_f0 anyQ f (glines G) v Lf); [|exact Hv]. intros l Hl. apply Qeq_bool_iff. apply (H _ (glines_in _ _ Hl)). }
    exists (m0 + m1)%Z. unfold sat_q. rewrite (F_peq _ _ Hx), !(lf_add _ Lf), E1, E2, inject_Z_plus.
    transitivity (f a + cb c + inject_Z m1 * cm c); [ring|]. rewrite E0. ring.
  - intros H.
    assert (Hp0 : iaff (points G) p0) by (apply ia_pt; rewrite EP; now left).
    assert (Hin : forall u v, zspan (params G) u -> qspan (glines G) v ->
                 exists mu : Z, f p0 + (f u + f v) + cb c == inject_Z mu * cm c).
    { intros u v Hu Hv. destruct (H (vnth (vadd p0 (vadd u v)))) as [mu E].
      - exists p0, u, v. split; [exact Hp0|]. split; [exact Hu|]. split; [exact Hv|apply peq_refl].
      - exists mu. rewrite <- E, (F_peq _ _ (peq_refl n _)), !(lf_add _ Lf). reflexivity. }
    destruct (Hin vzero vzero (sp_zero _ _) (sp_zero _ _)) as [m0 Ep]. rewrite (lf_zero _ Lf) in Ep.
    intros [p|q|l] Hg; cbn [gen_sat]; fold f.
    + apply divides_b_spec. destruct (H (vnth (vadd p (vadd vzero vzero)))) as [mu E].
      { exists p, vzero, vzero. split; [apply ia_pt; now apply in_points|].
        split; [constructor|]. split; [constructor|apply peq_refl]. }
      exists mu. rewrite <- E, (F_peq _ _ (peq_refl n _)), !(lf_add _ Lf), (lf_zero _ Lf). ring.
    + apply divides_b_spec. destruct (Hin q vzero) as [mu E]; [apply sp_in; now apply in_params|constructor|].
      rewrite (lf_zero _ Lf) in E.
      exists (mu - m0)%Z. unfold Zminus. rewrite inject_Z_plus, inject_Z_opp.
      transitivity (f p0 + (f q + 0) + cb c - (f p0 + (0 + 0) + cb c)); [ring|]. rewrite E, Ep. ring.
    + apply Qeq_bool_iff.
      destruct (Qeq_dec (f l) 0) as [E0|N0]; [exact E0|exfalso].
      set (r := if Qeq_bool (cm c) 0 then 1 else cm c / (2 * f l)).
      destruct (Hin vzero (vscale r l)) as [mu E]; [constructor|apply sp_scale; [exact I|apply sp_in; now apply in_glines]|].
      rewrite (lf_zero _ Lf), (lf_scale _ Lf) in E.
      assert (E' : r * f l == inject_Z (mu - m0) * cm c).
      { unfold Zminus. rewrite inject_Z_plus, inject_Z_opp.
        transitivity (f p0 + (0 + r * f l) + cb c - (f p0 + (0 + 0) + cb c)); [ring|]. rewrite E, Ep. ring. }
      unfold r in E'. destruct (Qeq_bool (cm c) 0) eqn:Em.
      * apply Qeq_bool_iff in Em. rewrite Em in E'. apply N0. rewrite <- (Qmult_1_l (f l)), E'. ring.
      * apply Qeq_bool_false in Em. apply (half_not_int (mu - m0)).
        apply (Qmult_inj_r _ _ (cm c) Em). rewrite <- E'. field. exact N0.
Qed.
End GenWise.

Definition cg_dim_ok (n : nat) (c : cg) : bool := (length (cg_a c) <=? n)%nat.

(* does every point generated by G satisfy every congruence of C (C within the space dimension) *)
Definition qgens_sat_cgs (n : nat) (G : list qgen) (C : list cg) : bool :=
  forallb (fun c => cg_dim_ok n c && qgens_sat (qcg_of c) G) C.

Theorem qgens_sat_cgs_exact n G C : forallb (cg_dim_ok n) C = true ->
  (qgens_sat_cgs n G C = true <-> (forall x, in_qgens n G x -> sat_cgs C x)).
Proof.
  unfold qgens_sat_cgs. rewrite !forallb_forall. intros Hd. split.
  - intros H x Hx c Hc. specialize (H c Hc). apply andb_true_iff in H. destruct H as [H1 H2].
    apply Nat.leb_le in H1. apply sat_cg_q.
    apply (proj1 (qgens_sat_exact n (qcg_of c) ltac:(cbn [qcg_of ca]; rewrite map_length; exact H1) G) H2 x Hx).
  - intros H c Hc. pose proof (Hd c Hc) as H1. rewrite H1. cbn [andb]. apply Nat.leb_le in H1.
    apply (qgens_sat_exact n (qcg_of c) ltac:(cbn [qcg_of ca]; rewrite map_length; exact H1) G).
    intros x Hx. apply sat_cg_q. now apply H.
Qed.

Definition ggens_sat_b (n : nat) (G : list ggen) (C : list cg) : bool := qgens_sat_cgs n (map qgen_of G) C.

Theorem ggens_sat_exact n G C : forallb (cg_dim_ok n) C = true ->
  (ggens_sat_b n G C = true <-> (forall x, in_ggens n G x -> sat_cgs C x)).
Proof. intros Hd. apply qgens_sat_cgs_exact. exact Hd. Qed.

(* ---------- directions of a lattice; inclusion between generator-given lattices ---------- *)
Definition dirs (S : alat) : alat := {| pt := vzero; pars := pars S; lins := lins S |}.
Definition ldirs (S : alat) : alat := {| pt := vzero; pars := []; lins := lins S |}.

Definition is_lat (r : res) : bool := match r with Lat _ => true | _ => false end.
Definition is_fail (r : res) : bool := match r with Fail => true | _ => false end.

(* Some true: included (proved); Some false: some generator of S1 was rejected; None: engine failure *)
Definition incl_lat (n : nat) (S1 S2 : alat) : option bool :=
  let rs := mem n S2 (pt S1) :: map (mem n (dirs S2)) (pars S1) ++ map (mem n (ldirs S2)) (lins S1) in
  if existsb is_fail rs then None else Some (forallb is_lat rs).

Lemma zdir_closed n S2 bs u :
  (forall b, In b bs -> den n (dirs S2) (vnth b)) -> zspan bs u -> den n (dirs S2) (vnth u).
Proof.
  intros H Hu. induction Hu as [|b Hb|u v _ [u1 [v1 [Hu1 [Hv1 E1]]]] _ [u2 [v2 [Hu2 [Hv2 E2]]]]
                                 |k u Hk _ [u1 [v1 [Hu1 [Hv1 E1]]]]|u v E _ IH].
  - exists vzero, vzero. split; [constructor|]. split; [constructor|]. apply veq_peq. vpoint i. ring.
  - now apply H.
  - exists (vadd u1 u2), (vadd v1 v2). split; [now apply sp_add|]. split; [now apply sp_add|].
    cbn [dirs pt] in *. intros i Hi. vpush. rewrite (E1 i Hi), (E2 i Hi). vpush. ring.
  - exists (vscale k u1), (vscale k v1). split; [now apply sp_scale|]. split; [now apply sp_scale|].
    cbn [dirs pt] in *. intros i Hi. vpush. rewrite (E1 i Hi). vpush. ring.
  - eapply den_peq; [|exact IH]. now apply veq_peq.
Qed.

Lemma ldir_closed n S2 ls v :
  (forall l, In l ls -> den n (ldirs S2) (vnth l)) -> qspan ls v -> den n (ldirs S2) (vnth v).
Proof.
  intros H Hv. induction Hv as [|b Hb|u v _ [u1 [v1 [Hu1 [Hv1 E1]]]] _ [u2 [v2 [Hu2 [Hv2 E2]]]]
                                 |k u Hk _ [u1 [v1 [Hu1 [Hv1 E1]]]]|u v E _ IH].
  - exists vzero, vzero. split; [constructor|]. split; [constructor|]. apply veq_peq. vpoint i. ring.
  - now apply H.
  - exists vzero, (vadd v1 v2). split; [constructor|]. split; [now apply sp_add|].
    cbn [ldirs pt pars] in *. apply span_nil in Hu1. apply span_nil in Hu2.
    intros i Hi. vpush. rewrite (E1 i Hi), (E2 i Hi). vpush. rewrite (Hu1 i), (Hu2 i). vpush. ring.
  - exists vzero, (vscale k v1). split; [constructor|]. split; [now apply sp_scale|].
    cbn [ldirs pt pars] in *. apply span_nil in Hu1.
    intros i Hi. vpush. rewrite (E1 i Hi). vpush. rewrite (Hu1 i). vpush. ring.
  - eapply den_peq; [|exact IH]. now apply veq_peq.
Qed.

Theorem incl_lat_sound n S1 S2 : incl_lat n S1 S2 = Some true -> forall x, den n S1 x -> den n S2 x.
Proof.
  unfold incl_lat. destruct (existsb is_fail _); [discriminate|]. intros [= H].
  cbn [forallb] in H. rewrite forallb_app, !andb_true_iff, !forallb_forall in H. destruct H as [Hp [Hb Hl]].
  assert (Hp' : den n S2 (vnth (pt S1))).
  { destruct (mem n S2 (pt S1)) eqn:E; try discriminate. eapply mem_lat; eassumption. }
  assert (Hb' : forall b, In b (pars S1) -> den n (dirs S2) (vnth b)).
  { intros b Hin. specialize (Hb _ (in_map _ _ _ Hin)). destruct (mem n (dirs S2) b) eqn:E; try discriminate.
    eapply mem_lat; eassumption. }
  assert (Hl' : forall l, In l (lins S1) -> den n (ldirs S2) (vnth l)).
  { intros l Hin. specialize (Hl _ (in_map _ _ _ Hin)). destruct (mem n (ldirs S2) l) eqn:E; try discriminate.
    eapply mem_lat; eassumption. }
  intros x [u [v [Hu [Hv Hx]]]].
  destruct Hp' as [u0 [v0 [Hu0 [Hv0 E0]]]].
  destruct (zdir_closed n S2 _ u Hb' Hu) as [u1 [v1 [Hu1 [Hv1 E1]]]].
  destruct (ldir_closed n S2 _ v Hl' Hv) as [u2 [v2 [Hu2 [Hv2 E2]]]].
  cbn [dirs ldirs pt pars lins] in *. apply span_nil in Hu2.
  exists (vadd u0 u1), (vadd v0 (vadd v1 v2)).
  split; [now apply sp_add|]. split; [apply sp_add; [exact Hv0|now apply sp_add]|].
  intros i Hi. rewrite (Hx i Hi). vpush. rewrite (E0 i Hi), (E1 i Hi), (E2 i Hi). vpush. rewrite (Hu2 i). vpush. ring.
Qed.
