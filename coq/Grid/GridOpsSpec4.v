(* C05 -- set-level exactness of gen_preimage (variable form, computed in dimension n+1),
   of the projection congruences, and of the discreteness test. *)
From Coq Require Import List ZArith QArith Lia Lqa Bool Setoid Morphisms.
Require Import PPLV.Grid.QVec PPLV.Grid.IntLin PPLV.Grid.GridSem PPLV.Grid.GridRef PPLV.Grid.GridOps2
               PPLV.Grid.GridFreq PPLV.Grid.GridOpsSpec PPLV.Grid.GridOpsSpec2 PPLV.Grid.GridOpsSpec3.
Import ListNotations.
Local Open Scope Q_scope.

(* ---------- exchanging two coordinates ---------- *)
Definition tau (i j t : nat) : nat := if Nat.eqb t j then i else if Nat.eqb t i then j else t.
Definition pswap (i j : nat) (x : point) : point := fun t => x (tau i j t).

Lemma tau_invol i j t : tau i j (tau i j t) = t.
Proof.
  unfold tau. destruct (Nat.eqb_spec t j) as [e1|n1].
  - destruct (Nat.eqb_spec i j) as [e2|n2]; [congruence|]. rewrite Nat.eqb_refl. congruence.
  - destruct (Nat.eqb_spec t i) as [e2|n2].
    + rewrite Nat.eqb_refl. congruence.
    + destruct (Nat.eqb_spec t j); [contradiction|]. destruct (Nat.eqb_spec t i); [contradiction|reflexivity].
Qed.

Lemma tau_lt N i j t : (i < N)%nat -> (j < N)%nat -> (t < N)%nat -> (tau i j t < N)%nat.
Proof. intros. unfold tau. destruct (Nat.eqb t j); [assumption|]. destruct (Nat.eqb t i); assumption. Qed.

Lemma vnth_vswap i j v t : vnth (vswap i j v) t == vnth v (tau i j t).
Proof.
  unfold vswap, tau. rewrite vnth_upd. destruct (Nat.eqb t j); [reflexivity|].
  rewrite vnth_upd. destruct (Nat.eqb t i); reflexivity.
Qed.

Lemma vswap_linear i j : linear (vswap i j).
Proof.
  split.
  - intros u v E t. rewrite !vnth_vswap. apply E.
  - intros u v t. rewrite vnth_add, !vnth_vswap, vnth_add. reflexivity.
  - intros c u t. rewrite vnth_scale, !vnth_vswap, vnth_scale. reflexivity.
  - intros t. rewrite vnth_vswap, !vnth_zero. reflexivity.
Qed.

Lemma points_swap i j G : points (map (swap_gen i j) G) = map (vswap i j) (points G).
Proof. induction G as [|[v|v|v] G IH]; cbn [map swap_gen points]; rewrite ?IH; reflexivity. Qed.
Lemma params_swap i j G : params (map (swap_gen i j) G) = map (vswap i j) (params G).
Proof. induction G as [|[v|v|v] G IH]; cbn [map swap_gen params]; rewrite ?IH; reflexivity. Qed.
Lemma glines_swap i j G : glines (map (swap_gen i j) G) = map (vswap i j) (glines G).
Proof. induction G as [|[v|v|v] G IH]; cbn [map swap_gen glines]; rewrite ?IH; reflexivity. Qed.

Lemma swap_fwd N i j G s : (i < N)%nat -> (j < N)%nat ->
  in_qgens N G s -> in_qgens N (map (swap_gen i j) G) (pswap i j s).
Proof.
  intros Hi Hj [a [u [v [Ha [Hu [Hv Hs]]]]]]. pose proof (vswap_linear i j) as L.
  exists (vswap i j a), (vswap i j u), (vswap i j v). rewrite points_swap, params_swap, glines_swap.
  split; [now apply iaff_map|]. split; [now apply span_map|]. split; [now apply span_map|].
  intros t Ht. unfold pswap. rewrite (Hs _ (tau_lt N i j t Hi Hj Ht)).
  rewrite !vnth_add, !vnth_vswap. reflexivity.
Qed.

Lemma swap_bwd N i j G x : (i < N)%nat -> (j < N)%nat ->
  in_qgens N (map (swap_gen i j) G) x -> in_qgens N G (pswap i j x).
Proof.
  intros Hi Hj [a' [u' [v' [Ha [Hu [Hv Hx]]]]]]. pose proof (vswap_linear i j) as L.
  rewrite points_swap in Ha. rewrite params_swap in Hu. rewrite glines_swap in Hv.
  apply (iaff_map_inv _ _ _ L) in Ha. destruct Ha as [a [Ha Ea]].
  apply (span_map_inv _ _ _ _ L) in Hu. destruct Hu as [u [Hu Eu]].
  apply (span_map_inv _ _ _ _ L) in Hv. destruct Hv as [v [Hv Ev]].
  exists a, u, v. split; [exact Ha|]. split; [exact Hu|]. split; [exact Hv|].
  intros t Ht. unfold pswap. rewrite (Hx _ (tau_lt N i j t Hi Hj Ht)).
  rewrite !vnth_add, (Ea _), (Eu _), (Ev _), !vnth_vswap, tau_invol. reflexivity.
Qed.

Lemma swap_spec N i j G x : (i < N)%nat -> (j < N)%nat ->
  (in_qgens N (map (swap_gen i j) G) x <-> in_qgens N G (pswap i j x)).
Proof.
  intros Hi Hj. split; [now apply swap_bwd|]. intros H.
  apply (swap_fwd N i j G _ Hi Hj) in H. eapply in_qgens_peq; [|exact H].
  intros t _. unfold pswap. rewrite tau_invol. reflexivity.
Qed.

(* ---------- 1. gen_preimage ---------- *)
Lemma dotfz_opp : forall u x, dotf (map inject_Z (map Z.opp u)) x == - dotf (map inject_Z u) x.
Proof. induction u as [|a u IH]; intros x; cbn [map dotf]; [ring|]. rewrite IH, inject_Z_opp. ring. Qed.

Lemma nth_opp l i : nth i (map Z.opp l) 0%Z = (- nth i l 0)%Z.
Proof. change 0%Z with (- 0)%Z at 1. apply map_nth. Qed.

Lemma coef_val n k a d (y : point) : (k < n)%nat -> (length a <= n)%nat ->
  dotf (map inject_Z (zupd (zupd (map Z.opp (zupd a k 0%Z)) k d) n (- nth k a 0)%Z)) y ==
  - dotf (map inject_Z a) y + (inject_Z (nth k a 0%Z) + inject_Z d) * y k - inject_Z (nth k a 0%Z) * y n.
Proof.
  intros Hk Hl.
  rewrite dotfz_zupd, dotfz_zupd, dotfz_opp, dotfz_zupd.
  rewrite !nth_zupd, !nth_opp, !nth_zupd, Nat.eqb_refl.
  destruct (Nat.eqb_spec n k) as [e|_]; [lia|].
  rewrite (nth_overflow a 0%Z Hl). rewrite !inject_Z_opp. change (inject_Z 0) with 0.
  ring.
Qed.

Lemma abs_mod_iff (t : Q) (M : Z) :
  (exists mu : Z, t == inject_Z mu * inject_Z (Z.abs M)) <-> (exists z : Z, t == inject_Z z * inject_Z M).
Proof.
  destruct (Z.abs_eq_or_opp M) as [->| ->]; [tauto|].
  split; intros [mu H]; exists (- mu)%Z; rewrite H, !inject_Z_opp; ring.
Qed.

(* what the congruence cg0 says of a point y of dimension n+1 whose first n coordinates are  x[k := v]
   and whose last coordinate is x_k *)
Lemma cg0_val n k a b d m (x y : point) v : (k < n)%nat -> (length a <= n)%nat ->
  peq n y (upd x k v) -> y n == x k ->
  (sat_cg {| cg_a := zupd (zupd (map Z.opp (zupd a k 0%Z)) k d) n (- nth k a 0)%Z;
             cg_b := (- b)%Z; cg_m := Z.abs (d * m) |} y <->
   exists z : Z, inject_Z d * v == expr_val a b x + inject_Z z * inject_Z (d * m)).
Proof.
  intros Hk Hl Ey En. unfold sat_cg. cbn [cg_a cg_b cg_m].
  assert (E : dotf (map inject_Z (zupd (zupd (map Z.opp (zupd a k 0%Z)) k d) n (- nth k a 0)%Z)) y
              + inject_Z (- b) == inject_Z d * v - expr_val a b x).
  { rewrite (coef_val n k a d y Hk Hl), En.
    rewrite (dotf_peq (map inject_Z a) n y (upd x k v)) by (rewrite ?map_length; assumption).
    rewrite dotfz_upd, dotfz_zupd. rewrite (Ey k Hk). unfold upd. rewrite Nat.eqb_refl.
    unfold expr_val. rewrite inject_Z_opp. change (inject_Z 0) with 0. ring. }
  rewrite abs_mod_iff. split; intros [z H].
  - exists z. rewrite <- H, E. ring.
  - exists z. rewrite E, H. ring.
Qed.

(* x is in the preimage iff for some value v of x_k related to x by  d v = a.x + b  (mod d m)
   the point x[k := v] is in G.  d <> 0 is not needed for this statement; length a <= n is. *)
Theorem gen_preimage_spec : forall n k a b d m G G', gen_preimage n k a b d m G = Ans G' ->
  (k < n)%nat -> (length a <= n)%nat ->
  forall x, in_qgens n G' x <->
    exists (v : Q) (z : Z), in_qgens n G (upd x k v) /\
      inject_Z d * v == expr_val a b x + inject_Z z * inject_Z (d * m).
Proof.
  intros n k a b d m G G'. unfold gen_preimage.
  destruct (gens_add_cgs (S n) _ _) as [|G2] eqn:E2; [discriminate|]. intros [= <-] Hk Hl x.
  assert (Hk' : (k < S n)%nat) by lia. assert (Hn' : (n < S n)%nat) by lia.
  assert (Tk : tau k n k = n).
  { unfold tau. destruct (Nat.eqb_spec k n); [lia|]. rewrite Nat.eqb_refl. reflexivity. }
  assert (Tn : tau k n n = k) by (unfold tau; rewrite Nat.eqb_refl; reflexivity).
  assert (Tt : forall t, t <> k -> t <> n -> tau k n t = t).
  { intros t H1 H2. unfold tau. destruct (Nat.eqb_spec t n); [contradiction|].
    destruct (Nat.eqb_spec t k); [contradiction|reflexivity]. }
  rewrite (remove_higher_spec (S n) n _ x) by lia. split.
  - intros [y [Hy Exy]]. apply (swap_spec (S n) k n G2 y Hk' Hn') in Hy.
    apply (gens_add_cgs_spec _ _ _ _ E2) in Hy. destruct Hy as [Hy1 Hsat].
    specialize (Hsat _ (or_introl eq_refl)).
    replace (S n) with (n + 1)%nat in Hy1 by lia. apply (proj1 (add_dims_embed_spec n 1 G _)) in Hy1.
    assert (P : peq n (pswap k n y) (upd x k (y n))).
    { intros t Ht. unfold pswap, upd. destruct (Nat.eqb_spec t k) as [->|ne]; [rewrite Tk; reflexivity|].
      rewrite Tt by lia. symmetry. apply Exy. exact Ht. }
    assert (Q0 : pswap k n y n == x k).
    { unfold pswap. rewrite Tn. symmetry. apply Exy. exact Hk. }
    apply (cg0_val n k a b d m x _ (y n) Hk Hl P Q0) in Hsat. destruct Hsat as [z Hz].
    exists (y n), z. split; [|exact Hz]. eapply in_qgens_peq; [exact P|exact Hy1].
  - intros [v [z [HG Hz]]].
    exists (upd x n v). split; [|intros t Ht; unfold upd; destruct (Nat.eqb_spec t n); [lia|reflexivity]].
    apply (swap_spec (S n) k n G2 _ Hk' Hn').
    assert (P : peq n (pswap k n (upd x n v)) (upd x k v)).
    { intros t Ht. unfold pswap. destruct (Nat.eqb_spec t k) as [->|ne].
      - rewrite Tk. unfold upd. rewrite !Nat.eqb_refl. reflexivity.
      - rewrite Tt by lia. unfold upd. destruct (Nat.eqb_spec t n); [lia|].
        destruct (Nat.eqb_spec t k); [contradiction|reflexivity]. }
    assert (Q0 : pswap k n (upd x n v) n == x k).
    { unfold pswap. rewrite Tn. unfold upd. destruct (Nat.eqb_spec k n); [lia|reflexivity]. }
    apply (gens_add_cgs_spec _ _ _ _ E2). split.
    + replace (S n) with (n + 1)%nat by lia. apply add_dims_embed_spec.
      eapply in_qgens_peq; [apply peq_sym; exact P|exact HG].
    + intros c [<-|[]]. apply (cg0_val n k a b d m x _ v Hk Hl P Q0). exists z. exact Hz.
Qed.

(* ---------- 2. the congruences of add_space_dimensions_and_project ---------- *)
Lemma sat_unit_eq i x : sat_cg {| cg_a := zupd [] i 1%Z; cg_b := 0%Z; cg_m := 0%Z |} x <-> x i == 0.
Proof.
  unfold sat_cg. cbn [cg_a cg_b cg_m].
  assert (E : dotf (map inject_Z (zupd [] i 1%Z)) x == x i).
  { rewrite dotfz_zupd. cbn [map dotf]. destruct i; cbn [nth]; change (inject_Z 0) with 0;
      change (inject_Z 1) with 1; ring. }
  split.
  - intros [mu H]. rewrite <- E. change (inject_Z 0) with 0 in H.
    transitivity (dotf (map inject_Z (zupd [] i 1%Z)) x + 0); [ring|]. rewrite H. ring.
  - intros H. exists 0%Z. rewrite E, H. change (inject_Z 0) with 0. ring.
Qed.

Theorem project_spec : forall n m C x,
  sat_cgs (C ++ project_cgs n m) x <->
  sat_cgs C x /\ forall i, (n <= i < n + m)%nat -> x i == 0.
Proof.
  intros n m C x. unfold sat_cgs, project_cgs. split.
  - intros H. split.
    + intros c Hc. apply H. apply in_or_app. now left.
    + intros i Hi. apply sat_unit_eq. apply H. apply in_or_app. right.
      apply in_map_iff. exists i. split; [reflexivity|]. apply in_seq. lia.
  - intros [H1 H2] c Hc. apply in_app_or in Hc. destruct Hc as [Hc|Hc]; [now apply H1|].
    apply in_map_iff in Hc. destruct Hc as [i [<- Hi]]. apply in_seq in Hi. apply sat_unit_eq. apply H2. lia.
Qed.

(* ---------- 3. discreteness ---------- *)
Lemma forallb_false {A} (f : A -> bool) l : forallb f l = false <-> exists x, In x l /\ f x = false.
Proof.
  induction l as [|a l IH]; cbn [forallb In].
  - split; [discriminate|]. intros [x [[] _]].
  - rewrite andb_false_iff, IH. split.
    + intros [H|[x [Hx Hf]]]; [exists a; auto|exists x; auto].
    + intros [x [[->|Hx] Hf]]; [now left|right; exists x; auto].
Qed.

Theorem is_discrete_false_spec : forall n G,
  is_discrete_b n G = false <->
  (exists x, in_qgens n G x) /\ exists l, In l (glines G) /\ ~ peq n (vnth l) (vnth vzero).
Proof.
  intros n G. unfold is_discrete_b. rewrite orb_false_iff, forallb_false. split.
  - intros [HE [l [Hl Hn]]]. split.
    + unfold is_empty_b in HE. destruct (points G) as [|p0 ps] eqn:EP; [discriminate|].
      exists (vnth (vadd p0 (vadd vzero vzero))). exists p0, vzero, vzero.
      split; [apply ia_pt; rewrite EP; now left|]. split; [constructor|]. split; [constructor|apply peq_refl].
    + exists l. split; [exact Hl|]. intros P. apply vnull_spec in P. congruence.
  - intros [[x [a [_ [_ [Ha _]]]]] [l [Hl Hn]]]. split; [exact (is_empty_false G a Ha)|].
    exists l. split; [exact Hl|]. destruct (vnull_b n l) eqn:E; [|reflexivity].
    exfalso. apply Hn. now apply vnull_spec.
Qed.

(* then the grid contains the whole rational line through any of its points in that direction *)
Theorem line_direction_dense : forall n G l x, In l (glines G) -> in_qgens n G x ->
  forall q : Q, in_qgens n G (fun i => x i + q * vnth l i).
Proof.
  intros n G l x Hl [a [u [v [Ha [Hu [Hv Hx]]]]]] q.
  exists a, u, (vadd v (vscale q l)). split; [exact Ha|]. split; [exact Hu|].
  split; [apply sp_add; [exact Hv|]; apply sp_scale; [exact I|]; now apply sp_in|].
  intros i Hi. cbn beta. rewrite (Hx i Hi). vpush. ring.
Qed.

Print Assumptions gen_preimage_spec.
Print Assumptions project_spec.
Print Assumptions is_discrete_false_spec.
Print Assumptions line_direction_dense.
