(* C05 -- rational vectors (lists, missing coordinates are 0), points (nat -> Q), dot products,
   integrality of a rational, and the inductive span of a list of vectors over a set of scalars. *)
From Coq Require Import List ZArith QArith Lia Lqa Bool Setoid Morphisms.
Import ListNotations.
Local Open Scope Q_scope.

Definition vec := list Q.
Definition vnth (v : vec) (i : nat) : Q := nth i v 0.
Definition veq (u v : vec) : Prop := forall i, vnth u i == vnth v i.

Fixpoint vadd (u v : vec) : vec :=
  match u, v with
  | [], _ => v
  | _, [] => u
  | x :: u', y :: v' => Qred (x + y) :: vadd u' v'
  end.
Definition vscale (k : Q) (u : vec) : vec := map (fun x => Qred (k * x)) u.
Definition vzero : vec := [].

Lemma vnth_nil i : vnth [] i = 0.
Proof. destruct i; reflexivity. Qed.
Lemma vnth_zero i : vnth vzero i == 0.
Proof. unfold vzero. rewrite vnth_nil. reflexivity. Qed.

Lemma vnth_add u : forall v i, vnth (vadd u v) i == vnth u i + vnth v i.
Proof.
  induction u as [|x u IH]; intros v i.
  - cbn [vadd]. rewrite vnth_nil. ring.
  - destruct v as [|y v].
    + cbn [vadd]. rewrite vnth_nil. ring.
    + cbn [vadd]. destruct i as [|i].
      * unfold vnth; cbn [nth]. apply Qred_correct.
      * unfold vnth in *; cbn [nth]. apply IH.
Qed.

Lemma vnth_scale k u : forall i, vnth (vscale k u) i == k * vnth u i.
Proof.
  induction u as [|x u IH]; intros i.
  - cbn [vscale map]. rewrite vnth_nil. ring.
  - destruct i as [|i]; unfold vnth in *; cbn [vscale map nth].
    + apply Qred_correct.
    + apply IH.
Qed.

Global Instance veq_equiv : Equivalence veq.
Proof.
  split.
  - intros u i. reflexivity.
  - intros u v H i. symmetry. apply H.
  - intros u v w H1 H2 i. rewrite (H1 i). apply H2.
Qed.

Global Instance vadd_proper : Proper (veq ==> veq ==> veq) vadd.
Proof. intros u u' Hu v v' Hv i. rewrite !vnth_add, (Hu i), (Hv i). reflexivity. Qed.
Global Instance vscale_proper : Proper (Qeq ==> veq ==> veq) vscale.
Proof. intros k k' Hk u u' Hu i. rewrite !vnth_scale, (Hu i), Hk. reflexivity. Qed.

(* the workhorse for vector identities: go pointwise, push vnth inside, use given equations, ring *)
Ltac vpush := repeat (rewrite vnth_add || rewrite vnth_scale || rewrite vnth_zero).
Ltac vpoint i := intro i; vpush.

(* ---------- points and dot products ---------- *)
Definition point := nat -> Q.
Definition peq (n : nat) (x y : point) : Prop := forall i, (i < n)%nat -> x i == y i.

Lemma peq_refl n x : peq n x x.
Proof. intros i _. reflexivity. Qed.
Lemma peq_sym n x y : peq n x y -> peq n y x.
Proof. intros H i Hi. symmetry. now apply H. Qed.
Lemma peq_trans n x y z : peq n x y -> peq n y z -> peq n x z.
Proof. intros H1 H2 i Hi. rewrite (H1 i Hi). now apply H2. Qed.
Lemma veq_peq n u v : veq u v -> peq n (vnth u) (vnth v).
Proof. intros H i _. apply H. Qed.

Fixpoint dotf (a : list Q) (g : point) : Q :=
  match a with
  | [] => 0
  | c :: a' => c * g 0%nat + dotf a' (fun j => g (S j))
  end.

Lemma dotf_ext a : forall g h, (forall i, g i == h i) -> dotf a g == dotf a h.
Proof.
  induction a as [|c a IH]; intros g h H; cbn [dotf]; [reflexivity|].
  rewrite (H 0%nat), (IH (fun j => g (S j)) (fun j => h (S j))); [reflexivity|].
  intros i. apply H.
Qed.

Lemma dotf_peq a : forall n g h, (length a <= n)%nat -> peq n g h -> dotf a g == dotf a h.
Proof.
  induction a as [|c a IH]; intros n g h Hl H; cbn [dotf]; [reflexivity|].
  cbn [length] in Hl. destruct n as [|n]; [lia|].
  rewrite (H 0%nat) by lia.
  rewrite (IH n (fun j => g (S j)) (fun j => h (S j))); [reflexivity|lia|].
  intros i Hi. apply H. lia.
Qed.

Lemma dotf_add a : forall g h, dotf a (fun i => g i + h i) == dotf a g + dotf a h.
Proof.
  induction a as [|c a IH]; intros g h; cbn [dotf]; [ring|].
  rewrite (IH (fun j => g (S j)) (fun j => h (S j))). ring.
Qed.

Lemma dotf_scale a k : forall g, dotf a (fun i => k * g i) == k * dotf a g.
Proof.
  induction a as [|c a IH]; intros g; cbn [dotf]; [ring|].
  rewrite (IH (fun j => g (S j))). ring.
Qed.

(* executable dot product of a coefficient list and a vector *)
Fixpoint vdot (a : list Q) (v : vec) : Q :=
  match a, v with
  | c :: a', y :: v' => c * y + vdot a' v'
  | _, _ => 0
  end.

Lemma dotf_zero a : forall g, (forall i, g i == 0) -> dotf a g == 0.
Proof.
  induction a as [|c a IH]; intros g H; cbn [dotf]; [reflexivity|].
  rewrite (H 0%nat), (IH (fun j => g (S j))); [ring|]. intros i; apply H.
Qed.

Lemma vdot_dotf a : forall v, vdot a v == dotf a (vnth v).
Proof.
  induction a as [|c a IH]; intros v; [destruct v; reflexivity|].
  destruct v as [|y v].
  - cbn [vdot]. symmetry. apply dotf_zero. intros i. rewrite vnth_nil. reflexivity.
  - cbn [vdot dotf]. rewrite IH. unfold vnth at 2. cbn [nth].
    apply Qplus_comp; [reflexivity|]. apply dotf_ext. intros i. reflexivity.
Qed.

(* the functional  v |-> a . v  used by the lattice step *)
Definition fdot (a : list Q) (v : vec) : Q := Qred (vdot a v).

Lemma fdot_spec a v : fdot a v == dotf a (vnth v).
Proof. unfold fdot. rewrite Qred_correct. apply vdot_dotf. Qed.

Lemma fdot_eq a u v : veq u v -> fdot a u == fdot a v.
Proof. intros H. rewrite !fdot_spec. apply dotf_ext. exact H. Qed.
Lemma fdot_add a u v : fdot a (vadd u v) == fdot a u + fdot a v.
Proof.
  rewrite !fdot_spec. rewrite <- dotf_add. apply dotf_ext. intros i. apply vnth_add.
Qed.
Lemma fdot_scale a k u : fdot a (vscale k u) == k * fdot a u.
Proof.
  rewrite !fdot_spec. rewrite <- dotf_scale. apply dotf_ext. intros i. apply vnth_scale.
Qed.
Lemma fdot_zero a : fdot a vzero == 0.
Proof. rewrite fdot_spec. apply dotf_zero. intros i. apply vnth_zero. Qed.

(* ---------- integrality ---------- *)
Definition isZ (q : Q) : Prop := exists z : Z, q == inject_Z z.
Definition anyQ (q : Q) : Prop := True.

Definition to_int (q : Q) : option Z :=
  if (Qnum q mod Zpos (Qden q) =? 0)%Z then Some (Qnum q / Zpos (Qden q))%Z else None.

Lemma to_int_some q z : to_int q = Some z -> q == inject_Z z.
Proof.
  unfold to_int. destruct (Z.eqb_spec (Qnum q mod Z.pos (Qden q)) 0) as [E|]; [|discriminate].
  intros [= <-]. unfold Qeq, inject_Z; cbn [Qnum Qden].
  pose proof (Z.div_mod (Qnum q) (Z.pos (Qden q))) as H. rewrite E in H.
  rewrite H at 1 by lia. ring.
Qed.

Lemma to_int_none q : to_int q = None -> forall z, ~ q == inject_Z z.
Proof.
  unfold to_int. destruct (Z.eqb_spec (Qnum q mod Z.pos (Qden q)) 0) as [|N]; [discriminate|].
  intros _ z H. apply N. unfold Qeq, inject_Z in H; cbn [Qnum Qden] in H.
  rewrite Z.mul_1_r in H. rewrite H. apply Z.mod_mul. lia.
Qed.

Lemma inject_Z_inj a b : inject_Z a == inject_Z b -> a = b.
Proof. unfold Qeq, inject_Z; cbn. lia. Qed.

Lemma isZ_add p q : isZ p -> isZ q -> isZ (p + q).
Proof. intros [a Ha] [b Hb]. exists (a + b)%Z. rewrite Ha, Hb, inject_Z_plus. reflexivity. Qed.
Lemma isZ_mul p q : isZ p -> isZ q -> isZ (p * q).
Proof. intros [a Ha] [b Hb]. exists (a * b)%Z. rewrite Ha, Hb, inject_Z_mult. reflexivity. Qed.
Lemma isZ_inj z : isZ (inject_Z z).
Proof. exists z. reflexivity. Qed.
Lemma isZ_eq p q : p == q -> isZ p -> isZ q.
Proof. intros E [a Ha]. exists a. rewrite <- E. exact Ha. Qed.

(* ---------- span of a list of vectors over a set of scalars K ---------- *)
Inductive span (K : Q -> Prop) (bs : list vec) : vec -> Prop :=
| sp_zero : span K bs vzero
| sp_in b : In b bs -> span K bs b
| sp_add u v : span K bs u -> span K bs v -> span K bs (vadd u v)
| sp_scale k u : K k -> span K bs u -> span K bs (vscale k u)
| sp_eq u v : veq u v -> span K bs u -> span K bs v.

Definition zspan := span isZ.
Definition qspan := span anyQ.

Lemma span_mono K bs cs : (forall b, In b bs -> span K cs b) -> forall v, span K bs v -> span K cs v.
Proof.
  intros H v Hv. induction Hv as [|b Hb|u v _ IHu _ IHv|k u Hk _ IHu|u v E _ IHu].
  - constructor. - now apply H. - now apply sp_add. - now apply sp_scale. - eapply sp_eq; eauto.
Qed.

Lemma span_incl K bs cs v : incl bs cs -> span K bs v -> span K cs v.
Proof. intros H. apply span_mono. intros b Hb. apply sp_in. now apply H. Qed.

Lemma span_K_mono (K K' : Q -> Prop) bs v : (forall k, K k -> K' k) -> span K bs v -> span K' bs v.
Proof.
  intros H Hv. induction Hv as [|b Hb|u v _ IHu _ IHv|k u Hk _ IHu|u v E _ IHu].
  - constructor. - now apply sp_in. - now apply sp_add. - apply sp_scale; auto. - eapply sp_eq; eauto.
Qed.

(* linear maps on vectors *)
Record linear (phi : vec -> vec) : Prop := {
  lin_eq : forall u v, veq u v -> veq (phi u) (phi v);
  lin_add : forall u v, veq (phi (vadd u v)) (vadd (phi u) (phi v));
  lin_scale : forall k u, veq (phi (vscale k u)) (vscale k (phi u));
  lin_zero : veq (phi vzero) vzero }.

Lemma span_map K phi bs v : linear phi -> span K bs v -> span K (map phi bs) (phi v).
Proof.
  intros L Hv. induction Hv as [|b Hb|u v _ IHu _ IHv|k u Hk _ IHu|u v E _ IHu].
  - eapply sp_eq; [symmetry; apply (lin_zero _ L)|constructor].
  - apply sp_in. now apply in_map.
  - eapply sp_eq; [symmetry; apply (lin_add _ L)|]. now apply sp_add.
  - eapply sp_eq; [symmetry; apply (lin_scale _ L)|]. now apply sp_scale.
  - eapply sp_eq; [apply (lin_eq _ L); exact E|exact IHu].
Qed.

Lemma span_map_inv K phi bs w : linear phi -> span K (map phi bs) w ->
  exists v, span K bs v /\ veq w (phi v).
Proof.
  intros L Hw. induction Hw as [|b Hb|u v _ [u0 [Hu Eu]] _ [v0 [Hv Ev]]|k u Hk _ [u0 [Hu Eu]]|u v E _ [u0 [Hu Eu]]].
  - exists vzero. split; [constructor|]. symmetry. apply (lin_zero _ L).
  - apply in_map_iff in Hb. destruct Hb as [b0 [<- Hb0]]. exists b0. split; [now apply sp_in|reflexivity].
  - exists (vadd u0 v0). split; [now apply sp_add|]. rewrite (lin_add _ L), Eu, Ev. reflexivity.
  - exists (vscale k u0). split; [now apply sp_scale|]. rewrite (lin_scale _ L), Eu. reflexivity.
  - exists u0. split; [exact Hu|]. rewrite <- E. exact Eu.
Qed.

(* linear functionals *)
Record linfun (f : vec -> Q) : Prop := {
  lf_eq : forall u v, veq u v -> f u == f v;
  lf_add : forall u v, f (vadd u v) == f u + f v;
  lf_scale : forall k u, f (vscale k u) == k * f u;
  lf_zero : f vzero == 0 }.

Lemma fdot_linfun a : linfun (fdot a).
Proof.
  split; [apply fdot_eq|apply fdot_add|apply fdot_scale|apply fdot_zero].
Qed.

Lemma span_f0 K f bs v : linfun f -> (forall b, In b bs -> f b == 0) -> span K bs v -> f v == 0.
Proof.
  intros L H Hv. induction Hv as [|b Hb|u v _ IHu _ IHv|k u Hk _ IHu|u v E _ IHu].
  - apply (lf_zero _ L). - now apply H.
  - rewrite (lf_add _ L), IHu, IHv. ring.
  - rewrite (lf_scale _ L), IHu. ring.
  - rewrite <- (lf_eq _ L _ _ E). exact IHu.
Qed.

(* head / tail decomposition of a span *)
Lemma span_cons (K : Q -> Prop) (K0 : K 0) (K1 : K 1)
  (Kadd : forall p q, K p -> K q -> K (p + q)) (Kmul : forall p q, K p -> K q -> K (p * q))
  (Keq : forall p q, p == q -> K p -> K q) b0 bs u :
  span K (b0 :: bs) u <-> exists k o, K k /\ span K bs o /\ veq u (vadd (vscale k b0) o).
Proof.
  split.
  - intros Hu. induction Hu as [|b Hb|u v _ [k1 [o1 [Hk1 [Ho1 E1]]]] _ [k2 [o2 [Hk2 [Ho2 E2]]]]
                               |k u Hk _ [k1 [o1 [Hk1 [Ho1 E1]]]]|u v E _ [k1 [o1 [Hk1 [Ho1 E1]]]]].
    + exists 0, vzero. split; [exact K0|]. split; [constructor|]. vpoint i. ring.
    + destruct Hb as [<-|Hb].
      * exists 1, vzero. split; [exact K1|]. split; [constructor|]. vpoint i. ring.
      * exists 0, b. split; [exact K0|]. split; [now apply sp_in|]. vpoint i. ring.
    + exists (k1 + k2), (vadd o1 o2). split; [now apply Kadd|]. split; [now apply sp_add|].
      vpoint i. rewrite (E1 i), (E2 i). vpush. ring.
    + exists (k * k1), (vscale k o1). split; [now apply Kmul|]. split; [now apply sp_scale|].
      vpoint i. rewrite (E1 i). vpush. ring.
    + exists k1, o1. split; [exact Hk1|]. split; [exact Ho1|]. rewrite <- E. exact E1.
  - intros [k [o [Hk [Ho E]]]]. eapply sp_eq; [symmetry; exact E|].
    apply sp_add.
    + apply sp_scale; [exact Hk|]. apply sp_in. now left.
    + eapply span_incl; [|exact Ho]. intros x Hx. now right.
Qed.

Lemma zspan_cons b0 bs u :
  zspan (b0 :: bs) u <-> exists (k : Z) o, zspan bs o /\ veq u (vadd (vscale (inject_Z k) b0) o).
Proof.
  unfold zspan. rewrite span_cons.
  - split.
    + intros [k [o [[z Hz] [Ho E]]]]. exists z, o. split; [exact Ho|]. rewrite E. vpoint i. rewrite Hz. reflexivity.
    + intros [z [o [Ho E]]]. exists (inject_Z z), o. split; [apply isZ_inj|]. split; assumption.
  - exists 0%Z. reflexivity.
  - exists 1%Z. reflexivity.
  - apply isZ_add.
  - apply isZ_mul.
  - apply isZ_eq.
Qed.

Lemma qspan_cons b0 bs u :
  qspan (b0 :: bs) u <-> exists (k : Q) o, qspan bs o /\ veq u (vadd (vscale k b0) o).
Proof.
  unfold qspan. rewrite span_cons; try (intros; exact I); try exact I.
  split.
  - intros [k [o [_ [Ho E]]]]. exists k, o. split; assumption.
  - intros [k [o [Ho E]]]. exists k, o. split; [exact I|]. split; assumption.
Qed.

Lemma span_app (K : Q -> Prop) bs cs u :
  span K bs u -> forall v, span K cs v -> span K (bs ++ cs) (vadd u v).
Proof.
  intros Hu v Hv. apply sp_add; eapply span_incl; try eassumption.
  - apply incl_appl, incl_refl.
  - apply incl_appr, incl_refl.
Qed.

Lemma span_app_inv K bs cs w :
  span K (bs ++ cs) w -> exists u v, span K bs u /\ span K cs v /\ veq w (vadd u v).
Proof.
  intros Hw. induction Hw as [|b Hb|u v _ [u1 [v1 [Hu1 [Hv1 E1]]]] _ [u2 [v2 [Hu2 [Hv2 E2]]]]
                               |k u Hk _ [u1 [v1 [Hu1 [Hv1 E1]]]]|u v E _ [u1 [v1 [Hu1 [Hv1 E1]]]]].
  - exists vzero, vzero. split; [constructor|]. split; [constructor|]. vpoint i. ring.
  - apply in_app_or in Hb. destruct Hb as [Hb|Hb].
    + exists b, vzero. split; [now apply sp_in|]. split; [constructor|]. vpoint i. ring.
    + exists vzero, b. split; [constructor|]. split; [now apply sp_in|]. vpoint i. ring.
  - exists (vadd u1 u2), (vadd v1 v2). split; [now apply sp_add|]. split; [now apply sp_add|].
    vpoint i. rewrite (E1 i), (E2 i). vpush. ring.
  - exists (vscale k u1), (vscale k v1). split; [now apply sp_scale|]. split; [now apply sp_scale|].
    vpoint i. rewrite (E1 i). vpush. ring.
  - exists u1, v1. split; [exact Hu1|]. split; [exact Hv1|]. rewrite <- E. exact E1.
Qed.
