(* C05 -- the lattice engine.  Parametrised affine lattices
     { p + sum k_i b_i + sum r_j l_j | k_i in Z, r_j in Q }
   and ONE verified step: intersect with a (rational-coefficient) congruence  a.x + b = 0 (mod m)
   (m == 0: equality).  The extended gcd is untrusted: its output is checked at run time; a failed
   check gives [Fail], never a wrong answer. *)
From Coq Require Import List ZArith QArith Lia Lqa Bool Setoid Morphisms.
Require Import PPLV.Grid.QVec.
Import ListNotations.
Local Open Scope Q_scope.

Record alat := mkL { pt : vec; pars : list vec; lins : list vec }.

Definition den (n : nat) (S : alat) (x : point) : Prop :=
  exists u v, zspan (pars S) u /\ qspan (lins S) v /\ peq n x (vnth (vadd (pt S) (vadd u v))).

Record qcg := mkC { ca : list Q; cb : Q; cm : Q }.

Definition sat_q (c : qcg) (x : point) : Prop :=
  exists mu : Z, dotf (ca c) x + cb c == inject_Z mu * cm c.

Inductive res := Fail | Empty | Lat (S : alat).

(* ---------- untrusted extended gcd, checked ---------- *)
Fixpoint egcd (fuel : nat) (a b : Z) : Z * Z * Z :=
  match fuel with
  | O => (a, 1, 0)%Z
  | S n => if Z.eqb b 0 then (if Z.ltb a 0 then (- a, -1, 0) else (a, 1, 0))%Z
           else let '(d, u, v) := egcd n b (a mod b)%Z in (d, v, u - (a / b) * v)%Z
  end.

Definition egcdQ (h m : Q) : Q * Z * Z :=
  let D := (Qden h * Qden m)%positive in
  let H := (Qnum h * Zpos (Qden m))%Z in
  let M := (Qnum m * Zpos (Qden h))%Z in
  let fuel := (4 * Z.to_nat (Z.log2 (Z.abs H + Z.abs M + 1)) + 8)%nat in
  let '(d, u, v) := egcd fuel H M in (Qred (d # D), u, v).

(* g, s, t, u, v  with  h = s g, m = t g, u h + v m = g, g <> 0 *)
Definition bez (h m : Q) : option (Q * Z * Z * Z * Z) :=
  let '(g, u, v) := egcdQ h m in
  if Qeq_bool g 0 then None else
  match to_int (h / g), to_int (m / g) with
  | Some s, Some t =>
      if Qeq_bool (inject_Z u * h + inject_Z v * m) g then Some (g, s, t, u, v) else None
  | _, _ => None
  end.

Lemma Qeq_bool_false x y : Qeq_bool x y = false -> ~ x == y.
Proof. intros H E. apply Qeq_bool_iff in E. congruence. Qed.

Lemma bez_spec h m g s t u v : bez h m = Some (g, s, t, u, v) ->
  ~ g == 0 /\ h == inject_Z s * g /\ m == inject_Z t * g /\
  inject_Z u * h + inject_Z v * m == g /\ (s * u + v * t = 1)%Z.
Proof.
  unfold bez. destruct (egcdQ h m) as [[g0 u0] v0].
  destruct (Qeq_bool g0 0) eqn:Eg; [discriminate|]. apply Qeq_bool_false in Eg.
  destruct (to_int (h / g0)) as [s0|] eqn:Es; [|discriminate].
  destruct (to_int (m / g0)) as [t0|] eqn:Et; [|discriminate].
  destruct (Qeq_bool (inject_Z u0 * h + inject_Z v0 * m) g0) eqn:Eb; [|discriminate].
  intros [= <- <- <- <- <-]. apply Qeq_bool_iff in Eb.
  apply to_int_some in Es. apply to_int_some in Et.
  assert (Hs : h == inject_Z s0 * g0) by (rewrite <- Es; field; exact Eg).
  assert (Ht : m == inject_Z t0 * g0) by (rewrite <- Et; field; exact Eg).
  repeat split; try assumption.
  apply inject_Z_inj. rewrite inject_Z_plus, !inject_Z_mult.
  apply (Qmult_inj_r _ _ g0 Eg).
  transitivity (inject_Z u0 * (inject_Z s0 * g0) + inject_Z v0 * (inject_Z t0 * g0)); [ring|].
  rewrite <- Hs, <- Ht, Eb. change (inject_Z 1) with 1. ring.
Qed.

(* does m divide c (m == 0: c == 0) *)
Definition divides_b (m c : Q) : bool :=
  if Qeq_bool m 0 then Qeq_bool c 0
  else match to_int (c / m) with Some _ => true | None => false end.

Lemma divides_b_spec m c : divides_b m c = true <-> exists mu : Z, c == inject_Z mu * m.
Proof.
  unfold divides_b. destruct (Qeq_bool m 0) eqn:Em.
  - apply Qeq_bool_iff in Em. rewrite Qeq_bool_iff. split.
    + intros E. exists 0%Z. rewrite E, Em. ring.
    + intros [mu E]. rewrite E, Em. ring.
  - apply Qeq_bool_false in Em. destruct (to_int (c / m)) as [w|] eqn:Ew.
    + apply to_int_some in Ew. split; [intros _|reflexivity]. exists w. rewrite <- Ew. field. exact Em.
    + split; [discriminate|]. intros [mu E]. exfalso. apply (to_int_none _ Ew mu). rewrite E. field. exact Em.
Qed.

(* the arithmetic heart of the one-unknown congruence  c0 + k h = mu m *)
Lemma cong_solve g s t u v w h m c0 :
  ~ g == 0 -> h == inject_Z s * g -> m == inject_Z t * g -> (s * u + v * t = 1)%Z ->
  c0 == inject_Z w * g ->
  forall k : Z, (exists mu : Z, c0 + inject_Z k * h == inject_Z mu * m) <->
                (exists j : Z, k = (- w * u + j * t)%Z).
Proof.
  intros Hg Hh Hm Hdet Hc k.
  assert (Key : forall mu : Z, c0 + inject_Z k * h == inject_Z mu * m <-> (w + k * s = mu * t)%Z).
  { intros mu. rewrite Hh, Hm, Hc. split.
    - intros E. apply inject_Z_inj. rewrite inject_Z_plus, !inject_Z_mult.
      apply (Qmult_inj_r _ _ g Hg).
      transitivity (inject_Z w * g + inject_Z k * (inject_Z s * g)); [ring|]. rewrite E. ring.
    - intros E. apply (f_equal inject_Z) in E. rewrite inject_Z_plus, !inject_Z_mult in E.
      transitivity ((inject_Z w + inject_Z k * inject_Z s) * g); [ring|]. rewrite E. ring. }
  split.
  - intros [mu E]. apply Key in E. exists (mu * u + k * v)%Z.
    transitivity (k * (s * u + v * t))%Z; [rewrite Hdet; ring|].
    replace (k * (s * u + v * t))%Z with ((k * s) * u + k * v * t)%Z by ring.
    replace (k * s)%Z with (mu * t - w)%Z by lia. ring.
  - intros [j ->]. exists (w * v + j * s)%Z. apply Key.
    replace (w + (- w * u + j * t) * s)%Z with (w * (1 - s * u) + j * t * s)%Z by ring.
    replace (1 - s * u)%Z with (v * t)%Z by lia. ring.
Qed.

Lemma cong_unsolvable g s t h m c0 :
  ~ g == 0 -> h == inject_Z s * g -> m == inject_Z t * g ->
  (forall w : Z, ~ c0 / g == inject_Z w) ->
  forall k mu : Z, ~ c0 + inject_Z k * h == inject_Z mu * m.
Proof.
  intros Hg Hh Hm Hn k mu E. apply (Hn (mu * t - k * s)%Z).
  unfold Zminus. rewrite inject_Z_plus, inject_Z_opp, !inject_Z_mult.
  rewrite Hh, Hm in E.
  assert (E' : c0 == (inject_Z mu * inject_Z t - inject_Z k * inject_Z s) * g).
  { transitivity (c0 + inject_Z k * (inject_Z s * g) - inject_Z k * (inject_Z s * g)); [ring|].
    rewrite E. ring. }
  rewrite E'. field. exact Hg.
Qed.

(* ---------- spans: small facts ---------- *)
Lemma span_nil K u : span K [] u -> veq u vzero.
Proof.
  intros H. induction H as [|b Hb|u v _ IHu _ IHv|k u Hk _ IHu|u v E _ IHu].
  - reflexivity. - destruct Hb.
  - vpoint i. rewrite (IHu i), (IHv i). vpush. ring.
  - vpoint i. rewrite (IHu i). vpush. ring.
  - rewrite <- E. exact IHu.
Qed.

Lemma zspan_zero_cons bs u : zspan (vzero :: bs) u <-> zspan bs u.
Proof.
  split; apply span_mono; intros b Hb.
  - destruct Hb as [<-|Hb]; [constructor|now apply sp_in].
  - apply sp_in. now right.
Qed.

(* ---------- the step ---------- *)
Section Step.
Variable a : list Q.
Let f := fdot a.
Let Lf : linfun f := fdot_linfun a.

(* Bezout step on a pair of parameters *)
Definition bstep (p b : vec) : option (vec * vec) :=
  if Qeq_bool (f b) 0 then Some (p, b) else
  match bez (f p) (f b) with
  | Some (g, s, t, u, v) =>
      Some (vadd (vscale (inject_Z u) p) (vscale (inject_Z v) b),
            vadd (vscale (inject_Z (- t)) p) (vscale (inject_Z s) b))
  | None => None
  end.

Lemma bstep_spec p b p' o' :
  bstep p b = Some (p', o') ->
  f o' == 0 /\
  (forall bs, zspan (p :: b :: bs) p' /\ zspan (p :: b :: bs) o') /\
  (forall bs, zspan (p' :: o' :: bs) p /\ zspan (p' :: o' :: bs) b).
Proof.
  unfold bstep. destruct (Qeq_bool (f b) 0) eqn:E0.
  - apply Qeq_bool_iff in E0. intros [= <- <-]. split; [exact E0|].
    split; intros bs; split; apply sp_in; simpl; auto.
  - destruct (bez (f p) (f b)) as [[[[[g s] t] u] v]|] eqn:Eb; [|discriminate].
    intros [= <- <-]. destruct (bez_spec _ _ _ _ _ _ _ Eb) as [Hg [Hs [Ht [Hb Hdet]]]].
    split; [|split].
    + rewrite (lf_add _ Lf), !(lf_scale _ Lf). rewrite Hs, Ht. rewrite inject_Z_opp. ring.
    + intros bs. split; apply sp_add; apply sp_scale; try apply isZ_inj; apply sp_in; simpl; auto.
    + intros bs.
      set (p' := vadd (vscale (inject_Z u) p) (vscale (inject_Z v) b)).
      set (o' := vadd (vscale (inject_Z (- t)) p) (vscale (inject_Z s) b)).
      assert (D : inject_Z s * inject_Z u + inject_Z v * inject_Z t == 1).
      { rewrite <- !inject_Z_mult, <- inject_Z_plus, Hdet. reflexivity. }
      split.
      * apply (sp_eq _ _ (vadd (vscale (inject_Z s) p') (vscale (inject_Z (- v)) o'))).
        { unfold p', o'. vpoint i. rewrite !inject_Z_opp.
          transitivity ((inject_Z s * inject_Z u + inject_Z v * inject_Z t) * vnth p i); [ring|].
          rewrite D. ring. }
        apply sp_add; apply sp_scale; try apply isZ_inj; apply sp_in; simpl; auto.
      * apply (sp_eq _ _ (vadd (vscale (inject_Z t) p') (vscale (inject_Z u) o'))).
        { unfold p', o'. vpoint i. rewrite !inject_Z_opp.
          transitivity ((inject_Z s * inject_Z u + inject_Z v * inject_Z t) * vnth b i); [ring|].
          rewrite D. ring. }
        apply sp_add; apply sp_scale; try apply isZ_inj; apply sp_in; simpl; auto.
Qed.

Fixpoint bfold (p : vec) (orth : list vec) (bs : list vec) : option (vec * list vec) :=
  match bs with
  | [] => Some (p, orth)
  | b :: bs' => match bstep p b with
                | Some (p', o') => bfold p' (o' :: orth) bs'
                | None => None
                end
  end.

Lemma bfold_spec : forall bs p orth p' orth',
  (forall o, In o orth -> f o == 0) ->
  bfold p orth bs = Some (p', orth') ->
  (forall o, In o orth' -> f o == 0) /\
  (forall v, zspan (p :: orth ++ bs) v <-> zspan (p' :: orth') v).
Proof.
  induction bs as [|b bs IH]; intros p orth p' orth' Ho; cbn [bfold].
  - intros [= <- <-]. split; [exact Ho|]. intros v. now rewrite app_nil_r.
  - destruct (bstep p b) as [[p1 o1]|] eqn:Es; [|discriminate]. intros Hf.
    destruct (bstep_spec _ _ _ _ Es) as [Hz [Hfw Hbw]].
    destruct (IH p1 (o1 :: orth) p' orth') as [Ho' Hsp]; [|exact Hf|].
    { intros o [<-|Hin]; [exact Hz|now apply Ho]. }
    split; [exact Ho'|]. intros v. rewrite <- Hsp. clear Hsp.
    assert (I1 : incl (p1 :: o1 :: orth ++ bs) (p1 :: (o1 :: orth) ++ bs)).
    { intros y Hy. cbn [In app] in *. rewrite in_app_iff in *. tauto. }
    assert (I2 : incl (p :: b :: orth ++ bs) (p :: orth ++ b :: bs)).
    { intros y Hy. cbn [In app] in *. rewrite in_app_iff in *. cbn [In]. tauto. }
    split; apply span_mono.
    + intros x Hx. cbn [In] in Hx. rewrite in_app_iff in Hx. cbn [In] in Hx.
      destruct Hx as [<-|[Hx|[<-|Hx]]].
      * eapply span_incl; [exact I1|apply (proj1 (Hbw (orth ++ bs)))].
      * apply sp_in. cbn [In app]. rewrite in_app_iff. tauto.
      * eapply span_incl; [exact I1|apply (proj2 (Hbw (orth ++ bs)))].
      * apply sp_in. cbn [In app]. rewrite in_app_iff. tauto.
    + intros x Hx. cbn [In app] in Hx. rewrite in_app_iff in Hx.
      destruct Hx as [<-|[<-|[Hx|Hx]]].
      * eapply span_incl; [exact I2|apply (proj1 (Hfw (orth ++ bs)))].
      * eapply span_incl; [exact I2|apply (proj2 (Hfw (orth ++ bs)))].
      * apply sp_in. cbn [In]. rewrite in_app_iff. tauto.
      * apply sp_in. cbn [In]. rewrite in_app_iff. cbn [In]. tauto.
Qed.

(* first line not orthogonal to a, and the others *)
Fixpoint split_line (ls : list vec) : option (vec * list vec) :=
  match ls with
  | [] => None
  | l :: ls' => if Qeq_bool (f l) 0
                then match split_line ls' with Some (l0, r) => Some (l0, l :: r) | None => None end
                else Some (l, ls')
  end.

Lemma split_line_some ls : forall l0 rest, split_line ls = Some (l0, rest) ->
  ~ f l0 == 0 /\ (forall x, In x ls <-> In x (l0 :: rest)).
Proof.
  induction ls as [|l ls IH]; intros l0 rest; cbn [split_line]; [discriminate|].
  destruct (Qeq_bool (f l) 0) eqn:E.
  - destruct (split_line ls) as [[l1 r]|]; [|discriminate]. intros [= <- <-].
    destruct (IH l1 r eq_refl) as [H1 H2]. split; [exact H1|].
    intros x. cbn [In]. rewrite H2. cbn [In]. tauto.
  - intros [= <- <-]. split; [now apply Qeq_bool_false|]. intros x. reflexivity.
Qed.

Lemma split_line_none ls : split_line ls = None -> forall l, In l ls -> f l == 0.
Proof.
  induction ls as [|l ls IH]; cbn [split_line]; intros H x Hx; [destruct Hx|].
  destruct (Qeq_bool (f l) 0) eqn:E; [|discriminate].
  destruct (split_line ls) as [[l1 r]|]; [discriminate|].
  destruct Hx as [<-|Hx]; [now apply Qeq_bool_iff|now apply IH].
Qed.

Definition proj (l0 w : vec) : vec := vadd w (vscale (- (f w / f l0)) l0).

Lemma proj_linear l0 : ~ f l0 == 0 -> linear (proj l0).
Proof.
  intros Hl. unfold proj. split.
  - intros u v E. rewrite (lf_eq _ Lf _ _ E), E. reflexivity.
  - intros u v. vpoint i. rewrite (lf_add _ Lf). field. exact Hl.
  - intros k u. vpoint i. rewrite (lf_scale _ Lf). field. exact Hl.
  - vpoint i. rewrite (lf_zero _ Lf). field. exact Hl.
Qed.

Lemma proj_f0 l0 w : ~ f l0 == 0 -> f (proj l0 w) == 0.
Proof. intros Hl. unfold proj. rewrite (lf_add _ Lf), (lf_scale _ Lf). field. exact Hl. Qed.

Definition add_cg_core (b m : Q) (S : alat) : res :=
  match split_line (lins S) with
  | Some (l0, rest) =>
      let fl := f l0 in
      Lat {| pt := vadd (proj l0 (pt S)) (vscale (- (b / fl)) l0);
             pars := (if Qeq_bool m 0 then [] else [vscale (m / fl) l0]) ++ map (proj l0) (pars S);
             lins := map (proj l0) rest |}
  | None =>
      match bfold vzero [] (pars S) with
      | None => Fail
      | Some (b0, orth) =>
          let h := f b0 in
          let c0 := Qred (f (pt S) + b) in
          if Qeq_bool h 0 then (if divides_b m c0 then Lat S else Empty)
          else match bez h m with
               | None => Fail
               | Some (g, s, t, u, v) =>
                   match to_int (c0 / g) with
                   | None => Empty
                   | Some w =>
                       Lat {| pt := vadd (pt S) (vscale (inject_Z (- w * u)) b0);
                              pars := (if (t =? 0)%Z then [] else [vscale (inject_Z t) b0]) ++ orth;
                              lins := lins S |}
                   end
               end
      end
  end.

Variable n : nat.
Hypothesis Hlen : (length a <= n)%nat.

Lemma F_of_peq x w : peq n x (vnth w) -> dotf a x == f w.
Proof. intros H. unfold f. rewrite fdot_spec. apply dotf_peq with n; assumption. Qed.

(* optional single generator  k * w0 *)
Lemma zspan_opt (c : bool) w0 bs u :
  (c = true -> veq w0 vzero) ->
  zspan ((if c then [] else [w0]) ++ bs) u <->
  exists (j : Z) o, zspan bs o /\ veq u (vadd (vscale (inject_Z j) w0) o).
Proof.
  intros Hc. destruct c; cbn [app].
  - split.
    + intros H. exists 0%Z, u. split; [exact H|]. vpoint i. ring.
    + intros [j [o [Ho E]]]. eapply sp_eq; [|exact Ho]. rewrite E.
      vpoint i. rewrite (Hc eq_refl i). vpush. ring.
  - apply zspan_cons.
Qed.

Theorem add_cg_core_lat b m S S' :
  add_cg_core b m S = Lat S' ->
  forall x, den n S' x <-> den n S x /\ (exists mu : Z, dotf a x + b == inject_Z mu * m).
Proof.
  unfold add_cg_core. destruct (split_line (lins S)) as [[l0 rest]|] eqn:Esl.
  - (* a line crosses the congruence *)
    intros [= <-] x. destruct (split_line_some _ _ _ Esl) as [Hl Hin].
    pose proof (proj_linear l0 Hl) as Lp.
    assert (Hq : forall v, qspan (lins S) v <-> qspan (l0 :: rest) v).
    { intros v. split; apply span_incl; intros y Hy; now apply Hin. }
    unfold den; cbn [pt pars lins]. split.
    + intros [u' [v' [Hu' [Hv' Hx]]]].
      apply span_app_inv in Hu'. destruct Hu' as [e [u2 [He [Hu2 Eu']]]].
      apply (span_map_inv _ _ _ _ Lp) in Hu2. destruct Hu2 as [u0 [Hu0 Eu2]].
      apply (span_map_inv _ _ _ _ Lp) in Hv'. destruct Hv' as [v0 [Hv0 Ev']].
      assert (He' : exists j : Z, veq e (vscale (inject_Z j * (m / f l0)) l0) /\ inject_Z j * m == f e * 1 /\ True).
      { destruct (Qeq_bool m 0) eqn:Em.
        - apply Qeq_bool_iff in Em. apply span_nil in He. exists 0%Z. split.
          + rewrite He. vpoint i. ring.
          + split; [|exact I]. rewrite (lf_eq _ Lf _ _ He), (lf_zero _ Lf). ring.
        - apply zspan_cons in He. destruct He as [j [o [Ho E]]]. apply span_nil in Ho.
          exists j. split.
          + rewrite E, Ho. vpoint i. ring.
          + split; [|exact I]. rewrite (lf_eq _ Lf _ _ E), (lf_add _ Lf), !(lf_scale _ Lf).
            rewrite (lf_eq _ Lf _ _ Ho), (lf_zero _ Lf). field. exact Hl. }
      destruct He' as [j [Ee [Efe _]]].
      (* the value of the functional at x *)
      assert (HF : dotf a x + b == inject_Z j * m).
      { rewrite (F_of_peq _ _ Hx). rewrite !(lf_add _ Lf), (lf_scale _ Lf).
        rewrite (lf_eq _ Lf _ _ Eu'), (lf_add _ Lf), (lf_eq _ Lf _ _ Eu2), (lf_eq _ Lf _ _ Ev').
        rewrite !proj_f0 by exact Hl. rewrite Efe. field. exact Hl. }
      split; [|exists j; exact HF].
      exists u0.
      exists (vadd v0 (vscale (inject_Z j * (m / f l0) - f (pt S) / f l0 - b / f l0 - f u0 / f l0 - f v0 / f l0) l0)).
      split; [exact Hu0|]. split.
      * apply Hq. apply qspan_cons. eexists. exists v0. split; [exact Hv0|].
        vpoint i. ring.
      * eapply peq_trans; [exact Hx|]. apply veq_peq.
        rewrite Eu', Eu2, Ev', Ee. unfold proj. vpoint i. field. exact Hl.
    + intros [[u [v [Hu [Hv Hx]]]] [mu Hmu]].
      apply Hq in Hv. apply qspan_cons in Hv. destruct Hv as [r [v0 [Hv0 Ev]]].
      assert (Hr : r * f l0 == inject_Z mu * m - b - f (pt S) - f u - f v0).
      { rewrite (F_of_peq _ _ Hx) in Hmu. rewrite !(lf_add _ Lf) in Hmu.
        rewrite (lf_eq _ Lf _ _ Ev), (lf_add _ Lf), (lf_scale _ Lf) in Hmu.
        rewrite <- Hmu. ring. }
      assert (Hr' : r == (inject_Z mu * m - b - f (pt S) - f u - f v0) / f l0).
      { rewrite <- Hr. field. exact Hl. }
      exists (vadd (vscale (inject_Z mu) (vscale (m / f l0) l0)) (proj l0 u)), (proj l0 v0).
      split; [|split].
      * destruct (Qeq_bool m 0) eqn:Em; cbn [app].
        -- apply Qeq_bool_iff in Em. eapply sp_eq; [|apply (span_map _ _ _ _ Lp Hu)].
           vpoint i. rewrite Em. field. exact Hl.
        -- apply zspan_cons. exists mu, (proj l0 u). split; [apply (span_map _ _ _ _ Lp Hu)|reflexivity].
      * apply (span_map _ _ _ _ Lp Hv0).
      * eapply peq_trans; [exact Hx|]. apply veq_peq.
        rewrite Ev. unfold proj. vpoint i. rewrite Hr'. field. exact Hl.
  - (* all lines orthogonal: Bezout on the parameters *)
    pose proof (split_line_none _ Esl) as Hlo.
    destruct (bfold vzero [] (pars S)) as [[b0 orth]|] eqn:Ebf; [|discriminate].
    destruct (bfold_spec _ _ _ _ _ (fun o (H : In o []) => match H with end) Ebf) as [Horth Hsp].
    assert (Hpars : forall u, zspan (pars S) u <->
              exists (k : Z) o, zspan orth o /\ veq u (vadd (vscale (inject_Z k) b0) o)).
    { intros u. rewrite <- zspan_cons, <- Hsp. cbn [app]. symmetry. apply zspan_zero_cons. }
    (* functional on a member *)
    assert (HF : forall x k o v, zspan orth o -> qspan (lins S) v ->
               peq n x (vnth (vadd (pt S) (vadd (vadd (vscale (inject_Z k) b0) o) v))) ->
               dotf a x + b == Qred (f (pt S) + b) + inject_Z k * f b0).
    { intros x k o v Ho Hv Hx. rewrite (F_of_peq _ _ Hx), Qred_correct.
      rewrite !(lf_add _ Lf), (lf_scale _ Lf).
      rewrite (span_f0 _ _ _ _ Lf Horth Ho), (span_f0 _ _ _ _ Lf Hlo Hv). ring. }
    destruct (Qeq_bool (f b0) 0) eqn:Eh.
    + apply Qeq_bool_iff in Eh. destruct (divides_b m (Qred (f (pt S) + b))) eqn:Ed; [|discriminate].
      intros [= <-] x. split; [|tauto]. intros Hd. split; [exact Hd|].
      destruct Hd as [u [v [Hu [Hv Hx]]]]. apply Hpars in Hu. destruct Hu as [k [o [Ho Eu]]].
      apply divides_b_spec in Ed. destruct Ed as [mu Emu]. exists mu.
      rewrite (HF x k o v Ho Hv).
      * rewrite Eh, Emu. ring.
      * eapply peq_trans; [exact Hx|]. apply veq_peq. rewrite Eu. reflexivity.
    + apply Qeq_bool_false in Eh.
      destruct (bez (f b0) m) as [[[[[g s] t] u0] v0]|] eqn:Eb; [|discriminate].
      destruct (bez_spec _ _ _ _ _ _ _ Eb) as [Hg [Hs [Ht [Hb Hdet]]]].
      destruct (to_int (Qred (f (pt S) + b) / g)) as [w|] eqn:Ew; [|discriminate].
      apply to_int_some in Ew.
      assert (Hc0 : Qred (f (pt S) + b) == inject_Z w * g) by (rewrite <- Ew; field; exact Hg).
      pose proof (cong_solve _ _ _ _ _ _ _ _ _ Hg Hs Ht Hdet Hc0) as CS.
      intros [= <-] x. unfold den at 1; cbn [pt pars lins].
      assert (Hc : (t =? 0)%Z = true -> veq (vscale (inject_Z t) b0) vzero).
      { intros E. apply Z.eqb_eq in E. subst t. vpoint i. ring. }
      split.
      * intros [u' [v [Hu' [Hv Hx]]]]. apply (zspan_opt _ _ _ _ Hc) in Hu'.
        destruct Hu' as [j [o [Ho Eu']]].
        assert (Hx' : peq n x (vnth (vadd (pt S) (vadd (vadd (vscale (inject_Z (- w * u0 + j * t)) b0) o) v)))).
        { eapply peq_trans; [exact Hx|]. apply veq_peq. rewrite Eu'.
          vpoint i. rewrite inject_Z_plus, !inject_Z_mult. ring. }
        split.
        -- exists (vadd (vscale (inject_Z (- w * u0 + j * t)) b0) o), v.
           split; [|split; [exact Hv|exact Hx']]. apply Hpars. eexists. exists o. split; [exact Ho|reflexivity].
        -- destruct (proj2 (CS (- w * u0 + j * t)%Z)) as [mu Hmu]; [exists j; reflexivity|].
           exists mu. rewrite (HF x _ o v Ho Hv Hx'). exact Hmu.
      * intros [[u [v [Hu [Hv Hx]]]] [mu Hmu]]. apply Hpars in Hu. destruct Hu as [k [o [Ho Eu]]].
        assert (Hx' : peq n x (vnth (vadd (pt S) (vadd (vadd (vscale (inject_Z k) b0) o) v)))).
        { eapply peq_trans; [exact Hx|]. apply veq_peq. rewrite Eu. reflexivity. }
        rewrite (HF x k o v Ho Hv Hx') in Hmu.
        destruct (proj1 (CS k)) as [j Hj]; [exists mu; exact Hmu|].
        exists (vadd (vscale (inject_Z j) (vscale (inject_Z t) b0)) o), v.
        split; [|split; [exact Hv|]].
        -- apply (zspan_opt _ _ _ _ Hc). exists j, o. split; [exact Ho|reflexivity].
        -- eapply peq_trans; [exact Hx'|]. apply veq_peq. rewrite Hj.
           vpoint i. rewrite inject_Z_plus, !inject_Z_mult. ring.
Qed.

Theorem add_cg_core_empty b m S :
  add_cg_core b m S = Empty ->
  forall x, ~ (den n S x /\ (exists mu : Z, dotf a x + b == inject_Z mu * m)).
Proof.
  unfold add_cg_core. destruct (split_line (lins S)) as [[l0 rest]|] eqn:Esl; [discriminate|].
  pose proof (split_line_none _ Esl) as Hlo.
  destruct (bfold vzero [] (pars S)) as [[b0 orth]|] eqn:Ebf; [|discriminate].
  destruct (bfold_spec _ _ _ _ _ (fun o (H : In o []) => match H with end) Ebf) as [Horth Hsp].
  assert (Hpars : forall u, zspan (pars S) u <->
            exists (k : Z) o, zspan orth o /\ veq u (vadd (vscale (inject_Z k) b0) o)).
  { intros u. rewrite <- zspan_cons, <- Hsp. cbn [app]. symmetry. apply zspan_zero_cons. }
  intros HE x [[u [v [Hu [Hv Hx]]]] [mu Hmu]].
  apply Hpars in Hu. destruct Hu as [k [o [Ho Eu]]].
  assert (HF : dotf a x + b == Qred (f (pt S) + b) + inject_Z k * f b0).
  { rewrite (F_of_peq x (vadd (pt S) (vadd (vadd (vscale (inject_Z k) b0) o) v))).
    - rewrite Qred_correct, !(lf_add _ Lf), (lf_scale _ Lf).
      rewrite (span_f0 _ _ _ _ Lf Horth Ho), (span_f0 _ _ _ _ Lf Hlo Hv). ring.
    - eapply peq_trans; [exact Hx|]. apply veq_peq. rewrite Eu. reflexivity. }
  rewrite HF in Hmu.
  destruct (Qeq_bool (f b0) 0) eqn:Eh.
  - apply Qeq_bool_iff in Eh. destruct (divides_b m (Qred (f (pt S) + b))) eqn:Ed; [discriminate|].
    assert (divides_b m (Qred (f (pt S) + b)) = true); [|congruence].
    apply divides_b_spec. exists mu. rewrite <- Hmu, Eh. ring.
  - apply Qeq_bool_false in Eh.
    destruct (bez (f b0) m) as [[[[[g s] t] u0] v0]|] eqn:Eb; [|discriminate].
    destruct (bez_spec _ _ _ _ _ _ _ Eb) as [Hg [Hs [Ht [Hb Hdet]]]].
    destruct (to_int (Qred (f (pt S) + b) / g)) as [w|] eqn:Ew; [discriminate|].
    exact (cong_unsolvable _ _ _ _ _ _ Hg Hs Ht (to_int_none _ Ew) k mu Hmu).
Qed.

End Step.

(* ---------- the public step ---------- *)
Definition add_cg (n : nat) (c : qcg) (S : alat) : res :=
  if (length (ca c) <=? n)%nat then add_cg_core (ca c) (cb c) (cm c) S else Fail.

Theorem add_cg_lat n c S S' : add_cg n c S = Lat S' ->
  forall x, den n S' x <-> den n S x /\ sat_q c x.
Proof.
  unfold add_cg. destruct (Nat.leb_spec (length (ca c)) n) as [H|]; [|discriminate].
  intros E. exact (add_cg_core_lat (ca c) n H _ _ _ _ E).
Qed.

Theorem add_cg_empty n c S : add_cg n c S = Empty ->
  forall x, ~ (den n S x /\ sat_q c x).
Proof.
  unfold add_cg. destruct (Nat.leb_spec (length (ca c)) n) as [H|]; [|discriminate].
  intros E. exact (add_cg_core_empty (ca c) n H _ _ _ E).
Qed.

(* every lattice value is non-empty: its point belongs to it *)
Lemma den_pt n S : den n S (vnth (pt S)).
Proof.
  exists vzero, vzero. split; [constructor|]. split; [constructor|].
  apply veq_peq. vpoint i. ring.
Qed.

Lemma den_peq n S x y : peq n x y -> den n S x -> den n S y.
Proof.
  intros E [u [v [Hu [Hv Hx]]]]. exists u, v. split; [exact Hu|]. split; [exact Hv|].
  eapply peq_trans; [apply peq_sym; exact E|exact Hx].
Qed.

(* ---------- folding the step over a system ---------- *)
Fixpoint add_cgs (n : nat) (cs : list qcg) (S : alat) : res :=
  match cs with
  | [] => Lat S
  | c :: cs' => match add_cg n c S with
                | Lat S' => add_cgs n cs' S'
                | r => r
                end
  end.

Definition sat_qs (cs : list qcg) (x : point) : Prop := forall c, In c cs -> sat_q c x.

Theorem add_cgs_lat n cs : forall S S', add_cgs n cs S = Lat S' ->
  forall x, den n S' x <-> den n S x /\ sat_qs cs x.
Proof.
  induction cs as [|c cs IH]; intros S S'; cbn [add_cgs].
  - intros [= <-] x. split; [|tauto]. intros H. split; [exact H|]. intros c [].
  - destruct (add_cg n c S) as [| |S1] eqn:E1; try discriminate.
    intros E x. rewrite (IH _ _ E x), (add_cg_lat _ _ _ _ E1 x). unfold sat_qs. cbn [In].
    split.
    + intros [[H1 H2] H3]. split; [exact H1|]. intros c' [<-|Hc]; auto.
    + intros [H1 H2]. split; [split|]; auto.
Qed.

Theorem add_cgs_empty n cs : forall S, add_cgs n cs S = Empty ->
  forall x, ~ (den n S x /\ sat_qs cs x).
Proof.
  induction cs as [|c cs IH]; intros S; cbn [add_cgs]; [discriminate|].
  destruct (add_cg n c S) as [| |S1] eqn:E1; try discriminate.
  - intros _ x [H1 H2]. apply (add_cg_empty _ _ _ E1 x). split; [exact H1|]. apply H2. now left.
  - intros E x [H1 H2]. apply (IH _ E x). split.
    + apply (add_cg_lat _ _ _ _ E1 x). split; [exact H1|]. apply H2. now left.
    + intros c' Hc. apply H2. now right.
Qed.

(* ---------- the universe ---------- *)
Fixpoint unit_vec (i : nat) : vec :=
  match i with O => [1] | S j => 0 :: unit_vec j end.

Lemma vnth_unit i : forall j, vnth (unit_vec i) j == if Nat.eqb j i then 1 else 0.
Proof.
  induction i as [|i IH]; intros j; cbn [unit_vec].
  - destruct j as [|[|j]]; reflexivity.
  - destruct j as [|j]; [reflexivity|]. unfold vnth in *. cbn [nth Nat.eqb]. apply IH.
Qed.

Fixpoint units (n : nat) : list vec :=
  match n with O => [] | S k => units k ++ [unit_vec k] end.

Definition universe (n : nat) : alat := {| pt := vzero; pars := []; lins := units n |}.

Lemma units_span n : forall x : point, exists v, qspan (units n) v /\ peq n x (vnth v) /\
  (forall i, (n <= i)%nat -> vnth v i == 0).
Proof.
  induction n as [|n IH]; intros x.
  - exists vzero. split; [constructor|]. split; [intros i Hi; lia|]. intros i _. apply vnth_zero.
  - destruct (IH x) as [v [Hv [Hx Hz]]].
    exists (vadd v (vscale (x n) (unit_vec n))). split; [|split].
    + cbn [units]. apply span_app; [exact Hv|]. apply sp_scale; [exact I|]. apply sp_in. now left.
    + intros i Hi. vpush. rewrite vnth_unit. destruct (Nat.eqb_spec i n) as [->|Hne].
      * rewrite (Hz n) by lia. ring.
      * rewrite <- (Hx i) by lia. ring.
    + intros i Hi. vpush. rewrite vnth_unit. destruct (Nat.eqb_spec i n) as [->|Hne]; [lia|].
      rewrite (Hz i) by lia. ring.
Qed.

Theorem universe_den n x : den n (universe n) x.
Proof.
  destruct (units_span n x) as [v [Hv [Hx _]]].
  exists vzero, v. split; [constructor|]. split; [exact Hv|].
  eapply peq_trans; [exact Hx|]. apply veq_peq. vpoint i. ring.
Qed.

(* congruence system -> generator form *)
Definition solve (n : nat) (cs : list qcg) : res := add_cgs n cs (universe n).

Theorem solve_lat n cs S : solve n cs = Lat S -> forall x, den n S x <-> sat_qs cs x.
Proof.
  intros E x. rewrite (add_cgs_lat _ _ _ _ E x). split; [tauto|]. intros H. split; [apply universe_den|exact H].
Qed.

Theorem solve_empty n cs : solve n cs = Empty -> forall x, ~ sat_qs cs x.
Proof.
  intros E x H. apply (add_cgs_empty _ _ _ E x). split; [apply universe_den|exact H].
Qed.

(* ---------- membership of a point (given as a vector) ---------- *)
Definition eq_cgs (n : nat) (x : vec) : list qcg :=
  map (fun i => {| ca := unit_vec i; cb := - vnth x i; cm := 0 |}) (seq 0 n).

Lemma dotf_unit i : forall (g : point), dotf (unit_vec i) g == g i.
Proof.
  induction i as [|i IH]; intros g; cbn [unit_vec dotf]; [ring|].
  rewrite (IH (fun j => g (S j))). ring.
Qed.

Lemma length_unit i : length (unit_vec i) = S i.
Proof. induction i; cbn [unit_vec length]; congruence. Qed.

Lemma eq_cgs_sat n x y : sat_qs (eq_cgs n x) y <-> peq n y (vnth x).
Proof.
  unfold sat_qs, eq_cgs. split.
  - intros H i Hi.
    destruct (H {| ca := unit_vec i; cb := - vnth x i; cm := 0 |}) as [mu Hmu].
    { apply in_map_iff. exists i. split; [reflexivity|]. apply in_seq. lia. }
    cbn [ca cb cm] in Hmu. rewrite dotf_unit in Hmu.
    transitivity (y i + - vnth x i + vnth x i); [ring|]. rewrite Hmu. ring.
  - intros H c Hc. apply in_map_iff in Hc. destruct Hc as [i [<- Hi]]. apply in_seq in Hi.
    exists 0%Z. cbn [ca cb cm]. rewrite dotf_unit, (H i) by lia. ring.
Qed.

Definition mem (n : nat) (S : alat) (x : vec) : res := add_cgs n (eq_cgs n x) S.

Theorem mem_lat n S x S' : mem n S x = Lat S' -> den n S (vnth x).
Proof.
  intros E. pose proof (add_cgs_lat _ _ _ _ E (vnth (pt S'))) as H.
  destruct (proj1 H (den_pt n S')) as [H1 H2]. apply eq_cgs_sat in H2.
  eapply den_peq; [exact H2|exact H1].
Qed.

Theorem mem_empty n S x : mem n S x = Empty -> ~ den n S (vnth x).
Proof.
  intros E H. apply (add_cgs_empty _ _ _ E (vnth x)). split; [exact H|].
  apply eq_cgs_sat. apply peq_refl.
Qed.
