(* C05 -- set-level exactness of further reference operators:
   affine_preimage (on congruence systems), add_gen, concat, map_dims. *)
From Coq Require Import List ZArith QArith Lia Lqa Bool Setoid Morphisms.
Require Import PPLV.Grid.QVec PPLV.Grid.IntLin PPLV.Grid.GridSem PPLV.Grid.GridRef PPLV.Grid.GridOps2
  PPLV.Grid.GridOpsSpec.
Import ListNotations.
Local Open Scope Q_scope.

(* ---------- 3. affine_preimage on congruence systems ---------- *)
Lemma dotfz_add : forall u v x,
  dotf (map inject_Z (zadd u v)) x == dotf (map inject_Z u) x + dotf (map inject_Z v) x.
Proof.
  induction u as [|a u IH]; intros v x.
  - cbn [zadd map dotf]. ring.
  - destruct v as [|b v].
    + cbn [zadd map dotf]. ring.
    + cbn [zadd map dotf]. rewrite IH, inject_Z_plus. ring.
Qed.

Lemma dotfz_mul d : forall u x,
  dotf (map inject_Z (map (Z.mul d) u)) x == inject_Z d * dotf (map inject_Z u) x.
Proof.
  induction u as [|a u IH]; intros x; cbn [map dotf]; [ring|]. rewrite IH, inject_Z_mult. ring.
Qed.

Lemma dotfz_upd_nil : forall k x, dotf (map inject_Z (zupd [] k 0%Z)) x == 0.
Proof.
  induction k as [|k IH]; intros x; cbn [zupd map dotf].
  - change (inject_Z 0) with 0. ring.
  - rewrite IH. change (inject_Z 0) with 0. ring.
Qed.

Lemma dotfz_upd : forall c k x v,
  dotf (map inject_Z c) (upd x k v) ==
  dotf (map inject_Z (zupd c k 0%Z)) x + inject_Z (nth k c 0%Z) * v.
Proof.
  induction c as [|a c IH]; intros k x v.
  - rewrite dotfz_upd_nil. cbn [map dotf]. destruct k; cbn [nth]; change (inject_Z 0) with 0; ring.
  - destruct k as [|k]; cbn [zupd map dotf nth].
    + unfold upd. cbn [Nat.eqb]. change (inject_Z 0) with 0. ring.
    + rewrite (dotf_ext _ (fun j => upd x (S k) v (S j)) (upd (fun j => x (S j)) k v))
        by (intros i; reflexivity).
      rewrite IH. unfold upd at 1. cbn [Nat.eqb]. ring.
Qed.

Lemma pre_cg_spec k a b d c x : d <> 0%Z ->
  (sat_cg (pre_cg k a b d c) x <->
   sat_cg c (upd x k ((dotf (map inject_Z a) x + inject_Z b) / inject_Z d))).
Proof.
  intros Hd.
  assert (Hd' : ~ inject_Z d == 0) by (intros E; apply Hd; apply (inject_Z_inj d 0); exact E).
  unfold sat_cg, pre_cg; cbn [cg_a cg_b cg_m].
  set (A := dotf (map inject_Z a) x).
  assert (E : dotf (map inject_Z (zadd (map (Z.mul d) (zupd (cg_a c) k 0%Z))
                                       (map (Z.mul (nth k (cg_a c) 0%Z)) a))) x
              + inject_Z (d * cg_b c + nth k (cg_a c) 0%Z * b)
           == inject_Z d * (dotf (map inject_Z (cg_a c)) (upd x k ((A + inject_Z b) / inject_Z d))
                            + inject_Z (cg_b c))).
  { rewrite dotfz_add, !dotfz_mul, dotfz_upd, inject_Z_plus, !inject_Z_mult. fold A. field. exact Hd'. }
  split; intros [mu H]; exists mu.
  - rewrite E, inject_Z_mult in H. apply (Qmult_inj_l _ _ (inject_Z d) Hd'). rewrite H. ring.
  - rewrite E, H, inject_Z_mult. ring.
Qed.

(* no dimension side condition is needed: missing coefficients are 0 on both sides *)
Theorem affine_preimage_spec : forall k a b d C x, d <> 0%Z ->
  (sat_cgs (affine_preimage k a b d C) x <->
   sat_cgs C (upd x k ((dotf (map inject_Z a) x + inject_Z b) / inject_Z d))).
Proof.
  intros k a b d C x Hd. unfold sat_cgs, affine_preimage. split.
  - intros H c Hc. apply (pre_cg_spec k a b d c x Hd). apply H. now apply in_map.
  - intros H c' Hc. apply in_map_iff in Hc. destruct Hc as [c [<- Hc]].
    apply (pre_cg_spec k a b d c x Hd). now apply H.
Qed.

(* ---------- 4. add_gen ---------- *)
(* QParam generator: the translates of G by the integer multiples of q (empty G stays empty) *)
Theorem add_gen_param_spec : forall n G q x,
  in_qgens n (add_gen G (QParam q)) x <->
  exists (k : Z) y, in_qgens n G y /\ peq n x (fun i => y i + inject_Z k * vnth q i).
Proof.
  intros n G q x. cbn [add_gen]. split.
  - destruct (is_empty_b G) eqn:EG; [intros H; destruct (in_qgens_nil n x H)|].
    intros [a [u' [v [Ha [Hu [Hv Hx]]]]]].
    rewrite points_app, params_app, glines_app in *. cbn [points params glines] in *.
    rewrite app_nil_r in Ha, Hv.
    apply span_app_inv in Hu. destruct Hu as [u [w [Hu [Hw E]]]].
    apply zspan_cons in Hw. destruct Hw as [k [o [Ho Ew]]]. apply span_nil in Ho.
    exists k, (vnth (vadd a (vadd u v))). split.
    + exists a, u, v. split; [exact Ha|]. split; [exact Hu|]. split; [exact Hv|apply peq_refl].
    + intros i Hi. rewrite (Hx i Hi). cbn beta. vpush. rewrite (E i). vpush. rewrite (Ew i). vpush.
      rewrite (Ho i). vpush. ring.
  - intros [k [y [[a [u [v [Ha [Hu [Hv Hy]]]]]] Hx]]].
    rewrite (is_empty_false G a Ha).
    exists a, (vadd u (vscale (inject_Z k) q)), v.
    rewrite points_app, params_app, glines_app. cbn [points params glines]. rewrite !app_nil_r.
    split; [exact Ha|].
    split; [apply span_app; [exact Hu|]; apply sp_scale; [apply isZ_inj|]; apply sp_in; now left|].
    split; [exact Hv|].
    intros i Hi. rewrite (Hx i Hi). cbn beta. rewrite (Hy i Hi). vpush. ring.
Qed.

(* line: the translates of G by the rational multiples of l (empty G stays empty) *)
Theorem add_gen_line_spec : forall n G l x,
  in_qgens n (add_gen G (QLine l)) x <->
  exists (k : Q) y, in_qgens n G y /\ peq n x (fun i => y i + k * vnth l i).
Proof.
  intros n G l x. cbn [add_gen]. split.
  - destruct (is_empty_b G) eqn:EG; [intros H; destruct (in_qgens_nil n x H)|].
    intros [a [u [v' [Ha [Hu [Hv Hx]]]]]].
    rewrite points_app, params_app, glines_app in *. cbn [points params glines] in *.
    rewrite app_nil_r in Ha, Hu.
    apply span_app_inv in Hv. destruct Hv as [v [w [Hv [Hw E]]]].
    apply qspan_cons in Hw. destruct Hw as [k [o [Ho Ew]]]. apply span_nil in Ho.
    exists k, (vnth (vadd a (vadd u v))). split.
    + exists a, u, v. split; [exact Ha|]. split; [exact Hu|]. split; [exact Hv|apply peq_refl].
    + intros i Hi. rewrite (Hx i Hi). cbn beta. vpush. rewrite (E i). vpush. rewrite (Ew i). vpush.
      rewrite (Ho i). vpush. ring.
  - intros [k [y [[a [u [v [Ha [Hu [Hv Hy]]]]]] Hx]]].
    rewrite (is_empty_false G a Ha).
    exists a, u, (vadd v (vscale k l)).
    rewrite points_app, params_app, glines_app. cbn [points params glines]. rewrite !app_nil_r.
    split; [exact Ha|]. split; [exact Hu|].
    split; [apply span_app; [exact Hv|]; apply sp_scale; [exact I|]; apply sp_in; now left|].
    intros i Hi. rewrite (Hx i Hi). cbn beta. rewrite (Hy i Hi). vpush. ring.
Qed.

(* point: the result contains G and the new point (also when G is empty) *)
Theorem add_gen_point_sound : forall n G p x,
  in_qgens n G x -> in_qgens n (add_gen G (QPoint p)) x.
Proof. intros n G p x H. cbn [add_gen]. now apply in_qgens_app_l. Qed.

Theorem add_gen_point_mem : forall n G p, in_qgens n (add_gen G (QPoint p)) (vnth p).
Proof.
  intros n G p. cbn [add_gen]. exists p, vzero, vzero.
  split; [apply ia_pt; rewrite points_app; apply in_or_app; right; now left|].
  split; [constructor|]. split; [constructor|]. intros i _. vpush. ring.
Qed.

(* point added to a non-empty G whose first point is p0: the translates of G by the integer
   multiples of p - p0 *)
Theorem add_gen_point_spec : forall n G p p0 ps x, points G = p0 :: ps ->
  (in_qgens n (add_gen G (QPoint p)) x <->
   exists (k : Z) y, in_qgens n G y /\
     peq n x (fun i => y i + inject_Z k * (vnth p i - vnth p0 i))).
Proof.
  intros n G p p0 ps x EP. cbn [add_gen]. split.
  - intros [a [u [v [Ha [Hu [Hv Hx]]]]]].
    rewrite points_app, params_app, glines_app in *. cbn [points params glines] in *.
    rewrite app_nil_r in Hu, Hv. rewrite EP in Ha. cbn [app] in Ha.
    apply iaff_cons in Ha. destruct Ha as [w [Hw Ea]].
    rewrite map_app in Hw. cbn [map] in Hw.
    apply span_app_inv in Hw. destruct Hw as [w1 [w2 [Hw1 [Hw2 Ew]]]].
    apply zspan_cons in Hw2. destruct Hw2 as [k [o [Ho Ew2]]]. apply span_nil in Ho.
    exists k, (vnth (vadd (vadd p0 w1) (vadd u v))). split.
    + exists (vadd p0 w1), u, v. split; [|split; [exact Hu|split; [exact Hv|apply peq_refl]]].
      rewrite EP. apply iaff_cons. exists w1. split; [exact Hw1|reflexivity].
    + intros i Hi. rewrite (Hx i Hi). cbn beta. vpush. rewrite (Ea i). vpush. rewrite (Ew i). vpush.
      rewrite (Ew2 i). unfold vsub. vpush. rewrite (Ho i). vpush. ring.
  - intros [k [y [[a [u [v [Ha [Hu [Hv Hy]]]]]] Hx]]].
    rewrite EP in Ha. apply iaff_cons in Ha. destruct Ha as [w1 [Hw1 Ea]].
    exists (vadd a (vscale (inject_Z k) (vsub p p0))), u, v.
    rewrite points_app, params_app, glines_app. cbn [points params glines]. rewrite !app_nil_r.
    split; [|split; [exact Hu|split; [exact Hv|]]].
    + rewrite EP. cbn [app]. apply iaff_cons.
      exists (vadd w1 (vscale (inject_Z k) (vsub p p0))). split.
      * rewrite map_app. cbn [map]. apply span_app; [exact Hw1|].
        apply sp_scale; [apply isZ_inj|]. apply sp_in. now left.
      * rewrite Ea. vpoint i. ring.
    + intros i Hi. rewrite (Hx i Hi). cbn beta. rewrite (Hy i Hi). unfold vsub. vpush. ring.
Qed.

(* soundness for every generator kind, G non-empty *)
Theorem add_gen_sound : forall n G g x, in_qgens n G x -> in_qgens n (add_gen G g) x.
Proof.
  intros n G g x H. destruct g as [p|q|l].
  - now apply add_gen_point_sound.
  - apply add_gen_param_spec. exists 0%Z, x. split; [exact H|]. intros i _. cbn beta.
    change (inject_Z 0) with 0. ring.
  - apply add_gen_line_spec. exists 0, x. split; [exact H|]. intros i _. cbn beta. ring.
Qed.

(* ---------- 1. concat ---------- *)
Lemma vnth_shift : forall n v i, vnth (vshift n v) i = if (i <? n)%nat then 0 else vnth v (i - n).
Proof.
  induction n as [|n IH]; intros v i.
  - unfold vshift. cbn [repeat app]. rewrite Nat.sub_0_r. reflexivity.
  - destruct i as [|i]; [reflexivity|]. unfold vshift, vnth in *. cbn [repeat app nth]. rewrite IH. reflexivity.
Qed.

Lemma vshift_linear n : linear (vshift n).
Proof.
  split.
  - intros u v E i. rewrite !vnth_shift. destruct (i <? n)%nat; [reflexivity|apply E].
  - intros u v i. rewrite vnth_add, !vnth_shift. destruct (i <? n)%nat; [ring|apply vnth_add].
  - intros k u i. rewrite vnth_scale, !vnth_shift. destruct (i <? n)%nat; [ring|apply vnth_scale].
  - intros i. rewrite vnth_shift. destruct (i <? n)%nat; rewrite ?vnth_zero; reflexivity.
Qed.

Definition gvec (g : qgen) : vec := match g with QPoint v => v | QParam v => v | QLine v => v end.
(* every generator of G is null from coordinate n on (e.g. has length <= n) *)
Definition dim_le (n : nat) (G : list qgen) : Prop :=
  forall g, In g G -> forall i, (n <= i)%nat -> vnth (gvec g) i == 0.

Lemma dim_le_alat n G L : dim_le n G -> alat_of G = Some L ->
  (forall i, (n <= i)%nat -> vnth (pt L) i == 0) /\
  (forall b, In b (pars L) -> forall i, (n <= i)%nat -> vnth b i == 0) /\
  (forall b, In b (lins L) -> forall i, (n <= i)%nat -> vnth b i == 0).
Proof.
  intros H. unfold alat_of. destruct (points G) as [|p0 ps] eqn:EP; [discriminate|]. intros [= <-].
  cbn [pt pars lins].
  assert (HP : forall p, In p (p0 :: ps) -> forall i, (n <= i)%nat -> vnth p i == 0).
  { intros p Hp. rewrite <- EP in Hp. exact (H _ (points_in _ _ Hp)). }
  split; [apply HP; now left|]. split.
  - intros b Hb i Hi. apply in_app_or in Hb. destruct Hb as [Hb|Hb].
    + apply in_map_iff in Hb. destruct Hb as [p [<- Hp]]. unfold vsub. vpush.
      rewrite (HP p (or_intror Hp) i Hi), (HP p0 (or_introl eq_refl) i Hi). ring.
    + exact (H _ (params_in _ _ Hb) i Hi).
  - intros b Hb. exact (H _ (glines_in _ _ Hb)).
Qed.

Lemma den_concat n n2 L1 L2 x :
  (forall i, (n <= i)%nat -> vnth (pt L1) i == 0) ->
  (forall b, In b (pars L1) -> forall i, (n <= i)%nat -> vnth b i == 0) ->
  (forall b, In b (lins L1) -> forall i, (n <= i)%nat -> vnth b i == 0) ->
  (den (n + n2) {| pt := vadd (pt L1) (vshift n (pt L2));
                   pars := pars L1 ++ map (vshift n) (pars L2);
                   lins := lins L1 ++ map (vshift n) (lins L2) |} x <->
   den n L1 x /\ den n2 L2 (fun i => x (n + i)%nat)).
Proof.
  intros Zp Zb Zl. pose proof (vshift_linear n) as L. unfold den. cbn [pt pars lins]. split.
  - intros [u' [v' [Hu [Hv Hx]]]].
    apply span_app_inv in Hu. destruct Hu as [u1 [w2 [Hu1 [Hw2 Eu]]]].
    apply span_app_inv in Hv. destruct Hv as [v1 [z2 [Hv1 [Hz2 Ev]]]].
    apply (span_map_inv _ _ _ _ L) in Hw2. destruct Hw2 as [u2 [Hu2 Eu2]].
    apply (span_map_inv _ _ _ _ L) in Hz2. destruct Hz2 as [v2 [Hv2 Ev2]].
    split.
    + exists u1, v1. split; [exact Hu1|]. split; [exact Hv1|].
      intros i Hi. rewrite (Hx i) by lia. vpush. rewrite (Eu i), (Ev i). vpush.
      rewrite (Eu2 i), (Ev2 i), !vnth_shift. destruct (Nat.ltb_spec i n); [ring|lia].
    + exists u2, v2. split; [exact Hu2|]. split; [exact Hv2|].
      intros i Hi. cbn beta. rewrite (Hx (n + i)%nat) by lia. vpush. rewrite (Eu (n + i)%nat), (Ev (n + i)%nat). vpush.
      rewrite (Eu2 (n + i)%nat), (Ev2 (n + i)%nat), !vnth_shift.
      destruct (Nat.ltb_spec (n + i) n); [lia|]. replace (n + i - n)%nat with i by lia.
      rewrite (Zp (n + i)%nat) by lia.
      rewrite (span_coord0 _ _ u1 (n + i)%nat (fun b Hb => Zb b Hb _ (Nat.le_add_r n i)) Hu1).
      rewrite (span_coord0 _ _ v1 (n + i)%nat (fun b Hb => Zl b Hb _ (Nat.le_add_r n i)) Hv1).
      ring.
  - intros [[u1 [v1 [Hu1 [Hv1 H1]]]] [u2 [v2 [Hu2 [Hv2 H2]]]]].
    exists (vadd u1 (vshift n u2)), (vadd v1 (vshift n v2)).
    split; [apply span_app; [exact Hu1|now apply span_map]|].
    split; [apply span_app; [exact Hv1|now apply span_map]|].
    intros i Hi. vpush. rewrite !vnth_shift. destruct (Nat.ltb_spec i n) as [Hlt|Hge].
    + rewrite (H1 i Hlt). vpush. ring.
    + assert (X : x i == vnth (vadd (pt L2) (vadd u2 v2)) (i - n)).
      { specialize (H2 (i - n)%nat). cbn beta in H2. replace (n + (i - n))%nat with i in H2 by lia.
        apply H2. lia. }
      rewrite X. vpush. rewrite (Zp i Hge).
      rewrite (span_coord0 _ _ u1 i (fun b Hb => Zb b Hb _ Hge) Hu1).
      rewrite (span_coord0 _ _ v1 i (fun b Hb => Zl b Hb _ Hge) Hv1).
      ring.
Qed.

(* cartesian product.  Side condition: the generators of G1 are null from coordinate n on (otherwise
   they would spill into the coordinates of G2); nothing is required of G2 *)
Theorem concat_spec : forall n n2 G1 G2 x, dim_le n G1 ->
  (in_qgens (n + n2) (concat n G1 G2) x <->
   in_qgens n G1 x /\ in_qgens n2 G2 (fun i => x (n + i)%nat)).
Proof.
  intros n n2 G1 G2 x H1. unfold concat.
  destruct (alat_of G1) as [L1|] eqn:E1.
  - destruct (alat_of G2) as [L2|] eqn:E2.
    + rewrite (alat_of_some n G1 L1 E1), (alat_of_some n2 G2 L2 E2).
      destruct (dim_le_alat n G1 L1 H1 E1) as [Zp [Zb Zl]].
      rewrite <- (den_concat n n2 L1 L2 x Zp Zb Zl), den_qgens.
      unfold qgens_of. cbn [pt pars lins]. rewrite !map_app, !map_map, <- app_assoc. reflexivity.
    + split; [intros H; destruct (in_qgens_nil _ _ H)|].
      intros [_ H]. destruct (alat_of_none _ _ E2 _ H).
  - split; [intros H; destruct (in_qgens_nil _ _ H)|].
    intros [H _]. destruct (alat_of_none _ _ E1 _ H).
Qed.

(* ---------- 2. map_dims ---------- *)
(* the last index of pf (counted from s) that is mapped to j *)
Fixpoint rfind (pf : list (option nat)) (s j : nat) : option nat :=
  match pf with
  | [] => None
  | p :: pf' =>
      match rfind pf' (S s) j with
      | Some i => Some i
      | None => match p with
                | Some j' => if Nat.eqb j j' then Some s else None
                | None => None
                end
      end
  end.

Lemma vnth_vmap_from : forall pf s v acc j,
  vnth (vmap_from s pf v acc) j == match rfind pf s j with Some i => vnth v i | None => vnth acc j end.
Proof.
  induction pf as [|p pf IH]; intros s v acc j; cbn [vmap_from rfind]; [reflexivity|].
  destruct p as [j'|].
  - rewrite IH. destruct (rfind pf (S s) j); [reflexivity|]. rewrite vnth_upd.
    destruct (Nat.eqb j j'); reflexivity.
  - rewrite IH. destruct (rfind pf (S s) j); reflexivity.
Qed.

Lemma rfind_some : forall pf s j i, rfind pf s j = Some i -> (s <= i)%nat /\ nth (i - s) pf None = Some j.
Proof.
  induction pf as [|p pf IH]; intros s j i; cbn [rfind]; [discriminate|].
  destruct (rfind pf (S s) j) as [i'|] eqn:E.
  - intros [= <-]. destruct (IH _ _ _ E) as [Hle Hn]. split; [lia|].
    replace (i' - s)%nat with (S (i' - S s)) by lia. exact Hn.
  - destruct p as [j'|]; [|discriminate]. destruct (Nat.eqb_spec j j') as [->|]; [|discriminate].
    intros [= <-]. split; [lia|]. rewrite Nat.sub_diag. reflexivity.
Qed.

Lemma rfind_none : forall pf s j, rfind pf s j = None -> forall i, nth i pf None <> Some j.
Proof.
  induction pf as [|p pf IH]; intros s j; cbn [rfind].
  - intros _ [|i]; discriminate.
  - destruct (rfind pf (S s) j) as [i'|] eqn:E; [discriminate|]. intros Hp [|i]; cbn [nth].
    + destruct p as [j'|]; [|discriminate]. destruct (Nat.eqb_spec j j') as [->|Hne]; [discriminate|].
      intros [= ->]. now apply Hne.
    + exact (IH _ _ E i).
Qed.

Definition pf_inj (pf : list (option nat)) : Prop :=
  forall i1 i2 j, nth i1 pf None = Some j -> nth i2 pf None = Some j -> i1 = i2.

Lemma vnth_vmap pf v i j : pf_inj pf -> nth i pf None = Some j -> vnth (vmap pf v) j == vnth v i.
Proof.
  intros Hinj H. unfold vmap. rewrite vnth_vmap_from. destruct (rfind pf 0 j) as [i'|] eqn:E.
  - apply rfind_some in E. destruct E as [_ E]. rewrite Nat.sub_0_r in E.
    rewrite (Hinj i' i j E H). reflexivity.
  - exfalso. exact (rfind_none _ _ _ E i H).
Qed.

Lemma vmap_linear pf : linear (vmap pf).
Proof.
  split.
  - intros u v E j. unfold vmap. rewrite !vnth_vmap_from. destruct (rfind pf 0 j); [apply E|reflexivity].
  - intros u v j. rewrite vnth_add. unfold vmap. rewrite !vnth_vmap_from.
    destruct (rfind pf 0 j); [apply vnth_add|rewrite vnth_nil; ring].
  - intros k u j. rewrite vnth_scale. unfold vmap. rewrite !vnth_vmap_from.
    destruct (rfind pf 0 j); [apply vnth_scale|rewrite vnth_nil; ring].
  - intros j. unfold vmap. rewrite vnth_vmap_from. destruct (rfind pf 0 j); rewrite ?vnth_zero, ?vnth_nil; reflexivity.
Qed.

Lemma points_map_gen pf G : points (map (map_gen pf) G) = map (vmap pf) (points G).
Proof. induction G as [|[v|v|v] G IH]; cbn [map map_gen points]; rewrite ?IH; reflexivity. Qed.
Lemma params_map_gen pf G : params (map (map_gen pf) G) = map (vmap pf) (params G).
Proof. induction G as [|[v|v|v] G IH]; cbn [map map_gen params]; rewrite ?IH; reflexivity. Qed.
Lemma glines_map_gen pf G : glines (map (map_gen pf) G) = map (vmap pf) (glines G).
Proof. induction G as [|[v|v|v] G IH]; cbn [map map_gen glines]; rewrite ?IH; reflexivity. Qed.

(* map_space_dimensions: pf is a partial injective function from the old dimensions 0 .. n-1
   (length pf <= n; dimensions beyond length pf are unmapped) ONTO the new dimensions 0 .. m-1
   (so m = 1 + max image, as PPL requires) *)
Theorem map_dims_spec : forall n m pf G y,
  (length pf <= n)%nat ->
  pf_inj pf ->
  (forall i j, nth i pf None = Some j -> (j < m)%nat) ->
  (forall j, (j < m)%nat -> exists i, nth i pf None = Some j) ->
  (in_qgens m (map_dims pf G) y <->
   exists x, in_qgens n G x /\ forall i j, nth i pf None = Some j -> y j == x i).
Proof.
  intros n m pf G y Hlen Hinj Hran Hsur. unfold map_dims. pose proof (vmap_linear pf) as L. split.
  - intros [a' [u' [v' [Ha [Hu [Hv Hy]]]]]].
    rewrite points_map_gen in Ha. rewrite params_map_gen in Hu. rewrite glines_map_gen in Hv.
    apply (iaff_map_inv _ _ _ L) in Ha. destruct Ha as [a [Ha Ea]].
    apply (span_map_inv _ _ _ _ L) in Hu. destruct Hu as [u [Hu Eu]].
    apply (span_map_inv _ _ _ _ L) in Hv. destruct Hv as [v [Hv Ev]].
    exists (vnth (vadd a (vadd u v))). split.
    + exists a, u, v. split; [exact Ha|]. split; [exact Hu|]. split; [exact Hv|apply peq_refl].
    + intros i j Hij. rewrite (Hy j (Hran i j Hij)). vpush. rewrite (Ea j), (Eu j), (Ev j).
      rewrite !(vnth_vmap pf _ i j Hinj Hij). reflexivity.
  - intros [x [[a [u [v [Ha [Hu [Hv Hx]]]]]] Hyx]].
    exists (vmap pf a), (vmap pf u), (vmap pf v).
    rewrite points_map_gen, params_map_gen, glines_map_gen.
    split; [now apply iaff_map|]. split; [now apply span_map|]. split; [now apply span_map|].
    intros j Hj. destruct (Hsur j Hj) as [i Hij].
    assert (Hi : (i < n)%nat).
    { destruct (Nat.lt_ge_cases i (length pf)) as [Hlt|Hge]; [lia|].
      rewrite (nth_overflow _ _ Hge) in Hij. discriminate. }
    rewrite (Hyx i j Hij), (Hx i Hi). vpush.
    rewrite !(vnth_vmap pf _ i j Hinj Hij). reflexivity.
Qed.

Print Assumptions concat_spec.
Print Assumptions map_dims_spec.
(* ---------- 5. shift_cg, rename_cg, subsumes ---------- *)
Lemma dotfz_shift : forall k a x,
  dotf (map inject_Z (repeat 0%Z k ++ a)) x == dotf (map inject_Z a) (fun i => x (k + i)%nat).
Proof.
  induction k as [|k IH]; intros a x; cbn [repeat app map dotf].
  - apply dotf_ext. intros i. reflexivity.
  - rewrite IH. change (inject_Z 0) with 0. rewrite Qmult_0_l, Qplus_0_l.
    apply dotf_ext. intros i. reflexivity.
Qed.

(* a congruence of the second factor of a concatenation, read in the product space *)
Theorem shift_cg_spec : forall k c x,
  sat_cg (shift_cg k c) x <-> sat_cg c (fun i => x (k + i)%nat).
Proof.
  intros k c x. unfold sat_cg, shift_cg; cbn [cg_a cg_b cg_m].
  split; intros [mu H]; exists mu; [rewrite <- dotfz_shift|rewrite dotfz_shift]; exact H.
Qed.

Lemma nth_zupd c : forall k q i, nth i (zupd c k q) 0%Z = if Nat.eqb i k then q else nth i c 0%Z.
Proof.
  induction c as [|y c IH]; intros k.
  - induction k as [|k IHk]; intros q i; cbn [zupd].
    + destruct i as [|[|i]]; reflexivity.
    + destruct i as [|i]; [reflexivity|]. cbn [nth Nat.eqb]. rewrite IHk.
      destruct (Nat.eqb i k); [reflexivity|]. destruct i; reflexivity.
  - intros q i. destruct k as [|k]; cbn [zupd].
    + destruct i; reflexivity.
    + destruct i; [reflexivity|]. cbn [nth Nat.eqb]. apply IH.
Qed.

Lemma dotfz_zupd : forall c j q x,
  dotf (map inject_Z (zupd c j q)) x ==
  dotf (map inject_Z c) x + (inject_Z q - inject_Z (nth j c 0%Z)) * x j.
Proof.
  induction c as [|a c IH].
  - induction j as [|j IHj]; intros q x; cbn [zupd map dotf nth].
    + change (inject_Z 0) with 0. ring.
    + rewrite IHj. cbn [map dotf]. destruct j; cbn [nth]; change (inject_Z 0) with 0; ring.
  - intros [|j] q x; cbn [zupd map dotf nth].
    + ring.
    + rewrite IH. ring.
Qed.

(* renaming variable k as j.  Side conditions: j is another variable and does not occur in c
   (in expand_space_dimension j is a fresh dimension) *)
Theorem rename_cg_spec : forall k j c x, j <> k -> nth j (cg_a c) 0%Z = 0%Z ->
  (sat_cg (rename_cg k j c) x <-> sat_cg c (upd x k (x j))).
Proof.
  intros k j c x Hjk Hj. unfold sat_cg, rename_cg; cbn [cg_a cg_b cg_m].
  assert (E : dotf (map inject_Z (zupd (zupd (cg_a c) k 0%Z) j (nth k (cg_a c) 0%Z))) x ==
              dotf (map inject_Z (cg_a c)) (upd x k (x j))).
  { rewrite dotfz_zupd, nth_zupd, dotfz_upd. destruct (Nat.eqb_spec j k); [contradiction|].
    rewrite Hj. change (inject_Z 0) with 0. ring. }
  split; intros [mu H]; exists mu; [rewrite <- E|rewrite E]; exact H.
Qed.

(* a positive answer of subsumes: adding the generator does not change the grid *)
Theorem subsumes_sound : forall n G g, subsumes n G g = Ans true ->
  forall x, in_qgens n (add_gen G g) x <-> in_qgens n G x.
Proof.
  intros n G g. unfold subsumes. destruct (is_empty_b G); [discriminate|]. intros H x. split.
  - now apply gens_incl_sound.
  - apply add_gen_sound.
Qed.

Print Assumptions affine_preimage_spec.
Print Assumptions add_gen_param_spec.
Print Assumptions add_gen_line_spec.
Print Assumptions add_gen_point_sound.
Print Assumptions add_gen_point_mem.
Print Assumptions add_gen_sound.
Print Assumptions shift_cg_spec.
Print Assumptions rename_cg_spec.
Print Assumptions subsumes_sound.
Print Assumptions add_gen_point_spec.
