(* C05 -- set-level exactness of further reference operators on generator systems:
   unconstrain, remove_higher, add_dims_embed, time_elapse. *)
From Coq Require Import List ZArith QArith Lia Lqa Bool Setoid Morphisms.
Require Import PPLV.Grid.QVec PPLV.Grid.IntLin PPLV.Grid.GridSem PPLV.Grid.GridRef PPLV.Grid.GridOps2.
Import ListNotations.
Local Open Scope Q_scope.

(* ---------- auxiliary facts ---------- *)
Lemma span_coord0 K bs w i : (forall b, In b bs -> vnth b i == 0) -> span K bs w -> vnth w i == 0.
Proof.
  intros H Hw. induction Hw as [|b Hb|u v _ IHu _ IHv|k u Hk _ IHu|u v E _ IHu].
  - apply vnth_zero.
  - now apply H.
  - vpush. rewrite IHu, IHv. ring.
  - vpush. rewrite IHu. ring.
  - rewrite <- (E i). exact IHu.
Qed.

Lemma iaff_points_nonempty P a : iaff P a -> P <> [].
Proof. intros H E. subst P. exact (iaff_nil a H). Qed.

Lemma is_empty_false G a : iaff (points G) a -> is_empty_b G = false.
Proof.
  intros H. unfold is_empty_b. destruct (points G) as [|p0 ps]; [destruct (iaff_nil a H)|reflexivity].
Qed.

Lemma in_qgens_nil n x : ~ in_qgens n [] x.
Proof. intros [a [u [v [Ha _]]]]. exact (iaff_nil a Ha). Qed.

(* ---------- 1. unconstrain ---------- *)
(* the hypothesis k < n is not needed by the proof (for k >= n both sides are just in_qgens n G x);
   it is kept because the operator is only used that way *)
Theorem unconstrain_spec : forall n k G x, (k < n)%nat ->
  (in_qgens n (unconstrain k G) x <-> exists v, in_qgens n G (upd x k v)).
Proof.
  intros n k G x _. unfold unconstrain, add_gen. split.
  - destruct (is_empty_b G) eqn:EG; [intros H; destruct (in_qgens_nil n x H)|].
    intros [a [u [v' [Ha [Hu [Hv Hx]]]]]].
    rewrite points_app, params_app, glines_app in *. cbn [points params glines] in *.
    rewrite app_nil_r in Ha, Hu.
    apply span_app_inv in Hv. destruct Hv as [v [w [Hv [Hw E]]]].
    assert (W : forall i, i <> k -> vnth w i == 0).
    { intros i Hi. apply (span_coord0 anyQ [unit_vec k] w i); [|exact Hw].
      intros b [<-|[]]. rewrite vnth_unit. destruct (Nat.eqb_spec i k); [contradiction|reflexivity]. }
    exists (vnth (vadd a (vadd u v)) k). exists a, u, v.
    split; [exact Ha|]. split; [exact Hu|]. split; [exact Hv|].
    intros i Hi. unfold upd. destruct (Nat.eqb_spec i k) as [->|Hne]; [reflexivity|].
    rewrite (Hx i Hi). vpush. rewrite (E i). vpush. rewrite (W i Hne). ring.
  - intros [v0 [a [u [w [Ha [Hu [Hw Hx]]]]]]].
    rewrite (is_empty_false G a Ha).
    set (c := x k - vnth (vadd a (vadd u w)) k).
    exists a, u, (vadd w (vscale c (unit_vec k))).
    rewrite points_app, params_app, glines_app. cbn [points params glines]. rewrite !app_nil_r.
    split; [exact Ha|]. split; [exact Hu|].
    split; [apply span_app; [exact Hw|]; apply sp_scale; [exact I|]; apply sp_in; now left|].
    intros i Hi. vpush. rewrite vnth_unit. destruct (Nat.eqb_spec i k) as [->|Hne].
    + unfold c. vpush. ring.
    + specialize (Hx i Hi). unfold upd in Hx. destruct (Nat.eqb_spec i k) as [|_]; [contradiction|].
      rewrite Hx. vpush. ring.
Qed.

(* ---------- 2. remove_higher ---------- *)
Lemma vnth_firstn m : forall v i, vnth (firstn m v) i = if (i <? m)%nat then vnth v i else 0.
Proof.
  induction m as [|m IH]; intros v i.
  - cbn [firstn]. rewrite vnth_nil. reflexivity.
  - destruct v as [|y v].
    + cbn [firstn]. rewrite vnth_nil. destruct (i <? S m)%nat; reflexivity.
    + cbn [firstn]. destruct i as [|i]; [reflexivity|].
      unfold vnth in *. cbn [nth]. rewrite IH. reflexivity.
Qed.

Lemma firstn_linear m : linear (firstn m).
Proof.
  split.
  - intros u v E i. rewrite !vnth_firstn. destruct (i <? m)%nat; [apply E|reflexivity].
  - intros u v i. vpush. rewrite !vnth_firstn. destruct (i <? m)%nat; vpush; ring.
  - intros k u i. vpush. rewrite !vnth_firstn. destruct (i <? m)%nat; vpush; ring.
  - intros i. rewrite vnth_firstn. destruct (i <? m)%nat; [reflexivity|symmetry; apply vnth_zero].
Qed.

Lemma phi_vsub phi p q : linear phi -> veq (phi (vsub p q)) (vsub (phi p) (phi q)).
Proof.
  intros L. unfold vsub. rewrite (lin_add _ L), (lin_scale _ L). reflexivity.
Qed.

Lemma iaff_map phi P a : linear phi -> iaff P a -> iaff (map phi P) (phi a).
Proof.
  intros L Ha. induction Ha as [p Hp|a p q _ IH Hp Hq|a a' E _ IH].
  - apply ia_pt. now apply in_map.
  - eapply ia_eq; [|apply (ia_move _ (phi a) (phi p) (phi q) IH); now apply in_map].
    rewrite (lin_add _ L), (phi_vsub phi p q L). reflexivity.
  - eapply ia_eq; [apply (lin_eq _ L); exact E|exact IH].
Qed.

Lemma iaff_map_inv phi P b : linear phi -> iaff (map phi P) b -> exists a, iaff P a /\ veq b (phi a).
Proof.
  intros L Hb. induction Hb as [p Hp|b p q _ [a [Ha Ea]] Hp Hq|b b' E _ [a [Ha Ea]]].
  - apply in_map_iff in Hp. destruct Hp as [p0 [<- Hp0]]. exists p0. split; [now apply ia_pt|reflexivity].
  - apply in_map_iff in Hp. destruct Hp as [p0 [<- Hp0]].
    apply in_map_iff in Hq. destruct Hq as [q0 [<- Hq0]].
    exists (vadd a (vsub p0 q0)). split; [now apply ia_move|].
    rewrite (lin_add _ L), (phi_vsub phi p0 q0 L), Ea. reflexivity.
  - exists a. split; [exact Ha|]. rewrite <- E. exact Ea.
Qed.

Lemma points_trunc m G : points (map (trunc_gen m) G) = map (firstn m) (points G).
Proof. induction G as [|[v|v|v] G IH]; cbn [map trunc_gen points]; rewrite ?IH; reflexivity. Qed.
Lemma params_trunc m G : params (map (trunc_gen m) G) = map (firstn m) (params G).
Proof. induction G as [|[v|v|v] G IH]; cbn [map trunc_gen params]; rewrite ?IH; reflexivity. Qed.
Lemma glines_trunc m G : glines (map (trunc_gen m) G) = map (firstn m) (glines G).
Proof. induction G as [|[v|v|v] G IH]; cbn [map trunc_gen glines]; rewrite ?IH; reflexivity. Qed.

Theorem remove_higher_spec : forall n m G x, (m <= n)%nat ->
  (in_qgens m (remove_higher m G) x <-> exists y, in_qgens n G y /\ peq m x y).
Proof.
  intros n m G x Hmn. unfold remove_higher. pose proof (firstn_linear m) as L. split.
  - intros [a' [u' [v' [Ha [Hu [Hv Hx]]]]]].
    rewrite points_trunc in Ha. rewrite params_trunc in Hu. rewrite glines_trunc in Hv.
    apply (iaff_map_inv _ _ _ L) in Ha. destruct Ha as [a [Ha Ea]].
    apply (span_map_inv _ _ _ _ L) in Hu. destruct Hu as [u [Hu Eu]].
    apply (span_map_inv _ _ _ _ L) in Hv. destruct Hv as [v [Hv Ev]].
    exists (vnth (vadd a (vadd u v))). split.
    + exists a, u, v. split; [exact Ha|]. split; [exact Hu|]. split; [exact Hv|apply peq_refl].
    + intros i Hi. rewrite (Hx i Hi). vpush. rewrite (Ea i), (Eu i), (Ev i), !vnth_firstn.
      destruct (Nat.ltb_spec i m) as [_|Hge]; [reflexivity|lia].
  - intros [y [[a [u [v [Ha [Hu [Hv Hy]]]]]] Hxy]].
    exists (firstn m a), (firstn m u), (firstn m v).
    rewrite points_trunc, params_trunc, glines_trunc.
    split; [now apply iaff_map|]. split; [now apply span_map|]. split; [now apply span_map|].
    intros i Hi. rewrite (Hxy i Hi), (Hy i) by lia. vpush. rewrite !vnth_firstn.
    destruct (Nat.ltb_spec i m) as [_|Hge]; [reflexivity|lia].
Qed.

(* ---------- 3. add_dims_embed ---------- *)
(* no well-formedness of G is needed: in_qgens n only reads the first n coordinates of the generators,
   and the new lines make the coordinates n .. n+m-1 free whatever G has there *)
Lemma points_embed n m : points (embed_lines n m) = [].
Proof. unfold embed_lines. induction (seq n m) as [|i l IH]; cbn [map points]; auto. Qed.
Lemma params_embed n m : params (embed_lines n m) = [].
Proof. unfold embed_lines. induction (seq n m) as [|i l IH]; cbn [map params]; auto. Qed.
Lemma glines_embed n m : glines (embed_lines n m) = map unit_vec (seq n m).
Proof. unfold embed_lines. induction (seq n m) as [|i l IH]; cbn [map glines]; rewrite ?IH; auto. Qed.

Lemma embed_span n : forall m (y : point), exists w, qspan (map unit_vec (seq n m)) w /\
  forall i, vnth w i == if ((n <=? i) && (i <? n + m))%nat then y i else 0.
Proof.
  induction m as [|m IH]; intros y.
  - exists vzero. split; [constructor|]. intros i. rewrite vnth_zero.
    destruct (Nat.leb_spec n i), (Nat.ltb_spec i (n + 0)); cbn [andb]; try reflexivity. lia.
  - destruct (IH y) as [w [Hw Ew]].
    exists (vadd w (vscale (y (n + m)%nat) (unit_vec (n + m)))). split.
    + rewrite seq_S, map_app. cbn [map]. apply span_app; [exact Hw|].
      apply sp_scale; [exact I|]. apply sp_in. now left.
    + intros i. vpush. rewrite (Ew i), vnth_unit.
      destruct (Nat.eqb_spec i (n + m)) as [->|Hne].
      * destruct (Nat.leb_spec n (n + m)), (Nat.ltb_spec (n + m) (n + m)), (Nat.ltb_spec (n + m) (n + S m));
          cbn [andb]; try lia. ring.
      * destruct (Nat.leb_spec n i), (Nat.ltb_spec i (n + m)), (Nat.ltb_spec i (n + S m));
          cbn [andb]; try lia; ring.
Qed.

Theorem add_dims_embed_spec : forall n m G x,
  in_qgens (n + m) (add_dims_embed n m G) x <-> in_qgens n G x.
Proof.
  intros n m G x. unfold add_dims_embed. split.
  - destruct (is_empty_b G) eqn:EG; [intros H; destruct (in_qgens_nil _ x H)|].
    intros [a [u [v' [Ha [Hu [Hv Hx]]]]]].
    rewrite points_app, params_app, glines_app, points_embed, params_embed, glines_embed in *.
    rewrite app_nil_r in Ha, Hu.
    apply span_app_inv in Hv. destruct Hv as [v [w [Hv [Hw E]]]].
    exists a, u, v. split; [exact Ha|]. split; [exact Hu|]. split; [exact Hv|].
    intros i Hi. rewrite (Hx i) by lia. vpush. rewrite (E i). vpush.
    rewrite (span_coord0 anyQ (map unit_vec (seq n m)) w i); [ring| |exact Hw].
    intros b Hb. apply in_map_iff in Hb. destruct Hb as [j [<- Hj]]. apply in_seq in Hj.
    rewrite vnth_unit. destruct (Nat.eqb_spec i j); [lia|reflexivity].
  - intros [a [u [v [Ha [Hu [Hv Hx]]]]]].
    rewrite (is_empty_false G a Ha).
    destruct (embed_span n m (fun i => x i - vnth (vadd a (vadd u v)) i)) as [w [Hw Ew]].
    exists a, u, (vadd v w).
    rewrite points_app, params_app, glines_app, points_embed, params_embed, glines_embed, !app_nil_r.
    split; [exact Ha|]. split; [exact Hu|]. split; [now apply span_app|].
    intros i Hi. vpush. rewrite (Ew i).
    destruct (Nat.leb_spec n i), (Nat.ltb_spec i (n + m)); cbn [andb]; try lia.
    + vpush. ring.
    + rewrite (Hx i) by lia. vpush. ring.
Qed.

(* ---------- 4. time_elapse ---------- *)
(* integer combinations of the points of a set S of points of dimension n (equality up to peq n) *)
Inductive zcomb (n : nat) (S : point -> Prop) : point -> Prop :=
| zc_zero : zcomb n S (fun _ => 0)
| zc_in q : S q -> zcomb n S q
| zc_add z1 z2 : zcomb n S z1 -> zcomb n S z2 -> zcomb n S (fun i => z1 i + z2 i)
| zc_scale (k : Z) z : zcomb n S z -> zcomb n S (fun i => inject_Z k * z i)
| zc_eq z z' : peq n z z' -> zcomb n S z -> zcomb n S z'.

Lemma points_to_dir G : points (map to_dir G) = [].
Proof. induction G as [|[v|v|v] G IH]; cbn [map to_dir points]; auto. Qed.
Lemma glines_to_dir G : glines (map to_dir G) = glines G.
Proof. induction G as [|[v|v|v] G IH]; cbn [map to_dir glines]; rewrite ?IH; auto. Qed.
Lemma params_to_dir b G : In b (params (map to_dir G)) <-> In b (points G) \/ In b (params G).
Proof.
  induction G as [|[v|v|v] G IH]; cbn [map to_dir points params In]; [tauto| | |]; rewrite ?IH; tauto.
Qed.

Lemma iaff_zspan P bs a : (forall p, In p P -> zspan bs p) -> iaff P a -> zspan bs a.
Proof.
  intros H Ha. induction Ha as [p Hp|a p q _ IH Hp Hq|a a' E _ IH].
  - now apply H.
  - unfold vsub. apply sp_add; [exact IH|]. apply sp_add; [now apply H|].
    apply sp_scale; [exists (-1)%Z; reflexivity|now apply H].
  - eapply sp_eq; eassumption.
Qed.

Lemma zcomb_dirs n G2 z : zcomb n (in_qgens n G2) z ->
  exists u v, zspan (params (map to_dir G2)) u /\ qspan (glines G2) v /\ peq n z (vnth (vadd u v)).
Proof.
  intros Hz. induction Hz as [|q [a [u [v [Ha [Hu [Hv Hq]]]]]]
                               |z1 z2 _ [u1 [v1 [Hu1 [Hv1 E1]]]] _ [u2 [v2 [Hu2 [Hv2 E2]]]]
                               |k z _ [u1 [v1 [Hu1 [Hv1 E1]]]]|z z' E _ [u1 [v1 [Hu1 [Hv1 E1]]]]].
  - exists vzero, vzero. split; [constructor|]. split; [constructor|]. intros i _. vpush. ring.
  - exists (vadd a u), v. split; [|split; [exact Hv|]].
    + apply sp_add.
      * apply (iaff_zspan (points G2)); [|exact Ha]. intros p Hp. apply sp_in. apply params_to_dir. now left.
      * eapply span_mono; [|exact Hu]. intros b Hb. apply sp_in. apply params_to_dir. now right.
    + intros i Hi. rewrite (Hq i Hi). vpush. ring.
  - exists (vadd u1 u2), (vadd v1 v2). split; [now apply sp_add|]. split; [now apply sp_add|].
    intros i Hi. cbn beta. rewrite (E1 i Hi), (E2 i Hi). vpush. ring.
  - exists (vscale (inject_Z k) u1), (vscale (inject_Z k) v1).
    split; [apply sp_scale; [apply isZ_inj|exact Hu1]|]. split; [apply sp_scale; [exact I|exact Hv1]|].
    intros i Hi. cbn beta. rewrite (E1 i Hi). vpush. ring.
  - exists u1, v1. split; [exact Hu1|]. split; [exact Hv1|].
    eapply peq_trans; [apply peq_sym; exact E|exact E1].
Qed.

Section Elapse.
Variable n : nat.
Variable G2 : list qgen.
Variable b0 : vec.
Hypothesis Hb0 : In b0 (points G2).

Lemma elapse_mem u v : zspan (params G2) u -> qspan (glines G2) v ->
  in_qgens n G2 (vnth (vadd b0 (vadd u v))).
Proof.
  intros Hu Hv. exists b0, u, v. split; [now apply ia_pt|]. split; [exact Hu|]. split; [exact Hv|apply peq_refl].
Qed.

Lemma elapse_diff u v : zspan (params G2) u -> qspan (glines G2) v ->
  zcomb n (in_qgens n G2) (vnth (vadd u v)).
Proof.
  intros Hu Hv.
  eapply zc_eq; [|apply (zc_add n _ _ _ (zc_in n _ _ (elapse_mem u v Hu Hv))
                          (zc_scale n _ (-1)%Z _ (zc_in n _ _ (elapse_mem vzero vzero (sp_zero _ _) (sp_zero _ _)))))].
  intros i _. cbn beta. vpush. change (inject_Z (-1)) with (-(1)). ring.
Qed.

Lemma elapse_zspan u : zspan (params (map to_dir G2)) u -> zcomb n (in_qgens n G2) (vnth u).
Proof.
  intros Hu. induction Hu as [|b Hb|u v _ IHu _ IHv|k u [z Hk] _ IHu|u v E _ IHu].
  - eapply zc_eq; [|apply zc_zero]. intros i _. cbn beta. rewrite vnth_zero. reflexivity.
  - apply params_to_dir in Hb. destruct Hb as [Hb|Hb].
    + apply zc_in. exists b, vzero, vzero. split; [now apply ia_pt|]. split; [constructor|]. split; [constructor|].
      intros i _. vpush. ring.
    + eapply zc_eq; [|apply (elapse_diff b vzero); [now apply sp_in|constructor]].
      intros i _. vpush. ring.
  - eapply zc_eq; [|apply (zc_add n _ _ _ IHu IHv)]. intros i _. cbn beta. vpush. reflexivity.
  - eapply zc_eq; [|apply (zc_scale n _ z _ IHu)]. intros i _. cbn beta. vpush. rewrite Hk. reflexivity.
  - eapply zc_eq; [|exact IHu]. intros i _. apply E.
Qed.
End Elapse.

(* the grid generated by  { p + mu q | p in X, q in Y, mu integer }  is  X + (integer combinations of
   points of Y); empty as soon as X or Y is empty *)
Theorem time_elapse_spec : forall n G1 G2 x,
  in_qgens n (time_elapse G1 G2) x <->
  (exists q, in_qgens n G2 q) /\
  (exists p z, in_qgens n G1 p /\ zcomb n (in_qgens n G2) z /\ peq n x (fun i => p i + z i)).
Proof.
  intros n G1 G2 x. unfold time_elapse. split.
  - destruct (is_empty_b G1 || is_empty_b G2) eqn:EE; [intros H; destruct (in_qgens_nil n x H)|].
    apply orb_false_iff in EE. destruct EE as [_ E2].
    intros [a [u' [v' [Ha [Hu [Hv Hx]]]]]].
    rewrite points_app, params_app, glines_app, points_to_dir, glines_to_dir in *. rewrite app_nil_r in Ha.
    apply span_app_inv in Hu. destruct Hu as [u1 [u2 [Hu1 [Hu2 Eu]]]].
    apply span_app_inv in Hv. destruct Hv as [v1 [v2 [Hv1 [Hv2 Ev]]]].
    unfold is_empty_b in E2. destruct (points G2) as [|b0 ps] eqn:EP; [discriminate|].
    assert (Hb0 : In b0 (points G2)) by (rewrite EP; now left).
    split.
    + exists (vnth (vadd b0 (vadd vzero vzero))). apply (elapse_mem n G2 b0 Hb0); constructor.
    + exists (vnth (vadd a (vadd u1 v1))), (vnth (vadd u2 v2)). split; [|split].
      * exists a, u1, v1. split; [exact Ha|]. split; [exact Hu1|]. split; [exact Hv1|apply peq_refl].
      * eapply zc_eq; [|apply (zc_add n _ _ _ (elapse_zspan n G2 b0 Hb0 u2 Hu2)
                                 (elapse_diff n G2 b0 Hb0 vzero v2 (sp_zero _ _) Hv2))].
        intros i _. cbn beta. vpush. ring.
      * intros i Hi. rewrite (Hx i Hi). cbn beta. vpush. rewrite (Eu i), (Ev i). vpush. ring.
  - intros [[q [a2 [_ [_ [Ha2 _]]]]] [p [z [[a [u1 [v1 [Ha [Hu1 [Hv1 Hp]]]]]] [Hz Hx]]]]].
    rewrite (is_empty_false G1 a Ha), (is_empty_false G2 a2 Ha2). cbn [orb].
    destruct (zcomb_dirs n G2 z Hz) as [u2 [v2 [Hu2 [Hv2 Ez]]]].
    exists a, (vadd u1 u2), (vadd v1 v2).
    rewrite points_app, params_app, glines_app, points_to_dir, glines_to_dir, app_nil_r.
    split; [exact Ha|]. split; [now apply span_app|]. split; [now apply span_app|].
    intros i Hi. rewrite (Hx i Hi). cbn beta. rewrite (Hp i Hi), (Ez i Hi). vpush. ring.
Qed.

Print Assumptions unconstrain_spec.
Print Assumptions remove_higher_spec.
Print Assumptions add_dims_embed_spec.
Print Assumptions time_elapse_spec.
