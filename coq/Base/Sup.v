(* Exact supremum of a linear expression over the solution set of a system (exact LP):
   project the set onto a fresh coordinate z = e(x) by exact elimination, then read the resulting
   one-dimensional system.  The answer distinguishes: empty set, unbounded above, finite supremum
   attained, finite supremum not attained (strict constraints). *)
From Coq Require Import List ZArith QArith Qminmax Lia Lqa Bool Setoid Morphisms.
Require Import PPLV.Base.FM PPLV.Base.Sys PPLV.Base.Gens PPLV.Poly.PolyOps.
Import ListNotations.
Local Open Scope Q_scope.

Inductive supres := SupEmpty | SupUnbounded | SupVal (m : Q) (attained : bool).

(* ---------- constraints mentioning only coordinate n ---------- *)
Definition only_var_b (n : nat) (l : list Z) : bool :=
  all_zero (vadd l (vscale (- nth n l 0%Z) (unitv n))).

Lemma dot_only n l p : only_var_b n l = true -> dot l p 0 == inject_Z (nth n l 0%Z) * p n.
Proof.
  intros H. pose proof (all_zero_dot _ p 0%nat H) as E.
  rewrite dot_vadd, dot_vscale, dot_unitv, inject_Z_opp in E. lra.
Qed.

(* a one-dimensional constraint  a z + b (>=|>) 0  as a bound on z *)
Definition bound_of (a b : Z) : Q := inject_Z (- b) / inject_Z a.

Lemma bound_pos a b z : (0 < a)%Z -> (0 <= inject_Z a * z + inject_Z b <-> bound_of a b <= z) /\
                                     (0 < inject_Z a * z + inject_Z b <-> bound_of a b < z).
Proof.
  intros Ha. unfold bound_of. pose proof (inj_pos a Ha) as HA. set (A := inject_Z a) in *.
  rewrite inject_Z_opp. set (B := inject_Z b).
  assert (E : - B / A * A == - B) by (field; lra). set (x := - B / A) in *. clearbody x A B.
  split; split; intros; nra.
Qed.

Lemma bound_neg a b z : (a < 0)%Z -> (0 <= inject_Z a * z + inject_Z b <-> z <= bound_of a b) /\
                                     (0 < inject_Z a * z + inject_Z b <-> z < bound_of a b).
Proof.
  intros Ha. unfold bound_of. pose proof (inj_neg a Ha) as HA. set (A := inject_Z a) in *.
  rewrite inject_Z_opp. set (B := inject_Z b).
  assert (E : - B / A * A == - B) by (field; lra). set (x := - B / A) in *. clearbody x A B.
  split; split; intros; nra.
Qed.

(* one-dimensional items  a z + b (>= | >) 0 ; an equality contributes two opposite items *)
Record item := { ia : Z; ib : Z; istrict : bool }.

Definition item_holds (it : item) (z : Q) : Prop :=
  let v := inject_Z (ia it) * z + inject_Z (ib it) in
  if istrict it then 0 < v else 0 <= v.

Definition items_of (n : nat) (s : sys) : list item :=
  flat_map (fun e => [ {| ia := lcoef e n; ib := lcst e; istrict := false |};
                       {| ia := (- lcoef e n)%Z; ib := (- lcst e)%Z; istrict := false |} ]) (eqs s) ++
  map (fun c => {| ia := coef c n; ib := cst c; istrict := strict c |}) (ineqs s).

Definition one_dim_b (n : nat) (s : sys) : bool :=
  forallb (fun e => only_var_b n (lcoefs e)) (eqs s) && forallb (fun c => only_var_b n (coefs c)) (ineqs s).

Lemma items_sat n s p : one_dim_b n s = true ->
  (sat_sys s p <-> forall it, In it (items_of n s) -> item_holds it (p n)).
Proof.
  unfold one_dim_b. rewrite andb_true_iff, !forallb_forall. intros [O1 O2].
  unfold sat_sys, sat_eqs, sat_all, items_of. split.
  - intros [H1 H2] it Hit. apply in_app_or in Hit. destruct Hit as [Hit|Hit].
    + apply in_flat_map in Hit. destruct Hit as [e [He Hit]]. specialize (H1 e He). unfold leval in H1.
      rewrite (dot_only n _ p (O1 e He)) in H1. fold (lcoef e n) in H1.
      destruct Hit as [<-|[<-|[]]]; unfold item_holds; cbn [ia ib istrict]; rewrite ?inject_Z_opp; lra.
    + apply in_map_iff in Hit. destruct Hit as [x [<- Hx]].
      unfold item_holds; cbn [ia ib istrict]. specialize (H2 x Hx). unfold sat, eval in H2.
      pose proof (dot_only n _ p (O2 x Hx)) as E. unfold coef. destruct (strict x); lra.
  - intros H. split.
    + intros e He. unfold leval. rewrite (dot_only n _ p (O1 e He)). fold (lcoef e n).
      assert (A : item_holds {| ia := lcoef e n; ib := lcst e; istrict := false |} (p n)).
      { apply H. apply in_or_app. left. apply in_flat_map. exists e. split; [exact He|now left]. }
      assert (B : item_holds {| ia := (- lcoef e n)%Z; ib := (- lcst e)%Z; istrict := false |} (p n)).
      { apply H. apply in_or_app. left. apply in_flat_map. exists e. split; [exact He|right; now left]. }
      unfold item_holds in A, B; cbn [ia ib istrict] in A, B. rewrite !inject_Z_opp in B. lra.
    + intros c Hc. unfold sat, eval. pose proof (dot_only n _ p (O2 c Hc)) as E.
      assert (X : item_holds {| ia := coef c n; ib := cst c; istrict := strict c |} (p n)).
      { apply H. apply in_or_app. right. now apply (in_map (fun c => {| ia := coef c n; ib := cst c; istrict := strict c |})). }
      unfold item_holds in X; cbn [ia ib istrict] in X. unfold coef in X. destruct (strict c); lra.
Qed.

(* split items into constants, lower bounds, upper bounds *)
Definition const_ok (it : item) : bool :=
  if Z.eqb (ia it) 0 then (if istrict it then Z.ltb 0 (ib it) else Z.leb 0 (ib it)) else true.

Definition lowers (its : list item) : list (Q * bool) :=
  flat_map (fun it => if Z.ltb 0 (ia it) then [(bound_of (ia it) (ib it), istrict it)] else []) its.
Definition uppers (its : list item) : list (Q * bool) :=
  flat_map (fun it => if Z.ltb (ia it) 0 then [(bound_of (ia it) (ib it), istrict it)] else []) its.

Definition mem1 (its : list item) (z : Q) : Prop := forall it, In it its -> item_holds it z.

Lemma item_split it z :
  item_holds it z <->
  (const_ok it = true /\ (forall l, In l (lowers [it]) -> lower_ok z l) /\ (forall u, In u (uppers [it]) -> upper_ok z u)).
Proof.
  unfold item_holds, const_ok, lowers, uppers, lower_ok, upper_ok; cbn [flat_map app].
  destruct (Z.ltb_spec 0 (ia it)) as [Hp|Hnp].
  - destruct (Z.eqb_spec (ia it) 0) as [E0|_]; [lia|]. destruct (Z.ltb_spec (ia it) 0) as [Hx|_]; [lia|].
    destruct (bound_pos (ia it) (ib it) z Hp) as [B1 B2]. split.
    + intros H. split; [reflexivity|]. split; [|intros x []]. intros x [<-|[]]; cbn [fst snd].
      destruct (istrict it); [now apply B2|now apply B1].
    + intros [_ [H1 _]]. specialize (H1 _ (or_introl eq_refl)). cbn [fst snd] in H1.
      destruct (istrict it); [now apply B2|now apply B1].
  - destruct (Z.ltb_spec (ia it) 0) as [Hn|Hnn].
    + destruct (Z.eqb_spec (ia it) 0) as [E0|_]; [lia|].
      destruct (bound_neg (ia it) (ib it) z Hn) as [B1 B2]. split.
      * intros H. split; [reflexivity|]. split; [intros x []|]. intros x [<-|[]]; cbn [fst snd].
        destruct (istrict it); [now apply B2|now apply B1].
      * intros [_ [_ H2]]. specialize (H2 _ (or_introl eq_refl)). cbn [fst snd] in H2.
        destruct (istrict it); [now apply B2|now apply B1].
    + assert (E0 : ia it = 0%Z) by lia. rewrite E0. cbn [Z.eqb]. change (inject_Z 0) with 0.
      destruct (istrict it).
      * split.
        -- intros H. split; [|split; intros x []]. apply Z.ltb_lt. rewrite Zlt_Qlt. change (inject_Z 0) with 0. lra.
        -- intros [H _]. apply Z.ltb_lt in H. rewrite Zlt_Qlt in H. change (inject_Z 0) with 0 in H. lra.
      * split.
        -- intros H. split; [|split; intros x []]. apply Z.leb_le. rewrite Zle_Qle. change (inject_Z 0) with 0. lra.
        -- intros [H _]. apply Z.leb_le in H. rewrite Zle_Qle in H. change (inject_Z 0) with 0 in H. lra.
Qed.

Lemma lowers_cons it its : lowers (it :: its) = lowers [it] ++ lowers its.
Proof. unfold lowers. cbn [flat_map]. now rewrite app_nil_r. Qed.
Lemma uppers_cons it its : uppers (it :: its) = uppers [it] ++ uppers its.
Proof. unfold uppers. cbn [flat_map]. now rewrite app_nil_r. Qed.

Lemma mem1_split its z :
  mem1 its z <->
  (forallb const_ok its = true /\ (forall l, In l (lowers its) -> lower_ok z l) /\ (forall u, In u (uppers its) -> upper_ok z u)).
Proof.
  induction its as [|it its IH].
  - unfold mem1. cbn. split; [intros _; repeat split; intros x []|intros _ it []].
  - rewrite lowers_cons, uppers_cons. cbn [forallb]. rewrite andb_true_iff. unfold mem1 in *. split.
    + intros H. assert (H0 : item_holds it z) by (apply H; now left).
      assert (H1 : forall it', In it' its -> item_holds it' z) by (intros; apply H; now right).
      apply item_split in H0. apply IH in H1. destruct H0 as [A [B C]], H1 as [A' [B' C']].
      repeat split; auto; intros x Hx; apply in_app_or in Hx; destruct Hx; auto.
    + intros [[A A'] [B C]] it' [<-|Hit'].
      * apply item_split. repeat split; auto; intros x Hx; [apply B|apply C]; apply in_or_app; now left.
      * apply (proj2 IH); [|exact Hit']. repeat split; auto; intros x Hx; [apply B|apply C]; apply in_or_app; now right.
Qed.

(* ---------- decision: non-emptiness and supremum of a 1-dimensional set ---------- *)
Definition compat_b (l u : Q * bool) : bool :=
  if (snd l || snd u)%bool then match fst l ?= fst u with Lt => true | _ => false end
  else match fst l ?= fst u with Gt => false | _ => true end.

Lemma compat_b_ok l u : compat_b l u = true <-> compat l u.
Proof.
  unfold compat_b, compat. destruct (snd l || snd u)%bool.
  - rewrite Qlt_alt. destruct (fst l ?= fst u); split; intros; congruence.
  - rewrite Qle_alt. destruct (fst l ?= fst u); split; intros; congruence.
Qed.

Definition nonempty1 (its : list item) : bool :=
  forallb const_ok its && forallb (fun l => forallb (compat_b l) (uppers its)) (lowers its).

Lemma nonempty1_ok its : nonempty1 its = true <-> exists z, mem1 its z.
Proof.
  unfold nonempty1. rewrite andb_true_iff. split.
  - intros [C H]. destruct (helly1 (lowers its) (uppers its)) as [z [HL HU]].
    + intros l u Hl Hu. apply compat_b_ok. rewrite forallb_forall in H. specialize (H l Hl).
      rewrite forallb_forall in H. now apply H.
    + exists z. apply mem1_split. auto.
  - intros [z Hz]. apply mem1_split in Hz. destruct Hz as [C [HL HU]]. split; [exact C|].
    apply forallb_forall. intros l Hl. apply forallb_forall. intros u Hu. apply compat_b_ok.
    specialize (HL l Hl). specialize (HU u Hu). unfold compat, lower_ok, upper_ok in *.
    destruct (snd l), (snd u); cbn [orb]; lra.
Qed.

Definition sup1 (its : list item) : supres :=
  if negb (nonempty1 its) then SupEmpty
  else match uppers its with
       | [] => SupUnbounded
       | u0 :: us =>
           let m := qmin1 (fst u0) us in
           SupVal m (forallb (fun u => negb (Qeq_bool (fst u) m && snd u)) (u0 :: us))
       end.

Definition sup1_spec (V : Q -> Prop) (r : supres) : Prop :=
  match r with
  | SupEmpty => forall z, ~ V z
  | SupUnbounded => (exists z, V z) /\ forall B, exists z, V z /\ B < z
  | SupVal m att =>
      (exists z, V z) /\ (forall z, V z -> z <= m) /\
      (att = true -> V m) /\
      (att = false -> (forall z, V z -> z < m) /\ forall eps, 0 < eps -> exists z, V z /\ m - eps < z)
  end.

Lemma lower_mono z z' l : lower_ok z l -> z <= z' -> lower_ok z' l.
Proof. unfold lower_ok. destruct (snd l); intros; lra. Qed.

Theorem sup1_ok its : sup1_spec (mem1 its) (sup1 its).
Proof.
  unfold sup1. destruct (nonempty1 its) eqn:NE; cbn [negb].
  2:{ cbn. intros z Hz. assert (nonempty1 its = true) by (apply nonempty1_ok; now exists z). congruence. }
  pose proof (proj1 (nonempty1_ok its) NE) as [z0 Hz0].
  pose proof (proj1 (mem1_split its z0) Hz0) as [C0 [L0 U0]].
  destruct (uppers its) as [|u0 us] eqn:EU.
  - cbn. split; [now exists z0|]. intros B. exists (Qmax z0 (B + 1)). split.
    + apply mem1_split. rewrite EU. split; [exact C0|]. split; [|intros u []].
      intros l Hl. apply (lower_mono z0); [now apply L0|apply Q.le_max_l].
    + pose proof (Q.le_max_r z0 (B + 1)). lra.
  - set (m := qmin1 (fst u0) us).
    assert (Hm_le : forall u, In u (u0 :: us) -> m <= fst u).
    { intros u [<-|Hu]; [apply qmin1_le_hd|now apply qmin1_le]. }
    assert (Hm_in : exists um, In um (u0 :: us) /\ fst um == m).
    { destruct (qmin1_in us (fst u0)) as [H|[b [Hb H]]].
      - exists u0. split; [now left|]. symmetry; exact H.
      - exists b. split; [now right|exact H]. }
    destruct Hm_in as [um [Hum Em]].
    assert (Hall_le : forall z, mem1 its z -> z <= m).
    { intros z Hz. apply mem1_split in Hz. destruct Hz as [_ [_ HU]]. rewrite EU in HU.
      specialize (HU um Hum). unfold upper_ok in HU. destruct (snd um); lra. }
    cbn [sup1_spec]. split; [now exists z0|]. split; [exact Hall_le|]. split.
    + intros Hatt. rewrite forallb_forall in Hatt. apply mem1_split. rewrite EU. split; [exact C0|]. split.
      * intros l Hl.
        assert (Cp : compat l um).
        { apply compat_b_ok. unfold nonempty1 in NE. apply andb_true_iff in NE. destruct NE as [_ NE].
          rewrite forallb_forall in NE. specialize (NE l Hl). rewrite forallb_forall in NE. apply NE. rewrite EU. exact Hum. }
        assert (Sm : snd um = false).
        { specialize (Hatt um Hum). apply negb_true_iff in Hatt. apply andb_false_iff in Hatt.
          destruct Hatt as [H|H]; [|exact H]. exfalso. apply Qeq_bool_neq in H. apply H. exact Em. }
        unfold compat in Cp. unfold lower_ok. rewrite Sm, orb_false_r in Cp. destruct (snd l); lra.
      * intros u Hu. unfold upper_ok. specialize (Hatt u Hu). apply negb_true_iff in Hatt. apply andb_false_iff in Hatt.
        specialize (Hm_le u Hu). destruct (snd u); [|exact Hm_le].
        destruct Hatt as [H|H]; [|discriminate]. apply Qeq_bool_neq in H.
        destruct (Qlt_le_dec m (fst u)); [assumption|]. exfalso. apply H. lra.
    + intros Hatt. apply (f_equal negb) in Hatt. cbn [negb] in Hatt.
      assert (Hex : exists u, In u (u0 :: us) /\ fst u == m /\ snd u = true).
      { clear - Hatt. induction (u0 :: us) as [|u l IH]; cbn [forallb] in Hatt; [discriminate|].
        rewrite negb_andb in Hatt. apply orb_true_iff in Hatt. destruct Hatt as [H|H].
        - rewrite negb_involutive in H. apply andb_true_iff in H. destruct H as [H1 H2].
          exists u. split; [now left|]. split; [now apply Qeq_bool_iff|exact H2].
        - destruct (IH H) as [u' [A B]]. exists u'. split; [now right|exact B]. }
      destruct Hex as [us' [Hus [Eus Sus]]].
      assert (Hlt : forall z, mem1 its z -> z < m).
      { intros z Hz. apply mem1_split in Hz. destruct Hz as [_ [_ HU]]. rewrite EU in HU.
        specialize (HU us' Hus). unfold upper_ok in HU. rewrite Sus in HU. lra. }
      split; [exact Hlt|]. intros eps Heps. pose proof (Hlt z0 Hz0) as Hz0m.
      exists (Qmax z0 (m - eps / 2)). split.
      * apply mem1_split. rewrite EU. split; [exact C0|]. split.
        -- intros l Hl. apply (lower_mono z0); [now apply L0|apply Q.le_max_l].
        -- intros u Hu. specialize (Hm_le u Hu). unfold upper_ok.
           assert (Qmax z0 (m - eps / 2) < m).
           { apply Q.max_lub_lt; [exact Hz0m|]. assert (0 < eps / 2) by (apply Qlt_shift_div_l; lra). lra. }
           destruct (snd u); lra.
      * pose proof (Q.le_max_r z0 (m - eps / 2)). assert (eps / 2 < eps).
        { apply Qlt_shift_div_r; lra. } lra.
Qed.

(* ---------- lifting to n dimensions ---------- *)
Definition proj_expr (n : nat) (e : lin) (s : sys) : sys :=
  elim_set (seq 0 n) (union_sys s (rel_sys REQ (dvar_minus 1 n e))).

Definition sup_expr (n : nat) (e : lin) (s : sys) : option supres :=
  if (fresh_b n s && Z.eqb (lcoef e n) 0)%bool then
    let t := proj_expr n e s in
    if one_dim_b n t then Some (sup1 (items_of n t)) else None
  else None.

Definition sup_spec (s : sys) (e : lin) (r : supres) : Prop :=
  match r with
  | SupEmpty => forall p, ~ sat_sys s p
  | SupUnbounded => (exists p, sat_sys s p) /\ forall B, exists p, sat_sys s p /\ B < leval e p
  | SupVal m att =>
      (exists p, sat_sys s p) /\ (forall p, sat_sys s p -> leval e p <= m) /\
      (att = true -> exists p, sat_sys s p /\ leval e p == m) /\
      (att = false -> (forall p, sat_sys s p -> leval e p < m) /\
                      forall eps, 0 < eps -> exists p, sat_sys s p /\ m - eps < leval e p)
  end.

Lemma proj_values n e s z :
  fresh n s -> lcoef e n = 0%Z -> one_dim_b n (proj_expr n e s) = true ->
  (mem1 (items_of n (proj_expr n e s)) z <-> exists p, sat_sys s p /\ leval e p == z).
Proof.
  intros F Fe OD.
  assert (X : forall p0, mem1 (items_of n (proj_expr n e s)) z <-> sat_sys (proj_expr n e s) (upd p0 n z)).
  { intros p0. rewrite (items_sat n _ _ OD). unfold mem1, upd. rewrite Nat.eqb_refl. reflexivity. }
  split.
  - intros M. apply (X (fun _ => 0)) in M. unfold proj_expr in M. apply elim_set_exact in M.
    destruct M as [q [Hq Hs]]. apply meet_spec in Hs. destruct Hs as [H1 H2]. apply sat_rel_sys in H2. cbn [rel_holds] in H2.
    rewrite leval_dvar_minus in H2. change (inject_Z 1) with 1 in H2.
    assert (Eq : q n == z).
    { rewrite (Hq n) by (rewrite in_seq; lia). unfold upd. now rewrite Nat.eqb_refl. }
    exists q. split; [exact H1|]. lra.
  - intros [p [H1 H2]]. apply (X p). unfold proj_expr. apply elim_set_exact. exists (upd p n z). split.
    + intros i Hi. reflexivity.
    + apply meet_spec. split; [now apply fresh_indep|]. apply sat_rel_sys. cbn [rel_holds].
      rewrite leval_dvar_minus, (leval_indep e p n z Fe). change (inject_Z 1) with 1.
      unfold upd. rewrite Nat.eqb_refl. lra.
Qed.

Theorem sup_expr_exact n e s r : sup_expr n e s = Some r -> sup_spec s e r.
Proof.
  unfold sup_expr. destruct (fresh_b n s && Z.eqb (lcoef e n) 0)%bool eqn:G; [|discriminate].
  apply andb_true_iff in G. destruct G as [G1 G2]. apply fresh_b_ok in G1. apply Z.eqb_eq in G2.
  destruct (one_dim_b n (proj_expr n e s)) eqn:OD; [|discriminate]. intros [= <-].
  pose proof (sup1_ok (items_of n (proj_expr n e s))) as S.
  pose proof (fun z => proj_values n e s z G1 G2 OD) as PV.
  destruct (sup1 (items_of n (proj_expr n e s))) as [| |m att]; cbn [sup1_spec sup_spec] in *.
  - intros p Hp. apply (S (leval e p)). apply PV. exists p. split; [exact Hp|reflexivity].
  - destruct S as [[z Hz] SB]. split.
    + apply PV in Hz. destruct Hz as [p [Hp _]]. now exists p.
    + intros B. destruct (SB B) as [z' [Hz' Hlt]]. apply PV in Hz'. destruct Hz' as [p [Hp Ep]].
      exists p. split; [exact Hp|]. lra.
  - destruct S as [[z Hz] [S1 [S2 S3]]]. split; [|split; [|split]].
    + apply PV in Hz. destruct Hz as [p [Hp _]]. now exists p.
    + intros p Hp. apply S1. apply PV. exists p. split; [exact Hp|reflexivity].
    + intros Ha. apply S2 in Ha. apply PV in Ha. exact Ha.
    + intros Ha. destruct (S3 Ha) as [T1 T2]. split.
      * intros p Hp. apply T1. apply PV. exists p. split; [exact Hp|reflexivity].
      * intros eps He. destruct (T2 eps He) as [z' [Hz' Hlt]]. apply PV in Hz'. destruct Hz' as [p [Hp Ep]].
        exists p. split; [exact Hp|]. lra.
Qed.

(* infimum through the supremum of the opposite expression *)
Definition inf_expr (n : nat) (e : lin) (s : sys) : option supres :=
  match sup_expr n (lneg e) s with
  | Some (SupVal m att) => Some (SupVal (- m) att)
  | x => x
  end.

Definition inf_spec (s : sys) (e : lin) (r : supres) : Prop :=
  match r with
  | SupEmpty => forall p, ~ sat_sys s p
  | SupUnbounded => (exists p, sat_sys s p) /\ forall B, exists p, sat_sys s p /\ leval e p < B
  | SupVal m att =>
      (exists p, sat_sys s p) /\ (forall p, sat_sys s p -> m <= leval e p) /\
      (att = true -> exists p, sat_sys s p /\ leval e p == m) /\
      (att = false -> (forall p, sat_sys s p -> m < leval e p) /\
                      forall eps, 0 < eps -> exists p, sat_sys s p /\ leval e p < m + eps)
  end.

Theorem inf_expr_exact n e s r : inf_expr n e s = Some r -> inf_spec s e r.
Proof.
  unfold inf_expr. destruct (sup_expr n (lneg e) s) as [r0|] eqn:E; [|discriminate].
  apply sup_expr_exact in E. destruct r0 as [| |m att]; intros [= <-]; cbn [sup_spec inf_spec] in *.
  - exact E.
  - destruct E as [E1 E2]. split; [exact E1|]. intros B. destruct (E2 (- B)) as [p [Hp Hl]].
    exists p. split; [exact Hp|]. rewrite leval_lneg in Hl. lra.
  - destruct E as [E1 [E2 [E3 E4]]]. split; [exact E1|]. split; [|split].
    + intros p Hp. specialize (E2 p Hp). rewrite leval_lneg in E2. lra.
    + intros Ha. destruct (E3 Ha) as [p [Hp Ep]]. exists p. split; [exact Hp|]. rewrite leval_lneg in Ep. lra.
    + intros Ha. destruct (E4 Ha) as [T1 T2]. split.
      * intros p Hp. specialize (T1 p Hp). rewrite leval_lneg in T1. lra.
      * intros eps He. destruct (T2 eps He) as [p [Hp Hl]]. exists p. split; [exact Hp|]. rewrite leval_lneg in Hl. lra.
Qed.
