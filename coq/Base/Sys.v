(* Systems of rational linear constraints with equalities, strict and non-strict inequalities:
   exact elimination of variables (Gaussian substitution for equalities, Fourier-Motzkin for
   inequalities, with semantics-preserving simplification) and the exact decision procedures built
   on it: non-emptiness, implication, inclusion, equivalence.  Every procedure returns an
   [option bool]; [None] means "the dimension given was too small for the data" and is never an
   answer.  All theorems are for every input. *)
From Coq Require Import List ZArith QArith Qminmax Lia Lqa Bool.
Require Import PPLV.Base.FM.
Import ListNotations.
Local Open Scope Q_scope.

(* ---------------------------------------------------------------------------------------- *)
(* pointwise-equal points *)
Definition peq (p q : point) : Prop := forall i, p i == q i.

Lemma dot_ext l : forall p q i, peq p q -> dot l p i == dot l q i.
Proof.
  induction l as [|x l IH]; intros p q i H; cbn [dot]; [reflexivity|].
  rewrite (IH p q (S i) H), (H i). reflexivity.
Qed.

Lemma eval_ext c p q : peq p q -> eval c p == eval c q.
Proof. intros H. unfold eval. now rewrite (dot_ext _ p q 0%nat H). Qed.

Lemma sat_ext c p q : peq p q -> sat c p -> sat c q.
Proof. intros H. unfold sat. pose proof (eval_ext c p q H) as E. destruct (strict c); lra. Qed.

Lemma sat_all_ext cs p q : peq p q -> sat_all cs p -> sat_all cs q.
Proof. intros H S c Hc. eapply sat_ext; eauto. Qed.

Lemma peq_sym p q : peq p q -> peq q p.
Proof. intros H i. symmetry. apply H. Qed.

Lemma upd_upd p k v w : peq (upd (upd p k v) k w) (upd p k w).
Proof. intros i. unfold upd. destruct (Nat.eqb i k); reflexivity. Qed.

Lemma upd_same p k : peq (upd p k (p k)) p.
Proof. intros i. unfold upd. destruct (Nat.eqb_spec i k) as [->|]; reflexivity. Qed.

(* ---------------------------------------------------------------------------------------- *)
(* simplification of inequality lists: gcd normalisation, dropping tautologies, duplicates *)

Definition all_zero (l : list Z) : bool := forallb (Z.eqb 0) l.

Lemma all_zero_nth l : all_zero l = true -> forall j, nth j l 0%Z = 0%Z.
Proof.
  unfold all_zero. rewrite forallb_forall. intros H j.
  destruct (nth_in_or_default j l 0%Z) as [Hin|Hd]; [|exact Hd].
  specialize (H _ Hin). apply Z.eqb_eq in H. now symmetry.
Qed.

Lemma all_zero_dot l p i : all_zero l = true -> dot l p i == 0.
Proof. intros H. apply dot_zero. now apply all_zero_nth. Qed.

Definition triv_true (c : cstr) : bool := all_zero (coefs c) && triv_ok c.

Lemma triv_true_sat c p : triv_true c = true -> sat c p.
Proof.
  unfold triv_true. rewrite andb_true_iff. intros [Hz Ht].
  apply triv_sat; [|exact Ht]. intros j. unfold coef. now apply all_zero_nth.
Qed.

Definition list_gcd (l : list Z) : Z := fold_right Z.gcd 0%Z l.
Definition divides_all (g : Z) (l : list Z) : bool := forallb (fun x => Z.eqb (x mod g) 0) l.

Lemma dot_div g l : (0 < g)%Z -> divides_all g l = true ->
  forall p i, inject_Z g * dot (map (fun x => (x / g)%Z) l) p i == dot l p i.
Proof.
  intros Hg. induction l as [|x l IH]; intros Hd p i; cbn [map dot]; [lra|].
  cbn [divides_all forallb] in Hd. apply andb_true_iff in Hd. destruct Hd as [Hx Hl].
  apply Z.eqb_eq in Hx. specialize (IH Hl p (S i)).
  assert (E : x = (g * (x / g))%Z) by (apply Z_div_exact_full_2; lia).
  rewrite E at 2. rewrite inject_Z_mult. rewrite <- IH. ring.
Qed.

Definition norm (c : cstr) : cstr :=
  let g := Z.gcd (list_gcd (coefs c)) (cst c) in
  if (Z.ltb 1 g && divides_all g (coefs c) && Z.eqb (cst c mod g) 0)%bool
  then {| coefs := map (fun x => (x / g)%Z) (coefs c); cst := (cst c / g)%Z; strict := strict c |}
  else c.

Lemma norm_sat c p : sat (norm c) p <-> sat c p.
Proof.
  unfold norm. set (g := Z.gcd _ _).
  destruct (Z.ltb 1 g && divides_all g (coefs c) && Z.eqb (cst c mod g) 0)%bool eqn:E; [|tauto].
  apply andb_true_iff in E. destruct E as [E E3]. apply andb_true_iff in E. destruct E as [E1 E2].
  apply Z.ltb_lt in E1. apply Z.eqb_eq in E3.
  assert (Hg : (0 < g)%Z) by lia.
  unfold sat, eval; cbn [coefs cst strict].
  pose proof (dot_div g (coefs c) Hg E2 p 0%nat) as D.
  assert (Ec : cst c = (g * (cst c / g))%Z) by (apply Z_div_exact_full_2; lia).
  assert (Hq : 0 < inject_Z g) by (change 0 with (inject_Z 0); now rewrite <- Zlt_Qlt).
  set (d := dot (map (fun x => (x / g)%Z) (coefs c)) p 0) in *.
  assert (Ec' : inject_Z (cst c) == inject_Z g * inject_Z (cst c / g)).
  { rewrite <- inject_Z_mult. now rewrite <- Ec. }
  set (k := inject_Z (cst c / g)) in *. set (G := inject_Z g) in *.
  set (d0 := dot (coefs c) p 0) in *. set (c0 := inject_Z (cst c)) in *.
  clearbody d0 c0 d k G.
  destruct (strict c); split; intros; nra.
Qed.

Lemma cstr_eq_dec (a b : cstr) : {a = b} + {a <> b}.
Proof. decide equality; [apply bool_dec|apply Z.eq_dec|apply (list_eq_dec Z.eq_dec)]. Defined.

Definition simplify (cs : list cstr) : list cstr :=
  nodup cstr_eq_dec (filter (fun c => negb (triv_true c)) (map norm cs)).

Lemma simplify_sat cs p : sat_all (simplify cs) p <-> sat_all cs p.
Proof.
  unfold simplify, sat_all. split.
  - intros H c Hc. apply norm_sat. destruct (triv_true (norm c)) eqn:T.
    + now apply triv_true_sat.
    + apply H. apply nodup_In. apply filter_In. split; [now apply in_map|]. now rewrite T.
  - intros H c Hc. apply nodup_In in Hc. apply filter_In in Hc. destruct Hc as [Hc _].
    apply in_map_iff in Hc. destruct Hc as [c0 [<- Hc0]]. apply norm_sat. now apply H.
Qed.

(* ---------------------------------------------------------------------------------------- *)
(* equalities *)

Record lin := { lcoefs : list Z; lcst : Z }.
Definition leval (e : lin) (p : point) : Q := dot (lcoefs e) p 0 + inject_Z (lcst e).
Definition lcoef (e : lin) (k : nat) : Z := nth k (lcoefs e) 0%Z.

Record sys := { eqs : list lin; ineqs : list cstr }.

Definition sat_eqs (es : list lin) (p : point) : Prop := forall e, In e es -> leval e p == 0.
Definition sat_sys (s : sys) (p : point) : Prop := sat_eqs (eqs s) p /\ sat_all (ineqs s) p.

Lemma leval_ext e p q : peq p q -> leval e p == leval e q.
Proof. intros H. unfold leval. now rewrite (dot_ext _ p q 0%nat H). Qed.

Lemma sat_sys_ext s p q : peq p q -> sat_sys s p -> sat_sys s q.
Proof.
  intros H [H1 H2]. split.
  - intros e He. rewrite <- (leval_ext e p q H). now apply H1.
  - eapply sat_all_ext; eauto.
Qed.

Lemma leval_upd e p k v : leval e (upd p k v) == leval e p + inject_Z (lcoef e k) * (v - p k).
Proof. unfold leval, lcoef. rewrite dot_upd by lia. rewrite Nat.sub_0_r. lra. Qed.

(* substitution by an equality e whose coefficient a on x_k is non-zero *)
Definition subst_c (k : nat) (e : lin) (c : cstr) : cstr :=
  let a := lcoef e k in let b := coef c k in
  {| coefs := vadd (vscale (Z.abs a) (coefs c)) (vscale (- Z.sgn a * b) (lcoefs e));
     cst := (Z.abs a * cst c + (- Z.sgn a * b) * lcst e)%Z;
     strict := strict c |}.

Definition subst_e (k : nat) (e : lin) (e' : lin) : lin :=
  let a := lcoef e k in let b := lcoef e' k in
  {| lcoefs := vadd (vscale a (lcoefs e')) (vscale (- b) (lcoefs e));
     lcst := (a * lcst e' + (- b) * lcst e)%Z |}.

Lemma eval_subst_c k e c p :
  eval (subst_c k e c) p ==
  inject_Z (Z.abs (lcoef e k)) * eval c p + inject_Z (- Z.sgn (lcoef e k) * coef c k) * leval e p.
Proof.
  unfold eval, leval, subst_c; cbn [coefs cst]. rewrite dot_vadd, !dot_vscale.
  rewrite inject_Z_plus, !inject_Z_mult. ring.
Qed.

Lemma leval_subst_e k e e' p :
  leval (subst_e k e e') p == inject_Z (lcoef e k) * leval e' p + inject_Z (- lcoef e' k) * leval e p.
Proof.
  unfold leval, subst_e; cbn [lcoefs lcst]. rewrite dot_vadd, !dot_vscale.
  rewrite inject_Z_plus, !inject_Z_mult. ring.
Qed.

Lemma coef_subst_c k e c : coef (subst_c k e c) k = 0%Z.
Proof.
  unfold coef, subst_c; cbn [coefs]. rewrite nth_vadd, !nth_vscale.
  fold (coef c k). fold (lcoef e k). rewrite <- (Z.sgn_abs (lcoef e k)). ring.
Qed.

Lemma lcoef_subst_e k e e' : lcoef (subst_e k e e') k = 0%Z.
Proof.
  unfold lcoef, subst_e; cbn [lcoefs]. rewrite nth_vadd, !nth_vscale. unfold lcoef. ring.
Qed.

Lemma sat_indep_c c p k v : coef c k = 0%Z -> eval c (upd p k v) == eval c p.
Proof. intros H. rewrite eval_upd, H. change (inject_Z 0) with 0. lra. Qed.

Lemma leval_indep e p k v : lcoef e k = 0%Z -> leval e (upd p k v) == leval e p.
Proof. intros H. rewrite leval_upd, H. change (inject_Z 0) with 0. lra. Qed.

Lemma inj_pos z : (0 < z)%Z -> 0 < inject_Z z.
Proof. intros. change 0 with (inject_Z 0). now rewrite <- Zlt_Qlt. Qed.
Lemma inj_neg z : (z < 0)%Z -> inject_Z z < 0.
Proof. intros. change 0 with (inject_Z 0). now rewrite <- Zlt_Qlt. Qed.

Lemma subst_exact k e E C p :
  lcoef e k <> 0%Z -> In e E ->
  ((exists v, sat_eqs E (upd p k v) /\ sat_all C (upd p k v)) <->
   (sat_eqs (map (subst_e k e) E) p /\ sat_all (map (subst_c k e) C) p)).
Proof.
  intros Ha HeE. split.
  - intros [v [HE HC]]. pose proof (HE e HeE) as He0. split.
    + intros e1 H1. apply in_map_iff in H1. destruct H1 as [e' [<- He']].
      rewrite <- (leval_indep _ p k v (lcoef_subst_e k e e')).
      rewrite leval_subst_e, He0, (HE e' He'). ring.
    + intros c1 H1. apply in_map_iff in H1. destruct H1 as [c [<- Hc]].
      specialize (HC c Hc). unfold sat in *. cbn [subst_c strict].
      pose proof (sat_indep_c _ p k v (coef_subst_c k e c)) as E1.
      rewrite eval_subst_c in E1. rewrite He0 in E1.
      assert (Hp : 0 < inject_Z (Z.abs (lcoef e k))) by (apply inj_pos; lia).
      set (A := inject_Z (Z.abs (lcoef e k))) in *.
      set (x := eval c (upd p k v)) in *.
      set (y := eval (subst_c k e c) p) in *.
      assert (E2 : y == A * x) by (rewrite <- E1; ring).
      change (strict (subst_c k e c)) with (strict c).
      destruct (strict c); nra.
  - intros [HE HC].
    set (a := inject_Z (lcoef e k)).
    assert (Hne : ~ a == 0).
    { unfold a. intros H. apply Ha. apply (proj1 (inject_Z_injective (lcoef e k) 0%Z)). exact H. }
    set (v := p k - leval e p / a).
    assert (Hv : (v - p k) * a == - leval e p) by (unfold v; field; auto).
    exists v. split.
    + intros e' He'. rewrite leval_upd.
      assert (H1 : leval (subst_e k e e') p == 0) by (apply HE; now apply in_map).
      rewrite leval_subst_e in H1. fold a in H1. rewrite inject_Z_opp in H1.
      set (b := inject_Z (lcoef e' k)) in *. set (x := leval e' p) in *. set (y := leval e p) in *.
      set (d := v - p k) in *. clearbody d x y b a.
      assert (H2 : a * (x + b * d) == 0) by (rewrite <- H1; setoid_replace (a * (x + b * d)) with (a * x + b * (d * a)) by ring; rewrite Hv; ring).
      destruct (Qeq_dec (x + b * d) 0) as [H3|H3]; [exact H3|]. exfalso.
      apply Qmult_integral in H2. tauto.
    + intros c Hc. unfold sat. pose proof (eval_upd c p k v) as EU.
      assert (H1 : sat (subst_c k e c) p) by (apply HC; now apply in_map).
      unfold sat in H1. change (strict (subst_c k e c)) with (strict c) in H1.
      pose proof (eval_subst_c k e c p) as ES. fold a in ES.
      set (w := eval (subst_c k e c) p) in *.
      set (b := inject_Z (coef c k)) in *. set (x := eval c p) in *. set (y := leval e p) in *.
      set (d := v - p k) in *. set (z := eval c (upd p k v)) in *.
      destruct (Z_lt_le_dec (lcoef e k) 0) as [Hlt|Hgt]; [|assert (Hgt' : (0 < lcoef e k)%Z) by lia].
      * assert (Ea : inject_Z (Z.abs (lcoef e k)) == - a) by (unfold a; rewrite Z.abs_neq by lia; rewrite inject_Z_opp; reflexivity).
        assert (Es : inject_Z (- Z.sgn (lcoef e k) * coef c k) == b).
        { unfold b. rewrite Z.sgn_neg by lia. apply inject_Z_injective. lia. }
        rewrite Ea, Es in ES. assert (Han : a < 0) by (apply inj_neg; lia).
        clearbody w z d x y b a.
        assert (E3 : (- a) * z == w).
        { rewrite EU, ES. setoid_replace (- a * (x + b * d)) with (- a * x - b * (d * a)) by ring. rewrite Hv. ring. }
        destruct (strict c); nra.
      * assert (Ea : inject_Z (Z.abs (lcoef e k)) == a) by (unfold a; rewrite Z.abs_eq by lia; reflexivity).
        assert (Es : inject_Z (- Z.sgn (lcoef e k) * coef c k) == - b).
        { unfold b. rewrite Z.sgn_pos by lia. rewrite <- inject_Z_opp. apply inject_Z_injective. lia. }
        rewrite Ea, Es in ES. assert (Hap : 0 < a) by (apply inj_pos; lia).
        clearbody w z d x y b a.
        assert (E3 : a * z == w).
        { rewrite EU, ES. setoid_replace (a * (x + b * d)) with (a * x + b * (d * a)) by ring. rewrite Hv. ring. }
        destruct (strict c); nra.
Qed.

Definition triv_eq (e : lin) : bool := all_zero (lcoefs e) && Z.eqb (lcst e) 0.

Lemma triv_eq_sat e p : triv_eq e = true -> leval e p == 0.
Proof.
  unfold triv_eq. rewrite andb_true_iff. intros [H1 H2]. apply Z.eqb_eq in H2.
  unfold leval. rewrite (all_zero_dot _ p 0%nat H1), H2. reflexivity.
Qed.

Definition simplify_eqs (es : list lin) : list lin := filter (fun e => negb (triv_eq e)) es.

Lemma simplify_eqs_sat es p : sat_eqs (simplify_eqs es) p <-> sat_eqs es p.
Proof.
  unfold simplify_eqs, sat_eqs. split; intros H e He.
  - destruct (triv_eq e) eqn:T; [now apply triv_eq_sat|]. apply H. apply filter_In. now rewrite T.
  - apply filter_In in He. now apply H.
Qed.

Definition elim_sys (k : nat) (s : sys) : sys :=
  match find (fun e => negb (Z.eqb (lcoef e k) 0)) (eqs s) with
  | Some e => {| eqs := simplify_eqs (map (subst_e k e) (eqs s));
                 ineqs := simplify (map (subst_c k e) (ineqs s)) |}
  | None => {| eqs := eqs s; ineqs := simplify (elim k (ineqs s)) |}
  end.

Theorem elim_sys_exact k s p : (exists v, sat_sys s (upd p k v)) <-> sat_sys (elim_sys k s) p.
Proof.
  unfold elim_sys. destruct (find _ (eqs s)) as [e|] eqn:F.
  - apply find_some in F. destruct F as [HeE Hne]. apply negb_true_iff in Hne. apply Z.eqb_neq in Hne.
    unfold sat_sys; cbn [eqs ineqs]. rewrite simplify_eqs_sat, simplify_sat.
    apply (subst_exact k e (eqs s) (ineqs s) p Hne HeE).
  - assert (Hz : forall e, In e (eqs s) -> lcoef e k = 0%Z).
    { intros e He. pose proof (find_none _ _ F e He) as H. cbn in H. apply negb_false_iff in H. now apply Z.eqb_eq. }
    unfold sat_sys; cbn [eqs ineqs]. rewrite simplify_sat, <- elim_exact. split.
    + intros [v [H1 H2]]. split; [|now exists v].
      intros e He. rewrite <- (leval_indep e p k v (Hz e He)). now apply H1.
    + intros [H1 [v H2]]. exists v. split; [|exact H2].
      intros e He. rewrite (leval_indep e p k v (Hz e He)). now apply H1.
Qed.

(* eliminate a list of variables *)
Fixpoint elim_vars (ks : list nat) (s : sys) : sys :=
  match ks with [] => s | k :: ks' => elim_vars ks' (elim_sys k s) end.

Theorem elim_vars_exact ks : forall s p,
  (exists q, (forall i, ~ In i ks -> q i == p i) /\ sat_sys s q) <-> sat_sys (elim_vars ks s) p.
Proof.
  induction ks as [|k ks IH]; intros s p; cbn [elim_vars].
  - split.
    + intros [q [Hq Hs]]. apply (sat_sys_ext s q p); [|exact Hs]. intros i. apply Hq. intros [].
    + intros H. exists p. split; [reflexivity|exact H].
  - rewrite <- IH. split.
    + intros [q [Hq Hs]]. exists (upd q k (p k)). split.
      * intros i Hi. unfold upd. destruct (Nat.eqb_spec i k) as [->|Hne]; [reflexivity|].
        apply Hq. intros [H|H]; [congruence|contradiction].
      * apply elim_sys_exact. exists (q k).
        apply (sat_sys_ext s q); [|exact Hs]. apply peq_sym.
        intros i. rewrite (upd_upd q k (p k) (q k) i). apply (upd_same q k i).
    + intros [q [Hq Hs]]. apply elim_sys_exact in Hs. destruct Hs as [v Hv].
      exists (upd q k v). split; [|exact Hv].
      intros i Hi. unfold upd. destruct (Nat.eqb_spec i k) as [->|Hne].
      * exfalso. apply Hi. now left.
      * apply Hq. intros H. apply Hi. now right.
Qed.

(* eliminate a set of variables, cheapest first (a variable carried by an equality costs nothing;
   otherwise the Fourier-Motzkin product |pos| * |neg|); same exactness statement as [elim_vars] *)
Definition cost (k : nat) (s : sys) : nat :=
  if existsb (fun e => negb (Z.eqb (lcoef e k) 0)) (eqs s) then O
  else (length (poss k (ineqs s)) * length (negs k (ineqs s)))%nat.

Fixpoint pick_best (s : sys) (best : nat) (bc : nat) (ks : list nat) : nat :=
  match ks with
  | [] => best
  | k :: ks' => let c := cost k s in if Nat.ltb c bc then pick_best s k c ks' else pick_best s best bc ks'
  end.

Lemma pick_best_in s ks : forall best bc, pick_best s best bc ks = best \/ In (pick_best s best bc ks) ks.
Proof.
  induction ks as [|k ks IH]; intros best bc; cbn [pick_best]; [now left|].
  destruct (Nat.ltb (cost k s) bc).
  - destruct (IH k (cost k s)) as [H|H]; [right; left; now rewrite H|right; now right].
  - destruct (IH best bc) as [H|H]; [now left|right; now right].
Qed.

Fixpoint elim_best (fuel : nat) (ks : list nat) (s : sys) : sys :=
  match fuel, ks with
  | S f, k0 :: ks' =>
      let k := pick_best s k0 (cost k0 s) ks' in
      elim_best f (remove Nat.eq_dec k ks) (elim_sys k s)
  | _, _ => elim_vars ks s
  end.

Theorem elim_best_exact fuel : forall ks s p,
  (exists q, (forall i, ~ In i ks -> q i == p i) /\ sat_sys s q) <-> sat_sys (elim_best fuel ks s) p.
Proof.
  induction fuel as [|f IH]; intros ks s p; [destruct ks; apply elim_vars_exact|].
  destruct ks as [|k0 ks']; [apply elim_vars_exact|]. cbn [elim_best].
  set (k := pick_best s k0 (cost k0 s) ks'). set (ks := k0 :: ks').
  assert (Hk : In k ks).
  { unfold k, ks. destruct (pick_best_in s ks' k0 (cost k0 s)) as [H|H]; [left; now rewrite H|now right]. }
  assert (Hin : forall i, In i ks <-> i = k \/ In i (remove Nat.eq_dec k ks)).
  { intros i. split.
    - intros Hi. destruct (Nat.eq_dec i k) as [->|Hne]; [now left|right]. apply in_in_remove; auto.
    - intros [->|Hi]; [exact Hk|]. now apply in_remove in Hi. }
  rewrite <- IH. split.
  - intros [q [Hq Hs]]. exists (upd q k (p k)). split.
    + intros i Hi. unfold upd. destruct (Nat.eqb_spec i k) as [->|Hne]; [reflexivity|].
      apply Hq. intros H. apply Hin in H. destruct H as [H|H]; [congruence|contradiction].
    + apply elim_sys_exact. exists (q k).
      apply (sat_sys_ext s q); [|exact Hs]. apply peq_sym.
      intros i. rewrite (upd_upd q k (p k) (q k) i). apply (upd_same q k i).
  - intros [q [Hq Hs]]. apply elim_sys_exact in Hs. destruct Hs as [v Hv].
    exists (upd q k v). split; [|exact Hv].
    intros i Hi. unfold upd. destruct (Nat.eqb_spec i k) as [->|Hne].
    + exfalso. apply Hi. exact Hk.
    + apply Hq. intros H. apply Hi. apply Hin. now right.
Qed.

Definition elim_set (ks : list nat) (s : sys) : sys := elim_best (length ks) ks s.

Theorem elim_set_exact ks s p :
  (exists q, (forall i, ~ In i ks -> q i == p i) /\ sat_sys s q) <-> sat_sys (elim_set ks s) p.
Proof. apply elim_best_exact. Qed.

(* ---------------------------------------------------------------------------------------- *)
(* decision procedures *)

Definition closed_sys (s : sys) : bool :=
  forallb (fun e => all_zero (lcoefs e)) (eqs s) && forallb (fun c => all_zero (coefs c)) (ineqs s).

Definition consts_ok (s : sys) : bool :=
  forallb (fun e => Z.eqb (lcst e) 0) (eqs s) && forallb triv_ok (ineqs s).

Lemma closed_sys_sat s p : closed_sys s = true -> (sat_sys s p <-> consts_ok s = true).
Proof.
  unfold closed_sys, consts_ok. rewrite !andb_true_iff, !forallb_forall. intros [H1 H2]. split.
  - intros [S1 S2]. split.
    + intros e He. specialize (S1 e He). unfold leval in S1.
      rewrite (all_zero_dot _ p 0%nat (H1 e He)) in S1. apply Z.eqb_eq.
      assert (H : inject_Z (lcst e) == inject_Z 0) by (change (inject_Z 0) with 0; lra).
      exact (proj1 (inject_Z_injective _ _) H).
    + intros c Hc. apply (triv_sat c p); [|now apply S2].
      intros j. unfold coef. apply all_zero_nth. now apply H2.
  - intros [S1 S2]. split.
    + intros e He. unfold leval. rewrite (all_zero_dot _ p 0%nat (H1 e He)).
      specialize (S1 e He). apply Z.eqb_eq in S1. rewrite S1. reflexivity.
    + intros c Hc. apply (triv_sat c p); [|now apply S2].
      intros j. unfold coef. apply all_zero_nth. now apply H2.
Qed.

Definition nonempty_sys (n : nat) (s : sys) : option bool :=
  let r := elim_set (seq 0 n) s in
  if closed_sys r then Some (consts_ok r) else None.

Theorem nonempty_sys_exact n s b :
  nonempty_sys n s = Some b -> (b = true <-> exists p, sat_sys s p).
Proof.
  unfold nonempty_sys. destruct (closed_sys _) eqn:C; [|discriminate]. intros [= <-].
  split.
  - intros H. apply (closed_sys_sat _ (fun _ => 0) C) in H.
    apply elim_set_exact in H. destruct H as [q [_ Hq]]. now exists q.
  - intros [p Hp]. apply (closed_sys_sat _ p C). apply elim_set_exact.
    exists p. split; [reflexivity|exact Hp].
Qed.

(* negation of an inequality *)
Definition neg_c (c : cstr) : cstr :=
  {| coefs := map Z.opp (coefs c); cst := (- cst c)%Z; strict := negb (strict c) |}.

Lemma dot_opp l : forall p i, dot (map Z.opp l) p i == - dot l p i.
Proof.
  induction l as [|x l IH]; intros p i; cbn [map dot]; [lra|]. rewrite IH, inject_Z_opp. ring.
Qed.

Lemma eval_neg c p : eval (neg_c c) p == - eval c p.
Proof. unfold eval, neg_c; cbn [coefs cst]. rewrite dot_opp, inject_Z_opp. ring. Qed.

Lemma sat_neg c p : sat (neg_c c) p <-> ~ sat c p.
Proof.
  unfold sat. pose proof (eval_neg c p) as E. cbn [neg_c strict]. destruct (strict c); cbn [negb]; split; intros; lra.
Qed.

Lemma sat_dec c p : {sat c p} + {~ sat c p}.
Proof.
  unfold sat. destruct (strict c).
  - destruct (Qlt_le_dec 0 (eval c p)); [now left|right; lra].
  - destruct (Qlt_le_dec (eval c p) 0); [right; lra|now left].
Qed.

Definition add_ineq (c : cstr) (s : sys) : sys := {| eqs := eqs s; ineqs := c :: ineqs s |}.

Lemma sat_add_ineq c s p : sat_sys (add_ineq c s) p <-> sat c p /\ sat_sys s p.
Proof.
  unfold sat_sys, add_ineq, sat_all; cbn [eqs ineqs In]. split.
  - intros [H1 H2]. split; [apply H2; now left|]. split; [exact H1|]. intros c' H. apply H2. now right.
  - intros [H0 [H1 H2]]. split; [exact H1|]. intros c' [<-|H]; auto.
Qed.

(* does the system imply the inequality c ? *)
Definition implies_c (n : nat) (s : sys) (c : cstr) : option bool :=
  option_map negb (nonempty_sys n (add_ineq (neg_c c) s)).

Theorem implies_c_exact n s c b :
  implies_c n s c = Some b -> (b = true <-> forall p, sat_sys s p -> sat c p).
Proof.
  unfold implies_c. destruct (nonempty_sys _ _) as [b0|] eqn:E; [|discriminate]. cbn. intros [= <-].
  pose proof (nonempty_sys_exact _ _ _ E) as X. split.
  - intros Hb p Hp. destruct (sat_dec c p) as [H|H]; [exact H|]. exfalso.
    assert (b0 = true). { apply X. exists p. apply sat_add_ineq. split; [now apply sat_neg|exact Hp]. }
    subst b0. discriminate.
  - intros H. destruct b0; [|reflexivity]. exfalso.
    destruct (proj1 X eq_refl) as [p Hp]. apply sat_add_ineq in Hp. destruct Hp as [H1 H2].
    apply sat_neg in H1. apply H1. now apply H.
Qed.

(* the two inequalities making up an equality *)
Definition ge_of (e : lin) : cstr := {| coefs := lcoefs e; cst := lcst e; strict := false |}.
Definition le_of (e : lin) : cstr := neg_c {| coefs := lcoefs e; cst := lcst e; strict := true |}.

Lemma eq_as_ineqs e p : leval e p == 0 <-> sat (ge_of e) p /\ sat (le_of e) p.
Proof.
  unfold le_of. rewrite sat_neg. unfold sat, ge_of, eval, leval; cbn [coefs cst strict]. split; intros; lra.
Qed.

Definition oand (a b : option bool) : option bool :=
  match a, b with Some x, Some y => Some (x && y) | _, _ => None end.

Fixpoint oall {A} (f : A -> option bool) (l : list A) : option bool :=
  match l with [] => Some true | x :: l' => oand (f x) (oall f l') end.

Lemma oall_spec {A} (f : A -> option bool) (P : A -> Prop) l b :
  (forall x bx, f x = Some bx -> (bx = true <-> P x)) ->
  oall f l = Some b -> (b = true <-> forall x, In x l -> P x).
Proof.
  intros Hf. revert b. induction l as [|x l IH]; intros b; cbn [oall].
  - intros [= <-]. split; [intros _ x []|reflexivity].
  - destruct (f x) as [bx|] eqn:Fx; [|discriminate]. destruct (oall f l) as [bl|]; [|discriminate].
    cbn. intros [= <-]. rewrite andb_true_iff, (Hf x bx Fx), (IH bl eq_refl). split.
    + intros [H1 H2] y [<-|Hy]; auto.
    + intros H. split; [apply H; now left|]. intros y Hy. apply H. now right.
Qed.

Definition implies_e (n : nat) (s : sys) (e : lin) : option bool :=
  oand (implies_c n s (ge_of e)) (implies_c n s (le_of e)).

Theorem implies_e_exact n s e b :
  implies_e n s e = Some b -> (b = true <-> forall p, sat_sys s p -> leval e p == 0).
Proof.
  unfold implies_e. destruct (implies_c n s (ge_of e)) as [b1|] eqn:E1; [|discriminate].
  destruct (implies_c n s (le_of e)) as [b2|] eqn:E2; [|discriminate]. cbn. intros [= <-].
  rewrite andb_true_iff, (implies_c_exact _ _ _ _ E1), (implies_c_exact _ _ _ _ E2). split.
  - intros [H1 H2] p Hp. apply eq_as_ineqs. auto.
  - intros H. split; intros p Hp; apply (eq_as_ineqs e p); auto.
Qed.

(* inclusion and equivalence of the solution sets of two systems *)
Definition incl_sys (n : nat) (s t : sys) : option bool :=
  oand (oall (implies_e n s) (eqs t)) (oall (implies_c n s) (ineqs t)).

Theorem incl_sys_exact n s t b :
  incl_sys n s t = Some b -> (b = true <-> forall p, sat_sys s p -> sat_sys t p).
Proof.
  unfold incl_sys. destruct (oall (implies_e n s) (eqs t)) as [b1|] eqn:E1; [|discriminate].
  destruct (oall (implies_c n s) (ineqs t)) as [b2|] eqn:E2; [|discriminate]. cbn. intros [= <-].
  rewrite andb_true_iff.
  rewrite (oall_spec _ (fun e => forall p, sat_sys s p -> leval e p == 0) _ _ (implies_e_exact n s) E1).
  rewrite (oall_spec _ (fun c => forall p, sat_sys s p -> sat c p) _ _ (implies_c_exact n s) E2).
  unfold sat_sys at 3, sat_eqs, sat_all. split.
  - intros [H1 H2] p Hp. split; intros x Hx; auto.
  - intros H. split; intros x Hx p Hp; destruct (H p Hp) as [A B]; auto.
Qed.

Definition equiv_sys (n : nat) (s t : sys) : option bool := oand (incl_sys n s t) (incl_sys n t s).

Theorem equiv_sys_exact n s t b :
  equiv_sys n s t = Some b -> (b = true <-> forall p, sat_sys s p <-> sat_sys t p).
Proof.
  unfold equiv_sys. destruct (incl_sys n s t) as [b1|] eqn:E1; [|discriminate].
  destruct (incl_sys n t s) as [b2|] eqn:E2; [|discriminate]. cbn. intros [= <-].
  rewrite andb_true_iff, (incl_sys_exact _ _ _ _ E1), (incl_sys_exact _ _ _ _ E2). split.
  - intros [H1 H2] p. split; auto.
  - intros H. split; intros p; apply H.
Qed.

(* ---------------------------------------------------------------------------------------- *)
(* constraints as the library prints them:  sum a_i x_i + b  (= | >= | >)  0 *)

Inductive ckind := EQ | GE | GT.
Record con := { ccoefs : list Z; ccst : Z; ckd : ckind }.

Definition ceval (c : con) (p : point) : Q := dot (ccoefs c) p 0 + inject_Z (ccst c).
Definition sat_con (c : con) (p : point) : Prop :=
  match ckd c with EQ => ceval c p == 0 | GE => 0 <= ceval c p | GT => 0 < ceval c p end.
Definition sat_cons (cs : list con) (p : point) : Prop := forall c, In c cs -> sat_con c p.

Fixpoint sys_of_cons (cs : list con) : sys :=
  match cs with
  | [] => {| eqs := []; ineqs := [] |}
  | c :: cs' =>
      let s := sys_of_cons cs' in
      match ckd c with
      | EQ => {| eqs := {| lcoefs := ccoefs c; lcst := ccst c |} :: eqs s; ineqs := ineqs s |}
      | GE => {| eqs := eqs s; ineqs := {| coefs := ccoefs c; cst := ccst c; strict := false |} :: ineqs s |}
      | GT => {| eqs := eqs s; ineqs := {| coefs := ccoefs c; cst := ccst c; strict := true |} :: ineqs s |}
      end
  end.

Theorem sys_of_cons_sat cs p : sat_sys (sys_of_cons cs) p <-> sat_cons cs p.
Proof.
  induction cs as [|c cs IH]; cbn [sys_of_cons].
  - split; [intros _ c []|]. intros _. split; intros x [].
  - unfold sat_cons in *. cbn [In]. destruct (ckd c) eqn:K; unfold sat_sys in *; cbn [eqs ineqs]; split.
    + intros [H1 H2] c' [<-|Hc'].
      * unfold sat_con. rewrite K. apply (H1 {| lcoefs := ccoefs c; lcst := ccst c |}). now left.
      * apply IH; [|exact Hc']. split; [|exact H2]. intros e He. apply H1. now right.
    + intros H. assert (H' : forall c', In c' cs -> sat_con c' p) by (intros; apply H; now right).
      apply IH in H'. destruct H' as [H1 H2]. split; [|exact H2].
      intros e [<-|He]; [|now apply H1]. specialize (H c (or_introl eq_refl)). unfold sat_con in H. now rewrite K in H.
    + intros [H1 H2] c' [<-|Hc'].
      * unfold sat_con. rewrite K. apply (H2 {| coefs := ccoefs c; cst := ccst c; strict := false |}). now left.
      * apply IH; [|exact Hc']. split; [exact H1|]. intros e He. apply H2. now right.
    + intros H. assert (H' : forall c', In c' cs -> sat_con c' p) by (intros; apply H; now right).
      apply IH in H'. destruct H' as [H1 H2]. split; [exact H1|].
      intros e [<-|He]; [|now apply H2]. specialize (H c (or_introl eq_refl)). unfold sat_con in H. now rewrite K in H.
    + intros [H1 H2] c' [<-|Hc'].
      * unfold sat_con. rewrite K. apply (H2 {| coefs := ccoefs c; cst := ccst c; strict := true |}). now left.
      * apply IH; [|exact Hc']. split; [exact H1|]. intros e He. apply H2. now right.
    + intros H. assert (H' : forall c', In c' cs -> sat_con c' p) by (intros; apply H; now right).
      apply IH in H'. destruct H' as [H1 H2]. split; [exact H1|].
      intros e [<-|He]; [|now apply H2]. specialize (H c (or_introl eq_refl)). unfold sat_con in H. now rewrite K in H.
Qed.

Definition nonempty_cons (n : nat) (cs : list con) : option bool := nonempty_sys n (sys_of_cons cs).
Definition incl_cons (n : nat) (a b : list con) : option bool := incl_sys n (sys_of_cons a) (sys_of_cons b).
Definition equiv_cons (n : nat) (a b : list con) : option bool := equiv_sys n (sys_of_cons a) (sys_of_cons b).

Theorem nonempty_cons_exact n cs b :
  nonempty_cons n cs = Some b -> (b = true <-> exists p, sat_cons cs p).
Proof.
  intros H. rewrite (nonempty_sys_exact _ _ _ H). split; intros [p Hp]; exists p; now apply sys_of_cons_sat.
Qed.

Theorem incl_cons_exact n a b r :
  incl_cons n a b = Some r -> (r = true <-> forall p, sat_cons a p -> sat_cons b p).
Proof.
  intros H. rewrite (incl_sys_exact _ _ _ _ H). split; intros X p Hp; apply sys_of_cons_sat, X, sys_of_cons_sat, Hp.
Qed.

Theorem equiv_cons_exact n a b r :
  equiv_cons n a b = Some r -> (r = true <-> forall p, sat_cons a p <-> sat_cons b p).
Proof.
  intros H. rewrite (equiv_sys_exact _ _ _ _ H). split; intros X p.
  - rewrite <- !sys_of_cons_sat. apply X.
  - rewrite !sys_of_cons_sat. apply X.
Qed.
