(* Prototype: Fourier-Motzkin elimination over Q with strict inequalities; exactness. *)
From Coq Require Import List ZArith QArith Qminmax Lia Lqa Bool.
Import ListNotations.
Local Open Scope Q_scope.

(* A constraint:  sum_i coef_i * x_i + cst  (>= | >) 0 *)
Record cstr := { coefs : list Z; cst : Z; strict : bool }.

Definition point := nat -> Q.

Fixpoint dot (cs : list Z) (p : point) (i : nat) : Q :=
  match cs with
  | [] => 0
  | c :: cs' => inject_Z c * p i + dot cs' p (S i)
  end.

Definition eval (c : cstr) (p : point) : Q := dot (coefs c) p 0 + inject_Z (cst c).

Definition sat (c : cstr) (p : point) : Prop :=
  if strict c then 0 < eval c p else 0 <= eval c p.

Definition sat_all (cs : list cstr) (p : point) : Prop := forall c, In c cs -> sat c p.

Definition upd (p : point) (k : nat) (v : Q) : point :=
  fun i => if Nat.eqb i k then v else p i.

Definition coef (c : cstr) (k : nat) : Z := nth k (coefs c) 0%Z.

(* vector ops on Z lists *)
Fixpoint vadd (a b : list Z) : list Z :=
  match a, b with
  | [], _ => b
  | _, [] => a
  | x :: a', y :: b' => (x + y)%Z :: vadd a' b'
  end.
Definition vscale (m : Z) (a : list Z) : list Z := map (Z.mul m) a.

Lemma dot_vadd a : forall b p i, dot (vadd a b) p i == dot a p i + dot b p i.
Proof.
  induction a as [|x a IH]; intros b p i; cbn [vadd dot].
  - lra.
  - destruct b as [|y b]; cbn [vadd dot].
    + lra.
    + rewrite IH. rewrite inject_Z_plus. lra.
Qed.

Lemma dot_vscale m a : forall p i, dot (vscale m a) p i == inject_Z m * dot a p i.
Proof.
  induction a as [|x a IH]; intros p i; cbn [vscale map dot].
  - lra.
  - fold (vscale m a). rewrite IH. rewrite inject_Z_mult. lra.
Qed.

(* combination  m1*c1 + m2*c2, m1,m2 > 0 *)
Definition comb (m1 : Z) (c1 : cstr) (m2 : Z) (c2 : cstr) : cstr :=
  {| coefs := vadd (vscale m1 (coefs c1)) (vscale m2 (coefs c2));
     cst := (m1 * cst c1 + m2 * cst c2)%Z;
     strict := strict c1 || strict c2 |}.

Lemma eval_comb m1 c1 m2 c2 p :
  eval (comb m1 c1 m2 c2) p == inject_Z m1 * eval c1 p + inject_Z m2 * eval c2 p.
Proof.
  unfold eval, comb; simpl. rewrite dot_vadd, !dot_vscale.
  rewrite inject_Z_plus, !inject_Z_mult. lra.
Qed.

(* dependence of dot on x_k *)
Lemma dot_upd cs : forall p k v i, (i <= k)%nat ->
  dot cs (upd p k v) i == dot cs p i + inject_Z (nth (k - i) cs 0%Z) * (v - p k).
Proof.
  induction cs as [|c cs IH]; intros p k v i Hik; simpl.
  - destruct (k - i)%nat; simpl; change (inject_Z 0) with 0; lra.
  - unfold upd at 1. destruct (Nat.eqb_spec i k) as [->|Hne].
    + rewrite Nat.sub_diag. 
      assert (H: forall j, (k < j)%nat -> dot cs (upd p k v) j == dot cs p j).
      { clear. induction cs as [|c cs IH]; intros j Hj; simpl; [lra|].
        unfold upd at 1. destruct (Nat.eqb_spec j k); [lia|]. rewrite IH by lia. lra. }
      rewrite H by lia. lra.
    + rewrite IH by lia. replace (k - i)%nat with (S (k - S i)) by lia. simpl. lra.
Qed.

Lemma eval_upd c p k v : eval c (upd p k v) == eval c p + inject_Z (coef c k) * (v - p k).
Proof. unfold eval, coef. rewrite dot_upd by lia. rewrite Nat.sub_0_r. lra. Qed.

(* Partition by sign of coefficient of x_k *)
Definition zeros k cs := filter (fun c => Z.eqb (coef c k) 0) cs.
Definition poss  k cs := filter (fun c => Z.ltb 0 (coef c k)) cs.
Definition negs  k cs := filter (fun c => Z.ltb (coef c k) 0) cs.

Definition elim (k : nat) (cs : list cstr) : list cstr :=
  zeros k cs ++
  flat_map (fun cp => map (fun cn => comb (- coef cn k) cp (coef cp k) cn) (negs k cs)) (poss k cs).

Lemma nth_vscale m a : forall k, nth k (vscale m a) 0%Z = (m * nth k a 0)%Z.
Proof.
  induction a as [|x a IH]; intros [|k]; cbn [vscale map nth]; try lia.
  apply IH.
Qed.

Lemma nth_vadd a : forall b k, nth k (vadd a b) 0%Z = (nth k a 0 + nth k b 0)%Z.
Proof.
  induction a as [|x a IH]; intros [|y b] k; cbn [vadd].
  - destruct k; reflexivity.
  - destruct k; reflexivity.
  - destruct k; cbn [nth]; lia.
  - destruct k; cbn [nth]; [lia|apply IH].
Qed.

Lemma coef_comb m1 c1 m2 c2 k : coef (comb m1 c1 m2 c2) k = (m1 * coef c1 k + m2 * coef c2 k)%Z.
Proof. unfold coef, comb; cbn [coefs]. now rewrite nth_vadd, !nth_vscale. Qed.

(* ---------- one-dimensional Helly: compatible bounds have a common point ---------- *)
Definition lower_ok (v : Q) (b : Q * bool) : Prop := if snd b then fst b < v else fst b <= v.
Definition upper_ok (v : Q) (b : Q * bool) : Prop := if snd b then v < fst b else v <= fst b.
Definition compat (l u : Q * bool) : Prop := if snd l || snd u then fst l < fst u else fst l <= fst u.

Fixpoint qmax1 (a : Q) (l : list (Q * bool)) : Q :=
  match l with [] => a | b :: l' => Qmax a (qmax1 (fst b) l') end.
Fixpoint qmin1 (a : Q) (l : list (Q * bool)) : Q :=
  match l with [] => a | b :: l' => Qmin a (qmin1 (fst b) l') end.

Lemma qmax1_ge_hd l : forall a, a <= qmax1 a l.
Proof. destruct l; intros a; cbn [qmax1]; [apply Qle_refl|apply Q.le_max_l]. Qed.
Lemma qmax1_ge l : forall a b, In b l -> fst b <= qmax1 a l.
Proof.
  induction l as [|c l IH]; intros a b Hb; [destruct Hb|]. destruct Hb as [->|Hb]; cbn [qmax1].
  - eapply Qle_trans; [apply qmax1_ge_hd|apply Q.le_max_r].
  - eapply Qle_trans; [apply (IH (fst c) b Hb)|apply Q.le_max_r].
Qed.
Lemma qmax1_in l : forall a, qmax1 a l == a \/ exists b, In b l /\ fst b == qmax1 a l.
Proof.
  induction l as [|c l IH]; intros a; cbn [qmax1].
  - left; reflexivity.
  - destruct (Q.max_spec a (qmax1 (fst c) l)) as [[_ He]|[_ He]].
    + right. destruct (IH (fst c)) as [H|[b [Hb H]]].
      * exists c. split; [now left|]. rewrite He. symmetry; exact H.
      * exists b. split; [now right|]. rewrite He. exact H.
    + left. exact He.
Qed.
Lemma qmin1_le_hd l : forall a, qmin1 a l <= a.
Proof. destruct l; intros a; cbn [qmin1]; [apply Qle_refl|apply Q.le_min_l]. Qed.
Lemma qmin1_le l : forall a b, In b l -> qmin1 a l <= fst b.
Proof.
  induction l as [|c l IH]; intros a b Hb; [destruct Hb|]. destruct Hb as [->|Hb]; cbn [qmin1].
  - eapply Qle_trans; [apply Q.le_min_r|apply qmin1_le_hd].
  - eapply Qle_trans; [apply Q.le_min_r|apply (IH (fst c) b Hb)].
Qed.
Lemma qmin1_in l : forall a, qmin1 a l == a \/ exists b, In b l /\ fst b == qmin1 a l.
Proof.
  induction l as [|c l IH]; intros a; cbn [qmin1].
  - left; reflexivity.
  - destruct (Q.min_spec a (qmin1 (fst c) l)) as [[_ He]|[_ He]].
    + left. exact He.
    + right. destruct (IH (fst c)) as [H|[b [Hb H]]].
      * exists c. split; [now left|]. rewrite He. symmetry; exact H.
      * exists b. split; [now right|]. rewrite He. exact H.
Qed.

Lemma helly1 (L U : list (Q * bool)) :
  (forall l u, In l L -> In u U -> compat l u) ->
  exists v, (forall l, In l L -> lower_ok v l) /\ (forall u, In u U -> upper_ok v u).
Proof.
  intros Hc. destruct L as [|l0 L], U as [|u0 U].
  - exists 0. split; intros ? [].
  - exists (qmin1 (fst u0) U - 1). split; [intros ? []|]. intros u Hu.
    assert (qmin1 (fst u0) U <= fst u).
    { destruct Hu as [->|Hu]; [apply qmin1_le_hd|apply qmin1_le, Hu]. }
    unfold upper_ok. destruct (snd u); lra.
  - exists (qmax1 (fst l0) L + 1). split; [|intros ? []]. intros l Hl.
    assert (fst l <= qmax1 (fst l0) L).
    { destruct Hl as [->|Hl]; [apply qmax1_ge_hd|apply qmax1_ge, Hl]. }
    unfold lower_ok. destruct (snd l); lra.
  - set (M := qmax1 (fst l0) L). set (m := qmin1 (fst u0) U).
    assert (HM : exists lm, In lm (l0 :: L) /\ fst lm == M).
    { destruct (qmax1_in L (fst l0)) as [H|[b [Hb H]]].
      - exists l0. split; [now left|]. symmetry; exact H.
      - exists b. split; [now right|exact H]. }
    assert (Hm : exists um, In um (u0 :: U) /\ fst um == m).
    { destruct (qmin1_in U (fst u0)) as [H|[b [Hb H]]].
      - exists u0. split; [now left|]. symmetry; exact H.
      - exists b. split; [now right|exact H]. }
    destruct HM as [lm [Hlm HlmM]], Hm as [um [Hum Humm]].
    assert (HLM : forall l, In l (l0 :: L) -> fst l <= M).
    { intros l [->|Hl]; [apply qmax1_ge_hd|apply qmax1_ge, Hl]. }
    assert (HUm : forall u, In u (u0 :: U) -> m <= fst u).
    { intros u [->|Hu]; [apply qmin1_le_hd|apply qmin1_le, Hu]. }
    exists ((M + m) / 2). split.
    + intros l Hl. pose proof (HLM l Hl) as H1. pose proof (Hc l um Hl Hum) as H2.
      unfold compat in H2. unfold lower_ok.
      pose proof (Hc lm um Hlm Hum) as H3. unfold compat in H3.
      assert (M <= m). { destruct (snd lm || snd um); lra. }
      destruct (snd l); cbn [orb] in H2.
      * assert (fst l < (M + m) / 2); [|assumption].
        apply Qlt_shift_div_l; lra.
      * apply Qle_shift_div_l; lra.
    + intros u Hu. pose proof (HUm u Hu) as H1. pose proof (Hc lm u Hlm Hu) as H2.
      unfold compat in H2. unfold upper_ok.
      pose proof (Hc lm um Hlm Hum) as H3. unfold compat in H3.
      assert (M <= m). { destruct (snd lm || snd um); lra. }
      destruct (snd u); rewrite ?orb_true_r, ?orb_false_r in H2.
      * apply Qlt_shift_div_r; lra.
      * apply Qle_shift_div_r; [lra|]. destruct (snd lm); lra.
Qed.

(* ---------- exactness of one elimination step ---------- *)
Lemma sat_indep c p k v : coef c k = 0%Z -> (sat c (upd p k v) <-> sat c p).
Proof.
  intros H. unfold sat. pose proof (eval_upd c p k v) as E. rewrite H in E. change (inject_Z 0) with 0 in E.
  destruct (strict c); split; intros; lra.
Qed.

Lemma sat_comb m1 c1 m2 c2 p : (0 < m1)%Z -> (0 < m2)%Z -> sat c1 p -> sat c2 p -> sat (comb m1 c1 m2 c2) p.
Proof.
  intros H1 H2. unfold sat. pose proof (eval_comb m1 c1 m2 c2 p) as E. cbn [comb strict].
  assert (0 < inject_Z m1) by (change 0 with (inject_Z 0); now rewrite <- Zlt_Qlt).
  assert (0 < inject_Z m2) by (change 0 with (inject_Z 0); now rewrite <- Zlt_Qlt).
  destruct (strict c1), (strict c2); cbn [orb]; intros; nra.
Qed.

Lemma in_elim k cs c :
  In c (elim k cs) <->
  (In c cs /\ coef c k = 0%Z) \/
  (exists cp cn, In cp cs /\ In cn cs /\ (0 < coef cp k)%Z /\ (coef cn k < 0)%Z /\
                 c = comb (- coef cn k) cp (coef cp k) cn).
Proof.
  unfold elim, zeros, poss, negs. rewrite in_app_iff, filter_In, in_flat_map. split.
  - intros [[H1 H2]|[cp [Hcp H]]].
    + left. split; [exact H1|]. now apply Z.eqb_eq.
    + right. apply filter_In in Hcp. destruct Hcp as [Hcp1 Hcp2].
      apply in_map_iff in H. destruct H as [cn [He Hcn]]. apply filter_In in Hcn.
      destruct Hcn as [Hcn1 Hcn2]. exists cp, cn. repeat split; auto.
      * now apply Z.ltb_lt. * now apply Z.ltb_lt.
  - intros [[H1 H2]|[cp [cn [H1 [H2 [H3 [H4 ->]]]]]]].
    + left. split; [exact H1|]. now apply Z.eqb_eq.
    + right. exists cp. split; [apply filter_In; split; [exact H1|now apply Z.ltb_lt]|].
      apply in_map_iff. exists cn. split; [reflexivity|]. apply filter_In. split; [exact H2|now apply Z.ltb_lt].
Qed.

Theorem elim_sound k cs p v : sat_all cs (upd p k v) -> sat_all (elim k cs) p.
Proof.
  intros H c Hc. apply in_elim in Hc. destruct Hc as [[Hc H0]|[cp [cn [Hp [Hn [Hpk [Hnk ->]]]]]]].
  - apply (sat_indep c p k v H0). now apply H.
  - eapply (sat_indep _ p k v).
    + rewrite coef_comb. lia.
    + apply sat_comb; try lia; now apply H.
Qed.

Theorem elim_complete k cs p : sat_all (elim k cs) p -> exists v, sat_all cs (upd p k v).
Proof.
  intros H.
  (* bounds on v: for cp with a>0:  eval cp p + a*(v - p k) (>|>=) 0  <->  v (>|>=) p k - eval cp p / a *)
  set (lb := fun c => (p k - eval c p / inject_Z (coef c k), strict c)).
  set (L := map lb (poss k cs)). set (U := map lb (negs k cs)).
  destruct (helly1 L U) as [v [HL HU]].
  - intros l u Hl Hu. apply in_map_iff in Hl, Hu. destruct Hl as [cp [<- Hcp]], Hu as [cn [<- Hcn]].
    unfold poss in Hcp; unfold negs in Hcn. apply filter_In in Hcp, Hcn.
    destruct Hcp as [Hcp1 Hcp2], Hcn as [Hcn1 Hcn2]. apply Z.ltb_lt in Hcp2, Hcn2.
    assert (Hs : sat (comb (- coef cn k) cp (coef cp k) cn) p).
    { apply H. apply in_elim. right. exists cp, cn. auto. }
    unfold sat in Hs. pose proof (eval_comb (- coef cn k) cp (coef cp k) cn p) as E. cbn [comb strict] in Hs.
    unfold compat, lb; cbn [fst snd].
    set (a := inject_Z (coef cp k)) in *. set (b := inject_Z (coef cn k)) in *.
    assert (Ha : 0 < a) by (unfold a; change 0 with (inject_Z 0); now rewrite <- Zlt_Qlt).
    assert (Hb : b < 0) by (unfold b; change 0 with (inject_Z 0); now rewrite <- Zlt_Qlt).
    rewrite inject_Z_opp in E. fold a b in E.
    set (ep := eval cp p) in *. set (en := eval cn p) in *.
    assert (E1 : ep / a * a == ep) by (field; lra).
    assert (E2 : en / b * b == en) by (field; lra).
    set (x := ep / a) in *. set (y := en / b) in *.
    (* -b*ep + a*en >(=) 0 ; ep = x a, en = y b :  -b a x + a b y = a b (y - x) ... *)
    set (z := eval (comb (- coef cn k) cp (coef cp k) cn) p) in *.
    assert (Hz : z == (a * b) * (y - x)) by (rewrite E, <- E1, <- E2; ring).
    assert (Hab : a * b < 0) by nra.
    clearbody z x y. clear E E1 E2.
    destruct (strict cp || strict cn).
    + destruct (Qlt_le_dec y x) as [Hyx|Hyx]; [lra|]. exfalso. nra.
    + destruct (Qlt_le_dec x y) as [Hyx|Hyx]; [|lra]. exfalso. nra.
  - exists v. intros c Hc.
    destruct (Z.compare_spec (coef c k) 0) as [H0|Hlt|Hgt].
    + apply sat_indep; [exact H0|]. apply H. apply in_elim. left. auto.
    + assert (Hin : In (lb c) U).
      { apply in_map. apply filter_In. split; [exact Hc|now apply Z.ltb_lt]. }
      specialize (HU _ Hin). unfold upper_ok, lb in HU; cbn [fst snd] in HU.
      unfold sat. pose proof (eval_upd c p k v) as E.
      set (b := inject_Z (coef c k)) in *.
      assert (Hb : b < 0) by (unfold b; change 0 with (inject_Z 0); now rewrite <- Zlt_Qlt).
      set (e := eval c p) in *.
      assert (E2 : e / b * b == e) by (field; lra). set (y := e / b) in *.
      destruct (strict c); nra.
    + assert (Hin : In (lb c) L).
      { apply in_map. apply filter_In. split; [exact Hc|now apply Z.ltb_lt]. }
      specialize (HL _ Hin). unfold lower_ok, lb in HL; cbn [fst snd] in HL.
      unfold sat. pose proof (eval_upd c p k v) as E.
      set (a := inject_Z (coef c k)) in *.
      assert (Ha : 0 < a) by (unfold a; change 0 with (inject_Z 0); now rewrite <- Zlt_Qlt).
      set (e := eval c p) in *.
      assert (E2 : e / a * a == e) by (field; lra). set (y := e / a) in *.
      destruct (strict c); nra.
Qed.

Theorem elim_exact k cs p : (exists v, sat_all cs (upd p k v)) <-> sat_all (elim k cs) p.
Proof. split; [intros [v H]; eapply elim_sound; eauto|apply elim_complete]. Qed.


(* dimension bound: all coefficient lists have length <= n *)
Definition dim_ok (n : nat) (cs : list cstr) : Prop := forall c, In c cs -> (length (coefs c) <= n)%nat.

(* after eliminating variable k, coefficient k of every constraint is 0 *)
Lemma elim_coef0 k cs c : In c (elim k cs) -> coef c k = 0%Z.
Proof.
  intros H. apply in_elim in H. destruct H as [[_ H]|[cp [cn [_ [_ [Hp [Hn ->]]]]]]]; [exact H|].
  rewrite coef_comb. lia.
Qed.

(* elimination does not resurrect other zero columns *)
Lemma elim_keeps_zero k j cs : (forall c, In c cs -> coef c j = 0%Z) -> forall c, In c (elim k cs) -> coef c j = 0%Z.
Proof.
  intros H c Hc. apply in_elim in Hc. destruct Hc as [[Hc _]|[cp [cn [Hp [Hn [_ [_ ->]]]]]]]; [auto|].
  rewrite coef_comb, (H _ Hp), (H _ Hn). lia.
Qed.

Lemma length_vadd a : forall b, length (vadd a b) = Nat.max (length a) (length b).
Proof. induction a as [|x a IH]; intros [|y b]; cbn [vadd length]; auto. now rewrite IH. Qed.

Lemma elim_dim n k cs : dim_ok n cs -> dim_ok n (elim k cs).
Proof.
  intros H c Hc. apply in_elim in Hc. destruct Hc as [[Hc _]|[cp [cn [Hp [Hn [_ [_ ->]]]]]]]; [auto|].
  cbn [comb coefs]. rewrite length_vadd. unfold vscale. rewrite !map_length.
  specialize (H _ Hp) as H1. specialize (H _ Hn) as H2. lia.
Qed.

Fixpoint elim_all (n : nat) (cs : list cstr) : list cstr :=
  match n with O => cs | S k => elim_all k (elim k cs) end.

(* a constraint all of whose coefficients (below its length) are zero evaluates to its constant *)
Lemma dot_zero cs : forall p i, (forall j, nth j cs 0%Z = 0%Z) -> dot cs p i == 0.
Proof.
  induction cs as [|c cs IH]; intros p i H; cbn [dot]; [lra|].
  rewrite IH by (intros j; apply (H (S j))). specialize (H O). cbn in H. subst c.
  change (inject_Z 0) with 0. lra.
Qed.

Definition triv_ok (c : cstr) : bool := if strict c then Z.ltb 0 (cst c) else Z.leb 0 (cst c).

Lemma triv_sat c p : (forall j, coef c j = 0%Z) -> (sat c p <-> triv_ok c = true).
Proof.
  intros H. unfold sat, triv_ok, eval. pose proof (dot_zero (coefs c) p 0 H) as E.
  destruct (strict c).
  - rewrite Z.ltb_lt. split; intros H1.
    + apply Zlt_Qlt in H1 || (rewrite Zlt_Qlt; change (inject_Z 0) with 0; lra).
    + rewrite Zlt_Qlt in H1. change (inject_Z 0) with 0 in H1. lra.
  - rewrite Z.leb_le. split; intros H1.
    + rewrite Zle_Qle. change (inject_Z 0) with 0. lra.
    + rewrite Zle_Qle in H1. change (inject_Z 0) with 0 in H1. lra.
Qed.

(* main: exists point <-> all residual constants fine *)
Lemma elim_all_exact n : forall cs p,
  (exists q, (forall i, (n <= i)%nat -> q i == p i) /\ sat_all cs q) <-> sat_all (elim_all n cs) p.
Proof.
  induction n as [|n IH]; intros cs p; cbn [elim_all].
  - split.
    + intros [q [Hq Hs]] c Hc. specialize (Hs c Hc). unfold sat, eval in *.
      assert (E : forall l i, dot l q i == dot l p i).
      { induction l as [|x l IHl]; intros i; cbn [dot]; [lra|]. rewrite IHl, (Hq i) by lia. lra. }
      pose proof (E (coefs c) 0%nat) as E0. destruct (strict c); lra.
    + intros H. exists p. split; [reflexivity|exact H].
  - rewrite <- IH. split.
    + intros [q [Hq Hs]]. exists (upd q n (p n)). split.
      { intros i Hi. unfold upd. destruct (Nat.eqb_spec i n) as [->|Hne]; [reflexivity|apply Hq; lia]. }
      apply (elim_sound n cs (upd q n (p n)) (q n)).
      intros c Hc. specialize (Hs c Hc). unfold sat, eval in *.
      assert (E : forall l i, dot l (upd (upd q n (p n)) n (q n)) i == dot l q i).
      { induction l as [|x l IHl]; intros i; cbn [dot]; [lra|]. rewrite IHl. unfold upd.
        destruct (Nat.eqb_spec i n) as [->|]; lra. }
      pose proof (E (coefs c) 0%nat) as E0. destruct (strict c); lra.
    + intros [q [Hq Hs]]. apply elim_complete in Hs. destruct Hs as [v Hv].
      exists (upd q n v). split; [|exact Hv].
      intros i Hi. unfold upd. destruct (Nat.eqb_spec i n); [lia|]. apply Hq. lia.
Qed.

Definition nonempty_b (n : nat) (cs : list cstr) : bool := forallb triv_ok (elim_all n cs).

Lemma elim_all_zero n : forall cs, (forall c, In c cs -> forall j, (n <= j)%nat -> coef c j = 0%Z) ->
  forall c, In c (elim_all n cs) -> forall j, coef c j = 0%Z.
Proof.
  induction n as [|n IH]; intros cs Hz c Hc j; cbn [elim_all] in Hc.
  - apply (Hz c Hc j). lia.
  - apply (IH (elim n cs)); [|exact Hc]. intros c' Hc' j' Hj'.
    destruct (Nat.eq_dec j' n) as [->|Hne].
    + eapply elim_coef0; eauto.
    + eapply (elim_keeps_zero n j' cs); [|exact Hc']. intros c'' Hc''. apply Hz; [exact Hc''|lia].
Qed.

Theorem nonempty_b_exact n cs : dim_ok n cs -> (nonempty_b n cs = true <-> exists p, sat_all cs p).
Proof.
  intros Hd. unfold nonempty_b. rewrite forallb_forall.
  assert (Hz : forall c, In c (elim_all n cs) -> forall j, coef c j = 0%Z).
  { apply elim_all_zero. intros c Hc j Hj. unfold coef. apply nth_overflow. specialize (Hd c Hc). lia. }
  split.
  - intros H. destruct (proj2 (elim_all_exact n cs (fun _ => 0))) as [q [_ Hq]].
    + intros c Hc. apply (triv_sat c _ (Hz c Hc)). now apply H.
    + now exists q.
  - intros [p Hp] c Hc. apply (triv_sat c p (Hz c Hc)).
    apply (proj1 (elim_all_exact n cs p)); [|exact Hc]. exists p. split; [reflexivity|exact Hp].
Qed.
