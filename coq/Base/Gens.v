(* Generator systems (lines, rays, points, closure points with positive divisors), their
   denotation (with the NNC rule: the weights of points and closure points sum to 1 and the points
   carry a positive share), and the exact conversion to a constraint system by projecting the
   lifted system  { (x, mu) | x = sum mu_j v_j, ... }  onto x. *)
From Coq Require Import List ZArith QArith Qminmax Lia Lqa Bool.
Require Import PPLV.Base.FM PPLV.Base.Sys.
Import ListNotations.
Local Open Scope Q_scope.

Inductive gkind := GLine | GRay | GPoint | GClosure.
Record gen := { gk : gkind; gcoefs : list Z; gdiv : Z }.

Definition is_line (g : gen) : bool := match gk g with GLine => true | _ => false end.
Definition pc_weight (g : gen) : Z := match gk g with GPoint | GClosure => gdiv g | _ => 0%Z end.
Definition p_weight (g : gen) : Z := match gk g with GPoint => gdiv g | _ => 0%Z end.
Definition gcoord (i : nat) (g : gen) : Z := nth i (gcoefs g) 0%Z.

(* [dot (map f G) mu 0] is  sum_j f(g_j) * mu_j.   mu_j = lambda_j / divisor_j. *)
Definition in_gens (n : nat) (G : list gen) (p : point) : Prop :=
  exists mu : nat -> Q,
    (forall j g, nth_error G j = Some g -> is_line g = false -> 0 <= mu j) /\
    dot (map pc_weight G) mu 0 == 1 /\
    0 < dot (map p_weight G) mu 0 /\
    (forall i, (i < n)%nat -> p i == dot (map (gcoord i) G) mu 0).

(* ---------- the lifted system over (x_0..x_{n-1}, mu_0..mu_{m-1}) ---------- *)
Fixpoint unit_vec (n i : nat) : list Z :=
  match n with
  | O => []
  | S n' => match i with O => 1%Z :: repeat 0%Z n' | S i' => 0%Z :: unit_vec n' i' end
  end.

Definition coord_eq (n : nat) (G : list gen) (i : nat) : lin :=
  {| lcoefs := unit_vec n i ++ map (fun g => (- gcoord i g)%Z) G; lcst := 0 |}.

Definition weight_eq (n : nat) (G : list gen) : lin :=
  {| lcoefs := repeat 0%Z n ++ map pc_weight G; lcst := (-1)%Z |}.

Definition pweight_gt (n : nat) (G : list gen) : cstr :=
  {| coefs := repeat 0%Z n ++ map p_weight G; cst := 0; strict := true |}.

Fixpoint sign_cs (k : nat) (G : list gen) : list cstr :=
  match G with
  | [] => []
  | g :: G' =>
      (if is_line g then [] else [{| coefs := repeat 0%Z k ++ [1%Z]; cst := 0; strict := false |}])
      ++ sign_cs (S k) G'
  end.

Definition lift (n : nat) (G : list gen) : sys :=
  {| eqs := weight_eq n G :: map (coord_eq n G) (seq 0 n);
     ineqs := pweight_gt n G :: sign_cs n G |}.

Definition cons_of_gens (n : nat) (G : list gen) : sys :=
  elim_set (seq n (length G)) (lift n G).

(* ---------- dot-product lemmas ---------- *)
Lemma dot_app a : forall b p i, dot (a ++ b) p i == dot a p i + dot b p (i + length a).
Proof.
  induction a as [|x a IH]; intros b p i; cbn [app dot length].
  - rewrite Nat.add_0_r. lra.
  - rewrite IH. replace (S i + length a)%nat with (i + S (length a))%nat by lia. lra.
Qed.

Lemma dot_repeat0 n : forall p i, dot (repeat 0%Z n) p i == 0.
Proof. induction n as [|n IH]; intros p i; cbn [repeat dot]; [lra|]. rewrite IH. change (inject_Z 0) with 0. lra. Qed.

Lemma dot_unit n : forall i p k, (i < n)%nat -> dot (unit_vec n i) p k == p (k + i)%nat.
Proof.
  induction n as [|n IH]; intros i p k Hi; [lia|]. destruct i as [|i]; cbn [unit_vec dot].
  - rewrite dot_repeat0, Nat.add_0_r. change (inject_Z 1) with 1. lra.
  - rewrite IH by lia. change (inject_Z 0) with 0. replace (S k + i)%nat with (k + S i)%nat by lia. lra.
Qed.

Lemma unit_vec_length n : forall i, length (unit_vec n i) = n.
Proof. induction n as [|n IH]; intros [|i]; cbn [unit_vec length]; auto. now rewrite repeat_length. Qed.

(* shifting the valuation *)
Lemma dot_shift l : forall (q mu : nat -> Q) k j, (forall t, q (k + t)%nat == mu (j + t)%nat) -> dot l q k == dot l mu j.
Proof.
  induction l as [|x l IH]; intros q mu k j H; cbn [dot]; [reflexivity|].
  rewrite (IH q mu (S k) (S j)).
  - specialize (H 0%nat). rewrite !Nat.add_0_r in H. rewrite H. reflexivity.
  - intros t. specialize (H (S t)). now replace (S k + t)%nat with (k + S t)%nat by lia; replace (S j + t)%nat with (j + S t)%nat by lia.
Qed.

Lemma sat_sign_cs G : forall k (q : point),
  sat_all (sign_cs k G) q <-> (forall j g, nth_error G j = Some g -> is_line g = false -> 0 <= q (k + j)%nat).
Proof.
  induction G as [|g G IH]; intros k q; cbn [sign_cs].
  - split; [intros _ j g H; destruct j; discriminate|intros _ c []].
  - split.
    + intros H j g0 Hj Hl. destruct j as [|j]; cbn [nth_error] in Hj.
      * injection Hj as ->. rewrite Hl in H.
        assert (S : sat {| coefs := repeat 0%Z k ++ [1%Z]; cst := 0; strict := false |} q) by (apply H; now left).
        unfold sat, eval in S; cbn [coefs cst strict] in S. rewrite dot_app, dot_repeat0 in S.
        cbn [dot] in S. rewrite repeat_length in S. change (inject_Z 1) with 1 in S. change (inject_Z 0) with 0 in S.
        rewrite Nat.add_0_r. cbn [Nat.add] in S. lra.
      * replace (k + S j)%nat with (S k + j)%nat by lia. apply (proj1 (IH (S k) q)) with (g := g0); [|exact Hj|exact Hl].
        intros c Hc. apply H. apply in_or_app. now right.
    + intros H c Hc. apply in_app_or in Hc. destruct Hc as [Hc|Hc].
      * destruct (is_line g) eqn:L; [destruct Hc|]. destruct Hc as [<-|[]].
        unfold sat, eval; cbn [coefs cst strict]. rewrite dot_app, dot_repeat0. cbn [dot].
        rewrite repeat_length. change (inject_Z 1) with 1. change (inject_Z 0) with 0.
        specialize (H 0%nat g eq_refl L). rewrite Nat.add_0_r in H. cbn [Nat.add]. lra.
      * apply (proj2 (IH (S k) q)); [|exact Hc]. intros j g0 Hj Hl.
        replace (S k + j)%nat with (k + S j)%nat by lia. now apply (H (S j) g0).
Qed.

Lemma sat_lift n G q :
  sat_sys (lift n G) q <->
  ((forall j g, nth_error G j = Some g -> is_line g = false -> 0 <= q (n + j)%nat) /\
   dot (map pc_weight G) q n == 1 /\
   0 < dot (map p_weight G) q n /\
   (forall i, (i < n)%nat -> q i == dot (map (gcoord i) G) q n)).
Proof.
  unfold sat_sys, lift; cbn [eqs ineqs].
  assert (EW : leval (weight_eq n G) q == dot (map pc_weight G) q n - 1).
  { unfold leval, weight_eq; cbn [lcoefs lcst]. rewrite dot_app, dot_repeat0, repeat_length. cbn [Nat.add].
    change (inject_Z (-1)) with (-1). lra. }
  assert (EP : eval (pweight_gt n G) q == dot (map p_weight G) q n).
  { unfold eval, pweight_gt; cbn [coefs cst]. rewrite dot_app, dot_repeat0, repeat_length. cbn [Nat.add].
    change (inject_Z 0) with 0. lra. }
  assert (EC : forall i, (i < n)%nat -> leval (coord_eq n G i) q == q i - dot (map (gcoord i) G) q n).
  { intros i Hi. unfold leval, coord_eq; cbn [lcoefs lcst]. rewrite dot_app, unit_vec_length, dot_unit by exact Hi.
    cbn [Nat.add]. change (inject_Z 0) with 0.
    assert (X : forall l k, dot (map (fun g => (- gcoord i g)%Z) l) q k == - dot (map (gcoord i) l) q k).
    { induction l as [|g l IHl]; intros k; cbn [map dot]; [lra|]. rewrite IHl, inject_Z_opp. ring. }
    rewrite X. lra. }
  split.
  - intros [HE HI]. split; [|split; [|split]].
    + apply (proj1 (sat_sign_cs G n q)). intros c Hc. apply HI. now right.
    + assert (H : leval (weight_eq n G) q == 0) by (apply HE; now left). lra.
    + assert (H : sat (pweight_gt n G) q) by (apply HI; now left). unfold sat in H. cbn [pweight_gt strict] in H. lra.
    + intros i Hi. assert (H : leval (coord_eq n G i) q == 0).
      { apply HE. right. apply in_map. apply in_seq. lia. }
      rewrite (EC i Hi) in H. lra.
  - intros [H1 [H2 [H3 H4]]]. split.
    + intros e [<-|He]; [lra|]. apply in_map_iff in He. destruct He as [i [<- Hi]]. apply in_seq in Hi.
      rewrite (EC i) by lia. rewrite <- (H4 i) by lia. lra.
    + intros c [<-|Hc].
      * unfold sat. cbn [pweight_gt strict]. fold (pweight_gt n G). lra.
      * now apply (proj2 (sat_sign_cs G n q)).
Qed.

(* ---------- exactness of the conversion ---------- *)
Theorem cons_of_gens_exact n G p : sat_sys (cons_of_gens n G) p <-> in_gens n G p.
Proof.
  unfold cons_of_gens. rewrite <- elim_set_exact. set (m := length G). split.
  - intros [q [Hq Hs]]. apply sat_lift in Hs. destruct Hs as [H1 [H2 [H3 H4]]].
    exists (fun j => q (n + j)%nat).
    assert (SH : forall l, dot l q n == dot l (fun j => q (n + j)%nat) 0).
    { intros l. apply dot_shift. intros t. reflexivity. }
    split; [|split; [|split]].
    + intros j g Hj Hl. now apply (H1 j g).
    + now rewrite <- SH.
    + now rewrite <- SH.
    + intros i Hi. rewrite <- SH. rewrite <- (H4 i Hi). symmetry. apply Hq. rewrite in_seq. lia.
  - intros [mu [H1 [H2 [H3 H4]]]].
    set (q := fun i => if (i <? n)%nat then p i else if (i <? n + m)%nat then mu (i - n)%nat else p i).
    assert (SH : forall l, length l = m -> dot l q n == dot l mu 0).
    { intros l Hl.
      assert (X : forall l k j, (n + j + length l <= n + m)%nat -> k = (n + j)%nat -> dot l q k == dot l mu j).
      { clear. induction l as [|x l IH]; intros k j Hlen ->; cbn [dot]; [reflexivity|].
        cbn [length] in Hlen. rewrite (IH (S (n + j)) (S j)) by lia.
        unfold q. destruct (Nat.ltb_spec (n + j) n); [lia|]. destruct (Nat.ltb_spec (n + j) (n + m)); [|lia].
        replace (n + j - n)%nat with j by lia. reflexivity. }
      apply X; lia. }
    exists q. split.
    + intros i Hi. unfold q. rewrite in_seq in Hi.
      destruct (Nat.ltb_spec i n); [reflexivity|]. destruct (Nat.ltb_spec i (n + m)); [lia|reflexivity].
    + apply sat_lift. split; [|split; [|split]].
      * intros j g Hj Hl. unfold q.
        assert (j < m)%nat by (apply nth_error_Some; congruence).
        destruct (Nat.ltb_spec (n + j) n); [lia|]. destruct (Nat.ltb_spec (n + j) (n + m)); [|lia].
        replace (n + j - n)%nat with j by lia. now apply (H1 j g).
      * rewrite SH by (now rewrite map_length). exact H2.
      * rewrite SH by (now rewrite map_length). exact H3.
      * intros i Hi. rewrite SH by (now rewrite map_length). unfold q.
        destruct (Nat.ltb_spec i n); [|lia]. now apply H4.
Qed.

(* the double-description check: a constraint system and a generator system denote the same set *)
Definition dd_pair (n : nat) (cs : list con) (G : list gen) : option bool :=
  equiv_sys (n + length G) (sys_of_cons cs) (cons_of_gens n G).

Theorem dd_pair_exact n cs G b :
  dd_pair n cs G = Some b -> (b = true <-> forall p, sat_cons cs p <-> in_gens n G p).
Proof.
  unfold dd_pair. intros H. rewrite (equiv_sys_exact _ _ _ _ H). split; intros X p.
  - rewrite <- sys_of_cons_sat, <- cons_of_gens_exact. apply X.
  - rewrite sys_of_cons_sat, cons_of_gens_exact. apply X.
Qed.
