(* C06 -- executable reference solver.
   LP: the exact supremum [Sup.sup_expr] (theorem sup_expr_exact).
   MIP: branch and bound with explicit fuel over that exact LP.  The LP optimum VALUE comes from the
   verified procedure; the point on the optimal face and the unboundedness ray come from an
   unverified search ([find_point], Fourier-Motzkin with back-substitution) whose output is CHECKED
   by evaluation before it is used, so that every answer other than [OutOfFuel] is proved sound. *)
From Coq Require Import List ZArith QArith Qround Qminmax Lia Lqa Bool.
Require Import PPLV.Base.FM PPLV.Base.Sys PPLV.Poly.PolyOps PPLV.Base.Sup PPLV.MIP.MipSpec.
Import ListNotations.
Local Open Scope Q_scope.

(* ---------- decidable checks on a concrete point ---------- *)
Definition integral_b (q : Q) : bool := Z.eqb (Qnum q mod Zpos (Qden q)) 0.

Lemma integral_b_ok q : integral_b q = true -> integral q.
Proof.
  unfold integral_b, integral. intros H. apply Z.eqb_eq in H.
  exists (Qnum q / Zpos (Qden q))%Z. unfold Qeq. cbn [inject_Z Qnum Qden].
  rewrite Z.mul_1_r. rewrite Z.mul_comm. apply Z_div_exact_full_2; [lia|exact H].
Qed.

Lemma integral_inject z : integral (inject_Z z).
Proof. exists z. reflexivity. Qed.

Definition sat_b (c : cstr) (x : point) : bool :=
  if strict c then negb (Qle_bool (eval c x) 0) else Qle_bool 0 (eval c x).

Lemma sat_b_ok c x : sat_b c x = true -> sat c x.
Proof.
  unfold sat_b, sat. destruct (strict c).
  - intros H. apply negb_true_iff in H. apply Qnot_le_lt. intros L. apply Qle_bool_iff in L. congruence.
  - intros H. now apply Qle_bool_iff.
Qed.

Definition sat_sys_b (s : sys) (x : point) : bool :=
  forallb (fun e => Qeq_bool (leval e x) 0) (eqs s) && forallb (fun c => sat_b c x) (ineqs s).

Lemma sat_sys_b_ok s x : sat_sys_b s x = true -> sat_sys s x.
Proof.
  unfold sat_sys_b. rewrite andb_true_iff, !forallb_forall. intros [H1 H2]. split.
  - intros e He. apply Qeq_bool_iff. now apply H1.
  - intros c Hc. apply sat_b_ok. now apply H2.
Qed.

Definition ints_ok_b (l : list nat) (x : point) : bool := forallb (fun i => integral_b (x i)) l.

Lemma ints_ok_b_ok l x : ints_ok_b l x = true -> ints_ok l x.
Proof. unfold ints_ok_b, ints_ok. rewrite forallb_forall. intros H i Hi. apply integral_b_ok. now apply H. Qed.

(* ---------- an (unverified) point of a system: elimination chain + back-substitution ---------- *)
Fixpoint chain (fuel : nat) (ks : list nat) (s : sys) : list (nat * sys) :=
  match fuel, ks with
  | S f, k0 :: ks' =>
      let k := pick_best s k0 (cost k0 s) ks' in
      (k, s) :: chain f (remove Nat.eq_dec k ks) (elim_sys k s)
  | _, _ => []
  end.

Definition set_nth (k : nat) (v : Q) (l : list Q) : list Q := firstn k l ++ v :: skipn (S k) l.

Definition eqvals (k : nat) (s : sys) (x : point) : list Q :=
  flat_map (fun q => let a := lcoef q k in if Z.eqb a 0 then [] else [ - leval q x / inject_Z a ]) (eqs s).
Definition lows (k : nat) (s : sys) (x : point) : list Q :=
  flat_map (fun c => let a := coef c k in if Z.ltb 0 a then [ - eval c x / inject_Z a ] else []) (ineqs s).
Definition upps (k : nat) (s : sys) (x : point) : list Q :=
  flat_map (fun c => let a := coef c k in if Z.ltb a 0 then [ - eval c x / inject_Z a ] else []) (ineqs s).

Definition qmaxl (l : list Q) : option Q :=
  match l with [] => None | a :: l' => Some (fold_left (fun m b => if Qle_bool m b then b else m) l' a) end.
Definition qminl (l : list Q) : option Q :=
  match l with [] => None | a :: l' => Some (fold_left (fun m b => if Qle_bool b m then b else m) l' a) end.

(* value for coordinate k given the other coordinates (coordinate k of x must be 0): the value forced
   by an equality if any; otherwise an integer of the interval when there is one, else its lower end *)
Definition choose (k : nat) (s : sys) (x : point) : Q :=
  match eqvals k s x with
  | v :: _ => Qred v
  | [] =>
      match qmaxl (lows k s x), qminl (upps k s x) with
      | None, None => 0
      | Some L, None => inject_Z (Qceiling L)
      | None, Some U => inject_Z (Qfloor U)
      | Some L, Some U => let c := inject_Z (Qceiling L) in if Qle_bool c U then c else Qred L
      end
  end.

Definition find_point (n : nat) (s : sys) : list Q :=
  fold_left (fun vals ks => set_nth (fst ks) (choose (fst ks) (snd ks) (pt_of vals)) vals)
            (rev (chain n (seq 0 n) s)) (repeat 0 n).

(* ---------- branching constraints ---------- *)
Definition c_le (k : nat) (z : Z) : cstr := {| coefs := vscale (-1) (unitv k); cst := z; strict := false |}.
Definition c_ge (k : nat) (z : Z) : cstr := {| coefs := unitv k; cst := (- z)%Z; strict := false |}.

Lemma sat_c_le k z x : sat (c_le k z) x <-> x k <= inject_Z z.
Proof.
  unfold sat, eval, c_le; cbn [coefs cst strict]. rewrite dot_vscale, dot_unitv.
  change (inject_Z (-1)) with (-1). split; intros; lra.
Qed.

Lemma sat_c_ge k z x : sat (c_ge k z) x <-> inject_Z z <= x k.
Proof.
  unfold sat, eval, c_ge; cbn [coefs cst strict]. rewrite dot_unitv, inject_Z_opp. split; intros; lra.
Qed.

(* ---------- branch and bound: maximise e over s with the coordinates in [ints] integral ---------- *)
Inductive bres := BInf | BOpt (m : Q) (p : list Q) | BFuel.

Definition first_frac (ints : list nat) (p : list Q) : option nat :=
  find (fun i => negb (integral_b (pt_of p i))) ints.

Definition best (a b : bres) : bres :=
  match a, b with
  | BFuel, _ => BFuel
  | _, BFuel => BFuel
  | BInf, r => r
  | r, BInf => r
  | BOpt m1 _, BOpt m2 _ => if Qle_bool m2 m1 then a else b
  end.

(* the equality  e(x) = m  with integer coefficients *)
Definition eq_level (e : lin) (m : Q) : lin :=
  {| lcoefs := vscale (Zpos (Qden m)) (lcoefs e); lcst := (Zpos (Qden m) * lcst e - Qnum m)%Z |}.
Definition add_eq (e : lin) (s : sys) : sys := {| eqs := e :: eqs s; ineqs := ineqs s |}.

Fixpoint bnb (fuel n : nat) (ints : list nat) (e : lin) (s : sys) : bres :=
  match fuel with
  | O => BFuel
  | S f =>
      match sup_expr n e s with
      | Some SupEmpty => BInf
      | Some (SupVal m _) =>
          let p := find_point n (add_eq (eq_level e m) s) in
          match first_frac ints p with
          | None =>
              if (sat_sys_b s (pt_of p) && Qeq_bool (leval e (pt_of p)) m)%bool then BOpt m p else BFuel
          | Some k =>
              let z := Qfloor (pt_of p k) in
              best (bnb f n ints e (add_ineq (c_le k z) s)) (bnb f n ints e (add_ineq (c_ge k (z + 1)) s))
          end
      | _ => BFuel
      end
  end.

Definition node_ok (ints : list nat) (e : lin) (s : sys) (r : bres) : Prop :=
  match r with
  | BInf => forall x, sat_sys s x -> ints_ok ints x -> False
  | BOpt m p => sat_sys s (pt_of p) /\ ints_ok ints (pt_of p) /\ leval e (pt_of p) == m /\
                forall x, sat_sys s x -> ints_ok ints x -> leval e x <= m
  | BFuel => True
  end.

Lemma best_ok ints e s c1 c2 r1 r2 :
  node_ok ints e (add_ineq c1 s) r1 -> node_ok ints e (add_ineq c2 s) r2 ->
  (forall x, sat_sys s x -> ints_ok ints x -> sat c1 x \/ sat c2 x) ->
  node_ok ints e s (best r1 r2).
Proof.
  intros H1 H2 D.
  destruct r1 as [|m1 p1|], r2 as [|m2 p2|]; cbn [best node_ok] in *; try exact I.
  - intros x Hx Ix. destruct (D x Hx Ix) as [C|C].
    + apply (H1 x); [apply sat_add_ineq; now split|exact Ix].
    + apply (H2 x); [apply sat_add_ineq; now split|exact Ix].
  - destruct H2 as [A [B [C E]]]. apply sat_add_ineq in A. destruct A as [A0 A]. split; [exact A|]. split; [exact B|]. split; [exact C|].
    intros x Hx Ix. destruct (D x Hx Ix) as [K|K].
    + exfalso. apply (H1 x); [apply sat_add_ineq; now split|exact Ix].
    + apply E; [apply sat_add_ineq; now split|exact Ix].
  - destruct H1 as [A [B [C E]]]. apply sat_add_ineq in A. destruct A as [A0 A]. split; [exact A|]. split; [exact B|]. split; [exact C|].
    intros x Hx Ix. destruct (D x Hx Ix) as [K|K].
    + apply E; [apply sat_add_ineq; now split|exact Ix].
    + exfalso. apply (H2 x); [apply sat_add_ineq; now split|exact Ix].
  - destruct H1 as [A1 [B1 [C1 E1]]], H2 as [A2 [B2 [C2 E2]]].
    apply sat_add_ineq in A1. destruct A1 as [_ A1]. apply sat_add_ineq in A2. destruct A2 as [_ A2].
    destruct (Qle_bool m2 m1) eqn:Q; cbn [node_ok].
    + apply Qle_bool_iff in Q. split; [exact A1|]. split; [exact B1|]. split; [exact C1|]. intros x Hx Ix. destruct (D x Hx Ix) as [K|K].
      * apply E1; [apply sat_add_ineq; now split|exact Ix].
      * assert (leval e x <= m2) by (apply E2; [apply sat_add_ineq; now split|exact Ix]). lra.
    + assert (Q' : m1 < m2).
      { apply Qnot_le_lt. intros L. apply Qle_bool_iff in L. congruence. }
      split; [exact A2|]. split; [exact B2|]. split; [exact C2|]. intros x Hx Ix. destruct (D x Hx Ix) as [K|K].
      * assert (leval e x <= m1) by (apply E1; [apply sat_add_ineq; now split|exact Ix]). lra.
      * apply E2; [apply sat_add_ineq; now split|exact Ix].
Qed.

Lemma first_frac_none ints p : first_frac ints p = None -> ints_ok ints (pt_of p).
Proof.
  unfold first_frac. intros H i Hi. pose proof (find_none _ _ H i Hi) as N. cbn in N.
  apply negb_false_iff in N. now apply integral_b_ok.
Qed.

Lemma branch_dichotomy ints k z x : In k ints -> ints_ok ints x -> sat (c_le k z) x \/ sat (c_ge k (z + 1)) x.
Proof.
  intros Hk Ix. destruct (Ix k Hk) as [w Hw]. rewrite sat_c_le, sat_c_ge, Hw.
  destruct (Z_le_gt_dec w z) as [L|G]; [left|right]; rewrite <- Zle_Qle; lia.
Qed.

Theorem bnb_ok : forall fuel n ints e s, node_ok ints e s (bnb fuel n ints e s).
Proof.
  induction fuel as [|f IH]; intros n ints e s; cbn [bnb]; [exact I|].
  destruct (sup_expr n e s) as [r|] eqn:S; [|exact I].
  pose proof (sup_expr_exact _ _ _ _ S) as X.
  destruct r as [| |m att]; cbn [sup_spec] in X; try exact I.
  - intros x Hx _. exact (X x Hx).
  - set (p := find_point n (add_eq (eq_level e m) s)).
    destruct (first_frac ints p) as [k|] eqn:FF.
    + apply (best_ok ints e s (c_le k (Qfloor (pt_of p k))) (c_ge k (Qfloor (pt_of p k) + 1))); [apply IH|apply IH|].
      intros x Hx Ix. apply (branch_dichotomy ints); [|exact Ix].
      unfold first_frac in FF. apply find_some in FF. tauto.
    + destruct (sat_sys_b s (pt_of p) && Qeq_bool (leval e (pt_of p)) m)%bool eqn:C; [|exact I].
      apply andb_true_iff in C. destruct C as [C1 C2]. apply sat_sys_b_ok in C1. apply Qeq_bool_iff in C2.
      cbn [node_ok]. split; [exact C1|]. split; [now apply first_frac_none|]. split; [exact C2|].
      intros x Hx _. destruct X as [_ [U _]]. now apply U.
Qed.

(* ---------- unboundedness: an integer ray from a feasible point ---------- *)
Fixpoint zdot (l r : list Z) (i : nat) : Z :=
  match l with [] => 0%Z | a :: l' => (a * nth i r 0 + zdot l' r (S i))%Z end.

Definition ray_ok_b (s : sys) (e : lin) (r : list Z) : bool :=
  forallb (fun q => Z.eqb (zdot (lcoefs q) r 0) 0) (eqs s) &&
  forallb (fun c => Z.leb 0 (zdot (coefs c) r 0)) (ineqs s) && Z.ltb 0 (zdot (lcoefs e) r 0).

Definition shift (p : point) (t : Z) (r : list Z) : point := fun i => p i + inject_Z t * inject_Z (nth i r 0%Z).

Lemma dot_shift l p t r : forall i, dot l (shift p t r) i == dot l p i + inject_Z t * inject_Z (zdot l r i).
Proof.
  induction l as [|a l IH]; intros i; cbn [dot zdot].
  - change (inject_Z 0) with 0. ring.
  - rewrite IH. unfold shift at 1. rewrite inject_Z_plus, inject_Z_mult. ring.
Qed.

Lemma shift_sat s e r p t :
  ray_ok_b s e r = true -> (0 <= t)%Z -> sat_sys s p -> sat_sys s (shift p t r).
Proof.
  unfold ray_ok_b. rewrite !andb_true_iff, !forallb_forall. intros [[R1 R2] _] Ht [S1 S2].
  assert (T : 0 <= inject_Z t) by (change 0 with (inject_Z 0); now rewrite <- Zle_Qle).
  split.
  - intros q Hq. unfold leval. rewrite dot_shift. specialize (R1 q Hq). apply Z.eqb_eq in R1. rewrite R1.
    change (inject_Z 0) with 0. specialize (S1 q Hq). unfold leval in S1. lra.
  - intros c Hc. specialize (R2 c Hc). apply Z.leb_le in R2. specialize (S2 c Hc). unfold sat, eval in *.
    pose proof (dot_shift (coefs c) p t r 0%nat) as DS.
    assert (D : 0 <= inject_Z (zdot (coefs c) r 0)) by (change 0 with (inject_Z 0); now rewrite <- Zle_Qle).
    pose proof (Qmult_le_0_compat _ _ T D) as M.
    destruct (strict c); lra.
Qed.

Lemma shift_ints l p t r : ints_ok l p -> ints_ok l (shift p t r).
Proof.
  intros H i Hi. destruct (H i Hi) as [z Hz]. exists (z + t * nth i r 0)%Z.
  unfold shift. rewrite Hz, inject_Z_plus, inject_Z_mult. reflexivity.
Qed.

Lemma shift_value s e r p t :
  ray_ok_b s e r = true -> (0 <= t)%Z -> leval e p + inject_Z t <= leval e (shift p t r).
Proof.
  unfold ray_ok_b. rewrite !andb_true_iff. intros [_ R] Ht. apply Z.ltb_lt in R.
  unfold leval. rewrite dot_shift.
  assert (T : 0 <= inject_Z t) by (change 0 with (inject_Z 0); now rewrite <- Zle_Qle).
  assert (D : 1 <= inject_Z (zdot (lcoefs e) r 0)) by (change 1 with (inject_Z 1); rewrite <- Zle_Qle; lia).
  set (d := inject_Z (zdot (lcoefs e) r 0)) in *. set (T' := inject_Z t) in *. clearbody d T'. nra.
Qed.

Lemma ray_unbounded l s e r p :
  ray_ok_b s e r = true -> sat_sys s p -> ints_ok l p ->
  forall B : Q, exists x, sat_sys s x /\ ints_ok l x /\ B < leval e x.
Proof.
  intros R Sp Ip B. set (t := Z.max 0 (Qfloor (B - leval e p) + 1)).
  assert (Ht : (0 <= t)%Z) by (unfold t; lia).
  exists (shift p t r). split; [now apply (shift_sat s e)|]. split; [now apply shift_ints|].
  pose proof (shift_value s e r p t R Ht) as V.
  pose proof (Qlt_floor (B - leval e p)) as F.
  assert (G : inject_Z (Qfloor (B - leval e p) + 1) <= inject_Z t) by (rewrite <- Zle_Qle; unfold t; lia).
  lra.
Qed.

(* integer vector from a rational one: multiply by the product-free common denominator *)
Definition lcm_den (l : list Q) : Z := fold_right (fun q a => Z.lcm (Zpos (Qden q)) a) 1%Z l.
Definition scale_to_Z (l : list Q) : list Z :=
  let L := lcm_den l in map (fun q => (Qnum q * (L / Zpos (Qden q)))%Z) l.

Definition ray_sys (s : sys) (e : lin) : sys :=
  {| eqs := map (fun q => {| lcoefs := lcoefs q; lcst := 0 |}) (eqs s);
     ineqs := {| coefs := lcoefs e; cst := (-1)%Z; strict := false |} ::
              map (fun c => {| coefs := coefs c; cst := 0; strict := false |}) (ineqs s) |}.

Definition find_ray (n : nat) (s : sys) (e : lin) : list Z := scale_to_Z (find_point n (ray_sys s e)).

(* ---------- the reference solver ---------- *)
Definition sys_of (P : problem) : sys := sys_of_cons (map to_con (pcons P)).
Definition sobj (P : problem) : lin := match pmode P with Max => pobj P | Min => lneg (pobj P) end.
Definition unsign (m : omode) (v : Q) : Q := match m with Max => v | Min => - v end.
Definition zero_lin : lin := {| lcoefs := []; lcst := 0 |}.

Inductive ref_res := Ans (r : result) | OutOfFuel.

Definition mip_ref (fuel : nat) (P : problem) : ref_res :=
  let n := pdim P in let s := sys_of P in let e := sobj P in
  match sup_expr n e s with
  | Some SupUnbounded =>
      match bnb fuel n (pints P) zero_lin s with
      | BInf => Ans RInfeasible
      | BOpt _ p0 => if ray_ok_b s e (find_ray n s e) then Ans (RUnbounded p0) else OutOfFuel
      | BFuel => OutOfFuel
      end
  | Some _ =>
      match bnb fuel n (pints P) e s with
      | BInf => Ans RInfeasible
      | BOpt m p => Ans (ROptimal (unsign (pmode P) m) p)
      | BFuel => OutOfFuel
      end
  | None => OutOfFuel
  end.

Lemma feasible_sys P x : feasible P x <-> sat_sys (sys_of P) x /\ ints_ok (pints P) x.
Proof. unfold feasible, sys_of. now rewrite sys_of_cons_sat. Qed.

Lemma sobj_val P x : leval (sobj P) x == unsign (pmode P) (objv P x).
Proof. unfold sobj, unsign, objv. destruct (pmode P); [reflexivity|apply leval_lneg]. Qed.

Lemma better_sobj P a b : better (pmode P) a b <-> unsign (pmode P) b < unsign (pmode P) a.
Proof. unfold better, unsign. destruct (pmode P); split; intros; lra. Qed.

Lemma unsign_invol m v : unsign m (unsign m v) == v.
Proof. unfold unsign. destruct m; ring. Qed.

Lemma bnb_inf P fuel e : bnb fuel (pdim P) (pints P) e (sys_of P) = BInf -> Infeasible P.
Proof.
  intros H x Fx. apply feasible_sys in Fx. destruct Fx as [A B].
  pose proof (bnb_ok fuel (pdim P) (pints P) e (sys_of P)) as K. rewrite H in K. exact (K x A B).
Qed.

Theorem mip_ref_sound fuel P r : mip_ref fuel P = Ans r -> spec P r.
Proof.
  unfold mip_ref. destruct (sup_expr (pdim P) (sobj P) (sys_of P)) as [sr|] eqn:S; [|discriminate].
  assert (Bounded : forall m p, bnb fuel (pdim P) (pints P) (sobj P) (sys_of P) = BOpt m p ->
                    spec P (ROptimal (unsign (pmode P) m) p)).
  { intros m p H. pose proof (bnb_ok fuel (pdim P) (pints P) (sobj P) (sys_of P)) as K. rewrite H in K.
    destruct K as [A [B [C D]]]. cbn [spec]. split; [apply feasible_sys; now split|]. split.
    - rewrite sobj_val in C. unfold unsign in *. destruct (pmode P); lra.
    - intros y Fy Hb. apply feasible_sys in Fy. destruct Fy as [Fy Iy]. specialize (D y Fy Iy).
      rewrite sobj_val in D. unfold better, unsign in *. destruct (pmode P); lra. }
  destruct sr as [| |m att].
  - destruct (bnb fuel (pdim P) (pints P) (sobj P) (sys_of P)) as [|m p|] eqn:B; intros [= <-].
    + now apply (bnb_inf P fuel (sobj P)).
    + now apply Bounded.
  - destruct (bnb fuel (pdim P) (pints P) zero_lin (sys_of P)) as [|m0 p0|] eqn:B.
    + intros [= <-]. now apply (bnb_inf P fuel zero_lin).
    + destruct (ray_ok_b (sys_of P) (sobj P) (find_ray (pdim P) (sys_of P) (sobj P))) eqn:R; [|discriminate].
      intros [= <-]. pose proof (bnb_ok fuel (pdim P) (pints P) zero_lin (sys_of P)) as K. rewrite B in K.
      destruct K as [A [I0 _]]. cbn [spec].
      assert (F0 : feasible P (pt_of p0)) by (apply feasible_sys; now split).
      split; [|exact F0]. split; [now exists (pt_of p0)|]. intros Bd.
      destruct (ray_unbounded (pints P) _ _ _ _ R A I0 (unsign (pmode P) Bd)) as [x [X1 [X2 X3]]].
      exists x. split; [apply feasible_sys; now split|]. rewrite sobj_val in X3.
      unfold better, unsign in *. destruct (pmode P); lra.
    + discriminate.
  - destruct (bnb fuel (pdim P) (pints P) (sobj P) (sys_of P)) as [|m' p|] eqn:B; intros [= <-].
    + now apply (bnb_inf P fuel (sobj P)).
    + now apply Bounded.
Qed.

(* ---------- exact LP (no integer variables): classification by the verified supremum ---------- *)
Definition lp_class (P : problem) (r : supres) : Prop :=
  match r with
  | SupEmpty => Infeasible P
  | SupUnbounded => Unbounded P
  | SupVal m true => exists x, Optimal P (unsign (pmode P) m) x
  | SupVal m false => (exists x, feasible P x) /\ forall v x, ~ Optimal P v x
  end.

Theorem lp_exact_thm P r :
  pints P = [] -> sup_expr (pdim P) (sobj P) (sys_of P) = Some r -> lp_class P r.
Proof.
  intros NI S. apply sup_expr_exact in S.
  assert (FE : forall x, feasible P x <-> sat_sys (sys_of P) x).
  { intros x. rewrite feasible_sys, NI. split; [tauto|]. intros H. split; [exact H|]. intros i []. }
  destruct r as [| |m att]; cbn [sup_spec lp_class] in *.
  - intros x Fx. apply FE in Fx. exact (S x Fx).
  - destruct S as [[p Hp] U]. split; [exists p; now apply FE|]. intros B.
    destruct (U (unsign (pmode P) B)) as [x [X1 X2]]. exists x. split; [now apply FE|].
    rewrite sobj_val in X2. unfold better, unsign in *. destruct (pmode P); lra.
  - destruct S as [[p0 Hp0] [UB [AT NAT]]]. destruct att.
    + destruct (AT eq_refl) as [x [X1 X2]]. exists x. split; [now apply FE|]. split.
      * rewrite sobj_val in X2. unfold unsign in *. destruct (pmode P); lra.
      * intros y Fy Hb. apply FE in Fy. specialize (UB y Fy). rewrite sobj_val in UB.
        unfold better, unsign in *. destruct (pmode P); lra.
    + split; [exists p0; now apply FE|]. intros v x [Fx [Ex Bx]].
      destruct (NAT eq_refl) as [LT AP]. apply FE in Fx. pose proof (LT x Fx) as L.
      destruct (AP (m - leval (sobj P) x)) as [y [Y1 Y2]]; [lra|].
      apply (Bx y); [now apply FE|]. rewrite !sobj_val in Y2. rewrite sobj_val in L.
      unfold better, unsign in *. destruct (pmode P); lra.
Qed.

(* ---------- verified comparison of a claimed answer with the reference answer ---------- *)
Definition feasible_b (P : problem) (p : list Q) : bool :=
  sat_sys_b (sys_of P) (pt_of p) && ints_ok_b (pints P) (pt_of p).

Lemma feasible_b_ok P p : feasible_b P p = true -> feasible P (pt_of p).
Proof.
  unfold feasible_b. rewrite andb_true_iff. intros [A B]. apply feasible_sys.
  split; [now apply sat_sys_b_ok|now apply ints_ok_b_ok].
Qed.

(* [claim_ok P r c]: the claimed result c is accepted given the reference result r *)
Definition claim_ok (P : problem) (r c : result) : bool :=
  match r, c with
  | RInfeasible, RInfeasible => true
  | RUnbounded _, RUnbounded p => feasible_b P p
  | ROptimal v _, ROptimal w p => feasible_b P p && Qeq_bool (objv P (pt_of p)) w && Qeq_bool v w
  | _, _ => false
  end.

Lemma optimal_transfer P v x w y : Optimal P v x -> feasible P y -> objv P y == w -> v == w -> Optimal P w y.
Proof.
  intros [_ [_ B]] Fy Ey E. split; [exact Fy|]. split; [exact Ey|]. intros z Fz Hb. apply (B z Fz).
  unfold better in *. destruct (pmode P); lra.
Qed.

Theorem claim_ok_sound P r c : spec P r -> claim_ok P r c = true -> spec P c.
Proof.
  destruct r as [|p0|v p0], c as [|p|w p]; cbn [claim_ok spec]; intros S H; try discriminate.
  - exact S.
  - split; [exact (proj1 S)|now apply feasible_b_ok].
  - apply andb_true_iff in H. destruct H as [H H3]. apply andb_true_iff in H. destruct H as [H1 H2].
    apply Qeq_bool_iff in H2. apply Qeq_bool_iff in H3.
    exact (optimal_transfer P v _ w _ S (feasible_b_ok _ _ H1) H2 H3).
Qed.

Corollary claim_checked fuel P r c : mip_ref fuel P = Ans r -> claim_ok P r c = true -> spec P c.
Proof. intros H. apply claim_ok_sound. exact (mip_ref_sound _ _ _ H). Qed.
