(* C06 -- the status machine of MIP_Problem as written in /repo/src/MIP_Problem.cc and
   MIP_Problem_inlines.hh: the five internal states, the cached point [last_generator], and the
   effect of every public mutator / query on them.  The numerical work (process_pending_constraints,
   first and second simplex phase, solve_mip, is_mip_satisfiable) is NOT modelled: it is the abstract
   pair of cores below, which may depend on the whole history (incrementality, pricing) and is only
   assumed to return what MipSpec says for the data it is given; that assumption is checked result by
   result on the real library by the C06 judge.
   Main result: every answer of the machine after any history is a correct answer for the data
   accumulated by that history, hence equals (witnesses erased, values up to ==) the answer of a
   machine freshly built from that data -- whatever the cores do with their history. *)
From Coq Require Import List ZArith QArith Lia Lqa Bool.
Require Import PPLV.Base.FM PPLV.Base.Sys PPLV.MIP.MipSpec.
Import ListNotations.
Local Open Scope Q_scope.

Inductive mstatus := UNSATISFIABLE | SATISFIABLE | UNBOUNDED | OPTIMIZED | PARTIALLY_SATISFIABLE.
Inductive pricing := PRICING_STEEPEST_EDGE_FLOAT | PRICING_STEEPEST_EDGE_EXACT | PRICING_TEXTBOOK.

Record mstate := { mdata : problem; mstat : mstatus; mlast : list Q; mpricing : pricing }.

Inductive cmd :=
| AddConstraint (c : mcon) | AddConstraints (cs : list mcon)
| SetObjective (e : lin) | SetMode (m : omode)
| AddDims (k : nat) | AddInts (l : list nat) | SetPricing (p : pricing)
| Solve | IsSatisfiable | FeasiblePoint | OptimizingPoint | OptimalValue | Evaluate (p : list Q).

Inductive sol := UNFEASIBLE_MIP_PROBLEM | UNBOUNDED_MIP_PROBLEM | OPTIMIZED_MIP_PROBLEM.
Inductive out := ODone | OStatus (s : sol) | OBool (b : bool) | OPoint (p : list Q) | OValue (v : Q) | ODomainError.

(* what is_satisfiable()'s internal work can leave behind (is_lp_satisfiable may already decide the
   optimisation when the tableau has no row: process_pending_constraints, "trivial cases") *)
Inductive satres := SUnsat | SSat (p : list Q) | SOpt (p : list Q) | SUnbd (p : list Q).

Definition satspec (P : problem) (r : satres) : Prop :=
  match r with
  | SUnsat => Infeasible P
  | SSat p => feasible P (pt_of p)
  | SOpt p => Optimal P (objv P (pt_of p)) (pt_of p)
  | SUnbd p => Unbounded P /\ feasible P (pt_of p)
  end.

(* MIP_Problem(dim) / MIP_Problem(dim, cs, obj, mode): status PARTIALLY_SATISFIABLE, last_generator = point() *)
Definition fresh (P : problem) (pr : pricing) : mstate :=
  {| mdata := P; mstat := PARTIALLY_SATISFIABLE; mlast := []; mpricing := pr |}.
Definition init_data (d : nat) : problem :=
  {| pdim := d; pcons := []; pints := []; pobj := {| lcoefs := []; lcst := 0 |}; pmode := Max |}.

Definition omode_eqb (a b : omode) : bool := match a, b with Max, Max | Min, Min => true | _, _ => false end.

(* effect of a command on the data alone *)
Definition apply_data (P : problem) (c : cmd) : problem :=
  match c with
  | AddConstraint k => add_cons P [k]
  | AddConstraints ks => add_cons P ks
  | SetObjective e => set_obj P e
  | SetMode m => set_mode P m
  | AddDims k => add_dims P k
  | AddInts l => add_ints P l
  | _ => P
  end.

Definition is_mutator (c : cmd) : bool :=
  match c with
  | AddConstraint _ | AddConstraints _ | SetObjective _ | SetMode _ | AddDims _ | AddInts _ | SetPricing _ => true
  | _ => false
  end.

Section Machine.
  (* the cores see the history so far (a list of commands, most recent first) and the data *)
  Variable solve_core : list cmd -> problem -> result.
  Variable sat_core : list cmd -> problem -> satres.

  Definition with_status (s : mstate) (P : problem) (st : mstatus) : mstate :=
    {| mdata := P; mstat := st; mlast := mlast s; mpricing := mpricing s |}.
  Definition with_answer (s : mstate) (st : mstatus) (p : list Q) : mstate :=
    {| mdata := mdata s; mstat := st; mlast := p; mpricing := mpricing s |}.

  (* add_constraint(s), add_space_dimensions_and_embed:  if (status != UNSATISFIABLE) status = PARTIALLY_SATISFIABLE *)
  Definition downgrade_feasible_region (st : mstatus) : mstatus :=
    match st with UNSATISFIABLE => UNSATISFIABLE | _ => PARTIALLY_SATISFIABLE end.
  (* set_objective_function, set_optimization_mode:  if (status == UNBOUNDED || status == OPTIMIZED) status = SATISFIABLE *)
  Definition downgrade_objective (st : mstatus) : mstatus :=
    match st with UNBOUNDED | OPTIMIZED => SATISFIABLE | x => x end.

  (* MIP_Problem::is_satisfiable() *)
  Definition do_is_sat (h : list cmd) (s : mstate) : mstate * bool :=
    match mstat s with
    | UNSATISFIABLE => (s, false)
    | SATISFIABLE | UNBOUNDED | OPTIMIZED => (s, true)
    | PARTIALLY_SATISFIABLE =>
        match sat_core h (mdata s) with
        | SUnsat => (with_status s (mdata s) UNSATISFIABLE, false)
        | SSat p => (with_answer s SATISFIABLE p, true)
        | SOpt p => (with_answer s OPTIMIZED p, true)
        | SUnbd p => (with_answer s UNBOUNDED p, true)
        end
    end.

  (* MIP_Problem::solve() *)
  Definition do_solve (h : list cmd) (s : mstate) : mstate * sol :=
    match mstat s with
    | UNSATISFIABLE => (s, UNFEASIBLE_MIP_PROBLEM)
    | UNBOUNDED => (s, UNBOUNDED_MIP_PROBLEM)
    | OPTIMIZED => (s, OPTIMIZED_MIP_PROBLEM)
    | SATISFIABLE | PARTIALLY_SATISFIABLE =>
        match solve_core h (mdata s) with
        | RInfeasible => (with_status s (mdata s) UNSATISFIABLE, UNFEASIBLE_MIP_PROBLEM)
        | RUnbounded p => (with_answer s UNBOUNDED p, UNBOUNDED_MIP_PROBLEM)
        | ROptimal _ p => (with_answer s OPTIMIZED p, OPTIMIZED_MIP_PROBLEM)
        end
    end.

  Definition step (h : list cmd) (s : mstate) (c : cmd) : mstate * out :=
    match c with
    | AddConstraint _ | AddConstraints _ | AddDims _ =>
        (with_status s (apply_data (mdata s) c) (downgrade_feasible_region (mstat s)), ODone)
    | SetObjective _ =>
        (with_status s (apply_data (mdata s) c) (downgrade_objective (mstat s)), ODone)
    | SetMode m =>
        (* if (opt_mode != mode) { opt_mode = mode; downgrade } *)
        if omode_eqb (pmode (mdata s)) m then (s, ODone)
        else (with_status s (apply_data (mdata s) c) (downgrade_objective (mstat s)), ODone)
    | AddInts l =>
        (* status changes only when the set really grows *)
        let P' := apply_data (mdata s) c in
        if Nat.eqb (length (pints P')) (length (pints (mdata s))) then (with_status s P' (mstat s), ODone)
        else (with_status s P' (downgrade_feasible_region (mstat s)), ODone)
    | SetPricing p =>
        ({| mdata := mdata s; mstat := mstat s; mlast := mlast s; mpricing := p |}, ODone)
    | Solve => let (s', r) := do_solve h s in (s', OStatus r)
    | IsSatisfiable => let (s', b) := do_is_sat h s in (s', OBool b)
    | FeasiblePoint =>
        let (s', b) := do_is_sat h s in (s', if b then OPoint (mlast s') else ODomainError)
    | OptimizingPoint =>
        let (s', r) := do_solve h s in
        (s', match r with OPTIMIZED_MIP_PROBLEM => OPoint (mlast s') | _ => ODomainError end)
    | OptimalValue =>
        let (s', r) := do_solve h s in
        (s', match r with OPTIMIZED_MIP_PROBLEM => OValue (objv (mdata s') (pt_of (mlast s'))) | _ => ODomainError end)
    | Evaluate p => (s, OValue (objv (mdata s) (pt_of p)))
    end.

  (* run a history (oldest command first); outputs in the same order *)
  Fixpoint run_from (h : list cmd) (s : mstate) (cs : list cmd) : mstate * list out :=
    match cs with
    | [] => (s, [])
    | c :: cs' => let (s1, o) := step h s c in
                  let (s2, os) := run_from (c :: h) s1 cs' in (s2, o :: os)
    end.

  (* ---------------- invariant: a cached status is the spec's answer for the current data ---------------- *)
  Definition Inv (s : mstate) : Prop :=
    match mstat s with
    | UNSATISFIABLE => Infeasible (mdata s)
    | SATISFIABLE => feasible (mdata s) (pt_of (mlast s))
    | UNBOUNDED => Unbounded (mdata s) /\ feasible (mdata s) (pt_of (mlast s))
    | OPTIMIZED => Optimal (mdata s) (objv (mdata s) (pt_of (mlast s))) (pt_of (mlast s))
    | PARTIALLY_SATISFIABLE => True
    end.

  (* the cores are assumed correct on the problems of [dom] only *)
  Variable dom : problem -> Prop.
  Hypothesis solve_core_ok : forall h P, dom P -> spec P (solve_core h P).
  Hypothesis sat_core_ok : forall h P, dom P -> satspec P (sat_core h P).

  Lemma fresh_inv P pr : Inv (fresh P pr).
  Proof. exact I. Qed.

  Lemma data_step h s c : mdata (fst (step h s c)) = apply_data (mdata s) c.
  Proof.
    destruct c; cbn [step apply_data]; try reflexivity.
    - destruct (omode_eqb (pmode (mdata s)) m) eqn:E; cbn [fst with_status mdata]; [|reflexivity].
      unfold set_mode. destruct (mdata s) as [d cs is o md]; cbn [pmode] in *.
      destruct md, m; try discriminate; reflexivity.
    - destruct (Nat.eqb _ _); reflexivity.
    - unfold do_solve. destruct (mstat s); try reflexivity; destruct (solve_core h (mdata s)); reflexivity.
    - unfold do_is_sat. destruct (mstat s); try reflexivity; destruct (sat_core h (mdata s)); reflexivity.
    - unfold do_is_sat. destruct (mstat s); try reflexivity; destruct (sat_core h (mdata s)); reflexivity.
    - unfold do_solve. destruct (mstat s); try reflexivity; destruct (solve_core h (mdata s)); reflexivity.
    - unfold do_solve. destruct (mstat s); try reflexivity; destruct (solve_core h (mdata s)); reflexivity.
  Qed.

  Lemma optimal_restate P v x : Optimal P v x -> Optimal P (objv P x) x.
  Proof.
    intros [F [E B]]. split; [exact F|]. split; [reflexivity|]. intros y Fy Hb. apply (B y Fy).
    unfold better in *. destruct (pmode P); lra.
  Qed.

  Lemma inv_do_solve h s : Inv s -> dom (mdata s) -> Inv (fst (do_solve h s)).
  Proof.
    intros I D. unfold do_solve. destruct (mstat s) eqn:E; cbn [fst]; try exact I.
    - pose proof (solve_core_ok h _ D) as K. destruct (solve_core h (mdata s)) as [|p|v p]; cbn [spec] in K;
        unfold Inv; cbn [fst with_status with_answer mstat mdata mlast]; auto. eapply optimal_restate; eauto.
    - pose proof (solve_core_ok h _ D) as K. destruct (solve_core h (mdata s)) as [|p|v p]; cbn [spec] in K;
        unfold Inv; cbn [fst with_status with_answer mstat mdata mlast]; auto. eapply optimal_restate; eauto.
  Qed.

  Lemma inv_do_is_sat h s : Inv s -> dom (mdata s) -> Inv (fst (do_is_sat h s)).
  Proof.
    intros I D. unfold do_is_sat. destruct (mstat s) eqn:E; cbn [fst]; try exact I.
    pose proof (sat_core_ok h _ D) as K. destruct (sat_core h (mdata s)) as [|p|p|p]; cbn [satspec] in K;
      unfold Inv; cbn [fst with_status with_answer mstat mdata mlast]; auto.
  Qed.

  (* the downgrades keep the invariant: this is where unsat_is_monotone is used *)
  Lemma inv_region s P' :
    (Infeasible (mdata s) -> Infeasible P') -> Inv s -> Inv (with_status s P' (downgrade_feasible_region (mstat s))).
  Proof.
    intros M I. unfold Inv in *. cbn [with_status mstat mdata mlast].
    destruct (mstat s); cbn [downgrade_feasible_region]; auto.
  Qed.

  Lemma inv_objective s P' :
    (forall x, feasible P' x <-> feasible (mdata s) x) -> Inv s ->
    Inv (with_status s P' (downgrade_objective (mstat s))).
  Proof.
    intros M I. unfold Inv in *. cbn [with_status mstat mdata mlast].
    destruct (mstat s); cbn [downgrade_objective]; auto.
    - intros x Hx. apply (I x). now apply M.
    - now apply M.
    - destruct I as [_ F]. now apply M.
    - destruct I as [F _]. now apply M.
  Qed.

  Theorem inv_step h s c : Inv s -> dom (mdata s) -> Inv (fst (step h s c)).
  Proof.
    intros I D. pose proof (unsat_is_monotone (mdata s)) as UM.
    destruct c; cbn [step].
    - cbn [fst]. apply inv_region; [|exact I]. intros H. cbn [apply_data]. now apply UM.
    - cbn [fst]. apply inv_region; [|exact I]. intros H. cbn [apply_data]. now apply UM.
    - cbn [fst]. apply inv_objective; [|exact I]. intros x. cbn [apply_data]. apply feasible_set_obj.
    - destruct (omode_eqb _ _); cbn [fst]; [exact I|]. apply inv_objective; [|exact I].
      intros x. cbn [apply_data]. apply feasible_set_mode.
    - cbn [fst]. apply inv_region; [|exact I]. intros H. cbn [apply_data]. now apply UM.
    - destruct (Nat.eqb _ _) eqn:E; cbn [fst].
      + (* the set did not grow: same feasible points *)
        apply Nat.eqb_eq in E. cbn [apply_data add_ints pints] in E. unfold union_nat in E.
        rewrite app_length in E.
        assert (Z0 : filter (fun i => negb (existsb (Nat.eqb i) (pints (mdata s)))) (nodup Nat.eq_dec l) = []).
        { destruct (filter _ _); [reflexivity|cbn [length] in E; lia]. }
        assert (EQ : apply_data (mdata s) (AddInts l) = mdata s).
        { cbn [apply_data]. unfold add_ints, union_nat. rewrite Z0, app_nil_r. destruct (mdata s); reflexivity. }
        rewrite EQ. unfold Inv in *. cbn [with_status mstat mdata mlast]. exact I.
      + apply inv_region; [|exact I]. intros H. cbn [apply_data]. now apply UM.
    - cbn [fst]. exact I.
    - pose proof (inv_do_solve h s I D). destruct (do_solve h s). exact H.
    - pose proof (inv_do_is_sat h s I D). destruct (do_is_sat h s). exact H.
    - pose proof (inv_do_is_sat h s I D). destruct (do_is_sat h s). exact H.
    - pose proof (inv_do_solve h s I D). destruct (do_solve h s). exact H.
    - pose proof (inv_do_solve h s I D). destruct (do_solve h s). exact H.
    - exact I.
  Qed.

  (* ---------------- every output is a correct answer for the data ---------------- *)
  Definition sol_ok (P : problem) (r : sol) : Prop :=
    match r with
    | UNFEASIBLE_MIP_PROBLEM => Infeasible P
    | UNBOUNDED_MIP_PROBLEM => Unbounded P
    | OPTIMIZED_MIP_PROBLEM => exists v x, Optimal P v x
    end.

  Definition answer_ok (P : problem) (c : cmd) (o : out) : Prop :=
    match c, o with
    | Solve, OStatus r => sol_ok P r
    | IsSatisfiable, OBool b => (b = true <-> exists x, feasible P x)
    | FeasiblePoint, OPoint p => feasible P (pt_of p)
    | FeasiblePoint, ODomainError => Infeasible P
    | OptimizingPoint, OPoint p => Optimal P (objv P (pt_of p)) (pt_of p)
    | OptimizingPoint, ODomainError => forall v x, ~ Optimal P v x
    | OptimalValue, OValue v => exists x, Optimal P v x
    | OptimalValue, ODomainError => forall v x, ~ Optimal P v x
    | Evaluate p, OValue v => v == objv P (pt_of p)
    | (AddConstraint _ | AddConstraints _ | SetObjective _ | SetMode _ | AddDims _ | AddInts _ | SetPricing _), ODone => True
    | _, _ => False
    end.

  Lemma do_solve_ok h s : Inv s -> dom (mdata s) ->
    sol_ok (mdata s) (snd (do_solve h s)) /\ mdata (fst (do_solve h s)) = mdata s /\
    (snd (do_solve h s) = OPTIMIZED_MIP_PROBLEM -> mstat (fst (do_solve h s)) = OPTIMIZED).
  Proof.
    intros I D. unfold do_solve, Inv in *. destruct (mstat s) eqn:E; cbn [fst snd sol_ok].
    - split; [exact I|split; [reflexivity|discriminate]].
    - pose proof (solve_core_ok h _ D) as K. destruct (solve_core h (mdata s)) as [|p|v p]; cbn [spec] in K;
        cbn [fst snd sol_ok with_status with_answer mdata mstat];
        (split; [|split; [reflexivity|first [discriminate|intros _; reflexivity]]]).
      + exact K.
      + exact (proj1 K).
      + exists v, (pt_of p). exact K.
    - split; [exact (proj1 I)|split; [reflexivity|discriminate]].
    - split; [eexists; eexists; exact I|split; [reflexivity|intros _; exact E]].
    - pose proof (solve_core_ok h _ D) as K. destruct (solve_core h (mdata s)) as [|p|v p]; cbn [spec] in K;
        cbn [fst snd sol_ok with_status with_answer mdata mstat];
        (split; [|split; [reflexivity|first [discriminate|intros _; reflexivity]]]).
      + exact K.
      + exact (proj1 K).
      + exists v, (pt_of p). exact K.
  Qed.

  Lemma do_is_sat_ok h s : Inv s -> dom (mdata s) ->
    (snd (do_is_sat h s) = true -> feasible (mdata s) (pt_of (mlast (fst (do_is_sat h s))))) /\
    (snd (do_is_sat h s) = false -> Infeasible (mdata s)).
  Proof.
    intros I D. unfold do_is_sat, Inv in *. destruct (mstat s) eqn:E; cbn [fst snd].
    - split; [discriminate|intros _; exact I].
    - split; [intros _; exact I|discriminate].
    - split; [intros _; tauto|discriminate].
    - split; [intros _; destruct I; tauto|discriminate].
    - pose proof (sat_core_ok h _ D) as K. destruct (sat_core h (mdata s)) as [|p|p|p]; cbn [satspec] in K;
        cbn [fst snd with_status with_answer mlast]; split; try discriminate; intros _; try tauto.
      destruct K; tauto.
  Qed.

  Lemma sol_cases P r : sol_ok P r -> r <> OPTIMIZED_MIP_PROBLEM -> forall v x, ~ Optimal P v x.
  Proof.
    intros H N v x. destruct r; cbn [sol_ok] in H.
    - now apply infeasible_not_optimal.
    - now apply unbounded_not_optimal.
    - congruence.
  Qed.

  Theorem step_answer_ok h s c : Inv s -> dom (mdata s) -> answer_ok (mdata s) c (snd (step h s c)).
  Proof.
    intros I D. destruct c; cbn [step answer_ok snd]; try exact Logic.I.
    - destruct (omode_eqb _ _); exact Logic.I.
    - destruct (Nat.eqb _ _); exact Logic.I.
    - pose proof (do_solve_ok h s I D) as [K _]. destruct (do_solve h s) as [s' r]. exact K.
    - pose proof (do_is_sat_ok h s I D) as [K1 K2]. destruct (do_is_sat h s) as [s' b]. cbn [fst snd] in *.
      destruct b; split; intros; try discriminate; auto.
      + eexists; apply K1; reflexivity.
      + exfalso. destruct H as [x Hx]. exact (K2 eq_refl x Hx).
    - pose proof (do_is_sat_ok h s I D) as [K1 K2]. destruct (do_is_sat h s) as [s' b]. cbn [fst snd] in *.
      destruct b; cbn [answer_ok]; auto.
    - pose proof (do_solve_ok h s I D) as [K [KD KS]]. pose proof (inv_do_solve h s I D) as IV.
      destruct (do_solve h s) as [s' r]. cbn [fst snd] in *. destruct r; cbn [answer_ok].
      + apply (sol_cases _ _ K). discriminate.
      + apply (sol_cases _ _ K). discriminate.
      + unfold Inv in IV. rewrite (KS eq_refl), KD in IV. exact IV.
    - pose proof (do_solve_ok h s I D) as [K [KD KS]]. pose proof (inv_do_solve h s I D) as IV.
      destruct (do_solve h s) as [s' r]. cbn [fst snd] in *. destruct r; cbn [answer_ok].
      + apply (sol_cases _ _ K). discriminate.
      + apply (sol_cases _ _ K). discriminate.
      + unfold Inv in IV. rewrite (KS eq_refl), KD in IV. rewrite KD. eexists. exact IV.
    - reflexivity.
  Qed.
End Machine.

(* ---------------- answers are determined by the data ---------------- *)
(* witnesses erased, values in canonical form *)
Inductive aout := ADone | AStatus (s : sol) | ABool (b : bool) | APoint | AValue (v : Q) | ADomainError.
Definition abs_out (o : out) : aout :=
  match o with
  | ODone => ADone | OStatus s => AStatus s | OBool b => ABool b | OPoint _ => APoint
  | OValue v => AValue (Qred v) | ODomainError => ADomainError
  end.

Lemma sol_unique P a b : sol_ok P a -> sol_ok P b -> a = b.
Proof.
  destruct (status_exclusive P) as [E1 [E2 E3]].
  destruct a, b; cbn [sol_ok]; intros A B; try reflexivity; exfalso.
  - exact (proj1 (E1 A) B).
  - destruct B as [v [x B]]. exact (proj2 (E1 A) v x B).
  - exact (proj1 (E1 B) A).
  - destruct B as [v [x B]]. exact (proj2 (E2 A) v x B).
  - destruct A as [v [x A]]. exact (proj2 (E1 B) v x A).
  - destruct A as [v [x A]]. exact (proj2 (E2 B) v x A).
Qed.

Theorem answer_unique P c o1 o2 : answer_ok P c o1 -> answer_ok P c o2 -> abs_out o1 = abs_out o2.
Proof.
  destruct c, o1, o2; cbn [answer_ok abs_out]; intros A B; try reflexivity; try contradiction.
  - f_equal. exact (sol_unique P _ _ A B).
  - f_equal. destruct b, b0; try reflexivity.
    + symmetry. apply B. apply A. reflexivity.
    + apply A. apply B. reflexivity.
  - exfalso. exact (B _ A).
  - exfalso. exact (A _ B).
  - exfalso. exact (B _ _ A).
  - exfalso. exact (A _ _ B).
  - f_equal. destruct A as [x A], B as [y B]. apply Qred_complete. exact (optimal_value_unique P _ _ _ _ A B).
  - exfalso. destruct A as [x A]. exact (B _ _ A).
  - exfalso. destruct B as [x B]. exact (A _ _ B).
  - f_equal. apply Qred_complete. rewrite A, B. reflexivity.
Qed.

(* the data after a history does not depend on the cores *)
Definition final_data (P0 : problem) (cs : list cmd) : problem := fold_left apply_data cs P0.

Section Incremental.
  Variable dom : problem -> Prop.
  (* two arbitrary pairs of cores: the one inside the incrementally modified object, the one inside the fresh object *)
  Variables (solve1 solve2 : list cmd -> problem -> result) (sat1 sat2 : list cmd -> problem -> satres).
  Hypothesis solve1_ok : forall h P, dom P -> spec P (solve1 h P).
  Hypothesis solve2_ok : forall h P, dom P -> spec P (solve2 h P).
  Hypothesis sat1_ok : forall h P, dom P -> satspec P (sat1 h P).
  Hypothesis sat2_ok : forall h P, dom P -> satspec P (sat2 h P).

  Lemma run_inv : forall cs h s,
    Inv s -> (forall k, dom (final_data (mdata s) (firstn k cs))) ->
    Inv (fst (run_from solve1 sat1 h s cs)) /\ mdata (fst (run_from solve1 sat1 h s cs)) = final_data (mdata s) cs.
  Proof.
    induction cs as [|c cs IH]; intros h s I D; cbn [run_from final_data fold_left fst]; [split; [exact I|reflexivity]|].
    pose proof (inv_step solve1 sat1 dom solve1_ok sat1_ok h s c I (D 0%nat)) as I1.
    pose proof (data_step solve1 sat1 h s c) as E1.
    destruct (step solve1 sat1 h s c) as [s1 o] eqn:S1. cbn [fst] in *.
    specialize (IH (c :: h) s1 I1).
    assert (D1 : forall k, dom (final_data (mdata s1) (firstn k cs))).
    { intros k. rewrite E1. exact (D (S k)). }
    specialize (IH D1). destruct (run_from solve1 sat1 (c :: h) s1 cs) as [s2 os]. cbn [fst] in *.
    rewrite E1 in IH. exact IH.
  Qed.

  (* after ANY history (mutators and queries interleaved, any pricing changes) every prefix of which
     leaves data in [dom], the answer to a query equals the answer of a fresh object built from the final data *)
  Theorem incremental_equals_fresh_thm P0 pr pr' history hist' q :
    (forall k, dom (final_data P0 (firstn k history))) ->
    let s := fst (run_from solve1 sat1 [] (fresh P0 pr) history) in
    abs_out (snd (step solve1 sat1 (rev history) s q)) =
    abs_out (snd (step solve2 sat2 hist' (fresh (final_data P0 history) pr') q)).
  Proof.
    intros D s.
    destruct (run_inv history [] (fresh P0 pr) (fresh_inv P0 pr) D) as [I E]. fold s in I, E. cbn [fresh mdata] in E.
    assert (DH : dom (final_data P0 history)).
    { pose proof (D (length history)) as X. now rewrite firstn_all in X. }
    assert (Ds : dom (mdata s)) by (rewrite E; exact DH).
    pose proof (step_answer_ok solve1 sat1 dom solve1_ok sat1_ok (rev history) s q I Ds) as A1.
    assert (D2 : dom (mdata (fresh (final_data P0 history) pr'))) by (cbn [fresh mdata]; exact DH).
    pose proof (step_answer_ok solve2 sat2 dom solve2_ok sat2_ok hist' _ q (fresh_inv _ pr') D2) as A2.
    cbn [fresh mdata] in A2. rewrite E in A1. exact (answer_unique _ q _ _ A1 A2).
  Qed.
End Incremental.

(* verified comparison of what is_satisfiable() left behind with the reference answer *)
Require Import PPLV.MIP.MipRef.
Definition sat_claim_ok (P : problem) (r : result) (c : satres) : bool :=
  match c with
  | SUnsat => match r with RInfeasible => true | _ => false end
  | SSat p => feasible_b P p
  | SOpt p => claim_ok P r (ROptimal (objv P (pt_of p)) p)
  | SUnbd p => claim_ok P r (RUnbounded p)
  end.

Theorem sat_claim_ok_sound P r c : spec P r -> sat_claim_ok P r c = true -> satspec P c.
Proof.
  intros S H. destruct c as [|p|p|p]; cbn [sat_claim_ok satspec] in *.
  - destruct r; try discriminate. exact S.
  - now apply feasible_b_ok.
  - exact (claim_ok_sound P r _ S H).
  - exact (claim_ok_sound P r _ S H).
Qed.
