(* C06 -- the hypotheses of the C06 theorems are satisfiable, and concrete evaluations of the
   reference solver (vm_compute) on the inputs quoted in known_findings.d/C06.json. *)
From Coq Require Import List ZArith QArith Lia Bool.
Require Import PPLV.Base.FM PPLV.Base.Sys PPLV.Base.Sup PPLV.MIP.MipSpec PPLV.MIP.MipRef PPLV.MIP.MipMachine.
Import ListNotations.
Local Open Scope Z_scope.

Definition ge (l : list Z) (k : Z) : mcon := {| mco := l; mk := k; mr := RGe |}.

(* DESIGN.md 4.3: dim 3, all integer, 0 <= A,B,C <= 4 and four more rows, maximise -3B - C:
   the optimum is -4 at (0,1,1); the library (incremental, exact pricing) answered -2 at (0,0,2) *)
Definition P_known : problem :=
  {| pdim := 3;
     pcons := [ge [1;0;0] 0; ge [-1;0;0] 4; ge [0;1;0] 0; ge [0;-1;0] 4; ge [0;0;1] 0; ge [0;0;-1] 4;
               ge [-1;3;3] (-4); ge [-1;3;-3] 6; ge [3;-1;-2] 4; ge [-3;3;-2] 1];
     pints := [0;1;2]%nat; pobj := {| lcoefs := [0;-3;-1]; lcst := 0 |}; pmode := Max |}.

Example ref_known : mip_ref 30 P_known = Ans (ROptimal (-4 # 1) [0%Q; 1%Q; 1%Q]).
Proof. vm_compute. reflexivity. Qed.

(* hypotheses of bnb_sound are satisfiable; and the library's point (0,0,2) is not even feasible *)
Example known_optimum : Optimal P_known (-4 # 1) (pt_of [0%Q; 1%Q; 1%Q]).
Proof. exact (mip_ref_sound 30 P_known _ ref_known). Qed.

Example known_library_point_infeasible : sat_sys_b (sys_of P_known) (pt_of [0%Q; 0%Q; 2%Q]) = false.
Proof. vm_compute. reflexivity. Qed.

(* x integer, 2x >= 1, y >= 0, maximise y: unbounded (the library answers UNFEASIBLE) *)
Definition P_unb : problem :=
  {| pdim := 2; pcons := [ge [2;0] (-1); ge [0;1] 0]; pints := [0%nat];
     pobj := {| lcoefs := [0;1]; lcst := 0 |}; pmode := Max |}.

Example ref_unb : mip_ref 30 P_unb = Ans (RUnbounded [1%Q; 0%Q]).
Proof. vm_compute. reflexivity. Qed.

Example unb_is_unbounded : Unbounded P_unb.
Proof. exact (proj1 (mip_ref_sound 30 P_unb _ ref_unb)). Qed.

(* hypothesis of lp_exact *)
Definition P_lp : problem :=
  {| pdim := 2; pcons := [ge [1;0] 0; ge [0;1] 0; ge [-2;-3] 6]; pints := [];
     pobj := {| lcoefs := [1;1]; lcst := 0 |}; pmode := Max |}.
Example lp_hyp : pints P_lp = [] /\ sup_expr (pdim P_lp) (sobj P_lp) (sys_of P_lp) = Some (SupVal (3 # 1) true).
Proof. split; [reflexivity|vm_compute; reflexivity]. Qed.

(* hypotheses of the machine theorems: cores that are correct on [dom] exist, with [dom] inhabited.
   dom := the problems the reference decides with fuel 64 *)
Definition fuel0 : nat := 64.
Definition dom0 (P : problem) : Prop := mip_ref fuel0 P <> OutOfFuel.
Definition solve0 (_ : list cmd) (P : problem) : result :=
  match mip_ref fuel0 P with Ans r => r | OutOfFuel => RInfeasible end.
Definition sat0 (_ : list cmd) (P : problem) : satres :=
  match mip_ref fuel0 P with
  | Ans RInfeasible => SUnsat | Ans (RUnbounded p) => SSat p | Ans (ROptimal _ p) => SSat p | OutOfFuel => SUnsat
  end.

Example solve0_ok : forall h P, dom0 P -> spec P (solve0 h P).
Proof.
  intros h P D. unfold solve0, dom0 in *. destruct (mip_ref fuel0 P) as [r|] eqn:E; [|congruence].
  exact (mip_ref_sound _ _ _ E).
Qed.

Example sat0_ok : forall h P, dom0 P -> satspec P (sat0 h P).
Proof.
  intros h P D. unfold sat0, dom0 in *. destruct (mip_ref fuel0 P) as [r|] eqn:E; [|congruence].
  pose proof (mip_ref_sound _ _ _ E) as S. destruct r as [|p|v p]; cbn [spec satspec] in *.
  - exact S.
  - exact (proj2 S).
  - exact (proj1 S).
Qed.

Example dom0_inhabited : dom0 P_known /\ dom0 P_unb /\ dom0 (init_data 2).
Proof. repeat split; unfold dom0; vm_compute; discriminate. Qed.

(* a history whose every prefix stays in dom0 (hypothesis of incremental_equals_fresh) *)
Definition hist0 : list cmd :=
  [AddInts [0%nat]; AddConstraint (ge [2;0] (-1)); IsSatisfiable; AddConstraint (ge [-1;0] 3);
   SetObjective {| lcoefs := [1;0]; lcst := 0 |}; Solve; SetMode Min; OptimalValue].

Example hist0_in_dom : forallb (fun k => match mip_ref fuel0 (final_data (init_data 1) (firstn k hist0)) with
                                        | OutOfFuel => false | _ => true end) (seq 0 9) = true.
Proof. vm_compute. reflexivity. Qed.

Example hist0_hyp : forall k, dom0 (final_data (init_data 1) (firstn k hist0)).
Proof.
  intros k. unfold dom0. pose proof hist0_in_dom as H. rewrite forallb_forall in H.
  destruct (le_lt_dec k 8) as [L|G].
  - specialize (H k). rewrite in_seq in H. specialize (H ltac:(lia)).
    destruct (mip_ref fuel0 (final_data (init_data 1) (firstn k hist0))); [discriminate|discriminate H].
  - replace (firstn k hist0) with (firstn 8 hist0)
      by (rewrite !firstn_all2 by (unfold hist0; cbn [length]; lia); reflexivity).
    specialize (H 8%nat). rewrite in_seq in H. specialize (H ltac:(lia)).
    destruct (mip_ref fuel0 (final_data (init_data 1) (firstn 8 hist0))); [discriminate|discriminate H].
Qed.

Example hist0_outputs :
  map abs_out (snd (run_from solve0 sat0 [] (fresh (init_data 1) PRICING_STEEPEST_EDGE_FLOAT) hist0)) =
  [ADone; ADone; ABool true; ADone; ADone; AStatus OPTIMIZED_MIP_PROBLEM; ADone; AValue (1 # 1)].
Proof. vm_compute. reflexivity. Qed.
