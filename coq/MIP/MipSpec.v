(* C06 -- specification of mixed-integer linear problems as MIP_Problem accepts them:
   a problem is (dimension, constraints [= or >=, integer coefficients], set of integer variables,
   objective, optimisation mode).  Points are rational; the three statuses of the documentation are
   stated as propositions about the set of feasible points.  Nothing here is executable. *)
From Coq Require Import List ZArith QArith Lia Lqa Bool.
Require Import PPLV.Base.FM PPLV.Base.Sys.
Import ListNotations.
Local Open Scope Q_scope.

Inductive mrel := REq | RGe.
Record mcon := { mco : list Z; mk : Z; mr : mrel }.           (* sum mco_i x_i + mk  (= | >=)  0 *)
Inductive omode := Max | Min.
Record problem := { pdim : nat; pcons : list mcon; pints : list nat; pobj : lin; pmode : omode }.

Definition to_con (c : mcon) : con :=
  {| ccoefs := mco c; ccst := mk c; ckd := match mr c with REq => EQ | RGe => GE end |}.

Definition integral (q : Q) : Prop := exists z : Z, q == inject_Z z.
Definition ints_ok (l : list nat) (x : point) : Prop := forall i, In i l -> integral (x i).

Definition feasible (P : problem) (x : point) : Prop :=
  sat_cons (map to_con (pcons P)) x /\ ints_ok (pints P) x.

Definition objv (P : problem) (x : point) : Q := leval (pobj P) x.

(* [better m a b]: value a is strictly better than value b in mode m *)
Definition better (m : omode) (a b : Q) : Prop := match m with Max => b < a | Min => a < b end.

Definition Infeasible (P : problem) : Prop := forall x, ~ feasible P x.
Definition Unbounded (P : problem) : Prop :=
  (exists x, feasible P x) /\ forall B : Q, exists x, feasible P x /\ better (pmode P) (objv P x) B.
Definition Optimal (P : problem) (v : Q) (x : point) : Prop :=
  feasible P x /\ objv P x == v /\ forall y, feasible P y -> ~ better (pmode P) (objv P y) v.

(* the three statuses exclude one another, and the optimal value is unique *)
Lemma infeasible_not_unbounded P : Infeasible P -> ~ Unbounded P.
Proof. intros H [[x Hx] _]. exact (H x Hx). Qed.

Lemma infeasible_not_optimal P v x : Infeasible P -> ~ Optimal P v x.
Proof. intros H [Hx _]. exact (H x Hx). Qed.

Lemma unbounded_not_optimal P v x : Unbounded P -> ~ Optimal P v x.
Proof.
  intros [_ HU] [_ [_ HO]]. destruct (HU v) as [y [Hy Hb]]. exact (HO y Hy Hb).
Qed.

Lemma optimal_value_unique P v x w y : Optimal P v x -> Optimal P w y -> v == w.
Proof.
  intros [Fx [Ex Bx]] [Fy [Ey By]]. pose proof (Bx y Fy) as A. pose proof (By x Fx) as B.
  unfold better in *. destruct (pmode P); lra.
Qed.

Theorem status_exclusive P :
  (Infeasible P -> ~ Unbounded P /\ forall v x, ~ Optimal P v x) /\
  (Unbounded P -> ~ Infeasible P /\ forall v x, ~ Optimal P v x) /\
  (forall v x, Optimal P v x -> ~ Infeasible P /\ ~ Unbounded P).
Proof.
  split; [|split].
  - intros H. split; [now apply infeasible_not_unbounded|]. intros v x. now apply infeasible_not_optimal.
  - intros H. split.
    + intros HI. exact (infeasible_not_unbounded P HI H).
    + intros v x. now apply unbounded_not_optimal.
  - intros v x H. split.
    + intros HI. exact (infeasible_not_optimal P v x HI H).
    + intros HU. exact (unbounded_not_optimal P v x HU H).
Qed.

(* why UNSATISFIABLE may survive the mutators that only shrink the feasible set *)
Definition add_cons (P : problem) (cs : list mcon) : problem :=
  {| pdim := pdim P; pcons := pcons P ++ cs; pints := pints P; pobj := pobj P; pmode := pmode P |}.
Definition add_dims (P : problem) (m : nat) : problem :=
  {| pdim := (pdim P + m)%nat; pcons := pcons P; pints := pints P; pobj := pobj P; pmode := pmode P |}.
Definition union_nat (a b : list nat) : list nat :=
  a ++ filter (fun i => negb (existsb (Nat.eqb i) a)) (nodup Nat.eq_dec b).
Definition add_ints (P : problem) (l : list nat) : problem :=
  {| pdim := pdim P; pcons := pcons P; pints := union_nat (pints P) l; pobj := pobj P; pmode := pmode P |}.
Definition set_obj (P : problem) (e : lin) : problem :=
  {| pdim := pdim P; pcons := pcons P; pints := pints P; pobj := e; pmode := pmode P |}.
Definition set_mode (P : problem) (m : omode) : problem :=
  {| pdim := pdim P; pcons := pcons P; pints := pints P; pobj := pobj P; pmode := m |}.

Lemma feasible_add_cons P cs x : feasible (add_cons P cs) x -> feasible P x.
Proof.
  intros [H1 H2]. split; [|exact H2]. intros c Hc. apply H1. cbn [add_cons pcons].
  rewrite map_app. apply in_or_app. now left.
Qed.

Lemma feasible_add_dims P m x : feasible (add_dims P m) x <-> feasible P x.
Proof. unfold feasible; cbn [add_dims pcons pints]. tauto. Qed.

Lemma in_union_l a b i : In i a -> In i (union_nat a b).
Proof. intros H. unfold union_nat. apply in_or_app. now left. Qed.

Lemma feasible_add_ints P l x : feasible (add_ints P l) x -> feasible P x.
Proof.
  intros [H1 H2]. split; [exact H1|]. intros i Hi. apply H2. cbn [add_ints pints]. now apply in_union_l.
Qed.

Lemma feasible_set_obj P e x : feasible (set_obj P e) x <-> feasible P x.
Proof. unfold feasible; cbn [set_obj pcons pints]. tauto. Qed.
Lemma feasible_set_mode P m x : feasible (set_mode P m) x <-> feasible P x.
Proof. unfold feasible; cbn [set_mode pcons pints]. tauto. Qed.

Theorem unsat_is_monotone P :
  Infeasible P ->
  (forall cs, Infeasible (add_cons P cs)) /\ (forall m, Infeasible (add_dims P m)) /\
  (forall l, Infeasible (add_ints P l)) /\ (forall e, Infeasible (set_obj P e)) /\ (forall m, Infeasible (set_mode P m)).
Proof.
  intros H. repeat split; intros a x Hx.
  - exact (H x (feasible_add_cons _ _ _ Hx)).
  - exact (H x (proj1 (feasible_add_dims _ _ _) Hx)).
  - exact (H x (feasible_add_ints _ _ _ Hx)).
  - exact (H x (proj1 (feasible_set_obj _ _ _) Hx)).
  - exact (H x (proj1 (feasible_set_mode _ _ _) Hx)).
Qed.

(* a cut valid for every feasible point (what is_satisfiable() leaves behind in input_cs after an
   infeasible "x_k <= floor" branch) does not change the feasible set *)
Lemma valid_cut_neutral P c :
  (forall x, feasible P x -> sat_con (to_con c) x) -> forall x, feasible (add_cons P [c]) x <-> feasible P x.
Proof.
  intros V x. split; [apply feasible_add_cons|]. intros F. destruct F as [F1 F2]. split; [|exact F2].
  cbn [add_cons pcons]. rewrite map_app. intros c' Hc'. apply in_app_or in Hc'. destruct Hc' as [Hc'|Hc'].
  - now apply F1.
  - cbn in Hc'. destruct Hc' as [<-|[]]. apply V. split; assumption.
Qed.

(* answers of the solver *)
Inductive result := RInfeasible | RUnbounded (p : list Q) | ROptimal (v : Q) (p : list Q).

Definition pt_of (l : list Q) : point := fun i => nth i l 0.

Definition spec (P : problem) (r : result) : Prop :=
  match r with
  | RInfeasible => Infeasible P
  | RUnbounded p => Unbounded P /\ feasible P (pt_of p)
  | ROptimal v p => Optimal P v (pt_of p)
  end.
