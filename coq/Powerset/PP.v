(* linear_partition (src/Pointset_Powerset_templates.hh:1629-1672) over the reference polyhedra:
   q is cut successively by the constraints of p; the part violating the current constraint becomes a
   residue (kept when not found empty), the part satisfying it is carried on.  An equality e = 0 is
   handled as e <= 0 followed by e >= 0.
   linear_partition_spec: the first component is p /\ q, the residues lie in q \ p, cover it, and are
   pairwise disjoint -- the facts difference_assign and check_containment rest on. *)
From Coq Require Import List ZArith QArith Lia Lqa Bool.
Require Import PPLV.Base.FM PPLV.Base.Sys PPLV.Poly.PolyOps PPLV.Powerset.UnionIncl.
Import ListNotations.
Local Open Scope Q_scope.

Section LP.
Variable n : nat.     (* dimension bound for the emptiness test of a residue *)

(* linear_partition_aux(c, pset, r) *)
Definition lp_aux (c : cstr) (st : sys * list sys) : sys * list sys :=
  let (pset, r) := st in
  let piece := add_ineq (neg_c c) pset in
  (add_ineq c pset, match nonempty_sys n piece with Some false => r | _ => r ++ [piece] end).

(* the constraints of p in the order the loop meets them: an equality contributes  -e >= 0  then  e >= 0 *)
Definition lp_constraints (p : sys) : list cstr :=
  flat_map (fun e => [le_of e; ge_of e]) (eqs p) ++ ineqs p.

Definition linear_partition (p q : sys) : sys * list sys :=
  fold_left (fun st c => lp_aux c st) (lp_constraints p) (q, []).

Lemma lp_constraints_sat p x : sat_all (lp_constraints p) x <-> sat_sys p x.
Proof.
  unfold lp_constraints, sat_sys, sat_all, sat_eqs. split.
  - intros H. split.
    + intros e He. apply eq_as_ineqs. split; apply H; apply in_or_app; left; apply in_flat_map; exists e; cbn; auto.
    + intros c Hc. apply H. apply in_or_app. now right.
  - intros [H1 H2] c Hc. apply in_app_or in Hc. destruct Hc as [Hc|Hc]; [|now apply H2].
    apply in_flat_map in Hc. destruct Hc as [e [He [<-|[<-|[]]]]]; apply (eq_as_ineqs e x); auto.
Qed.

(* invariant of the loop, for the constraints [done] already processed *)
Definition lp_inv (q : sys) (done : list cstr) (st : sys * list sys) : Prop :=
  (forall x, sat_sys (fst st) x <-> sat_sys q x /\ sat_all done x) /\
  (forall x, covered (snd st) x <-> sat_sys q x /\ ~ sat_all done x) /\
  (forall r1 r2 a b x, snd st = r1 ++ a :: r2 -> In b r2 -> sat_sys a x -> sat_sys b x -> False).

Lemma sat_all_snoc cs c x : sat_all (cs ++ [c]) x <-> sat_all cs x /\ sat c x.
Proof.
  unfold sat_all. split.
  - intros H. split; [intros c' Hc'; apply H, in_or_app; now left|apply H, in_or_app; right; now left].
  - intros [H1 H2] c' Hc'. apply in_app_or in Hc'. destruct Hc' as [Hc'|[<-|[]]]; auto.
Qed.

Lemma sat_all_dec cs x : sat_all cs x \/ ~ sat_all cs x.
Proof.
  unfold sat_all. induction cs as [|c l IH]; [left; intros c []|].
  destruct (sat_dec c x) as [E|E]; [|right; intros H; apply E, H; now left].
  destruct IH as [IH|IH]; [left; intros c' [<-|H]; auto|right; intros H; apply IH; intros c' Hc'; apply H; now right].
Qed.

Lemma lp_aux_inv q done c st : lp_inv q done st -> lp_inv q (done ++ [c]) (lp_aux c st).
Proof.
  destruct st as [pset r]. intros [I1 [I2 I3]]. cbn [fst snd] in *. unfold lp_aux.
  set (piece := add_ineq (neg_c c) pset).
  assert (P : forall x, sat_sys piece x <-> sat_sys q x /\ sat_all done x /\ ~ sat c x).
  { intros x. unfold piece. rewrite sat_add_ineq, sat_neg, I1. tauto. }
  assert (Cov : forall x, covered (r ++ [piece]) x <-> covered r x \/ sat_sys piece x).
  { intros x. unfold covered. split.
    - intros [b [Hb Sb]]. apply in_app_or in Hb. destruct Hb as [Hb|[<-|[]]]; [left; eauto|now right].
    - intros [[b [Hb Sb]]|H]; [exists b; split; [apply in_or_app; now left|exact Sb]|exists piece; split; [apply in_or_app; right; now left|exact H]]. }
  assert (Dis : forall r1 r2 a b x, r ++ [piece] = r1 ++ a :: r2 -> In b r2 -> sat_sys a x -> sat_sys b x -> False).
  { intros r1 r2 a b x E Hb Sa Sb.
    destruct r2 as [|b0 r2'] using rev_ind; [destruct Hb|]. clear IHr2'.
    rewrite app_comm_cons, app_assoc in E. apply app_inj_tail in E. destruct E as [E <-].
    apply in_app_or in Hb. destruct Hb as [Hb|[<-|[]]].
    - apply (I3 r1 r2' a b x E Hb Sa Sb).
    - (* a is an old residue: it violates [done]; the new piece satisfies [done] *)
      assert (Ca : covered r x) by (exists a; split; [rewrite E; apply in_or_app; right; now left|exact Sa]).
      apply (proj1 (I2 x)) in Ca. apply (proj1 (P x)) in Sb. tauto. }
  split; [|split]; cbn [fst snd].
  - intros x. rewrite sat_add_ineq, sat_all_snoc, I1. tauto.
  - intros x. rewrite sat_all_snoc.
    destruct (nonempty_sys n piece) as [[|]|] eqn:E.
    + rewrite Cov, I2, P. destruct (sat_dec c x); destruct (sat_all_dec done x); tauto.
    + assert (Em : forall y, ~ sat_sys piece y).
      { intros y Hy. assert (false = true) by (apply (nonempty_sys_exact _ _ _ E); now exists y). discriminate. }
      rewrite I2. split; [tauto|]. intros [Hq Hn]. split; [exact Hq|]. intros Hd. apply (Em x). apply P.
      split; [exact Hq|]. split; [exact Hd|]. intros Hc. apply Hn. now split.
    + rewrite Cov, I2, P. destruct (sat_dec c x); destruct (sat_all_dec done x); tauto.
  - destruct (nonempty_sys n piece) as [[|]|]; [exact Dis|exact I3|exact Dis].
Qed.

Lemma lp_fold_inv q cs : forall done st, lp_inv q done st ->
  lp_inv q (done ++ cs) (fold_left (fun st c => lp_aux c st) cs st).
Proof.
  induction cs as [|c cs IH]; intros done st I; cbn [fold_left]; [now rewrite app_nil_r|].
  replace (done ++ c :: cs) with ((done ++ [c]) ++ cs) by (rewrite <- app_assoc; reflexivity).
  apply IH. now apply lp_aux_inv.
Qed.

Theorem linear_partition_spec p q :
  let (pq, rs) := linear_partition p q in
  (forall x, sat_sys pq x <-> sat_sys p x /\ sat_sys q x) /\
  (forall x, covered rs x <-> sat_sys q x /\ ~ sat_sys p x) /\
  (forall r1 r2 a b x, rs = r1 ++ a :: r2 -> In b r2 -> sat_sys a x -> sat_sys b x -> False).
Proof.
  unfold linear_partition.
  assert (I0 : lp_inv q [] (q, [])).
  { split; [|split]; cbn [fst snd].
    - intros x. split; [intros H; split; [exact H|intros c []]|tauto].
    - intros x. split; [intros [b [[] _]]|intros [_ H]; exfalso; apply H; intros c []].
    - intros r1 r2 a b x E. destruct r1; discriminate. }
  pose proof (lp_fold_inv q (lp_constraints p) [] (q, []) I0) as I. cbn [app] in I.
  destruct (fold_left (fun st c => lp_aux c st) (lp_constraints p) (q, [])) as [pq rs].
  destruct I as [I1 [I2 I3]]. cbn [fst snd] in *. split; [|split].
  - intros x. rewrite I1, lp_constraints_sat. tauto.
  - intros x. rewrite I2, lp_constraints_sat. tauto.
  - exact I3.
Qed.

(* difference of a powerset by one polyhedron, as in Pointset_Powerset<NNC_Polyhedron>::difference_assign's
   inner loop: every disjunct is replaced by its residues *)
Definition difference_by (y : sys) (xs : list sys) : list sys := flat_map (fun x => snd (linear_partition y x)) xs.
Definition difference (ys xs : list sys) : list sys := fold_left (fun acc y => difference_by y acc) ys xs.

Theorem difference_by_exact y xs p : covered (difference_by y xs) p <-> covered xs p /\ ~ sat_sys y p.
Proof.
  unfold difference_by, covered. split.
  - intros [b [Hb Sb]]. apply in_flat_map in Hb. destruct Hb as [x [Hx Hb]].
    pose proof (linear_partition_spec y x) as S. destruct (linear_partition y x) as [pq rs]. cbn [snd] in Hb.
    destruct S as [_ [S2 _]]. assert (C : covered rs p) by (exists b; now split). apply S2 in C. split; [exists x; tauto|tauto].
  - intros [[x [Hx Sx]] Hn].
    pose proof (linear_partition_spec y x) as S. destruct (linear_partition y x) as [pq rs] eqn:E.
    destruct S as [_ [S2 _]]. destruct (proj2 (S2 p) (conj Sx Hn)) as [b [Hb Sb]].
    exists b. split; [|exact Sb]. apply in_flat_map. exists x. split; [exact Hx|]. now rewrite E.
Qed.

Theorem difference_exact ys : forall xs p, covered (difference ys xs) p <-> covered xs p /\ ~ covered ys p.
Proof.
  unfold difference. induction ys as [|y ys IH]; intros xs p; cbn [fold_left].
  - split; [intros H; split; [exact H|intros [b [[] _]]]|tauto].
  - rewrite IH, difference_by_exact.
    assert (C : covered (y :: ys) p <-> sat_sys y p \/ covered ys p).
    { unfold covered. split.
      - intros [b [[<-|Hb] Sb]]; [now left|right; now exists b].
      - intros [H|[b [Hb Sb]]]; [exists y; split; [now left|exact H]|exists b; split; [now right|exact Sb]]. }
    rewrite C. tauto.
Qed.
End LP.
