(* Copy-on-write disjuncts: Determinate<PSET> (src/Determinate_defs.hh, Determinate_inlines.hh).
   A heap of reference-counted Reps, handles (the Determinate objects) holding a pointer `prep';
   constructor, copy constructor, operator=, m_swap, mutate() (the non-const pointset()), destructor
   transcribed statement by statement (new_reference / del_reference / is_shared / delete).
   Theorems: whatever the history of operations, (1) every handle reads the value it would hold if
   each handle owned a private copy (value semantics): a copy is never affected by a later mutation
   of the original and vice versa; (2) each Rep's counter equals the number of live handles on it,
   is positive while the Rep is allocated, and a Rep is freed exactly when no handle is left. *)
From Coq Require Import List Bool Arith Lia.
Import ListNotations.

Section Cow.
Variable V : Type.

Definition loc := nat.
Record rep := mk_rep { refs : nat; pset : V }.
Record st := mk_st { heap : loc -> option rep; hs : list (option loc); next : loc }.

Inductive cmd :=
| New (h : nat) (v : V)            (* Determinate(const PSET&) constructing handle h *)
| Copy (h h' : nat)                (* Determinate(const Determinate& y): new handle h from h' *)
| Assign (h h' : nat)              (* operator= *)
| Swap (h h' : nat)                (* m_swap *)
| Mutate (h : nat) (f : V -> V)    (* PSET& pointset() { mutate(); return prep->pset; } then a write through the reference *)
| Destroy (h : nat).               (* ~Determinate *)

Definition get {A} (l : list (option A)) (h : nat) : option A := nth h l None.
Fixpoint set_nth {A} (h : nat) (x : A) (l : list A) {struct l} : list A :=
  match l, h with
  | [], _ => []
  | _ :: r, O => x :: r
  | y :: r, S k => y :: set_nth k x r
  end.

Definition hupd (hp : loc -> option rep) (l : loc) (r : option rep) : loc -> option rep :=
  fun l' => if Nat.eqb l' l then r else hp l'.

(* Rep::new_reference, Rep::del_reference, delete prep *)
Definition new_ref (hp : loc -> option rep) (l : loc) : loc -> option rep :=
  match hp l with Some r => hupd hp l (Some (mk_rep (S (refs r)) (pset r))) | None => hp end.
Definition del_ref (hp : loc -> option rep) (l : loc) : (loc -> option rep) * bool :=
  match hp l with
  | Some r => (hupd hp l (Some (mk_rep (refs r - 1) (pset r))), Nat.eqb (refs r - 1) 0)
  | None => (hp, false)
  end.
Definition release (hp : loc -> option rep) (l : loc) : loc -> option rep :=
  let (hp', zero) := del_ref hp l in if zero then hupd hp' l None else hp'.

Definition is_shared (hp : loc -> option rep) (l : loc) : bool :=
  match hp l with Some r => Nat.ltb 1 (refs r) | None => false end.

Definition step (s : st) (c : cmd) : st :=
  match c with
  | New h v =>
      if Nat.ltb h (length (hs s)) then
        match get (hs s) h with
        | None =>
            let l := next s in
            let hp := hupd (heap s) l (Some (mk_rep 0 v)) in          (* new Rep(pset): references(0) *)
            mk_st (new_ref hp l) (set_nth h (Some l) (hs s)) (S l)    (* prep->new_reference() *)
        | Some _ => s
        end
      else s
  | Copy h h' =>
      if Nat.ltb h (length (hs s)) then
        match get (hs s) h, get (hs s) h' with
        | None, Some l => mk_st (new_ref (heap s) l) (set_nth h (Some l) (hs s)) (next s)
        | _, _ => s
        end
      else s
  | Assign h h' =>
      match get (hs s) h, get (hs s) h' with
      | Some l, Some l' =>
          let hp1 := new_ref (heap s) l' in       (* y.prep->new_reference(); *)
          let hp2 := release hp1 l in             (* if (prep->del_reference()) delete prep; *)
          mk_st hp2 (set_nth h (Some l') (hs s)) (next s)   (* prep = y.prep; *)
      | _, _ => s
      end
  | Swap h h' =>
      match get (hs s) h, get (hs s) h' with
      | Some l, Some l' => mk_st (heap s) (set_nth h' (Some l) (set_nth h (Some l') (hs s))) (next s)
      | _, _ => s
      end
  | Mutate h f =>
      match get (hs s) h with
      | Some l =>
          match heap s l with
          | Some r =>
              if is_shared (heap s) l then
                let l2 := next s in
                let hp1 := hupd (heap s) l2 (Some (mk_rep 0 (pset r))) in   (* new Rep(prep->pset) *)
                let hp2 := fst (del_ref hp1 l) in                           (* (void) prep->del_reference(); *)
                let hp3 := new_ref hp2 l2 in                                (* new_prep->new_reference(); *)
                let hp4 := match hp3 l2 with Some r2 => hupd hp3 l2 (Some (mk_rep (refs r2) (f (pset r2)))) | None => hp3 end in
                mk_st hp4 (set_nth h (Some l2) (hs s)) (S l2)               (* prep = new_prep; *)
              else
                mk_st (hupd (heap s) l (Some (mk_rep (refs r) (f (pset r))))) (hs s) (next s)
          | None => s
          end
      | None => s
      end
  | Destroy h =>
      match get (hs s) h with
      | Some l => mk_st (release (heap s) l) (set_nth h None (hs s)) (next s)
      | None => s
      end
  end.

(* value semantics: every handle owns its value *)
Definition stepv (vs : list (option V)) (c : cmd) : list (option V) :=
  match c with
  | New h v => match get vs h with None => set_nth h (Some v) vs | Some _ => vs end
  | Copy h h' => match get vs h, get vs h' with None, Some v => set_nth h (Some v) vs | _, _ => vs end
  | Assign h h' => match get vs h, get vs h' with Some _, Some v => set_nth h (Some v) vs | _, _ => vs end
  | Swap h h' => match get vs h, get vs h' with Some v, Some v' => set_nth h' (Some v) (set_nth h (Some v') vs) | _, _ => vs end
  | Mutate h f => match get vs h with Some v => set_nth h (Some (f v)) vs | None => vs end
  | Destroy h => match get vs h with Some _ => set_nth h None vs | None => vs end
  end.

Definition init (n : nat) : st := mk_st (fun _ => None) (repeat None n) 0.
Definition initv (n : nat) : list (option V) := repeat None n.
Definition run_cow (n : nat) (hist : list cmd) : st := fold_left step hist (init n).
Definition run_values (n : nat) (hist : list cmd) : list (option V) := fold_left stepv hist (initv n).

Definition read_cow (s : st) (h : nat) : option V :=
  match get (hs s) h with Some l => option_map pset (heap s l) | None => None end.
Definition read_val (vs : list (option V)) (h : nat) : option V := get vs h.

(* number of live handles on a Rep *)
Definition on (l : loc) (o : option loc) : bool := match o with Some l' => Nat.eqb l' l | None => false end.
Definition count (l : loc) (hl : list (option loc)) : nat := length (filter (on l) hl).
Definition b2n (b : bool) : nat := if b then 1 else 0.

(* ------------------------------------------------------------------------------------------ *)
Lemma get_set_nth {A} (l : list (option A)) : forall h x k,
  get (set_nth h x l) k = if Nat.eqb k h && Nat.ltb h (length l) then x else get l k.
Proof.
  unfold get. induction l as [|y r IH]; intros h x k; cbn [set_nth length].
  - rewrite andb_false_r. reflexivity.
  - destruct h as [|h]; destruct k as [|k]; cbn [nth Nat.eqb andb]; try reflexivity.
    rewrite IH. reflexivity.
Qed.

Lemma length_set_nth {A} (l : list A) : forall h x, length (set_nth h x l) = length l.
Proof. induction l as [|y r IH]; intros [|h] x; cbn [set_nth length]; auto. Qed.

Lemma set_nth_beyond {A} (l : list A) : forall h x, (length l <= h)%nat -> set_nth h x l = l.
Proof.
  induction l as [|y r IH]; intros h x H; [reflexivity|]. destruct h; cbn [length] in H; [lia|].
  cbn [set_nth]. rewrite IH by lia. reflexivity.
Qed.

Lemma get_none_beyond {A} (l : list (option A)) h : (length l <= h)%nat -> get l h = None.
Proof. intros H. unfold get. now apply nth_overflow. Qed.

Lemma count_set_nth l (hl : list (option loc)) : forall h x, (h < length hl)%nat ->
  (count l (set_nth h x hl) + b2n (on l (get hl h)) = count l hl + b2n (on l x))%nat.
Proof.
  unfold count, get. induction hl as [|y r IH]; intros h x H; cbn [length] in H; [lia|].
  destruct h as [|h]; cbn [set_nth nth filter].
  - destruct (on l x), (on l y); cbn [length b2n]; lia.
  - specialize (IH h x ltac:(lia)). destruct (on l y); cbn [length]; lia.
Qed.

Lemma count_pos l (hl : list (option loc)) : forall h, get hl h = Some l -> (1 <= count l hl)%nat.
Proof.
  unfold count, get. induction hl as [|y r IH]; intros h H; [destruct h; discriminate|].
  destruct h as [|h]; cbn [nth] in H; cbn [filter].
  - subst y. cbn [on]. rewrite Nat.eqb_refl. cbn. lia.
  - specialize (IH h H). destruct (on l y); cbn [length]; lia.
Qed.

Lemma get_lt {A} (l : list (option A)) h x : get l h = Some x -> (h < length l)%nat.
Proof. intros H. destruct (Nat.lt_ge_cases h (length l)) as [L|L]; [exact L|]. rewrite get_none_beyond in H by exact L. discriminate. Qed.

Lemma count_two l (hl : list (option loc)) h k : h <> k -> get hl h = Some l -> get hl k = Some l -> (2 <= count l hl)%nat.
Proof.
  intros N H K. pose proof (count_set_nth l hl h None (get_lt _ _ _ H)) as C.
  rewrite H in C. cbn [on b2n] in C. rewrite Nat.eqb_refl in C. cbn [b2n] in C.
  assert (G : get (set_nth h None hl) k = Some l).
  { rewrite get_set_nth. destruct (Nat.eqb_spec k h); [congruence|exact K]. }
  pose proof (count_pos _ _ _ G). lia.
Qed.

Lemma count_repeat l n : count l (repeat None n) = 0%nat.
Proof. unfold count. induction n; cbn; auto. Qed.

(* ------------------------------------------------------------------------------------------ *)
(* the invariant *)
Definition counts_ok (s : st) : Prop :=
  forall l, match heap s l with
            | Some r => refs r = count l (hs s) /\ (0 < refs r)%nat
            | None => count l (hs s) = 0%nat
            end.
Definition fresh_ok (s : st) : Prop := forall l, (next s <= l)%nat -> heap s l = None.
Definition Inv (s : st) (vs : list (option V)) : Prop :=
  length (hs s) = length vs /\ counts_ok s /\ fresh_ok s /\ forall h, read_cow s h = read_val vs h.

Lemma live_alloc s h l : counts_ok s -> get (hs s) h = Some l -> exists r, heap s l = Some r /\ refs r = count l (hs s) /\ (0 < refs r)%nat.
Proof.
  intros C G. specialize (C l). pose proof (count_pos _ _ _ G). destruct (heap s l) as [r|]; [exists r; tauto|lia].
Qed.

Lemma live_below s h l : counts_ok s -> fresh_ok s -> get (hs s) h = Some l -> (l < next s)%nat.
Proof.
  intros C F G. destruct (live_alloc s h l C G) as [r [Hr _]].
  destruct (Nat.lt_ge_cases l (next s)) as [L|L]; [exact L|]. rewrite (F l L) in Hr. discriminate.
Qed.

Lemma val_of s vs h l r : (forall h, read_cow s h = read_val vs h) -> get (hs s) h = Some l -> heap s l = Some r -> get vs h = Some (pset r).
Proof. intros R G H. specialize (R h). unfold read_cow, read_val in R. rewrite G, H in R. cbn in R. now symmetry. Qed.

Lemma val_none s vs h : (forall h, read_cow s h = read_val vs h) -> get (hs s) h = None -> get vs h = None.
Proof. intros R G. specialize (R h). unfold read_cow, read_val in R. rewrite G in R. now symmetry. Qed.

Ltac eqb_cases := repeat match goal with
  | |- context [Nat.eqb ?a ?b] => destruct (Nat.eqb_spec a b); subst
  | H : context [Nat.eqb ?a ?b] |- _ => destruct (Nat.eqb_spec a b); subst
  end.

Lemma new_ref_at hp l r l1 : hp l = Some r ->
  new_ref hp l l1 = if Nat.eqb l1 l then Some (mk_rep (S (refs r)) (pset r)) else hp l1.
Proof. intros H. unfold new_ref. rewrite H. reflexivity. Qed.

Lemma del_ref_at hp l r l1 : hp l = Some r ->
  fst (del_ref hp l) l1 = if Nat.eqb l1 l then Some (mk_rep (refs r - 1) (pset r)) else hp l1.
Proof. intros H. unfold del_ref. rewrite H. reflexivity. Qed.

Lemma release_at hp l r l1 : hp l = Some r ->
  release hp l l1 = if Nat.eqb l1 l then (if Nat.eqb (refs r - 1) 0 then None else Some (mk_rep (refs r - 1) (pset r))) else hp l1.
Proof.
  intros H. unfold release, del_ref. rewrite H. destruct (Nat.eqb (refs r - 1) 0); unfold hupd; destruct (Nat.eqb_spec l1 l); reflexivity.
Qed.

Theorem step_inv s vs c : Inv s vs -> Inv (step s c) (stepv vs c).
Proof.
  intros [L [C [F R]]]. destruct c as [h v|h h'|h h'|h h'|h f|h]; cbn [step stepv].
  - (* New *)
    destruct (Nat.ltb_spec h (length (hs s))) as [Lt|Ge].
    2:{ rewrite (get_none_beyond vs h) by lia.
        (* the value model writes nothing either: the slot is outside the table *)
        rewrite set_nth_beyond by lia. repeat split; assumption. }
    destruct (get (hs s) h) as [l0|] eqn:G.
    + destruct (live_alloc s h l0 C G) as [r [Hr _]]. rewrite (val_of s vs h l0 r R G Hr). repeat split; assumption.
    + rewrite (val_none s vs h R G).
      assert (Fn : heap s (next s) = None) by (apply F; lia).
      assert (Hn : forall l1, new_ref (hupd (heap s) (next s) (Some (mk_rep 0 v))) (next s) l1 =
                              if Nat.eqb l1 (next s) then Some (mk_rep 1 v) else heap s l1).
      { intros l1. unfold new_ref, hupd. rewrite Nat.eqb_refl. cbn [refs pset]. destruct (Nat.eqb_spec l1 (next s)); reflexivity. }
      split; [|split; [|split]]; unfold counts_ok, fresh_ok; cbn [hs heap next].
      * rewrite !length_set_nth. exact L.
      * intros l. rewrite Hn. pose proof (count_set_nth l (hs s) h (Some (next s)) Lt) as CS. rewrite G in CS. cbn [on b2n] in CS.
        specialize (C l). destruct (Nat.eqb_spec l (next s)) as [->|Ne].
        -- rewrite Fn in C. rewrite Nat.eqb_refl in CS. cbn [refs b2n] in *. lia.
        -- destruct (Nat.eqb_spec (next s) l); [congruence|]. cbn [b2n] in CS.
           destruct (heap s l) as [r|]; [destruct C; split; lia|lia].
      * intros l Hl. rewrite Hn. destruct (Nat.eqb_spec l (next s)); [lia|]. apply F. lia.
      * intros k. unfold read_cow, read_val. cbn [hs heap]. rewrite !get_set_nth, <- L.
        destruct (Nat.eqb_spec k h) as [->|Ne]; cbn [andb].
        -- destruct (Nat.ltb_spec h (length (hs s))); [|lia]. rewrite Hn, Nat.eqb_refl. reflexivity.
        -- specialize (R k). unfold read_cow, read_val in R. destruct (get (hs s) k) as [lk|] eqn:Gk; [|exact R].
           rewrite Hn. destruct (Nat.eqb_spec lk (next s)) as [->|]; [|exact R].
           pose proof (live_below s k (next s) C F Gk). lia.
  - (* Copy *)
    destruct (Nat.ltb_spec h (length (hs s))) as [Lt|Ge].
    2:{ rewrite (get_none_beyond vs h) by lia.
        destruct (get vs h'); rewrite ?set_nth_beyond by lia; repeat split; assumption. }
    destruct (get (hs s) h) as [l0|] eqn:G.
    + destruct (live_alloc s h l0 C G) as [r [Hr _]]. rewrite (val_of s vs h l0 r R G Hr). repeat split; assumption.
    + rewrite (val_none s vs h R G). destruct (get (hs s) h') as [l|] eqn:G'.
      2:{ rewrite (val_none s vs h' R G'). repeat split; assumption. }
      destruct (live_alloc s h' l C G') as [r [Hr [Hc Hp]]]. rewrite (val_of s vs h' l r R G' Hr).
      assert (Hn : forall l1, new_ref (heap s) l l1 = if Nat.eqb l1 l then Some (mk_rep (S (refs r)) (pset r)) else heap s l1).
      { intros l1. unfold new_ref. rewrite Hr. reflexivity. }
      split; [|split; [|split]]; unfold counts_ok, fresh_ok; cbn [hs heap next].
      * rewrite !length_set_nth. exact L.
      * intros l1. rewrite Hn. pose proof (count_set_nth l1 (hs s) h (Some l) Lt) as CS. rewrite G in CS. cbn [on b2n] in CS.
        specialize (C l1). destruct (Nat.eqb_spec l1 l) as [->|Ne].
        -- rewrite Nat.eqb_refl in CS. rewrite Hr in C. cbn [refs b2n] in *. lia.
        -- destruct (Nat.eqb_spec l l1); [congruence|]. cbn [b2n] in CS.
           destruct (heap s l1) as [r1|]; [destruct C; split; lia|lia].
      * intros l1 Hl. rewrite Hn. destruct (Nat.eqb_spec l1 l) as [->|]; [|now apply F].
        pose proof (live_below s h' l C F G'). lia.
      * intros k. unfold read_cow, read_val. cbn [hs heap]. rewrite !get_set_nth, <- L.
        destruct (Nat.eqb_spec k h) as [->|Ne]; cbn [andb].
        -- destruct (Nat.ltb_spec h (length (hs s))); [|lia]. rewrite Hn, Nat.eqb_refl. reflexivity.
        -- specialize (R k). unfold read_cow, read_val in R. destruct (get (hs s) k) as [lk|] eqn:Gk; [|exact R].
           rewrite Hn. destruct (Nat.eqb_spec lk l) as [->|]; [|exact R]. rewrite Hr in R. exact R.
  - (* Assign *)
    destruct (get (hs s) h) as [l|] eqn:G.
    2:{ rewrite (val_none s vs h R G). repeat split; assumption. }
    destruct (live_alloc s h l C G) as [r [Hr [Hc Hp]]]. rewrite (val_of s vs h l r R G Hr).
    destruct (get (hs s) h') as [l'|] eqn:G'.
    2:{ rewrite (val_none s vs h' R G'). repeat split; assumption. }
    destruct (live_alloc s h' l' C G') as [r' [Hr' [Hc' Hp']]]. rewrite (val_of s vs h' l' r' R G' Hr').
    pose proof (get_lt _ _ _ G) as Lt.
    (* the heap after new_reference + del_reference (+ delete) *)
    assert (HP : forall l1, release (new_ref (heap s) l') l l1 =
                 if Nat.eqb l l' then heap s l1
                 else if Nat.eqb l1 l' then Some (mk_rep (S (refs r')) (pset r'))
                 else if Nat.eqb l1 l then (if Nat.eqb (refs r - 1) 0 then None else Some (mk_rep (refs r - 1) (pset r)))
                 else heap s l1).
    { intros l1. destruct (Nat.eqb_spec l l') as [->|Ne].
      - assert (E : new_ref (heap s) l' l' = Some (mk_rep (S (refs r')) (pset r'))) by (rewrite (new_ref_at _ _ _ _ Hr'), Nat.eqb_refl; reflexivity).
        rewrite (release_at _ _ _ _ E), (new_ref_at _ _ _ _ Hr'). cbn [refs pset].
        replace (S (refs r') - 1)%nat with (refs r') by lia.
        destruct (Nat.eqb_spec l1 l') as [->|]; [|reflexivity]. destruct (Nat.eqb_spec (refs r') 0); [lia|]. rewrite Hr'. now destruct r'.
      - assert (E : new_ref (heap s) l' l = Some r).
        { rewrite (new_ref_at _ _ _ _ Hr'). destruct (Nat.eqb_spec l l'); [congruence|exact Hr]. }
        rewrite (release_at _ _ _ _ E), (new_ref_at _ _ _ _ Hr').
        destruct (Nat.eqb_spec l1 l); destruct (Nat.eqb_spec l1 l'); try congruence; reflexivity. }
    split; [|split; [|split]]; unfold counts_ok, fresh_ok; cbn [hs heap next].
    + rewrite !length_set_nth. exact L.
    + intros l1. rewrite HP. pose proof (count_set_nth l1 (hs s) h (Some l') Lt) as CS. rewrite G in CS. cbn [on] in CS.
      pose proof (C l1) as C1.
      destruct (Nat.eqb_spec l l') as [->|Ne].
      * destruct (Nat.eqb l' l1); cbn [b2n] in CS; destruct (heap s l1); [destruct C1; split; lia|lia|destruct C1; split; lia|lia].
      * destruct (Nat.eqb_spec l1 l') as [->|Ne1].
        -- rewrite Nat.eqb_refl in CS. destruct (Nat.eqb_spec l l'); [congruence|]. cbn [b2n refs] in *. lia.
        -- destruct (Nat.eqb_spec l' l1); [congruence|]. destruct (Nat.eqb_spec l1 l) as [->|Ne2].
           ++ rewrite Nat.eqb_refl in CS. cbn [b2n] in CS. destruct (Nat.eqb_spec (refs r - 1) 0); cbn [refs]; lia.
           ++ destruct (Nat.eqb_spec l l1); [congruence|]. cbn [b2n] in CS. destruct (heap s l1); [destruct C1; split; lia|lia].
    + intros l1 Hl. rewrite HP. pose proof (live_below s h l C F G). pose proof (live_below s h' l' C F G').
      destruct (Nat.eqb l l'); [now apply F|]. destruct (Nat.eqb_spec l1 l'); [lia|]. destruct (Nat.eqb_spec l1 l); [lia|now apply F].
    + intros k. unfold read_cow, read_val. cbn [hs heap]. rewrite !get_set_nth, <- L.
      destruct (Nat.eqb_spec k h) as [->|Nk]; cbn [andb].
      * destruct (Nat.ltb_spec h (length (hs s))); [|lia]. rewrite HP.
        destruct (Nat.eqb_spec l l') as [->|]; [now rewrite Hr'|]. rewrite Nat.eqb_refl. reflexivity.
      * pose proof (R k) as Rk. unfold read_cow, read_val in Rk. destruct (get (hs s) k) as [lk|] eqn:Gk; [|exact Rk].
        rewrite HP. destruct (Nat.eqb_spec l l'); [exact Rk|].
        destruct (Nat.eqb_spec lk l') as [->|]; [rewrite Hr' in Rk; exact Rk|].
        destruct (Nat.eqb_spec lk l) as [->|]; [|exact Rk].
        pose proof (count_two l (hs s) h k ltac:(congruence) G Gk).
        destruct (Nat.eqb_spec (refs r - 1) 0); [lia|]. rewrite Hr in Rk. exact Rk.
  - (* Swap *)
    destruct (get (hs s) h) as [l|] eqn:G.
    2:{ rewrite (val_none s vs h R G). repeat split; assumption. }
    destruct (live_alloc s h l C G) as [r [Hr [Hc Hp]]]. rewrite (val_of s vs h l r R G Hr).
    destruct (get (hs s) h') as [l'|] eqn:G'.
    2:{ rewrite (val_none s vs h' R G'). repeat split; assumption. }
    destruct (live_alloc s h' l' C G') as [r' [Hr' [Hc' Hp']]]. rewrite (val_of s vs h' l' r' R G' Hr').
    pose proof (get_lt _ _ _ G) as Lt. pose proof (get_lt _ _ _ G') as Lt'.
    split; [|split; [|split]]; unfold counts_ok, fresh_ok; cbn [hs heap next].
    + rewrite !length_set_nth. exact L.
    + intros l1. pose proof (count_set_nth l1 (hs s) h (Some l') Lt) as CS. rewrite G in CS.
      pose proof (count_set_nth l1 (set_nth h (Some l') (hs s)) h' (Some l) ltac:(now rewrite length_set_nth)) as CS'.
      rewrite get_set_nth in CS'. destruct (Nat.ltb_spec h (length (hs s))); [|lia].
      specialize (C l1). destruct (Nat.eqb_spec h' h) as [->|Nh]; cbn [andb] in CS'.
      * rewrite G in G'. injection G' as <-. destruct (heap s l1); [destruct C; split; lia|lia].
      * rewrite G' in CS'. destruct (heap s l1); [destruct C; split; lia|lia].
    + exact F.
    + intros k. unfold read_cow, read_val. cbn [hs heap]. rewrite !get_set_nth, !length_set_nth, <- L.
      destruct (Nat.ltb_spec h (length (hs s))); [|lia]. destruct (Nat.ltb_spec h' (length (hs s))); [|lia].
      rewrite !andb_true_r. destruct (Nat.eqb_spec k h') as [->|]; [now rewrite Hr|].
      destruct (Nat.eqb_spec k h) as [->|]; [now rewrite Hr'|]. apply R.
  - (* Mutate *)
    destruct (get (hs s) h) as [l|] eqn:G.
    2:{ rewrite (val_none s vs h R G). repeat split; assumption. }
    destruct (live_alloc s h l C G) as [r [Hr [Hc Hp]]]. rewrite (val_of s vs h l r R G Hr). rewrite Hr.
    pose proof (get_lt _ _ _ G) as Lt. pose proof (live_below s h l C F G) as Lb.
    unfold is_shared. rewrite Hr. destruct (Nat.ltb_spec 1 (refs r)) as [Sh|Ns].
    + (* shared: copy *)
      assert (Fn : heap s (next s) = None) by (apply F; lia).
      assert (HP : forall l1,
        (match new_ref (fst (del_ref (hupd (heap s) (next s) (Some (mk_rep 0 (pset r)))) l)) (next s) (next s) with
         | Some r2 => hupd (new_ref (fst (del_ref (hupd (heap s) (next s) (Some (mk_rep 0 (pset r)))) l)) (next s)) (next s)
                        (Some (mk_rep (refs r2) (f (pset r2))))
         | None => new_ref (fst (del_ref (hupd (heap s) (next s) (Some (mk_rep 0 (pset r)))) l)) (next s)
         end) l1 =
        if Nat.eqb l1 (next s) then Some (mk_rep 1 (f (pset r)))
        else if Nat.eqb l1 l then Some (mk_rep (refs r - 1) (pset r)) else heap s l1).
      { intros l1.
        set (hp1 := hupd (heap s) (next s) (Some (mk_rep 0 (pset r)))).
        assert (E1 : hp1 l = Some r) by (unfold hp1, hupd; destruct (Nat.eqb_spec l (next s)); [lia|exact Hr]).
        assert (E2 : fst (del_ref hp1 l) (next s) = Some (mk_rep 0 (pset r))).
        { rewrite (del_ref_at _ _ _ _ E1). destruct (Nat.eqb_spec (next s) l); [lia|]. unfold hp1, hupd. now rewrite Nat.eqb_refl. }
        rewrite (new_ref_at _ _ _ (next s) E2), Nat.eqb_refl. cbn [refs pset]. unfold hupd at 1.
        destruct (Nat.eqb_spec l1 (next s)) as [->|N1]; [reflexivity|].
        rewrite (new_ref_at _ _ _ l1 E2). destruct (Nat.eqb_spec l1 (next s)); [congruence|].
        rewrite (del_ref_at _ _ _ _ E1). destruct (Nat.eqb_spec l1 l); [reflexivity|]. unfold hp1, hupd.
        destruct (Nat.eqb_spec l1 (next s)); [congruence|reflexivity]. }
      split; [|split; [|split]]; unfold counts_ok, fresh_ok; cbn [hs heap next].
      * rewrite !length_set_nth. exact L.
      * intros l1. rewrite HP. pose proof (count_set_nth l1 (hs s) h (Some (next s)) Lt) as CS. rewrite G in CS. cbn [on] in CS.
        pose proof (C l1) as C1. destruct (Nat.eqb_spec l1 (next s)) as [->|N1].
        -- rewrite Fn in C1. rewrite Nat.eqb_refl in CS. destruct (Nat.eqb_spec l (next s)); [lia|]. cbn [b2n refs] in *. lia.
        -- destruct (Nat.eqb_spec (next s) l1); [congruence|]. destruct (Nat.eqb_spec l1 l) as [->|N2].
           ++ rewrite Nat.eqb_refl in CS. cbn [b2n refs] in *. lia.
           ++ destruct (Nat.eqb_spec l l1); [congruence|]. cbn [b2n] in CS. destruct (heap s l1); [destruct C1; split; lia|lia].
      * intros l1 Hl. rewrite HP. destruct (Nat.eqb_spec l1 (next s)); [lia|]. destruct (Nat.eqb_spec l1 l); [lia|]. apply F. lia.
      * intros k. unfold read_cow, read_val. cbn [hs heap]. rewrite !get_set_nth, <- L.
        destruct (Nat.eqb_spec k h) as [->|Nk]; cbn [andb].
        -- destruct (Nat.ltb_spec h (length (hs s))); [|lia]. rewrite HP, Nat.eqb_refl. reflexivity.
        -- pose proof (R k) as Rk. unfold read_cow, read_val in Rk. destruct (get (hs s) k) as [lk|] eqn:Gk; [|exact Rk].
           rewrite HP. pose proof (live_below s k lk C F Gk). destruct (Nat.eqb_spec lk (next s)); [lia|].
           destruct (Nat.eqb_spec lk l) as [->|]; [rewrite Hr in Rk; exact Rk|exact Rk].
    + (* not shared: write in place *)
      split; [|split; [|split]]; unfold counts_ok, fresh_ok; cbn [hs heap next].
      * rewrite !length_set_nth. exact L.
      * intros l1. specialize (C l1). unfold hupd. destruct (Nat.eqb_spec l1 l) as [->|]; [|exact C]. rewrite Hr in C. exact C.
      * intros l1 Hl. unfold hupd. destruct (Nat.eqb_spec l1 l); [lia|now apply F].
      * intros k. unfold read_cow, read_val. cbn [hs heap]. rewrite get_set_nth, <- L.
        destruct (Nat.eqb_spec k h) as [->|Nk]; cbn [andb].
        -- destruct (Nat.ltb_spec h (length (hs s))); [|lia]. rewrite G. unfold hupd. rewrite Nat.eqb_refl. reflexivity.
        -- pose proof (R k) as Rk. unfold read_cow, read_val in Rk. destruct (get (hs s) k) as [lk|] eqn:Gk; [|exact Rk].
           unfold hupd. destruct (Nat.eqb_spec lk l) as [->|]; [|exact Rk].
           pose proof (count_two l (hs s) h k ltac:(congruence) G Gk). lia.
  - (* Destroy *)
    destruct (get (hs s) h) as [l|] eqn:G.
    2:{ rewrite (val_none s vs h R G). repeat split; assumption. }
    destruct (live_alloc s h l C G) as [r [Hr [Hc Hp]]]. rewrite (val_of s vs h l r R G Hr).
    pose proof (get_lt _ _ _ G) as Lt.
    assert (HP : forall l1, release (heap s) l l1 =
                 if Nat.eqb l1 l then (if Nat.eqb (refs r - 1) 0 then None else Some (mk_rep (refs r - 1) (pset r))) else heap s l1).
    { intros l1. apply release_at. exact Hr. }
    split; [|split; [|split]]; unfold counts_ok, fresh_ok; cbn [hs heap next].
    + rewrite !length_set_nth. exact L.
    + intros l1. rewrite HP. pose proof (count_set_nth l1 (hs s) h None Lt) as CS. rewrite G in CS. cbn [on b2n] in CS.
      pose proof (C l1) as C1. destruct (Nat.eqb_spec l1 l) as [->|N1].
      * rewrite Nat.eqb_refl in CS. cbn [b2n] in CS. destruct (Nat.eqb_spec (refs r - 1) 0); cbn [refs]; lia.
      * destruct (Nat.eqb_spec l l1); [congruence|]. cbn [b2n] in CS. destruct (heap s l1); [destruct C1; split; lia|lia].
    + intros l1 Hl. rewrite HP. pose proof (live_below s h l C F G). destruct (Nat.eqb_spec l1 l); [lia|now apply F].
    + intros k. unfold read_cow, read_val. cbn [hs heap]. rewrite !get_set_nth, <- L.
      destruct (Nat.eqb_spec k h) as [->|Nk]; cbn [andb].
      * destruct (Nat.ltb_spec h (length (hs s))); [reflexivity|lia].
      * pose proof (R k) as Rk. unfold read_cow, read_val in Rk. destruct (get (hs s) k) as [lk|] eqn:Gk; [|exact Rk].
        rewrite HP. destruct (Nat.eqb_spec lk l) as [->|]; [|exact Rk].
        pose proof (count_two l (hs s) h k ltac:(congruence) G Gk).
        destruct (Nat.eqb_spec (refs r - 1) 0); [lia|]. rewrite Hr in Rk. exact Rk.
Qed.

Lemma init_inv n : Inv (init n) (initv n).
Proof.
  unfold init, initv. split; [cbn [hs]; now rewrite !repeat_length|]. split; [|split].
  - intros l. cbn [heap hs]. apply count_repeat.
  - intros l _. reflexivity.
  - intros h. unfold read_cow, read_val, get. cbn [hs].
    assert (E : forall A n h, nth h (repeat (@None A) n) None = None) by (intros A m; induction m; intros [|k]; cbn; auto).
    now rewrite !E.
Qed.

Lemma run_inv n hist : Inv (run_cow n hist) (run_values n hist).
Proof.
  unfold run_cow, run_values. generalize (init_inv n). generalize (init n) (initv n).
  induction hist as [|c hist IH]; intros s vs I; cbn [fold_left]; [exact I|]. apply IH. now apply step_inv.
Qed.

Theorem cow_refines_values n hist h : read_cow (run_cow n hist) h = read_val (run_values n hist) h.
Proof. destruct (run_inv n hist) as [_ [_ [_ R]]]. apply R. Qed.

Theorem cow_refcounts n hist l :
  match heap (run_cow n hist) l with
  | Some r => refs r = count l (hs (run_cow n hist)) /\ (0 < refs r)%nat
  | None => count l (hs (run_cow n hist)) = 0%nat
  end.
Proof. destruct (run_inv n hist) as [_ [C _]]. apply C. Qed.

End Cow.
