(* The generic powerset model instantiated with the reference polyhedra (constraint systems decided
   by the verified oracle).  A disjunct is a system together with an UNTRUSTED generator hint used only
   to propose the convex hull; the proposal is accepted only after the oracle has checked that it
   contains both arguments (upper bound) and, for upper_bound_assign_if_exact, that it is covered
   by their union.  All the [laws] of PSDom hold for every value of the hints. *)
From Coq Require Import List ZArith QArith Bool.
Require Import PPLV.Base.FM PPLV.Base.Sys PPLV.Base.Gens PPLV.Poly.PolyOps PPLV.Poly.PolyQuery.
Require Import PPLV.Powerset.PS PPLV.Powerset.PSDom PPLV.Powerset.UnionIncl.
Import ListNotations.

Definition pd := (sys * option (list gen))%type.

Section Poly.
Variables (dim nb : nat).     (* space dimension; dimension bound handed to the oracle (>= dim + 1) *)

Definition p_den (a : pd) (p : point) : Prop := sat_sys (fst a) p.
Definition yes (o : option bool) : bool := match o with Some true => true | _ => false end.
Definition no (o : option bool) : bool := match o with Some false => true | _ => false end.
Definition p_entails (a b : pd) : bool := yes (incl_sys nb (fst a) (fst b)).
Definition p_bottom (a : pd) : bool := no (nonempty_sys nb (fst a)).
Definition p_top (a : pd) : bool := yes (q_is_universe nb (fst a)).
Definition p_meet (a b : pd) : pd := (union_sys (fst a) (fst b), None).
Definition is_pt (g : gen) : bool := match gk g with GPoint => true | _ => false end.
Definition hull_candidate (a b : pd) : option pd :=
  match snd a, snd b with
  | Some ga, Some gb =>
      let g := ga ++ gb in
      Some (if existsb is_pt g then cons_of_gens dim g else false_sys, Some g)
  | _, _ => None
  end.
Definition p_universe : pd := (empty_sys, None).
Definition p_ub (a b : pd) : pd :=
  match hull_candidate a b with
  | Some h => if p_entails a h && p_entails b h then h else p_universe
  | None => p_universe
  end.
Definition p_ube (a b : pd) : option pd :=
  match hull_candidate a b with
  | Some h => if p_entails a h && p_entails b h && yes (union_incl nb [fst a; fst b] (fst h)) then Some h else None
  | None => None
  end.

Definition p_sc (a b : pd) : bool := yes (q_strictly_contains nb (fst a) (fst b)).

Definition poly_dom : dom := mk_dom pd point p_den p_entails p_bottom p_top p_ub p_meet p_ube p_sc.

Lemma p_entails_sound a b : p_entails a b = true -> forall p, p_den a p -> p_den b p.
Proof.
  unfold p_entails, yes, p_den. destruct (incl_sys nb (fst a) (fst b)) as [[|]|] eqn:E; try discriminate.
  intros _. now apply (incl_sys_exact _ _ _ _ E).
Qed.

Theorem poly_laws : laws poly_dom.
Proof.
  split; cbn [dden dent dbot dtop dub dmeet dube dsc poly_dom dD dP].
  - exact p_entails_sound.
  - intros a. unfold p_bottom, no, p_den. destruct (nonempty_sys nb (fst a)) as [[|]|] eqn:E; try discriminate.
    intros _ p Hp. assert (false = true) by (apply (nonempty_sys_exact _ _ _ E); now exists p). discriminate.
  - intros a. unfold p_top, yes, p_den. destruct (q_is_universe nb (fst a)) as [[|]|] eqn:E; try discriminate.
    intros _. now apply (q_is_universe_exact _ _ _ E).
  - intros a b p H. unfold p_ub. destruct (hull_candidate a b) as [h|]; [|apply sat_empty_sys].
    destruct (p_entails a h && p_entails b h) eqn:E; [|apply sat_empty_sys].
    apply andb_true_iff in E. destruct E as [E1 E2]. destruct H as [H|H]; [now apply (p_entails_sound a h E1)|now apply (p_entails_sound b h E2)].
  - intros a b p. unfold p_meet, p_den. cbn [fst]. apply meet_spec.
  - intros a b u. unfold p_ube. destruct (hull_candidate a b) as [h|]; [|discriminate].
    destruct (p_entails a h && p_entails b h && yes (union_incl nb [fst a; fst b] (fst h))) eqn:E; [|discriminate].
    intros [= <-] p. apply andb_true_iff in E. destruct E as [E E3]. apply andb_true_iff in E. destruct E as [E1 E2].
    split.
    + intros Hp. unfold yes in E3. destruct (union_incl nb [fst a; fst b] (fst h)) as [[|]|] eqn:U; try discriminate.
      destruct (proj1 (union_incl_exact _ _ _ _ U) eq_refl p Hp) as [c [[<-|[<-|[]]] Hc]]; [now left|now right].
    + intros [H|H]; [now apply (p_entails_sound a h E1)|now apply (p_entails_sound b h E2)].
  - intros a b. unfold p_sc, yes, p_den. destruct (q_strictly_contains nb (fst a) (fst b)) as [[|]|] eqn:E; try discriminate.
    intros _. apply (proj1 (q_strictly_contains_exact _ _ _ _ E) eq_refl).
Qed.

(* the emptiness test is complete whenever the oracle answers (its dimension bound is large enough) *)
Theorem poly_bot_complete_when_decided a :
  nonempty_sys nb (fst a) <> None -> (forall p, ~ p_den a p) -> p_bottom a = true.
Proof.
  unfold p_bottom, no, p_den. destruct (nonempty_sys nb (fst a)) as [[|]|] eqn:E; [|reflexivity|congruence].
  intros _ H. exfalso. destruct (proj1 (nonempty_sys_exact _ _ _ E) eq_refl) as [p Hp]. now apply (H p).
Qed.

(* the main theorems, read on the reference polyhedra *)
Corollary poly_omega_reduce_union s p : Den poly_dom (Omega poly_dom never s) p <-> Den poly_dom s p.
Proof. apply T_omega_reduce_union, poly_laws. Qed.
Corollary poly_meet_union y s p : Den poly_dom (Meet poly_dom never y s) p <-> Den poly_dom s p /\ Den poly_dom y p.
Proof. apply T_meet_union, poly_laws. Qed.
Corollary poly_ub_union y s p : Den poly_dom (Lub poly_dom never y s) p <-> Den poly_dom s p \/ Den poly_dom y p.
Proof. apply T_ub_union, poly_laws. Qed.
Corollary poly_pairwise_reduce_union s p : Den poly_dom (PairwiseReduce poly_dom never s) p <-> Den poly_dom s p.
Proof. apply T_pairwise_reduce_union, poly_laws. Qed.

(* the union of a powerset as the list of systems the union tests work on *)
Definition systems (s : Ps poly_dom) : list sys := map fst (seq _ s).
Lemma Den_covered s p : Den poly_dom s p <-> covered (systems s) p.
Proof.
  unfold Den, den_ps, den_l, covered, systems. cbn. split.
  - intros [d [Hd Hp]]. exists (fst d). split; [now apply in_map|exact Hp].
  - intros [b [Hb Hp]]. apply in_map_iff in Hb. destruct Hb as [d [<- Hd]]. exists d. now split.
Qed.

(* geometric covering / equality / difference of powersets decided exactly *)
Theorem geometric_covers_decided x y r :
  unions_incl nb (systems y) (systems x) = Some r -> (r = true <-> forall p, Den poly_dom y p -> Den poly_dom x p).
Proof.
  intros H. rewrite (unions_incl_exact _ _ _ _ H). split; intros K p; [rewrite !Den_covered|rewrite <- !Den_covered]; apply K.
Qed.
Theorem geometric_equals_decided x y r :
  unions_equiv nb (systems x) (systems y) = Some r -> (r = true <-> forall p, Den poly_dom x p <-> Den poly_dom y p).
Proof.
  intros H. rewrite (unions_equiv_exact _ _ _ _ H). split; intros K p; [rewrite !Den_covered|rewrite <- !Den_covered]; apply K.
Qed.
Theorem difference_decided z x y r :
  is_difference nb (systems z) (systems x) (systems y) = Some r ->
  (r = true <-> forall p, Den poly_dom z p <-> (Den poly_dom x p /\ ~ Den poly_dom y p)).
Proof.
  intros H. rewrite (is_difference_exact _ _ _ _ _ H). split; intros K p; [rewrite !Den_covered|rewrite <- !Den_covered]; apply K.
Qed.
End Poly.
