(* Exact inclusion / equality / difference tests between FINITE UNIONS of (not necessarily closed)
   rational polyhedra, built on the verified emptiness test [nonempty_sys]:
      A ⊆ B_1 ∪ ... ∪ B_k   iff   A \ B_1 \ ... \ B_k = ∅,
   computed by recursive splitting of A along the constraints of B_1, then of B_2, ...
   Every answer is an [option bool]; [None] = the dimension bound given was too small. *)
From Coq Require Import List ZArith QArith Lia Lqa Bool.
Require Import PPLV.Base.FM PPLV.Base.Sys PPLV.Poly.PolyOps.
Import ListNotations.
Local Open Scope Q_scope.

(* all constraints of a system as inequalities *)
Definition ineqs_of (b : sys) : list cstr := ineqs b ++ flat_map (fun e => [ge_of e; le_of e]) (eqs b).

Lemma ineqs_of_sat b p : sat_all (ineqs_of b) p <-> sat_sys b p.
Proof.
  unfold ineqs_of, sat_sys, sat_all, sat_eqs. split.
  - intros H. split.
    + intros e He. apply eq_as_ineqs. split; apply H; apply in_or_app; right; apply in_flat_map; exists e; cbn; auto.
    + intros c Hc. apply H. apply in_or_app. now left.
  - intros [H1 H2] c Hc. apply in_app_or in Hc. destruct Hc as [Hc|Hc]; [now apply H2|].
    apply in_flat_map in Hc. destruct Hc as [e [He [<-|[<-|[]]]]]; apply (eq_as_ineqs e p); auto.
Qed.

Definition covered (Bs : list sys) (p : point) : Prop := exists b, In b Bs /\ sat_sys b p.

(* lazy conjunction of verdicts: a definite `false' on the left decides *)
Definition oand_l (a : option bool) (b : unit -> option bool) : option bool :=
  match a with
  | Some false => Some false
  | Some true => b tt
  | None => match b tt with Some false => Some false | _ => None end
  end.

(* A, restricted successively by the constraints cs of the current B: the part violating the
   first constraint is handed to [k] (the test against the remaining B's); the part satisfying
   all of cs lies in B *)
Fixpoint split_on (A : sys) (cs : list cstr) (k : sys -> option bool) : option bool :=
  match cs with
  | [] => Some true
  | c :: cs' => oand_l (k (add_ineq (neg_c c) A)) (fun _ => split_on (add_ineq c A) cs' k)
  end.

Fixpoint union_incl (n : nat) (Bs : list sys) (A : sys) : option bool :=
  match nonempty_sys n A with
  | None => None
  | Some false => Some true
  | Some true =>
      match Bs with
      | [] => Some false
      | B :: Bs' => split_on A (ineqs_of B) (union_incl n Bs')
      end
  end.

Lemma oand_l_spec a b (X Y : Prop) r :
  (forall x, a = Some x -> (x = true <-> X)) -> (forall y, b tt = Some y -> (y = true <-> Y)) ->
  oand_l a b = Some r -> (r = true <-> X /\ Y).
Proof.
  intros Ha Hb. unfold oand_l. destruct a as [[|]|].
  - intros H. specialize (Hb r H). specialize (Ha true eq_refl). tauto.
  - intros [= <-]. specialize (Ha false eq_refl). split; [discriminate|]. intros [H _]. apply Ha in H. discriminate.
  - destruct (b tt) as [[|]|] eqn:E; try discriminate. intros [= <-]. specialize (Hb false eq_refl).
    split; [discriminate|]. intros [_ H]. apply Hb in H. discriminate.
Qed.

Lemma split_on_spec (k : sys -> option bool) (Rest : point -> Prop) :
  (forall A x, k A = Some x -> (x = true <-> forall p, sat_sys A p -> Rest p)) ->
  forall cs A r, split_on A cs k = Some r ->
  (r = true <-> forall p, sat_sys A p -> sat_all cs p \/ Rest p).
Proof.
  intros Hk. induction cs as [|c cs IH]; intros A r; cbn [split_on].
  - intros [= <-]. split; [|reflexivity]. intros _ p _. left. intros c [].
  - intros H.
    rewrite (oand_l_spec _ _ (forall p, sat_sys (add_ineq (neg_c c) A) p -> Rest p)
               (forall p, sat_sys (add_ineq c A) p -> sat_all cs p \/ Rest p) r (Hk _) (fun y => IH _ y) H).
    split.
    + intros [H1 H2] p Hp. destruct (sat_dec c p) as [Sc|Nc].
      * destruct (H2 p) as [S|S]; [apply sat_add_ineq; now split| |now right].
        left. intros c' [<-|Hc']; [exact Sc|now apply S].
      * right. apply H1. apply sat_add_ineq. split; [now apply sat_neg|exact Hp].
    + intros H0. split.
      * intros p Hp. apply sat_add_ineq in Hp. destruct Hp as [Nc Hp]. apply sat_neg in Nc.
        destruct (H0 p Hp) as [S|S]; [|exact S]. exfalso. apply Nc. apply S. now left.
      * intros p Hp. apply sat_add_ineq in Hp. destruct Hp as [Sc Hp].
        destruct (H0 p Hp) as [S|S]; [|now right]. left. intros c' Hc'. apply S. now right.
Qed.

Theorem union_incl_exact n Bs : forall A r,
  union_incl n Bs A = Some r -> (r = true <-> forall p, sat_sys A p -> covered Bs p).
Proof.
  induction Bs as [|B Bs IH]; intros A r; cbn [union_incl];
    destruct (nonempty_sys n A) as [[|]|] eqn:E; try discriminate;
    pose proof (nonempty_sys_exact _ _ _ E) as X.
  - intros [= <-]. split; [discriminate|]. intros H. destruct (proj1 X eq_refl) as [p Hp].
    destruct (H p Hp) as [b [[] _]].
  - intros [= <-]. split; [|reflexivity]. intros _ p Hp. exfalso.
    assert (false = true) by (apply X; now exists p). discriminate.
  - intros H. rewrite (split_on_spec (union_incl n Bs) (covered Bs) IH _ _ _ H). split.
    + intros H0 p Hp. destruct (H0 p Hp) as [S|[b [Hb Sb]]].
      * exists B. split; [now left|now apply ineqs_of_sat].
      * exists b. split; [now right|exact Sb].
    + intros H0 p Hp. destruct (H0 p Hp) as [b [[<-|Hb] Sb]]; [left; now apply ineqs_of_sat|right; now exists b].
  - intros [= <-]. split; [|reflexivity]. intros _ p Hp. exfalso.
    assert (false = true) by (apply X; now exists p). discriminate.
Qed.

(* every disjunct of As inside the union of Bs *)
Definition unions_incl (n : nat) (As Bs : list sys) : option bool :=
  fold_right (fun A acc => oand_l (union_incl n Bs A) (fun _ => acc)) (Some true) As.

Theorem unions_incl_exact n Bs : forall As r,
  unions_incl n As Bs = Some r -> (r = true <-> forall p, covered As p -> covered Bs p).
Proof.
  induction As as [|A As IH]; intros r; cbn [unions_incl fold_right].
  - intros [= <-]. split; [|reflexivity]. intros _ p [b [[] _]].
  - intros H. fold (unions_incl n As Bs) in H.
    rewrite (oand_l_spec _ _ (forall p, sat_sys A p -> covered Bs p) (forall p, covered As p -> covered Bs p) r
               (fun x => union_incl_exact n Bs A x) (fun y => IH y) H).
    split.
    + intros [H1 H2] p [b [[<-|Hb] Sb]]; [now apply H1|apply H2; now exists b].
    + intros H0. split; [intros p Hp; apply H0; exists A; split; [now left|exact Hp]|].
      intros p [b [Hb Sb]]. apply H0. exists b. split; [now right|exact Sb].
Qed.

Definition unions_equiv (n : nat) (As Bs : list sys) : option bool :=
  oand_l (unions_incl n As Bs) (fun _ => unions_incl n Bs As).

Theorem unions_equiv_exact n As Bs r :
  unions_equiv n As Bs = Some r -> (r = true <-> forall p, covered As p <-> covered Bs p).
Proof.
  intros H. unfold unions_equiv in H.
  rewrite (oand_l_spec _ _ _ _ r (fun x => unions_incl_exact n Bs As x) (fun y => unions_incl_exact n As Bs y) H).
  split; [intros [H1 H2] p; split; auto|intros H0; split; intros p; apply H0].
Qed.

(* all pairs disjoint: the unions do not meet *)
Definition unions_disjoint (n : nat) (As Bs : list sys) : option bool :=
  fold_right (fun A acc =>
    fold_right (fun B acc' => oand_l (option_map negb (nonempty_sys n (union_sys A B))) (fun _ => acc')) acc Bs)
    (Some true) As.

Theorem unions_disjoint_exact n Bs : forall As r,
  unions_disjoint n As Bs = Some r -> (r = true <-> forall p, covered As p -> covered Bs p -> False).
Proof.
  induction As as [|A As IH]; intros r; cbn [unions_disjoint fold_right].
  - intros [= <-]. split; [|reflexivity]. intros _ p [b [[] _]].
  - fold (unions_disjoint n As Bs).
    assert (G : forall Bs' acc (R : Prop) r', (forall y, acc = Some y -> (y = true <-> R)) ->
                fold_right (fun B acc' => oand_l (option_map negb (nonempty_sys n (union_sys A B))) (fun _ => acc')) acc Bs' = Some r' ->
                (r' = true <-> (forall p, sat_sys A p -> covered Bs' p -> False) /\ R)).
    { induction Bs' as [|B Bs' IHB]; intros acc R r' Hacc; cbn [fold_right].
      - intros H. rewrite (Hacc _ H). split; [intros HR; split; [intros p _ [b [[] _]]|exact HR]|tauto].
      - intros H.
        assert (Hd : forall x, option_map negb (nonempty_sys n (union_sys A B)) = Some x ->
                     (x = true <-> forall p, sat_sys A p -> sat_sys B p -> False)).
        { intros x Hx. destruct (nonempty_sys n (union_sys A B)) as [ne|] eqn:E; [|discriminate]. cbn in Hx. injection Hx as <-.
          pose proof (nonempty_sys_exact _ _ _ E) as X. split.
          * intros Hn p Ha Hb. assert (ne = true) by (apply X; exists p; apply meet_spec; now split). subst ne. discriminate.
          * intros Hd. destruct ne; [|reflexivity]. exfalso. destruct (proj1 X eq_refl) as [p Hp]. apply meet_spec in Hp.
            destruct Hp. eauto. }
        rewrite (oand_l_spec _ _ (forall p, sat_sys A p -> sat_sys B p -> False)
                   ((forall p, sat_sys A p -> covered Bs' p -> False) /\ R) r' Hd (fun y => IHB acc R y Hacc) H).
        split.
        + intros [H1 [H2 H3]]. split; [|exact H3]. intros p Hp [b [[<-|Hb] Sb]]; [now apply (H1 p)|apply (H2 p Hp); now exists b].
        + intros [H1 H2]. split; [|split; [|exact H2]].
          * intros p Ha Hb. apply (H1 p Ha). exists B. split; [now left|exact Hb].
          * intros p Ha [b [Hb Sb]]. apply (H1 p Ha). exists b. split; [now right|exact Sb]. }
    intros H. rewrite (G Bs _ (forall p, covered As p -> covered Bs p -> False) r (fun y => IH y) H). split.
    + intros [H1 H2] p [a [[<-|Ha] Sa]] Hb; [now apply (H1 p)|apply (H2 p); [now exists a|exact Hb]].
    + intros H0. split.
      * intros p Ha Hb. apply (H0 p); [exists A; split; [now left|exact Ha]|exact Hb].
      * intros p [a [Ha Sa]] Hb. apply (H0 p); [exists a; split; [now right|exact Sa]|exact Hb].
Qed.

Lemma sat_sys_dec s p : sat_sys s p \/ ~ sat_sys s p.
Proof.
  unfold sat_sys, sat_eqs, sat_all.
  assert (A : (forall e, In e (eqs s) -> leval e p == 0) \/ ~ (forall e, In e (eqs s) -> leval e p == 0)).
  { induction (eqs s) as [|e l IH]; [left; intros e []|].
    destruct (Qeq_dec (leval e p) 0) as [E|E]; [|right; intros H; apply E, H; now left].
    destruct IH as [IH|IH]; [left; intros e' [<-|H]; auto|right; intros H; apply IH; intros e' He'; apply H; now right]. }
  assert (B : (forall c, In c (ineqs s) -> sat c p) \/ ~ (forall c, In c (ineqs s) -> sat c p)).
  { induction (ineqs s) as [|c l IH]; [left; intros c []|].
    destruct (sat_dec c p) as [E|E]; [|right; intros H; apply E, H; now left].
    destruct IH as [IH|IH]; [left; intros c' [<-|H]; auto|right; intros H; apply IH; intros c' Hc'; apply H; now right]. }
  tauto.
Qed.

Lemma classic_covered Bs p : covered Bs p \/ ~ covered Bs p.
Proof.
  unfold covered. induction Bs as [|b l IH]; [right; intros [b [[] _]]|].
  destruct (sat_sys_dec b p) as [H|H]; [left; exists b; split; [now left|exact H]|].
  destruct IH as [[b' [Hb Sb]]|IH]; [left; exists b'; split; [now right|exact Sb]|].
  right. intros [b' [[<-|Hb] Sb]]; [now apply H|apply IH; now exists b'].
Qed.

(* R is exactly X \ Y *)
Definition is_difference (n : nat) (Rs Xs Ys : list sys) : option bool :=
  oand_l (unions_incl n Rs Xs) (fun _ => oand_l (unions_disjoint n Rs Ys) (fun _ => unions_incl n Xs (Rs ++ Ys))).

Theorem is_difference_exact n Rs Xs Ys r :
  is_difference n Rs Xs Ys = Some r ->
  (r = true <-> forall p, covered Rs p <-> (covered Xs p /\ ~ covered Ys p)).
Proof.
  intros H. unfold is_difference in H.
  assert (K : forall y, oand_l (unions_disjoint n Rs Ys) (fun _ => unions_incl n Xs (Rs ++ Ys)) = Some y ->
              (y = true <-> (forall p, covered Rs p -> covered Ys p -> False) /\ (forall p, covered Xs p -> covered (Rs ++ Ys) p))).
  { intros y Hy. apply (oand_l_spec _ _ _ _ y (fun x => unions_disjoint_exact n Ys Rs x) (fun z => unions_incl_exact n (Rs ++ Ys) Xs z) Hy). }
  rewrite (oand_l_spec _ _ _ _ r (fun x => unions_incl_exact n Xs Rs x) K H).
  assert (App : forall p, covered (Rs ++ Ys) p <-> covered Rs p \/ covered Ys p).
  { intros p. unfold covered. split.
    - intros [b [Hb Sb]]. apply in_app_or in Hb. destruct Hb; [left|right]; eauto.
    - intros [[b [Hb Sb]]|[b [Hb Sb]]]; exists b; split; auto; apply in_or_app; auto. }
  split.
  - intros [H1 [H2 H3]] p. split.
    + intros Hr. split; [now apply H1|]. intros Hy. now apply (H2 p).
    + intros [Hx Hy]. apply H3, App in Hx. tauto.
  - intros H0. split; [|split].
    + intros p Hr. now apply H0.
    + intros p Hr Hy. apply H0 in Hr. tauto.
    + intros p Hx. apply App. destruct (classic_covered Ys p) as [Hy|Hy]; [now right|left; apply H0; now split].
Qed.
