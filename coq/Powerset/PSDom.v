(* The generic powerset model of PS.v packaged over a record [dom] (base domain + operations) and
   [laws] (the soundness laws the base domain must satisfy), so that the theorems can be stated
   compactly; a concrete small domain (finite sets of naturals) showing that the laws are
   satisfiable; and the counter-model for operations that keep the `reduced' flag although they can
   create new comparabilities (topological_closure_assign, fold_space_dimensions). *)
From Coq Require Import List Bool Arith Lia.
Require Import PPLV.Powerset.PS.
Import ListNotations.

Record dom := mk_dom {
  dD : Type; dP : Type;
  dden : dD -> dP -> Prop;
  dent : dD -> dD -> bool;          (* definitely_entails *)
  dbot : dD -> bool;                (* is_bottom *)
  dtop : dD -> bool;                (* is_top *)
  dub : dD -> dD -> dD;             (* upper_bound_assign *)
  dmeet : dD -> dD -> dD;           (* meet_assign *)
  dube : dD -> dD -> option dD;     (* upper_bound_assign_if_exact *)
  dsc : dD -> dD -> bool            (* strictly_contains *)
}.

Record laws (d : dom) : Prop := mk_laws {
  l_ent : forall a b, dent d a b = true -> forall p, dden d a p -> dden d b p;
  l_bot : forall a, dbot d a = true -> forall p, ~ dden d a p;
  l_top : forall a, dtop d a = true -> forall p, dden d a p;
  l_ub : forall a b p, dden d a p \/ dden d b p -> dden d (dub d a b) p;
  l_meet : forall a b p, dden d (dmeet d a b) p <-> dden d a p /\ dden d b p;
  l_ube : forall a b u, dube d a b = Some u -> forall p, dden d u p <-> dden d a p \/ dden d b p;
  l_sc : forall a b, dsc d a b = true -> forall p, dden d b p -> dden d a p
}.
Definition bot_complete (d : dom) : Prop := forall a, (forall p, ~ dden d a p) -> dbot d a = true.

Definition Ps (d : dom) := ps (dD d).
Definition Den (d : dom) : Ps d -> dP d -> Prop := den_ps (dD d) (dP d) (dden d).
Definition Wf (d : dom) : Ps d -> Prop := wf (dD d) (dent d) (dbot d).
Definition Really_reduced (d : dom) (s : Ps d) : Prop := omega_reduced_l (dD d) (dent d) (dbot d) (seq _ s).
Definition Flag (d : dom) (s : Ps d) : bool := reduced _ s.
Definition Size (d : dom) (s : Ps d) : nat := length (seq _ s).
Definition Omega (d : dom) h : Ps d -> Ps d := omega_reduce (dD d) (dent d) (dbot d) (dub d) h.
Definition Collapse (d : dom) : Ps d -> Ps d := collapse_all (dD d) (dent d) (dub d).
Definition CollapseN (d : dom) h n : Ps d -> Ps d := collapse_n (dD d) (dent d) (dbot d) (dub d) h n.
Definition AddDisjunct (d : dom) x : Ps d -> Ps d := add_disjunct (dD d) x.
Definition Lub (d : dom) h (y s : Ps d) : Ps d := lub (dD d) (dent d) (dbot d) (dub d) h y s.
Definition Meet (d : dom) h (y s : Ps d) : Ps d := meet_assign (dD d) (dent d) (dbot d) (dub d) (dmeet d) h y s.
Definition PairwiseApply (d : dom) h op (y s : Ps d) : Ps d := pairwise_apply (dD d) (dent d) (dbot d) (dub d) h op y s.
Definition Entails (d : dom) (x y : Ps d) : bool := definitely_entails (dD d) (dent d) x y.
Definition IsBottom (d : dom) h (s : Ps d) := is_bottom_ps (dD d) (dent d) (dbot d) (dub d) h s.
Definition IsTop (d : dom) h (s : Ps d) := is_top_ps (dD d) (dent d) (dbot d) (dub d) (dtop d) h s.
Definition MapAssign (d : dom) f keep : Ps d -> Ps d := map_assign (dD d) f keep.
Definition PairwiseReduce (d : dom) h : Ps d -> Ps d := pairwise_reduce (dD d) (dent d) (dbot d) (dub d) (dube d) h.
Definition StrictlyContains (d : dom) h (x y : Ps d) := strictly_contains_ps (dD d) (dent d) (dbot d) (dub d) (dsc d) h x y.
(* topological_closure_assign / fold_space_dimensions as they are since /repo fd3faff, e7857d0: the
   base-level operation mapped over the disjuncts, `reduced' cleared *)
Definition ClosureAssign (d : dom) (closure : dD d -> dD d) : Ps d -> Ps d := MapAssign d closure false.
Definition FoldAssign (d : dom) (fold : dD d -> dD d) : Ps d -> Ps d := MapAssign d fold false.
Definition Concatenate (d : dom) h conc ubx uby (y s : Ps d) : Ps d :=
  concatenate_ps (dD d) (dent d) (dbot d) (dub d) conc ubx uby h y s.
(* the abandon flag found raised at every poll (the harness raises it for the duration of a call) *)
Definition always : nat -> bool := fun _ => true.
Definition CheckReduced (d : dom) (s : Ps d) : bool := check_omega_reduced (dD d) (dent d) (dbot d) s.

Section Thms.
Variable d : dom.
Hypothesis L : laws d.

Theorem T_omega_reduce_union s p : Den d (Omega d never s) p <-> Den d s p.
Proof. apply omega_reduce_union; apply L. Qed.
Theorem T_omega_reduce_superset h s p : Den d s p -> Den d (Omega d h s) p.
Proof. apply omega_reduce_superset; apply L. Qed.
Theorem T_omega_reduce_reduced s : Wf d s -> Flag d (Omega d never s) = true /\ Really_reduced d (Omega d never s).
Proof. apply (omega_reduce_reduced _ _ (dden d)); apply L. Qed.
Theorem T_omega_reduce_no_new s x : In x (seq _ (Omega d never s)) -> In x (seq _ s).
Proof. apply (omega_reduce_sub _ _ (dden d)); apply L. Qed.
Theorem T_check_reduced s : CheckReduced d s = true <-> Really_reduced d s.
Proof. apply check_omega_reduced_ok. Qed.
Theorem T_collapse_spec s :
  (forall p, Den d s p -> Den d (Collapse d s) p) /\
  (seq _ s <> [] -> exists x r, seq _ s = x :: r /\ seq _ (Collapse d s) = [fold_left (dub d) r x]) /\
  (Size d (Collapse d s) <= 1)%nat.
Proof. apply collapse_spec; apply L. Qed.
Theorem T_collapse_n_spec h m s : (0 < m)%nat ->
  (forall p, Den d s p -> Den d (CollapseN d h m s) p) /\ (Size d (CollapseN d h m s) <= m)%nat.
Proof. intros H. destruct (collapse_n_spec _ _ (dden d) (dent d) (dbot d) (dub d) (l_ent d L) (l_bot d L) (l_ub d L) h m s H) as [A [_ B]]. now split. Qed.
Theorem T_add_disjunct_union x s p : Den d (AddDisjunct d x s) p <-> Den d s p \/ dden d x p.
Proof. apply add_disjunct_union. Qed.
Theorem T_ub_union y s p : Den d (Lub d never y s) p <-> Den d s p \/ Den d y p.
Proof. apply ub_union; apply L. Qed.
Theorem T_ub_flag y s : Wf d s -> Wf d y -> Flag d (Lub d never y s) = true /\ Really_reduced d (Lub d never y s).
Proof. apply (ub_wf _ _ (dden d)); apply L. Qed.
Theorem T_meet_union y s p : Den d (Meet d never y s) p <-> Den d s p /\ Den d y p.
Proof. apply meet_union; apply L. Qed.
Theorem T_pairwise_apply_union op (Rel : dP d -> dP d -> dP d -> Prop) y s :
  (forall a b q, dden d (op a b) q <-> exists p1 p2, dden d a p1 /\ dden d b p2 /\ Rel p1 p2 q) ->
  forall q, Den d (PairwiseApply d never op y s) q <-> exists p1 p2, Den d s p1 /\ Den d y p2 /\ Rel p1 p2 q.
Proof. apply pairwise_apply_union; apply L. Qed.
Theorem T_entails_geometric x y : Entails d x y = true -> forall p, Den d x p -> Den d y p.
Proof. apply entails_geometric; apply L. Qed.
Theorem T_is_bottom_exact s : bot_complete d -> Wf d s -> (snd (IsBottom d never s) = true <-> forall p, ~ Den d s p).
Proof. intros B. apply is_bottom_ps_exact; try apply L. exact B. Qed.
Theorem T_is_top_sound h s : snd (IsTop d h s) = true -> forall p, Den d (fst (IsTop d h s)) p.
Proof. apply is_top_ps_sound; apply L. Qed.
Theorem T_map_union f (Rel : dP d -> dP d -> Prop) k s :
  (forall a q, dden d (f a) q <-> exists p, dden d a p /\ Rel p q) ->
  forall q, Den d (MapAssign d f k s) q <-> exists p, Den d s p /\ Rel p q.
Proof. apply map_union. Qed.
Theorem T_map_keep_flag f s :
  (forall a b, dent d (f a) (f b) = dent d a b) -> (forall a, dbot d (f a) = dbot d a) -> Wf d s -> Wf d (MapAssign d f true s).
Proof. apply map_keep_wf. Qed.
Theorem T_pairwise_reduce_union s p : Den d (PairwiseReduce d never s) p <-> Den d s p.
Proof. apply pairwise_reduce_union; apply L. Qed.

Theorem T_strictly_contains_sound x y : snd (StrictlyContains d never x y) = true -> forall p, Den d y p -> Den d x p.
Proof. apply strictly_contains_sound; apply L. Qed.
Theorem T_strictly_contains_states x y p :
  (Den d (fst (fst (StrictlyContains d never x y))) p <-> Den d x p) /\
  (Den d (snd (fst (StrictlyContains d never x y))) p <-> Den d y p).
Proof. apply strictly_contains_states; apply L. Qed.
Theorem T_strictly_contains_reduces_both x y : Wf d x -> Wf d y ->
  Really_reduced d (fst (fst (StrictlyContains d never x y))) /\ Really_reduced d (snd (fst (StrictlyContains d never x y))).
Proof.
  intros Wx Wy. unfold StrictlyContains, strictly_contains_ps. cbn [fst snd].
  split; [apply (T_omega_reduce_reduced x Wx)|apply (T_omega_reduce_reduced y Wy)].
Qed.
(* closure and fold (as fixed): the flag tells the truth afterwards, and they act on the union disjunct-wise *)
Theorem T_closure_fold_flag_truth cl s : Wf d (ClosureAssign d cl s) /\ Wf d (FoldAssign d cl s).
Proof. split; apply map_reset_wf. Qed.

(* concatenate_assign: under ANY schedule of the abandon flag (hurry-up branch: one product of the joins of the remaining
   disjuncts) no point of the concatenation is lost; without abandonment the result is exact and the flag stays set *)
Theorem T_concatenate_never_loses conc ubx uby (Rel : dP d -> dP d -> dP d -> Prop) h y s q :
  (forall a b p1 p2 q, dden d a p1 -> dden d b p2 -> Rel p1 p2 q -> dden d (conc a b) q) ->
  (forall a b p, dden d a p \/ dden d b p -> dden d (ubx a b) p) ->
  (forall a b p, dden d a p \/ dden d b p -> dden d (uby a b) p) ->
  (exists p1 p2, Den d s p1 /\ Den d y p2 /\ Rel p1 p2 q) -> Den d (Concatenate d h conc ubx uby y s) q.
Proof. intros A B C. apply concatenate_never_loses; try apply L; assumption. Qed.
Theorem T_concatenate_exact conc ubx uby (Rel : dP d -> dP d -> dP d -> Prop) y s q :
  (forall a b p1 p2 q, dden d a p1 -> dden d b p2 -> Rel p1 p2 q -> dden d (conc a b) q) ->
  (forall a b q, dden d (conc a b) q -> exists p1 p2, dden d a p1 /\ dden d b p2 /\ Rel p1 p2 q) ->
  (forall a b p, dden d a p \/ dden d b p -> dden d (ubx a b) p) ->
  (forall a b p, dden d a p \/ dden d b p -> dden d (uby a b) p) ->
  (Den d (Concatenate d never conc ubx uby y s) q <-> exists p1 p2, Den d s p1 /\ Den d y p2 /\ Rel p1 p2 q) /\
  Flag d (Concatenate d never conc ubx uby y s) = true.
Proof.
  intros A B C E. split; [apply (concatenate_exact _ _ (dden d)); try apply L; assumption|apply concatenate_flag].
Qed.

(* flag truth: every modelled operation returns a state whose flag, when set, tells the truth *)
Theorem T_flag_truth :
  (forall s, Wf d s -> Wf d (Omega d never s)) /\
  (forall x s, Wf d (AddDisjunct d x s)) /\
  (forall y s, Wf d s -> Wf d y -> Wf d (Lub d never y s)) /\
  (forall h op y s, Wf d (PairwiseApply d h op y s)) /\
  (forall f s, Wf d (MapAssign d f false s)).
Proof.
  split; [intros s W; apply (omega_reduce_wf _ _ (dden d)); try apply L; exact W|].
  split; [intros; apply add_disjunct_wf|].
  split; [intros y s W1 W2 _; now apply T_ub_flag|].
  split; [intros; apply pairwise_apply_wf|intros; apply map_reset_wf].
Qed.
End Thms.

(* Full statements of which only a part is proved (kept as propositions, not claimed):
   - reducedness of omega_reduce for an ARBITRARY hurry-up oracle (the collapse in the middle of the
     loop): would need transitivity of entailment and `a entails ub a b' as additional laws;
   - truth of the flag pairwise_reduce leaves set, and sufficiency of the fuel of its do-while loop. *)
Definition omega_reduce_reduced_full : Prop :=
  forall d, laws d -> forall hurry s, Wf d s -> Flag d (Omega d hurry s) = true /\ Really_reduced d (Omega d hurry s).
Definition pairwise_reduce_flag_truth_full : Prop :=
  forall d, laws d -> bot_complete d -> forall s, Wf d s -> Wf d (PairwiseReduce d never s).

(* ------------------------------------------------------------------------------------------ *)
(* a concrete domain: finite sets of naturals (points are naturals) *)
Definition fs_mem (x : nat) (a : list nat) : bool := existsb (Nat.eqb x) a.
Definition fs_dom : dom := {|
  dD := list nat; dP := nat;
  dden := fun a p => In p a;
  dent := fun a b => forallb (fun x => fs_mem x b) a;
  dbot := fun a => match a with [] => true | _ => false end;
  dtop := fun _ => false;
  dub := fun a b => a ++ b;
  dmeet := fun a b => filter (fun x => fs_mem x b) a;
  dube := fun a b => Some (a ++ b);
  dsc := fun a b => forallb (fun x => fs_mem x a) b && negb (forallb (fun x => fs_mem x b) a)
|}.

Lemma fs_mem_ok x a : fs_mem x a = true <-> In x a.
Proof.
  unfold fs_mem. rewrite existsb_exists. split.
  - intros [y [Hy E]]. apply Nat.eqb_eq in E. now subst.
  - intros H. exists x. split; [exact H|apply Nat.eqb_refl].
Qed.

Example fs_laws : laws fs_dom.
Proof.
  split; cbn.
  - intros a b H p Hp. rewrite forallb_forall in H. apply fs_mem_ok. now apply H.
  - intros [|x a]; [intros _ p []|discriminate].
  - discriminate.
  - intros a b p H. apply in_or_app. exact H.
  - intros a b p. rewrite filter_In, fs_mem_ok. tauto.
  - intros a b u [= <-] p. rewrite in_app_iff. tauto.
  - intros a b H p Hp. apply andb_true_iff in H. destruct H as [H _]. rewrite forallb_forall in H. apply fs_mem_ok. now apply H.
Qed.

Example fs_bot_complete : bot_complete fs_dom.
Proof. intros [|x a] H; [reflexivity|]. exfalso. apply (H x). now left. Qed.

(* the hypotheses of the theorems with hypotheses are satisfiable, on a non-trivial sequence *)
Definition fs_example : Ps fs_dom := mk_ps _ [[1;2]; []; [2]; [3;4]; [2;1]; [5]] false.
Example fs_example_run :
  seq _ (Omega fs_dom never fs_example) = [[1;2]; [3;4]; [5]] /\
  seq _ (CollapseN fs_dom never 2 fs_example) = [[1;2]; [3;4;5]] /\
  Wf fs_dom fs_example /\
  Entails fs_dom (mk_ps _ [[2]; [4]] false) fs_example = true /\
  seq _ (Meet fs_dom never (mk_ps _ [[1;3]; [5;6]] false) fs_example) = [[1]; [3]; [5]] /\
  seq _ (Lub fs_dom never (mk_ps _ [[1]; [1;2;7]] false) fs_example) = [[3;4]; [5]; [1;2;7]] /\
  seq _ (PairwiseReduce fs_dom never (mk_ps _ [[1]; [2]; [3]] false)) = [[1;2;3]].
Proof.
  split; [vm_compute; reflexivity|]. split; [vm_compute; reflexivity|]. split; [intros H; discriminate|].
  split; [vm_compute; reflexivity|]. split; [vm_compute; reflexivity|]. split; vm_compute; reflexivity.
Qed.

(* the hypotheses of the concatenation theorems are satisfiable: "concatenation" of naturals p1.p2 := 10*p1 + p2 *)
Definition fs_conc (a b : list nat) : list nat := flat_map (fun x => map (fun y => 10 * x + y) b) a.
Example fs_concatenate_hypotheses :
  (forall a b p1 p2 q, dden fs_dom a p1 -> dden fs_dom b p2 -> q = 10 * p1 + p2 -> dden fs_dom (fs_conc a b) q) /\
  (forall a b q, dden fs_dom (fs_conc a b) q -> exists p1 p2, dden fs_dom a p1 /\ dden fs_dom b p2 /\ q = 10 * p1 + p2) /\
  seq _ (Concatenate fs_dom never fs_conc (dub fs_dom) (dub fs_dom) (mk_ps _ [[1]; [2]; [3]] true) (mk_ps _ [[4]; [5]; [6]] true))
    = [[41]; [42]; [43]; [51]; [52]; [53]; [61]; [62]; [63]] /\
  seq _ (Concatenate fs_dom always fs_conc (dub fs_dom) (dub fs_dom) (mk_ps _ [[1]; [2]; [3]] true) (mk_ps _ [[4]; [5]; [6]] true))
    = [[41]; [42]; [43]; [51; 52; 53; 61; 62; 63]].
Proof.
  split; [|split; [|split; vm_compute; reflexivity]]; cbn.
  - intros a b p1 p2 q Ha Hb ->. unfold fs_conc. apply in_flat_map. exists p1. split; [exact Ha|]. now apply (in_map (fun y => 10 * p1 + y)).
  - intros a b q H. unfold fs_conc in H. apply in_flat_map in H. destruct H as [x [Hx H]]. apply in_map_iff in H.
    destruct H as [y0 [<- Hy]]. exists x, y0. auto.
Qed.

(* ------------------------------------------------------------------------------------------ *)
(* Why the reset in ClosureAssign / FoldAssign is necessary: an operation that maps every disjunct
   through an extensive, monotone, idempotent function (like topological closure) but leaves the
   `reduced' flag untouched can make the flag lie.  This was the behaviour of
   Pointset_Powerset::topological_closure_assign and fold_space_dimensions before /repo fd3faff and
   e7857d0; the check reports a tree that reverts them (corpus/C09/mut-7.diff). *)
Definition fs_close (a : list nat) : list nat := if fs_mem 1 a || fs_mem 2 a then a ++ [1; 2] else a.

Theorem keeping_flag_for_closure_is_wrong :
  exists (s : Ps fs_dom),
    (forall a p, dden fs_dom a p -> dden fs_dom (fs_close a) p) /\        (* extensive *)
    Wf fs_dom s /\ Flag fs_dom s = true /\
    Flag fs_dom (MapAssign fs_dom fs_close true s) = true /\
    CheckReduced fs_dom (MapAssign fs_dom fs_close true s) = false /\
    ~ Wf fs_dom (MapAssign fs_dom fs_close true s).
Proof.
  exists (mk_ps _ [[1]; [2]] true). split; [|split; [|split; [|split; [|split]]]].
  - intros a p H. unfold fs_close. destruct (fs_mem 1 a || fs_mem 2 a); [apply in_or_app; now left|exact H].
  - intros _. apply (T_check_reduced fs_dom). vm_compute. reflexivity.
  - reflexivity.
  - reflexivity.
  - vm_compute. reflexivity.
  - intros W. specialize (W eq_refl). apply (T_check_reduced fs_dom) in W. vm_compute in W. discriminate.
Qed.
