(* Generic model of Powerset<D> (src/Powerset_templates.hh, Powerset_inlines.hh): a sequence of
   disjuncts plus the `reduced' flag, over an abstract base domain D given by its denotation and
   the operations the powerset code calls (definitely_entails, is_bottom, upper_bound_assign,
   meet_assign), constrained only by soundness laws.  Each function follows the C++ loop for loop;
   std::list iterators are rendered as a split of the list (elements before / from the iterator).

   The global `abandon_expensive_computations' pointer, which omega_reduce() polls once per outer
   iteration, is an arbitrary oracle [hurry : nat -> bool]. *)
From Coq Require Import List Bool Arith Lia.
Import ListNotations.

Section PS.
Variables (D P : Type).
Variable den : D -> P -> Prop.
Variable entails : D -> D -> bool.      (* x.definitely_entails(y) *)
Variable is_bottom : D -> bool.
Variable ub : D -> D -> D.              (* x.upper_bound_assign(y) *)
Variable meet : D -> D -> D.            (* x.meet_assign(y) *)

Hypothesis entails_sound : forall a b, entails a b = true -> forall p, den a p -> den b p.
Hypothesis bottom_sound : forall a, is_bottom a = true -> forall p, ~ den a p.
Hypothesis ub_upper : forall a b p, den a p \/ den b p -> den (ub a b) p.
Hypothesis meet_exact : forall a b p, den (meet a b) p <-> den a p /\ den b p.

Record ps := mk_ps { seq : list D; reduced : bool }.

Definition den_l (l : list D) (p : P) : Prop := exists d, In d l /\ den d p.
Definition den_ps (s : ps) : P -> Prop := den_l (seq s).

Lemma den_l_nil p : den_l [] p <-> False.
Proof. split; [intros [d [[] _]]|tauto]. Qed.
Lemma den_l_cons x l p : den_l (x :: l) p <-> den x p \/ den_l l p.
Proof.
  unfold den_l. split.
  - intros [d [[<-|H] Hd]]; [now left|right; eauto].
  - intros [H|[d [H Hd]]]; [exists x; split; [now left|exact H]|exists d; split; [now right|exact Hd]].
Qed.
Lemma den_l_app a b p : den_l (a ++ b) p <-> den_l a p \/ den_l b p.
Proof.
  unfold den_l. split.
  - intros [d [H Hd]]. apply in_app_or in H. destruct H; [left|right]; eauto.
  - intros [[d [H Hd]]|[d [H Hd]]]; exists d; split; auto; apply in_or_app; auto.
Qed.
Lemma den_l_incl a b p : (forall x, In x a -> In x b) -> den_l a p -> den_l b p.
Proof. intros H [d [Hi Hd]]. exists d. auto. Qed.

(* ------------------------------------------------------------------------------------------ *)
(* "really omega-reduced": no disjunct is bottom, no disjunct entails one at another position
   (this is Powerset::check_omega_reduced) *)
Definition incomparable (x y : D) : Prop := entails x y = false /\ entails y x = false.
Fixpoint red (l : list D) : Prop :=
  match l with [] => True | x :: r => (forall y, In y r -> incomparable x y) /\ red r end.
Definition nobot (l : list D) : Prop := forall x, In x l -> is_bottom x = false.
Definition omega_reduced_l (l : list D) : Prop := red l /\ nobot l.
(* the flag tells the truth *)
Definition wf (s : ps) : Prop := reduced s = true -> omega_reduced_l (seq s).

Lemma incomparable_sym x y : incomparable x y -> incomparable y x.
Proof. intros [A B]; split; assumption. Qed.

Lemma red_app a b : red (a ++ b) <-> red a /\ red b /\ (forall x y, In x a -> In y b -> incomparable x y).
Proof.
  induction a as [|x a IH]; cbn [app red].
  - split; [intros H; split; [exact I|split; [exact H|intros ? ? []]]|tauto].
  - rewrite IH. split.
    + intros [H1 [H2 [H3 H4]]]. split; [split; [|exact H2]|split; [exact H3|]].
      * intros y Hy. apply H1. apply in_or_app. now left.
      * intros u v [<-|Hu] Hv; [apply H1; apply in_or_app; now right|now apply H4].
    + intros [[H1 H2] [H3 H4]]. split; [|split; [exact H2|split; [exact H3|]]].
      * intros y Hy. apply in_app_or in Hy. destruct Hy as [Hy|Hy]; [now apply H1|apply H4; [now left|exact Hy]].
      * intros u v Hu Hv. apply H4; [now right|exact Hv].
Qed.

Lemma red_sub x l : red (x :: l) -> red l.
Proof. now intros [_ H]. Qed.

(* check_omega_reduced, as in the code: two nested loops over positions *)
Fixpoint check_red_from (pre l : list D) : bool :=
  match l with
  | [] => true
  | x :: r =>
      negb (is_bottom x)
      && forallb (fun y => negb (entails x y || entails y x)) (pre ++ r)
      && check_red_from (pre ++ [x]) r
  end.
Definition check_omega_reduced (s : ps) : bool := check_red_from [] (seq s).

(* ------------------------------------------------------------------------------------------ *)
(* collapse(sink): [pre] are the disjuncts before the iterator, [sink] the one it points to,
   [post] those after *)
Fixpoint drop_entailing (d : D) (l : list D) : list D :=
  match l with
  | [] => []
  | x :: r => if entails x d then drop_entailing d r else x :: drop_entailing d r
  end.

Definition collapse_at (pre : list D) (sink : D) (post : list D) : list D :=
  let d := fold_left ub post sink in
  drop_entailing d pre ++ [d].

Lemma fold_ub_upper post : forall sink p, den_l (sink :: post) p -> den (fold_left ub post sink) p.
Proof.
  induction post as [|y post IH]; intros sink p H; cbn [fold_left].
  - apply den_l_cons in H. destruct H as [H|H]; [exact H|now apply den_l_nil in H].
  - apply IH. apply den_l_cons. apply den_l_cons in H. destruct H as [H|H].
    + left. apply ub_upper. now left.
    + apply den_l_cons in H. destruct H as [H|H]; [left; apply ub_upper; now right|now right].
Qed.

Lemma drop_entailing_in d l x : In x (drop_entailing d l) -> In x l /\ entails x d = false.
Proof.
  induction l as [|y l IH]; cbn [drop_entailing]; [intros []|].
  destruct (entails y d) eqn:E.
  - intros H. destruct (IH H). split; [now right|assumption].
  - intros [<-|H]; [split; [now left|exact E]|]. destruct (IH H). split; [now right|assumption].
Qed.

Lemma drop_entailing_den d l p : den_l l p -> den_l (drop_entailing d l) p \/ den d p.
Proof.
  induction l as [|y l IH]; cbn [drop_entailing]; intros H; [now apply den_l_nil in H|].
  apply den_l_cons in H. destruct (entails y d) eqn:E.
  - destruct H as [H|H]; [right; eapply entails_sound; eauto|auto].
  - destruct H as [H|H]; [left; apply den_l_cons; now left|].
    destruct (IH H) as [H'|H']; [left; apply den_l_cons; now right|now right].
Qed.

Theorem collapse_at_superset pre sink post p :
  den_l (pre ++ sink :: post) p -> den_l (collapse_at pre sink post) p.
Proof.
  unfold collapse_at. intros H. apply den_l_app in H. apply den_l_app. destruct H as [H|H].
  - destruct (drop_entailing_den (fold_left ub post sink) pre p H) as [H'|H']; [now left|].
    right. apply den_l_cons. now left.
  - right. apply den_l_cons. left. now apply fold_ub_upper.
Qed.

(* nothing but the hull and old disjuncts of the prefix *)
Theorem collapse_at_shape pre sink post :
  exists keep, collapse_at pre sink post = keep ++ [fold_left ub post sink] /\
               (forall x, In x keep -> In x pre) /\ (length keep <= length pre)%nat.
Proof.
  unfold collapse_at. exists (drop_entailing (fold_left ub post sink) pre). split; [reflexivity|]. split.
  - intros x H. now apply drop_entailing_in in H.
  - generalize (fold_left ub post sink). intros d. induction pre as [|y l IH]; cbn [drop_entailing length]; [lia|].
    destruct (entails y d); cbn [length]; lia.
Qed.

(* ------------------------------------------------------------------------------------------ *)
(* omega_reduce *)
Fixpoint drop_bottoms (l : list D) : list D :=
  match l with
  | [] => []
  | x :: r => if is_bottom x then drop_bottoms r else x :: drop_bottoms r
  end.

(* inner loop for a fixed xi, over the disjuncts [ys] (xi itself is skipped by the caller):
   returns the surviving ys and the `dropping_xi' flag; on `break' the rest is left untouched *)
Fixpoint inner (xv : D) (ys : list D) : list D * bool :=
  match ys with
  | [] => ([], false)
  | y :: r =>
      if entails y xv then inner xv r
      else if entails xv y then (y :: r, true)
      else let (r', b) := inner xv r in (y :: r', b)
  end.

(* outer loop: [pre] = disjuncts before xi, [post] = xi and those after; the fuel is the number of
   outer iterations still allowed ([length post] suffices, [outer_fuel_enough]) *)
Fixpoint outer (hurry : nat -> bool) (fuel : nat) (pre post : list D) : list D :=
  match fuel, post with
  | S f, xv :: rest =>
      let (pre', b1) := inner xv pre in
      let (rest', dropping_xi) := if b1 then (rest, true) else inner xv rest in
      let pre'' := if dropping_xi then pre' else pre' ++ [xv] in
      match rest' with
      | z :: rest'' => if hurry f then collapse_at pre'' z rest'' else outer hurry f pre'' rest'
      | [] => pre''
      end
  | _, _ => pre ++ post
  end.

Definition omega_reduce (hurry : nat -> bool) (s : ps) : ps :=
  if reduced s then s
  else let l := drop_bottoms (seq s) in mk_ps (outer hurry (length l) [] l) true.

Definition never : nat -> bool := fun _ => false.

Lemma drop_bottoms_den l p : den_l (drop_bottoms l) p <-> den_l l p.
Proof.
  induction l as [|x l IH]; cbn [drop_bottoms]; [tauto|].
  destruct (is_bottom x) eqn:B; rewrite ?den_l_cons, IH; [|tauto].
  split; [tauto|]. intros [H|H]; [exfalso; eapply bottom_sound; eauto|exact H].
Qed.
Lemma drop_bottoms_nobot l : nobot (drop_bottoms l).
Proof.
  induction l as [|x l IH]; cbn [drop_bottoms]; [intros y []|].
  destruct (is_bottom x) eqn:B; [exact IH|]. intros y [<-|H]; [exact B|now apply IH].
Qed.
Lemma drop_bottoms_in l x : In x (drop_bottoms l) -> In x l.
Proof.
  induction l as [|y l IH]; cbn [drop_bottoms]; [tauto|]. destruct (is_bottom y); cbn [In]; intuition.
Qed.

Ltac inner_cases xv y l E1 E2 r b :=
  cbn [inner]; destruct (entails y xv) eqn:E1;
  [|destruct (entails xv y) eqn:E2; [|destruct (inner xv l) as [r b]]]; cbn [fst snd] in *.

Lemma inner_in xv ys : forall z, In z (fst (inner xv ys)) -> In z ys.
Proof.
  induction ys as [|y l IH]; [cbn; tauto|]. intros z. inner_cases xv y l E1 E2 r b.
  - intros H. right. now apply IH.
  - tauto.
  - intros [<-|H]; [now left|right; now apply IH].
Qed.

Lemma inner_len xv ys : (length (fst (inner xv ys)) <= length ys)%nat.
Proof.
  induction ys as [|y l IH]; [cbn; lia|]. inner_cases xv y l E1 E2 r b; cbn [length] in *; lia.
Qed.

Lemma inner_den xv ys p : den xv p \/ den_l ys p <-> den xv p \/ den_l (fst (inner xv ys)) p.
Proof.
  induction ys as [|y l IH]; [cbn; tauto|]. inner_cases xv y l E1 E2 r b.
  - rewrite <- IH, den_l_cons. split; [|tauto]. intros [H|[H|H]]; auto. left. eapply entails_sound; eauto.
  - tauto.
  - rewrite !den_l_cons. tauto.
Qed.

Lemma inner_hit xv ys : snd (inner xv ys) = true -> exists y, In y (fst (inner xv ys)) /\ entails xv y = true.
Proof.
  induction ys as [|y l IH]; [cbn; discriminate|]. inner_cases xv y l E1 E2 r b.
  - exact IH.
  - intros _. exists y. split; [now left|exact E2].
  - intros H. destruct (IH H) as [z [Hz Ez]]. exists z. split; [now right|exact Ez].
Qed.

Lemma inner_miss xv ys : snd (inner xv ys) = false -> forall y, In y (fst (inner xv ys)) -> incomparable xv y.
Proof.
  induction ys as [|y l IH]; [cbn; tauto|]. inner_cases xv y l E1 E2 r b.
  - exact IH.
  - discriminate.
  - intros H z [<-|Hz]; [split; assumption|now apply IH].
Qed.

Lemma inner_spec xv ys :
  let r := inner xv ys in
  (forall y, In y (fst r) -> In y ys) /\
  (length (fst r) <= length ys)%nat /\
  (forall p, den xv p \/ den_l ys p <-> den xv p \/ den_l (fst r) p) /\
  (snd r = true -> exists y, In y (fst r) /\ entails xv y = true) /\
  (snd r = false -> forall y, In y (fst r) -> incomparable xv y).
Proof.
  cbn zeta. split; [apply inner_in|]. split; [apply inner_len|]. split; [intros p; apply inner_den|].
  split; [apply inner_hit|apply inner_miss].
Qed.

Lemma inner_nohit xv ys : (forall y, In y ys -> incomparable xv y) -> inner xv ys = (ys, false).
Proof.
  induction ys as [|y l IH]; intros H; cbn [inner]; [reflexivity|].
  destruct (H y (or_introl eq_refl)) as [A B]. rewrite B, A, IH; [reflexivity|].
  intros z Hz. apply H. now right.
Qed.

(* every step of the outer loop keeps all points; with the collapse of the hurry-up path the
   union can only grow *)
Theorem outer_superset hurry fuel : forall pre post p,
  den_l (pre ++ post) p -> den_l (outer hurry fuel pre post) p.
Proof.
  induction fuel as [|f IH]; intros pre post p H; [destruct post; exact H|].
  destruct post as [|xv rest]; [exact H|]. cbn [outer].
  pose proof (inner_spec xv pre) as S1. destruct (inner xv pre) as [pre' b1]. cbn [fst snd] in S1.
  destruct S1 as [_ [_ [D1 [T1 _]]]].
  assert (H1 : den_l (pre' ++ (if b1 then rest else xv :: rest)) p).
  { apply den_l_app in H. rewrite den_l_cons in H. apply den_l_app.
    assert (X : den xv p \/ den_l pre' p \/ den_l rest p) by (destruct (D1 p) as [A _]; tauto).
    destruct b1.
    - destruct X as [X|X]; [|tauto]. left. destruct (T1 eq_refl) as [y [Hy Ey]]. exists y. split; [exact Hy|].
      eapply entails_sound; eauto.
    - rewrite den_l_cons. tauto. }
  clear H D1 T1.
  assert (H2 : forall rest' dropping_xi, (rest', dropping_xi) = (if b1 then (rest, true) else inner xv rest) ->
               den_l ((if dropping_xi then pre' else pre' ++ [xv]) ++ rest') p).
  { intros rest' dr E. destruct b1.
    - injection E as -> ->. exact H1.
    - pose proof (inner_spec xv rest) as S2. rewrite <- E in S2. cbn [fst snd] in S2.
      destruct S2 as [_ [_ [D2 [T2 _]]]].
      apply den_l_app in H1. rewrite den_l_cons in H1.
      assert (X : den_l pre' p \/ den xv p \/ den_l rest' p) by (destruct (D2 p) as [A _]; tauto).
      destruct dr.
      + apply den_l_app. destruct X as [X|[X|X]]; auto. right.
        destruct (T2 eq_refl) as [y [Hy Ey]]. exists y. split; [exact Hy|]. eapply entails_sound; eauto.
      + rewrite <- app_assoc. apply den_l_app. cbn [app]. rewrite den_l_cons. tauto. }
  destruct (if b1 then (rest, true) else inner xv rest) as [rest' dr].
  specialize (H2 rest' dr eq_refl).
  destruct rest' as [|z rest''].
  - now rewrite app_nil_r in H2.
  - destruct (hurry f); [now apply collapse_at_superset|now apply IH].
Qed.

(* without the hurry-up path nothing is added either *)
Theorem outer_subset fuel : forall pre post p,
  den_l (outer never fuel pre post) p -> den_l (pre ++ post) p.
Proof.
  induction fuel as [|f IH]; intros pre post p H; [destruct post; exact H|].
  destruct post as [|xv rest]; [exact H|]. cbn [outer] in H.
  pose proof (inner_spec xv pre) as S1. destruct (inner xv pre) as [pre' b1]. cbn [fst snd] in S1.
  destruct S1 as [_ [_ [D1 _]]].
  assert (K : forall rest' (dr : bool), (rest', dr) = (if b1 then (rest, true) else inner xv rest) ->
              den_l ((if dr then pre' else pre' ++ [xv]) ++ rest') p -> den_l (pre ++ xv :: rest) p).
  { intros rest' dr E X. rewrite den_l_app, den_l_cons.
    assert (Y : den xv p \/ den_l pre' p \/ den_l rest' p).
    { destruct dr; [apply den_l_app in X; tauto|]. rewrite <- app_assoc in X. apply den_l_app in X. cbn [app] in X.
      rewrite den_l_cons in X. tauto. }
    destruct b1.
    - injection E as -> ->. destruct (D1 p) as [_ A]. tauto.
    - pose proof (inner_spec xv rest) as S2. rewrite <- E in S2. cbn [fst snd] in S2.
      destruct S2 as [_ [_ [D2 _]]]. destruct (D1 p) as [_ A]. destruct (D2 p) as [_ B]. tauto. }
  destruct (if b1 then (rest, true) else inner xv rest) as [rest' dr].
  specialize (K rest' dr eq_refl). apply K.
  destruct rest' as [|z rest'']; [now rewrite app_nil_r|].
  unfold never in H at 1. now apply IH.
Qed.

(* with enough fuel, and no hurry-up, the result is really omega-reduced *)
Definition cross (a b : list D) : Prop := forall x y, In x a -> In y b -> incomparable x y.

Theorem outer_reduced fuel : forall pre post,
  (length post <= fuel)%nat -> red pre -> cross pre post -> red (outer never fuel pre post).
Proof.
  induction fuel as [|f IH]; intros pre post L R C.
  - destruct post; [|cbn in L; lia]. cbn. now rewrite app_nil_r.
  - destruct post as [|xv rest]; [cbn; now rewrite app_nil_r|]. cbn [outer].
    assert (Cx : forall y, In y pre -> incomparable xv y).
    { intros y Hy. apply incomparable_sym. apply C; [exact Hy|now left]. }
    rewrite (inner_nohit xv pre Cx).
    pose proof (inner_spec xv rest) as S2. destruct (inner xv rest) as [rest' dr]. cbn [fst snd] in S2.
    destruct S2 as [I1 [I2 [_ [_ I5]]]].
    assert (Cr : cross pre rest') by (intros x y Hx Hy; apply C; [exact Hx|right; auto]).
    assert (G : red (outer never f (if dr then pre else pre ++ [xv]) rest')).
    { apply IH; [cbn [length] in L; lia| |].
      - destruct dr; [exact R|]. apply red_app. split; [exact R|split; [split; [intros ? []|exact I]|]].
        intros x y Hx [<-|[]]. apply incomparable_sym. now apply Cx.
      - destruct dr; [exact Cr|]. intros x y Hx Hy. apply in_app_or in Hx. destruct Hx as [Hx|[<-|[]]]; [now apply Cr|].
        now apply I5. }
    destruct rest' as [|z rest'']; [|exact G].
    destruct f; cbn [outer] in G; now rewrite app_nil_r in G.
Qed.

Lemma outer_in fuel : forall pre post x, In x (outer never fuel pre post) -> In x (pre ++ post).
Proof.
  induction fuel as [|f IH]; intros pre post x H; [destruct post; exact H|].
  destruct post as [|xv rest]; [exact H|]. cbn [outer] in H.
  pose proof (inner_spec xv pre) as S1. destruct (inner xv pre) as [pre' b1]. cbn [fst snd] in S1.
  destruct S1 as [J1 _].
  assert (K : forall rest' (dr : bool), (rest', dr) = (if b1 then (rest, true) else inner xv rest) ->
              In x ((if dr then pre' else pre' ++ [xv]) ++ rest') -> In x (pre ++ xv :: rest)).
  { intros rest' dr E X.
    assert (Hr : forall y, In y rest' -> In y rest).
    { destruct b1; [injection E as -> _; auto|]. pose proof (inner_spec xv rest) as S2. rewrite <- E in S2. apply S2. }
    apply in_or_app. apply in_app_or in X. destruct X as [X|X]; [|right; right; auto].
    destruct dr; [left; auto|]. apply in_app_or in X. destruct X as [X|[<-|[]]]; [left; auto|right; now left]. }
  destruct (if b1 then (rest, true) else inner xv rest) as [rest' dr].
  apply (K rest' dr eq_refl).
  destruct rest' as [|z rest'']; [now rewrite app_nil_r|]. unfold never in H at 1. now apply IH.
Qed.

(* --- the theorems on omega_reduce --- *)
Theorem omega_reduce_superset hurry s p : den_ps s p -> den_ps (omega_reduce hurry s) p.
Proof.
  unfold omega_reduce, den_ps. destruct (reduced s); [tauto|]. cbn [seq]. intros H.
  apply outer_superset. cbn [app]. exact (proj2 (drop_bottoms_den _ _) H).
Qed.

Theorem omega_reduce_union s p : den_ps (omega_reduce never s) p <-> den_ps s p.
Proof.
  split; [|apply omega_reduce_superset].
  unfold omega_reduce, den_ps. destruct (reduced s); [tauto|]. cbn [seq]. intros H.
  apply outer_subset in H. cbn [app] in H. exact (proj1 (drop_bottoms_den _ _) H).
Qed.

Theorem omega_reduce_reduced s :
  wf s -> reduced (omega_reduce never s) = true /\ omega_reduced_l (seq (omega_reduce never s)).
Proof.
  unfold omega_reduce. intros W. destruct (reduced s) eqn:R; [split; [exact R|now apply W]|].
  cbn [seq reduced]. split; [reflexivity|]. split.
  - apply outer_reduced; [lia|exact I|intros x y []].
  - intros x Hx. apply outer_in in Hx. cbn [app] in Hx. now apply drop_bottoms_nobot in Hx.
Qed.

Corollary omega_reduce_wf s : wf s -> wf (omega_reduce never s).
Proof. intros W _. now apply omega_reduce_reduced. Qed.

Theorem omega_reduce_sub s x : In x (seq (omega_reduce never s)) -> In x (seq s).
Proof.
  unfold omega_reduce. destruct (reduced s); [tauto|]. cbn [seq]. intros H.
  apply outer_in in H. cbn [app] in H. now apply drop_bottoms_in in H.
Qed.

Theorem omega_reduce_idempotent hurry s : omega_reduce hurry (omega_reduce hurry s) = omega_reduce hurry s.
Proof. unfold omega_reduce at 2 3. destruct (reduced s) eqn:R; unfold omega_reduce; [now rewrite R|reflexivity]. Qed.

(* check_omega_reduced decides "really reduced" *)
Lemma check_red_from_ok l : forall pre,
  check_red_from pre l = true <-> (nobot l /\ red l /\ cross pre l).
Proof.
  induction l as [|x r IH]; intros pre; cbn [check_red_from red].
  - split; [intros _|reflexivity]. split; [intros ? []|]. split; [exact I|]. intros ? ? _ [].
  - rewrite !andb_true_iff, IH, forallb_forall, negb_true_iff. split.
    + intros [[B F] [N [R C]]].
      assert (Fx : forall y, In y (pre ++ r) -> incomparable x y).
      { intros y Hy. specialize (F y Hy). apply negb_true_iff, orb_false_iff in F. exact F. }
      split; [|split; [split|]].
      * intros y [<-|Hy]; [exact B|now apply N].
      * intros y Hy. apply Fx. apply in_or_app. now right.
      * exact R.
      * intros a b Ha [<-|Hb]; [apply incomparable_sym, Fx, in_or_app; now left|].
        apply C; [apply in_or_app; now left|exact Hb].
    + intros [N [[Rx R] C]]. split; [split|split; [|split]].
      * apply N. now left.
      * intros y Hy. apply negb_true_iff, orb_false_iff. apply in_app_or in Hy. destruct Hy as [Hy|Hy].
        -- apply incomparable_sym. apply C; [exact Hy|now left].
        -- now apply Rx.
      * intros y Hy. apply N. now right.
      * exact R.
      * intros a b Ha Hb. apply in_app_or in Ha. destruct Ha as [Ha|[<-|[]]]; [apply C; [exact Ha|now right]|now apply Rx].
Qed.

Theorem check_omega_reduced_ok s : check_omega_reduced s = true <-> omega_reduced_l (seq s).
Proof.
  unfold check_omega_reduced, omega_reduced_l. rewrite check_red_from_ok. split.
  - intros [A [B _]]. now split.
  - intros [A B]. split; [exact B|split; [exact A|intros ? ? []]].
Qed.

(* is_omega_reduced(): sets the flag when the check succeeds *)
Definition is_omega_reduced (s : ps) : ps * bool :=
  if negb (reduced s) && check_omega_reduced s then (mk_ps (seq s) true, true) else (s, reduced s).

Theorem is_omega_reduced_wf s : wf s -> wf (fst (is_omega_reduced s)) /\ seq (fst (is_omega_reduced s)) = seq s.
Proof.
  unfold is_omega_reduced. intros W. destruct (negb (reduced s) && check_omega_reduced s) eqn:E; cbn [fst]; [|now split].
  apply andb_true_iff in E. destruct E as [_ E]. apply check_omega_reduced_ok in E. split; [intros _; exact E|reflexivity].
Qed.

(* ------------------------------------------------------------------------------------------ *)
(* collapse (both overloads) *)
Definition collapse_all (s : ps) : ps :=
  match seq s with
  | [] => s
  | x :: r => mk_ps (collapse_at [] x r) (reduced s)
  end.

Definition collapse_n (hurry : nat -> bool) (max_disjuncts : nat) (s : ps) : ps :=
  let s' := omega_reduce hurry s in
  let n := length (seq s') in
  if Nat.ltb max_disjuncts n then
    match skipn (max_disjuncts - 1) (seq s') with
    | sink :: post => mk_ps (collapse_at (firstn (max_disjuncts - 1) (seq s')) sink post) (reduced s')
    | [] => s'
    end
  else s'.

Theorem collapse_spec s :
  (forall p, den_ps s p -> den_ps (collapse_all s) p) /\
  (seq s <> [] -> exists x r, seq s = x :: r /\ seq (collapse_all s) = [fold_left ub r x]) /\
  (length (seq (collapse_all s)) <= 1)%nat.
Proof.
  unfold collapse_all, den_ps. destruct (seq s) as [|x r] eqn:E; cbn [seq].
  - rewrite E. split; [tauto|]. split; [congruence|cbn; lia].
  - split; [|split].
    + intros p H. apply (collapse_at_superset [] x r p H).
    + intros _. exists x, r. split; reflexivity.
    + cbn. lia.
Qed.

Theorem collapse_n_spec hurry m s :
  (0 < m)%nat ->
  (forall p, den_ps s p -> den_ps (collapse_n hurry m s) p) /\
  (length (seq (collapse_n hurry m s)) <= Nat.max m (Nat.min m (length (seq (omega_reduce hurry s)))))%nat /\
  (length (seq (collapse_n hurry m s)) <= m)%nat.
Proof.
  intros Hm. unfold collapse_n. set (s' := omega_reduce hurry s).
  assert (S' : forall p, den_ps s p -> den_ps s' p) by (intros p; apply omega_reduce_superset).
  destruct (Nat.ltb m (length (seq s'))) eqn:L.
  - apply Nat.ltb_lt in L.
    pose proof (firstn_skipn (m - 1) (seq s')) as FS.
    destruct (skipn (m - 1) (seq s')) as [|sink post] eqn:SK.
    + exfalso. assert (X : length (skipn (m - 1) (seq s')) = (length (seq s') - (m - 1))%nat) by apply skipn_length.
      rewrite SK in X. cbn in X. lia.
    + assert (G1 : forall p, den_ps s p -> den_ps (mk_ps (collapse_at (firstn (m - 1) (seq s')) sink post) (reduced s')) p).
      { intros p H. unfold den_ps; cbn [seq]. apply collapse_at_superset. rewrite FS. now apply S'. }
      assert (G2 : (length (collapse_at (firstn (m - 1) (seq s')) sink post) <= m)%nat).
      { destruct (collapse_at_shape (firstn (m - 1) (seq s')) sink post) as [keep [-> [_ K]]].
        rewrite app_length. cbn [length]. rewrite firstn_length in K. lia. }
      cbn [seq]. split; [exact G1|]. split; lia.
  - apply Nat.ltb_ge in L. split; [exact S'|]. split; lia.
Qed.

(* ------------------------------------------------------------------------------------------ *)
(* add_disjunct, add_non_bottom_disjunct_preserve_reduction *)
Definition add_disjunct (d : D) (s : ps) : ps := mk_ps (seq s ++ [d]) false.

Theorem add_disjunct_union d s p : den_ps (add_disjunct d s) p <-> den_ps s p \/ den d p.
Proof.
  unfold add_disjunct, den_ps; cbn [seq]. rewrite den_l_app, den_l_cons, den_l_nil. tauto.
Qed.
Theorem add_disjunct_wf d s : wf (add_disjunct d s).
Proof. intros H; discriminate. Qed.

(* the loop over [first, last): returns the survivors of the range and whether [d] was found to
   entail one of them (in which case the function returns before pushing [d]) *)
Fixpoint scan_range (d : D) (range : list D) : list D * bool :=
  match range with
  | [] => ([], false)
  | x :: r =>
      if entails d x then (x :: r, true)
      else if entails x d then scan_range d r
      else let (r', b) := scan_range d r in (x :: r', b)
  end.

(* the sequence is pre ++ range ++ tail with first = begin of range, last = begin of tail;
   result: the new pre / range / tail (the returned iterator `first' is again the begin of range) *)
Definition add_nb_preserve (d : D) (pre range tail : list D) : list D * list D * list D :=
  let (range', absorbed) := scan_range d range in
  if absorbed then (pre, range', tail) else (pre, range', tail ++ [d]).

Ltac scan_cases d x l E1 E2 r b :=
  cbn [scan_range]; destruct (entails d x) eqn:E1;
  [|destruct (entails x d) eqn:E2; [|destruct (scan_range d l) as [r b]]]; cbn [fst snd] in *.

Lemma scan_in d range : forall z, In z (fst (scan_range d range)) -> In z range.
Proof.
  induction range as [|x l IH]; [cbn; tauto|]. intros z. scan_cases d x l E1 E2 r b.
  - tauto.
  - intros H. right. now apply IH.
  - intros [<-|H]; [now left|right; now apply IH].
Qed.

Lemma scan_den d range p : den d p \/ den_l range p <-> den d p \/ den_l (fst (scan_range d range)) p.
Proof.
  induction range as [|x l IH]; [cbn; tauto|]. scan_cases d x l E1 E2 r b.
  - tauto.
  - rewrite <- IH, den_l_cons. split; [|tauto]. intros [H|[H|H]]; auto. left. eapply entails_sound; eauto.
  - rewrite !den_l_cons. tauto.
Qed.

Lemma scan_hit d range : snd (scan_range d range) = true -> exists y, In y (fst (scan_range d range)) /\ entails d y = true.
Proof.
  induction range as [|x l IH]; [cbn; discriminate|]. scan_cases d x l E1 E2 r b.
  - intros _. exists x. split; [now left|exact E1].
  - exact IH.
  - intros H. destruct (IH H) as [z [Hz Ez]]. exists z. split; [now right|exact Ez].
Qed.

Lemma scan_miss d range : snd (scan_range d range) = false -> forall y, In y (fst (scan_range d range)) -> incomparable d y.
Proof.
  induction range as [|x l IH]; [cbn; tauto|]. scan_cases d x l E1 E2 r b.
  - discriminate.
  - exact IH.
  - intros H z [<-|Hz]; [split; assumption|now apply IH].
Qed.

Lemma scan_range_spec d range :
  let r := scan_range d range in
  (forall y, In y (fst r) -> In y range) /\
  (forall p, den d p \/ den_l range p <-> den d p \/ den_l (fst r) p) /\
  (snd r = true -> exists y, In y (fst r) /\ entails d y = true) /\
  (snd r = false -> forall y, In y (fst r) -> incomparable d y).
Proof.
  cbn zeta. split; [apply scan_in|]. split; [intros p; apply scan_den|]. split; [apply scan_hit|apply scan_miss].
Qed.

Definition flat3 (t : list D * list D * list D) : list D := fst (fst t) ++ snd (fst t) ++ snd t.

Theorem add_nb_preserve_union d pre range tail p :
  den_l (flat3 (add_nb_preserve d pre range tail)) p <-> den_l (pre ++ range ++ tail) p \/ den d p.
Proof.
  unfold add_nb_preserve. pose proof (scan_range_spec d range) as S. destruct (scan_range d range) as [r' b].
  cbn [fst snd] in S. destruct S as [_ [S2 [S3 _]]]. specialize (S2 p).
  destruct b; unfold flat3; cbn [fst snd]; rewrite !den_l_app; [|rewrite den_l_cons, den_l_nil; tauto].
  destruct (S3 eq_refl) as [y [Hy Ey]].
  assert (den d p -> den_l r' p) by (intros H; exists y; split; [exact Hy|eapply entails_sound; eauto]). tauto.
Qed.

Lemma scan_range_red d l : red l -> red (fst (scan_range d l)).
Proof.
  induction l as [|x l IH]; cbn [scan_range]; [auto|]. intros [Rx Rl].
  destruct (entails d x); [cbn [fst]; split; assumption|]. destruct (entails x d); [auto|].
  pose proof (scan_range_spec d l) as Sl. specialize (IH Rl). destruct (scan_range d l) as [q c]. cbn [fst snd] in *.
  split; [|exact IH]. intros y Hy. apply Rx. now apply Sl.
Qed.

(* the range stays omega-reduced when it was and [d] is not bottom (instance last = end(), which is
   how every caller in the library uses it) *)
Theorem add_nb_preserve_reduced d range :
  is_bottom d = false -> omega_reduced_l range ->
  omega_reduced_l (flat3 (add_nb_preserve d [] range [])).
Proof.
  intros Bd [R N]. unfold add_nb_preserve. pose proof (scan_range_spec d range) as S.
  pose proof (scan_range_red d range R) as R'.
  destruct (scan_range d range) as [r' b]. cbn [fst snd] in *. destruct S as [S1 [_ [_ S4]]].
  destruct b; unfold flat3; cbn [fst snd app].
  - rewrite app_nil_r. split; [exact R'|]. intros y Hy. apply N. now apply S1.
  - split.
    + apply red_app. split; [exact R'|split; [split; [intros ? []|exact I]|]].
      intros x y Hx [<-|[]]. apply incomparable_sym. now apply S4.
    + intros y Hy. apply in_app_or in Hy. destruct Hy as [Hy|[<-|[]]]; [apply N; now apply S1|exact Bd].
Qed.

(* ------------------------------------------------------------------------------------------ *)
(* least_upper_bound_assign: x and y are omega-reduced, then every disjunct of y is added with
   add_non_bottom_disjunct_preserve_reduction(y_i, old_begin, old_end) where old_end = end() is the
   list sentinel: the range always extends to the current end of the sequence *)
Definition add_end (range : list D) (d : D) : list D := flat3 (add_nb_preserve d [] range []).

Definition lub (hurry : nat -> bool) (y s : ps) : ps :=
  let s' := omega_reduce hurry s in
  let y' := omega_reduce hurry y in
  mk_ps (fold_left add_end (seq y') (seq s')) (reduced s').

Lemma add_end_union range d p : den_l (add_end range d) p <-> den_l range p \/ den d p.
Proof.
  unfold add_end. rewrite add_nb_preserve_union. cbn [app]. now rewrite app_nil_r.
Qed.

Lemma fold_add_end_union ys : forall range p, den_l (fold_left add_end ys range) p <-> den_l range p \/ den_l ys p.
Proof.
  induction ys as [|y ys IH]; intros range p; cbn [fold_left].
  - rewrite den_l_nil. tauto.
  - rewrite IH, add_end_union, den_l_cons. tauto.
Qed.

Lemma fold_add_end_reduced ys : forall range, nobot ys -> omega_reduced_l range -> omega_reduced_l (fold_left add_end ys range).
Proof.
  induction ys as [|y ys IH]; intros range N R; cbn [fold_left]; [exact R|].
  apply IH; [intros z Hz; apply N; now right|]. apply add_nb_preserve_reduced; [apply N; now left|exact R].
Qed.

Theorem ub_union y s p : den_ps (lub never y s) p <-> den_ps s p \/ den_ps y p.
Proof.
  unfold lub, den_ps at 1. cbn [seq]. rewrite fold_add_end_union.
  fold (den_ps (omega_reduce never s)). fold (den_ps (omega_reduce never y)). now rewrite !omega_reduce_union.
Qed.

Theorem ub_superset hurry y s p : den_ps s p \/ den_ps y p -> den_ps (lub hurry y s) p.
Proof.
  unfold lub, den_ps at 3. cbn [seq]. rewrite fold_add_end_union.
  intros [H|H]; [left|right]; now apply omega_reduce_superset.
Qed.

Theorem ub_wf y s : wf s -> wf y -> reduced (lub never y s) = true /\ omega_reduced_l (seq (lub never y s)).
Proof.
  intros Ws Wy. unfold lub. cbn [seq reduced].
  destruct (omega_reduce_reduced s Ws) as [F1 R1]. destruct (omega_reduce_reduced y Wy) as [F2 [R2 N2]].
  split; [exact F1|]. apply fold_add_end_reduced; assumption.
Qed.

(* ------------------------------------------------------------------------------------------ *)
(* pairwise_apply_assign, meet_assign *)
Definition pairwise_apply (hurry : nat -> bool) (op : D -> D -> D) (y s : ps) : ps :=
  let s' := omega_reduce hurry s in
  let y' := omega_reduce hurry y in
  mk_ps (flat_map (fun x => drop_bottoms (map (op x) (seq y'))) (seq s')) false.

Lemma den_l_flat_map (f : D -> list D) l p : den_l (flat_map f l) p <-> exists x, In x l /\ den_l (f x) p.
Proof.
  unfold den_l. split.
  - intros [d [H Hd]]. apply in_flat_map in H. destruct H as [x [Hx Hd']]. exists x. split; [exact Hx|]. exists d. now split.
  - intros [x [Hx [d [H Hd]]]]. exists d. split; [|exact Hd]. apply in_flat_map. exists x. now split.
Qed.
Lemma den_l_map (f : D -> D) l p : den_l (map f l) p <-> exists x, In x l /\ den (f x) p.
Proof.
  unfold den_l. split.
  - intros [d [H Hd]]. apply in_map_iff in H. destruct H as [x [<- Hx]]. exists x. now split.
  - intros [x [Hx Hd]]. exists (f x). split; [now apply in_map|exact Hd].
Qed.

Theorem pairwise_apply_union (op : D -> D -> D) (Rel : P -> P -> P -> Prop) y s :
  (forall a b q, den (op a b) q <-> exists p1 p2, den a p1 /\ den b p2 /\ Rel p1 p2 q) ->
  forall q, den_ps (pairwise_apply never op y s) q <-> exists p1 p2, den_ps s p1 /\ den_ps y p2 /\ Rel p1 p2 q.
Proof.
  intros Hop q. unfold pairwise_apply, den_ps at 1. cbn [seq]. rewrite den_l_flat_map. split.
  - intros [x [Hx H]]. apply (proj1 (drop_bottoms_den _ _)) in H. apply (proj1 (den_l_map _ _ _)) in H. destruct H as [b [Hb H]].
    apply Hop in H. destruct H as [p1 [p2 [H1 [H2 H3]]]]. exists p1, p2. split; [|split; [|exact H3]].
    + apply omega_reduce_union. exists x. now split.
    + apply omega_reduce_union. exists b. now split.
  - intros [p1 [p2 [H1 [H2 H3]]]]. apply omega_reduce_union in H1. apply omega_reduce_union in H2.
    destruct H1 as [x [Hx H1]]. destruct H2 as [b [Hb H2]]. exists x. split; [exact Hx|].
    apply (proj2 (drop_bottoms_den _ _)). apply (proj2 (den_l_map _ _ _)). exists b. split; [exact Hb|]. apply Hop. exists p1, p2. auto.
Qed.

Definition meet_assign (hurry : nat -> bool) (y s : ps) : ps := pairwise_apply hurry meet y s.

Theorem meet_union y s p : den_ps (meet_assign never y s) p <-> den_ps s p /\ den_ps y p.
Proof.
  unfold meet_assign.
  rewrite (pairwise_apply_union meet (fun p1 p2 q => p1 = q /\ p2 = q)).
  - split; [intros [p1 [p2 [H1 [H2 [-> ->]]]]]; now split|intros [H1 H2]; exists p, p; auto].
  - intros a b q. rewrite meet_exact. split; [intros [H1 H2]; exists q, q; auto|intros [p1 [p2 [H1 [H2 [-> ->]]]]]; now split].
Qed.

Theorem pairwise_apply_wf hurry op y s : wf (pairwise_apply hurry op y s).
Proof. intros H; discriminate. Qed.

(* ------------------------------------------------------------------------------------------ *)
(* definitely_entails: the two `found' loops *)
Fixpoint find_entailed (x : D) (ys : list D) : bool :=
  match ys with [] => false | y :: r => if entails x y then true else find_entailed x r end.
Fixpoint all_entailed (xs ys : list D) : bool :=
  match xs with [] => true | x :: r => if find_entailed x ys then all_entailed r ys else false end.
Definition definitely_entails (x y : ps) : bool := all_entailed (seq x) (seq y).

Lemma find_entailed_ok x ys : find_entailed x ys = true -> exists y, In y ys /\ entails x y = true.
Proof.
  induction ys as [|y r IH]; cbn [find_entailed]; [discriminate|]. destruct (entails x y) eqn:E.
  - intros _. exists y. split; [now left|exact E].
  - intros H. destruct (IH H) as [z [Hz Ez]]. exists z. split; [now right|exact Ez].
Qed.

Theorem entails_geometric x y : definitely_entails x y = true -> forall p, den_ps x p -> den_ps y p.
Proof.
  unfold definitely_entails, den_ps. generalize (seq y). intros ys. induction (seq x) as [|a r IH]; cbn [all_entailed].
  - intros _ p H. now apply den_l_nil in H.
  - destruct (find_entailed a ys) eqn:F; [|discriminate]. intros H p Hp. apply den_l_cons in Hp. destruct Hp as [Hp|Hp].
    + destruct (find_entailed_ok _ _ F) as [z [Hz Ez]]. exists z. split; [exact Hz|]. eapply entails_sound; eauto.
    + now apply IH.
Qed.

(* ------------------------------------------------------------------------------------------ *)
(* is_bottom / is_top of a powerset (omega-reduce first) *)
Variable is_top : D -> bool.
Hypothesis top_sound : forall a, is_top a = true -> forall p, den a p.
Hypothesis bottom_complete : forall a, (forall p, ~ den a p) -> is_bottom a = true.

Definition is_bottom_ps (hurry : nat -> bool) (s : ps) : ps * bool :=
  let s' := omega_reduce hurry s in (s', match seq s' with [] => true | _ => false end).
Definition is_top_ps (hurry : nat -> bool) (s : ps) : ps * bool :=
  let s' := omega_reduce hurry s in (s', match seq s' with [x] => is_top x | _ => false end).

Theorem is_bottom_ps_exact s : wf s -> (snd (is_bottom_ps never s) = true <-> forall p, ~ den_ps s p).
Proof.
  intros W. unfold is_bottom_ps. cbn [snd]. destruct (omega_reduce_reduced s W) as [_ [_ N]].
  pose proof (omega_reduce_union s) as U. destruct (seq (omega_reduce never s)) as [|x r] eqn:E.
  - split; [|reflexivity]. intros _ p H. apply U in H. unfold den_ps in H. rewrite E in H. now apply den_l_nil in H.
  - split; [discriminate|]. intros H. exfalso.
    assert (B : is_bottom x = true).
    { apply bottom_complete. intros p Hp. apply (H p). apply U. unfold den_ps. rewrite E. apply den_l_cons. now left. }
    rewrite (N x (or_introl eq_refl)) in B. discriminate.
Qed.

Theorem is_top_ps_sound hurry s : snd (is_top_ps hurry s) = true -> forall p, den_ps (fst (is_top_ps hurry s)) p.
Proof.
  unfold is_top_ps. cbn [fst snd]. unfold den_ps. destruct (seq (omega_reduce hurry s)) as [|x [|y r]]; try discriminate.
  intros H p. apply den_l_cons. left. now apply top_sound.
Qed.

(* ------------------------------------------------------------------------------------------ *)
(* the disjunct-wise operations of Pointset_Powerset (add_constraint, affine_image, ...):
   [keep_flag] = the C++ body does not reset `reduced': add_space_dimensions_and_embed / _project and
   expand_space_dimension (order embeddings, [map_keep_wf]).  topological_closure_assign and
   fold_space_dimensions used to keep it too (defect: closure / folding create comparabilities);
   since /repo fd3faff and e7857d0 they reset it, i.e. they are [map_assign f false]. *)
Definition map_assign (f : D -> D) (keep_flag : bool) (s : ps) : ps :=
  mk_ps (map f (seq s)) (if keep_flag then reduced s else false).

Theorem map_union (f : D -> D) (Rel : P -> P -> Prop) k s :
  (forall a q, den (f a) q <-> exists p, den a p /\ Rel p q) ->
  forall q, den_ps (map_assign f k s) q <-> exists p, den_ps s p /\ Rel p q.
Proof.
  intros Hf q. unfold map_assign, den_ps. cbn [seq]. rewrite den_l_map. split.
  - intros [x [Hx H]]. apply Hf in H. destruct H as [p [H1 H2]]. exists p. split; [exists x; now split|exact H2].
  - intros [p [[x [Hx H1]] H2]]. exists x. split; [exact Hx|]. apply Hf. exists p. now split.
Qed.

Theorem map_reset_wf f s : wf (map_assign f false s).
Proof. intros H; discriminate. Qed.

(* keeping the flag is justified for operations that neither create nor destroy comparabilities *)
Theorem map_keep_wf f s :
  (forall a b, entails (f a) (f b) = entails a b) -> (forall a, is_bottom (f a) = is_bottom a) ->
  wf s -> wf (map_assign f true s).
Proof.
  intros He Hb W. unfold wf, map_assign. cbn [seq reduced]. intros R. destruct (W R) as [Rd N]. split.
  - clear N W R. induction (seq s) as [|x r IH]; cbn [map red]; [exact I|]. destruct Rd as [Rx Rr]. split; [|now apply IH].
    intros y Hy. apply in_map_iff in Hy. destruct Hy as [z [<- Hz]]. unfold incomparable. rewrite !He. now apply Rx.
  - intros y Hy. apply in_map_iff in Hy. destruct Hy as [z [<- Hz]]. rewrite Hb. now apply N.
Qed.

(* ------------------------------------------------------------------------------------------ *)
(* Pointset_Powerset::concatenate_assign(y) (Pointset_Powerset_templates.hh:103-141), with its
   "Hurry up!" branch: both operands are omega-reduced; for every disjunct xi of x the products
   xi . yj are pushed; after each xi, when the abandon flag is found raised and disjuncts of x remain
   (and y is not empty), the REMAINING disjuncts of x are joined into x_ph, ALL the disjuncts of y into
   y_ph, the single product x_ph . y_ph is added with add_disjunct (which clears `reduced') and the
   function returns.  [conc] is the base-level concatenate_assign; [ubx], [uby] the upper bounds on the
   two operand spaces.  new_x starts as an EMPTY powerset, whose flag is set. *)
Section Concat.
Variables (conc ubx uby : D -> D -> D).

Fixpoint concat_loop (hurry : nat -> bool) (xs ys acc : list D) : list D * bool :=
  match xs with
  | [] => (acc, true)
  | x :: rest =>
      let acc' := acc ++ map (conc x) ys in
      match rest, ys with
      | r0 :: rest', y0 :: ys' =>
          if hurry (length rest) then (acc' ++ [conc (fold_left ubx rest' r0) (fold_left uby ys' y0)], false)
          else concat_loop hurry rest ys acc'
      | _, _ => concat_loop hurry rest ys acc'
      end
  end.

Definition concatenate_ps (hurry : nat -> bool) (y s : ps) : ps :=
  let s' := omega_reduce hurry s in
  let y' := omega_reduce hurry y in
  let (l, fl) := concat_loop hurry (seq s') (seq y') [] in mk_ps l fl.

Variable Rel : P -> P -> P -> Prop.    (* q is the concatenation of p1 and p2 *)
Hypothesis conc_sound : forall a b p1 p2 q, den a p1 -> den b p2 -> Rel p1 p2 q -> den (conc a b) q.
Hypothesis ubx_upper : forall a b p, den a p \/ den b p -> den (ubx a b) p.
Hypothesis uby_upper : forall a b p, den a p \/ den b p -> den (uby a b) p.

Lemma fold_upper (u : D -> D -> D) (Hu : forall a b p, den a p \/ den b p -> den (u a b) p) post :
  forall sink p, den_l (sink :: post) p -> den (fold_left u post sink) p.
Proof.
  induction post as [|y post IH]; intros sink p H; cbn [fold_left].
  - apply den_l_cons in H. destruct H as [H|H]; [exact H|now apply den_l_nil in H].
  - apply IH. apply den_l_cons. apply den_l_cons in H. destruct H as [H|H].
    + left. apply Hu. now left.
    + apply den_l_cons in H. destruct H as [H|H]; [left; apply Hu; now right|now right].
Qed.

(* whatever the oracle does, no point of the concatenation is lost *)
Lemma concat_loop_superset hurry ys : forall xs acc q,
  den_l acc q \/ (exists p1 p2, den_l xs p1 /\ den_l ys p2 /\ Rel p1 p2 q) ->
  den_l (fst (concat_loop hurry xs ys acc)) q.
Proof.
  induction xs as [|x rest IH]; intros acc q H; cbn [concat_loop].
  - cbn [fst]. destruct H as [H|[p1 [p2 [H _]]]]; [exact H|now apply den_l_nil in H].
  - set (acc' := acc ++ map (conc x) ys).
    assert (A : den_l acc' q \/ (exists p1 p2, den_l rest p1 /\ den_l ys p2 /\ Rel p1 p2 q)).
    { destruct H as [H|[p1 [p2 [H1 [H2 H3]]]]]; [left; apply den_l_app; now left|].
      apply den_l_cons in H1. destruct H1 as [H1|H1]; [|right; exists p1, p2; auto].
      left. apply den_l_app. right. destruct H2 as [b [Hb H2]]. exists (conc x b). split; [now apply in_map|].
      eapply conc_sound; eauto. }
    destruct rest as [|r0 rest']; [now apply IH|]. destruct ys as [|y0 ys']; [now apply IH|].
    destruct (hurry (length (r0 :: rest'))); [|now apply IH]. cbn [fst].
    apply den_l_app. destruct A as [A|[p1 [p2 [H1 [H2 H3]]]]]; [now left|right].
    apply den_l_cons. left. eapply conc_sound; [| |exact H3]; apply fold_upper; auto.
Qed.

Theorem concatenate_never_loses hurry y s q :
  (exists p1 p2, den_ps s p1 /\ den_ps y p2 /\ Rel p1 p2 q) -> den_ps (concatenate_ps hurry y s) q.
Proof.
  intros [p1 [p2 [H1 [H2 H3]]]]. unfold concatenate_ps.
  pose proof (concat_loop_superset hurry (seq (omega_reduce hurry y)) (seq (omega_reduce hurry s)) [] q) as K.
  destruct (concat_loop hurry (seq (omega_reduce hurry s)) (seq (omega_reduce hurry y)) []) as [l fl]. cbn [fst] in K.
  unfold den_ps. cbn [seq]. apply K. right. exists p1, p2. split; [|split; [|exact H3]].
  - now apply omega_reduce_superset.
  - now apply omega_reduce_superset.
Qed.

(* without abandonment the result is exactly the set of concatenations, and the flag stays set *)
Hypothesis conc_exact : forall a b q, den (conc a b) q -> exists p1 p2, den a p1 /\ den b p2 /\ Rel p1 p2 q.

Lemma concat_loop_never ys : forall xs acc,
  concat_loop never xs ys acc = (acc ++ flat_map (fun x => map (conc x) ys) xs, true).
Proof.
  induction xs as [|x rest IH]; intros acc; cbn [concat_loop flat_map]; [now rewrite app_nil_r|].
  rewrite app_assoc. destruct rest as [|r0 rest']; [apply IH|]. destruct ys as [|y0 ys']; [apply IH|].
  unfold never at 1. apply IH.
Qed.

Theorem concatenate_exact y s q :
  den_ps (concatenate_ps never y s) q <-> exists p1 p2, den_ps s p1 /\ den_ps y p2 /\ Rel p1 p2 q.
Proof.
  split; [|apply concatenate_never_loses].
  unfold concatenate_ps. rewrite concat_loop_never. unfold den_ps at 1. cbn [seq app].
  intros H. apply den_l_flat_map in H. destruct H as [x [Hx H]]. apply (proj1 (den_l_map _ _ _)) in H.
  destruct H as [b [Hb H]]. destruct (conc_exact _ _ _ H) as [p1 [p2 [H1 [H2 H3]]]].
  exists p1, p2. split; [|split; [|exact H3]]; apply omega_reduce_union; [exists x|exists b]; now split.
Qed.

Theorem concatenate_flag y s : reduced (concatenate_ps never y s) = true.
Proof. unfold concatenate_ps. now rewrite concat_loop_never. Qed.
End Concat.

(* ------------------------------------------------------------------------------------------ *)
(* Pointset_Powerset::strictly_contains(y): BOTH operands are omega-reduced (the argument too since
   /repo 7722182), then every disjunct of y must be strictly contained in some disjunct of x.
   [sc a b] is the base-level a.strictly_contains(b). *)
Variable sc : D -> D -> bool.
Hypothesis sc_sound : forall a b, sc a b = true -> forall p, den b p -> den a p.

Fixpoint find_strict (yi : D) (xs : list D) : bool :=
  match xs with [] => false | xj :: r => if sc xj yi then true else find_strict yi r end.
Fixpoint all_strict (ys xs : list D) : bool :=
  match ys with [] => true | yi :: r => if find_strict yi xs then all_strict r xs else false end.

Definition strictly_contains_ps (hurry : nat -> bool) (x y : ps) : ps * ps * bool :=
  let x' := omega_reduce hurry x in
  let y' := omega_reduce hurry y in
  (x', y', all_strict (seq y') (seq x')).

Lemma find_strict_ok yi xs : find_strict yi xs = true -> exists xj, In xj xs /\ sc xj yi = true.
Proof.
  induction xs as [|xj r IH]; cbn [find_strict]; [discriminate|]. destruct (sc xj yi) eqn:E.
  - intros _. exists xj. split; [now left|exact E].
  - intros H. destruct (IH H) as [z [Hz Ez]]. exists z. split; [now right|exact Ez].
Qed.

Theorem strictly_contains_sound x y :
  snd (strictly_contains_ps never x y) = true -> forall p, den_ps y p -> den_ps x p.
Proof.
  unfold strictly_contains_ps. cbn [snd]. intros H p Hp.
  apply omega_reduce_union. apply (proj2 (omega_reduce_union y p)) in Hp. revert H p Hp. unfold den_ps.
  generalize (seq (omega_reduce never x)). intros xs. induction (seq (omega_reduce never y)) as [|a r IH]; cbn [all_strict].
  - intros _ p H. now apply den_l_nil in H.
  - destruct (find_strict a xs) eqn:F; [|discriminate]. intros H p Hp. apply den_l_cons in Hp. destruct Hp as [Hp|Hp].
    + destruct (find_strict_ok _ _ F) as [z [Hz Ez]]. exists z. split; [exact Hz|]. eapply sc_sound; eauto.
    + now apply IH.
Qed.

(* both operands come back omega-reduced, with the same denotation *)
Theorem strictly_contains_states x y p :
  (den_ps (fst (fst (strictly_contains_ps never x y))) p <-> den_ps x p) /\
  (den_ps (snd (fst (strictly_contains_ps never x y))) p <-> den_ps y p).
Proof. unfold strictly_contains_ps. cbn [fst snd]. split; apply omega_reduce_union. Qed.

(* ------------------------------------------------------------------------------------------ *)
(* Pointset_Powerset::pairwise_reduce *)
Variable ub_if_exact : D -> D -> option D.     (* pi.upper_bound_assign_if_exact(pj) *)
Hypothesis ub_if_exact_sound : forall a b u, ub_if_exact a b = Some u -> forall p, den u p <-> den a p \/ den b p.

(* inner loop over the later, unmarked disjuncts *)
Fixpoint find_partner (pi : D) (rest : list (D * bool)) : option (D * list (D * bool)) :=
  match rest with
  | [] => None
  | (pj, m) :: r =>
      if m then option_map (fun ur => (fst ur, (pj, m) :: snd ur)) (find_partner pi r)
      else match ub_if_exact pi pj with
           | Some u => Some (u, (pj, true) :: r)
           | None => option_map (fun ur => (fst ur, (pj, m) :: snd ur)) (find_partner pi r)
           end
  end.

(* first loop: builds new_x out of the merged pairs; returns (new_x, deleted, the unmarked ones in order) *)
Fixpoint pr_pass1 (fuel : nat) (l : list (D * bool)) (new_x : list D) (deleted : nat) (unm : list D)
  : list D * nat * list D :=
  match fuel, l with
  | S f, (pi, m) :: rest =>
      if m then pr_pass1 f rest new_x deleted unm
      else match find_partner pi rest with
           | Some (u, rest') => pr_pass1 f rest' (add_end new_x u) (S deleted) unm
           | None => pr_pass1 f rest new_x deleted (unm ++ [pi])
           end
  | _, _ => (new_x, deleted, unm ++ map fst (filter (fun e => negb (snd e)) l))
  end.

(* second loop: new_x_begin = new_x.begin(), new_x_end = new_x.end(); when new_x is empty both are the
   sentinel and stay so: the range remains empty and every unmarked disjunct is pushed unchecked *)
Definition pr_pass2 (new_x unm : list D) : list D :=
  match new_x with [] => unm | _ => fold_left add_end unm new_x end.

Definition pr_round (l : list D) : list D * nat :=
  let '(new_x, deleted, unm) := pr_pass1 (length l) (map (fun d => (d, false)) l) [] 0 [] in
  (pr_pass2 new_x unm, deleted).

Fixpoint pr_loop (fuel : nat) (l : list D) : list D :=
  match fuel with
  | O => l
  | S f => let (l', deleted) := pr_round l in if Nat.eqb deleted 0 then l' else pr_loop f l'
  end.

Definition pairwise_reduce (hurry : nat -> bool) (s : ps) : ps :=
  let s' := omega_reduce hurry s in
  mk_ps (pr_loop (S (length (seq s'))) (seq s')) (reduced s').

Definition den_m (l : list (D * bool)) (p : P) : Prop := exists e, In e l /\ snd e = false /\ den (fst e) p.

Lemma den_m_cons e l p : den_m (e :: l) p <-> (snd e = false /\ den (fst e) p) \/ den_m l p.
Proof.
  unfold den_m. split.
  - intros [x [[<-|H] Hx]]; [now left|right; eauto].
  - intros [H|[x [H Hx]]]; [exists e; split; [now left|exact H]|exists x; split; [now right|exact Hx]].
Qed.

Lemma find_partner_spec pi : forall rest u rest',
  find_partner pi rest = Some (u, rest') ->
  forall p, den u p \/ den_m rest' p <-> den pi p \/ den_m rest p.
Proof.
  induction rest as [|[pj m] r IH]; intros u rest' H p; cbn [find_partner] in H; [discriminate|].
  assert (K : option_map (fun ur => (fst ur, (pj, m) :: snd ur)) (find_partner pi r) = Some (u, rest') ->
              den u p \/ den_m rest' p <-> den pi p \/ den_m ((pj, m) :: r) p).
  { destruct (find_partner pi r) as [[u0 r0]|] eqn:F; cbn [option_map fst snd]; [|discriminate].
    intros [= <- <-]. rewrite !den_m_cons. cbn [fst snd]. specialize (IH u0 r0 eq_refl p). tauto. }
  destruct m; [exact (K H)|]. destruct (ub_if_exact pi pj) as [u0|] eqn:U; [|exact (K H)].
  injection H as <- <-. rewrite !den_m_cons. cbn [fst snd]. rewrite (ub_if_exact_sound _ _ _ U p).
  split; [|intros [X|[[_ X]|X]]; auto]. intros [[X|X]|[[X _]|X]]; auto; discriminate.
Qed.

Lemma den_m_filter l p : den_m l p <-> den_l (map fst (filter (fun e => negb (snd e)) l)) p.
Proof.
  induction l as [|[d m] l IH]; cbn [filter map].
  - unfold den_m, den_l. split; intros [x [[] _]].
  - rewrite den_m_cons. cbn [fst snd negb]. destruct m; cbn [negb map fst]; rewrite ?den_l_cons, IH; [|tauto].
    split; [intros [[X _]|X]; [discriminate|exact X]|tauto].
Qed.

Lemma pr_pass1_union fuel : forall l new_x deleted unm p,
  (let '(nx, _, um) := pr_pass1 fuel l new_x deleted unm in den_l nx p \/ den_l um p) <->
  (den_l new_x p \/ den_l unm p \/ den_m l p).
Proof.
  induction fuel as [|f IH]; intros l new_x deleted unm p.
  - cbn [pr_pass1]. rewrite den_l_app, <- den_m_filter. tauto.
  - destruct l as [|[pi m] rest]; cbn [pr_pass1].
    + cbn [filter map]. rewrite app_nil_r. unfold den_m. split; [tauto|]. intros [H|[H|[e [[] _]]]]; auto.
    + destruct m.
      * rewrite IH, den_m_cons. cbn [snd]. split; [tauto|]. intros [H|[H|[[H _]|H]]]; auto; discriminate.
      * destruct (find_partner pi rest) as [[u rest']|] eqn:F.
        -- rewrite IH, add_end_union, den_m_cons. cbn [fst snd]. pose proof (find_partner_spec pi rest u rest' F p). tauto.
        -- rewrite IH, den_l_app, den_l_cons, den_l_nil, den_m_cons. cbn [fst snd]. tauto.
Qed.

Lemma pr_round_union l p : den_l (fst (pr_round l)) p <-> den_l l p.
Proof.
  unfold pr_round. pose proof (pr_pass1_union (length l) (map (fun d => (d, false)) l) [] 0 [] p) as H.
  destruct (pr_pass1 (length l) (map (fun d => (d, false)) l) [] 0 []) as [[nx dl] um]. cbn [fst].
  assert (E : den_m (map (fun d => (d, false)) l) p <-> den_l l p).
  { unfold den_m, den_l. split.
    - intros [e [He [_ Hd]]]. apply in_map_iff in He. destruct He as [d [<- Hd']]. exists d. now split.
    - intros [d [Hd Hp]]. exists (d, false). split; [now apply (in_map (fun d => (d, false)))|now split]. }
  rewrite den_l_nil in H. rewrite <- E.
  assert (G : den_l (pr_pass2 nx um) p <-> den_l nx p \/ den_l um p).
  { unfold pr_pass2. destruct nx as [|n0 nx']; [rewrite den_l_nil; tauto|]. now rewrite fold_add_end_union. }
  rewrite G. tauto.
Qed.

Lemma pr_loop_union fuel : forall l p, den_l (pr_loop fuel l) p <-> den_l l p.
Proof.
  induction fuel as [|f IH]; intros l p; cbn [pr_loop]; [tauto|].
  pose proof (pr_round_union l p) as R. destruct (pr_round l) as [l' dl]. cbn [fst] in R.
  destruct (Nat.eqb dl 0); [exact R|]. now rewrite IH.
Qed.

Theorem pairwise_reduce_union s p : den_ps (pairwise_reduce never s) p <-> den_ps s p.
Proof.
  unfold pairwise_reduce, den_ps at 1. cbn [seq]. rewrite pr_loop_union. apply omega_reduce_union.
Qed.

Theorem pairwise_reduce_superset hurry s p : den_ps s p -> den_ps (pairwise_reduce hurry s) p.
Proof.
  unfold pairwise_reduce, den_ps at 2. cbn [seq]. rewrite pr_loop_union. apply omega_reduce_superset.
Qed.

End PS.
