(* Specification of Parametric Integer Programming problems as PIP_Problem documents them
   (src/PIP_Problem_defs.hh): a vector space of [dim] dimensions, some of which are parameters,
   constraints  sum a_i x_i + b  (= | >= | >) 0  with integer coefficients, every variable and every
   parameter ranging over the non-negative integers; optionally one parameter is "big".
   For a parameter valuation q the answer is the lexicographic minimum (in the order of the variable
   indices) of the integral non-negative feasible points, or bottom when there is none.

   Points and valuations are lists of integers indexed by space dimension ("full points"); a
   valuation is a full point of which only the parameter positions are read. *)
From Coq Require Import List ZArith Lia Bool.
Require Import PPLV.Base.Sys.
Import ListNotations.
Local Open Scope Z_scope.

(* ---------------------------------------------------------------------------------------- *)
(* integer evaluation of the constraints of Base/Sys.v ([con]: coefficients, constant, kind) *)

Fixpoint dotz (a : list Z) (p : list Z) (i : nat) : Z :=
  match a with
  | [] => 0
  | a0 :: a' => a0 * nth i p 0 + dotz a' p (S i)
  end.

Definition evalz (c : con) (p : list Z) : Z := dotz (ccoefs c) p 0 + ccst c.

Definition holds (c : con) (p : list Z) : Prop :=
  match ckd c with EQ => evalz c p = 0 | GE => 0 <= evalz c p | GT => 0 < evalz c p end.

Definition holdsb (c : con) (p : list Z) : bool :=
  match ckd c with EQ => evalz c p =? 0 | GE => 0 <=? evalz c p | GT => 0 <? evalz c p end.

Lemma holdsb_spec c p : holdsb c p = true <-> holds c p.
Proof.
  unfold holdsb, holds. destruct (ckd c).
  - apply Z.eqb_eq.
  - apply Z.leb_le.
  - apply Z.ltb_lt.
Qed.

Definition all_hold (cs : list con) (p : list Z) : Prop := Forall (fun c => holds c p) cs.
Definition all_holdb (cs : list con) (p : list Z) : bool := forallb (fun c => holdsb c p) cs.

Lemma all_holdb_spec cs p : all_holdb cs p = true <-> all_hold cs p.
Proof.
  unfold all_holdb, all_hold. rewrite forallb_forall, Forall_forall.
  split; intros H c Hc; apply holdsb_spec; auto.
Qed.

(* ---------------------------------------------------------------------------------------- *)
(* problems *)

Record problem := {
  is_par : list bool;      (* one flag per space dimension: true = parameter, false = variable *)
  cons : list con;         (* the constraints, coefficients indexed by space dimension *)
  big : option nat         (* the big parameter, if one is designated *)
}.

Definition dim (pb : problem) : nat := length (is_par pb).

(* [shape ip q p]: p is a full point of the right length whose parameter positions carry the values
   of q and whose variable positions are non-negative *)
Fixpoint shape (ip : list bool) (q p : list Z) : Prop :=
  match ip, q, p with
  | [], _, [] => True
  | true :: ip', q0 :: q', p0 :: p' => p0 = q0 /\ shape ip' q' p'
  | false :: ip', _ :: q', p0 :: p' => 0 <= p0 /\ shape ip' q' p'
  | _, _, _ => False
  end.

Definition feasible (pb : problem) (q p : list Z) : Prop :=
  shape (is_par pb) q p /\ all_hold (cons pb) p.

(* the variable coordinates of a full point, in index order *)
Fixpoint proj (ip : list bool) (p : list Z) : list Z :=
  match ip, p with
  | true :: ip', _ :: p' => proj ip' p'
  | false :: ip', p0 :: p' => p0 :: proj ip' p'
  | _, _ => []
  end.

(* lexicographic order on integer vectors *)
Fixpoint lex_lt (x y : list Z) : Prop :=
  match x, y with
  | a :: x', b :: y' => a < b \/ (a = b /\ lex_lt x' y')
  | _, _ => False
  end.
Definition lex_le (x y : list Z) : Prop := x = y \/ lex_lt x y.

(* the specified answer for the valuation q *)
Definition lexmin (pb : problem) (q x : list Z) : Prop :=
  exists p, feasible pb q p /\ proj (is_par pb) p = x /\
            forall p', feasible pb q p' -> lex_le x (proj (is_par pb) p').

Definition bottom (pb : problem) (q : list Z) : Prop := forall p, ~ feasible pb q p.

(* the answer as a value: [Some x] / [None] *)
Definition answer (pb : problem) (q : list Z) (r : option (list Z)) : Prop :=
  match r with Some x => lexmin pb q x | None => bottom pb q end.

(* ---------------------------------------------------------------------------------------- *)
(* the context: admissible parameter valuations.  A constraint all of whose variable
   coefficients are zero restricts the parameters only ("initial context"). *)

Fixpoint ponly (ip : list bool) (a : list Z) : bool :=
  match a, ip with
  | [], _ => true
  | a0 :: a', b :: ip' => (b || (a0 =? 0)) && ponly ip' a'
  | a0 :: a', [] => (a0 =? 0) && ponly [] a'
  end.

Definition context_cons (pb : problem) : list con :=
  filter (fun c => ponly (is_par pb) (ccoefs c)) (cons pb).

Definition context (pb : problem) (q : list Z) : Prop :=
  length q = dim pb /\ Forall (fun v => 0 <= v) q /\ all_hold (context_cons pb) q.

Definition contextb (pb : problem) (q : list Z) : bool :=
  Nat.eqb (length q) (dim pb) && forallb (fun v => 0 <=? v) q && all_holdb (context_cons pb) q.

Lemma contextb_spec pb q : contextb pb q = true <-> context pb q.
Proof.
  unfold contextb, context. rewrite !andb_true_iff, Nat.eqb_eq, all_holdb_spec, forallb_forall, Forall_forall.
  split.
  - intros [[H1 H2] H3]. repeat split; auto. intros v Hv. apply Z.leb_le; auto.
  - intros [H1 [H2 H3]]. repeat split; auto. intros v Hv. apply Z.leb_le; auto.
Qed.

(* ---------------------------------------------------------------------------------------- *)
(* basic facts about the lexicographic order and uniqueness of the answer *)

Lemma lex_lt_irrefl x : ~ lex_lt x x.
Proof. induction x as [|a x IH]; cbn; [tauto|]. intros [H|[_ H]]; [lia|auto]. Qed.

Lemma lex_lt_trans x : forall y z, lex_lt x y -> lex_lt y z -> lex_lt x z.
Proof.
  induction x as [|a x IH]; intros [|b y] [|c z]; cbn; try tauto.
  intros [H1|[E1 H1]] [H2|[E2 H2]]; try (left; lia). right. split; [lia|]. eapply IH; eauto.
Qed.

Lemma lex_lt_asym x y : lex_lt x y -> lex_lt y x -> False.
Proof. intros H1 H2. apply (lex_lt_irrefl x). eapply lex_lt_trans; eauto. Qed.

Lemma lex_le_antisym x y : lex_le x y -> lex_le y x -> x = y.
Proof.
  intros [E|H1] [E'|H2]; auto. exfalso. eapply lex_lt_asym; eauto.
Qed.

Lemma lex_total x : forall y, length x = length y -> lex_lt x y \/ x = y \/ lex_lt y x.
Proof.
  induction x as [|a x IH]; intros [|b y] L; cbn in L; try discriminate.
  - right. left. reflexivity.
  - injection L as L. cbn. destruct (Z.lt_trichotomy a b) as [H|[H|H]].
    + left. left. exact H.
    + subst b. destruct (IH y L) as [H1|[H1|H1]].
      * left. right. auto.
      * right. left. now subst.
      * right. right. right. auto.
    + right. right. left. exact H.
Qed.

Theorem lexmin_unique_thm pb q x y : lexmin pb q x -> lexmin pb q y -> x = y.
Proof.
  intros [p [Fp [Ep Mp]]] [p' [Fp' [Ep' Mp']]]. subst x y.
  apply lex_le_antisym; auto.
Qed.

Theorem answer_exclusive pb q x : lexmin pb q x -> bottom pb q -> False.
Proof. intros [p [Fp _]] B. exact (B p Fp). Qed.

(* two answers for the same valuation coincide *)
Theorem answer_unique pb q r1 r2 : answer pb q r1 -> answer pb q r2 -> r1 = r2.
Proof.
  destruct r1 as [x|], r2 as [y|]; cbn; intros H1 H2.
  - f_equal. eapply lexmin_unique_thm; eauto.
  - exfalso. eapply answer_exclusive; eauto.
  - exfalso. eapply answer_exclusive; eauto.
  - reflexivity.
Qed.

(* feasible points for one valuation: comparing the full points lexicographically is the same as
   comparing their variable coordinates (the parameter positions coincide) *)
Lemma shape_length ip : forall q p, shape ip q p -> length p = length ip.
Proof.
  induction ip as [|b ip IH]; intros q p H.
  - destruct p; [reflexivity|]. cbn in H. destruct q; contradiction.
  - destruct b, q as [|q0 q], p as [|p0 p]; cbn in H; try contradiction;
      destruct H as [_ H]; cbn; f_equal; eapply IH; eauto.
Qed.

Lemma lex_lt_proj ip : forall q p p', shape ip q p -> shape ip q p' ->
  (lex_lt (proj ip p) (proj ip p') <-> lex_lt p p').
Proof.
  induction ip as [|b ip IH]; intros q p p' S S'.
  - destruct p, p'; cbn; tauto.
  - destruct b, q as [|q0 q], p as [|p0 p], p' as [|p0' p']; cbn in S, S'; try contradiction;
      destruct S as [S0 S], S' as [S0' S']; cbn [proj lex_lt].
    + subst. rewrite (IH q p p' S S'). split; [intros H; right; auto|intros [H|[_ H]]; [lia|auto]].
    + rewrite (IH q p p' S S'). tauto.
Qed.

Lemma proj_inj ip : forall q p p', shape ip q p -> shape ip q p' -> proj ip p = proj ip p' -> p = p'.
Proof.
  induction ip as [|b ip IH]; intros q p p' S S' E.
  - destruct p, p'; cbn in *; try tauto; destruct q; contradiction.
  - destruct b, q as [|q0 q], p as [|p0 p], p' as [|p0' p']; cbn in S, S'; try contradiction;
      destruct S as [S0 S], S' as [S0' S']; cbn [proj] in E.
    + subst. f_equal. eapply IH; eauto.
    + injection E as E0 E. subst. f_equal. eapply IH; eauto.
Qed.

Lemma lex_le_proj ip q p p' : shape ip q p -> shape ip q p' ->
  (lex_le (proj ip p) (proj ip p') <-> lex_le p p').
Proof.
  intros S S'. unfold lex_le. rewrite (lex_lt_proj ip q p p' S S'). split.
  - intros [E|H]; [left; eapply proj_inj; eauto|right; auto].
  - intros [E|H]; [left; now subst|right; auto].
Qed.

(* the full-point formulation used by the reference search *)
Definition lexmin_full (pb : problem) (q p : list Z) : Prop :=
  feasible pb q p /\ forall p', feasible pb q p' -> lex_le p p'.

Lemma lexmin_full_lexmin pb q p : lexmin_full pb q p -> lexmin pb q (proj (is_par pb) p).
Proof.
  intros [F M]. exists p. split; [exact F|]. split; [reflexivity|].
  intros p' F'. apply (lex_le_proj _ q); [apply F|apply F'|]. auto.
Qed.

(* ---------------------------------------------------------------------------------------- *)
(* what "the tree is right" means; [ev t q] is the evaluation of a tree (PipTree.eval_tree) *)

Definition right_at (pb : problem) (ev : list Z -> option (list Z)) (q : list Z) : Prop :=
  answer pb q (ev q).

(* without big parameter: for every valuation of the context;
   with big parameter at position b: for every valuation, for all sufficiently large values of
   the b-th entry (that keep the valuation in the context) *)
Fixpoint set_nth (n : nat) (v : Z) (l : list Z) : list Z :=
  match n, l with
  | _, [] => []
  | O, _ :: l' => v :: l'
  | S n', x :: l' => x :: set_nth n' v l'
  end.

Definition tree_right (pb : problem) (ev : list Z -> option (list Z)) : Prop :=
  match big pb with
  | None => forall q, context pb q -> right_at pb ev q
  | Some b => forall q, exists M0, forall M, M0 <= M ->
                context pb (set_nth b M q) -> right_at pb ev (set_nth b M q)
  end.
