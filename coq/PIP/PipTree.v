(* The solution tree of PIP_Problem exactly as the public node interface of
   src/PIP_Tree_defs.hh exposes it, and its "spanning" (PIP_Problem_defs.hh, "Spanning the solution
   tree"): for a parameter valuation, compute the artificial parameters of a node by integer
   division, evaluate the node's constraints, descend.

     PIP_Tree_Node::constraints()                 -> [cs]   (on parameters and artificials)
     art_parameter_begin()/end(), denominator()   -> [aps]
     PIP_Decision_Node::child_node(true/false)    -> [tc] / [fc]   (null pointer = [Bot])
     PIP_Solution_Node::parametric_values(v)      -> [vals], one expression per variable

   The environment is a full point (one integer per space dimension of the problem); the artificial
   parameters met on the path are appended to it, which is the numbering rule of the documentation
   (indices dim, dim+1, ... in order of definition along the path). *)
From Coq Require Import List ZArith Lia Bool.
Require Import PPLV.Base.Sys PPLV.PIP.PipSpec.
Import ListNotations.
Local Open Scope Z_scope.

Record lexpr := { lco : list Z; lk : Z }.
Definition levalz (e : lexpr) (env : list Z) : Z := dotz (lco e) env 0 + lk e.

Record artp := { anum : lexpr; aden : Z }.

Inductive tree :=
| Bot                                                              (* null pointer *)
| Sol (cs : list con) (aps : list artp) (vals : list lexpr)       (* PIP_Solution_Node *)
| Dec (cs : list con) (aps : list artp) (tc fc : tree).           (* PIP_Decision_Node *)

(* artificial parameters of one node, in order; each may use the earlier ones *)
Fixpoint add_arts (aps : list artp) (env : list Z) : list Z :=
  match aps with
  | [] => env
  | a :: aps' => add_arts aps' (env ++ [levalz (anum a) env / aden a])
  end.

Fixpoint eval_tree (t : tree) (env : list Z) : option (list Z) :=
  match t with
  | Bot => None
  | Sol cs aps vals =>
      let env' := add_arts aps env in
      if all_holdb cs env' then Some (map (fun e => levalz e env') vals) else None
  | Dec cs aps tc fc =>
      let env' := add_arts aps env in
      if all_holdb cs env' then eval_tree tc env' else eval_tree fc env'
  end.

(* ---------------------------------------------------------------------------------------- *)
(* The same as a relation that follows the documentation sentence by sentence: an artificial
   parameter is THE integer a with  den*a <= expr < den*a + den  (den > 0). *)

Definition is_floor (num den a : Z) : Prop := den * a <= num < den * a + den.

Inductive arts_rel : list artp -> list Z -> list Z -> Prop :=
| AR_nil env : arts_rel [] env env
| AR_cons a aps env v env' :
    is_floor (levalz (anum a) env) (aden a) v ->
    arts_rel aps (env ++ [v]) env' ->
    arts_rel (a :: aps) env env'.

Inductive spans : tree -> list Z -> option (list Z) -> Prop :=
| SP_bot env : spans Bot env None
| SP_sol_yes cs aps vals env env' :
    arts_rel aps env env' -> all_hold cs env' ->
    spans (Sol cs aps vals) env (Some (map (fun e => levalz e env') vals))
| SP_sol_no cs aps vals env env' :
    arts_rel aps env env' -> ~ all_hold cs env' ->
    spans (Sol cs aps vals) env None
| SP_dec_true cs aps tc fc env env' r :
    arts_rel aps env env' -> all_hold cs env' -> spans tc env' r ->
    spans (Dec cs aps tc fc) env r
| SP_dec_false cs aps tc fc env env' r :
    arts_rel aps env env' -> ~ all_hold cs env' -> spans fc env' r ->
    spans (Dec cs aps tc fc) env r.

(* well-formedness: denominators are positive (class Artificial_Parameter documents it) *)
Definition aps_ok (aps : list artp) : Prop := Forall (fun a => 0 < aden a) aps.
Fixpoint wf_tree (t : tree) : Prop :=
  match t with
  | Bot => True
  | Sol _ aps _ => aps_ok aps
  | Dec _ aps tc fc => aps_ok aps /\ wf_tree tc /\ wf_tree fc
  end.

Definition aps_okb (aps : list artp) : bool := forallb (fun a => 0 <? aden a) aps.
Fixpoint wf_treeb (t : tree) : bool :=
  match t with
  | Bot => true
  | Sol _ aps _ => aps_okb aps
  | Dec _ aps tc fc => aps_okb aps && wf_treeb tc && wf_treeb fc
  end.

Lemma aps_okb_spec aps : aps_okb aps = true <-> aps_ok aps.
Proof.
  unfold aps_okb, aps_ok. rewrite forallb_forall, Forall_forall.
  split; intros H a Ha; apply Z.ltb_lt; auto.
Qed.

Lemma wf_treeb_spec t : wf_treeb t = true <-> wf_tree t.
Proof.
  induction t as [|cs aps vals|cs aps tc IHt fc IHf]; cbn [wf_treeb wf_tree].
  - tauto.
  - apply aps_okb_spec.
  - rewrite !andb_true_iff, aps_okb_spec, IHt, IHf. tauto.
Qed.

Lemma is_floor_div num den : 0 < den -> is_floor num den (num / den).
Proof.
  intros H. unfold is_floor. pose proof (Z.mul_div_le num den H).
  pose proof (Z.mul_succ_div_gt num den H). lia.
Qed.

Lemma is_floor_unique num den a b : is_floor num den a -> is_floor num den b -> a = b.
Proof. unfold is_floor. intros H1 H2. nia. Qed.

Lemma arts_rel_add aps : forall env, aps_ok aps -> arts_rel aps env (add_arts aps env).
Proof.
  induction aps as [|a aps IH]; intros env H; cbn [add_arts].
  - constructor.
  - inversion H; subst. econstructor; [apply is_floor_div; assumption|]. apply IH. assumption.
Qed.

Lemma arts_rel_fun aps : forall env e1 e2, arts_rel aps env e1 -> arts_rel aps env e2 -> e1 = e2.
Proof.
  induction aps as [|a aps IH]; intros env e1 e2 H1 H2; inversion H1; inversion H2; subst.
  - reflexivity.
  - assert (v = v0) by (eapply is_floor_unique; eauto). subst v0. eapply IH; eauto.
Qed.

Lemma all_hold_dec cs p : {all_hold cs p} + {~ all_hold cs p}.
Proof.
  destruct (all_holdb cs p) eqn:E.
  - left. now apply all_holdb_spec.
  - right. intros H. apply all_holdb_spec in H. congruence.
Qed.

(* the executable evaluation is an instance of the documented spanning *)
Theorem eval_tree_spans t : forall env, wf_tree t -> spans t env (eval_tree t env).
Proof.
  induction t as [|cs aps vals|cs aps tc IHt fc IHf]; intros env W; cbn [eval_tree wf_tree] in *.
  - constructor.
  - destruct (all_holdb cs (add_arts aps env)) eqn:E.
    + eapply SP_sol_yes; [apply arts_rel_add; assumption|]. now apply all_holdb_spec.
    + eapply SP_sol_no; [apply arts_rel_add; assumption|]. intros H. apply all_holdb_spec in H. congruence.
  - destruct W as [Wa [Wt Wf]]. destruct (all_holdb cs (add_arts aps env)) eqn:E.
    + eapply SP_dec_true; [apply arts_rel_add; assumption| |apply IHt; assumption]. now apply all_holdb_spec.
    + eapply SP_dec_false; [apply arts_rel_add; assumption| |apply IHf; assumption].
      intros H. apply all_holdb_spec in H. congruence.
Qed.

(* spanning is total on well-formed trees ... *)
Theorem spans_total t env : wf_tree t -> exists r, spans t env r.
Proof. intros W. exists (eval_tree t env). now apply eval_tree_spans. Qed.

(* ... and deterministic on all trees *)
Theorem spans_deterministic t : forall env r1 r2, spans t env r1 -> spans t env r2 -> r1 = r2.
Proof.
  induction t as [|cs aps vals|cs aps tc IHt fc IHf]; intros env r1 r2 H1 H2;
    inversion H1; subst; inversion H2; subst; try reflexivity;
    match goal with
    | A : arts_rel ?aps ?env ?e1, B : arts_rel ?aps ?env ?e2 |- _ =>
        pose proof (arts_rel_fun _ _ _ _ A B); subst
    end; try contradiction; try reflexivity; eauto.
Qed.

Corollary spans_eval t env r : wf_tree t -> spans t env r -> r = eval_tree t env.
Proof. intros W H. eapply spans_deterministic; eauto. now apply eval_tree_spans. Qed.

(* ---------------------------------------------------------------------------------------- *)
(* The full statement of the property for a solver (a function from problems to trees): every
   tree it returns is well formed and right for every valuation of the context.  Proving it for
   PIP_Problem::solve would need a model of Feautrier's parametric dual simplex with cuts
   (PIP_Solution_Node::solve); that is NOT attempted.  This definition is only the statement; no
   theorem in this development asserts it, and the correspondence check refutes it for the real
   library on concrete inputs (known findings of C07). *)
Definition pip_full (solver : problem -> tree) : Prop :=
  forall pb, wf_tree (solver pb) /\ tree_right pb (eval_tree (solver pb)).

(* the hypotheses are satisfiable: the example tree of PIP_Problem_defs.hh
     if 7*n >= 10 then  if 7*m >= 12 then {2 ; 2}
                        else Parameter P = m div 2;  if 2*n + 3*m >= 8 then {-m - P + 4 ; m} else _|_
     else _|_
   (dimensions i, j, n, m; the library prints the tests after integral simplification) *)
Definition doc_tree : tree :=
  Dec [ {| ccoefs := [0; 0; 1; 0]; ccst := -2; ckd := GE |} ] []
      (Dec [ {| ccoefs := [0; 0; 0; 1]; ccst := -2; ckd := GE |} ] []
           (Sol [] [] [ {| lco := []; lk := 2 |}; {| lco := []; lk := 2 |} ])
           (Sol [ {| ccoefs := [0; 0; 2; 3]; ccst := -8; ckd := GE |} ]
                [ {| anum := {| lco := [0; 0; 0; 1]; lk := 0 |}; aden := 2 |} ]
                [ {| lco := [0; 0; 0; -1; -1]; lk := 4 |}; {| lco := [0; 0; 0; 1]; lk := 0 |} ]))
      Bot.

Example doc_tree_wf : wf_tree doc_tree.
Proof. cbn. repeat split; repeat constructor. Qed.

Example doc_tree_eval :
  eval_tree doc_tree [0; 0; 3; 1] = Some [3; 1] /\ eval_tree doc_tree [0; 0; 5; 7] = Some [2; 2] /\
  eval_tree doc_tree [0; 0; 1; 9] = None /\ eval_tree doc_tree [0; 0; 2; 1] = None.
Proof. vm_compute. repeat split. Qed.
