(* Reference answer for ONE parameter valuation: a search, coordinate by coordinate in index
   order (minimise the first variable, fix it, minimise the next one, ...), proved against
   PipSpec.  There is no a-priori search box: every time the search gives up on a range of values
   it does so because the verified rational oracle (Base/Sys.v, Fourier-Motzkin) has shown that
   the rational relaxation has no point there.  When the oracle cannot exclude a range and the
   step budget is exhausted, the result is [Unknown], which is never an answer.

     Found p   : p is the lexicographically smallest integral non-negative feasible point
     NoPoint   : there is no integral non-negative feasible point
     Unknown   : budget exhausted / malformed input *)
From Coq Require Import List ZArith QArith Lia Bool.
Require Import PPLV.Base.FM PPLV.Base.Sys PPLV.PIP.PipSpec.
Import ListNotations.
Local Open Scope Z_scope.

Inductive res := Found (p : list Z) | NoPoint | Unknown.

(* ---------------------------------------------------------------------------------------- *)
(* integer points as rational points; the oracle *)

Definition zpoint (p : list Z) : point := fun i => inject_Z (nth i p 0).

Lemma dot_zpoint a : forall p i, (dot a (zpoint p) i == inject_Z (dotz a p i))%Q.
Proof.
  induction a as [|a0 a IH]; intros p i; cbn [dot dotz].
  - reflexivity.
  - rewrite IH. unfold zpoint at 1. rewrite inject_Z_plus, inject_Z_mult. reflexivity.
Qed.

Lemma holds_sat_con c p : holds c p -> sat_con c (zpoint p).
Proof.
  unfold holds, sat_con, ceval, evalz. intros H.
  assert (E : (dot (ccoefs c) (zpoint p) 0 + inject_Z (ccst c) == inject_Z (dotz (ccoefs c) p 0 + ccst c))%Q).
  { rewrite dot_zpoint, inject_Z_plus. reflexivity. }
  destruct (ckd c); rewrite E.
  - rewrite H. reflexivity.
  - change 0%Q with (inject_Z 0). now rewrite <- Zle_Qle.
  - change 0%Q with (inject_Z 0). now rewrite <- Zlt_Qlt.
Qed.

Definition relax_empty (n : nat) (sys : list con) : bool :=
  match nonempty_cons n sys with Some false => true | _ => false end.

Lemma relax_empty_sound n sys : relax_empty n sys = true -> forall p, all_hold sys p -> False.
Proof.
  unfold relax_empty. destruct (nonempty_cons n sys) as [[|]|] eqn:E; try discriminate. intros _ p H.
  pose proof (nonempty_cons_exact _ _ _ E) as X.
  assert (false = true); [|discriminate]. apply X. exists (zpoint p).
  intros c Hc. apply holds_sat_con. unfold all_hold in H. rewrite Forall_forall in H. auto.
Qed.

(* ---------------------------------------------------------------------------------------- *)
(* constraints on a single coordinate *)

Definition fix_con (k : nat) (v : Z) : con := {| ccoefs := repeat 0 k ++ [1]; ccst := - v; ckd := EQ |}.
Definition ge_con (k : nat) (v : Z) : con := {| ccoefs := repeat 0 k ++ [1]; ccst := - v; ckd := GE |}.
Definition le_con (k : nat) (v : Z) : con := {| ccoefs := repeat 0 k ++ [-1]; ccst := v; ckd := GE |}.

Lemma dotz_unit k : forall c p i, dotz (repeat 0 k ++ [c]) p i = c * nth (i + k) p 0.
Proof.
  induction k as [|k IH]; intros c p i; cbn [repeat app dotz].
  - rewrite Nat.add_0_r. lia.
  - rewrite IH. replace (S i + k)%nat with (i + S k)%nat by lia. lia.
Qed.

Lemma fix_con_holds k v p : holds (fix_con k v) p <-> nth k p 0 = v.
Proof. unfold holds, fix_con, evalz; cbn [ckd ccoefs ccst]. rewrite dotz_unit. cbn [Nat.add]. lia. Qed.
Lemma ge_con_holds k v p : holds (ge_con k v) p <-> v <= nth k p 0.
Proof. unfold holds, ge_con, evalz; cbn [ckd ccoefs ccst]. rewrite dotz_unit. cbn [Nat.add]. lia. Qed.
Lemma le_con_holds k v p : holds (le_con k v) p <-> nth k p 0 <= v.
Proof. unfold holds, le_con, evalz; cbn [ckd ccoefs ccst]. rewrite dotz_unit. cbn [Nat.add]. lia. Qed.

(* the coordinates already decided, and what is known of the others *)
Fixpoint pre_cons (k : nat) (pre : list Z) : list con :=
  match pre with [] => [] | v :: pre' => fix_con k v :: pre_cons (S k) pre' end.

Fixpoint rest_cons (k : nat) (ip : list bool) (q : list Z) : list con :=
  match ip, q with
  | true :: ip', q0 :: q' => fix_con k q0 :: rest_cons (S k) ip' q'
  | false :: ip', _ :: q' => ge_con k 0 :: rest_cons (S k) ip' q'
  | _, _ => []
  end.

Lemma pre_cons_hold pre : forall front s, all_hold (pre_cons (length front) pre) (front ++ pre ++ s).
Proof.
  induction pre as [|v pre IH]; intros front s; cbn [pre_cons].
  - constructor.
  - constructor.
    + apply fix_con_holds. cbn [app]. apply nth_middle.
    + specialize (IH (front ++ [v]) s). rewrite app_length in IH. cbn [length] in IH.
      rewrite Nat.add_1_r in IH. rewrite <- app_assoc in IH. exact IH.
Qed.

Lemma rest_cons_hold ip : forall q front s, shape ip q s -> all_hold (rest_cons (length front) ip q) (front ++ s).
Proof.
  induction ip as [|b ip IH]; intros q front s H.
  - constructor.
  - destruct b, q as [|q0 q], s as [|s0 s]; cbn in H; try contradiction; destruct H as [H0 H];
      cbn [rest_cons]; (constructor;
      [|specialize (IH q (front ++ [s0]) s H); rewrite app_length in IH; cbn [length] in IH;
        rewrite Nat.add_1_r in IH; rewrite <- app_assoc in IH; exact IH]).
    + apply fix_con_holds. rewrite nth_middle. exact H0.
    + apply ge_con_holds. rewrite nth_middle. exact H0.
Qed.

(* ---------------------------------------------------------------------------------------- *)
(* the two one-dimensional loops, generic in the set F of candidate points and the coordinate xk *)

(* advance a certified lower bound: first by doubling steps, then by halving steps *)
Fixpoint adv (fuel : nat) (grow : bool) (lo step : Z) (inf_le : Z -> bool) : Z :=
  match fuel with
  | O => lo
  | S f =>
      if step <? 1 then lo
      else if inf_le (lo + step - 1)
           then adv f grow (lo + step) (if grow then 2 * step else step / 2) inf_le
           else adv f false lo (step / 2) inf_le
  end.

(* try v, v+1, ... ; stop with NoPoint as soon as nothing lies at or beyond the current value *)
Fixpoint scan (w : nat) (v : Z) (try : Z -> res) (beyond : Z -> bool) : res :=
  if beyond v then NoPoint
  else match w with
       | O => Unknown
       | S w' => match try v with
                 | Found p => Found p
                 | NoPoint => scan w' (v + 1) try beyond
                 | Unknown => Unknown
                 end
       end.

Section Loops.
  Variable F : list Z -> Prop.
  Variable xk : list Z -> Z.

  Lemma adv_sound inf_le :
    (forall m, inf_le m = true -> forall p, F p -> m < xk p) ->
    forall fuel grow lo step, (forall p, F p -> lo <= xk p) ->
    forall p, F p -> adv fuel grow lo step inf_le <= xk p.
  Proof.
    intros Hle. induction fuel as [|f IH]; intros grow lo step Hlo p Fp; cbn [adv].
    - auto.
    - destruct (step <? 1); [auto|]. destruct (inf_le (lo + step - 1)) eqn:E.
      + apply IH; [|exact Fp]. intros p' Fp'. pose proof (Hle _ E p' Fp'). lia.
      + apply IH; auto.
  Qed.

  Lemma scan_sound try beyond :
    (forall v, beyond v = true -> forall p, F p -> xk p < v) ->
    (forall v, 0 <= v ->
       (forall p, try v = Found p -> F p /\ xk p = v /\ forall p', F p' -> xk p' = v -> lex_le p p') /\
       (try v = NoPoint -> forall p', F p' -> xk p' <> v)) ->
    (forall p p', F p -> F p' -> xk p < xk p' -> lex_lt p p') ->
    forall w v, 0 <= v -> (forall p, F p -> v <= xk p) ->
      (forall p, scan w v try beyond = Found p -> F p /\ forall p', F p' -> lex_le p p') /\
      (scan w v try beyond = NoPoint -> forall p', ~ F p').
  Proof.
    intros Hbey Htry Hlex. induction w as [|w IH]; intros v Hv Hlo; cbn [scan].
    - destruct (beyond v) eqn:B.
      + split; [discriminate|]. intros _ p' Fp'. pose proof (Hbey _ B p' Fp'). pose proof (Hlo p' Fp'). lia.
      + split; discriminate.
    - destruct (beyond v) eqn:B.
      + split; [discriminate|]. intros _ p' Fp'. pose proof (Hbey _ B p' Fp'). pose proof (Hlo p' Fp'). lia.
      + destruct (Htry v Hv) as [T1 T2]. destruct (try v) as [p0| |] eqn:T.
        * split; [|discriminate]. intros p [= <-]. destruct (T1 p0 eq_refl) as [Fp0 [X0 M0]].
          split; [exact Fp0|]. intros p' Fp'. pose proof (Hlo p' Fp') as L.
          destruct (Z.eq_dec (xk p') v) as [E|NE].
          -- apply M0; auto.
          -- right. apply Hlex; auto. lia.
        * apply IH; [lia|]. intros p' Fp'. pose proof (Hlo p' Fp'). pose proof (T2 eq_refl p' Fp'). lia.
        * split; discriminate.
  Qed.
End Loops.

(* ---------------------------------------------------------------------------------------- *)
(* the search *)

Section Search.
  Variable cs : list con.     (* the problem constraints *)
  Variable n : nat.           (* the space dimension *)

  Fixpoint search (fuel : nat) (ip : list bool) (q : list Z) (pre : list Z) : res :=
    match ip, q with
    | [], _ => if all_holdb cs pre then Found pre else NoPoint
    | true :: ip', q0 :: q' => search fuel ip' q' (pre ++ [q0])
    | false :: ip', _ :: q' =>
        let k := length pre in
        let base := cs ++ pre_cons 0 pre ++ rest_cons k ip q in
        if relax_empty n base then NoPoint
        else
          let lo := adv fuel true 0 1 (fun m => relax_empty n (le_con k m :: base)) in
          scan fuel (Z.max 0 lo)
               (fun v => search fuel ip' q' (pre ++ [v]))
               (fun v => relax_empty n (ge_con k v :: base))
    | _ :: _, [] => Unknown
    end.

  (* candidate points: extend the decided prefix by a suffix of the right shape *)
  Definition feas_from (pre : list Z) (ip : list bool) (q : list Z) (p : list Z) : Prop :=
    exists s, p = pre ++ s /\ shape ip q s /\ all_hold cs p.

  Lemma base_hold pre ip q p :
    feas_from pre ip q p -> all_hold (cs ++ pre_cons 0 pre ++ rest_cons (length pre) ip q) p.
  Proof.
    intros [s [-> [S H]]]. unfold all_hold. rewrite !Forall_app. split; [exact H|]. split.
    - apply (pre_cons_hold pre [] s).
    - apply rest_cons_hold. exact S.
  Qed.

  Lemma feas_from_nil pre q p : feas_from pre [] q p <-> p = pre /\ all_hold cs pre.
  Proof.
    unfold feas_from. split.
    - intros [s [-> [S H]]]. destruct s; [|cbn in S; destruct q; contradiction].
      rewrite app_nil_r in *. auto.
    - intros [-> H]. exists []. rewrite app_nil_r. cbn. auto.
  Qed.

  Lemma feas_from_par pre ip q0 q p :
    feas_from pre (true :: ip) (q0 :: q) p <-> feas_from (pre ++ [q0]) ip q p.
  Proof.
    unfold feas_from. split.
    - intros [s [-> [S H]]]. destruct s as [|s0 s]; cbn in S; [contradiction|]. destruct S as [-> S].
      exists s. rewrite <- app_assoc. cbn. auto.
    - intros [s [-> [S H]]]. exists (q0 :: s). rewrite <- app_assoc in *. cbn. auto.
  Qed.

  Lemma feas_from_var pre ip q0 q p :
    feas_from pre (false :: ip) (q0 :: q) p <->
    exists v, 0 <= v /\ nth (length pre) p 0 = v /\ feas_from (pre ++ [v]) ip q p.
  Proof.
    unfold feas_from. split.
    - intros [s [-> [S H]]]. destruct s as [|s0 s]; cbn in S; [contradiction|]. destruct S as [S0 S].
      exists s0. split; [exact S0|]. split; [apply nth_middle|].
      exists s. rewrite <- app_assoc. cbn. auto.
    - intros [v [Hv [_ [s [-> [S H]]]]]]. exists (v :: s). rewrite <- app_assoc in *. cbn. auto.
  Qed.

  Lemma lex_lt_app pre : forall a s b s', a < b -> lex_lt (pre ++ a :: s) (pre ++ b :: s').
  Proof.
    induction pre as [|x pre IH]; intros a s b s' H; cbn.
    - left. exact H.
    - right. split; [reflexivity|]. apply IH. exact H.
  Qed.

  Theorem search_sound fuel ip : forall q pre,
    (forall p, search fuel ip q pre = Found p ->
       feas_from pre ip q p /\ forall p', feas_from pre ip q p' -> lex_le p p') /\
    (search fuel ip q pre = NoPoint -> forall p', ~ feas_from pre ip q p').
  Proof.
    induction ip as [|b ip IH]; intros q pre.
    - cbn [search]. destruct (all_holdb cs pre) eqn:E.
      + split; [|discriminate]. intros p [= <-]. apply all_holdb_spec in E. split.
        * apply feas_from_nil. auto.
        * intros p' Hp'. apply feas_from_nil in Hp'. left. symmetry. apply Hp'.
      + split; [discriminate|]. intros _ p' Hp'. apply feas_from_nil in Hp'. destruct Hp' as [_ H].
        apply all_holdb_spec in H. congruence.
    - destruct q as [|q0 q].
      + destruct b; cbn [search]; split; discriminate.
      + destruct b.
        * cbn [search]. destruct (IH q (pre ++ [q0])) as [I1 I2]. split.
          -- intros p Hp. destruct (I1 p Hp) as [A B]. split; [now apply feas_from_par|].
             intros p' Hp'. apply B. now apply feas_from_par.
          -- intros Hn p' Hp'. apply (I2 Hn p'). now apply feas_from_par.
        * cbn [search].
          set (k := length pre).
          set (base := cs ++ pre_cons 0 pre ++ rest_cons k (false :: ip) (q0 :: q)).
          set (F := feas_from pre (false :: ip) (q0 :: q)).
          set (xk := fun p : list Z => nth k p 0).
          assert (Hbase : forall p, F p -> all_hold base p) by (intros p Hp; now apply base_hold).
          destruct (relax_empty n base) eqn:RE.
          { split; [discriminate|]. intros _ p' Hp'. exact (relax_empty_sound _ _ RE p' (Hbase p' Hp')). }
          assert (Hle : forall m, relax_empty n (le_con k m :: base) = true -> forall p, F p -> m < xk p).
          { intros m Hm p Fp. destruct (Z_lt_le_dec m (xk p)) as [L|L]; [exact L|]. exfalso.
            apply (relax_empty_sound _ _ Hm p). constructor; [now apply le_con_holds|now apply Hbase]. }
          assert (Hge : forall v, relax_empty n (ge_con k v :: base) = true -> forall p, F p -> xk p < v).
          { intros v Hv p Fp. destruct (Z_lt_le_dec (xk p) v) as [L|L]; [exact L|]. exfalso.
            apply (relax_empty_sound _ _ Hv p). constructor; [now apply ge_con_holds|now apply Hbase]. }
          assert (H0 : forall p, F p -> 0 <= xk p).
          { intros p Fp. apply feas_from_var in Fp. destruct Fp as [v [Hv [E _]]]. unfold xk, k. lia. }
          set (lo := adv fuel true 0 1 (fun m => relax_empty n (le_con k m :: base))).
          assert (Hlo : forall p, F p -> Z.max 0 lo <= xk p).
          { intros p Fp. pose proof (adv_sound F xk _ Hle fuel true 0 1 H0 p Fp). pose proof (H0 p Fp).
            fold lo in H. lia. }
          apply (scan_sound F xk); auto.
          -- intros v Hv. destruct (IH q (pre ++ [v])) as [I1 I2]. split.
             ++ intros p Hp. destruct (I1 p Hp) as [A B].
                assert (Fp : F p /\ xk p = v).
                { destruct A as [s [-> [S H]]]. split.
                  - apply feas_from_var. exists v. split; [exact Hv|]. split.
                    + rewrite <- app_assoc. apply nth_middle.
                    + exists s. auto.
                  - unfold xk, k. rewrite <- app_assoc. apply nth_middle. }
                destruct Fp as [Fp Xp]. split; [exact Fp|]. split; [exact Xp|].
                intros p' Fp' Xp'. apply B. apply feas_from_var in Fp'.
                destruct Fp' as [v' [_ [E' G']]]. unfold xk, k in Xp'. rewrite Xp' in E'. now subst v'.
             ++ intros Hn p' Fp' Xp'. apply feas_from_var in Fp'. destruct Fp' as [v' [_ [E' G']]].
                unfold xk, k in Xp'. rewrite Xp' in E'. subst v'. exact (I2 Hn p' G').
          -- intros p p' Fp Fp' L. apply feas_from_var in Fp. apply feas_from_var in Fp'.
             destruct Fp as [v [_ [E [s [-> _]]]]]. destruct Fp' as [v' [_ [E' [s' [-> _]]]]].
             unfold xk, k in L. rewrite E, E' in L. rewrite <- !app_assoc. cbn [app].
             now apply lex_lt_app.
          -- lia.
  Qed.
End Search.

(* ---------------------------------------------------------------------------------------- *)
(* the reference for a problem and a valuation *)

Definition lexmin_ref (fuel : nat) (pb : problem) (q : list Z) : res :=
  search (cons pb) (dim pb) fuel (is_par pb) q [].

Lemma feas_from_top pb q p : feas_from (cons pb) [] (is_par pb) q p <-> feasible pb q p.
Proof.
  unfold feas_from, feasible. split.
  - intros [s [-> [S H]]]. cbn [app] in *. auto.
  - intros [S H]. exists p. cbn [app]. auto.
Qed.

Theorem lexmin_ref_found fuel pb q p :
  lexmin_ref fuel pb q = Found p -> lexmin_full pb q p.
Proof.
  unfold lexmin_ref. intros H.
  destruct (search_sound (cons pb) (dim pb) fuel (is_par pb) q []) as [S1 _].
  destruct (S1 p H) as [A B]. split.
  - now apply feas_from_top.
  - intros p' Fp'. apply B. now apply feas_from_top.
Qed.

Theorem lexmin_ref_nopoint fuel pb q :
  lexmin_ref fuel pb q = NoPoint -> bottom pb q.
Proof.
  unfold lexmin_ref. intros H p Fp.
  destruct (search_sound (cons pb) (dim pb) fuel (is_par pb) q []) as [_ S2].
  apply (S2 H p). now apply feas_from_top.
Qed.

(* the answer of the reference as an [option] (only meaningful when it is not Unknown) *)
Definition res_answer (ip : list bool) (r : res) : option (option (list Z)) :=
  match r with Found p => Some (Some (proj ip p)) | NoPoint => Some None | Unknown => None end.

Theorem lexmin_ref_answer fuel pb q a :
  res_answer (is_par pb) (lexmin_ref fuel pb q) = Some a -> answer pb q a.
Proof.
  destruct (lexmin_ref fuel pb q) as [p| |] eqn:E; cbn; intros [= <-]; cbn.
  - apply lexmin_full_lexmin. eapply lexmin_ref_found; eauto.
  - eapply lexmin_ref_nopoint; eauto.
Qed.

Theorem lexmin_ref_exact_thm fuel pb q :
  (forall p, lexmin_ref fuel pb q = Found p -> lexmin pb q (proj (is_par pb) p)) /\
  (lexmin_ref fuel pb q = NoPoint -> bottom pb q).
Proof.
  split.
  - intros p H. apply lexmin_full_lexmin. eapply lexmin_ref_found; eauto.
  - apply lexmin_ref_nopoint.
Qed.

(* the hypotheses are satisfiable and both outcomes occur:  x + y >= 3, 2y <= p  at p = 3 gives
   (2,1);  2x = 1 has no integral point;  x - y = 0 ... *)
Example ref_ex1 :
  lexmin_ref 20 {| is_par := [false; false; true];
                   cons := [ {| ccoefs := [1; 1; 0]; ccst := -3; ckd := GE |};
                             {| ccoefs := [0; -2; 1]; ccst := 0; ckd := GE |} ];
                   big := None |} [0; 0; 3] = Found [2; 1; 3].
Proof. vm_compute. reflexivity. Qed.

Example ref_ex2 :
  lexmin_ref 20 {| is_par := [false]; cons := [ {| ccoefs := [2]; ccst := -1; ckd := EQ |} ]; big := None |} [0] = NoPoint.
Proof. vm_compute. reflexivity. Qed.

(* unbounded relaxation without integral point: the search says Unknown, not NoPoint *)
Example ref_ex3 :
  lexmin_ref 6 {| is_par := [false; false]; cons := [ {| ccoefs := [2; -2]; ccst := -1; ckd := EQ |} ]; big := None |} [0; 0] = Unknown.
Proof. vm_compute. reflexivity. Qed.

(* a large value is reached by the doubling steps, not by counting *)
Example ref_ex4 :
  lexmin_ref 40 {| is_par := [false; true]; cons := [ {| ccoefs := [1; -1]; ccst := 7; ckd := GE |} ]; big := Some 1%nat |} [0; 1000000]
  = Found [999993; 1000000].
Proof. vm_compute. reflexivity. Qed.
