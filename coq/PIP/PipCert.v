(* A per-problem checker for ALL parameter valuations: [tree_cert_b pb t = true] implies that the
   tree t gives the specified answer for every valuation of the context (theorem tree_cert_sound).
   For every root-to-leaf path, the path condition is a conjunction of linear constraints on the
   parameters and on the artificial parameters met so far (an artificial parameter a = floor(e/d)
   is constrained by  d*a <= e <= d*a + d - 1), and the checker asks the verified rational oracle
   (Base/Sys.v through PipRef.relax_empty) for
     (F) solution leaf: every problem constraint and the non-negativity of every variable, evaluated
         at the leaf's parametric point, are implied by the path;
     (M) solution leaf: for every coordinate j, "path, y feasible, y_i = x_i for i < j, y_j <= x_j - 1"
         has no solution  (so no feasible point is lexicographically smaller);
     (B) bottom (null child, or a solution node whose constraints fail): "path, y feasible" has no solution.
   The rational relaxation is sound for all three (an integral counter-example is a rational one); when
   integrality is essential the checker answers false, which only means "not certified".

   Layout of the rational points: the competitor's variable values y (one per problem variable), then
   the valuation q (one entry per space dimension), then the artificial parameters of the path. *)
From Coq Require Import List ZArith Lia Bool.
Require Import PPLV.Base.Sys PPLV.PIP.PipSpec PPLV.PIP.PipTree PPLV.PIP.PipRef.
Import ListNotations.
Local Open Scope Z_scope.

(* ---------------------------------------------------------------------------------------- *)
(* a structural dot product, equal to dotz at offset 0 *)

Fixpoint zdot (a p : list Z) : Z :=
  match a, p with
  | a0 :: a', p0 :: p' => a0 * p0 + zdot a' p'
  | _, _ => 0
  end.

Lemma dotz_nil a : forall i, dotz a [] i = 0.
Proof. induction a as [|a0 a IH]; intros i; cbn [dotz]; [reflexivity|]. rewrite IH. destruct i; cbn; lia. Qed.

Lemma dotz_cons a : forall p0 p i, dotz a (p0 :: p) (S i) = dotz a p i.
Proof. induction a as [|a0 a IH]; intros p0 p i; cbn [dotz]; [reflexivity|]. rewrite IH. reflexivity. Qed.

Lemma dotz_zdot a : forall p, dotz a p 0 = zdot a p.
Proof.
  induction a as [|a0 a IH]; intros p; [reflexivity|]. destruct p as [|p0 p].
  - rewrite dotz_nil. reflexivity.
  - cbn [dotz zdot nth]. rewrite dotz_cons, IH. reflexivity.
Qed.

Lemma evalz_zdot c p : evalz c p = zdot (ccoefs c) p + ccst c.
Proof. unfold evalz. now rewrite dotz_zdot. Qed.

Lemma zdot_app a1 : forall p1 a2 p2, length a1 = length p1 -> zdot (a1 ++ a2) (p1 ++ p2) = zdot a1 p1 + zdot a2 p2.
Proof.
  induction a1 as [|x a1 IH]; intros [|y p1] a2 p2 L; cbn in L; try discriminate; cbn [app zdot].
  - lia.
  - rewrite IH by lia. lia.
Qed.

Lemma zdot_zeros k : forall p, zdot (repeat 0 k) p = 0.
Proof. induction k as [|k IH]; intros [|p0 p]; cbn [repeat zdot]; try reflexivity. rewrite IH. lia. Qed.

Lemma zdot_short a : forall p r, (length a <= length p)%nat -> zdot a (p ++ r) = zdot a p.
Proof.
  induction a as [|x a IH]; intros p r L; [reflexivity|].
  destruct p as [|y p]; [cbn in L; lia|]. cbn [app zdot]. rewrite IH by (cbn in L; lia). reflexivity.
Qed.

Lemma zdot_trail a : forall p m, zdot (a ++ repeat 0 m) p = zdot a p.
Proof.
  induction a as [|x a IH]; intros p m; cbn [app].
  - rewrite zdot_zeros. destruct p; reflexivity.
  - destruct p as [|y p]; cbn [zdot]; [reflexivity|]. rewrite IH. reflexivity.
Qed.

Lemma zdot_opp a : forall p, zdot (map Z.opp a) p = - zdot a p.
Proof. induction a as [|x a IH]; intros [|y p]; cbn [map zdot]; try lia. rewrite IH. lia. Qed.

Lemma zdot_unit k c : forall p, zdot (repeat 0 k ++ [c]) p = c * nth k p 0.
Proof.
  induction k as [|k IH]; intros p; cbn [repeat app].
  - destruct p as [|y p]; cbn [zdot nth]; [lia|]. replace (zdot [] p) with 0 by (destruct p; reflexivity). lia.
  - destruct p as [|y p]; cbn [zdot nth]; [lia|]. rewrite IH. lia.
Qed.

(* ---------------------------------------------------------------------------------------- *)
(* integer negation of a constraint: a list of alternatives *)

Definition negs (c : con) : list con :=
  match ckd c with
  | GE => [ {| ccoefs := map Z.opp (ccoefs c); ccst := - ccst c - 1; ckd := GE |} ]
  | GT => [ {| ccoefs := map Z.opp (ccoefs c); ccst := - ccst c; ckd := GE |} ]
  | EQ => [ {| ccoefs := ccoefs c; ccst := ccst c - 1; ckd := GE |};
            {| ccoefs := map Z.opp (ccoefs c); ccst := - ccst c - 1; ckd := GE |} ]
  end.

Lemma negs_spec c p : ~ holds c p -> exists n, In n (negs c) /\ holds n p.
Proof.
  unfold holds, negs. rewrite evalz_zdot. destruct (ckd c) eqn:K; intros H.
  - destruct (Z_lt_le_dec 0 (zdot (ccoefs c) p + ccst c)).
    + eexists. split; [left; reflexivity|]. unfold holds; cbn [ckd]. rewrite evalz_zdot; cbn [ccoefs ccst]. lia.
    + eexists. split; [right; left; reflexivity|]. unfold holds; cbn [ckd]. rewrite evalz_zdot; cbn [ccoefs ccst].
      rewrite zdot_opp. lia.
  - eexists. split; [left; reflexivity|]. unfold holds; cbn [ckd]. rewrite evalz_zdot; cbn [ccoefs ccst].
    rewrite zdot_opp. lia.
  - eexists. split; [left; reflexivity|]. unfold holds; cbn [ckd]. rewrite evalz_zdot; cbn [ccoefs ccst].
    rewrite zdot_opp. lia.
Qed.

Lemma negs_len c n0 n : In n (negs c) -> (length (ccoefs c) <= n0)%nat -> (length (ccoefs n) <= n0)%nat.
Proof.
  unfold negs. destruct (ckd c); cbn [In]; intros H L;
    repeat (destruct H as [<-|H]; [cbn [ccoefs]; rewrite ?map_length; exact L|]); contradiction.
Qed.

(* ---------------------------------------------------------------------------------------- *)
(* variables of a full point *)

Definition nvars (ip : list bool) : nat := length (filter negb ip).

Lemma proj_length ip : forall q p, shape ip q p -> length (proj ip p) = nvars ip.
Proof.
  induction ip as [|b ip IH]; intros q p H.
  - destruct p; [reflexivity|]. cbn in H. destruct q; contradiction.
  - destruct b, q as [|q0 q], p as [|p0 p]; cbn in H; try contradiction; destruct H as [_ H];
      unfold nvars; cbn [proj filter negb length]; fold (nvars ip); rewrite ?(IH q p H); reflexivity.
Qed.

Lemma proj_nonneg ip : forall q p, shape ip q p -> Forall (fun v => 0 <= v) (proj ip p).
Proof.
  induction ip as [|b ip IH]; intros q p H.
  - destruct p; constructor.
  - destruct b, q as [|q0 q], p as [|p0 p]; cbn in H; try contradiction; destruct H as [H0 H]; cbn [proj].
    + eapply IH; eauto.
    + constructor; [exact H0|eapply IH; eauto].
Qed.

(* put the variable values x into the variable positions of q *)
Fixpoint fill (ip : list bool) (q x : list Z) : list Z :=
  match ip, q with
  | [], _ => []
  | true :: ip', q0 :: q' => q0 :: fill ip' q' x
  | false :: ip', _ :: q' => match x with x0 :: x' => x0 :: fill ip' q' x' | [] => 0 :: fill ip' q' [] end
  | _ :: _, [] => []
  end.

Lemma fill_shape ip : forall q x, length q = length ip -> length x = nvars ip -> Forall (fun v => 0 <= v) x ->
  shape ip q (fill ip q x) /\ proj ip (fill ip q x) = x.
Proof.
  induction ip as [|b ip IH]; intros q x Lq Lx Hx.
  - destruct x; [|cbn in Lx; discriminate]. cbn. auto.
  - destruct q as [|q0 q]; [cbn in Lq; discriminate|]. cbn in Lq. destruct b.
    + unfold nvars in Lx; cbn [filter negb] in Lx. destruct (IH q x ltac:(lia) Lx Hx) as [A B].
      cbn [fill shape proj]. auto.
    + unfold nvars in Lx; cbn [filter negb length] in Lx. destruct x as [|x0 x]; [cbn in Lx; discriminate|].
      inversion Hx; subst. assert (Lx' : length x = nvars ip) by (unfold nvars; cbn in Lx; lia).
      destruct (IH q x ltac:(lia) Lx' H2) as [A B].
      cbn [fill shape proj]. split; [auto|]. now rewrite B.
Qed.

(* splitting the coefficients of a problem constraint into the variable part and the rest *)
Fixpoint ypart (ip : list bool) (a : list Z) : list Z :=
  match ip, a with
  | b :: ip', a0 :: a' => if b then ypart ip' a' else a0 :: ypart ip' a'
  | _, _ => []
  end.
Fixpoint epart (ip : list bool) (a : list Z) : list Z :=
  match ip, a with
  | b :: ip', a0 :: a' => (if b then a0 else 0) :: epart ip' a'
  | _, _ => []
  end.

Lemma ypart_length ip : forall a, length a = length ip -> length (ypart ip a) = nvars ip.
Proof.
  induction ip as [|b ip IH]; intros [|a0 a] L; cbn in L; try discriminate; [reflexivity|].
  unfold nvars. destruct b; cbn [ypart filter negb length]; fold (nvars ip); rewrite IH by lia; reflexivity.
Qed.

Lemma epart_length ip : forall a, length a = length ip -> length (epart ip a) = length ip.
Proof.
  induction ip as [|b ip IH]; intros [|a0 a] L; cbn in L; try discriminate; [reflexivity|].
  cbn [epart length]. rewrite IH by lia. reflexivity.
Qed.

Lemma split_dot ip : forall a q p, shape ip q p -> length a = length ip ->
  zdot a p = zdot (ypart ip a) (proj ip p) + zdot (epart ip a) q.
Proof.
  induction ip as [|b ip IH]; intros a q p S L.
  - destruct a; [|cbn in L; discriminate]. reflexivity.
  - destruct a as [|a0 a]; [cbn in L; discriminate|]. cbn in L.
    destruct b, q as [|q0 q], p as [|p0 p]; cbn in S; try contradiction; destruct S as [S0 S];
      cbn [ypart epart proj zdot]; rewrite (IH a q p S) by lia.
    + subst. lia.
    + lia.
Qed.

(* ---------------------------------------------------------------------------------------- *)

Ltac fa1 := constructor; [|constructor].
Ltac fa2 := constructor; [|constructor; [|constructor]].

Section Cert.
  Variable pb : problem.
  Let ip := is_par pb.
  Let nv := nvars ip.
  Let dm := length ip.

  Definition pad (n : nat) (a : list Z) : list Z := a ++ repeat 0 (n - length a).
  Definition lexp (a : list Z) : list Z := repeat 0 nv ++ a.            (* an expression over q ++ arts *)
  Definition lcon_t (c : con) : con := {| ccoefs := lexp (ccoefs c); ccst := ccst c; ckd := ckd c |}.
  Definition lcon_p (c : con) : con :=                                    (* a problem constraint, for the competitor y *)
    let a := pad dm (ccoefs c) in
    {| ccoefs := ypart ip a ++ epart ip a; ccst := ccst c; ckd := ckd c |}.

  Definition LC : list con := map lcon_p (cons pb).
  Definition NNy : list con := map (fun j => ge_con j 0) (seq 0 nv).
  Definition cons_len_ok : bool := forallb (fun c => Nat.leb (length (ccoefs c)) dm) (cons pb).

  Lemma lexp_eval a y e : length y = nv -> zdot (lexp a) (y ++ e) = zdot a e.
  Proof. intros L. unfold lexp. rewrite zdot_app by (rewrite repeat_length; lia). rewrite zdot_zeros. lia. Qed.

  Lemma lcon_t_holds c y e : length y = nv -> (holds (lcon_t c) (y ++ e) <-> holds c e).
  Proof.
    intros L. unfold holds. rewrite !evalz_zdot. cbn [lcon_t ccoefs ccst ckd]. rewrite lexp_eval by exact L. tauto.
  Qed.

  Lemma pad_length n a : (length a <= n)%nat -> length (pad n a) = n.
  Proof. intros L. unfold pad. rewrite app_length, repeat_length. lia. Qed.

  Lemma lcon_p_holds c q ar p : (length (ccoefs c) <= dm)%nat -> length q = dm -> shape ip q p ->
    (holds (lcon_p c) (proj ip p ++ q ++ ar) <-> holds c p).
  Proof.
    intros Lc Lq S. unfold holds. rewrite !evalz_zdot. cbn [lcon_p ccoefs ccst ckd].
    pose proof (pad_length dm (ccoefs c) Lc) as Lp.
    rewrite zdot_app by (rewrite ypart_length by exact Lp; symmetry; eapply proj_length; eauto).
    rewrite zdot_short by (rewrite epart_length by exact Lp; lia).
    rewrite <- (split_dot ip (pad dm (ccoefs c)) q p S Lp). unfold pad. rewrite zdot_trail. tauto.
  Qed.

  (* what is known on a path: constraints P over (y ++ q ++ arts), none of which looks at y *)
  Definition lenP (n : nat) (P : list con) : Prop := Forall (fun c => (length (ccoefs c) <= n)%nat) P.
  Definition holdsP (P : list con) (e : list Z) : Prop := forall y, length y = nv -> all_hold P (y ++ e).

  Lemma holds_ext c z r : (length (ccoefs c) <= length z)%nat -> (holds c (z ++ r) <-> holds c z).
  Proof. intros L. unfold holds. rewrite !evalz_zdot, zdot_short by exact L. tauto. Qed.

  Lemma holdsP_ext n P e v : lenP n P -> (length e + nv = n)%nat -> holdsP P e -> holdsP P (e ++ [v]).
  Proof.
    intros LP Ln H y Ly. specialize (H y Ly). unfold all_hold, lenP in *. rewrite Forall_forall in *.
    intros c Hc. rewrite app_assoc. apply holds_ext; [|auto]. rewrite app_length. specialize (LP c Hc). lia.
  Qed.

  Lemma lenP_mono n m P : (n <= m)%nat -> lenP n P -> lenP m P.
  Proof. intros L H. unfold lenP in *. rewrite Forall_forall in *. intros c Hc. specialize (H c Hc). lia. Qed.

  (* ------------------------------------------------------------------------------------ *)
  (* artificial parameters *)

  Fixpoint arts_cons (aps : list artp) (n : nat) (P : list con) : option (list con * nat) :=
    match aps with
    | [] => Some (P, n)
    | a :: aps' =>
        let e := lexp (lco (anum a)) in
        if Nat.leb (length e) n && (0 <? aden a) then
          let pe := pad n e in
          arts_cons aps' (S n)
            (P ++ [ {| ccoefs := pe ++ [- aden a]; ccst := lk (anum a); ckd := GE |};
                    {| ccoefs := map Z.opp pe ++ [aden a]; ccst := - lk (anum a) + aden a - 1; ckd := GE |} ])
        else None
    end.

  Lemma arts_cons_sound aps : forall n P P' n' e,
    arts_cons aps n P = Some (P', n') -> (length e + nv = n)%nat -> lenP n P -> holdsP P e ->
    (length (add_arts aps e) + nv = n')%nat /\ lenP n' P' /\ holdsP P' (add_arts aps e).
  Proof.
    induction aps as [|a aps IH]; intros n P P' n' e H Ln LP HP; cbn [arts_cons add_arts] in *.
    - injection H as <- <-. auto.
    - destruct (Nat.leb (length (lexp (lco (anum a)))) n && (0 <? aden a)) eqn:G; [|discriminate].
      apply andb_true_iff in G. destruct G as [G1 G2]. apply Nat.leb_le in G1. apply Z.ltb_lt in G2.
      set (v := levalz (anum a) e / aden a).
      eapply IH in H; [exact H| | |].
      + rewrite app_length. cbn. lia.
      + unfold lenP. apply Forall_app. split; [eapply lenP_mono; [|exact LP]; lia|].
        pose proof (pad_length n _ G1) as Lp.
        fa2; cbn [ccoefs]; rewrite app_length, ?map_length, Lp; cbn; lia.
      + intros y Ly. unfold all_hold. apply Forall_app. split.
        * apply (holdsP_ext n P e v LP Ln HP y Ly).
        * pose proof (pad_length n _ G1) as Lp.
          assert (Lz : length (pad n (lexp (lco (anum a)))) = length (y ++ e)) by (rewrite Lp, app_length; lia).
          assert (E : zdot (pad n (lexp (lco (anum a)))) (y ++ e) = dotz (lco (anum a)) e 0).
          { unfold pad. rewrite zdot_trail, lexp_eval by exact Ly. now rewrite dotz_zdot. }
          pose proof (is_floor_div (levalz (anum a) e) (aden a) G2) as F. unfold is_floor in F. fold v in F.
          unfold levalz in F.
          fa2; unfold holds; cbn [ckd]; rewrite evalz_zdot; cbn [ccoefs ccst];
            rewrite app_assoc, zdot_app by (rewrite ?map_length; exact Lz); rewrite ?zdot_opp, E; cbn [zdot]; lia.
  Qed.

  (* ------------------------------------------------------------------------------------ *)
  (* bottom *)

  Definition bot_ok (n : nat) (P : list con) : bool := relax_empty n (P ++ LC ++ NNy).

  Lemma nth_nonneg y j : Forall (fun v => 0 <= v) y -> 0 <= nth j y 0.
  Proof.
    intros H. destruct (nth_in_or_default j y 0) as [Hin|E]; [|rewrite E; lia].
    rewrite Forall_forall in H. now apply H.
  Qed.

  Lemma competitor_holds q ar p : cons_len_ok = true -> length q = dm -> feasible pb q p ->
    all_hold (LC ++ NNy) (proj ip p ++ q ++ ar).
  Proof.
    intros CL Lq [S H]. fold ip in S. unfold all_hold. apply Forall_app. split.
    - unfold LC. rewrite Forall_map. unfold all_hold in H. rewrite Forall_forall in *. intros c Hc.
      apply lcon_p_holds; auto. unfold cons_len_ok in CL. rewrite forallb_forall in CL.
      apply Nat.leb_le. now apply CL.
    - unfold NNy. rewrite Forall_map. rewrite Forall_forall. intros j Hj. apply in_seq in Hj.
      apply ge_con_holds. rewrite app_nth1 by (rewrite (proj_length ip q p S); fold nv; lia).
      apply nth_nonneg. eapply proj_nonneg; eauto.
  Qed.

  Lemma bot_ok_sound n P q ar : cons_len_ok = true -> length q = dm ->
    bot_ok n P = true -> holdsP P (q ++ ar) -> bottom pb q.
  Proof.
    intros CL Lq B HP p F. unfold bot_ok in B.
    apply (relax_empty_sound _ _ B (proj ip p ++ q ++ ar)).
    unfold all_hold. apply Forall_app. split.
    - apply HP. destruct F as [S _]. apply (proj_length ip q p S).
    - now apply competitor_holds.
  Qed.

  (* ------------------------------------------------------------------------------------ *)
  (* solution leaves *)

  Definition ycoef (j : nat) : list Z := pad nv (repeat 0 j ++ [-1]).
  Definition eq_j (j : nat) (v : lexpr) : con := {| ccoefs := ycoef j ++ lco v; ccst := lk v; ckd := EQ |}.
  Definition lt_j (j : nat) (v : lexpr) : con := {| ccoefs := ycoef j ++ lco v; ccst := lk v - 1; ckd := GE |}.

  Lemma yv_eval j v y e : (j < nv)%nat -> length y = nv ->
    zdot (ycoef j ++ lco v) (y ++ e) + lk v = levalz v e - nth j y 0.
  Proof.
    intros Lj Ly. assert (L : length (ycoef j) = length y).
    { unfold ycoef. rewrite pad_length; [lia|]. rewrite app_length, repeat_length. cbn. lia. }
    rewrite zdot_app by exact L. unfold ycoef, pad. rewrite zdot_trail, zdot_unit. unfold levalz. rewrite dotz_zdot. lia.
  Qed.

  Fixpoint eqs_from (j : nat) (vals : list lexpr) : list con :=
    match vals with [] => [] | v :: vs => eq_j j v :: eqs_from (S j) vs end.

  Fixpoint mincheck (n : nat) (B : list con) (j : nat) (vals : list lexpr) : bool :=
    match vals with
    | [] => true
    | v :: vs => relax_empty n (B ++ [lt_j j v]) && mincheck n (B ++ [eq_j j v]) (S j) vs
    end.

  Lemma skipn_nth (y : list Z) : forall j, (j < length y)%nat -> skipn j y = nth j y 0 :: skipn (S j) y.
  Proof.
    induction y as [|y0 y IH]; intros j L; cbn in L; [lia|]. destruct j; [reflexivity|].
    cbn [skipn nth]. rewrite IH by lia. reflexivity.
  Qed.

  Lemma mincheck_sound n y e : length y = nv -> forall vals j B,
    (j + length vals = nv)%nat -> mincheck n B j vals = true -> all_hold B (y ++ e) ->
    ~ lex_lt (skipn j y) (map (fun v => levalz v e) vals).
  Proof.
    intros Ly. induction vals as [|v vs IH]; intros j B Lj M HB; cbn [mincheck map] in *.
    - destruct (skipn j y); cbn; tauto.
    - apply andb_true_iff in M. destruct M as [M1 M2]. cbn [length] in Lj.
      rewrite skipn_nth by lia. cbn [lex_lt]. intros [Hlt|[Heq Hrest]].
      + apply (relax_empty_sound _ _ M1 (y ++ e)). unfold all_hold. apply Forall_app. split; [exact HB|].
        fa1. unfold holds, lt_j; cbn [ckd]. rewrite evalz_zdot; cbn [ccoefs ccst].
        pose proof (yv_eval j v y e ltac:(lia) Ly). lia.
      + revert Hrest. apply (IH (S j) (B ++ [eq_j j v])); [lia|exact M2|].
        unfold all_hold. apply Forall_app. split; [exact HB|]. fa1.
        unfold holds, eq_j; cbn [ckd]. rewrite evalz_zdot; cbn [ccoefs ccst].
        pose proof (yv_eval j v y e ltac:(lia) Ly). lia.
  Qed.

  Definition sol_ok (n : nat) (P : list con) (vals : list lexpr) : bool :=
    Nat.eqb (length vals) nv &&
    (let S := P ++ eqs_from 0 vals in
     forallb (fun c => forallb (fun a => relax_empty n (S ++ [a])) (negs (lcon_p c))) (cons pb) &&
     forallb (fun j => relax_empty n (S ++ [le_con j (-1)])) (seq 0 nv)) &&
    mincheck n (P ++ LC ++ NNy) 0 vals.

  Lemma eqs_from_hold e : forall vals j x pre, length (pre ++ x) = nv -> length pre = j ->
    x = map (fun v => levalz v e) vals -> all_hold (eqs_from j vals) ((pre ++ x) ++ e).
  Proof.
    induction vals as [|v vs IH]; intros j x pre L Lp ->; cbn [eqs_from map] in *; [constructor|].
    constructor.
    - unfold holds, eq_j; cbn [ckd]. rewrite evalz_zdot; cbn [ccoefs ccst].
      rewrite app_length in L. cbn [length] in L.
      pose proof (yv_eval j v (pre ++ levalz v e :: map (fun v0 => levalz v0 e) vs) e ltac:(lia)
                          ltac:(rewrite app_length; cbn [length]; lia)) as Y.
      rewrite <- Lp in Y at 2. rewrite nth_middle in Y. lia.
    - specialize (IH (S j) (map (fun v0 => levalz v0 e) vs) (pre ++ [levalz v e])).
      rewrite <- app_assoc in IH. cbn [app] in IH. apply IH; auto. rewrite app_length. cbn. lia.
  Qed.

  Lemma sol_ok_sound n P q ar vals : cons_len_ok = true -> length q = dm ->
    sol_ok n P vals = true -> holdsP P (q ++ ar) ->
    lexmin pb q (map (fun v => levalz v (q ++ ar)) vals).
  Proof.
    intros CL Lq H HP. unfold sol_ok in H. apply andb_true_iff in H. destruct H as [H HM].
    apply andb_true_iff in H. destruct H as [HL H]. apply andb_true_iff in H. destruct H as [HF HN].
    apply Nat.eqb_eq in HL. set (e := q ++ ar) in *. set (x := map (fun v => levalz v e) vals).
    assert (Lx : length x = nv) by (unfold x; rewrite map_length; exact HL).
    assert (HS : all_hold (P ++ eqs_from 0 vals) (x ++ e)).
    { unfold all_hold. apply Forall_app. split; [apply HP; exact Lx|].
      apply (eqs_from_hold e vals 0%nat x []); auto. }
    (* non-negativity *)
    assert (Hx : Forall (fun v => 0 <= v) x).
    { rewrite Forall_forall. intros v Hv. destruct (In_nth _ _ 0 Hv) as [j [Lj Ej]].
      rewrite forallb_forall in HN. assert (Hj : In j (seq 0 nv)) by (apply in_seq; lia).
      specialize (HN j Hj). destruct (Z_lt_le_dec v 0) as [Neg|]; [|assumption]. exfalso.
      apply (relax_empty_sound _ _ HN (x ++ e)). unfold all_hold. apply Forall_app. split; [exact HS|].
      fa1. apply le_con_holds. rewrite app_nth1 by lia. lia. }
    destruct (fill_shape ip q x Lq Lx Hx) as [Sh Pr]. set (p := fill ip q x) in *.
    exists p. split; [|split; [exact Pr|]].
    - split; [exact Sh|]. unfold all_hold. rewrite Forall_forall. intros c Hc.
      destruct (all_hold_dec [c] p) as [Y|N]; [inversion Y; assumption|]. exfalso.
      assert (Nc : ~ holds c p) by (intros Y; apply N; constructor; [exact Y|constructor]).
      assert (Lc : (length (ccoefs c) <= dm)%nat).
      { unfold cons_len_ok in CL. rewrite forallb_forall in CL. apply Nat.leb_le. now apply CL. }
      assert (Nl : ~ holds (lcon_p c) (x ++ e)).
      { intros Y. apply Nc. rewrite <- Pr in Y. unfold e in Y. now apply (lcon_p_holds c q ar p Lc Lq Sh) in Y. }
      destruct (negs_spec _ _ Nl) as [a [Ha Hh]].
      rewrite forallb_forall in HF. specialize (HF c Hc). rewrite forallb_forall in HF. specialize (HF a Ha).
      apply (relax_empty_sound _ _ HF (x ++ e)). unfold all_hold. apply Forall_app. split; [exact HS|].
      fa1. exact Hh.
    - intros p' F'. pose proof F' as [S' _]. fold ip in S'.
      set (y := proj ip p'). assert (Ly : length y = nv) by (apply (proj_length ip q p' S')).
      assert (NL : ~ lex_lt y x).
      { apply (mincheck_sound n y e Ly vals 0%nat (P ++ LC ++ NNy)); [cbn; lia|exact HM|].
        unfold all_hold. apply Forall_app. split; [apply HP; exact Ly|]. unfold e. now apply competitor_holds. }
      destruct (lex_total x y ltac:(lia)) as [A|[A|A]]; [right; exact A|left; exact A|contradiction].
  Qed.

  (* ------------------------------------------------------------------------------------ *)
  (* the tree *)

  Definition lens_ok (n : nat) (L : list con) : bool := forallb (fun c => Nat.leb (length (ccoefs c)) n) L.

  Fixpoint cert (t : tree) (n : nat) (P : list con) : bool :=
    match t with
    | Bot => bot_ok n P
    | Sol cs aps vals =>
        match arts_cons aps n P with
        | None => false
        | Some (P1, n1) =>
            let L := map lcon_t cs in
            lens_ok n1 L && lens_ok n1 (map (fun v => {| ccoefs := lexp (lco v); ccst := 0; ckd := GE |}) vals) &&
            forallb (fun c => forallb (fun a => bot_ok n1 (P1 ++ [a])) (negs c)) L &&
            sol_ok n1 (P1 ++ L) vals
        end
    | Dec cs aps tc fc =>
        match arts_cons aps n P with
        | None => false
        | Some (P1, n1) =>
            let L := map lcon_t cs in
            lens_ok n1 L &&
            cert tc n1 (P1 ++ L) &&
            forallb (fun c => forallb (fun a => cert fc n1 (P1 ++ [a])) (negs c)) L
        end
    end.

  Lemma lens_ok_lenP n L : lens_ok n L = true -> lenP n L.
  Proof.
    unfold lens_ok, lenP. rewrite forallb_forall, Forall_forall. intros H c Hc. apply Nat.leb_le. auto.
  Qed.

  Lemma lifted_hold cs e : all_hold cs e -> holdsP (map lcon_t cs) e.
  Proof.
    intros H y Ly. unfold all_hold in *. rewrite Forall_map. rewrite Forall_forall in *. intros c Hc.
    apply lcon_t_holds; auto.
  Qed.

  (* when the node's constraints do not all hold, one lifted alternative holds *)
  Lemma failing_alt cs e : ~ all_hold cs e ->
    exists c a, In c (map lcon_t cs) /\ In a (negs c) /\ forall y, length y = nv -> holds a (y ++ e).
  Proof.
    intros N. assert (X : exists c, In c cs /\ ~ holds c e).
    { destruct (all_holdb cs e) eqn:E; [exfalso; apply N; now apply all_holdb_spec|].
      unfold all_holdb in E. clear N. induction cs as [|c cs IH]; cbn in E; [discriminate|].
      destruct (holdsb c e) eqn:Hc.
      - destruct (IH E) as [c' [I N']]. exists c'. split; [now right|exact N'].
      - exists c. split; [now left|]. intros Y. apply holdsb_spec in Y. congruence. }
    destruct X as [c [Hc Nc]]. exists (lcon_t c).
    (* the alternatives of the lifted constraint are the lifted alternatives: argue pointwise *)
    assert (Y0 : ~ holds (lcon_t c) (repeat 0 nv ++ e)).
    { intros Y. apply Nc. apply (lcon_t_holds c (repeat 0 nv) e); [apply repeat_length|exact Y]. }
    destruct (negs_spec _ _ Y0) as [a [Ha Hh]]. exists a. split; [now apply in_map|]. split; [exact Ha|].
    intros y Ly.
    (* a has zero coefficients on the y block, as lcon_t c has *)
    revert Ha Hh. unfold negs, lcon_t; cbn [ckd ccoefs ccst]. unfold lexp.
    destruct (ckd c); cbn [In]; intros Ha Hh;
      repeat (destruct Ha as [<-|Ha]; [revert Hh; unfold holds; cbn [ckd]; rewrite !evalz_zdot; cbn [ccoefs ccst];
        rewrite ?map_app, ?zdot_app by (rewrite ?map_length, repeat_length; lia || (symmetry; apply repeat_length));
        rewrite ?zdot_opp, ?zdot_zeros;
        assert (Z0 : zdot (repeat 0 nv) y = 0) by apply zdot_zeros;
        assert (Z1 : zdot (map Z.opp (repeat 0 nv)) y = 0) by (rewrite zdot_opp, zdot_zeros; lia);
        rewrite ?Z0, ?Z1; intros Hh; exact Hh|]); contradiction.
  Qed.

  Theorem cert_sound (CL : cons_len_ok = true) t : forall n P q ar,
    length q = dm -> cert t n P = true -> (length (q ++ ar) + nv = n)%nat -> lenP n P -> holdsP P (q ++ ar) ->
    answer pb q (eval_tree t (q ++ ar)).
  Proof.
    induction t as [|cs aps vals|cs aps tc IHt fc IHf]; intros n P q ar Lq C Ln LP HP; cbn [cert eval_tree] in *.
    - cbn [answer]. eapply bot_ok_sound; eauto.
    - destruct (arts_cons aps n P) as [[P1 n1]|] eqn:A; [|discriminate].
      destruct (arts_cons_sound aps n P P1 n1 (q ++ ar) A Ln LP HP) as [Ln1 [LP1 HP1]].
      assert (Eenv : exists ar', add_arts aps (q ++ ar) = q ++ ar').
      { clear. revert ar. induction aps as [|a aps IH]; intros ar; cbn [add_arts]; [eauto|].
        rewrite <- app_assoc. apply IH. }
      destruct Eenv as [ar' Ear]. rewrite Ear in *.
      apply andb_true_iff in C. destruct C as [C CS]. apply andb_true_iff in C. destruct C as [C CB].
      apply andb_true_iff in C. destruct C as [CL1 _].
      destruct (all_holdb cs (q ++ ar')) eqn:E.
      + cbn [answer]. apply all_holdb_spec in E.
        eapply (sol_ok_sound n1 (P1 ++ map lcon_t cs)); eauto.
        intros y Ly. unfold all_hold. apply Forall_app. split; [now apply HP1|now apply lifted_hold].
      + cbn [answer]. assert (N : ~ all_hold cs (q ++ ar')) by (intros Y; apply all_holdb_spec in Y; congruence).
        destruct (failing_alt cs _ N) as [c [a [Hc [Ha Hh]]]].
        rewrite forallb_forall in CB. specialize (CB c Hc). rewrite forallb_forall in CB. specialize (CB a Ha).
        eapply (bot_ok_sound n1 (P1 ++ [a])); eauto.
        intros y Ly. unfold all_hold. apply Forall_app. split; [now apply HP1|]. fa1. now apply Hh.
    - destruct (arts_cons aps n P) as [[P1 n1]|] eqn:A; [|discriminate].
      destruct (arts_cons_sound aps n P P1 n1 (q ++ ar) A Ln LP HP) as [Ln1 [LP1 HP1]].
      assert (Eenv : exists ar', add_arts aps (q ++ ar) = q ++ ar').
      { clear. revert ar. induction aps as [|a aps IH]; intros ar; cbn [add_arts]; [eauto|].
        rewrite <- app_assoc. apply IH. }
      destruct Eenv as [ar' Ear]. rewrite Ear in *.
      apply andb_true_iff in C. destruct C as [C CF]. apply andb_true_iff in C. destruct C as [CL1 CT].
      pose proof (lens_ok_lenP _ _ CL1) as LL.
      destruct (all_holdb cs (q ++ ar')) eqn:E.
      + apply all_holdb_spec in E. apply (IHt n1 (P1 ++ map lcon_t cs) q ar' Lq CT Ln1).
        * unfold lenP. apply Forall_app. split; assumption.
        * intros y Ly. unfold all_hold. apply Forall_app. split; [now apply HP1|now apply lifted_hold].
      + assert (N : ~ all_hold cs (q ++ ar')) by (intros Y; apply all_holdb_spec in Y; congruence).
        destruct (failing_alt cs _ N) as [c [a [Hc [Ha Hh]]]].
        rewrite forallb_forall in CF. specialize (CF c Hc). rewrite forallb_forall in CF. specialize (CF a Ha).
        apply (IHf n1 (P1 ++ [a]) q ar' Lq CF Ln1).
        * unfold lenP. apply Forall_app. split; [assumption|]. fa1.
          unfold lenP in LL. rewrite Forall_forall in LL. eapply negs_len; eauto.
        * intros y Ly. unfold all_hold. apply Forall_app. split; [now apply HP1|]. fa1. now apply Hh.
  Qed.

  (* ------------------------------------------------------------------------------------ *)
  (* top level: the context gives the initial path *)

  Definition P0 : list con := map lcon_t (context_cons pb) ++ map (fun i => ge_con (nv + i) 0) (seq 0 dm).

  Definition tree_cert_b (t : tree) : bool :=
    cons_len_ok && lens_ok (nv + dm) P0 && cert t (nv + dm) P0.

  Theorem tree_cert_sound_thm t :
    tree_cert_b t = true -> forall q, context pb q -> answer pb q (eval_tree t q).
  Proof.
    unfold tree_cert_b. intros H q [Lq [Hq Hc]]. apply andb_true_iff in H. destruct H as [H C].
    apply andb_true_iff in H. destruct H as [CL L0]. fold dm in Lq. unfold dim in Lq. fold ip in Lq. fold dm in Lq.
    replace (eval_tree t q) with (eval_tree t (q ++ [])) by (now rewrite app_nil_r).
    apply (cert_sound CL t (nv + dm)%nat P0 q [] Lq C).
    - rewrite app_nil_r. lia.
    - now apply lens_ok_lenP.
    - rewrite app_nil_r. intros y Ly. unfold P0, all_hold. apply Forall_app. split.
      + apply (lifted_hold _ q Hc y Ly).
      + rewrite Forall_map, Forall_forall. intros i Hi. apply ge_con_holds.
        rewrite <- Ly, app_nth2_plus. now apply nth_nonneg.
  Qed.
End Cert.

(* the hypotheses are satisfiable: { A + B >= 3, 2B <= p } with parameter p, tree
   "if p >= 2 ... " -- here the simplest certified instance: { A >= p } has the tree {A = p} *)
Example cert_ex1 :
  tree_cert_b {| is_par := [false; true]; cons := [ {| ccoefs := [1; -1]; ccst := 0; ckd := GE |} ]; big := None |}
              (Sol [] [] [ {| lco := [0; 1]; lk := 0 |} ]) = true.
Proof. vm_compute. reflexivity. Qed.

(* a decision with a bottom branch:  { A + p >= 3, A <= 1 }:  if p >= 2 then {A = ?} ... the tree
   "if p >= 3 then {0} else if p >= 2 then {1 ... }" is not affine; the certified tree below is for
   { A >= 2 - p, A <= 1 - p + p }: kept small:  { A - 2 + p >= 0 } -> if p >= 2 then {0} else {2 - p} *)
Example cert_ex2 :
  tree_cert_b {| is_par := [false; true]; cons := [ {| ccoefs := [1; 1]; ccst := -2; ckd := GE |} ]; big := None |}
              (Dec [ {| ccoefs := [0; 1]; ccst := -2; ckd := GE |} ] []
                   (Sol [] [] [ {| lco := []; lk := 0 |} ])
                   (Sol [] [] [ {| lco := [0; -1]; lk := 2 |} ])) = true.
Proof. vm_compute. reflexivity. Qed.

(* a wrong tree is not certified (the checker answers false = "not certified") *)
Example cert_ex3 :
  tree_cert_b {| is_par := [false; true]; cons := [ {| ccoefs := [-1; -1]; ccst := 0; ckd := GE |} ]; big := None |} Bot = false.
Proof. vm_compute. reflexivity. Qed.
