(* The arithmetic of PIP_Solution_Node::generate_cut (src/PIP_Tree.cc) on one tableau row.

   A tableau row with denominator d > 0 states, for the basic variable x of that row,
        d * x  =  sum_j s_j * y_j  +  t_0  +  sum_p t_p * q_p
   where the y_j are the column (non-basic) variables, non-negative integers, and the q_p the
   parameters (problem parameters and artificial ones), integers; [t] is the list t_0 :: t_1 ...,
   evaluated against 1 :: q.  x has to be an integer.

   generate_cut computes (pos_rem = remainder in [0,d)):
     - the cut is parametric iff some t_p (p >= 1) is not a multiple of d;
     - numerator of the new artificial parameter P:  for every entry of t with r = t_p mod d <> 0
       the coefficient d - r (entries that are multiples of d contribute 0); denominator d;
       so P = floor(e / d) with e the value of that numerator;
     - two context rows defining P:   e - d*P >= 0   and   -e + d*P + d - 1 >= 0;
     - the cut row:  s-part  s_j mod d;  t-part  (t_p mod d) - d  where t_p mod d <> 0, else 0;
       and coefficient d on the column of P (parametric case only).  The cut row is a new
       constraint  cut_s.y + cut_t.(1::q) + d*P >= 0  (its sign is initialised to NEGATIVE).  *)
From Coq Require Import List ZArith Lia Bool.
Import ListNotations.
Local Open Scope Z_scope.

Fixpoint dotl (a b : list Z) : Z :=
  match a, b with
  | a0 :: a', b0 :: b' => a0 * b0 + dotl a' b'
  | _, _ => 0
  end.

Definition parametric (d : Z) (t : list Z) : bool := existsb (fun a => negb (a mod d =? 0)) (tl t).
Definition ap_num (d : Z) (t : list Z) : list Z := map (fun a => if a mod d =? 0 then 0 else d - a mod d) t.
Definition cut_s (d : Z) (s : list Z) : list Z := map (fun a => a mod d) s.
Definition cut_t (d : Z) (t : list Z) : list Z := map (fun a => if a mod d =? 0 then 0 else a mod d - d) t.
(* the two context rows, over (1 :: q) ++ [P] *)
Definition ctx1 (d : Z) (t : list Z) : list Z := ap_num d t ++ [- d].
Definition ctx2 (d : Z) (t : list Z) : list Z :=
  match map Z.opp (ap_num d t) with
  | [] => []
  | c0 :: r => (c0 + d - 1) :: r
  end ++ [d].

(* value of the cut at (y, q) with artificial parameter value P *)
Definition cut_value (d : Z) (s t : list Z) (y q1 : list Z) (P : Z) : Z :=
  dotl (cut_s d s) y + dotl (cut_t d t) q1 + d * P.

Lemma cut_s_cong d s : 0 < d -> forall y, exists k, dotl (cut_s d s) y = dotl s y - d * k.
Proof.
  intros Hd. induction s as [|a s IH]; intros [|y0 y]; cbn [cut_s map dotl]; try (exists 0; lia).
  destruct (IH y) as [k Hk]. fold (cut_s d s). rewrite Hk.
  exists (k + (a / d) * y0). pose proof (Z.div_mod a d ltac:(lia)). nia.
Qed.

Lemma cut_s_nonneg d s : 0 < d -> forall y, Forall (fun v => 0 <= v) y -> 0 <= dotl (cut_s d s) y.
Proof.
  intros Hd. induction s as [|a s IH]; intros [|y0 y] H; cbn [cut_s map dotl]; try lia.
  inversion H; subst. fold (cut_s d s). pose proof (IH y H3). pose proof (Z.mod_pos_bound a d Hd). nia.
Qed.

Lemma ap_num_cong d t : 0 < d -> forall q, exists k, dotl (ap_num d t) q = - dotl t q + d * k.
Proof.
  intros Hd. induction t as [|a t IH]; intros [|q0 q]; cbn [ap_num map dotl]; try (exists 0; lia).
  destruct (IH q) as [k Hk]. fold (ap_num d t). rewrite Hk.
  pose proof (Z.div_mod a d ltac:(lia)) as E. destruct (a mod d =? 0) eqn:M.
  - apply Z.eqb_eq in M. exists (k + (a / d) * q0). nia.
  - exists (k + (a / d + 1) * q0). nia.
Qed.

Lemma cut_t_opp d t : forall q, dotl (cut_t d t) q = - dotl (ap_num d t) q.
Proof.
  induction t as [|a t IH]; intros [|q0 q]; cbn [cut_t ap_num map dotl]; try lia.
  fold (cut_t d t). fold (ap_num d t). rewrite IH. destruct (a mod d =? 0); lia.
Qed.

(* every integral solution of the row (y >= 0, x integer) satisfies the cut *)
Theorem gomory_cut_valid_thm d s t y q1 x :
  0 < d -> Forall (fun v => 0 <= v) y ->
  d * x = dotl s y + dotl t q1 ->
  0 <= cut_value d s t y q1 (dotl (ap_num d t) q1 / d).
Proof.
  intros Hd Hy Hrow. unfold cut_value. rewrite cut_t_opp.
  destruct (cut_s_cong d s Hd y) as [k1 E1]. destruct (ap_num_cong d t Hd q1) as [k2 E2].
  pose proof (cut_s_nonneg d s Hd y Hy) as N.
  set (S := dotl (cut_s d s) y) in *. set (e := dotl (ap_num d t) q1) in *.
  pose proof (Z.div_mod e d ltac:(lia)) as DM. pose proof (Z.mod_pos_bound e d Hd) as MB.
  assert (ES : S = e + d * (x - k1 - k2)) by lia.
  set (m := x - k1 - k2) in *. clearbody S e m.
  set (w := e / d) in *. set (r := e mod d) in *. clearbody w r.
  assert (G : S + - e + d * w = d * (w + m)) by lia. rewrite G.
  destruct (Z_lt_le_dec (w + m) 0) as [L|L]; [|nia].
  exfalso. assert (d * (w + m) <= - d) by nia. lia.
Qed.

(* in the non-parametric case no artificial parameter is created: the same cut with P = 0 *)
Lemma ap_num_nonparam d t q :
  0 < d -> parametric d t = false ->
  dotl (ap_num d t) (1 :: q) = match t with [] => 0 | t0 :: _ => if t0 mod d =? 0 then 0 else d - t0 mod d end.
Proof.
  intros Hd. unfold parametric. destruct t as [|t0 t]; [reflexivity|]. cbn [tl ap_num map dotl].
  intros H. assert (Z0 : forall q, dotl (map (fun a => if a mod d =? 0 then 0 else d - a mod d) t) q = 0).
  { clear q. induction t as [|a t IH]; intros [|q0 q]; cbn [map dotl]; try reflexivity.
    cbn [existsb] in H. apply orb_false_iff in H. destruct H as [H1 H2].
    apply negb_false_iff in H1. rewrite H1. rewrite (IH H2). lia. }
  rewrite Z0. lia.
Qed.

Theorem gomory_cut_valid_nonparam d s t y q x :
  0 < d -> parametric d t = false -> Forall (fun v => 0 <= v) y ->
  d * x = dotl s y + dotl t (1 :: q) ->
  0 <= cut_value d s t y (1 :: q) 0.
Proof.
  intros Hd NP Hy Hrow. pose proof (gomory_cut_valid_thm d s t y (1 :: q) x Hd Hy Hrow) as V.
  rewrite (ap_num_nonparam d t q Hd NP) in V.
  assert (E : (match t with [] => 0 | t0 :: _ => if t0 mod d =? 0 then 0 else d - t0 mod d end) / d = 0).
  { destruct t as [|t0 t]; [reflexivity|]. pose proof (Z.mod_pos_bound t0 d Hd).
    destruct (t0 mod d =? 0) eqn:M; [reflexivity|]. apply Z.eqb_neq in M. apply Z.div_small. lia. }
  rewrite E in V. exact V.
Qed.

(* progress: at the current vertex (all column variables 0) a fractional row violates its cut *)
Theorem gomory_cut_separates d s t q1 :
  0 < d -> (dotl t q1) mod d <> 0 ->
  cut_value d s t (map (fun _ => 0) s) q1 (dotl (ap_num d t) q1 / d) < 0.
Proof.
  intros Hd Hfrac. unfold cut_value. rewrite cut_t_opp.
  assert (Z0 : dotl (cut_s d s) (map (fun _ => 0) s) = 0).
  { induction s as [|a s IH]; cbn [cut_s map dotl]; [reflexivity|]. fold (cut_s d s). rewrite IH. lia. }
  rewrite Z0. destruct (ap_num_cong d t Hd q1) as [k2 E2]. set (e := dotl (ap_num d t) q1) in *.
  pose proof (Z.div_mod e d ltac:(lia)) as DM. pose proof (Z.mod_pos_bound e d Hd) as MB.
  assert (e mod d <> 0).
  { intros H0. apply Hfrac. replace (dotl t q1) with (- e + k2 * d) by lia.
    rewrite Z.mod_add by lia. rewrite H0 in DM. replace (- e) with ((- (e / d)) * d) by lia.
    apply Z.mod_mul. lia. }
  lia.
Qed.

(* the two context rows pin the artificial parameter to the floor of e / d *)
Lemma dotl_app a : forall b x c, length a = length b -> dotl (a ++ [x]) (b ++ [c]) = dotl a b + x * c.
Proof.
  induction a as [|a0 a IH]; intros [|b0 b] x c L; cbn in L; try discriminate; cbn [app dotl].
  - lia.
  - rewrite IH by lia. lia.
Qed.

Theorem cut_context_defines_ap d t q P :
  0 < d -> length t = S (length q) ->
  (0 <= dotl (ctx1 d t) ((1 :: q) ++ [P]) /\ 0 <= dotl (ctx2 d t) ((1 :: q) ++ [P])
   <-> P = dotl (ap_num d t) (1 :: q) / d).
Proof.
  intros Hd L. unfold ctx1, ctx2.
  assert (La : length (ap_num d t) = length (1 :: q)) by (unfold ap_num; rewrite map_length; cbn; lia).
  rewrite dotl_app by exact La.
  destruct t as [|t0 t]; [cbn in L; discriminate|].
  assert (E2 : dotl (match map Z.opp (ap_num d (t0 :: t)) with [] => [] | c0 :: r => (c0 + d - 1) :: r end ++ [d])
                    ((1 :: q) ++ [P]) = - dotl (ap_num d (t0 :: t)) (1 :: q) + d - 1 + d * P).
  { cbn [ap_num map]. set (a0 := if t0 mod d =? 0 then 0 else d - t0 mod d).
    set (r := map (fun a => if a mod d =? 0 then 0 else d - a mod d) t).
    change ((- a0 + d - 1 :: map Z.opp r) ++ [d]) with (((- a0 + d - 1) :: map Z.opp r) ++ [d]).
    rewrite dotl_app by (cbn; rewrite map_length; unfold r; rewrite map_length; cbn in L; lia).
    cbn [dotl]. assert (O : forall q, dotl (map Z.opp r) q = - dotl r q).
    { clear. induction r as [|x r IH]; intros [|q0 q]; cbn [map dotl]; try lia. rewrite IH. lia. }
    rewrite O. lia. }
  rewrite E2. set (e := dotl (ap_num d (t0 :: t)) (1 :: q)).
  pose proof (Z.div_mod e d ltac:(lia)) as DM. pose proof (Z.mod_pos_bound e d Hd) as MB.
  split.
  - intros [H1 H2]. nia.
  - intros ->. nia.
Qed.

(* the hypotheses are satisfiable:  row  2x = y1 + 3 + p  at p = 2, y1 = 1, x = 3 *)
Example cut_ex :
  0 < 2 /\ Forall (fun v => 0 <= v) [1] /\ 2 * 3 = dotl [1] [1] + dotl [3; 1] [1; 2] /\
  parametric 2 [3; 1] = true /\ ap_num 2 [3; 1] = [1; 1] /\ cut_s 2 [1] = [1] /\ cut_t 2 [3; 1] = [-1; -1] /\
  cut_value 2 [1] [3; 1] [1] [1; 2] (dotl (ap_num 2 [3; 1]) [1; 2] / 2) = 0.
Proof. vm_compute. repeat split; try discriminate; try (constructor; [discriminate|constructor]). Qed.
