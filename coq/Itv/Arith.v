(* C12 -- soundness of the arithmetic boundary operations (any carrier satisfying the rounding laws). *)
From Coq Require Import ZArith QArith Bool Lia Lqa.
From PPLV Require Import Itv.Boundary Itv.Interval Itv.QCarrier Itv.Sound.
Local Open Scope Q_scope.

Section Arith.
Variable C : Carrier.
Variable so : bool.
Hypothesis L : CarrierLaws C.

Notation bnd := (bnd C).
Notation val := (cval C).
Notation in_lower := (in_lower C so).
Notation in_upper := (in_upper C so).
Notation clean := (clean C).
Notation gopen := (get_open C so).

Ltac unf := unfold Sound.in_lower, Sound.in_upper, Sound.sat in *; unf0.

(* ---- the common tail: adjust_boundary after a rounded operation -------------------------------- *)

Lemma adj_L to r st sh e z :
  clean to -> rounds C LOWER (r, st) e -> e <= z -> (sh = true -> e < z) ->
  in_lower (adjust_boundary C so LOWER (set_val C to r) sh st) z.
Proof.
  destruct to as [tv ts tp]. intros [Hc1 Hc2]. cbn in Hc1, Hc2. subst. unfb. unf.
  cbn [rounds fst snd]. intros [R1 R2] H1 H2.
  destruct sh, st, so; cbn; try lra; try (specialize (H2 eq_refl)); try (specialize (R2 eq_refl)); lra.
Qed.

Lemma adj_U to r st sh e z :
  clean to -> rounds C UPPER (r, st) e -> z <= e -> (sh = true -> z < e) ->
  in_upper (adjust_boundary C so UPPER (set_val C to r) sh st) z.
Proof.
  destruct to as [tv ts tp]. intros [Hc1 Hc2]. cbn in Hc1, Hc2. subst. unfb. unf.
  cbn [rounds fst snd]. intros [R1 R2] H1 H2.
  destruct sh, st, so; cbn; try lra; try (specialize (H2 eq_refl)); try (specialize (R2 eq_refl)); lra.
Qed.

Lemma inf_L t to o z : in_lower (set_boundary_infinity C so t to o) z.
Proof. destruct to. unfb. unf. destruct o, so; cbn; auto. Qed.
Lemma inf_U t to o z : in_upper (set_boundary_infinity C so t to o) z.
Proof. destruct to. unfb. unf. destruct o, so; cbn; auto. Qed.

Lemma zero_L to sh z : clean to -> 0 <= z -> (sh = true -> 0 < z) -> in_lower (set_zero C so LOWER to sh) z.
Proof.
  intros Hc H1 H2. unfold set_zero. apply adj_L with (e := 0); auto.
  cbn. pose proof (l_zero C L). split; [lra | discriminate].
Qed.
Lemma zero_U to sh z : clean to -> z <= 0 -> (sh = true -> z < 0) -> in_upper (set_zero C so UPPER to sh) z.
Proof.
  intros Hc H1 H2. unfold set_zero. apply adj_U with (e := 0); auto.
  cbn. pose proof (l_zero C L). split; [lra | discriminate].
Qed.

Lemma pair_eta (A B : Type) (p : A * B) : p = (fst p, snd p).
Proof. destruct p; reflexivity. Qed.

Lemma nio_eq t b : normal_is_open C so t b = gopen b.
Proof. unfold normal_is_open, get_open. destruct so; reflexivity. Qed.

Lemma arith_L op t1 b1 t2 b2 to e z :
  clean to ->
  (bsp b1 = false -> bsp b2 = false ->
     rounds C LOWER (op LOWER (bv b1) (bv b2)) e /\ e <= z /\ (gopen b1 || gopen b2 = true -> e < z)) ->
  in_lower (arith_assign C so op LOWER to t1 b1 t2 b2) z.
Proof.
  intros Hc H. unfold arith_assign, is_boundary_infinity, get_special.
  destruct (bsp b1) eqn:E1; [apply inf_L|]. destruct (bsp b2) eqn:E2; [apply inf_L|].
  destruct (H eq_refl eq_refl) as [R [H1 H2]].
  rewrite (pair_eta _ _ (op LOWER (bv b1) (bv b2))) in R |- *.
  eapply adj_L; eauto. rewrite !nio_eq. auto.
Qed.

Lemma arith_U op t1 b1 t2 b2 to e z :
  clean to ->
  (bsp b1 = false -> bsp b2 = false ->
     rounds C UPPER (op UPPER (bv b1) (bv b2)) e /\ z <= e /\ (gopen b1 || gopen b2 = true -> z < e)) ->
  in_upper (arith_assign C so op UPPER to t1 b1 t2 b2) z.
Proof.
  intros Hc H. unfold arith_assign, is_boundary_infinity, get_special.
  destruct (bsp b1) eqn:E1; [apply inf_U|]. destruct (bsp b2) eqn:E2; [apply inf_U|].
  destruct (H eq_refl eq_refl) as [R [H1 H2]].
  rewrite (pair_eta _ _ (op UPPER (bv b1) (bv b2))) in R |- *.
  eapply adj_U; eauto. rewrite !nio_eq. auto.
Qed.

(* ---- reading bounds ----------------------------------------------------------------------------- *)

Lemma in_lower_fin b x : bsp b = false -> in_lower b x -> val (bv b) <= x /\ (gopen b = true -> val (bv b) < x).
Proof. unf. intros ->. destruct (if so then bop b else false); intros; split; auto; try lra; discriminate. Qed.
Lemma in_upper_fin b x : bsp b = false -> in_upper b x -> x <= val (bv b) /\ (gopen b = true -> x < val (bv b)).
Proof. unf. intros ->. destruct (if so then bop b else false); intros; split; auto; try lra; discriminate. Qed.

Ltac fin_bounds :=
  repeat match goal with
  | E : bsp ?b = false, H : Sound.in_lower _ _ ?b _ |- _ => apply (in_lower_fin b _ E) in H; destruct H
  | E : bsp ?b = false, H : Sound.in_upper _ _ ?b _ |- _ => apply (in_upper_fin b _ E) in H; destruct H
  end.

Ltac open_cases :=
  repeat match goal with
  | H : ?o = true -> _ |- _ =>
      match o with
      | true => specialize (H eq_refl)
      | _ => destruct o eqn:?; [specialize (H eq_refl) | clear H]
      end
  end.

(* ---- neg, add, sub ------------------------------------------------------------------------------ *)

Lemma neg_L to b x : clean to -> in_upper b x -> in_lower (Boundary.neg_assign C so LOWER to UPPER b) (- x).
Proof.
  intros Hc H. unfold Boundary.neg_assign, get_special. destruct (bsp b) eqn:E; [apply inf_L|].
  rewrite (pair_eta _ _ (cneg C LOWER (bv b))). fin_bounds.
  eapply adj_L; eauto. { rewrite <- pair_eta. apply (l_neg C L). } { lra. }
  rewrite nio_eq. intros E2. specialize (H0 E2). lra.
Qed.

Lemma neg_U to b x : clean to -> in_lower b x -> in_upper (Boundary.neg_assign C so UPPER to LOWER b) (- x).
Proof.
  intros Hc H. unfold Boundary.neg_assign, get_special. destruct (bsp b) eqn:E; [apply inf_U|].
  rewrite (pair_eta _ _ (cneg C UPPER (bv b))). fin_bounds.
  eapply adj_U; eauto. { rewrite <- pair_eta. apply (l_neg C L). } { lra. }
  rewrite nio_eq. intros E2. specialize (H0 E2). lra.
Qed.

Lemma add_L to b1 b2 x y :
  clean to -> in_lower b1 x -> in_lower b2 y ->
  in_lower (Boundary.add_assign C so LOWER to LOWER b1 LOWER b2) (x + y).
Proof.
  intros Hc H1 H2. apply arith_L with (e := val (bv b1) + val (bv b2)); auto.
  intros E1 E2. fin_bounds. split; [apply (l_add C L)|]. split; [lra|].
  open_cases; cbn; intros; try lra; discriminate.
Qed.

Lemma add_U to b1 b2 x y :
  clean to -> in_upper b1 x -> in_upper b2 y ->
  in_upper (Boundary.add_assign C so UPPER to UPPER b1 UPPER b2) (x + y).
Proof.
  intros Hc H1 H2. apply arith_U with (e := val (bv b1) + val (bv b2)); auto.
  intros E1 E2. fin_bounds. split; [apply (l_add C L)|]. split; [lra|].
  open_cases; cbn; intros; try lra; discriminate.
Qed.

Lemma sub_L to b1 b2 x y :
  clean to -> in_lower b1 x -> in_upper b2 y ->
  in_lower (Boundary.sub_assign C so LOWER to LOWER b1 UPPER b2) (x - y).
Proof.
  intros Hc H1 H2. apply arith_L with (e := val (bv b1) - val (bv b2)); auto.
  intros E1 E2. fin_bounds. split; [apply (l_sub C L)|]. split; [lra|].
  open_cases; cbn; intros; try lra; discriminate.
Qed.

Lemma sub_U to b1 b2 x y :
  clean to -> in_upper b1 x -> in_lower b2 y ->
  in_upper (Boundary.sub_assign C so UPPER to UPPER b1 LOWER b2) (x - y).
Proof.
  intros Hc H1 H2. apply arith_U with (e := val (bv b1) - val (bv b2)); auto.
  intros E1 E2. fin_bounds. split; [apply (l_sub C L)|]. split; [lra|].
  open_cases; cbn; intros; try lra; discriminate.
Qed.

(* ---- signs of bounds ---------------------------------------------------------------------------- *)

Definition sat := Sound.sat C so.

(* What the integer sgn_b says about the bound value. *)
Lemma sgn_b_fin t b : bsp b = false -> sgn_b C t b = Qsgn (val (bv b)).
Proof. unfold sgn_b, get_special. intros ->. apply (l_sgn C L). Qed.
Lemma sgn_b_inf_L b : bsp b = true -> sgn_b C LOWER b = (-1)%Z.
Proof. unfold sgn_b, get_special. intros ->. reflexivity. Qed.
Lemma sgn_b_inf_U b : bsp b = true -> sgn_b C UPPER b = 1%Z.
Proof. unfold sgn_b, get_special. intros ->. reflexivity. Qed.

(* ---- mul_assign_z / div_assign_z: structure ----------------------------------------------------- *)

Lemma mulz_L to t1 b1 s1 t2 b2 s2 z :
  clean to ->
  (s1 <> 0%Z -> s2 <> 0%Z -> bsp b1 = false -> bsp b2 = false ->
     val (bv b1) * val (bv b2) <= z /\ (gopen b1 || gopen b2 = true -> val (bv b1) * val (bv b2) < z)) ->
  (s1 <> 0%Z -> s2 = 0%Z -> 0 <= z /\ (gopen b2 = true -> 0 < z)) ->
  (s1 = 0%Z -> 0 <= z /\ (gopen b1 = true -> s2 <> 0%Z \/ gopen b2 = true -> 0 < z)) ->
  in_lower (mul_assign_z C so LOWER to t1 b1 s1 t2 b2 s2) z.
Proof.
  intros Hc H1 H2 H3. unfold mul_assign_z.
  destruct (Z.eqb_spec s1 0) as [E1|E1]; cbn [negb].
  - destruct (H3 E1) as [A B]. apply zero_L; auto. intros Ho. apply andb_true_iff in Ho. destruct Ho as [Ho1 Ho2].
    apply B; auto. apply orb_true_iff in Ho2. destruct Ho2 as [Ho2|Ho2]; auto.
    left. destruct (Z.eqb_spec s2 0); cbn in Ho2; auto; discriminate.
  - destruct (Z.eqb_spec s2 0) as [E2|E2]; cbn [negb].
    + destruct (H2 E1 E2) as [A B]. apply zero_L; auto.
    + apply arith_L with (e := val (bv b1) * val (bv b2)); auto. intros F1 F2.
      destruct (H1 E1 E2 F1 F2). split; [apply (l_mul C L)|]. split; auto.
Qed.

Lemma mulz_U to t1 b1 s1 t2 b2 s2 z :
  clean to ->
  (s1 <> 0%Z -> s2 <> 0%Z -> bsp b1 = false -> bsp b2 = false ->
     z <= val (bv b1) * val (bv b2) /\ (gopen b1 || gopen b2 = true -> z < val (bv b1) * val (bv b2))) ->
  (s1 <> 0%Z -> s2 = 0%Z -> z <= 0 /\ (gopen b2 = true -> z < 0)) ->
  (s1 = 0%Z -> z <= 0 /\ (gopen b1 = true -> s2 <> 0%Z \/ gopen b2 = true -> z < 0)) ->
  in_upper (mul_assign_z C so UPPER to t1 b1 s1 t2 b2 s2) z.
Proof.
  intros Hc H1 H2 H3. unfold mul_assign_z.
  destruct (Z.eqb_spec s1 0) as [E1|E1]; cbn [negb].
  - destruct (H3 E1) as [A B]. apply zero_U; auto. intros Ho. apply andb_true_iff in Ho. destruct Ho as [Ho1 Ho2].
    apply B; auto. apply orb_true_iff in Ho2. destruct Ho2 as [Ho2|Ho2]; auto.
    left. destruct (Z.eqb_spec s2 0); cbn in Ho2; auto; discriminate.
  - destruct (Z.eqb_spec s2 0) as [E2|E2]; cbn [negb].
    + destruct (H2 E1 E2) as [A B]. apply zero_U; auto.
    + apply arith_U with (e := val (bv b1) * val (bv b2)); auto. intros F1 F2.
      destruct (H1 E1 E2 F1 F2). split; [apply (l_mul C L)|]. split; auto.
Qed.

(* A factor: the bound b of type t, its sign s = sgn_b t b, a member x on the right side of it. *)
Record factor (t : btype) (b : bnd) (s : Z) (x : Q) : Prop := {
  f_sat : sat t b x;
  f_sgn : s = sgn_b C t b
}.

(* Everything the products need to know about a factor, in Q:
   kind: special or finite value v with its open flag; the sign s is that of the bound. *)
Lemma factor_cases t b s x :
  factor t b s x ->
  (bsp b = true /\ s = (match t with LOWER => -1 | UPPER => 1 end)%Z) \/
  (bsp b = false /\
   ((val (bv b) < 0 /\ s = (-1)%Z) \/ (val (bv b) == 0 /\ s = 0%Z) \/ (0 < val (bv b) /\ s = 1%Z)) /\
   match t with
   | LOWER => val (bv b) <= x /\ (gopen b = true -> val (bv b) < x)
   | UPPER => x <= val (bv b) /\ (gopen b = true -> x < val (bv b))
   end).
Proof.
  intros [H1 H2]. destruct (bsp b) eqn:E.
  - left. split; auto. subst s. destruct t; [apply sgn_b_inf_L | apply sgn_b_inf_U]; auto.
  - right. split; auto. rewrite (sgn_b_fin t b E) in H2. split.
    + pose proof (Qsgn_spec (val (bv b))) as Hs. subst s. tauto.
    + destruct t; cbn in H1; [apply in_lower_fin | apply in_upper_fin]; auto.
Qed.

Ltac fcases F :=
  let E := fresh "E" in let Hs := fresh "Hs" in let Hb := fresh "Hb" in let Es := fresh "Es" in
  let Ho := fresh "Ho" in
  destruct (factor_cases _ _ _ _ F) as [[E Es]|[E [Hs Hb]]];
  [ | destruct Hs as [[Hs Es]|[[Hs Es]|[Hs Es]]]; destruct Hb as [Hb Ho] ];
  subst.

Lemma Qtri x y : x < 0 \/ (x == 0 /\ x * y == 0 /\ y * x == 0) \/ 0 < x.
Proof.
  destruct (Q_dec x 0) as [[H|H]|H]; auto. right; left. split; auto. split; rewrite H; ring.
Qed.

Ltac tri x y := destruct (Qtri x y) as [?|[[? [? ?]]|?]].

Ltac arith_goal x y :=
  first [ nra | tri x y; first [ nra | tri y x; nra ] ].

Ltac fin_goal x y :=
  intros; subst;
  repeat match goal with H : _ \/ _ |- _ => destruct H end;
  try discriminate; try congruence; try lia; arith_goal x y.

Ltac mulz_tac F1 F2 x y :=
  fcases F1; fcases F2; try lia;
  (apply mulz_L || apply mulz_U); try assumption; intros; try lia; try congruence;
  (split; [arith_goal x y | open_cases; cbn; fin_goal x y]).

(* ---- products: lower results -------------------------------------------------------------------- *)

Lemma mul_lo_LL to a s1 c s2 x y :
  clean to -> factor LOWER a s1 x -> factor LOWER c s2 y -> (s1 >= 0)%Z -> (s2 >= 0)%Z ->
  in_lower (mul_assign_z C so LOWER to LOWER a s1 LOWER c s2) (x * y).
Proof. intros Hc F1 F2 S1 S2. mulz_tac F1 F2 x y. Qed.

Lemma mul_lo_UL_A to a s1 c s2 x y :
  clean to -> factor UPPER a s1 x -> factor LOWER c s2 y -> 0 <= x -> (s2 < 0)%Z ->
  in_lower (mul_assign_z C so LOWER to UPPER a s1 LOWER c s2) (x * y).
Proof. intros Hc F1 F2 S1 S2. mulz_tac F1 F2 x y. Qed.

Lemma mul_lo_UL_B to a s1 c s2 x y :
  clean to -> factor UPPER a s1 x -> factor LOWER c s2 y -> y <= 0 -> (s1 > 0)%Z ->
  in_lower (mul_assign_z C so LOWER to UPPER a s1 LOWER c s2) (x * y).
Proof. intros Hc F1 F2 S1 S2. mulz_tac F1 F2 x y. Qed.

Lemma mul_lo_LU_A to a s1 c s2 x y :
  clean to -> factor LOWER a s1 x -> factor UPPER c s2 y -> 0 <= y -> (s1 < 0)%Z ->
  in_lower (mul_assign_z C so LOWER to LOWER a s1 UPPER c s2) (x * y).
Proof. intros Hc F1 F2 S1 S2. mulz_tac F1 F2 x y. Qed.

Lemma mul_lo_LU_B to a s1 c s2 x y :
  clean to -> factor LOWER a s1 x -> factor UPPER c s2 y -> x <= 0 -> (s2 > 0)%Z ->
  in_lower (mul_assign_z C so LOWER to LOWER a s1 UPPER c s2) (x * y).
Proof. intros Hc F1 F2 S1 S2. mulz_tac F1 F2 x y. Qed.

Lemma mul_lo_UU to a s1 c s2 x y :
  clean to -> factor UPPER a s1 x -> factor UPPER c s2 y -> (s1 <= 0)%Z -> (s2 <= 0)%Z ->
  in_lower (mul_assign_z C so LOWER to UPPER a s1 UPPER c s2) (x * y).
Proof. intros Hc F1 F2 S1 S2. mulz_tac F1 F2 x y. Qed.

(* ---- products: upper results -------------------------------------------------------------------- *)

Lemma mul_up_UU_1 to a s1 c s2 x y :
  clean to -> factor UPPER a s1 x -> factor UPPER c s2 y -> 0 <= x -> 0 <= y ->
  in_upper (mul_assign_z C so UPPER to UPPER a s1 UPPER c s2) (x * y).
Proof. intros Hc F1 F2 S1 S2. mulz_tac F1 F2 x y. Qed.

Lemma mul_up_UU_A to a s1 c s2 x y :
  clean to -> factor UPPER a s1 x -> factor UPPER c s2 y -> 0 <= x -> (s2 > 0)%Z ->
  in_upper (mul_assign_z C so UPPER to UPPER a s1 UPPER c s2) (x * y).
Proof. intros Hc F1 F2 S1 S2. mulz_tac F1 F2 x y. Qed.

Lemma mul_up_UU_B to a s1 c s2 x y :
  clean to -> factor UPPER a s1 x -> factor UPPER c s2 y -> 0 <= y -> (s1 > 0)%Z ->
  in_upper (mul_assign_z C so UPPER to UPPER a s1 UPPER c s2) (x * y).
Proof. intros Hc F1 F2 S1 S2. mulz_tac F1 F2 x y. Qed.

Lemma mul_up_LU to a s1 c s2 x y :
  clean to -> factor LOWER a s1 x -> factor UPPER c s2 y -> (s1 >= 0)%Z -> (s2 <= 0)%Z ->
  in_upper (mul_assign_z C so UPPER to LOWER a s1 UPPER c s2) (x * y).
Proof. intros Hc F1 F2 S1 S2. mulz_tac F1 F2 x y. Qed.

Lemma mul_up_UL to a s1 c s2 x y :
  clean to -> factor UPPER a s1 x -> factor LOWER c s2 y -> (s1 <= 0)%Z -> (s2 >= 0)%Z ->
  in_upper (mul_assign_z C so UPPER to UPPER a s1 LOWER c s2) (x * y).
Proof. intros Hc F1 F2 S1 S2. mulz_tac F1 F2 x y. Qed.

Lemma mul_up_LL_1 to a s1 c s2 x y :
  clean to -> factor LOWER a s1 x -> factor LOWER c s2 y -> x <= 0 -> y <= 0 ->
  in_upper (mul_assign_z C so UPPER to LOWER a s1 LOWER c s2) (x * y).
Proof. intros Hc F1 F2 S1 S2. mulz_tac F1 F2 x y. Qed.

Lemma mul_up_LL_A to a s1 c s2 x y :
  clean to -> factor LOWER a s1 x -> factor LOWER c s2 y -> x <= 0 -> (s2 < 0)%Z ->
  in_upper (mul_assign_z C so UPPER to LOWER a s1 LOWER c s2) (x * y).
Proof. intros Hc F1 F2 S1 S2. mulz_tac F1 F2 x y. Qed.

Lemma mul_up_LL_B to a s1 c s2 x y :
  clean to -> factor LOWER a s1 x -> factor LOWER c s2 y -> y <= 0 -> (s1 < 0)%Z ->
  in_upper (mul_assign_z C so UPPER to LOWER a s1 LOWER c s2) (x * y).
Proof. intros Hc F1 F2 S1 S2. mulz_tac F1 F2 x y. Qed.

(* ---- both operands straddle zero: one of the two candidate lower (upper) products is a bound ---- *)

Lemma mul_strad_lo to1 to2 xl xu yl yu x y :
  clean to1 -> clean to2 ->
  factor LOWER xl (-1) x -> factor UPPER xu 1 x -> factor LOWER yl (-1) y -> factor UPPER yu 1 y ->
  in_lower (Boundary.mul_assign C so LOWER to1 LOWER xl UPPER yu) (x * y) \/
  in_lower (Boundary.mul_assign C so LOWER to2 UPPER xu LOWER yl) (x * y).
Proof.
  intros Hc1 Hc2 F1 F2 F3 F4.
  destruct (Qlt_le_dec x 0) as [Hx|Hx]; destruct (Qlt_le_dec y 0) as [Hy|Hy].
  - left. fcases F1; fcases F4; try lia; apply arith_L with (e := val (bv xl) * val (bv yu)); auto;
      intros; try congruence; (split; [apply (l_mul C L)|]); (split; [nra | intros; nra]).
  - left. fcases F1; fcases F4; try lia; apply arith_L with (e := val (bv xl) * val (bv yu)); auto;
      intros; try congruence; (split; [apply (l_mul C L)|]); (split; [nra | open_cases; cbn; intros; try discriminate; nra]).
  - right. fcases F2; fcases F3; try lia; apply arith_L with (e := val (bv xu) * val (bv yl)); auto;
      intros; try congruence; (split; [apply (l_mul C L)|]); (split; [nra | open_cases; cbn; intros; try discriminate; arith_goal x y]).
  - left. fcases F1; fcases F4; try lia; apply arith_L with (e := val (bv xl) * val (bv yu)); auto;
      intros; try congruence; (split; [apply (l_mul C L)|]); (split; [nra | intros; nra]).
Qed.

Lemma mul_strad_up to1 to2 xl xu yl yu x y :
  clean to1 -> clean to2 ->
  factor LOWER xl (-1) x -> factor UPPER xu 1 x -> factor LOWER yl (-1) y -> factor UPPER yu 1 y ->
  in_upper (Boundary.mul_assign C so UPPER to1 LOWER xl LOWER yl) (x * y) \/
  in_upper (Boundary.mul_assign C so UPPER to2 UPPER xu UPPER yu) (x * y).
Proof.
  intros Hc1 Hc2 F1 F2 F3 F4.
  destruct (Qlt_le_dec x 0) as [Hx|Hx]; destruct (Qlt_le_dec y 0) as [Hy|Hy].
  - left. fcases F1; fcases F3; try lia; apply arith_U with (e := val (bv xl) * val (bv yl)); auto;
      intros; try congruence; (split; [apply (l_mul C L)|]); (split; [nra | open_cases; cbn; intros; try discriminate; arith_goal x y]).
  - right. fcases F2; fcases F4; try lia; apply arith_U with (e := val (bv xu) * val (bv yu)); auto;
      intros; try congruence; (split; [apply (l_mul C L)|]); (split; [nra | intros; nra]).
  - right. fcases F2; fcases F4; try lia; apply arith_U with (e := val (bv xu) * val (bv yu)); auto;
      intros; try congruence; (split; [apply (l_mul C L)|]); (split; [nra | intros; nra]).
  - right. fcases F2; fcases F4; try lia; apply arith_U with (e := val (bv xu) * val (bv yu)); auto;
      intros; try congruence; (split; [apply (l_mul C L)|]); (split; [nra | open_cases; cbn; intros; try discriminate; arith_goal x y]).
Qed.

(* ---- quotients ---------------------------------------------------------------------------------- *)

Lemma div_cross a c x y : 0 < c * y -> x / y - a / c == (x * c - a * y) / (c * y).
Proof. intros H. field. split; intros E; rewrite E in H; lra. Qed.

Lemma div_le_cross a c x y : 0 < c * y -> a * y <= x * c -> a / c <= x / y.
Proof.
  intros H1 H2. pose proof (div_cross a c x y H1) as E.
  assert (0 <= (x * c - a * y) / (c * y)) by (apply Qle_shift_div_l; lra). lra.
Qed.
Lemma div_lt_cross a c x y : 0 < c * y -> a * y < x * c -> a / c < x / y.
Proof.
  intros H1 H2. pose proof (div_cross a c x y H1) as E.
  assert (0 < (x * c - a * y) / (c * y)) by (apply Qlt_shift_div_l; lra). lra.
Qed.
Lemma div_ge_cross a c x y : 0 < c * y -> x * c <= a * y -> x / y <= a / c.
Proof.
  intros H1 H2. assert (H3 : 0 < y * c) by lra. pose proof (div_cross x y a c H3) as E.
  assert (0 <= (a * y - x * c) / (y * c)) by (apply Qle_shift_div_l; lra). lra.
Qed.
Lemma div_gt_cross a c x y : 0 < c * y -> x * c < a * y -> x / y < a / c.
Proof.
  intros H1 H2. assert (H3 : 0 < y * c) by lra. pose proof (div_cross x y a c H3) as E.
  assert (0 < (a * y - x * c) / (y * c)) by (apply Qlt_shift_div_l; lra). lra.
Qed.

Lemma div_sq x y : ~ y == 0 -> x / y == (x * y) / (y * y).
Proof. intros H. field. auto. Qed.
Lemma sq_pos y : ~ y == 0 -> 0 < y * y.
Proof. intros H. nra. Qed.
Lemma div_nonneg x y : ~ y == 0 -> 0 <= x * y -> 0 <= x / y.
Proof. intros H1 H2. rewrite (div_sq x y H1). apply Qle_shift_div_l; [apply sq_pos; auto | lra]. Qed.
Lemma div_pos x y : ~ y == 0 -> 0 < x * y -> 0 < x / y.
Proof. intros H1 H2. rewrite (div_sq x y H1). apply Qlt_shift_div_l; [apply sq_pos; auto | lra]. Qed.
Lemma div_nonpos x y : ~ y == 0 -> x * y <= 0 -> x / y <= 0.
Proof. intros H1 H2. rewrite (div_sq x y H1). apply Qle_shift_div_r; [apply sq_pos; auto | lra]. Qed.
Lemma div_neg x y : ~ y == 0 -> x * y < 0 -> x / y < 0.
Proof. intros H1 H2. rewrite (div_sq x y H1). apply Qlt_shift_div_r; [apply sq_pos; auto | lra]. Qed.

Lemma divz_L to t1 b1 s1 t2 b2 s2 z :
  clean to ->
  (s1 <> 0%Z -> s2 <> 0%Z -> bsp b1 = false -> bsp b2 = false ->
     ~ val (bv b2) == 0 /\ val (bv b1) / val (bv b2) <= z /\
     (gopen b1 || gopen b2 = true -> val (bv b1) / val (bv b2) < z)) ->
  (s1 <> 0%Z -> s2 <> 0%Z -> bsp b1 = false -> bsp b2 = true -> 0 < z) ->
  (s1 = 0%Z -> 0 <= z /\ (gopen b1 = true -> 0 < z)) ->
  in_lower (div_assign_z C so LOWER to t1 b1 s1 t2 b2 s2) z.
Proof.
  intros Hc H1 H2 H3. unfold div_assign_z.
  destruct (Z.eqb_spec s1 0) as [E1|E1]; cbn [negb].
  - destruct (H3 E1) as [A B]. apply zero_L; auto. intros Ho. apply andb_true_iff in Ho. tauto.
  - destruct (Z.eqb_spec s2 0) as [E2|E2]; cbn [negb]; [apply inf_L|].
    unfold Boundary.div_assign, is_boundary_infinity, get_special.
    destruct (bsp b1) eqn:F1; [apply inf_L|]. destruct (bsp b2) eqn:F2.
    + apply zero_L; auto. pose proof (H2 E1 E2 eq_refl eq_refl). lra.
    + destruct (H1 E1 E2 eq_refl eq_refl) as [N [A B]].
      rewrite (pair_eta _ _ (cdiv C LOWER (bv b1) (bv b2))).
      eapply adj_L; eauto. { rewrite <- pair_eta. apply (l_div C L); auto. } rewrite !nio_eq. auto.
Qed.

Lemma divz_U to t1 b1 s1 t2 b2 s2 z :
  clean to ->
  (s1 <> 0%Z -> s2 <> 0%Z -> bsp b1 = false -> bsp b2 = false ->
     ~ val (bv b2) == 0 /\ z <= val (bv b1) / val (bv b2) /\
     (gopen b1 || gopen b2 = true -> z < val (bv b1) / val (bv b2))) ->
  (s1 <> 0%Z -> s2 <> 0%Z -> bsp b1 = false -> bsp b2 = true -> z < 0) ->
  (s1 = 0%Z -> z <= 0 /\ (gopen b1 = true -> z < 0)) ->
  in_upper (div_assign_z C so UPPER to t1 b1 s1 t2 b2 s2) z.
Proof.
  intros Hc H1 H2 H3. unfold div_assign_z.
  destruct (Z.eqb_spec s1 0) as [E1|E1]; cbn [negb].
  - destruct (H3 E1) as [A B]. apply zero_U; auto. intros Ho. apply andb_true_iff in Ho. tauto.
  - destruct (Z.eqb_spec s2 0) as [E2|E2]; cbn [negb]; [apply inf_U|].
    unfold Boundary.div_assign, is_boundary_infinity, get_special.
    destruct (bsp b1) eqn:F1; [apply inf_U|]. destruct (bsp b2) eqn:F2.
    + apply zero_U; auto. pose proof (H2 E1 E2 eq_refl eq_refl). lra.
    + destruct (H1 E1 E2 eq_refl eq_refl) as [N [A B]].
      rewrite (pair_eta _ _ (cdiv C UPPER (bv b1) (bv b2))).
      eapply adj_U; eauto. { rewrite <- pair_eta. apply (l_div C L); auto. } rewrite !nio_eq. auto.
Qed.

Ltac div_goal x y :=
  lazymatch goal with
  | |- ~ _ == 0 => lra
  | |- _ / _ <= x / y => apply div_le_cross; arith_goal x y
  | |- _ / _ < x / y => apply div_lt_cross; arith_goal x y
  | |- x / y <= _ / _ => apply div_ge_cross; arith_goal x y
  | |- x / y < _ / _ => apply div_gt_cross; arith_goal x y
  | |- 0 <= x / y => apply div_nonneg; [lra | arith_goal x y]
  | |- 0 < x / y => apply div_pos; [lra | arith_goal x y]
  | |- x / y <= 0 => apply div_nonpos; [lra | arith_goal x y]
  | |- x / y < 0 => apply div_neg; [lra | arith_goal x y]
  | |- _ => idtac
  end.

Ltac divz_tac F1 F2 x y :=
  fcases F1; fcases F2; try lia;
  (apply divz_L || apply divz_U); try assumption; intros; try lia; try congruence;
  repeat match goal with H : _ \/ _ |- _ => destruct H end; try lia;
  repeat split; try (open_cases; cbn; intros); try discriminate; div_goal x y.

(* lower results *)
Lemma div_lo_LU to a s1 c s2 x y :
  clean to -> factor LOWER a s1 x -> factor UPPER c s2 y -> (s1 >= 0)%Z -> 0 < y ->
  in_lower (div_assign_z C so LOWER to LOWER a s1 UPPER c s2) (x / y).
Proof. intros Hc F1 F2 S1 S2. divz_tac F1 F2 x y. Qed.

Lemma div_lo_LL to a s1 c s2 x y :
  clean to -> factor LOWER a s1 x -> factor LOWER c s2 y -> (s1 < 0)%Z -> (s2 >= 0)%Z -> 0 < y ->
  in_lower (div_assign_z C so LOWER to LOWER a s1 LOWER c s2) (x / y).
Proof. intros Hc F1 F2 S1 S2 S3. divz_tac F1 F2 x y. Qed.

Lemma div_lo_UU to a s1 c s2 x y :
  clean to -> factor UPPER a s1 x -> factor UPPER c s2 y -> 0 <= x \/ (s1 > 0)%Z -> (s2 <= 0)%Z -> y < 0 ->
  in_lower (div_assign_z C so LOWER to UPPER a s1 UPPER c s2) (x / y).
Proof. intros Hc F1 F2 S1 S2 S3. divz_tac F1 F2 x y. Qed.

Lemma div_lo_UL to a s1 c s2 x y :
  clean to -> factor UPPER a s1 x -> factor LOWER c s2 y -> (s1 <= 0)%Z -> y < 0 ->
  in_lower (div_assign_z C so LOWER to UPPER a s1 LOWER c s2) (x / y).
Proof. intros Hc F1 F2 S1 S2. divz_tac F1 F2 x y. Qed.

(* upper results *)
Lemma div_up_UL to a s1 c s2 x y :
  clean to -> factor UPPER a s1 x -> factor LOWER c s2 y -> 0 <= x \/ (s1 > 0)%Z -> (s2 >= 0)%Z -> 0 < y ->
  in_upper (div_assign_z C so UPPER to UPPER a s1 LOWER c s2) (x / y).
Proof. intros Hc F1 F2 S1 S2 S3. divz_tac F1 F2 x y. Qed.

Lemma div_up_UU to a s1 c s2 x y :
  clean to -> factor UPPER a s1 x -> factor UPPER c s2 y -> (s1 <= 0)%Z -> 0 < y ->
  in_upper (div_assign_z C so UPPER to UPPER a s1 UPPER c s2) (x / y).
Proof. intros Hc F1 F2 S1 S2. divz_tac F1 F2 x y. Qed.

Lemma div_up_LL to a s1 c s2 x y :
  clean to -> factor LOWER a s1 x -> factor LOWER c s2 y -> (s1 >= 0)%Z -> y < 0 ->
  in_upper (div_assign_z C so UPPER to LOWER a s1 LOWER c s2) (x / y).
Proof. intros Hc F1 F2 S1 S2. divz_tac F1 F2 x y. Qed.

Lemma div_up_LU to a s1 c s2 x y :
  clean to -> factor LOWER a s1 x -> factor UPPER c s2 y -> (s1 < 0)%Z -> (s2 <= 0)%Z -> y < 0 ->
  in_upper (div_assign_z C so UPPER to LOWER a s1 UPPER c s2) (x / y).
Proof. intros Hc F1 F2 S1 S2 S3. divz_tac F1 F2 x y. Qed.

End Arith.
