(* C12 -- membership in the denoted interval, carrier laws, soundness of the boundary operations. *)
From Coq Require Import ZArith QArith Bool Lia Lqa.
From PPLV Require Import Itv.Boundary Itv.Interval Itv.QCarrier.
Local Open Scope Q_scope.

(* ---------------------------------------------------------------------------------------------- *)
(* signs                                                                                           *)

Lemma Qsgn_spec q :
  (q < 0 /\ Qsgn q = (-1)%Z) \/ (q == 0 /\ Qsgn q = 0%Z) \/ (0 < q /\ Qsgn q = 1%Z).
Proof.
  destruct q as [n d]. unfold Qsgn, Qlt, Qeq. cbn [Qnum Qden].
  destruct n; cbn; [right; left | right; right | left]; split; auto; lia.
Qed.

(* ---------------------------------------------------------------------------------------------- *)
(* carrier laws                                                                                    *)

Section Laws.
Variable C : Carrier.

Definition rounds (t : btype) (res : cT C * bool) (exact : Q) : Prop :=
  match t with
  | LOWER => cval C (fst res) <= exact /\ (snd res = true -> cval C (fst res) < exact)
  | UPPER => exact <= cval C (fst res) /\ (snd res = true -> exact < cval C (fst res))
  end.

Definition exact_res (res : cT C * bool) (q : Q) : Prop := cval C (fst res) == q /\ snd res = false.

Record CarrierLaws : Prop := {
  l_zero : cval C (czero C) == 0;
  l_one : cval C (cone C) == 1;
  l_sgn : forall a, csgn C a = Qsgn (cval C a);
  l_eqb : forall a b, ceqb C a b = true <-> cval C a == cval C b;
  l_leb : forall a b, cleb C a b = true <-> cval C a <= cval C b;
  l_ltb : forall a b, cltb C a b = true <-> cval C a < cval C b;
  l_neg : forall t a, rounds t (cneg C t a) (- cval C a);
  l_add : forall t a b, rounds t (cadd C t a b) (cval C a + cval C b);
  l_sub : forall t a b, rounds t (csub C t a b) (cval C a - cval C b);
  l_mul : forall t a b, rounds t (cmul C t a b) (cval C a * cval C b);
  l_div : forall t a b, ~ cval C b == 0 -> rounds t (cdiv C t a b) (cval C a / cval C b)
}.

Record ExactLaws : Prop := {
  e_neg : forall t a, exact_res (cneg C t a) (- cval C a);
  e_add : forall t a b, exact_res (cadd C t a b) (cval C a + cval C b);
  e_sub : forall t a b, exact_res (csub C t a b) (cval C a - cval C b);
  e_mul : forall t a b, exact_res (cmul C t a b) (cval C a * cval C b);
  e_div : forall t a b, ~ cval C b == 0 -> exact_res (cdiv C t a b) (cval C a / cval C b)
}.

Lemma exact_rounds t res q : exact_res res q -> rounds t res q.
Proof.
  intros [H1 H2]. destruct t; cbn; rewrite H1, H2; split; try lra; discriminate.
Qed.

End Laws.

Ltac qc_unf := cbn [QC cT cval czero cone csgn ceqb cleb cltb cneg cadd csub cmul cdiv fst snd].

Lemma QC_laws : CarrierLaws QC.
Proof.
  constructor; intros; qc_unf; try reflexivity.
  - apply Qeq_bool_iff.
  - apply Qle_bool_iff.
  - unfold Qltb. rewrite negb_true_iff. rewrite <- not_true_iff_false, Qle_bool_iff. split; lra.
  - apply exact_rounds. split; qc_unf; [apply Qred_correct | reflexivity].
  - apply exact_rounds. split; qc_unf; [apply Qred_correct | reflexivity].
  - apply exact_rounds. split; qc_unf; [apply Qred_correct | reflexivity].
  - apply exact_rounds. split; qc_unf; [apply Qred_correct | reflexivity].
  - apply exact_rounds. split; qc_unf; [apply Qred_correct | reflexivity].
Qed.

Lemma QC_exact : ExactLaws QC.
Proof.
  constructor; intros; split; qc_unf; try apply Qred_correct; reflexivity.
Qed.

(* ---------------------------------------------------------------------------------------------- *)
(* membership                                                                                      *)

Ltac bool_to_Q :=
  repeat match goal with
  | L : CarrierLaws ?C, H : cleb ?C _ _ = true |- _ => apply (l_leb C L) in H
  | L : CarrierLaws ?C, H : cltb ?C _ _ = true |- _ => apply (l_ltb C L) in H
  | L : CarrierLaws ?C, H : ceqb ?C _ _ = true |- _ => apply (l_eqb C L) in H
  | L : CarrierLaws ?C, H : cleb ?C ?a ?b = false |- _ =>
      assert (~ cval C a <= cval C b) by (rewrite <- (l_leb C L), H; discriminate); clear H
  | L : CarrierLaws ?C, H : cltb ?C ?a ?b = false |- _ =>
      assert (~ cval C a < cval C b) by (rewrite <- (l_ltb C L), H; discriminate); clear H
  | L : CarrierLaws ?C, H : ceqb ?C ?a ?b = false |- _ =>
      assert (~ cval C a == cval C b) by (rewrite <- (l_eqb C L), H; discriminate); clear H
  end.

Ltac unf0 :=
  unfold lt, gt, le, ge, eq, is_open, is_minus_infinity, is_plus_infinity,
    is_boundary_infinity, get_open, get_special, btype_eqb, is_lower, is_upper, mci,
    normal_is_open, special_is_open, boundary_infinity_is_open, is_boundary_infinity_closed in *;
  cbn [bv bsp bop negb andb orb Bool.eqb] in *.

Ltac unfb :=
  unfold assign, complement, set_boundary_infinity, set_minus_infinity, set_plus_infinity, set_unbounded,
    adjust_boundary, set_zero, set_open, set_special, set_val, clear_props in *.

Section Mem.
Variable C : Carrier.
Variable so : bool.
Hypothesis L : CarrierLaws C.

Notation bnd := (bnd C).
Notation itv := (itv C).
Notation val := (cval C).

(* x satisfies the bound b read as a lower (resp. upper) bound *)
Definition in_lower (b : bnd) (x : Q) : Prop :=
  if bsp b then True else if get_open C so b then val (bv b) < x else val (bv b) <= x.
Definition in_upper (b : bnd) (x : Q) : Prop :=
  if bsp b then True else if get_open C so b then x < val (bv b) else x <= val (bv b).
Definition sat (t : btype) (b : bnd) (x : Q) : Prop :=
  match t with LOWER => in_lower b x | UPPER => in_upper b x end.

Definition mem (x : Q) (I : itv) : Prop := in_lower (lower I) x /\ in_upper (upper I) x.

Ltac unf := unfold in_lower, in_upper, sat in *; unf0.

Lemma in_lower_proper b x y : x == y -> in_lower b x -> in_lower b y.
Proof. unfold in_lower. intros E. destruct (bsp b), (get_open C so b); auto; lra. Qed.
Lemma in_upper_proper b x y : x == y -> in_upper b x -> in_upper b y.
Proof. unfold in_upper. intros E. destruct (bsp b), (get_open C so b); auto; lra. Qed.
Lemma mem_proper x y I : x == y -> mem x I -> mem y I.
Proof. intros E [H1 H2]. split; [eapply in_lower_proper | eapply in_upper_proper]; eauto. Qed.

(* lt between two lower bounds / two upper bounds / an upper and a lower one *)
Lemma lt_LL_true b1 b2 x : lt C so LOWER b1 LOWER b2 = true -> in_lower b2 x -> in_lower b1 x.
Proof.
  destruct b1 as [v1 s1 o1], b2 as [v2 s2 o2]. unf.
  destruct so, s1, s2, o1, o2; cbn; intros H; try discriminate; auto; bool_to_Q; lra.
Qed.

Lemma lt_LL_false b1 b2 x : lt C so LOWER b1 LOWER b2 = false -> in_lower b1 x -> in_lower b2 x.
Proof.
  destruct b1 as [v1 s1 o1], b2 as [v2 s2 o2]. unf.
  destruct so, s1, s2, o1, o2; cbn; intros H; try discriminate; auto; bool_to_Q; lra.
Qed.

Lemma lt_UU_true b1 b2 x : lt C so UPPER b1 UPPER b2 = true -> in_upper b1 x -> in_upper b2 x.
Proof.
  destruct b1 as [v1 s1 o1], b2 as [v2 s2 o2]. unf.
  destruct so, s1, s2, o1, o2; cbn; intros H; try discriminate; auto; bool_to_Q; lra.
Qed.

Lemma lt_UU_false b1 b2 x : lt C so UPPER b1 UPPER b2 = false -> in_upper b2 x -> in_upper b1 x.
Proof.
  destruct b1 as [v1 s1 o1], b2 as [v2 s2 o2]. unf.
  destruct so, s1, s2, o1, o2; cbn; intros H; try discriminate; auto; bool_to_Q; lra.
Qed.

(* upper u strictly below lower l: nothing satisfies both; and conversely *)
Lemma lt_UL_true u l x : lt C so UPPER u LOWER l = true -> in_upper u x -> in_lower l x -> False.
Proof.
  destruct u as [v1 s1 o1], l as [v2 s2 o2]. unf.
  destruct so, s1, s2, o1, o2; cbn; intros H; try discriminate; auto; bool_to_Q; lra.
Qed.

Lemma lt_UL_false u l : lt C so UPPER u LOWER l = false -> exists x, in_lower l x /\ in_upper u x.
Proof.
  destruct u as [v1 s1 o1], l as [v2 s2 o2]. unf.
  destruct s1, s2.
  - exists 0. cbn. auto.
  - exists (val v2 + 1). cbn. destruct so, o2; cbn; split; auto; lra.
  - exists (val v1 - 1). cbn. destruct so, o1; cbn; split; auto; lra.
  - destruct so, o1, o2; cbn; intros H; bool_to_Q;
      exists ((val v1 + val v2) / 2); split;
      try (apply Qle_shift_div_l; lra); try (apply Qle_shift_div_r; lra);
      try (apply Qlt_shift_div_l; lra); try (apply Qlt_shift_div_r; lra).
Qed.

(* lower l strictly above upper u (gt LOWER l UPPER u = lt UPPER u LOWER l): same thing *)

Definition is_empty_spec (I : itv) : Prop := forall x, ~ mem x I.

Lemma is_empty_true I : is_empty C so I = true -> forall x, ~ mem x I.
Proof. intros H x [H1 H2]. eapply lt_UL_true; eauto. Qed.

Lemma is_empty_false I : is_empty C so I = false -> exists x, mem x I.
Proof. intros H. apply lt_UL_false in H. destruct H as [x [H1 H2]]. exists x. split; auto. Qed.

Lemma mem_not_empty x I : mem x I -> is_empty C so I = false.
Proof.
  intros H. destruct (is_empty C so I) eqn:E; auto. exfalso. eapply is_empty_true; eauto.
Qed.

Lemma not_mem_assign_empty z x : ~ mem x (assign_empty C z).
Proof.
  unfold mem, assign_empty, in_lower, in_upper, get_open. cbn [lower upper bv bsp bop].
  pose proof (l_zero C L). pose proof (l_one C L). destruct so; intros [H1 H2]; lra.
Qed.

(* ---------------------------------------------------------------------------------------------- *)
(* boundary transfer: assign, complement, min/max                                                  *)

Definition clean (b : bnd) : Prop := bsp b = false /\ bop b = false.
Lemma clean_clear b : clean (clear_props C b).
Proof. split; reflexivity. Qed.

Lemma assign_L to b sh x :
  clean to -> in_lower b x -> (sh = true -> bsp b = false -> val (bv b) < x) ->
  in_lower (assign C so LOWER to LOWER b sh) x.
Proof.
  destruct b as [v s o], to as [tv ts tp]. intros [Hc1 Hc2]. cbn in Hc1, Hc2. subst ts tp. unfb. unf.
  destruct s, sh, so, o; cbn; auto; intros H1 H2; auto; try lra;
    try (specialize (H2 eq_refl eq_refl); lra).
Qed.

Lemma assign_U to b sh x :
  clean to -> in_upper b x -> (sh = true -> bsp b = false -> x < val (bv b)) ->
  in_upper (assign C so UPPER to UPPER b sh) x.
Proof.
  destruct b as [v s o], to as [tv ts tp]. intros [Hc1 Hc2]. cbn in Hc1, Hc2. subst ts tp. unfb. unf.
  destruct s, sh, so, o; cbn; auto; intros H1 H2; auto; try lra;
    try (specialize (H2 eq_refl eq_refl); lra).
Qed.

(* converse, for exactness of intersection: with sh = false and store_open the bound is copied *)
Lemma assign_L_inv to b x :
  so = true -> in_lower (assign C so LOWER (clear_props C to) LOWER b false) x -> in_lower b x.
Proof.
  intros ->. destruct b as [v s o], to as [tv ts tp].
  unfold assign, set_boundary_infinity, adjust_boundary, set_open, set_special, set_val, clear_props. unf.
  destruct s; cbn; auto. destruct o; cbn; auto.
Qed.

Lemma assign_U_inv to b x :
  so = true -> in_upper (assign C so UPPER (clear_props C to) UPPER b false) x -> in_upper b x.
Proof.
  intros ->. destruct b as [v s o], to as [tv ts tp].
  unfold assign, set_boundary_infinity, adjust_boundary, set_open, set_special, set_val, clear_props. unf.
  destruct s; cbn; auto. destruct o; cbn; auto.
Qed.

End Mem.
