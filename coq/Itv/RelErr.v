(* C12 -- Linear_Form<C>::relative_error (src/Linear_Form_templates.hh:416-486) over the Interval model.
   error_propagator = [-lb, lb]; every entry I of the form contributes
   max(|I.lower()|, |I.upper()|) * error_propagator.
   Simplification (stated in LinForm.v): the loop's `result += term' also adds 0 * multiplier *
   error_propagator to the other entries; those additions of exact zeros are elided. *)
From Coq Require Import ZArith QArith Qabs Qminmax Bool List Lia Lqa.
From PPLV Require Import Itv.Boundary Itv.Interval Itv.QCarrier Itv.Sound Itv.Arith Itv.Encl Itv.Sets Itv.LinForm.
Import ListNotations.
Local Open Scope Q_scope.

Section RelErr.
Variable C : Carrier.
Variable so : bool.
Hypothesis L : CarrierLaws C.

Notation itv := (itv C).
Notation mem := (mem C so).
Notation val := (cval C).

(* what the analyser's bound type provides: std::max(std::abs(a), std::abs(b)), the constants lb and -lb *)
Variable cabsmax : cT C -> cT C -> cT C.
Variables clb clbn : cT C.
Variable ulp : Q.
Hypothesis Habs : forall a b, val (cabsmax a b) == Qmax (Qabs (val a)) (Qabs (val b)).
Hypothesis Hlb : val clb == ulp.
Hypothesis Hlbn : val clbn == - ulp.
Hypothesis Hulp : 0 <= ulp.

Definition of_scalar (x : cT C) : itv := mkI (mkB x false false) (mkB x false false).   (* C(x) *)
Definition error_propagator : itv := mkI (mkB clbn false false) (mkB clb false false).
Definition multiplier (I : itv) : itv := of_scalar (cabsmax (bv (lower I)) (bv (upper I))).

Definition rel_entry0 (I : itv) : itv := multo C so (multiplier I) error_propagator.
Definition rel_entry_var (I : itv) : itv :=
  multo C so (multo C so (of_scalar (cone C)) (multiplier I)) error_propagator.

Definition relative_error (f : lform C) : lform C :=
  match f with
  | [] => []
  | c0 :: cs => rel_entry0 c0 :: map rel_entry_var cs
  end.

Definition bounded (I : itv) : Prop := bsp (lower I) = false /\ bsp (upper I) = false.
Definition Mq (I : itv) : Q := Qmax (Qabs (val (bv (lower I)))) (Qabs (val (bv (upper I)))).

Lemma scalar_mem x q : q == val x -> mem q (of_scalar x).
Proof.
  intros E. unfold Sound.mem, of_scalar, Sound.in_lower, Sound.in_upper, get_open. cbn [lower upper bv bsp bop].
  destruct so; split; lra.
Qed.

Lemma ep_mem t : Qabs t <= ulp -> mem t error_propagator.
Proof.
  intros H. apply Qabs_Qle_condition in H.
  unfold Sound.mem, error_propagator, Sound.in_lower, Sound.in_upper, get_open. cbn [lower upper bv bsp bop].
  destruct so; split; lra.
Qed.

Lemma mem_absmax I c : bounded I -> mem c I -> Qabs c <= Mq I.
Proof.
  intros [B1 B2] [H1 H2]. apply (in_lower_fin C so) in H1; auto. apply (in_upper_fin C so) in H2; auto.
  destruct H1 as [H1 _], H2 as [H2 _]. unfold Mq.
  set (l := val (bv (lower I))) in *. set (u := val (bv (upper I))) in *.
  apply Qabs_case; intros Hc.
  - apply Qle_trans with (Qabs u); [|apply Q.le_max_r]. apply Qle_trans with u; [lra|apply Qle_Qabs].
  - apply Qle_trans with (Qabs l); [|apply Q.le_max_l]. rewrite <- Qabs_opp. apply Qle_trans with (- l); [lra|apply Qle_Qabs].
Qed.

Lemma entry0_mem I t : Qabs t <= ulp -> mem (Mq I * t) (rel_entry0 I).
Proof.
  intros H. unfold rel_entry0, multo. apply (mul_encloses C so L); [|apply ep_mem; auto].
  apply scalar_mem. unfold Mq. rewrite Habs. reflexivity.
Qed.

Lemma entry_var_mem I t : Qabs t <= ulp -> mem (Mq I * t) (rel_entry_var I).
Proof.
  intros H. unfold rel_entry_var, multo. apply (mem_proper C so ((1 * Mq I) * t)); [ring|].
  apply (mul_encloses C so L); [|apply ep_mem; auto].
  apply (mul_encloses C so L).
  - apply scalar_mem. rewrite (l_one C L). reflexivity.
  - apply scalar_mem. unfold Mq. rewrite Habs. reflexivity.
Qed.

(* ---- lists -------------------------------------------------------------------------------------- *)

Fixpoint wsum (Ms xs : list Q) : Q :=
  match Ms, xs with
  | m :: Ms', x :: xs' => m * Qabs x + wsum Ms' xs'
  | _, _ => 0
  end.

Lemma dot_le_wsum cs Ms : Forall2 (fun c m => Qabs c <= m) cs Ms -> forall xs, Qabs (dot cs xs) <= wsum Ms xs.
Proof.
  induction 1 as [|c m cs Ms Hc H IH]; intros xs; cbn [dot wsum].
  - cbn. lra.
  - destruct xs as [|x xs]; [cbn; lra|].
    eapply Qle_trans; [apply Qabs_triangle|]. rewrite Qabs_Qmult. specialize (IH xs).
    pose proof (Qabs_nonneg x). nra.
Qed.

Definition sg (x : Q) : Q := if Qle_bool 0 x then 1 else -1.
Lemma sg_abs x : sg x * x == Qabs x.
Proof.
  unfold sg. destruct (Qle_bool 0 x) eqn:E.
  - apply Qle_bool_iff in E. rewrite Qabs_pos; lra.
  - assert (~ 0 <= x) by (rewrite <- Qle_bool_iff, E; discriminate). rewrite Qabs_neg; lra.
Qed.
Lemma sg_one x : Qabs (sg x) == 1.
Proof. unfold sg. destruct (Qle_bool 0 x); reflexivity. Qed.

Fixpoint wit (k : Q) (Ms xs : list Q) : list Q :=
  match Ms with
  | [] => []
  | m :: Ms' => match xs with
                | x :: xs' => m * (k * sg x) :: wit k Ms' xs'
                | [] => m * 0 :: wit k Ms' []
                end
  end.

Lemma dot_wit k Ms : forall xs, dot (wit k Ms xs) xs == k * wsum Ms xs.
Proof.
  induction Ms as [|m Ms IH]; intros xs; cbn [wit dot wsum]; [ring|].
  destruct xs as [|x xs]; cbn [dot]; [ring|]. rewrite IH. rewrite <- (sg_abs x). ring.
Qed.

Lemma wsum_nonneg Ms : Forall (fun m => 0 <= m) Ms -> forall xs, 0 <= wsum Ms xs.
Proof.
  induction 1 as [|m Ms Hm H IH]; intros xs; cbn [wsum]; [lra|]. destruct xs as [|x xs]; [lra|].
  specialize (IH xs). pose proof (Qabs_nonneg x). nra.
Qed.

Lemma points_wit (g : itv -> itv) k :
  Qabs k <= ulp -> 0 <= ulp ->
  (forall I t, Qabs t <= ulp -> mem (Mq I * t) (g I)) ->
  forall f xs, points C so (wit k (map Mq f) xs) (map g f).
Proof.
  intros Hk Hu Hg. induction f as [|I f IH]; intros xs; cbn [map wit]; [constructor|].
  destruct xs as [|x xs]; (constructor; [|apply IH]).
  - apply Hg. rewrite Qabs_pos; lra.
  - apply Hg. rewrite Qabs_Qmult, sg_one. lra.
Qed.

Theorem relative_error_encloses rho f v e :
  Forall bounded f -> lf_mem C so rho f v -> Qabs e <= ulp * Qabs v ->
  lf_mem C so rho (relative_error f) e.
Proof.
  intros Hb [cs [P E]] He.
  pose proof Hulp as Hu.
  set (xs := 1 :: rho). set (Ms := map Mq f).
  assert (HM : Forall2 (fun c m => Qabs c <= m) cs Ms).
  { unfold Ms. clear E He. induction P as [|c I cs f Hc P IH]; cbn; constructor.
    - inversion Hb; subst. apply mem_absmax; auto.
    - inversion Hb; subst. apply IH; auto. }
  assert (HMs : Forall (fun m => 0 <= m) Ms).
  { unfold Ms. clear. induction f as [|I f IH]; cbn; constructor; auto.
    unfold Mq. eapply Qle_trans; [apply (Qabs_nonneg (val (bv (lower I))))|apply Q.le_max_l]. }
  pose proof (dot_le_wsum cs Ms HM xs) as Hv. pose proof (wsum_nonneg Ms HMs xs) as HS.
  set (S := wsum Ms xs) in *.
  unfold lf_val in E. fold xs in E. rewrite <- E in Hv.
  (* the scaling factor *)
  assert (Hk : exists k, Qabs k <= ulp /\ k * S == e).
  { destruct (Qeq_dec S 0) as [Z|Z].
    - exists 0. split; [rewrite Qabs_pos; lra|].
      assert (Qabs v == 0) by (pose proof (Qabs_nonneg v); lra).
      assert (Qabs e == 0) by (pose proof (Qabs_nonneg e); nra).
      assert (Ee : Qabs e <= 0) by lra. apply Qabs_Qle_condition in Ee. lra.
    - exists (e / S). split; [|field; auto].
      assert (0 < S) by lra. unfold Qdiv. rewrite Qabs_Qmult. rewrite (Qabs_pos (/ S)).
      2:{ apply Qlt_le_weak. apply Qinv_lt_0_compat. auto. }
      apply Qle_shift_div_r; auto. pose proof (Qabs_nonneg v). nra. }
  destruct Hk as [k [Hk1 Hk2]].
  exists (wit k Ms xs). split.
  - unfold relative_error. destruct f as [|I0 f']; [constructor|].
    unfold Ms, xs. cbn [map wit]. constructor.
    + apply entry0_mem. rewrite Qabs_Qmult, sg_one. lra.
    + apply points_wit; auto. apply entry_var_mem.
  - unfold lf_val. fold xs. rewrite dot_wit. fold S. lra.
Qed.

End RelErr.
