(* C12 -- the entry points extracted for the correspondence check: the model instantiated with the
   exact rational carrier; [so] is Info::store_open of the interval type under test. *)
From Coq Require Import ZArith QArith Bool.
From PPLV Require Import Itv.Boundary Itv.Interval Itv.QCarrier.

Definition q_itv := itv QC.
Definition q_mk (lv : Q) (lsp lop : bool) (uv : Q) (usp uop : bool) : q_itv :=
  mkI (mkB (C := QC) lv lsp lop) (mkB (C := QC) uv usp uop).
Definition q_lower (x : q_itv) : Q * (bool * bool) := (bv (lower x), (bsp (lower x), bop (lower x))).
Definition q_upper (x : q_itv) : Q * (bool * bool) := (bv (upper x), (bsp (upper x), bop (upper x))).

Definition q_is_empty (so : bool) (x : q_itv) := is_empty QC so x.
Definition q_is_singleton (so : bool) (x : q_itv) := is_singleton QC so x.
Definition q_lower_is_open (so : bool) (x : q_itv) := is_open QC so LOWER (lower x).
Definition q_upper_is_open (so : bool) (x : q_itv) := is_open QC so UPPER (upper x).

Definition q_neg (so : bool) (z x : q_itv) := Interval.neg_assign QC so z x.
Definition q_add (so : bool) (z x y : q_itv) := Interval.add_assign QC so z x y.
Definition q_sub (so : bool) (z x y : q_itv) := Interval.sub_assign QC so z x y.
Definition q_mul (so : bool) (z x y : q_itv) := Interval.mul_assign QC so z x y.
Definition q_mul_diag (so : bool) (z x y : q_itv) := Interval.mul_diag QC so z x y.
Definition q_div (so : bool) (z x y : q_itv) := Interval.div_assign QC so z x y.
Definition q_join1 (so : bool) (z x : q_itv) := join_assign1 QC so z x.
Definition q_join2 (so : bool) (z x y : q_itv) := join_assign2 QC so z x y.
Definition q_int1 (so : bool) (z x : q_itv) := intersect_assign1 QC so z x.
Definition q_int2 (so : bool) (z x y : q_itv) := intersect_assign2 QC so z x y.
Definition q_dif1 (so : bool) (z x : q_itv) := difference_assign1 QC so z x.
Definition q_dif2 (so : bool) (z x y : q_itv) := difference_assign2 QC so z x y.
Definition q_rex (so : bool) (r : relsym) (z x : q_itv) := refine_existential QC so r z x.
Definition q_run (so : bool) (r : relsym) (z x : q_itv) := refine_universal QC so r z x.
