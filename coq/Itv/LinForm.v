(* C12 -- Linear_Form<C>: linear forms with interval coefficients (src/Linear_Form_templates.hh,
   Linear_Form_inlines.hh) over the Interval model.  A form is its vector `vec': entry 0 is the
   inhomogeneous term, entry i+1 the coefficient of Variable(i).
   Receivers: `Linear_Form r(size, false)' builds default intervals; every theorem below holds for an
   arbitrary receiver [z0], so its content is left as a parameter.
   relative_error: the additions of products by zero the C++ loop performs (`result += term' adds
   0 * multiplier * error_propagator to the entries other than the current one) are elided: see
   [relative_error] below. *)
From Coq Require Import ZArith QArith Qabs Bool List Lia Lqa.
From PPLV Require Import Itv.Boundary Itv.Interval Itv.QCarrier Itv.Sound Itv.Arith Itv.Encl Itv.Sets.
Import ListNotations.
Local Open Scope Q_scope.

Section LinForm.
Variable C : Carrier.
Variable so : bool.
Hypothesis L : CarrierLaws C.

Notation itv := (itv C).
Notation mem := (mem C so).
Definition lform := list itv.

Variable z0 : itv.      (* content of a freshly built entry *)

Definition copy (x : itv) : itv := assign_itv C so z0 x.                 (* r[i] = x *)
Definition addto (r y : itv) : itv := Interval.add_assign C so r r y.     (* r += y *)
Definition subfrom (r y : itv) : itv := Interval.sub_assign C so r r y.   (* r -= y *)
Definition negof (r x : itv) : itv := Interval.neg_assign C so r x.       (* r.neg_assign(x) *)
Definition multo (r y : itv) : itv := Interval.mul_assign C so r r y.     (* r *= y *)
Definition divby (r y : itv) : itv := Interval.div_assign C so r r y.     (* r /= y *)

(* operator+(f1, f2) *)
Fixpoint lf_add (f1 f2 : lform) : lform :=
  match f1, f2 with
  | [], _ => map copy f2
  | _, [] => map copy f1
  | a :: f1', b :: f2' => addto (copy a) b :: lf_add f1' f2'
  end.

(* operator-(f) and negate() *)
Definition lf_neg (f : lform) : lform := map (fun a => negof a a) f.

(* operator-(f1, f2) *)
Fixpoint lf_sub (f1 f2 : lform) : lform :=
  match f1, f2 with
  | [], _ => map (negof z0) f2
  | _, [] => map copy f1
  | a :: f1', b :: f2' => subfrom (copy a) b :: lf_sub f1' f2'
  end.

(* operator*(n, f), operator*=(f, n) and operator/=(f, n) *)
Definition lf_scale (n : itv) (f : lform) : lform := map (fun a => multo a n) f.
Definition lf_div (n : itv) (f : lform) : lform := map (fun a => divby a n) f.

(* operator+=(f1, f2): f1 is extended with zeros when shorter *)
Definition zero_itv : itv := mkI (mkB (czero C) false false) (mkB (czero C) false false).
Fixpoint lf_add_assign (f1 f2 : lform) : lform :=
  match f1, f2 with
  | _, [] => f1
  | [], b :: f2' => addto zero_itv b :: lf_add_assign [] f2'
  | a :: f1', b :: f2' => addto a b :: lf_add_assign f1' f2'
  end.

(* intervalize(oracle, result): None when the oracle has no interval for a dimension of the form *)
Fixpoint ivz (acc : itv) (cs st : list itv) : option itv :=
  match cs with
  | [] => Some acc
  | c :: cs' => match st with
                | [] => None
                | s :: st' => ivz (addto acc (multo c s)) cs' st'
                end
  end.
Definition intervalize (f : lform) (st : list itv) : option itv :=
  match f with
  | [] => None
  | c0 :: cs => ivz (copy c0) cs st
  end.

(* ---- semantics ---------------------------------------------------------------------------------- *)

Fixpoint dot (cs xs : list Q) : Q :=
  match cs, xs with
  | c :: cs', x :: xs' => c * x + dot cs' xs'
  | _, _ => 0
  end.
(* value of the point form cs at the concrete store rho *)
Definition lf_val (cs rho : list Q) : Q := dot cs (1 :: rho).
Definition points (cs : list Q) (f : lform) : Prop := Forall2 (fun c I => mem c I) cs f.
(* v is a value the form can take at rho *)
Definition lf_mem (rho : list Q) (f : lform) (v : Q) : Prop :=
  exists cs, points cs f /\ v == lf_val cs rho.

Fixpoint zipadd (a b : list Q) : list Q :=
  match a, b with
  | [], _ => b
  | _, [] => a
  | x :: a', y :: b' => (x + y) :: zipadd a' b'
  end.
Fixpoint zipsub (a b : list Q) : list Q :=
  match a, b with
  | [], _ => map Qopp b
  | _, [] => a
  | x :: a', y :: b' => (x - y) :: zipsub a' b'
  end.

Lemma dot_zipadd a : forall b xs, dot (zipadd a b) xs == dot a xs + dot b xs.
Proof.
  induction a as [|x a IH]; intros b xs; cbn [zipadd dot].
  - destruct b; cbn; lra.
  - destruct b as [|y b]; [destruct xs; cbn; lra|]. destruct xs as [|z xs]; cbn [dot]; [lra|].
    rewrite IH. ring.
Qed.
Lemma dot_opp b : forall xs, dot (map Qopp b) xs == - dot b xs.
Proof. induction b as [|y b IH]; intros [|z xs]; cbn [map dot]; try lra. rewrite IH. ring. Qed.
Lemma dot_zipsub a : forall b xs, dot (zipsub a b) xs == dot a xs - dot b xs.
Proof.
  induction a as [|x a IH]; intros b xs; cbn [zipsub dot].
  - rewrite dot_opp. destruct b, xs; cbn; lra.
  - destruct b as [|y b]; [destruct xs; cbn; lra|]. destruct xs as [|z xs]; cbn [dot]; [lra|].
    rewrite IH. ring.
Qed.
Lemma dot_scale k b : forall xs, dot (map (fun c => c * k) b) xs == dot b xs * k.
Proof. induction b as [|y b IH]; intros [|z xs]; cbn [map dot]; try lra. rewrite IH. ring. Qed.
Lemma dot_divk k b : ~ k == 0 -> forall xs, dot (map (fun c => c / k) b) xs == dot b xs / k.
Proof.
  intros E. induction b as [|y b IH]; intros [|z xs]; cbn [map dot]; try (field; auto). rewrite IH. field. auto.
Qed.

Lemma points_copy cs f : points cs f -> points cs (map copy f).
Proof.
  induction 1; cbn; constructor; auto. apply (assign_exact C so L). auto.
Qed.

(* ---- enclosure of the operators ----------------------------------------------------------------- *)

Lemma points_add cs1 f1 : points cs1 f1 -> forall cs2 f2, points cs2 f2 -> points (zipadd cs1 cs2) (lf_add f1 f2).
Proof.
  induction 1 as [|c a cs1 f1 Hc H1 IH]; intros cs2 f2 H2.
  - cbn [zipadd lf_add]. apply points_copy. auto.
  - destruct H2 as [|d b cs2 f2 Hd H2]; cbn [zipadd lf_add].
    + apply (points_copy (c :: cs1) (a :: f1)). constructor; auto.
    + constructor; [|apply IH; auto]. unfold addto. apply (add_encloses C so L); auto.
      apply (assign_exact C so L). auto.
Qed.

Theorem linform_add_encloses rho f1 f2 v1 v2 :
  lf_mem rho f1 v1 -> lf_mem rho f2 v2 -> lf_mem rho (lf_add f1 f2) (v1 + v2).
Proof.
  intros [cs1 [P1 E1]] [cs2 [P2 E2]]. exists (zipadd cs1 cs2). split; [apply points_add; auto|].
  unfold lf_val in *. rewrite dot_zipadd. lra.
Qed.

Lemma points_neg cs f : points cs f -> points (map Qopp cs) (lf_neg f).
Proof. induction 1; cbn; constructor; auto. unfold negof. apply (neg_encloses C so L). auto. Qed.

Theorem linform_neg_encloses rho f v : lf_mem rho f v -> lf_mem rho (lf_neg f) (- v).
Proof.
  intros [cs [P E]]. exists (map Qopp cs). split; [apply points_neg; auto|].
  unfold lf_val in *. rewrite dot_opp. lra.
Qed.

Lemma points_sub cs1 f1 : points cs1 f1 -> forall cs2 f2, points cs2 f2 -> points (zipsub cs1 cs2) (lf_sub f1 f2).
Proof.
  induction 1 as [|c a cs1 f1 Hc H1 IH]; intros cs2 f2 H2.
  - cbn. induction H2; cbn; constructor; auto. unfold negof. apply (neg_encloses C so L). auto.
  - destruct H2 as [|d b cs2 f2 Hd H2]; cbn [zipsub lf_sub].
    + apply (points_copy (c :: cs1) (a :: f1)). constructor; auto.
    + constructor; [|apply IH; auto]. unfold subfrom. apply (sub_encloses C so L); auto.
      apply (assign_exact C so L). auto.
Qed.

Theorem linform_sub_encloses rho f1 f2 v1 v2 :
  lf_mem rho f1 v1 -> lf_mem rho f2 v2 -> lf_mem rho (lf_sub f1 f2) (v1 - v2).
Proof.
  intros [cs1 [P1 E1]] [cs2 [P2 E2]]. exists (zipsub cs1 cs2). split; [apply points_sub; auto|].
  unfold lf_val in *. rewrite dot_zipsub. lra.
Qed.

Theorem linform_scale_encloses rho n f v k :
  mem k n -> lf_mem rho f v -> lf_mem rho (lf_scale n f) (v * k).
Proof.
  intros Hk [cs [P E]]. exists (map (fun c => c * k) cs). split.
  - clear E. induction P; cbn; constructor; auto. unfold multo. apply (mul_encloses C so L); auto.
  - unfold lf_val in *. rewrite dot_scale. rewrite E. reflexivity.
Qed.

Theorem linform_div_encloses rho n f v k :
  mem k n -> ~ k == 0 -> lf_mem rho f v -> lf_mem rho (lf_div n f) (v / k).
Proof.
  intros Hk Hk0 [cs [P E]]. exists (map (fun c => c / k) cs). split.
  - clear E. induction P; cbn; constructor; auto. unfold divby. apply (div_encloses C so L); auto.
  - unfold lf_val in *. rewrite dot_divk by auto. rewrite E. reflexivity.
Qed.

Lemma zero_mem : mem 0 zero_itv.
Proof.
  unfold Sound.mem, zero_itv, Sound.in_lower, Sound.in_upper, get_open. cbn [lower upper bv bsp bop].
  pose proof (l_zero C L). destruct so; split; lra.
Qed.

Lemma points_add_assign cs1 f1 : points cs1 f1 -> forall cs2 f2, points cs2 f2 ->
  points (zipadd cs1 cs2) (lf_add_assign f1 f2).
Proof.
  induction 1 as [|c a cs1 f1 Hc H1 IH]; intros cs2 f2 H2.
  - induction H2 as [|d b cs2 f2 Hd H2 IH2]; cbn [zipadd lf_add_assign]; [constructor|].
    constructor; auto. unfold addto.
    apply (mem_proper C so (0 + d)); [ring|]. apply (add_encloses C so L); auto. apply zero_mem.
  - destruct H2 as [|d b cs2 f2 Hd H2]; cbn [zipadd lf_add_assign].
    + constructor; auto.
    + constructor; [|apply IH; auto]. unfold addto. apply (add_encloses C so L); auto.
Qed.

Theorem linform_add_assign_encloses rho f1 f2 v1 v2 :
  lf_mem rho f1 v1 -> lf_mem rho f2 v2 -> lf_mem rho (lf_add_assign f1 f2) (v1 + v2).
Proof.
  intros [cs1 [P1 E1]] [cs2 [P2 E2]]. exists (zipadd cs1 cs2). split; [apply points_add_assign; auto|].
  unfold lf_val in *. rewrite dot_zipadd. lra.
Qed.

(* intervalize: the concrete store rho is within the abstract store st *)
Lemma ivz_encloses cs : forall acc st qs rho a R,
  mem a acc -> points qs cs -> Forall2 (fun x s => mem x s) rho st ->
  ivz acc cs st = Some R -> mem (a + dot qs rho) R.
Proof.
  induction cs as [|c cs IH]; intros acc st qs rho a R Ha Hq Hs HR.
  - inversion Hq; subst. cbn in HR. injection HR as <-. cbn. apply (mem_proper C so a); [ring|auto].
  - inversion Hq as [|q c' qs' cs' Hqc Hqs]; subst. cbn [ivz] in HR.
    destruct st as [|s st]; [discriminate|]. inversion Hs as [|x s' rho' st' Hx Hs']; subst.
    cbn [dot]. apply (mem_proper C so ((a + q * x) + dot qs' rho')); [ring|].
    eapply IH; eauto. unfold addto, multo. apply (add_encloses C so L); auto.
    apply (mul_encloses C so L); auto.
Qed.

Theorem intervalize_encloses rho st f v R :
  Forall2 (fun x s => mem x s) rho st -> lf_mem rho f v -> intervalize f st = Some R -> mem v R.
Proof.
  intros Hs [cs [P E]] HR. destruct P as [|c0 I0 cs f Hc P]; [discriminate|].
  cbn [intervalize] in HR. unfold lf_val in E. cbn [dot] in E.
  apply (mem_proper C so (c0 + dot cs rho)); [rewrite E; ring|].
  apply (ivz_encloses f (copy I0) st cs rho c0 R); auto. apply (assign_exact C so L). auto.
Qed.

End LinForm.
