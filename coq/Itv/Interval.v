(* C12 -- class Interval<Boundary, Info>: transcription of /repo/src/Interval_defs.hh and
   Interval_inlines.hh (branch by branch, AS THE CODE IS), for the policies described in Boundary.v.
   An interval is its two bounds, each with its SPECIAL and OPEN bits (the cardinality cache bits of
   Interval_Info_Bitset are never read or written by the library: not modelled).  The I_Result return
   values are not modelled (only the state after the call). *)
From Coq Require Import ZArith QArith Bool Lia Lqa.
From PPLV Require Import Itv.Boundary.
Local Open Scope Q_scope.

Inductive relsym := LESS_THAN | LESS_OR_EQUAL | GREATER_THAN | GREATER_OR_EQUAL | EQUAL | NOT_EQUAL.

Section Interval.
Variable C : Carrier.
Variable so : bool.

Notation bnd := (bnd C).
Record itv := mkI { lower : bnd; upper : bnd }.

Notation lt := (lt C so).
Notation gt := (gt C so).
Notation le := (le C so).
Notation ge := (ge C so).
Notation eq := (eq C so).

Definition info_clear (x : itv) : itv := mkI (clear_props C (lower x)) (clear_props C (upper x)).

(* is_empty, check_empty_arg (may_be_empty = true), is_singleton, infinity_sign *)
Definition is_empty (x : itv) : bool := lt UPPER (upper x) LOWER (lower x).
Definition check_empty_arg (x : itv) : bool := is_empty x.
Definition is_singleton (x : itv) : bool := eq LOWER (lower x) UPPER (upper x).
Definition infinity_sign (x : itv) : Z :=
  if is_reverse_infinity C LOWER (lower x) then 1%Z
  else if is_reverse_infinity C UPPER (upper x) then (-1)%Z else 0%Z.

(* assign(EMPTY), assign(UNIVERSE), assign(MINUS_INFINITY / PLUS_INFINITY), set_infinities *)
Definition assign_empty (z : itv) : itv :=
  mkI (mkB (cone C) false false) (mkB (czero C) false false).
Definition assign_universe (z : itv) : itv :=
  let z := info_clear z in
  mkI (set_unbounded C so LOWER (lower z)) (set_unbounded C so UPPER (upper z)).
Definition assign_minus_infinity (z : itv) : itv :=
  let z := info_clear z in
  mkI (set_minus_infinity C so LOWER (lower z) false) (set_minus_infinity C so UPPER (upper z) false).
Definition assign_plus_infinity (z : itv) : itv :=
  let z := info_clear z in
  mkI (set_plus_infinity C so LOWER (lower z) false) (set_plus_infinity C so UPPER (upper z) false).
Definition set_infinities (z : itv) : itv :=
  let z := info_clear z in
  mkI (set_minus_infinity C so LOWER (lower z) false) (set_plus_infinity C so UPPER (upper z) false).

(* assign(const From& x) *)
Definition assign_itv (z x : itv) : itv :=
  if check_empty_arg x then assign_empty z
  else
    let z := info_clear z in
    mkI (assign C so LOWER (lower z) LOWER (lower x) false)
        (assign C so UPPER (upper z) UPPER (upper x) false).

(* join_assign(x) (in place) and join_assign(x, y) *)
Definition join_assign1 (z x : itv) : itv :=
  if check_empty_arg z then assign_itv z x
  else if check_empty_arg x then z
  else mkI (min_assign1 C so LOWER (lower z) LOWER (lower x))
           (max_assign1 C so UPPER (upper z) UPPER (upper x)).

Definition join_assign2 (z x y : itv) : itv :=
  if check_empty_arg x then assign_itv z y
  else if check_empty_arg y then assign_itv z x
  else
    let z := info_clear z in
    mkI (min_assign2 C so LOWER (lower z) LOWER (lower x) LOWER (lower y))
        (max_assign2 C so UPPER (upper z) UPPER (upper x) UPPER (upper y)).

(* intersect_assign(x) and intersect_assign(x, y) *)
Definition intersect_assign1 (z x : itv) : itv :=
  mkI (max_assign1 C so LOWER (lower z) LOWER (lower x))
      (min_assign1 C so UPPER (upper z) UPPER (upper x)).

Definition intersect_assign2 (z x y : itv) : itv :=
  let z := info_clear z in
  mkI (max_assign2 C so LOWER (lower z) LOWER (lower x) LOWER (lower y))
      (min_assign2 C so UPPER (upper z) UPPER (upper x) UPPER (upper y)).

(* difference_assign(x) (in place) *)
Definition difference_assign1 (z x : itv) : itv :=
  if lt UPPER (upper z) LOWER (lower x) || gt LOWER (lower z) UPPER (upper x) then z
  else
    let nl := ge LOWER (lower z) LOWER (lower x) in
    let nu := le UPPER (upper z) UPPER (upper x) in
    if nl then
      if nu then assign_empty z
      else mkI (complement C so LOWER (clear_props C (lower z)) UPPER (upper x)) (upper z)
    else if nu then
      mkI (lower z) (complement C so UPPER (clear_props C (upper z)) LOWER (lower x))
    else z.

(* difference_assign(x, y): the bits set by complement/assign go to info(), which is then
   overwritten by the cleared to_info (line 427): the result keeps the values only. *)
Definition difference_assign2 (z x y : itv) : itv :=
  if lt UPPER (upper x) LOWER (lower y) || gt LOWER (lower x) UPPER (upper y) then assign_itv z x
  else
    let nl := ge LOWER (lower x) LOWER (lower y) in
    let nu := le UPPER (upper x) UPPER (upper y) in
    if nl then
      if nu then assign_empty z
      else
        let l := complement C so LOWER (lower z) UPPER (upper y) in
        let u := assign C so UPPER (upper z) UPPER (upper x) false in
        info_clear (mkI l u)
    else if nu then
      let u := complement C so UPPER (upper z) LOWER (lower y) in
      let l := assign C so LOWER (lower z) LOWER (lower x) false in
      info_clear (mkI l u)
    else info_clear z.

(* remove_inf / remove_sup *)
Definition remove_inf (z : itv) : itv :=
  if negb so then z else mkI (mkB (bv (lower z)) (bsp (lower z)) true) (upper z).
Definition remove_sup (z : itv) : itv :=
  if negb so then z else mkI (lower z) (mkB (bv (upper z)) (bsp (upper z)) true).

Definition refine_ne (z x : itv) : itv :=
  if check_empty_arg z then z
  else
    let z := if eq LOWER (lower z) LOWER (lower x) then remove_inf z else z in
    if eq UPPER (upper z) UPPER (upper x) then remove_sup z else z.

Definition refine_existential (rel : relsym) (z x : itv) : itv :=
  if check_empty_arg x then assign_empty z
  else match rel with
  | LESS_THAN =>
      if lt UPPER (upper z) UPPER (upper x) then z
      else mkI (lower z) (assign C so UPPER (clear_props C (upper z)) UPPER (upper x) true)
  | LESS_OR_EQUAL =>
      if le UPPER (upper z) UPPER (upper x) then z
      else mkI (lower z) (assign C so UPPER (clear_props C (upper z)) UPPER (upper x) false)
  | GREATER_THAN =>
      if gt LOWER (lower z) LOWER (lower x) then z
      else mkI (assign C so LOWER (clear_props C (lower z)) LOWER (lower x) true) (upper z)
  | GREATER_OR_EQUAL =>
      if ge LOWER (lower z) LOWER (lower x) then z
      else mkI (assign C so LOWER (clear_props C (lower z)) LOWER (lower x) false) (upper z)
  | EQUAL => intersect_assign1 z x
  | NOT_EQUAL => if negb (is_singleton x) then z else refine_ne z x
  end.

(* In refine_universal the opposite bound of x is read through SCALAR_INFO: its SPECIAL and OPEN bits
   are not seen (Interval_Info_Null answers false), only its stored value. *)
Definition scalar_view (b : bnd) : bnd := mkB (bv b) false false.

Definition refine_universal (rel : relsym) (z x : itv) : itv :=
  if check_empty_arg x then z
  else match rel with
  | LESS_THAN =>
      if lt UPPER (upper z) LOWER (lower x) then z
      else mkI (lower z)
               (assign C so UPPER (clear_props C (upper z)) LOWER (scalar_view (lower x))
                       (negb (is_open C so LOWER (lower x))))
  | LESS_OR_EQUAL =>
      if le UPPER (upper z) LOWER (lower x) then z
      else mkI (lower z) (assign C so UPPER (clear_props C (upper z)) LOWER (scalar_view (lower x)) false)
  | GREATER_THAN =>
      if gt LOWER (lower z) UPPER (upper x) then z
      else mkI (assign C so LOWER (clear_props C (lower z)) UPPER (scalar_view (upper x))
                       (negb (is_open C so UPPER (upper x))))
               (upper z)
  | GREATER_OR_EQUAL =>
      if ge LOWER (lower z) UPPER (upper x) then z
      else mkI (assign C so LOWER (clear_props C (lower z)) UPPER (scalar_view (upper x)) false) (upper z)
  | EQUAL => if negb (is_singleton x) then assign_empty z else intersect_assign1 z x
  | NOT_EQUAL => refine_ne z x
  end.

(* neg_assign(x) *)
Definition neg_assign (z x : itv) : itv :=
  if check_empty_arg x then assign_empty z
  else
    let z := info_clear z in
    mkI (Boundary.neg_assign C so LOWER (lower z) UPPER (upper x))
        (Boundary.neg_assign C so UPPER (upper z) LOWER (lower x)).

(* add_assign(x, y), sub_assign(x, y) *)
Definition add_assign (z x y : itv) : itv :=
  if check_empty_arg x || check_empty_arg y then assign_empty z
  else
    let inf_sign := infinity_sign x in
    if negb (inf_sign =? 0)%Z && (infinity_sign y =? - inf_sign)%Z then assign_empty z
    else
      let inf_sign := if negb (inf_sign =? 0)%Z then inf_sign else infinity_sign y in
      if (inf_sign <? 0)%Z then assign_minus_infinity z
      else if (inf_sign >? 0)%Z then assign_plus_infinity z
      else
        let z := info_clear z in
        mkI (Boundary.add_assign C so LOWER (lower z) LOWER (lower x) LOWER (lower y))
            (Boundary.add_assign C so UPPER (upper z) UPPER (upper x) UPPER (upper y)).

Definition sub_assign (z x y : itv) : itv :=
  if check_empty_arg x || check_empty_arg y then assign_empty z
  else
    let inf_sign := infinity_sign x in
    if negb (inf_sign =? 0)%Z && (infinity_sign y =? inf_sign)%Z then assign_empty z
    else
      let inf_sign := if negb (inf_sign =? 0)%Z then inf_sign else (- infinity_sign y)%Z in
      if (inf_sign <? 0)%Z then assign_minus_infinity z
      else if (inf_sign >? 0)%Z then assign_plus_infinity z
      else
        let z := info_clear z in
        mkI (Boundary.sub_assign C so LOWER (lower z) LOWER (lower x) UPPER (upper y))
            (Boundary.sub_assign C so UPPER (upper z) UPPER (upper x) LOWER (lower y)).

(* The branch of mul_assign / div_assign entered when an operand is an infinity (label `inf:') *)
Definition inf_branch (z : itv) (ls us inf_sign : Z) : itv :=
  if (ls =? 0)%Z && (us =? 0)%Z then assign_empty z
  else if (ls =? - us)%Z then set_infinities z
  else
    let inf_sign := if (ls <? 0)%Z || (us <? 0)%Z then (- inf_sign)%Z else inf_sign in
    if (inf_sign <? 0)%Z then assign_minus_infinity z else assign_plus_infinity z.

Notation mulz := (mul_assign_z C so).
Notation divz := (div_assign_z C so).

(* The branch "xl < 0 < xu, yl < 0 < yu" of mul_assign (lines 838-873): two candidate products per
   end.  CURRENT code ([pre] = false): when the second candidate replaces the first one
   (`to_lower = tmp;' / `upper() = tmp;') its SPECIAL and OPEN bits are copied from tmp_info into
   to_info as well, i.e. the result end is the second candidate, value and bits.
   [pre] = true is the code BEFORE commit ed6ee8d (historical): only the VALUE was copied, the bits of
   the result stayed those of the first candidate. *)
Definition pick (pre cond : bool) (first tmp : bnd) : bnd :=
  if cond then (if pre then set_val C first (bv tmp) else tmp) else first.

Definition strad_tmpl (xu yl : bnd) : bnd :=
  Boundary.mul_assign C so LOWER (mkB (czero C) false false) UPPER xu LOWER yl.
Definition strad_tol (tl xl yu : bnd) : bnd := Boundary.mul_assign C so LOWER tl LOWER xl UPPER yu.
Definition strad_tmpu (xu yu : bnd) : bnd :=
  Boundary.mul_assign C so UPPER (mkB (czero C) false false) UPPER xu UPPER yu.
Definition strad_tou (tu xl yl : bnd) : bnd := Boundary.mul_assign C so UPPER tu LOWER xl LOWER yl.

Definition mul_straddle (pre : bool) (tl tu xl xu yl yu : bnd) : itv :=
  let tmpl := strad_tmpl xu yl in     (* tmp with tmp_info; its value is dirty when tmp is infinite *)
  let tol := strad_tol tl xl yu in
  let tmpu := strad_tmpu xu yu in
  let tou := strad_tou tu xl yl in
  mkI (pick pre (gt LOWER tol LOWER tmpl) tol tmpl) (pick pre (lt UPPER tou UPPER tmpu) tou tmpu).

Definition same_flags (a b : bnd) : bool := Bool.eqb (bsp a) (bsp b) && Bool.eqb (bop a) (bop b).

(* the second candidate replaces the first one and its bits differ: (lower end, upper end); this is
   where the code before ed6ee8d differed from the current one *)
Definition straddle_flag_loss (tl tu xl xu yl yu : bnd) : bool * bool :=
  let tmpl := strad_tmpl xu yl in
  let tol := strad_tol tl xl yu in
  let tmpu := strad_tmpu xu yu in
  let tou := strad_tou tu xl yl in
  (gt LOWER tol LOWER tmpl && negb (same_flags tol tmpl),
   lt UPPER tou UPPER tmpu && negb (same_flags tou tmpu)).

(* mul_assign(x, y): the sign-case ladder.  The result of a branch is built by [k]: branch number
   (0: an empty operand, 1-9 as in the table above the C++ function, 10-11 infinite operands)
   and the interval. *)
Definition mul_ladder (A : Type) (kempty : A) (kinf : Z -> Z -> Z -> A)
           (k : Z -> (bnd -> bnd) -> (bnd -> bnd) -> A)
           (kstrad : bnd -> bnd -> bnd -> bnd -> A) (x y : itv) : A :=
  if check_empty_arg x || check_empty_arg y then kempty
  else
    let xls := sgn_b C LOWER (lower x) in
    let xus := if (xls >? 0)%Z then 1%Z else sgn_b C UPPER (upper x) in
    let yls := sgn_b C LOWER (lower y) in
    let yus := if (yls >? 0)%Z then 1%Z else sgn_b C UPPER (upper y) in
    let inf_sign := infinity_sign x in
    if negb (inf_sign =? 0)%Z then kinf yls yus inf_sign
    else
      let inf_sign := infinity_sign y in
      if negb (inf_sign =? 0)%Z then kinf xls xus inf_sign
      else
        let xl := lower x in let xu := upper x in let yl := lower y in let yu := upper y in
        if (xls >=? 0)%Z then
          if (yls >=? 0)%Z then
            k 1%Z (fun tl => mulz LOWER tl LOWER xl xls LOWER yl yls) (fun tu => mulz UPPER tu UPPER xu xus UPPER yu yus)
          else if (yus <=? 0)%Z then
            k 2%Z (fun tl => mulz LOWER tl UPPER xu xus LOWER yl yls) (fun tu => mulz UPPER tu LOWER xl xls UPPER yu yus)
          else
            k 3%Z (fun tl => mulz LOWER tl UPPER xu xus LOWER yl yls) (fun tu => mulz UPPER tu UPPER xu xus UPPER yu yus)
        else if (xus <=? 0)%Z then
          if (yls >=? 0)%Z then
            k 4%Z (fun tl => mulz LOWER tl LOWER xl xls UPPER yu yus) (fun tu => mulz UPPER tu UPPER xu xus LOWER yl yls)
          else if (yus <=? 0)%Z then
            k 5%Z (fun tl => mulz LOWER tl UPPER xu xus UPPER yu yus) (fun tu => mulz UPPER tu LOWER xl xls LOWER yl yls)
          else
            k 6%Z (fun tl => mulz LOWER tl LOWER xl xls UPPER yu yus) (fun tu => mulz UPPER tu LOWER xl xls LOWER yl yls)
        else if (yls >=? 0)%Z then
          k 7%Z (fun tl => mulz LOWER tl LOWER xl xls UPPER yu yus) (fun tu => mulz UPPER tu UPPER xu xus UPPER yu yus)
        else if (yus <=? 0)%Z then
          k 8%Z (fun tl => mulz LOWER tl UPPER xu xus LOWER yl yls) (fun tu => mulz UPPER tu LOWER xl xls LOWER yl yls)
        else
          (* xl < 0 < xu, yl < 0 < yu *)
          kstrad xl xu yl yu.

Definition mul_assign_gen (pre : bool) (z x y : itv) : itv :=
  let z0 := info_clear z in
  mul_ladder itv (assign_empty z) (inf_branch z)
    (fun _ fl fu => mkI (fl (lower z0)) (fu (upper z0)))
    (fun xl xu yl yu => mul_straddle pre (lower z0) (upper z0) xl xu yl yu) x y.

(* diagnostics used by the correspondence check (coverage only): branch number, and whether the case
   is one where the code before ed6ee8d lost the flags *)
Definition mul_diag (z x y : itv) : Z * (bool * bool) :=
  let z0 := info_clear z in
  mul_ladder (Z * (bool * bool)) (0%Z, (false, false)) (fun _ _ _ => (10%Z, (false, false)))
    (fun n _ _ => (n, (false, false)))
    (fun xl xu yl yu => (9%Z, straddle_flag_loss (lower z0) (upper z0) xl xu yl yu)) x y.

(* Interval::mul_assign as it is now *)
Definition mul_assign := mul_assign_gen false.
(* HISTORICAL: Interval::mul_assign before commit ed6ee8d (kept only for the refutation in Defect.v) *)
Definition mul_assign_pre_ed6ee8d := mul_assign_gen true.

(* div_assign(x, y) *)
Definition div_assign (z x y : itv) : itv :=
  if check_empty_arg x || check_empty_arg y then assign_empty z
  else
    let yls := sgn_b C LOWER (lower y) in
    let yus := if (yls >? 0)%Z then 1%Z else sgn_b C UPPER (upper y) in
    if (yls =? 0)%Z && (yus =? 0)%Z then assign_empty z
    else
      let inf_sign := infinity_sign x in
      if negb (inf_sign =? 0)%Z then
        if negb (infinity_sign y =? 0)%Z then assign_empty z
        else if (yls =? - yus)%Z then set_infinities z
        else
          let inf_sign := if (yls <? 0)%Z || (yus <? 0)%Z then (- inf_sign)%Z else inf_sign in
          if (inf_sign <? 0)%Z then assign_minus_infinity z else assign_plus_infinity z
      else
        let xls := sgn_b C LOWER (lower x) in
        let xus := if (xls >? 0)%Z then 1%Z else sgn_b C UPPER (upper x) in
        let z0 := info_clear z in
        let tl := lower z0 in
        let tu := upper z0 in
        let xl := lower x in let xu := upper x in let yl := lower y in let yu := upper y in
        if (yls >=? 0)%Z then
          if (xls >=? 0)%Z then
            mkI (divz LOWER tl LOWER xl xls UPPER yu yus) (divz UPPER tu UPPER xu xus LOWER yl yls)
          else if (xus <=? 0)%Z then
            mkI (divz LOWER tl LOWER xl xls LOWER yl yls) (divz UPPER tu UPPER xu xus UPPER yu yus)
          else
            mkI (divz LOWER tl LOWER xl xls LOWER yl yls) (divz UPPER tu UPPER xu xus LOWER yl yls)
        else if (yus <=? 0)%Z then
          if (xls >=? 0)%Z then
            mkI (divz LOWER tl UPPER xu xus UPPER yu yus) (divz UPPER tu LOWER xl xls LOWER yl yls)
          else if (xus <=? 0)%Z then
            mkI (divz LOWER tl UPPER xu xus LOWER yl yls) (divz UPPER tu LOWER xl xls UPPER yu yus)
          else
            mkI (divz LOWER tl UPPER xu xus UPPER yu yus) (divz UPPER tu LOWER xl xls UPPER yu yus)
        else assign_universe z.

End Interval.

Arguments mkI {C} _ _.
Arguments lower {C} _.
Arguments upper {C} _.
