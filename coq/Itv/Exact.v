(* C12 -- exactness for an exact carrier: each end of neg / add / sub is the exact image of the
   corresponding operand ends, with the open flag of the attaining ends. *)
From Coq Require Import ZArith QArith Bool Lia Lqa.
From PPLV Require Import Itv.Boundary Itv.Interval Itv.QCarrier Itv.Sound Itv.Arith.
Local Open Scope Q_scope.

Section Exact.
Variable C : Carrier.
Variable so : bool.
Hypothesis L : CarrierLaws C.
Hypothesis E : ExactLaws C.

Notation bnd := (bnd C).
Notation itv := (itv C).
Notation val := (cval C).
Notation in_lower := (in_lower C so).
Notation in_upper := (in_upper C so).
Notation mem := (mem C so).
Notation clean := (clean C).
Notation gopen := (get_open C so).

Ltac unf := unfold Sound.in_lower, Sound.in_upper, Sound.sat in *; unf0.

Lemma adjx_L to r st sh e z :
  clean to -> exact_res C (r, st) e ->
  in_lower (adjust_boundary C so LOWER (set_val C to r) sh st) z ->
  e <= z /\ (so && sh = true -> e < z).
Proof.
  destruct to as [tv ts tp]. intros [Hc1 Hc2]. cbn in Hc1, Hc2. subst. unfb. unf.
  intros [R1 R2]. cbn [fst snd] in R1, R2. subst st.
  destruct sh, so; cbn; intros H; split; try lra; try discriminate; intros; lra.
Qed.

Lemma adjx_U to r st sh e z :
  clean to -> exact_res C (r, st) e ->
  in_upper (adjust_boundary C so UPPER (set_val C to r) sh st) z ->
  z <= e /\ (so && sh = true -> z < e).
Proof.
  destruct to as [tv ts tp]. intros [Hc1 Hc2]. cbn in Hc1, Hc2. subst. unfb. unf.
  intros [R1 R2]. cbn [fst snd] in R1, R2. subst st.
  destruct sh, so; cbn; intros H; split; try lra; try discriminate; intros; lra.
Qed.

Lemma gopen_so b : gopen b = true -> so = true.
Proof. unfold get_open. destruct so; auto. Qed.

(* a point satisfying a lower (upper) bound, at a prescribed distance when the bound is finite *)
Lemma pick_lower b d : 0 < d -> exists x, in_lower b x /\ (bsp b = false -> x == val (bv b) + d).
Proof. intros Hd. exists (val (bv b) + d). unf. destruct (bsp b), (if so then bop b else false); split; auto; try lra; reflexivity. Qed.
Lemma pick_upper b d : 0 < d -> exists x, in_upper b x /\ (bsp b = false -> x == val (bv b) - d).
Proof. intros Hd. exists (val (bv b) - d). unf. destruct (bsp b), (if so then bop b else false); split; auto; try lra; reflexivity. Qed.

Lemma half_pos e : 0 < e -> 0 < e / 2.
Proof. intros. apply Qlt_shift_div_l; lra. Qed.
Lemma half_nonneg e : 0 <= e -> 0 <= e / 2.
Proof. intros. apply Qle_shift_div_l; lra. Qed.
Lemma half_half e : e / 2 + e / 2 == e.
Proof. field. Qed.

(* sum of two lower bounds: the set above the result is exactly the Minkowski sum of the sets above the operands *)
Theorem add_lower_exact to b1 b2 z :
  clean to ->
  in_lower (Boundary.add_assign C so LOWER to LOWER b1 LOWER b2) z ->
  exists x y, in_lower b1 x /\ in_lower b2 y /\ z == x + y.
Proof.
  intros Hc. unfold Boundary.add_assign, arith_assign, is_boundary_infinity, get_special.
  destruct (bsp b1) eqn:E1.
  { intros _. destruct (pick_lower b2 1) as [y [Hy _]]; [lra|]. exists (z - y), y.
    split; [unf; rewrite E1; auto|]. split; auto. ring. }
  destruct (bsp b2) eqn:E2.
  { intros _. destruct (pick_lower b1 1) as [x [Hx _]]; [lra|]. exists x, (z - x).
    split; auto. split; [unf; rewrite E2; auto|]. ring. }
  rewrite (pair_eta _ _ (cadd C LOWER (bv b1) (bv b2))). intros H.
  apply adjx_L with (e := val (bv b1) + val (bv b2)) in H; auto.
  2:{ rewrite <- pair_eta. apply (e_add C E). }
  destruct H as [H1 H2]. rewrite !nio_eq in H2.
  set (e := z - (val (bv b1) + val (bv b2))) in *.
  exists (val (bv b1) + e / 2), (val (bv b2) + e / 2).
  assert (He : 0 <= e) by (unfold e; lra).
  pose proof (half_nonneg e He). pose proof (half_half e).
  split; [|split; [|unfold e in *; lra]].
  - unf. rewrite E1. destruct (if so then bop b1 else false) eqn:O1; [|lra].
    assert (so = true) by (destruct so; auto; discriminate). subst so. cbn in H2.
    specialize (H2 eq_refl). assert (0 < e) by (unfold e; lra). pose proof (half_pos e H3). lra.
  - unf. rewrite E2. destruct (if so then bop b2 else false) eqn:O2; [|lra].
    assert (so = true) by (destruct so; auto; discriminate). subst so. cbn in H2.
    rewrite orb_true_r in H2.
    specialize (H2 eq_refl). assert (0 < e) by (unfold e; lra). pose proof (half_pos e H3). lra.
Qed.

Theorem add_upper_exact to b1 b2 z :
  clean to ->
  in_upper (Boundary.add_assign C so UPPER to UPPER b1 UPPER b2) z ->
  exists x y, in_upper b1 x /\ in_upper b2 y /\ z == x + y.
Proof.
  intros Hc. unfold Boundary.add_assign, arith_assign, is_boundary_infinity, get_special.
  destruct (bsp b1) eqn:E1.
  { intros _. destruct (pick_upper b2 1) as [y [Hy _]]; [lra|]. exists (z - y), y.
    split; [unf; rewrite E1; auto|]. split; auto. ring. }
  destruct (bsp b2) eqn:E2.
  { intros _. destruct (pick_upper b1 1) as [x [Hx _]]; [lra|]. exists x, (z - x).
    split; auto. split; [unf; rewrite E2; auto|]. ring. }
  rewrite (pair_eta _ _ (cadd C UPPER (bv b1) (bv b2))). intros H.
  apply adjx_U with (e := val (bv b1) + val (bv b2)) in H; auto.
  2:{ rewrite <- pair_eta. apply (e_add C E). }
  destruct H as [H1 H2]. rewrite !nio_eq in H2.
  set (e := (val (bv b1) + val (bv b2)) - z) in *.
  exists (val (bv b1) - e / 2), (val (bv b2) - e / 2).
  assert (He : 0 <= e) by (unfold e; lra).
  pose proof (half_nonneg e He). pose proof (half_half e).
  split; [|split; [|unfold e in *; lra]].
  - unf. rewrite E1. destruct (if so then bop b1 else false) eqn:O1; [|lra].
    assert (so = true) by (destruct so; auto; discriminate). subst so. cbn in H2.
    specialize (H2 eq_refl). assert (0 < e) by (unfold e; lra). pose proof (half_pos e H3). lra.
  - unf. rewrite E2. destruct (if so then bop b2 else false) eqn:O2; [|lra].
    assert (so = true) by (destruct so; auto; discriminate). subst so. cbn in H2.
    rewrite orb_true_r in H2.
    specialize (H2 eq_refl). assert (0 < e) by (unfold e; lra). pose proof (half_pos e H3). lra.
Qed.

(* negation is exact as a set *)
Theorem neg_exact z I x :
  is_empty C so I = false -> mem x (Interval.neg_assign C so z I) -> mem (- x) I.
Proof.
  intros HE. unfold Interval.neg_assign, check_empty_arg. rewrite HE.
  unfold Sound.mem. cbn [lower upper info_clear]. intros [H1 H2]. split.
  - revert H2. unfold Boundary.neg_assign, get_special. destruct (bsp (lower I)) eqn:E1.
    { intros _. unf. rewrite E1. auto. }
    rewrite (pair_eta _ _ (cneg C UPPER (bv (lower I)))). intros H.
    apply adjx_U with (e := - val (bv (lower I))) in H; [|split; reflexivity|rewrite <- pair_eta; apply (e_neg C E)].
    destruct H as [A B]. rewrite nio_eq in B. unf. rewrite E1.
    destruct (if so then bop (lower I) else false) eqn:O; [|lra].
    assert (so = true) by (destruct so; auto; discriminate). subst so. specialize (B eq_refl). lra.
  - revert H1. unfold Boundary.neg_assign, get_special. destruct (bsp (upper I)) eqn:E1.
    { intros _. unf. rewrite E1. auto. }
    rewrite (pair_eta _ _ (cneg C LOWER (bv (upper I)))). intros H.
    apply adjx_L with (e := - val (bv (upper I))) in H; [|split; reflexivity|rewrite <- pair_eta; apply (e_neg C E)].
    destruct H as [A B]. rewrite nio_eq in B. unf. rewrite E1.
    destruct (if so then bop (upper I) else false) eqn:O; [|lra].
    assert (so = true) by (destruct so; auto; discriminate). subst so. specialize (B eq_refl). lra.
Qed.

(* interval level: every member of the computed sum is, for each end separately, an exact sum of
   points on the right side of the operands' ends (the ends of the result are the exact images of the
   operands' ends and are open exactly when an attaining end is) *)
Theorem add_exact_ends z I J w :
  is_empty C so I = false -> is_empty C so J = false ->
  mem w (Interval.add_assign C so z I J) ->
  (exists x y, in_lower (lower I) x /\ in_lower (lower J) y /\ w == x + y) /\
  (exists x y, in_upper (upper I) x /\ in_upper (upper J) y /\ w == x + y).
Proof.
  intros E1 E2. unfold Interval.add_assign, check_empty_arg. rewrite E1, E2.
  unfold infinity_sign, is_reverse_infinity. cbn [orb Z.eqb negb andb Z.ltb Z.gtb Z.compare].
  intros [H1 H2]. cbn [lower upper info_clear] in H1, H2. split.
  - eapply add_lower_exact; eauto. split; reflexivity.
  - eapply add_upper_exact; eauto. split; reflexivity.
Qed.

End Exact.
