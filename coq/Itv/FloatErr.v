(* C12 -- the relative error term of the linearization covers the rounding error of the analysed
   machine, in ANY rounding mode.

   Rational model of a binary floating point format with p fraction bits (MANTISSA_BITS) and least
   exponent emin: the representable numbers are  m * 2^e  with |m| <= 2^(p+1), e >= emin  (no upper
   limit: overflow is not modelled).  A rounding, whatever the mode, returns one of the two
   representable neighbours of the real result.  For x in the normal range, in the binade
   2^e <= |x| < 2^(e+1), the neighbours are at most 2^(e-p) apart, hence
       |round(x) - x| <= 2^-p * |x|         (one unit in the last place; half of it is NOT enough
                                              for the directed modes).
   The exponent the code uses is regenerated from the source (gen/Facts_Float.v). *)
From Coq Require Import ZArith QArith Qround Qabs Qpower Lia Lqa List.
From PPLV Require Import gen.Facts_Float.
Local Open Scope Q_scope.

Definition pow2 (e : Z) : Q := 2 ^ e.

Lemma pow2_pos e : 0 < pow2 e.
Proof. unfold pow2. apply Qpower_0_lt. reflexivity. Qed.

Lemma pow2_plus a b : pow2 (a + b) == pow2 a * pow2 b.
Proof. unfold pow2. apply Qpower_plus. discriminate. Qed.

Lemma pow2_ge1 n : (0 <= n)%Z -> 1 <= pow2 n.
Proof.
  revert n. apply natlike_ind.
  - unfold pow2. cbn. lra.
  - intros n Hn IH. unfold Z.succ. rewrite pow2_plus. change (pow2 1) with 2. nra.
Qed.

Lemma pow2_le a b : (a <= b)%Z -> pow2 a <= pow2 b.
Proof.
  intros H. replace b with (a + (b - a))%Z by lia. rewrite pow2_plus.
  assert (1 <= pow2 (b - a)) by (apply pow2_ge1; lia).
  pose proof (pow2_pos a). nra.
Qed.

(* representable numbers *)
Definition repr (p emin : Z) (y : Q) : Prop :=
  exists m e : Z, (emin <= e)%Z /\ (Z.abs m <= 2 ^ (p + 1))%Z /\ y == inject_Z m * pow2 e.

(* r is a rounding of x: a representable neighbour of x (below or above) *)
Definition rounding_of (p emin : Z) (x r : Q) : Prop :=
  repr p emin r /\
  ((r <= x /\ forall f, repr p emin f -> f <= x -> f <= r) \/
   (x <= r /\ forall f, repr p emin f -> x <= f -> r <= f)).

Lemma inject_pow2 n : (0 <= n)%Z -> inject_Z (2 ^ n) == pow2 n.
Proof.
  intros H. unfold pow2. rewrite <- (Z2Nat.id n) by lia. clear H.
  induction (Z.to_nat n) as [|k IH].
  - reflexivity.
  - rewrite Nat2Z.inj_succ. unfold Z.succ. rewrite Z.pow_add_r by lia.
    rewrite inject_Z_mult, IH. rewrite Qpower_plus by discriminate. reflexivity.
Qed.

Section OneUlp.
Variables p emin : Z.
Hypothesis Hp : (0 <= p)%Z.

(* the grid of the binade e *)
Lemma grid_repr e k :
  (emin <= e - p)%Z -> (Z.abs k <= 2 ^ (p + 1))%Z -> repr p emin (inject_Z k * pow2 (e - p)).
Proof. intros H1 H2. exists k, (e - p)%Z. split; [|split]; auto. reflexivity. Qed.

Theorem one_ulp x r e :
  (emin + p <= e)%Z ->                       (* x is in the normal range ... *)
  pow2 e <= Qabs x -> Qabs x < pow2 (e + 1) ->   (* ... in the binade e *)
  rounding_of p emin x r ->
  Qabs (r - x) <= pow2 (- p) * Qabs x.
Proof.
  intros He Hlo Hhi [Hr Hn].
  set (u := pow2 (e - p)).
  assert (Hu : 0 < u) by apply pow2_pos.
  assert (Hue : u == pow2 e * pow2 (- p)).
  { unfold u. replace (e - p)%Z with (e + - p)%Z by lia. apply pow2_plus. }
  assert (Hup : u * pow2 (p + 1) == pow2 (e + 1)).
  { unfold u. rewrite <- pow2_plus. replace (e - p + (p + 1))%Z with (e + 1)%Z by lia. reflexivity. }
  assert (Hm : 0 < pow2 (- p)) by apply pow2_pos.
  assert (Hbound : u <= pow2 (- p) * Qabs x) by (rewrite Hue; nra).
  set (q := x / u).
  assert (Hq : q * u == x) by (unfold q; field; lra).
  pose proof (Qfloor_le q) as K1.
  assert (K2 : q < inject_Z (Qfloor q) + 1).
  { pose proof (Qlt_floor q) as K. rewrite inject_Z_plus in K. exact K. }
  set (k := Qfloor q) in *.
  (* |q| < 2^(p+1) *)
  assert (Hqa : Qabs q * u == Qabs x).
  { rewrite <- Hq. rewrite Qabs_Qmult. rewrite (Qabs_pos u); lra. }
  assert (Hq2 : Qabs q < pow2 (p + 1)) by nra.
  assert (Hq3 : - pow2 (p + 1) < q /\ q < pow2 (p + 1)).
  { apply Qabs_Qlt_condition. exact Hq2. }
  rewrite <- inject_pow2 in Hq3 by lia.
  assert (Hk1 : (Z.abs k <= 2 ^ (p + 1))%Z).
  { destruct Hq3 as [A B].
    assert (inject_Z k < inject_Z (2 ^ (p + 1))) by lra.
    assert (inject_Z (- 2 ^ (p + 1) + -1) < inject_Z k).
    { rewrite inject_Z_plus, inject_Z_opp. change (inject_Z (-1)) with (-1). lra. }
    rewrite <- Zlt_Qlt in *. lia. }
  assert (Hk2 : (Z.abs (k + 1) <= 2 ^ (p + 1))%Z).
  { destruct Hq3 as [A B].
    assert (inject_Z k < inject_Z (2 ^ (p + 1))) by lra.
    assert (inject_Z (- 2 ^ (p + 1) + -1) < inject_Z k).
    { rewrite inject_Z_plus, inject_Z_opp. change (inject_Z (-1)) with (-1). lra. }
    rewrite <- Zlt_Qlt in *. lia. }
  assert (G1 : repr p emin (inject_Z k * u)) by (apply grid_repr; auto; lia).
  assert (G2 : repr p emin (inject_Z (k + 1) * u)) by (apply grid_repr; auto; lia).
  assert (L1 : inject_Z k * u <= x) by nra.
  assert (L2 : x <= inject_Z (k + 1) * u).
  { rewrite inject_Z_plus. change (inject_Z 1) with 1. nra. }
  assert (L3 : inject_Z (k + 1) * u - inject_Z k * u == u).
  { rewrite inject_Z_plus. change (inject_Z 1) with 1. ring. }
  destruct Hn as [[Hle Hmax]|[Hge Hmin]].
  - specialize (Hmax _ G1 L1). rewrite Qabs_neg by lra. lra.
  - specialize (Hmin _ G2 L2). rewrite Qabs_pos by lra. lra.
Qed.

End OneUlp.

(* ---- tie to the constants and to the expression the code uses --------------------------------- *)

Definition binary (f : fformat) : bool := (ff_base f =? 2)%Z.

(* for every binary format handled by Linear_Form::relative_error, the exponent the code computes
   is the number of fraction bits: lb = 2^-MANTISSA_BITS, one unit in the last place of 1 *)
Lemma rel_error_power_binary :
  rel_error_lb_is_2_to_minus_u_power = true /\
  forallb (fun f => negb (binary f) ||
                    (rel_error_u_power (ff_base f) (ff_mantissa_bits f) =? ff_mantissa_bits f)%Z)
          relative_error_formats = true.
Proof. split; vm_compute; reflexivity. Qed.

Definition normal_emin (f : fformat) : Z := (1 - ff_exponent_bias f)%Z.

(* The statement the linearization relies on, for one format: whatever the rounding mode, the result
   of an operation whose exact value x is in the normal range differs from x by at most
   2^-u_power * |x|, u_power being the expression of the source. *)
Definition relative_error_covers_rounding (f : fformat) : Prop :=
  forall (x r : Q) (e : Z),
    (normal_emin f <= e)%Z ->
    pow2 e <= Qabs x -> Qabs x < pow2 (e + 1) ->
    rounding_of (ff_mantissa_bits f) (normal_emin f - ff_mantissa_bits f) x r ->
    Qabs (r - x) <= pow2 (- rel_error_u_power (ff_base f) (ff_mantissa_bits f)) * Qabs x.

Theorem relative_error_covers_rounding_binary :
  forall f, In f relative_error_formats -> binary f = true -> relative_error_covers_rounding f.
Proof.
  intros f Hin Hb x r e He Hlo Hhi Hr.
  assert (Hpw : rel_error_u_power (ff_base f) (ff_mantissa_bits f) = ff_mantissa_bits f /\ (0 <= ff_mantissa_bits f)%Z).
  { cbn in Hin. repeat (destruct Hin as [<-|Hin]; [try (vm_compute in Hb; discriminate); split; vm_compute; congruence|]).
    destruct Hin. }
  destruct Hpw as [-> Hp].
  eapply one_ulp; eauto. lia.
Qed.

(* the full statement (all formats of the switch, IBM base-16 format included) is not proved:
   for ff_base = 16 the expression gives 4 * 24 = 96, i.e. 2^-96, which is NOT an upper bound of the
   relative rounding error of a 6-hexadecimal-digit significand (about 16^-5); see the report. *)
Definition relative_error_covers_rounding_full : Prop :=
  forall f, In f relative_error_formats -> relative_error_covers_rounding f.
