(* C12 -- Interval boundaries: transcription of namespace Boundary_NS of /repo/src/Boundary_defs.hh.

   Policy constants.  Every interval policy of the library (Rational_Interval.hh, Integer_Interval.hh,
   interfaces/interfaced_boxes.hh, tests/ppl_test.hh) has  may_contain_infinity = false  and
   check_inexact = false  (the check re-reads this from the sources on every run); they are the
   definitions [mci] and [check_inexact] below, kept by name so that the C++ conditions appear as written.
   store_special is true (unbounded ends are the SPECIAL bit of the info word; the floating point
   interval types keep the infinity inside the bound instead, which is the same thing seen through
   [bsp] as long as no operation overflows: see the harness).  store_open is the parameter [so].

   Carrier.  The bound type (mpq_class, mpz_class, double ...) is abstract: a type with a value in Q and
   directed-rounding operations.  An operation returns the stored result and a flag saying that the
   stored result is known to be strictly on the safe side of the exact one (Result V_GT / V_LT as
   opposed to V_GE / V_LE / V_EQ).  Overflow to an infinity is not modelled (assumption, stated in the
   manifest). *)
From Coq Require Import ZArith QArith Bool Lia Lqa.
Local Open Scope Q_scope.

Inductive btype := LOWER | UPPER.

Definition is_lower (t : btype) := match t with LOWER => true | UPPER => false end.
Definition is_upper (t : btype) := match t with LOWER => false | UPPER => true end.
Definition btype_eqb (a b : btype) := Bool.eqb (is_lower a) (is_lower b).

Record Carrier := mkCarrier {
  cT : Type;
  cval : cT -> Q;
  czero : cT;
  cone : cT;
  csgn : cT -> Z;                      (* sgn(x): -1, 0, 1 *)
  ceqb : cT -> cT -> bool;             (* equal(x1, x2) *)
  cleb : cT -> cT -> bool;             (* less_or_equal(x1, x2) *)
  cltb : cT -> cT -> bool;             (* less_than(x1, x2) *)
  cneg : btype -> cT -> cT * bool;     (* neg_assign_r(to, x, dir) *)
  cadd : btype -> cT -> cT -> cT * bool;
  csub : btype -> cT -> cT -> cT * bool;
  cmul : btype -> cT -> cT -> cT * bool;
  cdiv : btype -> cT -> cT -> cT * bool
}.

Definition mci : bool := false.            (* Info::may_contain_infinity *)
Definition check_inexact : bool := false.  (* Info::check_inexact *)

Section Boundary.
Variable C : Carrier.
Variable so : bool.                        (* Info::store_open *)

(* One boundary = the bound and the two property bits the info word holds for it. *)
Record bnd := mkB { bv : cT C; bsp : bool; bop : bool }.

(* info.get_boundary_property(type, OPEN) / (type, SPECIAL); set_boundary_property; clear *)
Definition get_open (b : bnd) : bool := if so then bop b else false.
Definition get_special (b : bnd) : bool := bsp b.
Definition set_open (b : bnd) : bnd := if so then mkB (bv b) (bsp b) true else b.
Definition set_special (b : bnd) : bnd := mkB (bv b) true (bop b).
Definition clear_props (b : bnd) : bnd := mkB (bv b) false false.
Definition set_val (b : bnd) (v : cT C) : bnd := mkB v (bsp b) (bop b).

Definition special_is_open : bool := negb mci.
Definition is_boundary_infinity (t : btype) (b : bnd) : bool := get_special b.
Definition normal_is_open (t : btype) (b : bnd) : bool :=
  if so then get_open b else false (* !store_special && ... *).
Definition is_open (t : btype) (b : bnd) : bool :=
  if so then get_open b else negb mci && is_boundary_infinity t b.
Definition is_minus_infinity (t : btype) (b : bnd) : bool :=
  match t with LOWER => get_special b | UPPER => false (* !store_special && ... *) end.
Definition is_plus_infinity (t : btype) (b : bnd) : bool :=
  match t with UPPER => get_special b | LOWER => false end.
Definition is_reverse_infinity (t : btype) (b : bnd) : bool := false.   (* !may_contain_infinity *)
Definition is_boundary_infinity_closed (t : btype) (b : bnd) : bool :=
  mci && negb (get_open b) && is_boundary_infinity t b.
Definition boundary_infinity_is_open (t : btype) (b : bnd) : bool := negb mci || get_open b.

Definition sgn_b (t : btype) (b : bnd) : Z :=
  if get_special b then (match t with LOWER => (-1)%Z | UPPER => 1%Z end) else csgn C (bv b).

(* special_set_boundary_infinity / set_boundary_infinity / set_minus_infinity / set_plus_infinity /
   set_unbounded, store_special branch *)
Definition set_boundary_infinity (t : btype) (to : bnd) (open : bool) : bnd :=
  let to := set_special to in if open then set_open to else to.
Definition set_minus_infinity (t : btype) (to : bnd) (open : bool) : bnd :=
  let to := set_special to in if open (* || result_relation(V_EQ) != VR_EQ *) then set_open to else to.
Definition set_plus_infinity (t : btype) (to : bnd) (open : bool) : bnd :=
  let to := set_special to in if open then set_open to else to.
Definition set_unbounded (t : btype) (to : bnd) : bnd :=
  let to := set_special to in if negb mci then set_open to else to.

(* eq, lt, gt, le, ge *)
Definition eq (t1 : btype) (b1 : bnd) (t2 : btype) (b2 : bnd) : bool :=
  if (if btype_eqb t1 t2 then negb (Bool.eqb (is_open t1 b1) (is_open t2 b2))
      else is_open t1 b1 || is_open t2 b2)
  then false
  else if is_minus_infinity t1 b1 then is_minus_infinity t2 b2
  else if is_plus_infinity t1 b1 then is_plus_infinity t2 b2
  else if is_minus_infinity t2 b2 || is_plus_infinity t2 b2 then false
  else ceqb C (bv b1) (bv b2).

Definition lt (t1 : btype) (b1 : bnd) (t2 : btype) (b2 : bnd) : bool :=
  let le_part :=
    if is_minus_infinity t1 b1 || is_plus_infinity t2 b2 then true
    else if is_plus_infinity t1 b1 || is_minus_infinity t2 b2 then false
    else cleb C (bv b1) (bv b2) in
  let lt_part :=
    if is_plus_infinity t1 b1 || is_minus_infinity t2 b2 then false
    else if is_minus_infinity t1 b1 || is_plus_infinity t2 b2 then true
    else cltb C (bv b1) (bv b2) in
  if is_open t1 b1
  then (if is_upper t1 && (is_lower t2 || negb (is_open t2 b2)) then le_part else lt_part)
  else (if is_lower t2 && is_open t2 b2 then le_part else lt_part).

Definition gt t1 b1 t2 b2 := lt t2 b2 t1 b1.
Definition le t1 b1 t2 b2 := negb (gt t1 b1 t2 b2).
Definition ge t1 b1 t2 b2 := negb (lt t1 b1 t2 b2).

(* adjust_boundary with a finite result: r in {V_EQ, V_GE/V_LE, V_GT/V_LT}; [strict] = (r is V_GT/V_LT) *)
Definition adjust_boundary (t : btype) (to : bnd) (open strict : bool) : bnd :=
  if open || strict then set_open to else to.

(* the `check' flag handed to the rounding operation (only decides whether strictness is asked for) *)
Definition check_of (should_shrink : bool) : bool := check_inexact || (negb should_shrink && so).

Definition complement (to_type : btype) (to : bnd) (t : btype) (b : bnd) : bnd :=
  if get_special b then
    let should_shrink := negb special_is_open in
    match t with
    | LOWER => set_minus_infinity to_type to should_shrink
    | UPPER => set_plus_infinity to_type to should_shrink
    end
  else
    let should_shrink := negb (normal_is_open t b) in
    adjust_boundary to_type (set_val to (bv b)) should_shrink false.

Definition assign (to_type : btype) (to : bnd) (t : btype) (b : bnd) (should_shrink : bool) : bnd :=
  if get_special b then
    set_boundary_infinity to_type to (should_shrink || special_is_open)
  else
    adjust_boundary to_type (set_val to (bv b)) (should_shrink || normal_is_open t b) false.

(* min_assign / max_assign, the in-place form (to is also the first operand) and the two-source form *)
Definition min_assign1 (to_type : btype) (to : bnd) (t : btype) (b : bnd) : bnd :=
  if lt t b to_type to then assign to_type (clear_props to) t b false else to.
Definition max_assign1 (to_type : btype) (to : bnd) (t : btype) (b : bnd) : bnd :=
  if gt t b to_type to then assign to_type (clear_props to) t b false else to.
Definition min_assign2 (to_type : btype) (to : bnd) t1 b1 t2 b2 : bnd :=
  if lt t1 b1 t2 b2 then assign to_type to t1 b1 false else assign to_type to t2 b2 false.
Definition max_assign2 (to_type : btype) (to : bnd) t1 b1 t2 b2 : bnd :=
  if gt t1 b1 t2 b2 then assign to_type to t1 b1 false else assign to_type to t2 b2 false.

Definition neg_assign (to_type : btype) (to : bnd) (t : btype) (b : bnd) : bnd :=
  if get_special b then set_boundary_infinity to_type to special_is_open
  else
    let should_shrink := normal_is_open t b in
    let '(v, strict) := cneg C to_type (bv b) in
    adjust_boundary to_type (set_val to v) should_shrink strict.

Definition arith_assign (op : btype -> cT C -> cT C -> cT C * bool)
           (to_type : btype) (to : bnd) t1 b1 t2 b2 : bnd :=
  if is_boundary_infinity t1 b1 then
    set_boundary_infinity to_type to
      (boundary_infinity_is_open t1 b1 && negb (is_boundary_infinity_closed t2 b2))
  else if is_boundary_infinity t2 b2 then
    set_boundary_infinity to_type to
      (boundary_infinity_is_open t2 b2 && negb (is_boundary_infinity_closed t1 b1))
  else
    let should_shrink := normal_is_open t1 b1 || normal_is_open t2 b2 in
    let '(v, strict) := op to_type (bv b1) (bv b2) in
    adjust_boundary to_type (set_val to v) should_shrink strict.

Definition add_assign := arith_assign (cadd C).
Definition sub_assign := arith_assign (csub C).
Definition mul_assign := arith_assign (cmul C).

Definition set_zero (to_type : btype) (to : bnd) (should_shrink : bool) : bnd :=
  adjust_boundary to_type (set_val to (czero C)) should_shrink false.

Definition mul_assign_z (to_type : btype) (to : bnd) t1 b1 (x1s : Z) t2 b2 (x2s : Z) : bnd :=
  if negb (x1s =? 0)%Z then
    if negb (x2s =? 0)%Z then mul_assign to_type to t1 b1 t2 b2
    else set_zero to_type to (get_open b2)
  else
    set_zero to_type to (get_open b1 && (negb (x2s =? 0)%Z || get_open b2)).

Definition div_assign (to_type : btype) (to : bnd) t1 b1 t2 b2 : bnd :=
  if is_boundary_infinity t1 b1 then
    set_boundary_infinity to_type to (boundary_infinity_is_open t1 b1)
  else if is_boundary_infinity t2 b2 then
    set_zero to_type to (boundary_infinity_is_open t2 b2)
  else
    let should_shrink := normal_is_open t1 b1 || normal_is_open t2 b2 in
    let '(v, strict) := cdiv C to_type (bv b1) (bv b2) in
    adjust_boundary to_type (set_val to v) should_shrink strict.

Definition div_assign_z (to_type : btype) (to : bnd) t1 b1 (x1s : Z) t2 b2 (x2s : Z) : bnd :=
  if negb (x1s =? 0)%Z then
    if negb (x2s =? 0)%Z then div_assign to_type to t1 b1 t2 b2
    else set_boundary_infinity to_type to true
  else
    set_zero to_type to (get_open b1 && negb (is_boundary_infinity_closed t2 b2)).

End Boundary.

Arguments mkB {C} _ _ _.
Arguments bv {C} _.
Arguments bsp {C} _.
Arguments bop {C} _.
