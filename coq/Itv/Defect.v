(* C12 -- HISTORICAL: the defect Interval::mul_assign had BEFORE commit ed6ee8d in the branch "both
   operands straddle zero".  [mul_assign_pre_ed6ee8d] (the old code) violates enclosure (witnesses by
   computation); it agrees with the current [mul_assign] whenever [mul_diag] reports no flag loss.
   Nothing here is about the current code except the last theorem, which delimits the change. *)
From Coq Require Import ZArith QArith Bool Lia Lqa.
From PPLV Require Import Itv.Boundary Itv.Interval Itv.QCarrier Itv.Sound.
Local Open Scope Q_scope.

Definition fin (l : Q) (lo : bool) (u : Q) (uo : bool) : ritv :=
  mkI (mkB (C := QC) l false lo) (mkB (C := QC) u false uo).
Definition lower_unbounded (u : Q) (uo : bool) : ritv :=
  mkI (mkB (C := QC) 0 true true) (mkB (C := QC) u false uo).
Definition upper_unbounded (l : Q) (lo : bool) : ritv :=
  mkI (mkB (C := QC) l false lo) (mkB (C := QC) 0 true true).
Definition z0 : ritv := fin 0 false 0 false.

(* old code: (-1, 2] * [-3, 1) was computed as (-6, 3): the product -6 = 2 * (-3) is lost. *)
Lemma mul_pre_ed6ee8d_refuted_witness :
  mem QC true 2 (fin (-1) true 2 false) /\ mem QC true (-3) (fin (-3) false 1 true) /\
  ~ mem QC true (2 * -3) (mul_assign_pre_ed6ee8d QC true z0 (fin (-1) true 2 false) (fin (-3) false 1 true)).
Proof.
  split; [|split].
  - split; vm_compute; intuition discriminate.
  - split; vm_compute; intuition discriminate.
  - intros [H _]. vm_compute in H. discriminate.
Qed.

(* old code: (-1, +inf) * (-1, 1) kept the finite upper candidate's bits: the result was bounded above
   (in the C++ code by whatever value the dirty temporary held; here by 0). *)
Lemma mul_pre_ed6ee8d_refuted_witness_unbounded :
  mem QC true 5 (upper_unbounded (-1) true) /\ mem QC true (1 # 2) (fin (-1) true 1 true) /\
  ~ mem QC true (5 * (1 # 2)) (mul_assign_pre_ed6ee8d QC true z0 (upper_unbounded (-1) true) (fin (-1) true 1 true)).
Proof.
  split; [|split].
  - split; vm_compute; intuition discriminate.
  - split; vm_compute; intuition discriminate.
  - intros [_ H]. vm_compute in H. discriminate.
Qed.

Section Agree.
Variable C : Carrier.
Variable so : bool.

Lemma pick_agree cond (a b : bnd C) :
  cond && negb (same_flags C a b) = false -> pick C true cond a b = pick C false cond a b.
Proof.
  unfold pick, same_flags, set_val. destruct cond; cbn [andb]; auto.
  destruct a as [va sa oa], b as [vb sb ob]. cbn [bv bsp bop].
  destruct sa, sb, oa, ob; cbn; intros H; try discriminate; reflexivity.
Qed.

Theorem mul_pre_ed6ee8d_agrees_unless_flag_loss z x y :
  snd (mul_diag C so z x y) = (false, false) ->
  mul_assign_pre_ed6ee8d C so z x y = mul_assign C so z x y.
Proof.
  unfold mul_assign, mul_assign_pre_ed6ee8d, mul_assign_gen, mul_diag, mul_ladder.
  destruct (check_empty_arg C so x || check_empty_arg C so y); auto.
  destruct (negb (infinity_sign C x =? 0)%Z); auto.
  destruct (negb (infinity_sign C y =? 0)%Z); auto.
  destruct (sgn_b C LOWER (lower x) >=? 0)%Z.
  { destruct (sgn_b C LOWER (lower y) >=? 0)%Z; auto;
    destruct ((if (sgn_b C LOWER (lower y) >? 0)%Z then 1%Z else sgn_b C UPPER (upper y)) <=? 0)%Z; auto. }
  destruct ((if (sgn_b C LOWER (lower x) >? 0)%Z then 1%Z else sgn_b C UPPER (upper x)) <=? 0)%Z.
  { destruct (sgn_b C LOWER (lower y) >=? 0)%Z; auto;
    destruct ((if (sgn_b C LOWER (lower y) >? 0)%Z then 1%Z else sgn_b C UPPER (upper y)) <=? 0)%Z; auto. }
  destruct (sgn_b C LOWER (lower y) >=? 0)%Z; auto.
  destruct ((if (sgn_b C LOWER (lower y) >? 0)%Z then 1%Z else sgn_b C UPPER (upper y)) <=? 0)%Z; auto.
  cbn [snd]. unfold straddle_flag_loss, mul_straddle, info_clear. cbn [lower upper]. intros H. injection H as H1 H2.
  rewrite (pick_agree _ _ _ H1), (pick_agree _ _ _ H2). reflexivity.
Qed.

End Agree.
