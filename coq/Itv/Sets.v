(* C12 -- the set operations of Interval: join, intersection, difference, refinement by a relation. *)
From Coq Require Import ZArith QArith Bool Lia Lqa.
From PPLV Require Import Itv.Boundary Itv.Interval Itv.QCarrier Itv.Sound Itv.Arith.
Local Open Scope Q_scope.

Section Sets.
Variable C : Carrier.
Variable so : bool.
Hypothesis L : CarrierLaws C.

Notation bnd := (bnd C).
Notation itv := (itv C).
Notation val := (cval C).
Notation in_lower := (in_lower C so).
Notation in_upper := (in_upper C so).
Notation mem := (mem C so).
Notation clean := (clean C).
Notation gopen := (get_open C so).

Ltac unf := unfold Sound.in_lower, Sound.in_upper, Sound.sat in *; unf0.

(* ---- copying a bound ---------------------------------------------------------------------------- *)

Lemma copy_L to b x : clean to -> (in_lower (assign C so LOWER to LOWER b false) x <-> in_lower b x).
Proof.
  destruct b as [v s o], to as [tv ts tp]. intros [Hc1 Hc2]. cbn in Hc1, Hc2. subst ts tp. unfb. unf.
  destruct s, so, o; cbn; tauto.
Qed.
Lemma copy_U to b x : clean to -> (in_upper (assign C so UPPER to UPPER b false) x <-> in_upper b x).
Proof.
  destruct b as [v s o], to as [tv ts tp]. intros [Hc1 Hc2]. cbn in Hc1, Hc2. subst ts tp. unfb. unf.
  destruct s, so, o; cbn; tauto.
Qed.

Lemma in_lower_mono b x y : x <= y -> in_lower b x -> in_lower b y.
Proof. unf. destruct (bsp b), (if so then bop b else false); auto; lra. Qed.
Lemma in_upper_mono b x y : x <= y -> in_upper b y -> in_upper b x.
Proof. unf. destruct (bsp b), (if so then bop b else false); auto; lra. Qed.

Lemma clean_clear' b : clean (clear_props C b).
Proof. split; reflexivity. Qed.
Hint Resolve clean_clear' : core.

(* min / max of two lower (upper) bounds, both forms *)
Lemma min1_L to b x : in_lower (min_assign1 C so LOWER to LOWER b) x <-> in_lower to x \/ in_lower b x.
Proof.
  unfold min_assign1. destruct (lt C so LOWER b LOWER to) eqn:E.
  - rewrite copy_L; auto. split; auto. intros [H|H]; auto. eapply lt_LL_true; eauto.
  - split; auto. intros [H|H]; auto. eapply lt_LL_false; eauto.
Qed.
Lemma max1_U to b x : in_upper (max_assign1 C so UPPER to UPPER b) x <-> in_upper to x \/ in_upper b x.
Proof.
  unfold max_assign1, gt. destruct (lt C so UPPER to UPPER b) eqn:E.
  - rewrite copy_U; auto. split; auto. intros [H|H]; auto. eapply lt_UU_true; eauto.
  - split; auto. intros [H|H]; auto. eapply lt_UU_false; eauto.
Qed.
Lemma max1_L to b x : in_lower (max_assign1 C so LOWER to LOWER b) x <-> in_lower to x /\ in_lower b x.
Proof.
  unfold max_assign1, gt. destruct (lt C so LOWER to LOWER b) eqn:E.
  - rewrite copy_L; auto. split; [|tauto]. intros H; split; auto. eapply lt_LL_true; eauto.
  - split; [|tauto]. intros H; split; auto. eapply lt_LL_false; eauto.
Qed.
Lemma min1_U to b x : in_upper (min_assign1 C so UPPER to UPPER b) x <-> in_upper to x /\ in_upper b x.
Proof.
  unfold min_assign1. destruct (lt C so UPPER b UPPER to) eqn:E.
  - rewrite copy_U; auto. split; [|tauto]. intros H; split; auto. eapply lt_UU_true; eauto.
  - split; [|tauto]. intros H; split; auto. eapply lt_UU_false; eauto.
Qed.

Lemma min2_L to a b x : clean to -> (in_lower (min_assign2 C so LOWER to LOWER a LOWER b) x <-> in_lower a x \/ in_lower b x).
Proof.
  intros Hc. unfold min_assign2. destruct (lt C so LOWER a LOWER b) eqn:E; rewrite copy_L; auto.
  - split; auto. intros [H|H]; auto. eapply lt_LL_true; eauto.
  - split; auto. intros [H|H]; auto. eapply lt_LL_false; eauto.
Qed.
Lemma max2_U to a b x : clean to -> (in_upper (max_assign2 C so UPPER to UPPER a UPPER b) x <-> in_upper a x \/ in_upper b x).
Proof.
  intros Hc. unfold max_assign2, gt. destruct (lt C so UPPER b UPPER a) eqn:E; rewrite copy_U; auto.
  - split; auto. intros [H|H]; auto. eapply lt_UU_true; eauto.
  - split; auto. intros [H|H]; auto. eapply lt_UU_false; eauto.
Qed.
Lemma max2_L to a b x : clean to -> (in_lower (max_assign2 C so LOWER to LOWER a LOWER b) x <-> in_lower a x /\ in_lower b x).
Proof.
  intros Hc. unfold max_assign2, gt. destruct (lt C so LOWER b LOWER a) eqn:E; rewrite copy_L; auto.
  - split; [|tauto]. intros H; split; auto. eapply lt_LL_true; eauto.
  - split; [|tauto]. intros H; split; auto. eapply lt_LL_false; eauto.
Qed.
Lemma min2_U to a b x : clean to -> (in_upper (min_assign2 C so UPPER to UPPER a UPPER b) x <-> in_upper a x /\ in_upper b x).
Proof.
  intros Hc. unfold min_assign2. destruct (lt C so UPPER a UPPER b) eqn:E; rewrite copy_U; auto.
  - split; [|tauto]. intros H; split; auto. eapply lt_UU_true; eauto.
  - split; [|tauto]. intros H; split; auto. eapply lt_UU_false; eauto.
Qed.

(* ---- assign (copy of an interval) --------------------------------------------------------------- *)

Theorem assign_exact z I x : mem x (assign_itv C so z I) <-> mem x I.
Proof.
  unfold assign_itv, check_empty_arg. destruct (is_empty C so I) eqn:E.
  - split; intros H; exfalso.
    + eapply not_mem_assign_empty; eauto.
    + eapply is_empty_true; eauto.
  - unfold Sound.mem. cbn [lower upper info_clear]. rewrite copy_L, copy_U; auto. tauto.
Qed.

(* ---- intersection: exact ------------------------------------------------------------------------ *)

Theorem intersect1_exact I J x : mem x (intersect_assign1 C so I J) <-> mem x I /\ mem x J.
Proof.
  unfold intersect_assign1, Sound.mem. cbn [lower upper]. rewrite max1_L, min1_U. tauto.
Qed.

Theorem intersect2_exact z I J x : mem x (intersect_assign2 C so z I J) <-> mem x I /\ mem x J.
Proof.
  unfold intersect_assign2, Sound.mem. cbn [lower upper info_clear]. rewrite max2_L, min2_U; auto. tauto.
Qed.

(* ---- join: encloses both, and is their hull ------------------------------------------------------ *)

Definition hull2 (I J : itv) (x : Q) : Prop :=
  (in_lower (lower I) x \/ in_lower (lower J) x) /\ (in_upper (upper I) x \/ in_upper (upper J) x).

Theorem join1_exact I J x :
  mem x (join_assign1 C so I J) <->
  (if is_empty C so I then mem x J else if is_empty C so J then mem x I else hull2 I J x).
Proof.
  unfold join_assign1, check_empty_arg. destruct (is_empty C so I) eqn:E1.
  - apply assign_exact.
  - destruct (is_empty C so J) eqn:E2; [tauto|].
    unfold Sound.mem, hull2. cbn [lower upper]. rewrite min1_L, max1_U. tauto.
Qed.

Theorem join2_exact z I J x :
  mem x (join_assign2 C so z I J) <->
  (if is_empty C so I then mem x J else if is_empty C so J then mem x I else hull2 I J x).
Proof.
  unfold join_assign2, check_empty_arg. destruct (is_empty C so I) eqn:E1.
  - apply assign_exact.
  - destruct (is_empty C so J) eqn:E2; [apply assign_exact|].
    unfold Sound.mem, hull2. cbn [lower upper info_clear]. rewrite min2_L, max2_U; auto. tauto.
Qed.

Theorem join1_encloses I J x : mem x I \/ mem x J -> mem x (join_assign1 C so I J).
Proof.
  intros H. apply join1_exact.
  destruct (is_empty C so I) eqn:E1.
  - destruct H as [H|H]; auto. exfalso. eapply is_empty_true; eauto.
  - destruct (is_empty C so J) eqn:E2.
    + destruct H as [H|H]; auto. exfalso. eapply is_empty_true; eauto.
    + unfold hull2. destruct H as [[H1 H2]|[H1 H2]]; tauto.
Qed.

Theorem join2_encloses z I J x : mem x I \/ mem x J -> mem x (join_assign2 C so z I J).
Proof.
  intros H. apply join2_exact.
  destruct (is_empty C so I) eqn:E1.
  - destruct H as [H|H]; auto. exfalso. eapply is_empty_true; eauto.
  - destruct (is_empty C so J) eqn:E2.
    + destruct H as [H|H]; auto. exfalso. eapply is_empty_true; eauto.
    + unfold hull2. destruct H as [[H1 H2]|[H1 H2]]; tauto.
Qed.

(* ---- difference (in-place form) ------------------------------------------------------------------ *)

Lemma complement_L to u x : clean to -> ~ in_upper u x -> in_lower (complement C so LOWER to UPPER u) x.
Proof.
  destruct u as [v s o], to as [tv ts tp]. intros [Hc1 Hc2]. cbn in Hc1, Hc2. subst ts tp. unfb. unf.
  destruct s, so, o; cbn; intros H; try tauto; lra.
Qed.
Lemma complement_U to l x : clean to -> ~ in_lower l x -> in_upper (complement C so UPPER to LOWER l) x.
Proof.
  destruct l as [v s o], to as [tv ts tp]. intros [Hc1 Hc2]. cbn in Hc1, Hc2. subst ts tp. unfb. unf.
  destruct s, so, o; cbn; intros H; try tauto; lra.
Qed.

Theorem difference1_encloses I J x : mem x I -> ~ mem x J -> mem x (difference_assign1 C so I J).
Proof.
  intros [H1 H2] HJ. unfold difference_assign1.
  destruct (lt C so UPPER (upper I) LOWER (lower J) || gt C so LOWER (lower I) UPPER (upper J)); [split; auto|].
  unfold ge, le, gt.
  destruct (lt C so LOWER (lower I) LOWER (lower J)) eqn:E1; cbn [negb];
  destruct (lt C so UPPER (upper J) UPPER (upper I)) eqn:E2; cbn [negb].
  - split; auto.
  - split; cbn [lower upper]; auto. apply complement_U; auto.
    intros HL. apply HJ. split; auto. eapply lt_UU_false; eauto.
  - split; cbn [lower upper]; auto. apply complement_L; auto.
    intros HU. apply HJ. split; auto. eapply lt_LL_false; eauto.
  - exfalso. apply HJ. split; [eapply lt_LL_false | eapply lt_UU_false]; eauto.
Qed.

Theorem difference2_encloses z I J x : mem x I -> ~ mem x J -> mem x (difference_assign2 C so z I J).
Proof.
  intros [H1 H2] HJ. unfold difference_assign2.
  destruct (lt C so UPPER (upper I) LOWER (lower J) || gt C so LOWER (lower I) UPPER (upper J));
    [apply assign_exact; split; auto|].
  unfold ge, le, gt.
  destruct (lt C so LOWER (lower I) LOWER (lower J)) eqn:E1; cbn [negb];
  destruct (lt C so UPPER (upper J) UPPER (upper I)) eqn:E2; cbn [negb].
  - apply assign_exact; split; auto.
  - split; cbn [lower upper info_clear]; [apply copy_L; auto|]. apply complement_U; auto.
    intros HL. apply HJ. split; auto. eapply lt_UU_false; eauto.
  - split; cbn [lower upper info_clear]; [|apply copy_U; auto]. apply complement_L; auto.
    intros HU. apply HJ. split; auto. eapply lt_LL_false; eauto.
  - exfalso. apply HJ. split; [eapply lt_LL_false | eapply lt_UU_false]; eauto.
Qed.

(* ---- refinement by a relation -------------------------------------------------------------------- *)

Definition rel_holds (r : relsym) (a b : Q) : Prop :=
  match r with
  | LESS_THAN => a < b | LESS_OR_EQUAL => a <= b | GREATER_THAN => b < a | GREATER_OR_EQUAL => b <= a
  | EQUAL => a == b | NOT_EQUAL => ~ a == b
  end.

Lemma singleton_point J : is_singleton C so J = true ->
  bsp (lower J) = false /\ bsp (upper J) = false /\ val (bv (lower J)) == val (bv (upper J)) /\
  gopen (lower J) = false /\ gopen (upper J) = false.
Proof.
  unfold is_singleton. destruct J as [[v1 s1 o1] [v2 s2 o2]]. cbn [lower upper]. unf.
  destruct so, s1, s2, o1, o2; cbn; intros H; try discriminate; bool_to_Q; auto.
Qed.

Lemma eq_LL_point a b : eq C so LOWER a LOWER b = true -> bsp b = false -> gopen b = false ->
  bsp a = false /\ gopen a = false /\ val (bv a) == val (bv b).
Proof.
  destruct a as [v1 s1 o1], b as [v2 s2 o2]. unf.
  destruct so, s1, s2, o1, o2; cbn; intros H; try discriminate; intros; try discriminate; bool_to_Q; auto.
Qed.
Lemma eq_UU_point a b : eq C so UPPER a UPPER b = true -> bsp b = false -> gopen b = false ->
  bsp a = false /\ gopen a = false /\ val (bv a) == val (bv b).
Proof.
  destruct a as [v1 s1 o1], b as [v2 s2 o2]. unf.
  destruct so, s1, s2, o1, o2; cbn; intros H; try discriminate; intros; try discriminate; bool_to_Q; auto.
Qed.

(* removing an end point that x differs from *)
Lemma refine_ne_keeps I J x v :
  mem x I -> ~ x == v ->
  bsp (lower J) = false -> bsp (upper J) = false -> gopen (lower J) = false -> gopen (upper J) = false ->
  val (bv (lower J)) == v -> val (bv (upper J)) == v ->
  mem x (refine_ne C so I J).
Proof.
  intros HI Hne A1 A2 A3 A4 A5 A6. unfold refine_ne, check_empty_arg.
  destruct (is_empty C so I); auto.
  assert (H1 : mem x (if eq C so LOWER (lower I) LOWER (lower J) then remove_inf C so I else I)).
  { destruct (eq C so LOWER (lower I) LOWER (lower J)) eqn:E; auto.
    destruct (eq_LL_point _ _ E A1 A3) as (B1 & B2 & B3).
    destruct HI as [HL HU]. unfold remove_inf. destruct so eqn:Eso; cbn [negb]; [|split; auto].
    split; cbn [lower upper]; auto. revert HL B1 B2 B3. unf. destruct (lower I) as [lv ls lo]. cbn.
    intros HL -> B2 B3. cbn in *. subst lo. lra. }
  set (I' := if eq C so LOWER (lower I) LOWER (lower J) then remove_inf C so I else I) in *.
  destruct (eq C so UPPER (upper I') UPPER (upper J)) eqn:E; auto.
  destruct (eq_UU_point _ _ E A2 A4) as (B1 & B2 & B3).
  destruct H1 as [HL HU]. unfold remove_sup. destruct so eqn:Eso; cbn [negb]; [|split; auto].
  split; cbn [lower upper]; auto. revert HU B1 B2 B3. unf. destruct (upper I') as [uv us uo]. cbn.
  intros HU -> B2 B3. cbn in *. subst uo. lra.
Qed.

Theorem refine_existential_encloses r I J x :
  mem x I -> (exists y, mem y J /\ rel_holds r x y) -> mem x (refine_existential C so r I J).
Proof.
  intros HI [y [HJ Hr]]. unfold refine_existential, check_empty_arg.
  rewrite (mem_not_empty C so L y J HJ). destruct HI as [H1 H2]. destruct HJ as [J1 J2].
  destruct r; cbn [rel_holds] in Hr.
  - destruct (lt C so UPPER (upper I) UPPER (upper J)); [split; auto|].
    split; cbn [lower upper]; auto. apply assign_U; auto.
    + eapply in_upper_mono with (y := y); eauto. lra.
    + intros _ F. apply in_upper_fin in J2; auto. destruct J2. lra.
  - unfold le, gt. destruct (lt C so UPPER (upper J) UPPER (upper I)); cbn [negb]; [|split; auto].
    split; cbn [lower upper]; auto. apply assign_U; auto.
    + eapply in_upper_mono with (y := y); eauto.
    + discriminate.
  - unfold gt. destruct (lt C so LOWER (lower J) LOWER (lower I)); [split; auto|].
    split; cbn [lower upper]; auto. apply assign_L; auto.
    + eapply in_lower_mono with (x := y); eauto. lra.
    + intros _ F. apply in_lower_fin in J1; auto. destruct J1. lra.
  - unfold ge. destruct (lt C so LOWER (lower I) LOWER (lower J)); cbn [negb]; [|split; auto].
    split; cbn [lower upper]; auto. apply assign_L; auto.
    + eapply in_lower_mono with (x := y); eauto.
    + discriminate.
  - apply intersect1_exact. split; [split; auto|]. apply (mem_proper C so y x); [lra | split; auto].
  - destruct (is_singleton C so J) eqn:ES; cbn [negb]; [|split; auto].
    destruct (singleton_point J ES) as (A1 & A2 & A3 & A4 & A5).
    apply in_lower_fin in J1; auto. apply in_upper_fin in J2; auto. destruct J1, J2.
    apply refine_ne_keeps with (v := y); auto; try (split; auto); lra.
Qed.

End Sets.
