(* C12 -- the exact carrier: bounds are rationals (mpq_class), every operation is exact and never strict.
   Values are kept canonical (Qred) as mpq_class does, so that the extracted model can be compared
   with printed bounds. *)
From Coq Require Import ZArith QArith Bool Lia Lqa.
From PPLV Require Import Itv.Boundary Itv.Interval.
Local Open Scope Q_scope.

Definition Qsgn (q : Q) : Z := Z.sgn (Qnum q).
Definition Qltb (a b : Q) : bool := negb (Qle_bool b a).

Definition QC : Carrier :=
  {| cT := Q; cval := fun q => q; czero := 0; cone := 1;
     csgn := Qsgn; ceqb := Qeq_bool; cleb := Qle_bool; cltb := Qltb;
     cneg := fun _ a => (Qred (- a), false);
     cadd := fun _ a b => (Qred (a + b), false);
     csub := fun _ a b => (Qred (a - b), false);
     cmul := fun _ a b => (Qred (a * b), false);
     cdiv := fun _ a b => (Qred (a / b), false) |}.

(* Rational_Interval: store_open = true *)
Definition ritv := itv QC.
