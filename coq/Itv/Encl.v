(* C12 -- enclosure theorems for the interval operations (any carrier satisfying the rounding laws). *)
From Coq Require Import ZArith QArith Bool Lia Lqa.
From PPLV Require Import Itv.Boundary Itv.Interval Itv.QCarrier Itv.Sound Itv.Arith.
Local Open Scope Q_scope.

Section Encl.
Variable C : Carrier.
Variable so : bool.
Hypothesis L : CarrierLaws C.

Notation bnd := (bnd C).
Notation itv := (itv C).
Notation val := (cval C).
Notation in_lower := (in_lower C so).
Notation in_upper := (in_upper C so).
Notation mem := (mem C so).
Notation clean := (clean C).
Notation gopen := (get_open C so).
Notation factor := (factor C so).

Lemma clean_lo z : clean (lower (info_clear C z)).
Proof. split; reflexivity. Qed.
Lemma clean_up z : clean (upper (info_clear C z)).
Proof. split; reflexivity. Qed.
Hint Resolve clean_lo clean_up : core.

Lemma empty_args x y I J :
  mem x I -> mem y J -> check_empty_arg C so I || check_empty_arg C so J = false.
Proof.
  intros H1 H2. unfold check_empty_arg.
  rewrite (mem_not_empty C so L x I H1), (mem_not_empty C so L y J H2). reflexivity.
Qed.

(* ---- neg, add, sub ------------------------------------------------------------------------------ *)

Theorem neg_encloses z I x : mem x I -> mem (- x) (neg_assign C so z I).
Proof.
  intros [H1 H2]. unfold neg_assign, check_empty_arg.
  rewrite (mem_not_empty C so L x I (conj H1 H2)).
  split; cbn [lower upper]; [apply neg_L | apply neg_U]; auto.
Qed.

Theorem add_encloses z I J x y : mem x I -> mem y J -> mem (x + y) (add_assign C so z I J).
Proof.
  intros Hx Hy. unfold add_assign. rewrite (empty_args x y I J Hx Hy).
  unfold infinity_sign, is_reverse_infinity. cbn [Z.eqb negb andb Z.ltb Z.gtb Z.compare].
  destruct Hx, Hy. split; cbn [lower upper]; [apply add_L | apply add_U]; auto.
Qed.

Theorem sub_encloses z I J x y : mem x I -> mem y J -> mem (x - y) (sub_assign C so z I J).
Proof.
  intros Hx Hy. unfold sub_assign. rewrite (empty_args x y I J Hx Hy).
  unfold infinity_sign, is_reverse_infinity. cbn [Z.eqb negb andb Z.ltb Z.gtb Z.compare Z.opp].
  destruct Hx, Hy. split; cbn [lower upper]; [apply sub_L | apply sub_U]; auto.
Qed.

(* ---- factors of a member ------------------------------------------------------------------------ *)

Definition upper_sign (I : itv) : Z :=
  if (sgn_b C LOWER (lower I) >? 0)%Z then 1%Z else sgn_b C UPPER (upper I).

Lemma upper_sign_eq x I : mem x I -> upper_sign I = sgn_b C UPPER (upper I).
Proof.
  intros [H1 H2]. unfold upper_sign.
  destruct (sgn_b C LOWER (lower I) >? 0)%Z eqn:E; auto.
  apply Z.gtb_lt in E.
  assert (F1 : factor LOWER (lower I) (sgn_b C LOWER (lower I)) x) by (split; auto).
  assert (F2 : factor UPPER (upper I) (sgn_b C UPPER (upper I)) x) by (split; auto).
  destruct (factor_cases C so L _ _ _ _ F1) as [[A B]|[A [B D]]]; [lia|].
  destruct (factor_cases C so L _ _ _ _ F2) as [[A' B']|[A' [B' D']]]; [lia|].
  destruct B as [[? B]|[[? B]|[? B]]]; try lia.
  destruct B' as [[? B']|[[? B']|[? B']]]; try lia; destruct D, D'; lra.
Qed.

Lemma fac_lo x I : mem x I -> factor LOWER (lower I) (sgn_b C LOWER (lower I)) x.
Proof. intros [H1 H2]. split; auto. Qed.
Lemma fac_up x I : mem x I -> factor UPPER (upper I) (upper_sign I) x.
Proof. intros H. rewrite (upper_sign_eq x I H). destruct H. split; auto. Qed.

Lemma lower_nonneg b s x : factor LOWER b s x -> (s >= 0)%Z -> 0 <= x.
Proof.
  intros F S. destruct (factor_cases C so L _ _ _ _ F) as [[A B]|[A [B [D E]]]]; [lia|].
  destruct B as [[? B]|[[? B]|[? B]]]; try lia; lra.
Qed.
Lemma upper_nonpos b s x : factor UPPER b s x -> (s <= 0)%Z -> x <= 0.
Proof.
  intros F S. destruct (factor_cases C so L _ _ _ _ F) as [[A B]|[A [B [D E]]]]; [lia|].
  destruct B as [[? B]|[[? B]|[? B]]]; try lia; lra.
Qed.

(* ---- mul ---------------------------------------------------------------------------------------- *)

Theorem mul_encloses z I J x y : mem x I -> mem y J -> mem (x * y) (Interval.mul_assign C so z I J).
Proof.
  intros Hx Hy. unfold Interval.mul_assign, mul_assign_gen, mul_ladder. rewrite (empty_args x y I J Hx Hy).
  unfold infinity_sign, is_reverse_infinity. cbn [Z.eqb negb].
  fold (upper_sign I). fold (upper_sign J).
  pose proof (fac_lo x I Hx) as F1. pose proof (fac_up x I Hx) as F2.
  pose proof (fac_lo y J Hy) as F3. pose proof (fac_up y J Hy) as F4.
  set (xls := sgn_b C LOWER (lower I)) in *. set (xus := upper_sign I) in *.
  set (yls := sgn_b C LOWER (lower J)) in *. set (yus := upper_sign J) in *.
  pose proof (lower_nonneg _ _ _ F1) as N1. pose proof (upper_nonpos _ _ _ F2) as N2.
  pose proof (lower_nonneg _ _ _ F3) as N3. pose proof (upper_nonpos _ _ _ F4) as N4.
  rewrite !Z.geb_leb. cbv beta.
  destruct (Z.leb_spec 0 xls) as [X1|X1].
  - destruct (Z.leb_spec 0 yls) as [Y1|Y1]; [|destruct (Z.leb_spec yus 0) as [Y2|Y2]].
    + split; cbn [lower upper]; [apply mul_lo_LL | apply mul_up_UU_1]; auto; try lia; try (apply N1; lia); try (apply N3; lia).
    + split; cbn [lower upper]; [apply mul_lo_UL_A | apply mul_up_LU]; auto; try lia; try (apply N1; lia).
    + split; cbn [lower upper]; [apply mul_lo_UL_A | apply mul_up_UU_A]; auto; try lia; try (apply N1; lia).
  - destruct (Z.leb_spec xus 0) as [X2|X2].
    + destruct (Z.leb_spec 0 yls) as [Y1|Y1]; [|destruct (Z.leb_spec yus 0) as [Y2|Y2]].
      * split; cbn [lower upper]; [apply mul_lo_LU_A | apply mul_up_UL]; auto; try lia; try (apply N3; lia).
      * split; cbn [lower upper]; [apply mul_lo_UU | apply mul_up_LL_1]; auto; try lia; try (apply N2; lia); try (apply N4; lia).
      * split; cbn [lower upper]; [apply mul_lo_LU_B | apply mul_up_LL_A]; auto; try lia; try (apply N2; lia).
    + destruct (Z.leb_spec 0 yls) as [Y1|Y1]; [|destruct (Z.leb_spec yus 0) as [Y2|Y2]].
      * split; cbn [lower upper]; [apply mul_lo_LU_A | apply mul_up_UU_B]; auto; try lia; try (apply N3; lia).
      * split; cbn [lower upper]; [apply mul_lo_UL_B | apply mul_up_LL_B]; auto; try lia; try (apply N4; lia).
      * (* both straddle zero *)
        assert (xls = (-1)%Z /\ xus = 1%Z /\ yls = (-1)%Z /\ yus = 1%Z) as (E1 & E2 & E3 & E4).
        { destruct (factor_cases C so L _ _ _ _ F1) as [[? ?]|[? [[[? ?]|[[? ?]|[? ?]]] ?]]];
          destruct (factor_cases C so L _ _ _ _ F2) as [[? ?]|[? [[[? ?]|[[? ?]|[? ?]]] ?]]];
          destruct (factor_cases C so L _ _ _ _ F3) as [[? ?]|[? [[[? ?]|[[? ?]|[? ?]]] ?]]];
          destruct (factor_cases C so L _ _ _ _ F4) as [[? ?]|[? [[[? ?]|[[? ?]|[? ?]]] ?]]]; lia. }
        rewrite E1 in F1. rewrite E2 in F2. rewrite E3 in F3. rewrite E4 in F4.
        assert (Hc0 : clean (mkB (czero C) false false)) by (split; reflexivity).
        unfold mul_straddle, pick, strad_tmpl, strad_tol, strad_tmpu, strad_tou.
        split; cbn [lower upper].
        -- destruct (mul_strad_lo C so L (lower (info_clear C z)) (mkB (czero C) false false)
                       _ _ _ _ x y (clean_lo z) Hc0 F1 F2 F3 F4) as [H|H].
           ++ unfold gt.
              destruct (lt C so LOWER _ LOWER _) eqn:E; auto.
              eapply lt_LL_true; eauto.
           ++ unfold gt.
              destruct (lt C so LOWER _ LOWER _) eqn:E; auto.
              eapply lt_LL_false; eauto.
        -- destruct (mul_strad_up C so L (upper (info_clear C z)) (mkB (czero C) false false)
                       _ _ _ _ x y (clean_up z) Hc0 F1 F2 F3 F4) as [H|H].
           ++ destruct (lt C so UPPER _ UPPER _) eqn:E; auto.
              eapply lt_UU_true; eauto.
           ++ destruct (lt C so UPPER _ UPPER _) eqn:E; auto.
              eapply lt_UU_false; eauto.
Qed.

(* ---- div ---------------------------------------------------------------------------------------- *)

Lemma universe_mem z x : mem x (assign_universe C so z).
Proof.
  unfold assign_universe, set_unbounded, set_special, set_open, mci. cbn [negb].
  split; cbn [lower upper]; unfold Sound.in_lower, Sound.in_upper; destruct so; cbn; auto.
Qed.

Theorem div_encloses z I J x y : mem x I -> mem y J -> ~ y == 0 -> mem (x / y) (div_assign C so z I J).
Proof.
  intros Hx Hy Hy0. unfold div_assign. rewrite (empty_args x y I J Hx Hy).
  fold (upper_sign I). fold (upper_sign J).
  pose proof (fac_lo x I Hx) as F1. pose proof (fac_up x I Hx) as F2.
  pose proof (fac_lo y J Hy) as F3. pose proof (fac_up y J Hy) as F4.
  set (xls := sgn_b C LOWER (lower I)) in *. set (xus := upper_sign I) in *.
  set (yls := sgn_b C LOWER (lower J)) in *. set (yus := upper_sign J) in *.
  pose proof (lower_nonneg _ _ _ F1) as N1. pose proof (upper_nonpos _ _ _ F2) as N2.
  pose proof (lower_nonneg _ _ _ F3) as N3. pose proof (upper_nonpos _ _ _ F4) as N4.
  destruct ((yls =? 0)%Z && (yus =? 0)%Z) eqn:EZ.
  { apply andb_true_iff in EZ. destruct EZ as [EZ1 EZ2]. apply Z.eqb_eq in EZ1, EZ2.
    exfalso. apply Hy0. assert (0 <= y) by (apply N3; lia). assert (y <= 0) by (apply N4; lia). lra. }
  unfold infinity_sign, is_reverse_infinity. cbn [Z.eqb negb].
  rewrite !Z.geb_leb.
  destruct (Z.leb_spec 0 yls) as [Y1|Y1]; [|destruct (Z.leb_spec yus 0) as [Y2|Y2]].
  - assert (0 < y) by (specialize (N3 ltac:(lia)); lra).
    destruct (Z.leb_spec 0 xls) as [X1|X1]; [|destruct (Z.leb_spec xus 0) as [X2|X2]].
    + split; cbn [lower upper]; [apply div_lo_LU | apply div_up_UL]; auto; try lia; try (left; apply N1; lia).
    + split; cbn [lower upper]; [apply div_lo_LL | apply div_up_UU]; auto; lia.
    + split; cbn [lower upper]; [apply div_lo_LL | apply div_up_UL]; auto; try lia; try (right; lia).
  - assert (y < 0) by (specialize (N4 ltac:(lia)); lra).
    destruct (Z.leb_spec 0 xls) as [X1|X1]; [|destruct (Z.leb_spec xus 0) as [X2|X2]].
    + split; cbn [lower upper]; [apply div_lo_UU | apply div_up_LL]; auto; try lia; try (left; apply N1; lia).
    + split; cbn [lower upper]; [apply div_lo_UL | apply div_up_LU]; auto; lia.
    + split; cbn [lower upper]; [apply div_lo_UU | apply div_up_LU]; auto; try lia; try (right; lia).
  - apply universe_mem.
Qed.

End Encl.
