(* C12 -- refine_universal encloses { a in I | forall b in J, a rel b } *)
From Coq Require Import ZArith QArith Bool Lia Lqa.
From PPLV Require Import Itv.Boundary Itv.Interval Itv.QCarrier Itv.Sound Itv.Arith Itv.Sets.
Local Open Scope Q_scope.

Section Univ.
Variable C : Carrier.
Variable so : bool.
Hypothesis L : CarrierLaws C.

Notation bnd := (bnd C).
Notation itv := (itv C).
Notation val := (cval C).
Notation in_lower := (in_lower C so).
Notation in_upper := (in_upper C so).
Notation mem := (mem C so).
Notation clean := (clean C).
Notation gopen := (get_open C so).

Ltac unf := unfold Sound.in_lower, Sound.in_upper, Sound.sat in *; unf0.

Lemma Qmid a b : a < b -> a < (a + b) / 2 /\ (a + b) / 2 < b.
Proof. intros H. split; [apply Qlt_shift_div_l | apply Qlt_shift_div_r]; lra. Qed.

(* x is below every member of J: then x is below J's lower bound, read through scalar_view *)
Lemma below_all (strict : bool) J x w :
  mem w J ->
  (forall y, mem y J -> if strict then x < y else x <= y) ->
  bsp (lower J) = false /\ x <= val (bv (lower J)) /\
  (strict = true -> gopen (lower J) = false -> x < val (bv (lower J))).
Proof.
  intros HW H. pose proof HW as [W1 W2]. destruct (bsp (lower J)) eqn:E1.
  - exfalso. destruct (Qlt_le_dec w x) as [D|D].
    + specialize (H w HW). destruct strict; lra.
    + assert (M : mem (x - 1) J).
      { split; [unf; rewrite E1; auto|]. eapply in_upper_mono with (y := w); eauto. lra. }
      specialize (H (x - 1) M). destruct strict; lra.
  - split; auto. apply in_lower_fin in W1; auto. destruct W1 as [W1 W1'].
    set (v := val (bv (lower J))) in *.
    destruct (gopen (lower J)) eqn:O.
    + specialize (W1' eq_refl). split; [|intros _ F; discriminate].
      destruct (Qlt_le_dec v x) as [D|D]; auto. exfalso.
      (* a member of J strictly between v and x *)
      destruct (Qlt_le_dec w x) as [D2|D2].
      * specialize (H w HW). destruct strict; lra.
      * destruct (Qmid v x D) as [M1 M2].
        assert (M : mem ((v + x) / 2) J).
        { split; [unf; rewrite E1; fold v; rewrite O; exact M1|].
          eapply in_upper_mono with (y := w); eauto. lra. }
        specialize (H _ M). destruct strict; lra.
    + assert (M : mem v J).
      { split; [unf; rewrite E1; fold v; rewrite O; lra|]. eapply in_upper_mono with (y := w); eauto. }
      specialize (H v M). destruct strict; split; try lra; intros; lra.
Qed.

Lemma above_all (strict : bool) J x w :
  mem w J ->
  (forall y, mem y J -> if strict then y < x else y <= x) ->
  bsp (upper J) = false /\ val (bv (upper J)) <= x /\
  (strict = true -> gopen (upper J) = false -> val (bv (upper J)) < x).
Proof.
  intros HW H. pose proof HW as [W1 W2]. destruct (bsp (upper J)) eqn:E1.
  - exfalso. destruct (Qlt_le_dec x w) as [D|D].
    + specialize (H w HW). destruct strict; lra.
    + assert (M : mem (x + 1) J).
      { split; [|unf; rewrite E1; auto]. eapply in_lower_mono with (x := w); eauto. lra. }
      specialize (H (x + 1) M). destruct strict; lra.
  - split; auto. apply in_upper_fin in W2; auto. destruct W2 as [W2 W2'].
    set (v := val (bv (upper J))) in *.
    destruct (gopen (upper J)) eqn:O.
    + specialize (W2' eq_refl). split; [|intros _ F; discriminate].
      destruct (Qlt_le_dec x v) as [D|D]; auto. exfalso.
      destruct (Qlt_le_dec x w) as [D2|D2].
      * specialize (H w HW). destruct strict; lra.
      * destruct (Qmid x v D) as [M1 M2].
        assert (M : mem ((x + v) / 2) J).
        { split; [|unf; rewrite E1; fold v; rewrite O; exact M2].
          eapply in_lower_mono with (x := w); eauto. lra. }
        specialize (H _ M). destruct strict; lra.
    + assert (M : mem v J).
      { split; [|unf; rewrite E1; fold v; rewrite O; lra]. eapply in_lower_mono with (x := w); eauto. }
      specialize (H v M). destruct strict; split; try lra; intros; lra.
Qed.

(* the bound written by refine_universal: value of the opposite bound of J, open iff sh *)
Lemma scalar_U to b sh x :
  clean to -> x <= val (bv b) -> (sh = true -> x < val (bv b)) ->
  in_upper (assign C so UPPER to LOWER (scalar_view C b) sh) x.
Proof.
  destruct b as [v s o], to as [tv ts tp]. intros [Hc1 Hc2]. cbn in Hc1, Hc2. subst ts tp.
  unfold scalar_view. unfb. unf. cbn. destruct sh, so; cbn; intros A B; auto; try lra;
    try (specialize (B eq_refl); lra).
Qed.
Lemma scalar_L to b sh x :
  clean to -> val (bv b) <= x -> (sh = true -> val (bv b) < x) ->
  in_lower (assign C so LOWER to UPPER (scalar_view C b) sh) x.
Proof.
  destruct b as [v s o], to as [tv ts tp]. intros [Hc1 Hc2]. cbn in Hc1, Hc2. subst ts tp.
  unfold scalar_view. unfb. unf. cbn. destruct sh, so; cbn; intros A B; auto; try lra;
    try (specialize (B eq_refl); lra).
Qed.

Lemma is_open_fin t b : bsp b = false -> is_open C so t b = gopen b.
Proof. unf. intros ->. destruct so; reflexivity. Qed.

(* NOT_EQUAL: x differs from every member of a non-empty J *)
Lemma refine_ne_univ I J x w :
  mem x I -> mem w J -> (forall y, mem y J -> ~ x == y) -> mem x (refine_ne C so I J).
Proof.
  intros HI HW H. unfold refine_ne, check_empty_arg. destruct (is_empty C so I); auto.
  assert (H1 : mem x (if eq C so LOWER (lower I) LOWER (lower J) then remove_inf C so I else I)).
  { destruct (eq C so LOWER (lower I) LOWER (lower J)) eqn:E; auto.
    destruct HI as [HL HU]. unfold remove_inf. destruct (negb so) eqn:Eso; [split; auto|]. apply negb_false_iff in Eso.
    split; cbn [lower upper]; auto.
    destruct (bsp (lower I)) eqn:S1; [unf; cbn; rewrite ?Eso; try rewrite S1; auto|].
    destruct (bop (lower I)) eqn:O1; [revert HL; unf; cbn; rewrite ?Eso; try rewrite S1; try rewrite O1; auto|].
    (* closed finite lower end shared with J: it is a member of J *)
    assert (Q : bsp (lower J) = false /\ bop (lower J) = false /\ val (bv (lower I)) == val (bv (lower J))).
    { revert E. destruct (lower I) as [v1 s1 o1], (lower J) as [v2 s2 o2]. cbn in S1, O1. subst s1 o1. unf. rewrite ?Eso.
      destruct s2, o2; cbn; intros E; try discriminate; bool_to_Q; auto. }
    destruct Q as (Q1 & Q2 & Q3).
    assert (M : mem (val (bv (lower J))) J).
    { destruct HW as [W1 W2]. split; [unf; cbn; rewrite ?Eso, Q1, Q2; lra|].
      eapply in_upper_mono with (y := w); eauto. revert W1. unf. cbn. rewrite ?Eso, Q1, Q2. auto. }
    specialize (H _ M). revert HL. unf. cbn. rewrite ?Eso; try rewrite S1; try rewrite O1. intros HL. lra. }
  set (I' := if eq C so LOWER (lower I) LOWER (lower J) then remove_inf C so I else I) in *.
  destruct (eq C so UPPER (upper I') UPPER (upper J)) eqn:E; auto.
  destruct H1 as [HL HU]. unfold remove_sup. destruct (negb so) eqn:Eso; [split; auto|]. apply negb_false_iff in Eso.
  split; cbn [lower upper]; auto.
  destruct (bsp (upper I')) eqn:S1; [unf; cbn; rewrite ?Eso; try rewrite S1; auto|].
  destruct (bop (upper I')) eqn:O1; [revert HU; unf; cbn; rewrite ?Eso; try rewrite S1; try rewrite O1; auto|].
  assert (Q : bsp (upper J) = false /\ bop (upper J) = false /\ val (bv (upper I')) == val (bv (upper J))).
  { revert E. destruct (upper I') as [v1 s1 o1], (upper J) as [v2 s2 o2]. cbn in S1, O1. subst s1 o1. unf. rewrite ?Eso.
    destruct s2, o2; cbn; intros E; try discriminate; bool_to_Q; auto. }
  destruct Q as (Q1 & Q2 & Q3).
  assert (M : mem (val (bv (upper J))) J).
  { destruct HW as [W1 W2]. split; [|unf; cbn; rewrite ?Eso, Q1, Q2; lra].
    eapply in_lower_mono with (x := w); eauto. revert W2. unf. cbn. rewrite ?Eso, Q1, Q2. auto. }
  specialize (H _ M). revert HU. unf. cbn. rewrite ?Eso; try rewrite S1; try rewrite O1. intros HU. lra.
Qed.

Theorem refine_universal_encloses_partial r I J x :
  r <> EQUAL ->
  mem x I -> (forall y, mem y J -> rel_holds r x y) -> mem x (refine_universal C so r I J).
Proof.
  intros Hr HI H. unfold refine_universal, check_empty_arg.
  destruct (is_empty C so J) eqn:EJ; auto.
  destruct (is_empty_false C so L J EJ) as [w HW].
  destruct HI as [H1 H2].
  destruct r; cbn [rel_holds] in H; try congruence.
  - destruct (lt C so UPPER (upper I) LOWER (lower J)); [split; auto|].
    destruct (below_all true J x w HW H) as (A & B & D).
    split; cbn [lower upper]; auto. apply scalar_U; [split; reflexivity | exact B |].
    rewrite (is_open_fin LOWER _ A). intros F. apply negb_true_iff in F. auto.
  - unfold le, gt. destruct (lt C so LOWER (lower J) UPPER (upper I)); cbn [negb]; [|split; auto].
    destruct (below_all false J x w HW H) as (A & B & D).
    split; cbn [lower upper]; auto. apply scalar_U; [split; reflexivity | exact B | discriminate].
  - unfold gt. destruct (lt C so UPPER (upper J) LOWER (lower I)); [split; auto|].
    destruct (above_all true J x w HW H) as (A & B & D).
    split; cbn [lower upper]; auto. apply scalar_L; [split; reflexivity | exact B |].
    rewrite (is_open_fin UPPER _ A). intros F. apply negb_true_iff in F. auto.
  - unfold ge. destruct (lt C so LOWER (lower I) UPPER (upper J)); cbn [negb]; [|split; auto].
    destruct (above_all false J x w HW H) as (A & B & D).
    split; cbn [lower upper]; auto. apply scalar_L; [split; reflexivity | exact B | discriminate].
  - eapply refine_ne_univ; eauto. split; auto.
Qed.

End Univ.
