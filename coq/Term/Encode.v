(* C18 -- the constraint systems built by /repo/src/termination.cc, transcribed.

   Input systems are lists of [con] (Base/Sys.v):  ccoefs . v + ccst  (= | >= | >)  0  -- the form in
   which the library stores a Constraint (expression, inhomogeneous term, kind).  As in the C++ the
   builders read only the coefficients and the inhomogeneous term of the input rows, never the kind
   (the callers pass systems of non-strict inequalities produced by the approximation below).

   n is the number of program variables: the C++ computes it as cs.space_dimension() / 2.
   Output layouts, copied from the doc comments of the source:
     MS   : mu_1..mu_n at 0..n-1, mu_0 at n, y_1..y_m at n+1..n+m,
            z_1..z_{m+2} at n+m+1.. (one shared system) or at n+1.. (two systems);
     PR   : u_3 at 0..s-1, u_2 at s..s+r-1, u_1 at s+r..s+2r-1   (r rows before, s rows after);
     PR_original : lambda_1 at 0..m-1, lambda_2 at m..2m-1.
   The order in which rows are inserted differs from the C++ (which interleaves); a system denotes
   the conjunction of its rows, and the per-run tie compares the two as sets of rows. *)
From Coq Require Import List ZArith QArith Lia Lqa Bool.
Require Import PPLV.Base.FM PPLV.Base.Sys PPLV.Base.Gens.
Import ListNotations.
Local Open Scope Q_scope.

(* ---------- vectors ---------- *)
Definition zeros (k : nat) : list Z := repeat 0%Z k.
Definition at_ (k : nat) (l : list Z) : list Z := zeros k ++ l.        (* l placed at offset k *)
Definition unit_ (k : nat) (v : Z) : list Z := zeros k ++ [v].         (* v * Variable(k) *)
Definition mkc (l : list Z) (b : Z) (k : ckind) : con := {| ccoefs := l; ccst := b; ckd := k |}.

(* column j of the coefficient matrix / the vector of inhomogeneous terms, one entry per row *)
Definition col (j : nat) (cs : list con) : list Z := map (fun c => nth j (ccoefs c) 0%Z) cs.
Definition csts (cs : list con) : list Z := map ccst cs.

(* Variable(first + i) >= 0 for i < count *)
Definition nonneg (first count : nat) : list con :=
  map (fun i => mkc (unit_ (first + i) 1) 0 GE) (seq 0 count).

(* ---------- assign_all_inequalities_approximation (termination.cc:34-92) ---------- *)
Definition is_strict (c : con) : bool := match ckd c with GT => true | _ => false end.
Definition is_eq (c : con) : bool := match ckd c with EQ => true | _ => false end.

(* generic version, on pset.minimized_constraints() *)
Definition approx_con (c : con) : list con :=
  match ckd c with
  | EQ => [mkc (ccoefs c) (ccst c) GE; mkc (map Z.opp (ccoefs c)) (- ccst c) GE]   (* expr >= 0, expr <= 0 *)
  | GT => [mkc (ccoefs c) (ccst c) GE]                                               (* expr >= 0 *)
  | GE => [c]
  end.

Definition assign_all_inequalities_approximation (cs_in : list con) : list con :=
  if (existsb is_strict cs_in || existsb is_eq cs_in)%bool then flat_map approx_con cs_in else cs_in.

(* the C_Polyhedron specialisation: only equalities are looked for *)
Definition approx_con_C (c : con) : list con :=
  match ckd c with
  | EQ => [mkc (ccoefs c) (ccst c) GE; mkc (map Z.opp (ccoefs c)) (- ccst c) GE]
  | _ => [c]
  end.

Definition assign_all_inequalities_approximation_C (ph_cs : list con) : list con :=
  if existsb is_eq ph_cs then flat_map approx_con_C ph_cs else ph_cs.

(* Termination_Helpers::assign_all_inequalities_approximation(pset_before, pset_after, cs):
   the approximation of "before" shifted onto the unprimed block n..2n-1, then the rows of "after" *)
Definition shift_con (n : nat) (c : con) : con := mkc (zeros n ++ ccoefs c) (ccst c) (ckd c).

Definition assign_all_inequalities_approximation_2 (n : nat) (approx_before approx_after : list con) : list con :=
  map (shift_con n) approx_before ++ approx_after.

(* ---------- fill_constraint_systems_MS (termination.cc:133-234) ---------- *)
Definition ms_out1 (n : nat) (cs : list con) : list con :=
  let m := length cs in
  let y_begin := S n in
  nonneg y_begin m ++                                                          (* v_y >= 0 *)
  [mkc (at_ y_begin (map Z.opp (csts cs))) (-1) GE] ++                         (* y_le >= 1, y_le = - sum b_i y_i *)
  map (fun j => mkc (vadd (at_ y_begin (col (n + j) cs)) (unit_ j (-1))) 0 EQ) (seq 0 n) ++   (* y_les[n+j] == Variable(j) *)
  map (fun j => mkc (vadd (at_ y_begin (col j cs)) (unit_ j 1)) 0 EQ) (seq 0 n).              (* y_les[j] == -Variable(j) *)

Definition ms_out2 (n z_begin : nat) (cs : list con) : list con :=
  let m := length cs in
  nonneg z_begin (m + 2) ++                                                    (* v_z >= 0, m + 2 of them *)
  [mkc (at_ z_begin (map Z.opp (csts cs) ++ [1; -1])%Z) 0 GE] ++               (* z_le >= 0 *)
  map (fun j => mkc (vadd (at_ z_begin (col (n + j) cs)) (unit_ j (-1))) 0 EQ) (seq 0 n) ++   (* z_les[n+j] == Variable(j) *)
  map (fun j => mkc (at_ z_begin (col j cs)) 0 EQ) (seq 0 n) ++                               (* z_les[j] == 0 *)
  [mkc (vadd (at_ z_begin (zeros m ++ [1; -1])%Z) (unit_ n (-1))) 0 EQ].                      (* z_les[2n] == Variable(n) *)

(* shared = (&cs_out1 == &cs_out2) *)
Definition fill_constraint_systems_MS (n : nat) (cs : list con) (shared : bool) : list con * list con :=
  let m := length cs in
  let y_begin := S n in
  let z_begin := (y_begin + (if shared then m else 0))%nat in
  (ms_out1 n cs, ms_out2 n z_begin cs).

(* the system handed to the MIP solver by termination_test_MS / one_affine_ranking_function_MS *)
Definition ms_mip (n : nat) (cs : list con) : list con :=
  let (a, b) := fill_constraint_systems_MS n cs true in a ++ b.

(* ---------- fill_constraint_system_PR (termination.cc:347-428) ---------- *)
Definition pr_eqs (n : nat) (cs_before cs_after : list con) : list con :=
  (* les_eq[j], j < n :  (u1 - u2) E_B  -  u3 E_C *)
  map (fun j => mkc (map Z.opp (col (n + j) cs_after) ++ map Z.opp (col j cs_before) ++ col j cs_before) 0 EQ) (seq 0 n) ++
  (* les_eq[n+j] :  u2 E_B + u3 (E_C + E'_C) *)
  map (fun j => mkc (vadd (col (n + j) cs_after) (col j cs_after) ++ col j cs_before) 0 EQ) (seq 0 n).

Definition pr_le (cs_before cs_after : list con) : list Z := csts cs_after ++ csts cs_before.   (* u3 d_C + u2 d_B *)

Definition fill_constraint_system_PR (n : nat) (cs_before cs_after : list con) : list con * list Z :=
  let r := length cs_before in
  let s := length cs_after in
  (nonneg 0 (s + 2 * r) ++ pr_eqs n cs_before cs_after, pr_le cs_before cs_after).

(* ---------- fill_constraint_system_PR_original (termination.cc:430-485) ---------- *)
Definition pro_eqs (n : nat) (cs : list con) : list con :=
  let m := length cs in
  map (fun j => mkc (col j cs) 0 EQ) (seq 0 n) ++                                             (* lambda_1 A' *)
  map (fun j => mkc (col (n + j) cs ++ map Z.opp (col (n + j) cs)) 0 EQ) (seq 0 n) ++         (* (lambda_1 - lambda_2) A *)
  map (fun j => mkc (at_ m (vadd (col j cs) (col (n + j) cs))) 0 EQ) (seq 0 n).               (* lambda_2 (A + A') *)

Definition pro_le (cs : list con) : list Z := at_ (length cs) (csts cs).                      (* lambda_2 b *)

Definition fill_constraint_system_PR_original (n : nat) (cs : list con) : list con * list Z :=
  (nonneg 0 (2 * length cs) ++ pro_eqs n cs, pro_le cs).

(* "cs_mip.insert(le_ineq <= -1)" and "ph.add_constraint(le_ineq < 0)" *)
Definition le_le_m1 (le : list Z) : con := mkc (map Z.opp le) (-1) GE.
Definition le_lt_0 (le : list Z) : con := mkc (map Z.opp le) 0 GT.

Definition pr_mip (n : nat) (cs_before cs_after : list con) : list con :=
  let (c, le) := fill_constraint_system_PR n cs_before cs_after in c ++ [le_le_m1 le].
Definition pr_all (n : nat) (cs_before cs_after : list con) : list con :=
  let (c, le) := fill_constraint_system_PR n cs_before cs_after in c ++ [le_lt_0 le].
Definition pro_mip (n : nat) (cs : list con) : list con :=
  let (c, le) := fill_constraint_system_PR_original n cs in c ++ [le_le_m1 le].
Definition pro_all (n : nat) (cs : list con) : list con :=
  let (c, le) := fill_constraint_system_PR_original n cs in c ++ [le_lt_0 le].

(* the coefficients mu_1..mu_n the PR functions compute from a solution: "multiply u_3 by E'_C" with the
   sign of linear_combine(i->expr, 1, -fp_i, 1, n + 1);  [off] = 0 for PR (u_3), m for PR_original (lambda_2) *)
Definition pr_mu (cs_after : list con) (off : nat) (u : point) : point :=
  fun j => - dot (col j cs_after) u off.

(* ---------- evaluation lemmas ---------- *)
Lemma dot_at k l q : dot (at_ k l) q 0 == dot l q k.
Proof. unfold at_, zeros. rewrite dot_app, dot_repeat0, repeat_length. cbn [Nat.add]. lra. Qed.

Lemma dot_unit_ k v q : dot (unit_ k v) q 0 == inject_Z v * q k.
Proof. unfold unit_, zeros. rewrite dot_app, dot_repeat0, repeat_length. cbn [dot Nat.add]. lra. Qed.

Lemma dot_off l : forall q i, dot l q i == dot l (fun j => q (i + j)%nat) 0.
Proof. intros q i. apply dot_shift. intros t. cbn [Nat.add]. reflexivity. Qed.

Lemma sat_cons_app a b p : sat_cons (a ++ b) p <-> sat_cons a p /\ sat_cons b p.
Proof.
  unfold sat_cons. split.
  - intros H. split; intros c Hc; apply H, in_or_app; auto.
  - intros [H1 H2] c Hc. apply in_app_or in Hc. destruct Hc; auto.
Qed.

Lemma sat_cons_one c p : sat_cons [c] p <-> sat_con c p.
Proof. unfold sat_cons. split; [intros H; apply H; now left|intros H c' [<-|[]]; exact H]. Qed.

Lemma sat_cons_map_seq (f : nat -> con) n p :
  sat_cons (map f (seq 0 n)) p <-> forall j, (j < n)%nat -> sat_con (f j) p.
Proof.
  unfold sat_cons. split.
  - intros H j Hj. apply H. apply in_map. apply in_seq. lia.
  - intros H c Hc. apply in_map_iff in Hc. destruct Hc as [j [<- Hj]]. apply in_seq in Hj. apply H. lia.
Qed.

Lemma sat_nonneg first count q :
  sat_cons (nonneg first count) q <-> forall i, (i < count)%nat -> 0 <= q (first + i)%nat.
Proof.
  unfold nonneg. rewrite sat_cons_map_seq. split; intros H i Hi; specialize (H i Hi);
    unfold sat_con, ceval, mkc in *; cbn [ckd ccoefs ccst] in *; rewrite dot_unit_ in *;
    change (inject_Z 1) with 1 in *; change (inject_Z 0) with 0 in *; lra.
Qed.

Lemma sat_con_nonneg c p : sat_con c p -> 0 <= ceval c p.
Proof. unfold sat_con. destruct (ckd c); intros; lra. Qed.
