(* C18 -- completeness of the Mesnard-Serebrenik encoding on closed relations (every ranking function
   comes with multipliers), by the affine Farkas lemma of Term/Farkas.v; hence the MS test answers
   true exactly when an affine ranking function exists. *)
From Coq Require Import List ZArith QArith Qminmax Lia Lqa Bool.
Require Import PPLV.Base.FM PPLV.Base.Sys PPLV.Base.Gens.
Require Import PPLV.Term.RankSpec PPLV.Term.Encode PPLV.Term.Sound PPLV.Term.Check PPLV.Term.Farkas.
Import ListNotations.
Local Open Scope Q_scope.

(* ---------- closed [con] systems as [cstr] lists ---------- *)
Definition cstr_of (c : con) : cstr := {| coefs := ccoefs c; cst := ccst c; strict := false |}.

Lemma eval_cstr_of c p : eval (cstr_of c) p == ceval c p.
Proof. reflexivity. Qed.

Lemma sat_all_cstr_of cs p : all_ge cs -> (sat_all (map cstr_of cs) p <-> sat_cons cs p).
Proof.
  intros G. unfold sat_all, sat_cons. split.
  - intros H c Hc. specialize (H _ (in_map cstr_of _ _ Hc)). unfold sat_con. rewrite (G c Hc). exact H.
  - intros H x Hx. apply in_map_iff in Hx. destruct Hx as [c [<- Hc]]. specialize (H c Hc).
    unfold sat_con in H. rewrite (G c Hc) in H. exact H.
Qed.

Lemma nonstrict_cstr_of cs : nonstrict (map cstr_of cs).
Proof. intros x Hx. apply in_map_iff in Hx. destruct Hx as [c [<- _]]. reflexivity. Qed.

Lemma dim_ok_cstr_of d cs : dimc d cs -> dim_ok d (map cstr_of cs).
Proof. intros H x Hx. apply in_map_iff in Hx. destruct Hx as [c [<- Hc]]. now apply H. Qed.

Lemma csum_wsum cs : forall w off p, csum (map cstr_of cs) w off p == wsum cs w off p.
Proof. induction cs as [|c cs IH]; intros w off p; cbn [map csum wsum]; [reflexivity|]. rewrite IH. reflexivity. Qed.

(* ---------- reading the coefficients off an identity between affine functions ---------- *)
Lemma affine_coeffs D v c0 cs w k :
  (length v <= D)%nat -> dimc D cs ->
  (forall p, dot v p 0 + c0 == wsum cs w 0 p + k) ->
  c0 == dot (csts cs) w 0 + k /\ forall j, (j < D)%nat -> inject_Z (nth j v 0%Z) == dot (col j cs) w 0.
Proof.
  intros Hv Hd H.
  assert (H' : forall p, sumn D (fun j => inject_Z (nth j v 0%Z) * p j) + c0 ==
                         sumn D (fun j => dot (col j cs) w 0 * p j) + dot (csts cs) w 0 + k).
  { intros p. specialize (H p). rewrite (wsum_expand D cs w 0 p Hd) in H. rewrite (dot_sumn v D p 0 Hv) in H.
    cbn [Nat.add] in H. lra. }
  assert (H0 : c0 == dot (csts cs) w 0 + k).
  { specialize (H' (fun _ => 0)). rewrite !sumn_zero in H' by (intros; ring). lra. }
  split; [exact H0|]. intros j Hj.
  specialize (H' (fun i => if Nat.eqb i j then 1 else 0)).
  rewrite (sumn_single D j) in H'; [|exact Hj|intros i _ Hne; destruct (Nat.eqb_spec i j); [contradiction|ring]].
  rewrite (sumn_single D j) in H'; [|exact Hj|intros i _ Hne; destruct (Nat.eqb_spec i j); [contradiction|ring]].
  rewrite Nat.eqb_refl in H'. lra.
Qed.

Lemma dot_block l : forall (q W : point) k, (forall t, (t < length l)%nat -> q (k + t)%nat == W t) -> dot l q k == dot l W 0.
Proof.
  intros q W k H. rewrite (dot_sumn l (length l) q k) by lia. rewrite (dot_sumn l (length l) W 0) by lia.
  apply sumn_ext. intros j Hj. rewrite (H j Hj). reflexivity.
Qed.

Lemma dot_scale_point l : forall (w : point) s i, dot l (fun t => w t * s) i == dot l w i * s.
Proof. induction l as [|x l IH]; intros w s i; cbn [dot]; [lra|]. rewrite IH. ring. Qed.

Lemma dot_zero_point l : forall i, dot l (fun _ => 0) i == 0.
Proof. induction l as [|x l IH]; intros i; cbn [dot]; [reflexivity|]. rewrite IH. ring. Qed.

Lemma nth_nil k : nth k (@nil Z) 0%Z = 0%Z.
Proof. destruct k; reflexivity. Qed.

(* ---------- assembling a solution of the MS system from multipliers ---------- *)
Section Build.
  Variables (n : nat) (cs : list con) (mu : point) (Yv Zv : point).
  Let m := length cs.

  Definition zp : Q := Qmax (mu n) 0.
  Definition zm : Q := Qmax (- mu n) 0.

  Definition sol : point := fun i =>
    if Nat.leb i n then mu i
    else if Nat.ltb i (S n + m) then Yv (i - S n)%nat
    else if Nat.ltb i (S n + m + m) then Zv (i - (S n + m))%nat
    else if Nat.eqb i (S n + m + m) then zp
    else if Nat.eqb i (S n + m + m + 1) then zm else 0.

  Lemma sol_low i : (i <= n)%nat -> sol i = mu i.
  Proof. intros H. unfold sol. destruct (Nat.leb_spec i n); [reflexivity|lia]. Qed.
  Lemma sol_y i : (i < m)%nat -> sol (S n + i)%nat = Yv i.
  Proof.
    intros H. unfold sol. destruct (Nat.leb_spec (S n + i) n); [lia|].
    destruct (Nat.ltb_spec (S n + i) (S n + m)); [|lia]. f_equal. lia.
  Qed.
  Lemma sol_z i : (i < m)%nat -> sol (S n + m + i)%nat = Zv i.
  Proof.
    intros H. unfold sol. destruct (Nat.leb_spec (S n + m + i) n); [lia|].
    destruct (Nat.ltb_spec (S n + m + i) (S n + m)); [lia|].
    destruct (Nat.ltb_spec (S n + m + i) (S n + m + m)); [|lia]. f_equal. lia.
  Qed.
  Lemma sol_zp : sol (S n + m + m)%nat = zp.
  Proof.
    unfold sol. destruct (Nat.leb_spec (S n + m + m) n); [lia|].
    destruct (Nat.ltb_spec (S n + m + m) (S n + m)); [lia|].
    destruct (Nat.ltb_spec (S n + m + m) (S n + m + m)); [lia|]. now rewrite Nat.eqb_refl.
  Qed.
  Lemma sol_zm : sol (S n + m + m + 1)%nat = zm.
  Proof.
    unfold sol. destruct (Nat.leb_spec (S n + m + m + 1) n); [lia|].
    destruct (Nat.ltb_spec (S n + m + m + 1) (S n + m)); [lia|].
    destruct (Nat.ltb_spec (S n + m + m + 1) (S n + m + m)); [lia|].
    destruct (Nat.eqb_spec (S n + m + m + 1) (S n + m + m)); [lia|]. now rewrite Nat.eqb_refl.
  Qed.

  Lemma zp_zm : zp - zm == mu n.
  Proof.
    unfold zp, zm. destruct (Q.max_spec (mu n) 0) as [[A ->]|[A ->]]; destruct (Q.max_spec (- mu n) 0) as [[B ->]|[B ->]]; lra.
  Qed.
  Lemma zp_nonneg : 0 <= zp. Proof. unfold zp. apply Q.le_max_r. Qed.
  Lemma zm_nonneg : 0 <= zm. Proof. unfold zm. apply Q.le_max_r. Qed.

  Hypothesis HY : forall i, 0 <= Yv i.
  Hypothesis HZ : forall i, 0 <= Zv i.
  Hypothesis Y_dec : 1 <= - dot (csts cs) Yv 0.
  Hypothesis Y_x : forall j, (j < n)%nat -> dot (col (n + j) cs) Yv 0 == mu j.
  Hypothesis Y_x' : forall j, (j < n)%nat -> dot (col j cs) Yv 0 == - mu j.
  Hypothesis Z_bnd : 0 <= - dot (csts cs) Zv 0 + mu n.
  Hypothesis Z_x : forall j, (j < n)%nat -> dot (col (n + j) cs) Zv 0 == mu j.
  Hypothesis Z_x' : forall j, (j < n)%nat -> dot (col j cs) Zv 0 == 0.

  Lemma col_len j : length (col j cs) = m. Proof. apply map_length. Qed.
  Lemma csts_len : length (csts cs) = m. Proof. apply map_length. Qed.

  Lemma dotY l : length l = m -> dot l sol (S n)%nat == dot l Yv 0.
  Proof. intros L. apply dot_block. intros t Ht. rewrite sol_y by lia. reflexivity. Qed.
  Lemma dotZ l : length l = m -> dot l sol (S n + m)%nat == dot l Zv 0.
  Proof. intros L. apply dot_block. intros t Ht. rewrite sol_z by lia. reflexivity. Qed.

  Theorem ms_build : sat_cons (ms_mip n cs) sol.
  Proof.
    unfold ms_mip. cbn [fill_constraint_systems_MS]. apply sat_cons_app. fold m. split.
    - apply ms_out1_sat. fold m. split; [|split; [|split]].
      + intros i Hi. rewrite sol_y by exact Hi. apply HY.
      + rewrite (dotY _ csts_len). exact Y_dec.
      + intros j Hj. rewrite (dotY _ (col_len _)), sol_low by lia. now apply Y_x.
      + intros j Hj. rewrite (dotY _ (col_len _)), sol_low by lia. now apply Y_x'.
    - apply ms_out2_sat. cbv zeta. fold m. split; [|split; [|split; [|split]]].
      + intros i Hi. destruct (Nat.lt_ge_cases i m) as [L|L].
        * rewrite sol_z by exact L. apply HZ.
        * destruct (Nat.eq_dec i m) as [->|Ne]; [rewrite sol_zp; apply zp_nonneg|].
          replace i with (m + 1)%nat by lia. rewrite Nat.add_assoc, sol_zm. apply zm_nonneg.
      + rewrite (dotZ _ csts_len), sol_zp, sol_zm. pose proof zp_zm. lra.
      + intros j Hj. rewrite (dotZ _ (col_len _)), sol_low by lia. now apply Z_x.
      + intros j Hj. rewrite (dotZ _ (col_len _)). now apply Z_x'.
      + rewrite sol_zp, sol_zm, sol_low by lia. apply zp_zm.
  Qed.
End Build.

(* ---------- the two implied inequalities of a ranking function with integer data ---------- *)
Lemma sat_bound_c_iff n gl d p : (0 < d)%Z ->
  (sat (bound_c n gl) p <-> 0 <= mudot n (qof gl d) p n + qof gl d n).
Proof.
  intros Hd. pose proof (inj_pos d Hd) as HD. assert (HiD : 0 < / inject_Z d) by (apply Qinv_lt_0_compat; exact HD).
  unfold sat. cbn [bound_c strict]. rewrite eval_bound_c, (mudot_qof n gl d p _ Hd). unfold qof, Qdiv.
  rewrite <- (pos_scale (/ inject_Z d) (dot (mu_of n gl) p n + inject_Z (nth n gl 0%Z)) HiD). split; intros; lra.
Qed.

Lemma sat_decr_c_iff n gl d d0 p : (0 < d)%Z ->
  (sat (decr_c n gl d0) p <-> inject_Z d0 / inject_Z d <= mudot n (qof gl d) p n - mudot n (qof gl d) p 0).
Proof.
  intros Hd. pose proof (inj_pos d Hd) as HD. assert (HiD : 0 < / inject_Z d) by (apply Qinv_lt_0_compat; exact HD).
  unfold sat. cbn [decr_c strict]. rewrite eval_decr_c, !(mudot_qof n gl d p _ Hd). unfold Qdiv.
  rewrite <- (pos_scale (/ inject_Z d) (dot (mu_of n gl) p n - dot (mu_of n gl) p 0 - inject_Z d0) HiD). split; intros; lra.
Qed.

Lemma nth_decr_coefs n gl j : (j < n)%nat ->
  nth j (map Z.opp (mu_of n gl) ++ mu_of n gl) 0%Z = (- nth j gl 0)%Z /\
  nth (n + j) (map Z.opp (mu_of n gl) ++ mu_of n gl) 0%Z = nth j gl 0%Z.
Proof.
  intros Hj. split.
  - rewrite app_nth1 by (rewrite map_length, mu_of_length; lia).
    change 0%Z with (Z.opp 0) at 1. rewrite map_nth, nth_mu_of by lia. reflexivity.
  - rewrite app_nth2 by (rewrite map_length, mu_of_length; lia). rewrite map_length, mu_of_length.
    replace (n + j - n)%nat with j by lia. now apply nth_mu_of.
Qed.

Lemma nth_bound_coefs n gl j : (j < n)%nat ->
  nth j (zeros n ++ mu_of n gl) 0%Z = 0%Z /\ nth (n + j) (zeros n ++ mu_of n gl) 0%Z = nth j gl 0%Z.
Proof.
  intros Hj. unfold zeros. split.
  - rewrite app_nth1 by (rewrite repeat_length; lia). apply nth_repeat.
  - rewrite app_nth2 by (rewrite repeat_length; lia). rewrite repeat_length.
    replace (n + j - n)%nat with j by lia. now apply nth_mu_of.
Qed.

(* ---------- the Farkas multipliers of a ranking function (feasible closed relation) ---------- *)
Lemma rank_mults n cs gl d :
  all_ge cs -> dimc (n + n) cs -> (0 < d)%Z -> (exists p, sat_cons cs p) ->
  ranking n (qof gl d) (sat_cons cs) ->
  let mu := qof gl d in
  exists Y Zv : point,
    (forall i, 0 <= Y i) /\ (forall i, 0 <= Zv i) /\
    1 <= - dot (csts cs) Y 0 /\
    (forall j, (j < n)%nat -> dot (col (n + j) cs) Y 0 == mu j) /\
    (forall j, (j < n)%nat -> dot (col j cs) Y 0 == - mu j) /\
    0 <= - dot (csts cs) Zv 0 + mu n /\
    (forall j, (j < n)%nat -> dot (col (n + j) cs) Zv 0 == mu j) /\
    (forall j, (j < n)%nat -> dot (col j cs) Zv 0 == 0).
Proof.
  intros G Hd Hpos [p0 Hp0] Hr.
  set (cs' := map cstr_of cs). pose proof (inj_pos d Hpos) as HD. set (D := inject_Z d) in *.
  assert (Hfeas : exists p, sat_all cs' p) by (exists p0; now apply sat_all_cstr_of).
  (* decrease *)
  assert (C1 : Cone cs' (eval (decr_c n gl d))).
  { apply (farkas_affine (n + n)); [apply dim_ok_cstr_of, Hd| |apply nonstrict_cstr_of|reflexivity|exact Hfeas|].
    - cbn [decr_c coefs]. rewrite app_length, map_length, mu_of_length. lia.
    - intros p Hp. apply (sat_all_cstr_of cs p G) in Hp. apply (sat_decr_c_iff n gl d d p Hpos).
      destruct (Hr p Hp) as [_ H]. fold D. setoid_replace (D / D) with 1 by (field; lra). exact H. }
  (* bound *)
  assert (C2 : Cone cs' (eval (bound_c n gl))).
  { apply (farkas_affine (n + n)); [apply dim_ok_cstr_of, Hd| |apply nonstrict_cstr_of|reflexivity|exact Hfeas|].
    - cbn [bound_c coefs]. unfold zeros. rewrite app_length, repeat_length, mu_of_length. lia.
    - intros p Hp. apply (sat_all_cstr_of cs p G) in Hp. apply (sat_bound_c_iff n gl d p Hpos).
      destruct (Hr p Hp) as [H _]. exact H. }
  apply Cone_mult in C1. destruct C1 as [w1 [k1 [W1 [K1 E1]]]].
  apply Cone_mult in C2. destruct C2 as [w2 [k2 [W2 [K2 E2]]]].
  assert (A1 : - D == dot (csts cs) w1 0 + k1 /\
               forall j, (j < n + n)%nat -> inject_Z (nth j (map Z.opp (mu_of n gl) ++ mu_of n gl) 0%Z) == dot (col j cs) w1 0).
  { apply (affine_coeffs (n + n) _ (- D) cs w1 k1).
    - rewrite app_length, map_length, mu_of_length. lia.
    - exact Hd.
    - intros p. specialize (E1 p). unfold cs' in E1. rewrite csum_wsum in E1. unfold eval in E1. cbn [decr_c coefs cst] in E1.
      rewrite inject_Z_opp in E1. fold D in E1. exact E1. }
  assert (A2 : inject_Z (nth n gl 0%Z) == dot (csts cs) w2 0 + k2 /\
               forall j, (j < n + n)%nat -> inject_Z (nth j (zeros n ++ mu_of n gl) 0%Z) == dot (col j cs) w2 0).
  { apply (affine_coeffs (n + n) _ _ cs w2 k2).
    - unfold zeros. rewrite app_length, repeat_length, mu_of_length. lia.
    - exact Hd.
    - intros p. specialize (E2 p). unfold cs' in E2. rewrite csum_wsum in E2. exact E2. }
  destruct A1 as [A10 A1]. destruct A2 as [A20 A2].
  assert (HiD : 0 < / D) by (apply Qinv_lt_0_compat; exact HD).
  intros mu. set (Y := fun t => w1 t * / D). set (Z := fun t => w2 t * / D).
  exists Y, Z.
  assert (Emu : forall j, mu j == inject_Z (nth j gl 0%Z) * / D) by (intros; reflexivity).
  repeat split.
  - intros i. unfold Y. specialize (W1 i). nra.
  - intros i. unfold Z. specialize (W2 i). nra.
  - unfold Y. rewrite dot_scale_point. setoid_replace (dot (csts cs) w1 0) with (- D - k1) by lra.
    assert (X : - ((- D - k1) * / D) == 1 + k1 * / D) by (field; lra). rewrite X. nra.
  - intros j Hj. unfold Y. rewrite dot_scale_point, <- (A1 (n + j)%nat) by lia.
    rewrite (proj2 (nth_decr_coefs n gl j Hj)). rewrite Emu. reflexivity.
  - intros j Hj. unfold Y. rewrite dot_scale_point, <- (A1 j) by lia.
    rewrite (proj1 (nth_decr_coefs n gl j Hj)), inject_Z_opp, Emu. ring.
  - unfold Z. rewrite dot_scale_point, Emu. setoid_replace (dot (csts cs) w2 0) with (inject_Z (nth n gl 0%Z) - k2) by lra.
    assert (X : - ((inject_Z (nth n gl 0%Z) - k2) * / D) + inject_Z (nth n gl 0%Z) * / D == k2 * / D) by ring.
    rewrite X. nra.
  - intros j Hj. unfold Z. rewrite dot_scale_point, <- (A2 (n + j)%nat) by lia.
    rewrite (proj2 (nth_bound_coefs n gl j Hj)), Emu. reflexivity.
  - intros j Hj. unfold Z. rewrite dot_scale_point, <- (A2 j) by lia.
    rewrite (proj1 (nth_bound_coefs n gl j Hj)). change (inject_Z 0) with 0. ring.
Qed.


(* ---------- completeness, feasible relation: the given function itself is in the projection ---------- *)
Theorem ms_complete_feasible n cs gl d :
  all_ge cs -> dimc (n + n) cs -> (0 < d)%Z -> (exists p, sat_cons cs p) ->
  ranking n (qof gl d) (sat_cons cs) ->
  exists q', (forall i, (i <= n)%nat -> q' i == qof gl d i) /\ sat_cons (ms_mip n cs) q'.
Proof.
  intros G Hd Hpos Hf Hr. destruct (rank_mults n cs gl d G Hd Hpos Hf Hr) as [Y [Zv [H1 [H2 [H3 [H4 [H5 [H6 [H7 H8]]]]]]]]].
  exists (sol n cs (qof gl d) Y Zv). split; [intros i Hi; rewrite sol_low by exact Hi; reflexivity|].
  apply ms_build; assumption.
Qed.

(* ---------- the certificate of an empty closed relation ---------- *)
Lemma empty_mults n cs :
  all_ge cs -> dimc (n + n) cs -> ~ (exists p, sat_cons cs p) ->
  exists Y : point, (forall i, 0 <= Y i) /\ - dot (csts cs) Y 0 == 1 /\ forall j, (j < n + n)%nat -> dot (col j cs) Y 0 == 0.
Proof.
  intros G Hd Hne. set (cs' := map cstr_of cs).
  destruct (farkas_infeasible (n + n) cs') as [k [Hk C]]; [apply dim_ok_cstr_of, Hd|apply nonstrict_cstr_of| |].
  { intros [p Hp]. apply Hne. exists p. now apply (sat_all_cstr_of cs p G). }
  apply Cone_mult in C. destruct C as [w [k0 [W [K0 E]]]].
  destruct (affine_coeffs (n + n) [] k cs w k0) as [A0 A]; [cbn; lia|exact Hd| |].
  { intros p. specialize (E p). unfold cs' in E. rewrite csum_wsum in E. cbn [dot]. lra. }
  set (s := k0 - k). assert (Hs : 0 < s) by (unfold s; lra). assert (His : 0 < / s) by (apply Qinv_lt_0_compat; exact Hs).
  exists (fun t => w t * / s). split; [|split].
  - intros i. specialize (W i). nra.
  - rewrite dot_scale_point. setoid_replace (dot (csts cs) w 0) with (- s) by (unfold s; lra). field. lra.
  - intros j Hj. rewrite dot_scale_point, <- (A j) by lia. rewrite nth_nil. change (inject_Z 0) with 0. ring.
Qed.

(* ---------- empty relation: the MS system is feasible (with mu = 0) ---------- *)
Theorem ms_feasible_of_empty n cs :
  all_ge cs -> dimc (n + n) cs -> ~ (exists p, sat_cons cs p) -> exists q', sat_cons (ms_mip n cs) q'.
Proof.
  intros G Hd Hne. destruct (empty_mults n cs G Hd Hne) as [Y [HY [H1 H2]]].
  exists (sol n cs (fun _ => 0) Y (fun _ => 0)). apply ms_build.
  - exact HY.
  - intros; lra.
  - lra.
  - intros j Hj. rewrite H2 by lia. reflexivity.
  - intros j Hj. rewrite H2 by lia. ring.
  - rewrite dot_zero_point. lra.
  - intros j Hj. rewrite dot_zero_point. reflexivity.
  - intros j Hj. apply dot_zero_point.
Qed.

(* ---------- any rational function has integer data with a common divisor ---------- *)
Lemma common_den (q : point) : forall k, exists gl d, (0 < d)%Z /\ length gl = k /\ forall j, (j < k)%nat -> qof gl d j == q j.
Proof.
  induction k as [|k [gl [d [Hd [Hl H]]]]].
  - exists [], 1%Z. split; [lia|]. split; [reflexivity|]. intros j Hj. lia.
  - destruct (q k) as [a b] eqn:Eq.
    exists (map (Z.mul (Zpos b)) gl ++ [(a * d)%Z]), (d * Zpos b)%Z. split; [lia|]. split; [rewrite app_length, map_length; cbn; lia|].
    intros j Hj. unfold qof. pose proof (inj_pos d Hd) as HD. assert (HB : 0 < inject_Z (Zpos b)) by (apply inj_pos; lia).
    destruct (Nat.eq_dec j k) as [->|Ne].
    + rewrite app_nth2 by (rewrite map_length; lia). rewrite map_length, Hl, Nat.sub_diag. cbn [nth].
      rewrite Eq, (Qmake_Qdiv a b), !inject_Z_mult. field. split; lra.
    + rewrite app_nth1 by (rewrite map_length; lia).
      change 0%Z with (Z.mul (Zpos b) 0) at 1. rewrite map_nth, !inject_Z_mult.
      rewrite <- (H j) by lia. unfold qof. field. split; lra.
Qed.

Lemma ranking_ext n q q' d R : (forall j, (j <= n)%nat -> q j == q' j) -> ranking_d n q d R -> ranking_d n q' d R.
Proof.
  intros E H p Hp. destruct (H p Hp) as [A B].
  rewrite <- !(mudot_ext n q q') by (intros; apply E; lia). rewrite <- (E n) by lia. split; assumption.
Qed.

Theorem ms_complete n cs q :
  all_ge cs -> dimc (n + n) cs -> (exists p, sat_cons cs p) -> ranking n q (sat_cons cs) ->
  exists q', (forall i, (i <= n)%nat -> q' i == q i) /\ sat_cons (ms_mip n cs) q'.
Proof.
  intros G Hd Hf Hr. destruct (common_den q (S n)) as [gl [d [Hpos [_ E]]]].
  assert (Hr' : ranking n (qof gl d) (sat_cons cs)).
  { apply (ranking_ext n q); [|exact Hr]. intros j Hj. symmetry. apply E. lia. }
  destruct (ms_complete_feasible n cs gl d G Hd Hpos Hf Hr') as [q' [A B]].
  exists q'. split; [|exact B]. intros i Hi. rewrite (A i Hi). apply E. lia.
Qed.

(* feasibility of a closed system is decidable (by the verified elimination) *)
Lemma feasible_dec n cs : all_ge cs -> dimc (n + n) cs -> (exists p, sat_cons cs p) \/ ~ (exists p, sat_cons cs p).
Proof.
  intros G Hd. pose proof (nonempty_b_exact (n + n) (map cstr_of cs) (dim_ok_cstr_of _ _ Hd)) as X.
  destruct (nonempty_b (n + n) (map cstr_of cs)).
  - left. destruct (proj1 X eq_refl) as [p Hp]. exists p. now apply (sat_all_cstr_of cs p G).
  - right. intros [p Hp]. assert (false = true); [|discriminate]. apply X. exists p. now apply sat_all_cstr_of.
Qed.

(* the MS test is true exactly when an affine ranking function exists *)
Theorem ms_test_iff n cs :
  all_ge cs -> dimc (n + n) cs ->
  ((exists q, sat_cons (ms_mip n cs) q) <-> (exists q, ranking n q (sat_cons cs))).
Proof.
  intros G Hd. split.
  - intros [q Hq]. exists q. now apply ms_mip_sound.
  - intros [q Hr]. destruct (feasible_dec n cs G Hd) as [Hf|Hne].
    + destruct (ms_complete n cs q G Hd Hf Hr) as [q' [_ H]]. now exists q'.
    + now apply ms_feasible_of_empty.
Qed.

(* ---------- Podelski-Rybalchenko (original form): completeness ---------- *)
Section BuildPRO.
  Variables (n : nat) (cs : list con) (mu : point) (L1 L2 : point).
  Let m := length cs.

  Definition solp : point := fun i => if Nat.ltb i m then L1 i else L2 (i - m)%nat.

  Lemma solp_1 l : length l = m -> dot l solp 0 == dot l L1 0.
  Proof.
    intros L. apply dot_block. intros t Ht. cbn [Nat.add]. unfold solp. destruct (Nat.ltb_spec t m); [reflexivity|lia].
  Qed.
  Lemma solp_2 l : length l = m -> dot l solp m == dot l L2 0.
  Proof.
    intros L. apply dot_block. intros t Ht. unfold solp. destruct (Nat.ltb_spec (m + t) m); [lia|].
    replace (m + t - m)%nat with t by lia. reflexivity.
  Qed.

  Hypothesis H1 : forall i, 0 <= L1 i.
  Hypothesis H2 : forall i, 0 <= L2 i.
  Hypothesis L2_dec : 1 <= - dot (csts cs) L2 0.
  Hypothesis L2_x : forall j, (j < n)%nat -> dot (col (n + j) cs) L2 0 == mu j.
  Hypothesis L2_x' : forall j, (j < n)%nat -> dot (col j cs) L2 0 == - mu j.
  Hypothesis L1_x : forall j, (j < n)%nat -> dot (col (n + j) cs) L1 0 == mu j.
  Hypothesis L1_x' : forall j, (j < n)%nat -> dot (col j cs) L1 0 == 0.

  Theorem pro_build : sat_cons (pro_mip n cs) solp /\ forall j, (j < n)%nat -> pr_mu cs m solp j == mu j.
  Proof.
    assert (CL : forall j, length (col j cs) = m) by (intros; apply map_length).
    assert (KL : length (csts cs) = m) by apply map_length.
    split.
    - unfold pro_mip. cbn [fill_constraint_system_PR_original]. apply sat_cons_app. split.
      + apply pro_sat. fold m. split; [|split; [|split]].
        * intros i Hi. unfold solp. destruct (Nat.ltb i m); [apply H1|apply H2].
        * intros j Hj. rewrite (solp_1 _ (CL _)). now apply L1_x'.
        * intros j Hj. rewrite (solp_1 _ (CL _)), (solp_2 _ (CL _)), L1_x, L2_x by exact Hj. ring.
        * intros j Hj. rewrite !(solp_2 _ (CL _)), L2_x, L2_x' by exact Hj. ring.
      + apply sat_cons_one, le_le_m1_sat. unfold pro_le. rewrite dot_at. fold m. rewrite (solp_2 _ KL). exact L2_dec.
    - intros j Hj. unfold pr_mu. rewrite (solp_2 _ (CL _)), L2_x' by exact Hj. ring.
  Qed.
End BuildPRO.

Theorem pro_complete n cs q :
  all_ge cs -> dimc (n + n) cs -> (exists p, sat_cons cs p) -> ranking n q (sat_cons cs) ->
  exists l, sat_cons (pro_mip n cs) l /\ forall j, (j < n)%nat -> pr_mu cs (length cs) l j == q j.
Proof.
  intros G Hd Hf Hr. destruct (common_den q (S n)) as [gl [d [Hpos [_ E]]]].
  assert (Hr' : ranking n (qof gl d) (sat_cons cs)).
  { apply (ranking_ext n q); [|exact Hr]. intros j Hj. symmetry. apply E. lia. }
  destruct (rank_mults n cs gl d G Hd Hpos Hf Hr') as [Y [Zv [A1 [A2 [A3 [A4 [A5 [A6 [A7 A8]]]]]]]]].
  destruct (pro_build n cs (qof gl d) Zv Y A2 A1 A3 A4 A5 A7 A8) as [S M].
  exists (solp cs Zv Y). split; [exact S|]. intros j Hj. rewrite (M j Hj). apply E. lia.
Qed.

Theorem pro_feasible_of_empty n cs :
  all_ge cs -> dimc (n + n) cs -> ~ (exists p, sat_cons cs p) -> exists l, sat_cons (pro_mip n cs) l.
Proof.
  intros G Hd Hne. destruct (empty_mults n cs G Hd Hne) as [Y [HY [K1 K2]]].
  destruct (pro_build n cs (fun _ => 0) Y Y HY HY) as [S _].
  - lra.
  - intros j Hj. rewrite K2 by lia. reflexivity.
  - intros j Hj. rewrite K2 by lia. ring.
  - intros j Hj. rewrite K2 by lia. reflexivity.
  - intros j Hj. rewrite K2 by lia. reflexivity.
  - now exists (solp cs Y Y).
Qed.

(* PR (original) test: true exactly when a ranking function exists ... *)
Theorem pro_test_iff n cs :
  all_ge cs -> dimc (n + n) cs ->
  ((exists l, sat_cons (pro_mip n cs) l) <-> (exists q, ranking n q (sat_cons cs))).
Proof.
  intros G Hd. split.
  - intros [l Hl]. destruct (pro_sound n cs l Hd Hl) as [mu0 H]. now exists (with_mu0 n (pr_mu cs (length cs) l) mu0).
  - intros [q Hr]. destruct (feasible_dec n cs G Hd) as [Hf|Hne].
    + destruct (pro_complete n cs q G Hd Hf Hr) as [l [H _]]. now exists l.
    + now apply pro_feasible_of_empty.
Qed.

(* ... hence the two methods agree on every closed relation *)
Theorem ms_pr_agree n cs :
  all_ge cs -> dimc (n + n) cs ->
  ((exists q, sat_cons (ms_mip n cs) q) <-> (exists l, sat_cons (pro_mip n cs) l)).
Proof. intros G Hd. rewrite (ms_test_iff n cs G Hd), (pro_test_iff n cs G Hd). reflexivity. Qed.

(* ---------- the two-system PR form is NOT complete when the guard is only in cs_after ---------- *)
(* n = 1, cs_before = {} (universe), cs_after = { x >= 1, x - x' - 1 >= 0 }: the relation has the ranking
   function x, the MS system is feasible, the PR two-system problem is infeasible (its lower bound can
   only come from cs_before).  This is the recorded finding C18-pr2-guard. *)
Definition ex_after : list con :=
  [ mkc [0; 1]%Z (-1) GE ; mkc [-1; 1]%Z (-1) GE ].

Definition ms_pr2_agree_full : Prop :=
  forall n B C, all_ge B -> all_ge C -> dimc n B -> dimc (n + n) C ->
  ((exists q, sat_cons (ms_mip n (assign_all_inequalities_approximation_2 n B C)) q) <->
   (exists u, sat_cons (pr_mip n B C) u)).

Theorem ms_pr2_agree_refuted : ~ ms_pr2_agree_full.
Proof.
  intros H. specialize (H 1%nat [] ex_after).
  assert (G : all_ge ex_after) by (intros c [<-|[<-|[]]]; reflexivity).
  assert (D : dimc 2 ex_after) by (intros c [<-|[<-|[]]]; cbn; lia).
  destruct (H (fun c (F : In c []) => match F with end) G (fun c (F : In c []) => match F with end) D) as [H1 _].
  assert (E1 : nonempty_cons 9 (ms_mip 1 (assign_all_inequalities_approximation_2 1 [] ex_after)) = Some true) by (vm_compute; reflexivity).
  assert (E2 : nonempty_cons 2 (pr_mip 1 [] ex_after) = Some false) by (vm_compute; reflexivity).
  pose proof (proj1 (nonempty_cons_exact _ _ _ E1) eq_refl) as [q Hq].
  destruct (H1 (ex_intro _ q Hq)) as [u Hu].
  pose proof (proj2 (nonempty_cons_exact _ _ _ E2) (ex_intro _ u Hu)). discriminate.
Qed.

(* hypotheses of the completeness theorems are satisfiable: x >= 1, x' = x - 1 (closed), ranking function x *)
Example ex_hyps : all_ge ex_after /\ dimc (1 + 1) ex_after /\ (exists p, sat_cons ex_after p) /\
                  exists q, ranking 1 q (sat_cons ex_after).
Proof.
  split; [intros c [<-|[<-|[]]]; reflexivity|]. split; [intros c [<-|[<-|[]]]; cbn; lia|].
  assert (E : nonempty_cons 2 ex_after = Some true) by (vm_compute; reflexivity).
  split; [exact (proj1 (nonempty_cons_exact _ _ _ E) eq_refl)|].
  apply (ms_test_iff 1 ex_after); [intros c [<-|[<-|[]]]; reflexivity|intros c [<-|[<-|[]]]; cbn; lia|].
  assert (E1 : nonempty_cons 9 (ms_mip 1 ex_after) = Some true) by (vm_compute; reflexivity).
  exact (proj1 (nonempty_cons_exact _ _ _ E1) eq_refl).
Qed.

(* ---------- the hypotheses of the soundness / checker theorems are satisfiable ---------- *)
Definition ex_before : list con := [ mkc [1]%Z (-1) GE ].      (* x >= 1 *)

Example ex_ms_mip_feasible : dimc (1 + 1) ex_after /\ exists q, sat_cons (ms_mip 1 ex_after) q.
Proof.
  split; [intros c [<-|[<-|[]]]; cbn; lia|].
  assert (E : nonempty_cons 9 (ms_mip 1 ex_after) = Some true) by (vm_compute; reflexivity).
  exact (proj1 (nonempty_cons_exact _ _ _ E) eq_refl).
Qed.

Example ex_pro_mip_feasible : exists l, sat_cons (pro_mip 1 ex_after) l.
Proof.
  assert (E : nonempty_cons 4 (pro_mip 1 ex_after) = Some true) by (vm_compute; reflexivity).
  exact (proj1 (nonempty_cons_exact _ _ _ E) eq_refl).
Qed.

Example ex_pr_mip_feasible : dimc 1 ex_before /\ exists u, sat_cons (pr_mip 1 ex_before ex_after) u.
Proof.
  split; [intros c [<-|[]]; cbn; lia|].
  assert (E : nonempty_cons 4 (pr_mip 1 ex_before ex_after) = Some true) by (vm_compute; reflexivity).
  exact (proj1 (nonempty_cons_exact _ _ _ E) eq_refl).
Qed.

Example ex_pr_all_feasible : exists u, sat_cons (pr_all 1 ex_before ex_after) u.
Proof.
  assert (E : nonempty_cons 4 (pr_all 1 ex_before ex_after) = Some true) by (vm_compute; reflexivity).
  exact (proj1 (nonempty_cons_exact _ _ _ E) eq_refl).
Qed.

(* the function x (gl = [1; 0], divisor 1) on the example: accepted by both checkers; -x rejected *)
Example ex_check_rank : check_rank 1 ex_after [1; 0]%Z 1 = Some true /\ check_rank 1 ex_after [-1; 0]%Z 1 = Some false.
Proof. split; vm_compute; reflexivity. Qed.

Example ex_check_weak : check_weak 1 ex_after [1; 0]%Z true = Some true /\ check_weak 1 ex_after [0; 0]%Z true = Some false /\
                        check_weak 1 ex_after [0; 0]%Z false = Some true.
Proof. repeat split; vm_compute; reflexivity. Qed.

Example ex_same_cons : same_cons_b [mkc [2; -4]%Z 6 EQ; mkc [0; 1]%Z (-1) GE] [mkc [0; 3]%Z (-3) GE; mkc [-1; 2]%Z (-3) EQ] = true.
Proof. vm_compute; reflexivity. Qed.

Example ex_approximation : assign_all_inequalities_approximation [mkc [1; -1]%Z 1 EQ; mkc [0; 1]%Z 0 GT]
                           = [mkc [1; -1]%Z 1 GE; mkc [-1; 1]%Z (-1) GE; mkc [0; 1]%Z 0 GE].
Proof. vm_compute; reflexivity. Qed.
