(* C18 -- completeness of the two-system ("improved") Podelski-Rybalchenko encoding when cs_before carries
   the guard: every state of cs_before has a successor in cs_after.  Together with Sound.v: under that
   hypothesis the PR_2 test is true exactly when an affine ranking function exists, hence agrees with MS_2.
   (Without the hypothesis the statement is false: Complete.ms_pr2_agree_refuted.) *)
From Coq Require Import List ZArith QArith Qminmax Lia Lqa Bool.
Require Import PPLV.Base.FM PPLV.Base.Sys PPLV.Base.Gens.
Require Import PPLV.Term.RankSpec PPLV.Term.Encode PPLV.Term.Sound PPLV.Term.Check PPLV.Term.Farkas PPLV.Term.Complete.
Import ListNotations.
Local Open Scope Q_scope.

Definition joint (n : nat) (B C : list con) : list con := assign_all_inequalities_approximation_2 n B C.

Lemma joint_all_ge n B C : all_ge B -> all_ge C -> all_ge (joint n B C).
Proof.
  intros GB GC c Hc. unfold joint, assign_all_inequalities_approximation_2 in Hc. apply in_app_or in Hc.
  destruct Hc as [Hc|Hc]; [|now apply GC]. apply in_map_iff in Hc. destruct Hc as [c0 [<- H0]]. cbn. now apply GB.
Qed.

Lemma joint_dimc n B C : dimc n B -> dimc (n + n) C -> dimc (n + n) (joint n B C).
Proof.
  intros DB DC c Hc. unfold joint, assign_all_inequalities_approximation_2 in Hc. apply in_app_or in Hc.
  destruct Hc as [Hc|Hc]; [|now apply DC]. apply in_map_iff in Hc. destruct Hc as [c0 [<- H0]].
  cbn [shift_con mkc ccoefs]. unfold zeros. rewrite app_length, repeat_length. specialize (DB c0 H0). lia.
Qed.

(* columns of the joint system *)
Lemma col_joint n B C j : col j (joint n B C) = col j (map (shift_con n) B) ++ col j C.
Proof. unfold joint, assign_all_inequalities_approximation_2, col. now rewrite map_app. Qed.

Lemma col_shift_low n B j : (j < n)%nat -> col j (map (shift_con n) B) = map (fun _ => 0%Z) B.
Proof.
  intros Hj. unfold col. rewrite map_map. apply map_ext. intros c. cbn [shift_con mkc ccoefs]. unfold zeros.
  rewrite app_nth1 by (rewrite repeat_length; lia). apply nth_repeat.
Qed.

Lemma col_shift_high n B j : col (n + j) (map (shift_con n) B) = col j B.
Proof.
  unfold col. rewrite map_map. apply map_ext. intros c. cbn [shift_con mkc ccoefs]. unfold zeros.
  rewrite app_nth2 by (rewrite repeat_length; lia). rewrite repeat_length. f_equal. lia.
Qed.

Lemma csts_joint n B C : csts (joint n B C) = csts B ++ csts C.
Proof.
  unfold joint, assign_all_inequalities_approximation_2, csts. rewrite map_app, map_map. reflexivity.
Qed.

Lemma dot_map0 {A} (l : list A) w i : dot (map (fun _ => 0%Z) l) w i == 0.
Proof. revert i. induction l as [|x l IH]; intros i; cbn [map dot]; [reflexivity|]. rewrite IH. change (inject_Z 0) with 0. ring. Qed.

(* ---------- the multipliers of the lower bound, from cs_before alone ---------- *)
Lemma bound_mults n B gl d :
  all_ge B -> dimc n B -> (0 < d)%Z -> (exists x, sat_cons B x) ->
  (forall x, sat_cons B x -> 0 <= sumn n (fun j => qof gl d j * x j) + qof gl d n) ->
  exists U1 : point, (forall i, 0 <= U1 i) /\ forall j, (j < n)%nat -> dot (col j B) U1 0 == qof gl d j.
Proof.
  intros G Hd Hpos [x0 Hx0] Hb.
  pose proof (inj_pos d Hpos) as HD. set (D := inject_Z d) in *.
  assert (HiD : 0 < / D) by (apply Qinv_lt_0_compat; exact HD).
  set (c := {| coefs := mu_of n gl; cst := nth n gl 0%Z; strict := false |}).
  assert (Ec : forall x, eval c x == D * (sumn n (fun j => qof gl d j * x j) + qof gl d n)).
  { intros x. unfold eval, c; cbn [coefs cst]. rewrite (dot_sumn (mu_of n gl) n x 0) by (rewrite mu_of_length; lia).
    rewrite Qmult_plus_distr_r, <- sumn_scale.
    assert (S1 : sumn n (fun j => inject_Z (nth j (mu_of n gl) 0%Z) * x (0 + j)%nat) == sumn n (fun j => D * (qof gl d j * x j))).
    { apply sumn_ext. intros j Hj. rewrite nth_mu_of by exact Hj. cbn [Nat.add]. unfold qof. fold D. field. lra. }
    rewrite S1. unfold qof. fold D. field. lra. }
  assert (C1 : Cone (map cstr_of B) (eval c)).
  { apply (farkas_affine n); [apply dim_ok_cstr_of, Hd| |apply nonstrict_cstr_of|reflexivity| |].
    - unfold c; cbn [coefs]. rewrite mu_of_length. lia.
    - exists x0. now apply sat_all_cstr_of.
    - intros x Hx. apply (sat_all_cstr_of B x G) in Hx. unfold sat. cbn [c strict]. rewrite Ec. specialize (Hb x Hx). nra. }
  apply Cone_mult in C1. destruct C1 as [w [k [W [K E]]]].
  destruct (affine_coeffs n (mu_of n gl) (inject_Z (nth n gl 0%Z)) B w k) as [_ A].
  - rewrite mu_of_length. lia.
  - exact Hd.
  - intros p. specialize (E p). rewrite csum_wsum in E. exact E.
  - exists (fun t => w t * / D). split; [intros i; specialize (W i); nra|].
    intros j Hj. rewrite dot_scale_point, <- (A j Hj), nth_mu_of by exact Hj. unfold qof. fold D. reflexivity.
Qed.

(* ---------- assembling a solution of the PR system ---------- *)
Section BuildPR.
  Variables (n : nat) (B C : list con) (mu : point) (U1 U2 U3 : point).
  Let r := length B.
  Let s := length C.

  Definition solu : point := fun i =>
    if Nat.ltb i s then U3 i else if Nat.ltb i (s + r) then U2 (i - s)%nat else U1 (i - (s + r))%nat.

  Lemma solu_3 l : length l = s -> dot l solu 0 == dot l U3 0.
  Proof. intros L. apply dot_block. intros t Ht. cbn [Nat.add]. unfold solu. destruct (Nat.ltb_spec t s); [reflexivity|lia]. Qed.
  Lemma solu_2 l : length l = r -> dot l solu s == dot l U2 0.
  Proof.
    intros L. apply dot_block. intros t Ht. unfold solu. destruct (Nat.ltb_spec (s + t) s); [lia|].
    destruct (Nat.ltb_spec (s + t) (s + r)); [|lia]. replace (s + t - s)%nat with t by lia. reflexivity.
  Qed.
  Lemma solu_1 l : length l = r -> dot l solu (s + r) == dot l U1 0.
  Proof.
    intros L. apply dot_block. intros t Ht. unfold solu. destruct (Nat.ltb_spec (s + r + t) s); [lia|].
    destruct (Nat.ltb_spec (s + r + t) (s + r)); [lia|]. replace (s + r + t - (s + r))%nat with t by lia. reflexivity.
  Qed.

  Hypothesis H1 : forall i, 0 <= U1 i.
  Hypothesis H2 : forall i, 0 <= U2 i.
  Hypothesis H3 : forall i, 0 <= U3 i.
  Hypothesis Hle : 1 <= - (dot (csts C) U3 0 + dot (csts B) U2 0).
  Hypothesis Hx' : forall j, (j < n)%nat -> dot (col j C) U3 0 == - mu j.
  Hypothesis Hx : forall j, (j < n)%nat -> dot (col j B) U2 0 + dot (col (n + j) C) U3 0 == mu j.
  Hypothesis Hb : forall j, (j < n)%nat -> dot (col j B) U1 0 == mu j.

  Theorem pr_build : sat_cons (pr_mip n B C) solu /\ forall j, (j < n)%nat -> pr_mu C 0 solu j == mu j.
  Proof.
    assert (CL : forall j, length (col j C) = s) by (intros; apply map_length).
    assert (BL : forall j, length (col j B) = r) by (intros; apply map_length).
    assert (KC : length (csts C) = s) by apply map_length.
    assert (KB : length (csts B) = r) by apply map_length.
    split.
    - unfold pr_mip. cbn [fill_constraint_system_PR]. apply sat_cons_app. split.
      + apply pr_sat. fold r s. split; [|split].
        * intros i Hi. unfold solu. destruct (Nat.ltb i s); [apply H3|]. destruct (Nat.ltb i (s + r)); [apply H2|apply H1].
        * intros j Hj. rewrite (solu_3 _ (CL _)), (solu_2 _ (BL _)), (solu_1 _ (BL _)), (Hb j Hj).
          specialize (Hx j Hj). lra.
        * intros j Hj. rewrite !(solu_3 _ (CL _)), (solu_2 _ (BL _)), (Hx' j Hj). specialize (Hx j Hj). lra.
      + apply sat_cons_one, le_le_m1_sat. rewrite pr_le_dot. fold s. rewrite (solu_3 _ KC), (solu_2 _ KB). exact Hle.
    - intros j Hj. unfold pr_mu. rewrite (solu_3 _ (CL _)), (Hx' j Hj). ring.
  Qed.
End BuildPR.

(* every state of "before" has a successor *)
Definition guard_in_before (n : nat) (B C : list con) : Prop :=
  forall x, sat_cons B x -> exists p, sat_cons C p /\ forall j, (j < n)%nat -> p (n + j)%nat == x j.

Theorem pr2_complete n B C q :
  all_ge B -> all_ge C -> dimc n B -> dimc (n + n) C -> guard_in_before n B C -> (exists x, sat_cons B x) ->
  ranking n q (rel2 n B C) ->
  exists u, sat_cons (pr_mip n B C) u /\ forall j, (j < n)%nat -> pr_mu C 0 u j == q j.
Proof.
  intros GB GC DB DC Hg [x0 Hx0] Hr.
  destruct (common_den q (S n)) as [gl [d [Hpos [_ E]]]].
  set (mu := qof gl d).
  assert (Hr' : ranking n mu (sat_cons (joint n B C))).
  { apply (ranking_ext n q); [intros j Hj; symmetry; apply E; lia|].
    intros p Hp. apply Hr. now apply approximation_2_sat. }
  (* the relation is non-empty *)
  assert (HfJ : exists p, sat_cons (joint n B C) p).
  { destruct (Hg x0 Hx0) as [p [Hp Hpx]]. exists p. apply approximation_2_sat. split; [|exact Hp].
    intros c Hc. specialize (Hx0 c Hc). unfold sat_con, ceval in *.
    assert (Ed : dot (ccoefs c) (fun j => p (n + j)%nat) 0 == dot (ccoefs c) x0 0).
    { rewrite (dot_sumn (ccoefs c) n _ 0 (DB c Hc)), (dot_sumn (ccoefs c) n x0 0 (DB c Hc)).
      apply sumn_ext. intros j Hj. cbn [Nat.add]. rewrite (Hpx j Hj). reflexivity. }
    destruct (ckd c); lra. }
  destruct (rank_mults n (joint n B C) gl d (joint_all_ge n B C GB GC) (joint_dimc n B C DB DC) Hpos HfJ Hr')
    as [Y [_ [HY [_ [Ydec [Yx [Yx' _]]]]]]]. fold mu in Yx, Yx'.
  (* the lower bound holds on the whole of "before" *)
  assert (Hb : forall x, sat_cons B x -> 0 <= sumn n (fun j => mu j * x j) + mu n).
  { intros x Hx. destruct (Hg x Hx) as [p [Hp Hpx]].
    assert (HpJ : sat_cons (joint n B C) p).
    { apply approximation_2_sat. split; [|exact Hp]. intros c Hc. specialize (Hx c Hc). unfold sat_con, ceval in *.
      assert (Ed : dot (ccoefs c) (fun j => p (n + j)%nat) 0 == dot (ccoefs c) x 0).
      { rewrite (dot_sumn (ccoefs c) n _ 0 (DB c Hc)), (dot_sumn (ccoefs c) n x 0 (DB c Hc)).
        apply sumn_ext. intros j Hj. cbn [Nat.add]. rewrite (Hpx j Hj). reflexivity. }
      destruct (ckd c); lra. }
    destruct (Hr' p HpJ) as [Hbd _]. unfold mudot in Hbd.
    assert (Es : sumn n (fun j => mu j * p (n + j)%nat) == sumn n (fun j => mu j * x j)).
    { apply sumn_ext. intros j Hj. rewrite (Hpx j Hj). reflexivity. }
    lra. }
  destruct (bound_mults n B gl d GB DB Hpos (ex_intro _ x0 Hx0) Hb) as [U1 [HU1 Ub]]. fold mu in Ub.
  set (r := length B).
  set (U2 := Y). set (U3 := fun i => Y (r + i)%nat).
  assert (Lsh : forall j, length (col j (map (shift_con n) B)) = r) by (intros; unfold col; rewrite !map_length; reflexivity).
  assert (Split : forall (a b : list Z), length a = r -> dot (a ++ b) Y 0 == dot a U2 0 + dot b U3 0).
  { intros a b La. rewrite dot_app, La. cbn [Nat.add]. unfold U2.
    rewrite (dot_block b Y U3 r); [reflexivity|]. intros t _. reflexivity. }
  destruct (pr_build n B C mu U1 U2 U3) as [S M]; [exact HU1|exact HY|intros i; apply HY| | | |exact Ub|].
  - rewrite csts_joint in Ydec. rewrite (Split (csts B) (csts C)) in Ydec by apply map_length. lra.
  - intros j Hj. specialize (Yx' j Hj). rewrite col_joint, (Split _ _ (Lsh j)), (col_shift_low n B j Hj), dot_map0 in Yx'. lra.
  - intros j Hj. specialize (Yx j Hj). rewrite col_joint, (Split _ _ (Lsh _)), col_shift_high in Yx. exact Yx.
  - exists (solu B C U1 U2 U3). split; [exact S|]. intros j Hj. rewrite (M j Hj). apply E. lia.
Qed.

(* empty "before": the PR system is trivially feasible *)
Theorem pr2_feasible_of_empty_before n B C :
  all_ge B -> dimc n B -> ~ (exists x, sat_cons B x) -> exists u, sat_cons (pr_mip n B C) u.
Proof.
  intros GB DB Hne.
  (* certificate on B, in dimension n: reuse empty_mults through a system of dimension n + n *)
  assert (DB' : dimc (n + n) B) by (intros c Hc; specialize (DB c Hc); lia).
  destruct (empty_mults n B GB DB' Hne) as [Y [HY [K1 K2]]].
  destruct (pr_build n B C (fun _ => 0) (fun _ => 0) Y (fun _ => 0)) as [S _]; try (intros; lra).
  - exact HY.
  - rewrite dot_zero_point. lra.
  - intros j Hj. rewrite dot_zero_point. ring.
  - intros j Hj. rewrite dot_zero_point, K2 by lia. ring.
  - intros j Hj. rewrite dot_zero_point. reflexivity.
  - now exists (solu B C (fun _ => 0) Y (fun _ => 0)).
Qed.

(* under the guard hypothesis the PR_2 test is true exactly when a ranking function exists ... *)
Theorem pr2_test_iff n B C :
  all_ge B -> all_ge C -> dimc n B -> dimc (n + n) C -> guard_in_before n B C ->
  ((exists u, sat_cons (pr_mip n B C) u) <-> (exists q, ranking n q (rel2 n B C))).
Proof.
  intros GB GC DB DC Hg. split.
  - intros [u Hu]. destruct (pr_sound n B C u DB DC Hu) as [mu0 H]. now exists (with_mu0 n (pr_mu C 0 u) mu0).
  - intros [q Hr].
    assert (DB' : dimc (n + n) B) by (intros c Hc; specialize (DB c Hc); lia).
    destruct (feasible_dec n B GB DB') as [Hf|Hne].
    + destruct (pr2_complete n B C q GB GC DB DC Hg Hf Hr) as [u [H _]]. now exists u.
    + now apply pr2_feasible_of_empty_before.
Qed.

(* ... and agrees with the MS_2 test *)
Theorem ms_pr2_agree_under_guard n B C :
  all_ge B -> all_ge C -> dimc n B -> dimc (n + n) C -> guard_in_before n B C ->
  ((exists q, sat_cons (ms_mip n (joint n B C)) q) <-> (exists u, sat_cons (pr_mip n B C) u)).
Proof.
  intros GB GC DB DC Hg.
  rewrite (ms_test_iff n (joint n B C) (joint_all_ge n B C GB GC) (joint_dimc n B C DB DC)).
  rewrite (pr2_test_iff n B C GB GC DB DC Hg).
  split; intros [q H]; exists q; intros p Hp; apply H; now apply approximation_2_sat.
Qed.

(* the guard hypothesis is satisfiable: before = { x >= 1 }, after = { x >= 1, x' <= x - 1 } *)
Example ex_guard : guard_in_before 1 ex_before ex_after.
Proof.
  intros x Hx. specialize (Hx _ (or_introl eq_refl)). unfold sat_con, ceval, mkc in Hx; cbn [ckd ccoefs ccst dot] in Hx.
  exists (fun i => if Nat.eqb i 0 then x 0%nat - 1 else x 0%nat). split.
  - intros c [<-|[<-|[]]]; unfold sat_con, ceval, mkc; cbn [ckd ccoefs ccst dot Nat.eqb];
      change (inject_Z 0) with 0 in *; change (inject_Z 1) with 1 in *; change (inject_Z (-1)) with (-1 # 1) in *; lra.
  - intros j Hj. replace j with 0%nat by lia. cbn. reflexivity.
Qed.

(* ---------- the repaired PR_2 entry points ---------- *)
(* termination_templates.hh (fix-1-pr2-guard) hands to the builder, as "before", a system G denoting
   pset_before /\ (exists x'. pset_after): the judge verifies [is_guard] on every case (tie-guard). *)
Definition is_guard (n : nat) (B C G : list con) : Prop :=
  forall x, sat_cons G x <->
            (sat_cons B x /\ exists p, sat_cons C p /\ forall j, (j < n)%nat -> p (n + j)%nat == x j).

Lemma is_guard_rel2 n B C G p : is_guard n B C G -> (rel2 n G C p <-> rel2 n B C p).
Proof.
  intros HG. unfold rel2. split; intros [H1 H2]; (split; [|exact H2]).
  - apply (proj1 (HG _) H1).
  - apply (proj2 (HG _)). split; [exact H1|]. exists p. split; [exact H2|]. intros j _. reflexivity.
Qed.

Theorem ms_pr2_agree n B C G :
  all_ge B -> all_ge C -> all_ge G -> dimc n B -> dimc n G -> dimc (n + n) C -> is_guard n B C G ->
  ((exists q, sat_cons (ms_mip n (joint n B C)) q) <-> (exists u, sat_cons (pr_mip n G C) u)).
Proof.
  intros GB GC GG DB DG DC HG.
  assert (Hg : guard_in_before n G C).
  { intros x Hx. destruct (proj1 (HG x) Hx) as [_ H]. exact H. }
  rewrite <- (ms_pr2_agree_under_guard n G C GG GC DG DC Hg).
  rewrite (ms_test_iff n (joint n B C) (joint_all_ge n B C GB GC) (joint_dimc n B C DB DC)).
  rewrite (ms_test_iff n (joint n G C) (joint_all_ge n G C GG GC) (joint_dimc n G C DG DC)).
  split; intros [q H]; exists q; intros p Hp; apply H; apply approximation_2_sat; apply approximation_2_sat in Hp.
  - now apply (is_guard_rel2 n B C G p HG).
  - now apply (is_guard_rel2 n B C G p HG).
Qed.

(* the hypothesis is satisfiable: B = universe, C = ex_after, G = { x >= 1 } *)
Example ex_is_guard : is_guard 1 [] ex_after ex_before.
Proof.
  intros x. split.
  - intros Hx. split; [intros c []|]. now apply ex_guard.
  - intros [_ [p [Hp Hj]]]. intros c [<-|[]].
    pose proof (Hp _ (or_introl eq_refl)) as H1. specialize (Hj 0%nat (Nat.lt_0_1)).
    unfold sat_con, ceval, mkc in *; cbn [ckd ccoefs ccst dot Nat.add] in *.
    change (inject_Z 0) with 0 in *; change (inject_Z 1) with 1 in *; change (inject_Z (-1)) with (-1 # 1) in *. lra.
Qed.
