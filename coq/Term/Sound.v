(* C18 -- soundness of the three encodings (the easy direction of Farkas' lemma: a non-negative
   combination of the rows of the relation), for every relation; soundness of the approximation. *)
From Coq Require Import List ZArith QArith Lia Lqa Bool.
Require Import PPLV.Base.FM PPLV.Base.Sys PPLV.Base.Gens PPLV.Term.RankSpec PPLV.Term.Encode.
Import ListNotations.
Local Open Scope Q_scope.

(* all rows live in dimension d *)
Definition dimc (d : nat) (cs : list con) : Prop := forall c, In c cs -> (length (ccoefs c) <= d)%nat.

(* sum_i w(off+i) * (row_i evaluated at p) *)
Fixpoint wsum (cs : list con) (w : point) (off : nat) (p : point) : Q :=
  match cs with
  | [] => 0
  | c :: cs' => w off * ceval c p + wsum cs' w (S off) p
  end.

Lemma wsum_nonneg cs : forall w off p,
  (forall i, (i < length cs)%nat -> 0 <= w (off + i)%nat) ->
  (forall c, In c cs -> 0 <= ceval c p) -> 0 <= wsum cs w off p.
Proof.
  induction cs as [|c cs IH]; intros w off p Hw Hc; cbn [wsum]; [lra|].
  assert (H0 : 0 <= w off) by (specialize (Hw O); rewrite Nat.add_0_r in Hw; apply Hw; cbn; lia).
  assert (H1 : 0 <= ceval c p) by (apply Hc; now left).
  assert (H2 : 0 <= wsum cs w (S off) p).
  { apply IH; [|intros; apply Hc; now right]. intros i Hi. replace (S off + i)%nat with (off + S i)%nat by lia.
    apply Hw. cbn [length]. lia. }
  nra.
Qed.

(* exchange of the two summations *)
Lemma wsum_expand d cs : forall w off p, dimc d cs ->
  wsum cs w off p == sumn d (fun j => dot (col j cs) w off * p j) + dot (csts cs) w off.
Proof.
  induction cs as [|c cs IH]; intros w off p Hd; cbn [wsum].
  - cbn [col csts map dot]. rewrite sumn_zero; [lra|]. intros; lra.
  - rewrite IH by (intros c' Hc'; apply Hd; now right).
    unfold ceval. rewrite (dot_sumn (ccoefs c) d p 0) by (apply Hd; now left).
    assert (E : sumn d (fun j => dot (col j (c :: cs)) w off * p j) ==
                w off * sumn d (fun j => inject_Z (nth j (ccoefs c) 0%Z) * p (0 + j)%nat) +
                sumn d (fun j => dot (col j cs) w (S off) * p j)).
    { rewrite <- sumn_scale, <- sumn_add. apply sumn_ext. intros j _. cbn [col map dot Nat.add]. fold (col j cs). ring. }
    rewrite E. cbn [csts map dot]. fold (csts cs). ring.
Qed.

Lemma wsum_shift cs : forall w off p, wsum cs w off p == wsum cs (fun i => w (off + i)%nat) 0 p.
Proof.
  induction cs as [|c cs IH]; intros w off p; cbn [wsum]; [reflexivity|].
  rewrite (IH w (S off)), (IH (fun i => w (off + i)%nat) 1%nat). rewrite Nat.add_0_r.
  assert (E : forall a b, (forall i, a i == b i) -> wsum cs a 0 p == wsum cs b 0 p).
  { clear. intros a b H. generalize 0%nat. induction cs as [|c cs IH]; intros k; cbn [wsum]; [reflexivity|].
    rewrite IH, (H k). reflexivity. }
  rewrite (E (fun i => w (S off + i)%nat) (fun i => w (off + (1 + i))%nat)).
  - reflexivity.
  - intros i. replace (S off + i)%nat with (off + (1 + i))%nat by lia. reflexivity.
Qed.

(* the value of the sum over the 2n coordinates of a transition, split into the two blocks *)
Lemma sumn_blocks n (F : nat -> Q) p :
  sumn (n + n) (fun j => F j * p j) == sumn n (fun j => F j * p j) + sumn n (fun j => F (n + j)%nat * p (n + j)%nat).
Proof. apply sumn_split. Qed.

(* ---------------------------------------------------------------------------------------- *)
(* Mesnard - Serebrenik *)

Lemma ms_out1_sat n cs q :
  sat_cons (ms_out1 n cs) q <->
  (forall i, (i < length cs)%nat -> 0 <= q (S n + i)%nat) /\
  1 <= - dot (csts cs) q (S n) /\
  (forall j, (j < n)%nat -> dot (col (n + j) cs) q (S n) == q j) /\
  (forall j, (j < n)%nat -> dot (col j cs) q (S n) == - q j).
Proof.
  unfold ms_out1. rewrite !sat_cons_app, sat_nonneg, sat_cons_one, !sat_cons_map_seq.
  unfold sat_con, ceval, mkc; cbn [ckd ccoefs ccst].
  rewrite dot_at, dot_opp. change (inject_Z (-1)) with (-1 # 1).
  split.
  - intros [H1 [H2 [H3 H4]]]. split; [exact H1|]. split; [lra|]. split; intros j Hj.
    + specialize (H3 j Hj). rewrite dot_vadd, dot_at, dot_unit_ in H3. change (inject_Z (-1)) with (-1 # 1) in H3.
      change (inject_Z 0) with 0 in H3. lra.
    + specialize (H4 j Hj). rewrite dot_vadd, dot_at, dot_unit_ in H4. change (inject_Z 1) with 1 in H4.
      change (inject_Z 0) with 0 in H4. lra.
  - intros [H1 [H2 [H3 H4]]]. split; [exact H1|]. split; [lra|]. split; intros j Hj.
    + specialize (H3 j Hj). rewrite dot_vadd, dot_at, dot_unit_. change (inject_Z (-1)) with (-1 # 1).
      change (inject_Z 0) with 0. lra.
    + specialize (H4 j Hj). rewrite dot_vadd, dot_at, dot_unit_. change (inject_Z 1) with 1.
      change (inject_Z 0) with 0. lra.
Qed.

Lemma csts_length cs : length (csts cs) = length cs.
Proof. apply map_length. Qed.

Lemma dot_tail2 l a b q k :
  dot (l ++ [a; b]) q k == dot l q k + inject_Z a * q (k + length l)%nat + inject_Z b * q (k + length l + 1)%nat.
Proof. rewrite dot_app. cbn [dot]. replace (S (k + length l)) with (k + length l + 1)%nat by lia. lra. Qed.

Lemma ms_out2_sat n zb cs q :
  let m := length cs in
  sat_cons (ms_out2 n zb cs) q <->
  (forall i, (i < m + 2)%nat -> 0 <= q (zb + i)%nat) /\
  0 <= - dot (csts cs) q zb + q (zb + m)%nat - q (zb + m + 1)%nat /\
  (forall j, (j < n)%nat -> dot (col (n + j) cs) q zb == q j) /\
  (forall j, (j < n)%nat -> dot (col j cs) q zb == 0) /\
  q (zb + m)%nat - q (zb + m + 1)%nat == q n.
Proof.
  intros m. unfold ms_out2. fold m. rewrite !sat_cons_app, sat_nonneg, !sat_cons_one, !sat_cons_map_seq.
  unfold sat_con, ceval, mkc; cbn [ckd ccoefs ccst].
  rewrite dot_at, dot_tail2, dot_opp, !map_length, !csts_length. fold m.
  rewrite dot_vadd, dot_at, dot_tail2, dot_unit_. unfold zeros. rewrite dot_repeat0, repeat_length.
  change (inject_Z (-1)) with (-1 # 1). change (inject_Z 1) with 1. change (inject_Z 0) with 0.
  split.
  - intros [H1 [H2 [H3 [H4 H5]]]]. split; [exact H1|]. split; [lra|]. split; [|split; [|lra]]; intros j Hj.
    + specialize (H3 j Hj). rewrite dot_vadd, dot_at, dot_unit_ in H3. change (inject_Z (-1)) with (-1 # 1) in H3. lra.
    + specialize (H4 j Hj). rewrite dot_at in H4. lra.
  - intros [H1 [H2 [H3 [H4 H5]]]]. split; [exact H1|]. split; [lra|]. split; [|split; [|lra]]; intros j Hj.
    + specialize (H3 j Hj). rewrite dot_vadd, dot_at, dot_unit_. change (inject_Z (-1)) with (-1 # 1). lra.
    + specialize (H4 j Hj). rewrite dot_at. lra.
Qed.

(* first system: the function decreases by at least 1 *)
Theorem ms_out1_decreasing n cs q p :
  dimc (n + n) cs -> sat_cons (ms_out1 n cs) q -> sat_cons cs p ->
  1 <= mudot n q p n - mudot n q p 0.
Proof.
  intros Hd Hs Hp. apply ms_out1_sat in Hs. destruct Hs as [H1 [H2 [H3 H4]]].
  assert (W : 0 <= wsum cs q (S n) p).
  { apply wsum_nonneg; [exact H1|]. intros c Hc. apply sat_con_nonneg, Hp, Hc. }
  rewrite (wsum_expand (n + n) cs q (S n) p Hd), sumn_blocks in W.
  assert (E0 : sumn n (fun j => dot (col j cs) q (S n) * p j) == - mudot n q p 0).
  { unfold mudot. rewrite <- (sumn_scale n (-1 # 1)). apply sumn_ext. intros j Hj. rewrite (H4 j Hj). cbn [Nat.add]. ring. }
  assert (E1 : sumn n (fun j => dot (col (n + j) cs) q (S n) * p (n + j)%nat) == mudot n q p n).
  { unfold mudot. apply sumn_ext. intros j Hj. rewrite (H3 j Hj). reflexivity. }
  lra.
Qed.

(* second system: the function is non-negative where the body can execute *)
Theorem ms_out2_bounded n zb cs q p :
  dimc (n + n) cs -> sat_cons (ms_out2 n zb cs) q -> sat_cons cs p ->
  0 <= mudot n q p n + q n.
Proof.
  intros Hd Hs Hp. apply ms_out2_sat in Hs. destruct Hs as [H1 [H2 [H3 [H4 H5]]]].
  assert (W : 0 <= wsum cs q zb p).
  { apply wsum_nonneg; [intros i Hi; apply H1; lia|]. intros c Hc. apply sat_con_nonneg, Hp, Hc. }
  rewrite (wsum_expand (n + n) cs q zb p Hd), sumn_blocks in W.
  assert (E0 : sumn n (fun j => dot (col j cs) q zb * p j) == 0).
  { apply sumn_zero. intros j Hj. rewrite (H4 j Hj). lra. }
  assert (E1 : sumn n (fun j => dot (col (n + j) cs) q zb * p (n + j)%nat) == mudot n q p n).
  { unfold mudot. apply sumn_ext. intros j Hj. rewrite (H3 j Hj). reflexivity. }
  lra.
Qed.

Theorem ms_sound n cs shared q :
  dimc (n + n) cs ->
  sat_cons (fst (fill_constraint_systems_MS n cs shared)) q ->
  sat_cons (snd (fill_constraint_systems_MS n cs shared)) q ->
  ranking n q (sat_cons cs).
Proof.
  intros Hd H1 H2 p Hp. cbn [fill_constraint_systems_MS fst snd] in H1, H2. split.
  - eapply ms_out2_bounded; eauto.
  - eapply ms_out1_decreasing; eauto.
Qed.

Corollary ms_mip_sound n cs q : dimc (n + n) cs -> sat_cons (ms_mip n cs) q -> ranking n q (sat_cons cs).
Proof.
  intros Hd H. unfold ms_mip in H. cbn [fill_constraint_systems_MS] in H. apply sat_cons_app in H.
  destruct H as [H1 H2]. apply (ms_sound n cs true q Hd); assumption.
Qed.

(* ---------------------------------------------------------------------------------------- *)
(* Podelski - Rybalchenko, "improved" two-system version *)

(* the relation described by (cs_before, cs_after) *)
Definition rel2 (n : nat) (cs_before cs_after : list con) (p : point) : Prop :=
  sat_cons cs_before (fun j => p (n + j)%nat) /\ sat_cons cs_after p.

Definition with_mu0 (n : nat) (mu : point) (mu0 : Q) : point := fun j => if Nat.eqb j n then mu0 else mu j.

Lemma mudot_with_mu0 n mu mu0 p off : mudot n (with_mu0 n mu mu0) p off == mudot n mu p off.
Proof. apply mudot_ext. intros j Hj. unfold with_mu0. destruct (Nat.eqb_spec j n); [lia|reflexivity]. Qed.

Lemma with_mu0_n n mu mu0 : with_mu0 n mu mu0 n == mu0.
Proof. unfold with_mu0. rewrite Nat.eqb_refl. reflexivity. Qed.

Lemma pr_sat n B C u :
  let r := length B in let s := length C in
  sat_cons (fst (fill_constraint_system_PR n B C)) u <->
  (forall i, (i < s + 2 * r)%nat -> 0 <= u i) /\
  (forall j, (j < n)%nat -> - dot (col (n + j) C) u 0 - dot (col j B) u s + dot (col j B) u (s + r) == 0) /\
  (forall j, (j < n)%nat -> dot (col (n + j) C) u 0 + dot (col j C) u 0 + dot (col j B) u s == 0).
Proof.
  intros r s. cbn [fill_constraint_system_PR fst]. fold r s. unfold pr_eqs.
  rewrite !sat_cons_app, sat_nonneg, !sat_cons_map_seq. unfold sat_con, ceval, mkc; cbn [ckd ccoefs ccst].
  change (inject_Z 0) with 0.
  assert (Ls : forall j, length (col j C) = s) by (intros; unfold col; apply map_length).
  assert (Lr : forall j, length (col j B) = r) by (intros; unfold col; apply map_length).
  split; intros [H1 [H2 H3]]; (split; [exact H1|]); split; intros j Hj.
  - specialize (H2 j Hj). rewrite !dot_app, !dot_opp, !map_length, Ls, Lr in H2. cbn [Nat.add] in H2. lra.
  - specialize (H3 j Hj). rewrite dot_app, dot_vadd, length_vadd, !Ls, Nat.max_id in H3. cbn [Nat.add] in H3. lra.
  - specialize (H2 j Hj). rewrite !dot_app, !dot_opp, !map_length, Ls, Lr. cbn [Nat.add]. lra.
  - specialize (H3 j Hj). rewrite dot_app, dot_vadd, length_vadd, !Ls, Nat.max_id. cbn [Nat.add]. lra.
Qed.

Lemma pr_le_dot B C u : dot (pr_le B C) u 0 == dot (csts C) u 0 + dot (csts B) u (length C).
Proof. unfold pr_le. rewrite dot_app. unfold csts at 3. rewrite map_length. cbn [Nat.add]. lra. Qed.

(* any solution of the PR system gives a function bounded below (by the explicit constant u_1 . d_B)
   and decreasing by -le(u) *)
Theorem pr_sound_d n B C u :
  dimc n B -> dimc (n + n) C ->
  sat_cons (fst (fill_constraint_system_PR n B C)) u ->
  ranking_d n (with_mu0 n (pr_mu C 0 u) (dot (csts B) u (length C + length B)))
            (- dot (snd (fill_constraint_system_PR n B C)) u 0) (rel2 n B C).
Proof.
  intros HB HC Hs p [HpB HpC]. apply pr_sat in Hs. destruct Hs as [H1 [H2 H3]].
  set (r := length B) in *. set (s := length C) in *. set (x := fun j => p (n + j)%nat) in *.
  cbn [fill_constraint_system_PR snd]. rewrite pr_le_dot. fold s.
  rewrite !mudot_with_mu0, with_mu0_n.
  (* the three non-negative combinations *)
  assert (W3 : 0 <= wsum C u 0 p).
  { apply wsum_nonneg; [intros i Hi; apply H1; cbn [Nat.add]; fold s in Hi; lia|]. intros c Hc. apply sat_con_nonneg, HpC, Hc. }
  assert (W2 : 0 <= wsum B u s x).
  { apply wsum_nonneg; [intros i Hi; apply H1; fold r in Hi; lia|]. intros c Hc. apply sat_con_nonneg, HpB, Hc. }
  assert (W1 : 0 <= wsum B u (s + r) x).
  { apply wsum_nonneg; [intros i Hi; apply H1; fold r in Hi; lia|]. intros c Hc. apply sat_con_nonneg, HpB, Hc. }
  rewrite (wsum_expand (n + n) C u 0 p HC), sumn_blocks in W3.
  rewrite (wsum_expand n B u s x HB) in W2. rewrite (wsum_expand n B u (s + r) x HB) in W1.
  set (mu := pr_mu C 0 u).
  assert (M2 : forall j, (j < n)%nat -> mu j == dot (col (n + j) C) u 0 + dot (col j B) u s).
  { intros j Hj. unfold mu, pr_mu. specialize (H3 j Hj). lra. }
  assert (M1 : forall j, (j < n)%nat -> mu j == dot (col j B) u (s + r)).
  { intros j Hj. rewrite (M2 j Hj). specialize (H2 j Hj). lra. }
  assert (E0 : sumn n (fun j => dot (col j C) u 0 * p j) == - mudot n mu p 0).
  { unfold mudot. rewrite <- (sumn_scale n (-1 # 1)). apply sumn_ext. intros j Hj. unfold mu, pr_mu. cbn [Nat.add]. ring. }
  assert (E2 : sumn n (fun j => dot (col (n + j) C) u 0 * p (n + j)%nat) + sumn n (fun j => dot (col j B) u s * x j)
               == mudot n mu p n).
  { unfold mudot. rewrite <- sumn_add. apply sumn_ext. intros j Hj. rewrite (M2 j Hj). unfold x. ring. }
  assert (E1 : sumn n (fun j => dot (col j B) u (s + r) * x j) == mudot n mu p n).
  { unfold mudot. apply sumn_ext. intros j Hj. rewrite (M1 j Hj). unfold x. reflexivity. }
  split; lra.
Qed.

Lemma le_le_m1_sat le u : sat_con (le_le_m1 le) u <-> 1 <= - dot le u 0.
Proof.
  unfold sat_con, le_le_m1, ceval, mkc; cbn [ckd ccoefs ccst]. rewrite dot_opp.
  change (inject_Z (-1)) with (-1 # 1). split; intros; lra.
Qed.

Lemma le_lt_0_sat le u : sat_con (le_lt_0 le) u <-> 0 < - dot le u 0.
Proof.
  unfold sat_con, le_lt_0, ceval, mkc; cbn [ckd ccoefs ccst]. rewrite dot_opp.
  change (inject_Z 0) with 0. split; intros; lra.
Qed.

Lemma ranking_d_weaken n q d d' R : d' <= d -> ranking_d n q d R -> ranking_d n q d' R.
Proof. intros H Hr p Hp. destruct (Hr p Hp). split; lra. Qed.

(* the point returned by one_affine_ranking_function_PR (MIP system, le <= -1) *)
Theorem pr_sound n B C u :
  dimc n B -> dimc (n + n) C -> sat_cons (pr_mip n B C) u ->
  exists mu0, ranking n (with_mu0 n (pr_mu C 0 u) mu0) (rel2 n B C).
Proof.
  intros HB HC H. unfold pr_mip in H. cbn [fill_constraint_system_PR] in H. apply sat_cons_app in H.
  destruct H as [H1 H2]. apply sat_cons_one, le_le_m1_sat in H2.
  exists (dot (csts B) u (length C + length B)). unfold ranking.
  eapply ranking_d_weaken; [|apply (pr_sound_d n B C u HB HC H1)]. cbn [fill_constraint_system_PR snd]. exact H2.
Qed.

(* every point of the polyhedron projected by all_affine_ranking_functions_PR (le < 0) *)
Theorem pr_all_sound n B C u :
  dimc n B -> dimc (n + n) C -> sat_cons (pr_all n B C) u -> ranking_weak n (pr_mu C 0 u) (rel2 n B C).
Proof.
  intros HB HC H. unfold pr_all in H. cbn [fill_constraint_system_PR] in H. apply sat_cons_app in H.
  destruct H as [H1 H2]. apply sat_cons_one, le_lt_0_sat in H2.
  exists (dot (csts B) u (length C + length B)), (- dot (pr_le B C) u 0). split; [exact H2|].
  intros p Hp. pose proof (pr_sound_d n B C u HB HC H1 p Hp) as X.
  rewrite !mudot_with_mu0, with_mu0_n in X. exact X.
Qed.

(* ---------------------------------------------------------------------------------------- *)
(* Podelski - Rybalchenko, original one-system version *)

Lemma pro_sat n cs l :
  let m := length cs in
  sat_cons (fst (fill_constraint_system_PR_original n cs)) l <->
  (forall i, (i < 2 * m)%nat -> 0 <= l i) /\
  (forall j, (j < n)%nat -> dot (col j cs) l 0 == 0) /\
  (forall j, (j < n)%nat -> dot (col (n + j) cs) l 0 - dot (col (n + j) cs) l m == 0) /\
  (forall j, (j < n)%nat -> dot (col j cs) l m + dot (col (n + j) cs) l m == 0).
Proof.
  intros m. cbn [fill_constraint_system_PR_original fst]. unfold pro_eqs. fold m.
  rewrite !sat_cons_app, sat_nonneg, !sat_cons_map_seq. unfold sat_con, ceval, mkc; cbn [ckd ccoefs ccst].
  change (inject_Z 0) with 0.
  assert (Lm : forall j, length (col j cs) = m) by (intros; unfold col; apply map_length).
  split; intros [H1 [H2 [H3 H4]]]; (split; [exact H1|]); (split; [|split]); intros j Hj.
  - specialize (H2 j Hj). lra.
  - specialize (H3 j Hj). rewrite dot_app, dot_opp, Lm in H3. cbn [Nat.add] in H3. lra.
  - specialize (H4 j Hj). rewrite dot_at, dot_vadd in H4. lra.
  - specialize (H2 j Hj). lra.
  - specialize (H3 j Hj). rewrite dot_app, dot_opp, Lm. cbn [Nat.add]. lra.
  - specialize (H4 j Hj). rewrite dot_at, dot_vadd. lra.
Qed.

Theorem pro_sound_d n cs l :
  dimc (n + n) cs ->
  sat_cons (fst (fill_constraint_system_PR_original n cs)) l ->
  ranking_d n (with_mu0 n (pr_mu cs (length cs) l) (dot (csts cs) l 0))
            (- dot (snd (fill_constraint_system_PR_original n cs)) l 0) (sat_cons cs).
Proof.
  intros Hd Hs p Hp. apply pro_sat in Hs. destruct Hs as [H1 [H2 [H3 H4]]]. set (m := length cs) in *.
  cbn [fill_constraint_system_PR_original snd]. unfold pro_le. rewrite dot_at. fold m.
  rewrite !mudot_with_mu0, with_mu0_n.
  assert (W2 : 0 <= wsum cs l m p).
  { apply wsum_nonneg; [intros i Hi; apply H1; fold m in Hi; lia|]. intros c Hc. apply sat_con_nonneg, Hp, Hc. }
  assert (W1 : 0 <= wsum cs l 0 p).
  { apply wsum_nonneg; [intros i Hi; apply H1; fold m in Hi; cbn [Nat.add]; lia|]. intros c Hc. apply sat_con_nonneg, Hp, Hc. }
  rewrite (wsum_expand (n + n) cs l m p Hd), sumn_blocks in W2.
  rewrite (wsum_expand (n + n) cs l 0 p Hd), sumn_blocks in W1.
  set (mu := pr_mu cs m l).
  assert (M3 : forall j, (j < n)%nat -> mu j == dot (col (n + j) cs) l m).
  { intros j Hj. unfold mu, pr_mu. specialize (H4 j Hj). lra. }
  assert (A0 : sumn n (fun j => dot (col j cs) l m * p j) == - mudot n mu p 0).
  { unfold mudot. rewrite <- (sumn_scale n (-1 # 1)). apply sumn_ext. intros j Hj. unfold mu, pr_mu. cbn [Nat.add]. ring. }
  assert (A1 : sumn n (fun j => dot (col (n + j) cs) l m * p (n + j)%nat) == mudot n mu p n).
  { unfold mudot. apply sumn_ext. intros j Hj. rewrite (M3 j Hj). reflexivity. }
  assert (B0 : sumn n (fun j => dot (col j cs) l 0 * p j) == 0).
  { apply sumn_zero. intros j Hj. rewrite (H2 j Hj). lra. }
  assert (B1 : sumn n (fun j => dot (col (n + j) cs) l 0 * p (n + j)%nat) == mudot n mu p n).
  { unfold mudot. apply sumn_ext. intros j Hj. rewrite (M3 j Hj). specialize (H3 j Hj).
    setoid_replace (dot (col (n + j) cs) l 0) with (dot (col (n + j) cs) l m) by lra. reflexivity. }
  split; lra.
Qed.

Theorem pro_sound n cs l :
  dimc (n + n) cs -> sat_cons (pro_mip n cs) l ->
  exists mu0, ranking n (with_mu0 n (pr_mu cs (length cs) l) mu0) (sat_cons cs).
Proof.
  intros Hd H. unfold pro_mip in H. cbn [fill_constraint_system_PR_original] in H. apply sat_cons_app in H.
  destruct H as [H1 H2]. apply sat_cons_one, le_le_m1_sat in H2.
  exists (dot (csts cs) l 0). unfold ranking.
  eapply ranking_d_weaken; [|apply (pro_sound_d n cs l Hd H1)]. cbn [fill_constraint_system_PR_original snd]. exact H2.
Qed.

Theorem pro_all_sound n cs l :
  dimc (n + n) cs -> sat_cons (pro_all n cs) l -> ranking_weak n (pr_mu cs (length cs) l) (sat_cons cs).
Proof.
  intros Hd H. unfold pro_all in H. cbn [fill_constraint_system_PR_original] in H. apply sat_cons_app in H.
  destruct H as [H1 H2]. apply sat_cons_one, le_lt_0_sat in H2.
  exists (dot (csts cs) l 0), (- dot (pro_le cs) l 0). split; [exact H2|].
  intros p Hp. pose proof (pro_sound_d n cs l Hd H1 p Hp) as X.
  rewrite !mudot_with_mu0, with_mu0_n in X. exact X.
Qed.

(* ---------------------------------------------------------------------------------------- *)
(* the approximation *)

Lemma approx_con_sound c p : sat_con c p -> sat_cons (approx_con c) p.
Proof.
  unfold approx_con, sat_con. destruct (ckd c) eqn:K; intros H c' Hc'.
  - destruct Hc' as [<-|[<-|[]]]; unfold sat_con, ceval, mkc in *; cbn [ckd ccoefs ccst]; [lra|].
    rewrite dot_opp, inject_Z_opp. lra.
  - destruct Hc' as [<-|[]]. unfold sat_con. now rewrite K.
  - destruct Hc' as [<-|[]]. unfold sat_con, ceval, mkc in *; cbn [ckd ccoefs ccst]. lra.
Qed.

Lemma approx_con_C_sound c p : sat_con c p -> sat_cons (approx_con_C c) p.
Proof.
  unfold approx_con_C, sat_con. destruct (ckd c) eqn:K; intros H c' Hc'.
  - destruct Hc' as [<-|[<-|[]]]; unfold sat_con, ceval, mkc in *; cbn [ckd ccoefs ccst]; [lra|].
    rewrite dot_opp, inject_Z_opp. lra.
  - destruct Hc' as [<-|[]]. unfold sat_con. now rewrite K.
  - destruct Hc' as [<-|[]]. unfold sat_con. now rewrite K.
Qed.

Lemma flat_map_sound (f : con -> list con) cs p :
  (forall c, sat_con c p -> sat_cons (f c) p) -> sat_cons cs p -> sat_cons (flat_map f cs) p.
Proof.
  intros Hf H c Hc. apply in_flat_map in Hc. destruct Hc as [c0 [H0 H1]]. apply (Hf c0); auto.
Qed.

(* the approximation only enlarges the relation ... *)
Theorem approximation_superset cs p : sat_cons cs p -> sat_cons (assign_all_inequalities_approximation cs) p.
Proof.
  unfold assign_all_inequalities_approximation. destruct (_ || _)%bool; [|tauto].
  apply flat_map_sound. intros c. apply approx_con_sound.
Qed.

Theorem approximation_C_superset cs p : sat_cons cs p -> sat_cons (assign_all_inequalities_approximation_C cs) p.
Proof.
  unfold assign_all_inequalities_approximation_C. destruct (existsb _ _); [|tauto].
  apply flat_map_sound. intros c. apply approx_con_C_sound.
Qed.

(* ... so a ranking function of the approximation ranks the original *)
Theorem approximation_sound n q d cs :
  ranking_d n q d (sat_cons (assign_all_inequalities_approximation cs)) -> ranking_d n q d (sat_cons cs).
Proof. apply ranking_d_mono. intros p. apply approximation_superset. Qed.

Theorem approximation_C_sound n q d cs :
  ranking_d n q d (sat_cons (assign_all_inequalities_approximation_C cs)) -> ranking_d n q d (sat_cons cs).
Proof. apply ranking_d_mono. intros p. apply approximation_C_superset. Qed.

(* the result is a system of non-strict inequalities (what the builders assume) *)
Definition all_ge (cs : list con) : Prop := forall c, In c cs -> ckd c = GE.

Lemma existsb_false {A} (f : A -> bool) l : existsb f l = false -> forall x, In x l -> f x = false.
Proof.
  induction l as [|a l IH]; intros H x Hx; [destruct Hx|]. cbn [existsb] in H. apply orb_false_iff in H.
  destruct H as [H1 H2]. destruct Hx as [<-|Hx]; auto.
Qed.

Theorem approximation_all_ge cs : all_ge (assign_all_inequalities_approximation cs).
Proof.
  unfold assign_all_inequalities_approximation.
  destruct (existsb is_strict cs || existsb is_eq cs)%bool eqn:E.
  - intros c Hc. apply in_flat_map in Hc. destruct Hc as [c0 [_ H]]. unfold approx_con in H.
    destruct (ckd c0) eqn:K; cbn in H; intuition (subst; auto).
  - apply orb_false_iff in E. destruct E as [E1 E2]. intros c Hc.
    pose proof (existsb_false _ _ E1 c Hc) as N1. pose proof (existsb_false _ _ E2 c Hc) as N2.
    unfold is_strict in N1. unfold is_eq in N2. destruct (ckd c); [discriminate|reflexivity|discriminate].
Qed.

Theorem approximation_C_all_ge cs : (forall c, In c cs -> ckd c <> GT) -> all_ge (assign_all_inequalities_approximation_C cs).
Proof.
  intros NS. unfold assign_all_inequalities_approximation_C. destruct (existsb is_eq cs) eqn:E.
  - intros c Hc. apply in_flat_map in Hc. destruct Hc as [c0 [H0 H]]. unfold approx_con_C in H.
    destruct (ckd c0) eqn:K; cbn in H.
    + intuition (subst; auto).
    + destruct H as [<-|[]]. exact K.
    + exfalso. apply (NS c0 H0 K).
  - intros c Hc. pose proof (existsb_false _ _ E c Hc) as N. unfold is_eq in N.
    destruct (ckd c) eqn:K; [discriminate|reflexivity|].
    exfalso. apply (NS c Hc K).
Qed.

(* on a closed input (no strict row) the approximation denotes exactly the same relation *)
Lemma approx_con_exact c p : ckd c <> GT -> sat_cons (approx_con c) p -> sat_con c p.
Proof.
  unfold approx_con, sat_con. destruct (ckd c) eqn:K; intros NS H; [| |congruence].
  - pose proof (H _ (or_introl eq_refl)) as A. pose proof (H _ (or_intror (or_introl eq_refl))) as B.
    unfold sat_con, ceval, mkc in A, B; cbn [ckd ccoefs ccst] in A, B. rewrite dot_opp, inject_Z_opp in B.
    unfold ceval. lra.
  - specialize (H _ (or_introl eq_refl)). unfold sat_con in H. now rewrite K in H.
Qed.

Theorem approximation_exact_closed cs p :
  (forall c, In c cs -> ckd c <> GT) ->
  (sat_cons (assign_all_inequalities_approximation cs) p <-> sat_cons cs p).
Proof.
  intros NS. split; [|apply approximation_superset].
  unfold assign_all_inequalities_approximation. destruct (_ || _)%bool; [|tauto].
  intros H c Hc. apply approx_con_exact; [now apply NS|]. intros c' Hc'. apply H. apply in_flat_map. eauto.
Qed.

(* the before/after pair *)
Lemma shift_con_sat n c p : sat_con (shift_con n c) p <-> sat_con c (fun j => p (n + j)%nat).
Proof.
  unfold sat_con, shift_con, ceval, mkc; cbn [ckd ccoefs ccst].
  assert (E : dot (zeros n ++ ccoefs c) p 0 == dot (ccoefs c) (fun j => p (n + j)%nat) 0).
  { fold (at_ n (ccoefs c)). rewrite dot_at, (dot_off (ccoefs c) p n). reflexivity. }
  destruct (ckd c); split; intros; lra.
Qed.

Theorem approximation_2_sat n B C p :
  sat_cons (assign_all_inequalities_approximation_2 n B C) p <-> rel2 n B C p.
Proof.
  unfold assign_all_inequalities_approximation_2, rel2. rewrite sat_cons_app. unfold sat_cons at 1.
  split; intros [H1 H2]; (split; [|exact H2]).
  - intros c Hc. apply shift_con_sat. apply H1. now apply in_map.
  - intros c Hc. apply in_map_iff in Hc. destruct Hc as [c0 [<- H0]]. apply shift_con_sat. now apply H1.
Qed.
