(* C18 -- the spaces returned by all_affine_ranking_functions_PR / _PR_original, as exact projections:
   { mu : exists u solving the PR system with le < 0, mu_j = - (u_3 . column j of E'_C) }, mu_0 unconstrained
   ("mu_0 is zero" then add_space_dimensions_and_embed(1) in termination.cc). *)
From Coq Require Import List ZArith QArith Lia Lqa Bool.
Require Import PPLV.Base.FM PPLV.Base.Sys PPLV.Base.Gens.
Require Import PPLV.Term.RankSpec PPLV.Term.Encode PPLV.Term.Sound.
Import ListNotations.
Local Open Scope Q_scope.

(* rows  mu_j + (column j of cs_after) . u[off..] == 0,  u living at coordinates n+1.. *)
Definition mu_rows (n off : nat) (cs_after : list con) : list con :=
  map (fun j => mkc (vadd (unit_ j 1) (at_ (S n + off) (col j cs_after))) 0 EQ) (seq 0 n).

Definition space_rows (n off : nat) (enc cs_after : list con) : list con :=
  map (shift_con (S n)) enc ++ mu_rows n off cs_after.

Definition space_of (n off k : nat) (enc cs_after : list con) : sys :=
  elim_set (seq (S n) k) (sys_of_cons (space_rows n off enc cs_after)).

Definition pr_space (n : nat) (B C : list con) : sys :=
  space_of n 0 (length C + 2 * length B) (pr_all n B C) C.
Definition pro_space (n : nat) (cs : list con) : sys :=
  space_of n (length cs) (2 * length cs) (pro_all n cs) cs.

Lemma sat_con_agree K c p p' :
  (length (ccoefs c) <= K)%nat -> (forall i, (i < K)%nat -> p i == p' i) -> sat_con c p -> sat_con c p'.
Proof.
  intros L H. assert (E : ceval c p == ceval c p').
  { unfold ceval. rewrite !(dot_sumn (ccoefs c) K _ 0 L). 
    assert (S1 : sumn K (fun j => inject_Z (nth j (ccoefs c) 0%Z) * p (0 + j)%nat) ==
                 sumn K (fun j => inject_Z (nth j (ccoefs c) 0%Z) * p' (0 + j)%nat)).
    { apply sumn_ext. intros j Hj. cbn [Nat.add]. rewrite (H j Hj). reflexivity. }
    rewrite S1. reflexivity. }
  unfold sat_con. destruct (ckd c); intros; lra.
Qed.

Lemma sat_cons_agree K cs p p' :
  dimc K cs -> (forall i, (i < K)%nat -> p i == p' i) -> sat_cons cs p -> sat_cons cs p'.
Proof. intros D H S c Hc. apply (sat_con_agree K c p p' (D c Hc) H). now apply S. Qed.

Lemma mu_rows_sat n off C q :
  (forall j, (j < n)%nat -> length (col j C) = length C) ->
  (sat_cons (mu_rows n off C) q <-> forall j, (j < n)%nat -> q j == - dot (col j C) (fun i => q (S n + i)%nat) off).
Proof.
  intros _. unfold mu_rows. rewrite sat_cons_map_seq. split; intros H j Hj; specialize (H j Hj).
  - unfold sat_con, ceval, mkc in H; cbn [ckd ccoefs ccst] in H. rewrite dot_vadd, dot_unit_, dot_at in H.
    change (inject_Z 1) with 1 in H. change (inject_Z 0) with 0 in H.
    rewrite (dot_shift (col j C) q (fun i => q (S n + i)%nat) (S n + off) off) in H; [lra|].
    intros t. replace (S n + off + t)%nat with (S n + (off + t))%nat by lia. reflexivity.
  - unfold sat_con, ceval, mkc; cbn [ckd ccoefs ccst]. rewrite dot_vadd, dot_unit_, dot_at.
    change (inject_Z 1) with 1. change (inject_Z 0) with 0.
    rewrite (dot_shift (col j C) q (fun i => q (S n + i)%nat) (S n + off) off); [lra|].
    intros t. replace (S n + off + t)%nat with (S n + (off + t))%nat by lia. reflexivity.
Qed.

Lemma shift_cons_sat k enc q : sat_cons (map (shift_con k) enc) q <-> sat_cons enc (fun i => q (k + i)%nat).
Proof.
  unfold sat_cons. split.
  - intros H c Hc. apply shift_con_sat. apply H. now apply in_map.
  - intros H c Hc. apply in_map_iff in Hc. destruct Hc as [c0 [<- H0]]. apply shift_con_sat. now apply H.
Qed.

Theorem space_of_exact n off k enc C q :
  dimc k enc -> (off + length C <= k)%nat ->
  (sat_sys (space_of n off k enc C) q <->
   exists u, sat_cons enc u /\ forall j, (j < n)%nat -> q j == pr_mu C off u j).
Proof.
  intros Denc Hk. unfold space_of. rewrite <- elim_set_exact.
  assert (CL : forall j, (j < n)%nat -> length (col j C) = length C) by (intros; apply map_length).
  split.
  - intros [q' [Hq Hs]]. apply sys_of_cons_sat in Hs. unfold space_rows in Hs. apply sat_cons_app in Hs.
    destruct Hs as [H1 H2]. apply shift_cons_sat in H1. pose proof (proj1 (mu_rows_sat n off C q' CL) H2) as H2'.
    exists (fun i => q' (S n + i)%nat). split; [exact H1|]. intros j Hj. unfold pr_mu.
    rewrite <- (Hq j) by (rewrite in_seq; lia). now apply H2'.
  - intros [u [Hu Hmu]].
    set (q' := fun i => if Nat.ltb i (S n) then q i else if Nat.ltb i (S n + k) then u (i - S n)%nat else q i).
    assert (Eu : forall i, (i < k)%nat -> u i == q' (S n + i)%nat).
    { intros i Hi. unfold q'. destruct (Nat.ltb_spec (S n + i) (S n)); [lia|].
      destruct (Nat.ltb_spec (S n + i) (S n + k)); [|lia]. replace (S n + i - S n)%nat with i by lia. reflexivity. }
    exists q'. split.
    + intros i Hi. rewrite in_seq in Hi. unfold q'. destruct (Nat.ltb_spec i (S n)); [reflexivity|].
      destruct (Nat.ltb_spec i (S n + k)); [lia|reflexivity].
    + apply sys_of_cons_sat. unfold space_rows. apply sat_cons_app. split.
      * apply shift_cons_sat. apply (sat_cons_agree k enc u _ Denc Eu Hu).
      * apply (proj2 (mu_rows_sat n off C q' CL)). intros j Hj.
        assert (Eq : q' j = q j) by (unfold q'; destruct (Nat.ltb_spec j (S n)); [reflexivity|lia]).
        rewrite Eq, (Hmu j Hj). unfold pr_mu.
        rewrite (dot_sumn (col j C) (length C) u off) by (rewrite CL by exact Hj; lia).
        rewrite (dot_sumn (col j C) (length C) (fun i => q' (S n + i)%nat) off) by (rewrite CL by exact Hj; lia).
        apply Qopp_comp. apply sumn_ext. intros t Ht. rewrite (Eu (off + t)%nat) by lia. reflexivity.
Qed.

(* dimensions of the two encodings *)
Lemma len_nonneg_rows f cnt c : In c (nonneg f cnt) -> (length (ccoefs c) <= f + cnt)%nat.
Proof.
  unfold nonneg. intros H. apply in_map_iff in H. destruct H as [i [<- Hi]]. apply in_seq in Hi.
  cbn [mkc ccoefs]. unfold unit_, zeros. rewrite app_length, repeat_length. cbn [length]. lia.
Qed.

Lemma pr_all_dim n B C : dimc (length C + 2 * length B) (pr_all n B C).
Proof.
  intros c Hc. unfold pr_all in Hc. cbn [fill_constraint_system_PR] in Hc.
  assert (Lc : forall j, length (col j C) = length C) by (intros; apply map_length).
  assert (Lb : forall j, length (col j B) = length B) by (intros; apply map_length).
  apply in_app_or in Hc. destruct Hc as [Hc|Hc].
  - apply in_app_or in Hc. destruct Hc as [Hc|Hc]; [apply len_nonneg_rows in Hc; lia|].
    unfold pr_eqs in Hc. apply in_app_or in Hc. destruct Hc as [Hc|Hc]; apply in_map_iff in Hc; destruct Hc as [j [<- _]]; cbn [mkc ccoefs].
    + rewrite !app_length, !map_length, Lc, Lb. lia.
    + rewrite app_length, length_vadd, !Lc, Lb. lia.
  - destruct Hc as [<-|[]]. unfold le_lt_0, pr_le. cbn [mkc ccoefs]. rewrite map_length, app_length. unfold csts. rewrite !map_length. lia.
Qed.

Lemma pro_all_dim n cs : dimc (2 * length cs) (pro_all n cs).
Proof.
  intros c Hc. unfold pro_all in Hc. cbn [fill_constraint_system_PR_original] in Hc.
  assert (Lc : forall j, length (col j cs) = length cs) by (intros; apply map_length).
  apply in_app_or in Hc. destruct Hc as [Hc|Hc].
  - apply in_app_or in Hc. destruct Hc as [Hc|Hc]; [apply len_nonneg_rows in Hc; lia|].
    unfold pro_eqs in Hc. apply in_app_or in Hc. destruct Hc as [Hc|Hc]; [|apply in_app_or in Hc; destruct Hc as [Hc|Hc]];
      apply in_map_iff in Hc; destruct Hc as [j [<- _]]; cbn [mkc ccoefs].
    + rewrite Lc. lia.
    + rewrite app_length, map_length, Lc. lia.
    + unfold at_, zeros. rewrite app_length, repeat_length, length_vadd, !Lc. lia.
  - destruct Hc as [<-|[]]. unfold le_lt_0, pro_le, at_, zeros. cbn [mkc ccoefs].
    rewrite map_length, app_length, repeat_length. unfold csts. rewrite map_length. lia.
Qed.

Theorem pr_space_exact n B C q :
  sat_sys (pr_space n B C) q <->
  exists u, sat_cons (pr_all n B C) u /\ forall j, (j < n)%nat -> q j == pr_mu C 0 u j.
Proof. unfold pr_space. apply space_of_exact; [apply pr_all_dim|lia]. Qed.

Theorem pro_space_exact n cs q :
  sat_sys (pro_space n cs) q <->
  exists l, sat_cons (pro_all n cs) l /\ forall j, (j < n)%nat -> q j == pr_mu cs (length cs) l j.
Proof. unfold pro_space. apply space_of_exact; [apply pro_all_dim|lia]. Qed.
