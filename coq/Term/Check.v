(* C18 -- the verified procedures the judge calls to validate what the library returned:
   [check_rank]   decides  ranking_d  (bound 0, decrease d0/d) of an integer vector with divisor on a relation;
   [check_weak]   decides  ranking_weak / ranking_weak0  (bounded below, decreasing by a positive amount);
   [same_cons_b]  a cheap syntactic sufficient test for the equivalence of two systems (rows equal up to a
                  positive factor -- any non-zero factor for equalities -- and order), tried before equiv_cons;
   [ms_space]     the exact projection of the MS system onto (mu, mu_0). *)
From Coq Require Import List ZArith QArith Qminmax Lia Lqa Bool.
Require Import PPLV.Base.FM PPLV.Base.Sys PPLV.Base.Gens PPLV.Poly.PolyOps PPLV.Base.Sup.
Require Import PPLV.Term.RankSpec PPLV.Term.Encode PPLV.Term.Sound.
Import ListNotations.
Local Open Scope Q_scope.

(* ---------- integer vectors with a divisor ---------- *)
Definition mu_of (n : nat) (gl : list Z) : list Z := map (fun j => nth j gl 0%Z) (seq 0 n).
Definition qof (gl : list Z) (d : Z) : point := fun j => inject_Z (nth j gl 0%Z) / inject_Z d.

Lemma mu_of_length n gl : length (mu_of n gl) = n.
Proof. unfold mu_of. now rewrite map_length, seq_length. Qed.

Lemma nth_map_seq (f : nat -> Z) : forall n s j, (j < n)%nat -> nth j (map f (seq s n)) 0%Z = f (s + j)%nat.
Proof.
  induction n as [|n IH]; intros s j H; [lia|]. cbn [seq map]. destruct j as [|j]; cbn [nth].
  - f_equal. lia.
  - rewrite IH by lia. f_equal. lia.
Qed.

Lemma nth_mu_of n gl j : (j < n)%nat -> nth j (mu_of n gl) 0%Z = nth j gl 0%Z.
Proof. intros H. unfold mu_of. now rewrite nth_map_seq by lia. Qed.

Lemma mudot_qof n gl d p off : (0 < d)%Z ->
  mudot n (qof gl d) p off == dot (mu_of n gl) p off / inject_Z d.
Proof.
  intros Hd. pose proof (inj_pos d Hd) as HD.
  rewrite (dot_sumn (mu_of n gl) n p off) by (rewrite mu_of_length; lia).
  unfold mudot, Qdiv. rewrite Qmult_comm, <- sumn_scale. apply sumn_ext. intros j Hj.
  rewrite (nth_mu_of n gl j Hj). unfold qof. field. lra.
Qed.

Definition bound_c (n : nat) (gl : list Z) : cstr :=
  {| coefs := zeros n ++ mu_of n gl; cst := nth n gl 0%Z; strict := false |}.
Definition decr_c (n : nat) (gl : list Z) (d0 : Z) : cstr :=
  {| coefs := map Z.opp (mu_of n gl) ++ mu_of n gl; cst := (- d0)%Z; strict := false |}.

Lemma eval_bound_c n gl p : eval (bound_c n gl) p == dot (mu_of n gl) p n + inject_Z (nth n gl 0%Z).
Proof. unfold eval, bound_c; cbn [coefs cst]. fold (at_ n (mu_of n gl)). rewrite dot_at. reflexivity. Qed.

Lemma eval_decr_c n gl d0 p :
  eval (decr_c n gl d0) p == dot (mu_of n gl) p n - dot (mu_of n gl) p 0 - inject_Z d0.
Proof.
  unfold eval, decr_c; cbn [coefs cst]. rewrite dot_app, dot_opp, map_length, mu_of_length, inject_Z_opp.
  cbn [Nat.add]. lra.
Qed.

Definition check_rank (n : nat) (R : list con) (gl : list Z) (d0 : Z) : option bool :=
  oand (implies_c (n + n) (sys_of_cons R) (bound_c n gl)) (implies_c (n + n) (sys_of_cons R) (decr_c n gl d0)).

Lemma pos_scale iD a : 0 < iD -> (0 <= a * iD <-> 0 <= a).
Proof. intros H. split; intros; nra. Qed.

Theorem check_rank_ok n R gl d d0 b :
  (0 < d)%Z -> check_rank n R gl d0 = Some b ->
  (b = true <-> ranking_d n (qof gl d) (inject_Z d0 / inject_Z d) (sat_cons R)).
Proof.
  intros Hd. unfold check_rank.
  destruct (implies_c (n + n) (sys_of_cons R) (bound_c n gl)) as [b1|] eqn:E1; [|discriminate].
  destruct (implies_c (n + n) (sys_of_cons R) (decr_c n gl d0)) as [b2|] eqn:E2; [|discriminate].
  cbn [oand]. intros [= <-]. rewrite andb_true_iff.
  rewrite (implies_c_exact _ _ _ _ E1), (implies_c_exact _ _ _ _ E2).
  pose proof (inj_pos d Hd) as HD. set (D := inject_Z d) in *.
  assert (HiD : 0 < / D) by (apply Qinv_lt_0_compat; exact HD).
  assert (X : forall p,
    (sat (bound_c n gl) p <-> 0 <= mudot n (qof gl d) p n + qof gl d n) /\
    (sat (decr_c n gl d0) p <-> inject_Z d0 / D <= mudot n (qof gl d) p n - mudot n (qof gl d) p 0)).
  { intros p. unfold sat. cbn [bound_c decr_c strict]. rewrite eval_bound_c, eval_decr_c.
    rewrite !(mudot_qof n gl d p _ Hd). fold D. unfold qof. fold D. unfold Qdiv.
    set (A := dot (mu_of n gl) p n). set (B := dot (mu_of n gl) p 0). set (g := inject_Z (nth n gl 0%Z)). set (e := inject_Z d0).
    split.
    - rewrite <- (pos_scale (/ D) (A + g) HiD). split; intros; lra.
    - rewrite <- (pos_scale (/ D) (A - B - e) HiD). split; intros; lra. }
  unfold ranking_d. split.
  - intros [H1 H2] p Hp. apply sys_of_cons_sat in Hp. destruct (X p) as [X1 X2]. split; [apply X1, H1, Hp|apply X2, H2, Hp].
  - intros H. split; intros p Hp; apply sys_of_cons_sat in Hp; destruct (X p) as [X1 X2]; destruct (H p Hp); [apply X1|apply X2]; assumption.
Qed.

(* ---------- bounded below / decreasing by some positive amount ---------- *)
Definition lin_x (n : nat) (gl : list Z) : lin := {| lcoefs := zeros n ++ mu_of n gl; lcst := 0 |}.
Definition lin_d (n : nat) (gl : list Z) : lin := {| lcoefs := map Z.opp (mu_of n gl) ++ mu_of n gl; lcst := 0 |}.

Lemma leval_lin_x n gl p : leval (lin_x n gl) p == mudot n (qof gl 1) p n.
Proof.
  unfold leval, lin_x; cbn [lcoefs lcst]. fold (at_ n (mu_of n gl)). rewrite dot_at.
  rewrite (mudot_qof n gl 1 p n) by lia. change (inject_Z 1) with 1. change (inject_Z 0) with 0. field.
Qed.

Lemma leval_lin_d n gl p : leval (lin_d n gl) p == mudot n (qof gl 1) p n - mudot n (qof gl 1) p 0.
Proof.
  unfold leval, lin_d; cbn [lcoefs lcst]. rewrite dot_app, dot_opp, map_length, mu_of_length.
  rewrite !(mudot_qof n gl 1 p _) by lia. change (inject_Z 1) with 1. change (inject_Z 0) with 0. cbn [Nat.add]. field.
Qed.

(* strictd = true: decrease by some d > 0 (points); false: non-increasing (closure points, rays) *)
Definition check_weak (n : nat) (R : list con) (gl : list Z) (strictd : bool) : option bool :=
  let s := sys_of_cons R in
  match inf_expr (n + n) (lin_x n gl) s with
  | Some SupEmpty => Some true
  | Some SupUnbounded => Some false
  | Some (SupVal _ _) =>
      match inf_expr (n + n) (lin_d n gl) s with
      | Some (SupVal m _) => Some (if strictd then negb (Qle_bool m 0) else Qle_bool 0 m)
      | Some SupUnbounded => Some false
      | _ => None
      end
  | None => None
  end.

Theorem check_weak_ok n R gl b :
  check_weak n R gl true = Some b -> (b = true <-> ranking_weak n (qof gl 1) (sat_cons R)).
Proof.
  unfold check_weak, ranking_weak.
  destruct (inf_expr (n + n) (lin_x n gl) (sys_of_cons R)) as [r1|] eqn:E1; [|discriminate].
  apply inf_expr_exact in E1. destruct r1 as [| |m1 a1]; cbn [inf_spec] in E1.
  - intros [= <-]. split; [intros _|reflexivity]. exists 0, 1. split; [lra|]. intros p Hp.
    apply sys_of_cons_sat in Hp. destruct (E1 p Hp).
  - intros [= <-]. split; [discriminate|]. intros [mu0 [d [Hd H]]]. exfalso.
    destruct E1 as [_ E1]. destruct (E1 (- mu0)) as [p [Hp Hl]]. apply sys_of_cons_sat in Hp.
    destruct (H p Hp) as [Hb _]. rewrite leval_lin_x in Hl. lra.
  - destruct E1 as [_ [E1 _]].
    destruct (inf_expr (n + n) (lin_d n gl) (sys_of_cons R)) as [r2|] eqn:E2; [|discriminate].
    apply inf_expr_exact in E2. destruct r2 as [| |m a]; cbn [inf_spec] in E2; [discriminate| |].
    + intros [= <-]. split; [discriminate|]. intros [mu0 [d [Hd H]]]. exfalso.
      destruct E2 as [_ E2]. destruct (E2 d) as [p [Hp Hl]]. apply sys_of_cons_sat in Hp.
      destruct (H p Hp) as [_ Hdec]. rewrite leval_lin_d in Hl. lra.
    + intros [= <-]. destruct E2 as [_ [E2 [E3 E4]]]. rewrite negb_true_iff.
      destruct (Qle_bool m 0) eqn:Q.
      * apply Qle_bool_iff in Q. split; [discriminate|]. intros [mu0 [d [Hd H]]]. exfalso.
        destruct a.
        -- destruct (E3 eq_refl) as [p [Hp Hl]]. apply sys_of_cons_sat in Hp. destruct (H p Hp) as [_ Hdec].
           rewrite leval_lin_d in Hl. lra.
        -- destruct (E4 eq_refl) as [_ E5]. destruct (E5 d Hd) as [p [Hp Hl]]. apply sys_of_cons_sat in Hp.
           destruct (H p Hp) as [_ Hdec]. rewrite leval_lin_d in Hl. lra.
      * split; [intros _|reflexivity].
        assert (Hm : 0 < m).
        { destruct (Qlt_le_dec 0 m) as [G|G]; [exact G|]. apply Qle_bool_iff in G. congruence. }
        exists (- m1), m. split; [exact Hm|]. intros p Hp. apply sys_of_cons_sat in Hp.
        specialize (E1 p Hp). specialize (E2 p Hp). rewrite leval_lin_x in E1. rewrite leval_lin_d in E2. split; lra.
Qed.

Theorem check_weak0_ok n R gl b :
  check_weak n R gl false = Some b -> (b = true <-> ranking_weak0 n (qof gl 1) (sat_cons R)).
Proof.
  unfold check_weak, ranking_weak0.
  destruct (inf_expr (n + n) (lin_x n gl) (sys_of_cons R)) as [r1|] eqn:E1; [|discriminate].
  apply inf_expr_exact in E1. destruct r1 as [| |m1 a1]; cbn [inf_spec] in E1.
  - intros [= <-]. split; [intros _|reflexivity]. exists 0. intros p Hp.
    apply sys_of_cons_sat in Hp. destruct (E1 p Hp).
  - intros [= <-]. split; [discriminate|]. intros [mu0 H]. exfalso.
    destruct E1 as [_ E1]. destruct (E1 (- mu0)) as [p [Hp Hl]]. apply sys_of_cons_sat in Hp.
    destruct (H p Hp) as [Hb _]. rewrite leval_lin_x in Hl. lra.
  - destruct E1 as [_ [E1 _]].
    destruct (inf_expr (n + n) (lin_d n gl) (sys_of_cons R)) as [r2|] eqn:E2; [|discriminate].
    apply inf_expr_exact in E2. destruct r2 as [| |m a]; cbn [inf_spec] in E2; [discriminate| |].
    + intros [= <-]. split; [discriminate|]. intros [mu0 H]. exfalso.
      destruct E2 as [_ E2]. destruct (E2 0) as [p [Hp Hl]]. apply sys_of_cons_sat in Hp.
      destruct (H p Hp) as [_ Hdec]. rewrite leval_lin_d in Hl. lra.
    + intros [= <-]. destruct E2 as [_ [E2 [E3 E4]]].
      destruct (Qle_bool 0 m) eqn:Q.
      * apply Qle_bool_iff in Q. split; [intros _|reflexivity]. exists (- m1). intros p Hp. apply sys_of_cons_sat in Hp.
        specialize (E1 p Hp). specialize (E2 p Hp). rewrite leval_lin_x in E1. rewrite leval_lin_d in E2. split; lra.
      * split; [discriminate|]. intros [mu0 H]. exfalso.
        assert (Hm : m < 0).
        { destruct (Qlt_le_dec m 0) as [G|G]; [exact G|]. apply Qle_bool_iff in G. congruence. }
        destruct a.
        -- destruct (E3 eq_refl) as [p [Hp Hl]]. apply sys_of_cons_sat in Hp. destruct (H p Hp) as [_ Hdec].
           rewrite leval_lin_d in Hl. lra.
        -- destruct (E4 eq_refl) as [_ E5]. destruct (E5 (- m)) as [p [Hp Hl]]; [lra|]. apply sys_of_cons_sat in Hp.
           destruct (H p Hp) as [_ Hdec]. rewrite leval_lin_d in Hl. lra.
Qed.

(* ---------- syntactic equality of systems up to row scaling and order ---------- *)
Definition kind_eqb (a b : ckind) : bool :=
  match a, b with EQ, EQ | GE, GE | GT, GT => true | _, _ => false end.

Definition prop_at (c d : con) (i : nat) : bool :=
  let a := nth i (ccoefs c) 0%Z in
  let b := nth i (ccoefs d) 0%Z in
  (match ckd c with EQ => negb (Z.eqb (a * b) 0) | _ => Z.ltb 0 (a * b) end) &&
  all_zero (vadd (vscale b (ccoefs c)) (vscale (- a) (ccoefs d))) &&
  Z.eqb (b * ccst c) (a * ccst d).

Definition con_same_b (c d : con) : bool :=
  kind_eqb (ckd c) (ckd d) &&
  (existsb (prop_at c d) (seq 0 (length (ccoefs c))) ||
   (all_zero (ccoefs c) && all_zero (ccoefs d) && Z.eqb (ccst c) (ccst d))).

Lemma inj_zero z : inject_Z z == 0 -> z = 0%Z.
Proof. unfold Qeq. cbn. lia. Qed.

Lemma sign_transfer A B x y : 0 < A * B -> B * x == A * y -> (0 <= x <-> 0 <= y) /\ (0 < x <-> 0 < y).
Proof.
  intros HAB E. destruct (Qlt_le_dec 0 A) as [HA|HA].
  - assert (HB : 0 < B) by nra. repeat split; intros H.
    + assert (0 <= A * y) by nra. nra.
    + assert (0 <= B * x) by nra. nra.
    + assert (0 < A * y) by nra. nra.
    + assert (0 < B * x) by nra. nra.
  - assert (HA' : A < 0).
    { destruct (Qlt_le_dec A 0) as [G|G]; [exact G|]. assert (Z0 : A == 0) by lra. rewrite Z0 in HAB. lra. }
    assert (HB : B < 0) by nra. repeat split; intros H.
    + assert (A * y <= 0) by nra. nra.
    + assert (B * x <= 0) by nra. nra.
    + assert (A * y < 0) by nra. nra.
    + assert (B * x < 0) by nra. nra.
Qed.

Lemma con_same_ok c d p : con_same_b c d = true -> (sat_con c p <-> sat_con d p).
Proof.
  unfold con_same_b. rewrite andb_true_iff, orb_true_iff. intros [K [H|H]].
  - apply existsb_exists in H. destruct H as [i [_ H]]. unfold prop_at in H.
    rewrite !andb_true_iff in H. destruct H as [[Hs Hz] Hc]. apply Z.eqb_eq in Hc.
    set (a := nth i (ccoefs c) 0%Z) in *. set (b := nth i (ccoefs d) 0%Z) in *.
    pose proof (all_zero_dot _ p 0%nat Hz) as E. rewrite dot_vadd, !dot_vscale, inject_Z_opp in E.
    assert (Ec : inject_Z b * inject_Z (ccst c) == inject_Z a * inject_Z (ccst d)).
    { rewrite <- !inject_Z_mult. now rewrite Hc. }
    assert (EE : inject_Z b * ceval c p == inject_Z a * ceval d p) by (unfold ceval; lra).
    unfold sat_con. set (x := ceval c p) in *. set (y := ceval d p) in *.
    set (A := inject_Z a) in *. set (B := inject_Z b) in *.
    destruct (ckd c) eqn:Kc, (ckd d) eqn:Kd; try discriminate K.
    + (* EQ: a*b <> 0 *)
      apply negb_true_iff, Z.eqb_neq in Hs.
      assert (HA : ~ A == 0). { unfold A. intros Q. apply inj_zero in Q. apply Hs. rewrite Q. lia. }
      assert (HB : ~ B == 0). { unfold B. intros Q. apply inj_zero in Q. apply Hs. rewrite Q. lia. }
      clearbody x y A B. split; intros Q0.
      * rewrite Q0 in EE. assert (Z0 : A * y == 0) by lra. apply Qmult_integral in Z0. tauto.
      * rewrite Q0 in EE. assert (Z0 : B * x == 0) by lra. apply Qmult_integral in Z0. tauto.
    + apply Z.ltb_lt in Hs. assert (HAB : 0 < A * B). { unfold A, B. rewrite <- inject_Z_mult. now apply inj_pos. }
      apply (sign_transfer A B x y HAB EE).
    + apply Z.ltb_lt in Hs. assert (HAB : 0 < A * B). { unfold A, B. rewrite <- inject_Z_mult. now apply inj_pos. }
      apply (sign_transfer A B x y HAB EE).
  - rewrite !andb_true_iff in H. destruct H as [[H1 H2] H3]. apply Z.eqb_eq in H3.
    pose proof (all_zero_dot _ p 0%nat H1) as Z1. pose proof (all_zero_dot _ p 0%nat H2) as Z2.
    unfold sat_con, ceval. rewrite H3.
    destruct (ckd c), (ckd d); try discriminate K; split; intros; lra.
Qed.

Definition incl_syn (a b : list con) : bool := forallb (fun d => existsb (fun c => con_same_b c d) a) b.
Definition same_cons_b (a b : list con) : bool := incl_syn a b && incl_syn b a.

Lemma incl_syn_ok a b p : incl_syn a b = true -> sat_cons a p -> sat_cons b p.
Proof.
  unfold incl_syn. rewrite forallb_forall. intros H Ha d Hd. specialize (H d Hd).
  apply existsb_exists in H. destruct H as [c [Hc S]]. apply (con_same_ok c d p S). now apply Ha.
Qed.

Theorem same_cons_ok a b : same_cons_b a b = true -> forall p, sat_cons a p <-> sat_cons b p.
Proof.
  unfold same_cons_b. rewrite andb_true_iff. intros [H1 H2] p. split; eapply incl_syn_ok; eauto.
Qed.

(* ---------- the space of all MS ranking functions: exact projection onto coordinates 0..n ---------- *)
Definition ms_space (n : nat) (cs : list con) : sys :=
  elim_set (seq (S n) (2 * length cs + 2)) (sys_of_cons (ms_mip n cs)).

Theorem ms_space_exact n cs q :
  sat_sys (ms_space n cs) q <->
  exists q', (forall i, (i <= n)%nat -> q' i == q i) /\ sat_cons (ms_mip n cs) q'.
Proof.
  unfold ms_space. rewrite <- elim_set_exact. split.
  - intros [q' [H1 H2]]. exists q'. split; [|now apply sys_of_cons_sat]. intros i Hi. apply H1. rewrite in_seq. lia.
  - intros [q' [H1 H2]].
    (* coordinates beyond the system are irrelevant: reset them to q's *)
    set (k := (S n + (2 * length cs + 2))%nat).
    exists (fun i => if Nat.ltb i k then q' i else q i). split.
    + intros i Hi. rewrite in_seq in Hi. destruct (Nat.ltb_spec i k) as [L|L]; [|reflexivity].
      apply H1. unfold k in L. lia.
    + apply sys_of_cons_sat. intros c Hc. specialize (H2 c Hc).
      assert (Hlen : (length (ccoefs c) <= k)%nat).
      { clear - Hc. unfold ms_mip in Hc. cbn [fill_constraint_systems_MS] in Hc. unfold ms_out1, ms_out2, nonneg in Hc.
        assert (Lc : forall j, length (col j cs) = length cs) by (intros; apply map_length).
        assert (Lk : length (csts cs) = length cs) by apply map_length.
        repeat (apply in_app_or in Hc; destruct Hc as [Hc|Hc]);
          try (apply in_map_iff in Hc; destruct Hc as [j [<- Hj]]; apply in_seq in Hj);
          try (destruct Hc as [<-|[]]);
          unfold mkc, at_, unit_, zeros; cbn [ccoefs];
          rewrite ?length_vadd, ?app_length, ?repeat_length, ?map_length, ?Lc, ?Lk, ?app_length, ?repeat_length; cbn [length]; unfold k; lia. }
      assert (E : ceval c (fun i => if Nat.ltb i k then q' i else q i) == ceval c q').
      { unfold ceval. rewrite !(dot_sumn (ccoefs c) k _ 0 Hlen).
        assert (S1 : sumn k (fun j => inject_Z (nth j (ccoefs c) 0%Z) * (if Nat.ltb (0 + j) k then q' (0 + j)%nat else q (0 + j)%nat)) ==
                     sumn k (fun j => inject_Z (nth j (ccoefs c) 0%Z) * q' (0 + j)%nat)).
        { apply sumn_ext. intros j Hj. cbn [Nat.add]. destruct (Nat.ltb_spec j k); [reflexivity|lia]. }
        rewrite S1. reflexivity. }
      unfold sat_con in *. destruct (ckd c); lra.
Qed.

(* ---------- the two halves separately (spaces of quasi ranking functions) ---------- *)
Definition check_bound (n : nat) (R : list con) (gl : list Z) : option bool :=
  implies_c (n + n) (sys_of_cons R) (bound_c n gl).
Definition check_decr (n : nat) (R : list con) (gl : list Z) (d0 : Z) : option bool :=
  implies_c (n + n) (sys_of_cons R) (decr_c n gl d0).

Theorem check_bound_ok n R gl d b :
  (0 < d)%Z -> check_bound n R gl = Some b ->
  (b = true <-> forall p, sat_cons R p -> 0 <= mudot n (qof gl d) p n + qof gl d n).
Proof.
  intros Hd E. unfold check_bound in E. rewrite (implies_c_exact _ _ _ _ E).
  pose proof (inj_pos d Hd) as HD. assert (HiD : 0 < / inject_Z d) by (apply Qinv_lt_0_compat; exact HD).
  assert (X : forall p, sat (bound_c n gl) p <-> 0 <= mudot n (qof gl d) p n + qof gl d n).
  { intros p. unfold sat. cbn [bound_c strict]. rewrite eval_bound_c, (mudot_qof n gl d p _ Hd). unfold qof, Qdiv.
    rewrite <- (pos_scale (/ inject_Z d) (dot (mu_of n gl) p n + inject_Z (nth n gl 0%Z)) HiD). split; intros; lra. }
  split; intros H p Hp.
  - apply X, H. now apply sys_of_cons_sat.
  - apply X, H. now apply sys_of_cons_sat.
Qed.

Theorem check_decr_ok n R gl d d0 b :
  (0 < d)%Z -> check_decr n R gl d0 = Some b ->
  (b = true <-> forall p, sat_cons R p -> inject_Z d0 / inject_Z d <= mudot n (qof gl d) p n - mudot n (qof gl d) p 0).
Proof.
  intros Hd E. unfold check_decr in E. rewrite (implies_c_exact _ _ _ _ E).
  pose proof (inj_pos d Hd) as HD. assert (HiD : 0 < / inject_Z d) by (apply Qinv_lt_0_compat; exact HD).
  assert (X : forall p, sat (decr_c n gl d0) p <-> inject_Z d0 / inject_Z d <= mudot n (qof gl d) p n - mudot n (qof gl d) p 0).
  { intros p. unfold sat. cbn [decr_c strict]. rewrite eval_decr_c, !(mudot_qof n gl d p _ Hd). unfold Qdiv.
    rewrite <- (pos_scale (/ inject_Z d) (dot (mu_of n gl) p n - dot (mu_of n gl) p 0 - inject_Z d0) HiD). split; intros; lra. }
  split; intros H p Hp.
  - apply X, H. now apply sys_of_cons_sat.
  - apply X, H. now apply sys_of_cons_sat.
Qed.
