(* C18 -- what a ranking function is.

   A loop over n program variables is a relation R on Q^{2n}; a point p of the relation lists the
   PRIMED (after the body) values first, p 0 .. p (n-1), and the unprimed (before) values after,
   p n .. p (2n-1): the layout of termination_defs.hh / termination.cc.

   An affine function is given by a point q of Q^{n+1}: coefficients mu_1..mu_n at q 0 .. q (n-1) and
   the constant mu_0 at q n (again the library's layout: "space dimensions n, 0, ..., n-1").

   [ranking n q R]   : mu.x + mu_0 >= 0 and mu.x - mu.x' >= 1 on every transition (x', x) of R --
                       the normalisation the Mesnard-Serebrenik encoding of termination.cc decides;
   [ranking_d .. d ..]: the same with decrease >= d (d = 0: the condition satisfied by the rays of the
                       space of ranking functions);
   [ranking_weak]    : bounded from below by SOME constant and decreasing by SOME fixed positive amount
                       -- the property text; what the Podelski-Rybalchenko functions return (their mu_0
                       is not a bound: termination.cc sets it to 0 / leaves it unconstrained). *)
From Coq Require Import List ZArith QArith Qminmax Lia Lqa Bool.
Require Import PPLV.Base.FM PPLV.Base.Sys PPLV.Base.Gens.
Import ListNotations.
Local Open Scope Q_scope.

(* sum_{j<n} f j *)
Fixpoint sumn (n : nat) (f : nat -> Q) : Q :=
  match n with O => 0 | S k => sumn k f + f k end.

Lemma sumn_ext n f g : (forall j, (j < n)%nat -> f j == g j) -> sumn n f == sumn n g.
Proof.
  induction n as [|n IH]; intros H; cbn [sumn]; [reflexivity|].
  rewrite IH by (intros; apply H; lia). rewrite (H n) by lia. reflexivity.
Qed.

Lemma sumn_add n f g : sumn n (fun j => f j + g j) == sumn n f + sumn n g.
Proof. induction n as [|n IH]; cbn [sumn]; [lra|]. rewrite IH. lra. Qed.

Lemma sumn_scale n k f : sumn n (fun j => k * f j) == k * sumn n f.
Proof. induction n as [|n IH]; cbn [sumn]; [lra|]. rewrite IH. lra. Qed.

Lemma sumn_zero n f : (forall j, (j < n)%nat -> f j == 0) -> sumn n f == 0.
Proof.
  induction n as [|n IH]; intros H; cbn [sumn]; [reflexivity|].
  rewrite IH by (intros; apply H; lia). rewrite (H n) by lia. lra.
Qed.

Lemma sumn_split n m f : sumn (n + m) f == sumn n f + sumn m (fun j => f (n + j)%nat).
Proof.
  induction m as [|m IH].
  - rewrite Nat.add_0_r. cbn [sumn]. lra.
  - replace (n + S m)%nat with (S (n + m)) by lia. cbn [sumn]. rewrite IH. lra.
Qed.

(* a single non-zero term *)
Lemma sumn_single n k f : (k < n)%nat -> (forall j, (j < n)%nat -> j <> k -> f j == 0) -> sumn n f == f k.
Proof.
  induction n as [|n IH]; intros Hk H; [lia|]. cbn [sumn].
  destruct (Nat.eq_dec k n) as [->|Hne].
  - rewrite sumn_zero; [lra|]. intros j Hj. apply H; lia.
  - rewrite IH; [|lia|intros; apply H; lia]. rewrite (H n) by lia. lra.
Qed.

(* dot product as an indexed sum (coefficients beyond the list are 0) *)
Lemma dot_sumn l : forall d p i, (length l <= d)%nat ->
  dot l p i == sumn d (fun j => inject_Z (nth j l 0%Z) * p (i + j)%nat).
Proof.
  intros d p i H.
  assert (G : forall d l i, (length l <= d)%nat ->
              dot l p i == sumn d (fun j => inject_Z (nth j l 0%Z) * p (i + j)%nat)).
  { clear. induction d as [|d IH]; intros l i H.
    - destruct l; [|cbn in H; lia]. cbn. reflexivity.
    - destruct (Nat.eq_dec (length l) (S d)) as [E|NE].
      + (* peel the last element *)
        destruct (exists_last (l := l)) as [l' [x ->]]; [intros ->; discriminate|].
        rewrite app_length in E. cbn [length] in E.
        rewrite dot_app. cbn [sumn dot length].
        rewrite (IH l' i) by lia.
        assert (E1 : sumn d (fun j => inject_Z (nth j (l' ++ [x]) 0%Z) * p (i + j)%nat) ==
                     sumn d (fun j => inject_Z (nth j l' 0%Z) * p (i + j)%nat)).
        { apply sumn_ext. intros j Hj. rewrite app_nth1 by lia. reflexivity. }
        rewrite E1. rewrite app_nth2 by lia. replace (d - length l')%nat with O by lia. cbn [nth].
        replace (length l') with d by lia. lra.
      + cbn [sumn]. rewrite (IH l i) by lia. rewrite (nth_overflow l) by lia.
        change (inject_Z 0) with 0. lra. }
  apply G, H.
Qed.

(* mu . (the block of p starting at off) *)
Definition mudot (n : nat) (q p : point) (off : nat) : Q := sumn n (fun j => q j * p (off + j)%nat).

Definition ranking_d (n : nat) (q : point) (d : Q) (R : point -> Prop) : Prop :=
  forall p, R p -> 0 <= mudot n q p n + q n /\ d <= mudot n q p n - mudot n q p 0.

Definition ranking (n : nat) (q : point) (R : point -> Prop) : Prop := ranking_d n q 1 R.

Definition ranking_weak (n : nat) (mu : point) (R : point -> Prop) : Prop :=
  exists mu0 d, 0 < d /\ forall p, R p -> 0 <= mudot n mu p n + mu0 /\ d <= mudot n mu p n - mudot n mu p 0.

(* the non-strict variant: bounded below, non-increasing -- satisfied by closure points and rays of the
   Podelski-Rybalchenko space *)
Definition ranking_weak0 (n : nat) (mu : point) (R : point -> Prop) : Prop :=
  exists mu0, forall p, R p -> 0 <= mudot n mu p n + mu0 /\ 0 <= mudot n mu p n - mudot n mu p 0.

Lemma mudot_ext n q q' p off : (forall j, (j < n)%nat -> q j == q' j) -> mudot n q p off == mudot n q' p off.
Proof. intros H. apply sumn_ext. intros j Hj. rewrite (H j Hj). reflexivity. Qed.

Lemma ranking_is_weak n q R : ranking n q R -> ranking_weak n q R.
Proof. intros H. exists (q n), 1. split; [lra|]. exact H. Qed.

(* a ranking function of a larger relation ranks every smaller one *)
Lemma ranking_d_mono n q d (R R' : point -> Prop) :
  (forall p, R p -> R' p) -> ranking_d n q d R' -> ranking_d n q d R.
Proof. intros H H' p Hp. apply H', H, Hp. Qed.

Lemma ranking_weak_mono n q (R R' : point -> Prop) :
  (forall p, R p -> R' p) -> ranking_weak n q R' -> ranking_weak n q R.
Proof. intros H [m [d [Hd H']]]. exists m, d. split; [exact Hd|]. intros p Hp. apply H', H, Hp. Qed.

(* moving from a ranking function along a direction satisfying the homogeneous conditions stays ranking:
   why rays / lines of the returned space are checked against [ranking_d .. 0 ..] *)
Lemma mudot_lin n q r t p off :
  mudot n (fun j => q j + t * r j) p off == mudot n q p off + t * mudot n r p off.
Proof.
  unfold mudot. rewrite <- sumn_scale, <- sumn_add. apply sumn_ext. intros j _. ring.
Qed.

Theorem ray_sound n q r d t R :
  0 <= t -> ranking_d n q d R -> ranking_d n r 0 R -> ranking_d n (fun j => q j + t * r j) d R.
Proof.
  intros Ht Hq Hr p Hp. destruct (Hq p Hp) as [A B]. destruct (Hr p Hp) as [A' B'].
  rewrite !mudot_lin. split; nra.
Qed.

(* the empty relation is ranked by everything *)
Lemma ranking_empty n q d (R : point -> Prop) : (forall p, ~ R p) -> ranking_d n q d R.
Proof. intros H p Hp. destruct (H p Hp). Qed.

(* an actual decrease forbids infinite executions: along any sequence of states linked by R the
   value drops by d per step while staying >= 0, so such a sequence has at most f(x_0)/d + 1 links *)
Fixpoint chain (n : nat) (R : point -> Prop) (st : nat -> nat -> Q) (k : nat) : Prop :=
  match k with
  | O => True
  | S k' => chain n R st k' /\
            R (fun i => if Nat.ltb i n then st (S k') i else st k' (i - n)%nat)
  end.

Definition fval (n : nat) (q : point) (x : nat -> Q) : Q := sumn n (fun j => q j * x j) + q n.

Lemma chain_link n q d R st k :
  ranking_d n q d R -> chain n R st (S k) ->
  0 <= fval n q (st k) /\ fval n q (st (S k)) <= fval n q (st k) - d.
Proof.
  intros Hr Hc. cbn [chain] in Hc. destruct Hc as [_ Hstep].
  set (p := fun i => if Nat.ltb i n then st (S k) i else st k (i - n)%nat) in *.
  destruct (Hr p Hstep) as [Hb Hdec].
  assert (E1 : mudot n q p n == sumn n (fun j => q j * st k j)).
  { apply sumn_ext. intros j Hj. unfold p. destruct (Nat.ltb_spec (n + j) n); [lia|].
    replace (n + j - n)%nat with j by lia. reflexivity. }
  assert (E0 : mudot n q p 0 == sumn n (fun j => q j * st (S k) j)).
  { apply sumn_ext. intros j Hj. unfold p. cbn [Nat.add]. destruct (Nat.ltb_spec j n); [reflexivity|lia]. }
  rewrite E1 in Hb, Hdec. rewrite E0 in Hdec. unfold fval. split; lra.
Qed.

Lemma chain_decr n q d R st k :
  ranking_d n q d R -> chain n R st k ->
  fval n q (st k) <= fval n q (st O) - inject_Z (Z.of_nat k) * d.
Proof.
  intros Hr. induction k as [|k IH]; intros Hc.
  - cbn [Z.of_nat]. change (inject_Z 0) with 0. lra.
  - destruct (chain_link n q d R st k Hr Hc) as [_ H]. specialize (IH (proj1 Hc)).
    rewrite Nat2Z.inj_succ. unfold Z.succ. rewrite inject_Z_plus. change (inject_Z 1) with 1. lra.
Qed.

(* a chain of k+1 transitions starting in x_0 forces k * d <= f(x_0): no infinite execution *)
Theorem ranking_bounds_chain n q d R st k :
  ranking_d n q d R -> chain n R st (S k) -> inject_Z (Z.of_nat k) * d <= fval n q (st O).
Proof.
  intros Hr Hc. destruct (chain_link n q d R st k Hr Hc) as [H0 _].
  pose proof (chain_decr n q d R st k Hr (proj1 Hc)). lra.
Qed.
