(* C11 -- the Result word and what it claims.

   The numeric values of all enumerators come from coq/gen/Facts_Result.v, regenerated from
   /repo/src/Result_defs.hh and Rounding_Dir_defs.hh on every run.  This file decodes a result word with
   those numbers (class / relation / overflow / unrepresentable / NaN reason, as Result_inlines.hh does) and
   defines  [claim p t r e s] : the relation that result word [r] asserts between the exact mathematical
   result [e] and the value [s] left in the destination of type [t] under policy [p]. *)
From Coq Require Import ZArith Lia Bool.
Require Import PPLV.gen.Facts_Result PPLV.Checked.Mach.
Local Open Scope Z_scope.

(* ---- policies and the extended-integer encoding (Extended_Int<Policy,Type>) ---- *)
Record policy := {
  check_overflow : bool; has_nan : bool; has_inf : bool;
  check_div_zero : bool; check_inf_add_inf : bool; check_inf_sub_inf : bool; check_inf_mul_zero : bool;
  check_inf_div_inf : bool; check_inf_mod : bool; check_sqrt_neg : bool }.

Definition b2z (b : bool) := if b then 1 else 0.
Definition pinf t := cmax t.
Definition minf t := if sgn t then cmin t else cmax t - 1.
Definition nan_enc p t := if sgn t then cmin t + b2z (has_inf p) else cmax t - 2 * b2z (has_inf p).
Definition emin p t := cmin t + (if sgn t then b2z (has_inf p) + b2z (has_nan p) else 0).
Definition emax p t := cmax t - (if sgn t then b2z (has_inf p) else 2 * b2z (has_inf p) + b2z (has_nan p)).

Definition fin p t s := emin p t <= s <= emax p t.

(* ---- rounding directions ---- *)
Definition round_dir d := Z.land d ROUND_DIR_MASK.
Definition round_down d := round_dir d =? ROUND_DOWN.
Definition round_up d := round_dir d =? ROUND_UP.
Definition round_not_requested d := (round_dir d =? ROUND_IGNORE) || (round_dir d =? ROUND_NOT_NEEDED).

Lemma round_up_down d : round_up d = true -> round_down d = false.
Proof. unfold round_up, round_down. intros H. apply Z.eqb_eq in H. rewrite H. reflexivity. Qed.
Lemma round_nr_up d : round_not_requested d = true -> round_up d = false /\ round_down d = false.
Proof. unfold round_not_requested, round_up, round_down. intros H. apply orb_true_iff in H.
  destruct H as [H|H]; apply Z.eqb_eq in H; rewrite H; split; reflexivity. Qed.

(* ---- decoding a result word ---- *)
Inductive rclass := CNormal | CMinf | CPinf | CNan.
Inductive rrel := REmpty | REq | RLt | RGt | RNe | RLe | RGe | RLge.

Definition class_of r : rclass :=
  let c := Z.land r VC_MASK in
  if c =? VC_NORMAL then CNormal else if c =? VC_MINUS_INFINITY then CMinf
  else if c =? VC_PLUS_INFINITY then CPinf else CNan.
Definition rel_of r : rrel :=
  let c := Z.land r VR_MASK in
  if c =? VR_EQ then REq else if c =? VR_LT then RLt else if c =? VR_GT then RGt else if c =? VR_NE then RNe
  else if c =? VR_LE then RLe else if c =? VR_GE then RGe else if c =? VR_LGE then RLge else REmpty.
Definition is_ovf r := Z.land r V_OVERFLOW =? V_OVERFLOW.
Definition is_unrep r := Z.land r V_UNREPRESENTABLE =? V_UNREPRESENTABLE.
Definition unknown_overflow r := (r =? V_UNKNOWN_NEG_OVERFLOW) || (r =? V_UNKNOWN_POS_OVERFLOW).

(* result_overflow of Result_inlines.hh *)
Definition result_overflow r : Z :=
  match class_of r with
  | CNormal => if r =? V_LT_INF then -1 else if r =? V_GT_SUP then 1 else 0
  | CMinf => -1 | CPinf => 1 | CNan => 0
  end.

(* ---- exact mathematical results ---- *)
Inductive exact :=
| EInt (z : Z)              (* an integer *)
| EFrac (n d : Z)           (* the rational n/d, d <> 0 *)
| ESqrt (x : Z)             (* the real square root of x >= 0 *)
| EPinf | EMinf             (* results of extended arithmetic *)
| EUndef.                   (* no value: 0/0, inf-inf, sqrt of a negative ... *)

(* e < z , e > z , e = z  for an integer z *)
Definition ex_lt e z : Prop :=
  match e with
  | EInt v => v < z
  | EFrac n d => if 0 <? d then n < z * d else z * d < n
  | ESqrt x => 0 < z /\ x < z * z
  | EPinf => False | EMinf => True | EUndef => False
  end.
Definition ex_gt e z : Prop :=
  match e with
  | EInt v => z < v
  | EFrac n d => if 0 <? d then z * d < n else n < z * d
  | ESqrt x => z < 0 \/ z * z < x
  | EPinf => True | EMinf => False | EUndef => False
  end.
Definition ex_eq e z : Prop :=
  match e with
  | EInt v => v = z
  | EFrac n d => n = z * d
  | ESqrt x => 0 <= z /\ z * z = x
  | _ => False
  end.
Definition ex_real e := match e with EInt _ | EFrac _ _ | ESqrt _ => True | _ => False end.

Definition rel_holds (rl : rrel) e s : Prop :=
  match rl with
  | REmpty => False
  | REq => ex_eq e s | RLt => ex_lt e s | RGt => ex_gt e s
  | RNe => ex_lt e s \/ ex_gt e s
  | RLe => ex_lt e s \/ ex_eq e s
  | RGe => ex_gt e s \/ ex_eq e s
  | RLge => ex_real e
  end.

(* What result word [r] claims about exact value [e] and stored value [s].
   - class NORMAL: the destination holds a finite representable number standing in the stated relation
     to the exact result; with the overflow bit it is moreover the extreme finite value.
   - class +-INFINITY, relation EQ: the exact result is that infinity.  Relation LT (for +inf) / GT (for -inf):
     the exact result is a number beyond the finite range of the destination (an overflow, classified).
     Unless V_UNREPRESENTABLE is set the destination holds the infinity encoding; V_UNREPRESENTABLE is only
     used when the policy has no infinities.
   - class NAN: the operation has no value (or, for V_UNKNOWN_*_OVERFLOW, its value is not known); if the
     policy has a NaN the destination holds it. *)
Definition claim p t (r : Z) (e : exact) (s : Z) : Prop :=
  match class_of r with
  | CNormal =>
      is_unrep r = false /\ fin p t s /\ rel_holds (rel_of r) e s /\
      (is_ovf r = true -> (rel_of r = RLt /\ s = emin p t) \/ (rel_of r = RGt /\ s = emax p t))
  | CPinf =>
      (if is_unrep r then has_inf p = false else has_inf p = true /\ s = pinf t) /\
      match rel_of r with
      | REq => e = EPinf
      | RLt => ex_gt e (emax p t) /\ e <> EPinf
      | _ => False end
  | CMinf =>
      (if is_unrep r then has_inf p = false else has_inf p = true /\ s = minf t) /\
      match rel_of r with
      | REq => e = EMinf
      | RGt => ex_lt e (emin p t) /\ e <> EMinf
      | _ => False end
  | CNan =>
      (has_nan p = true -> is_unrep r = false /\ s = nan_enc p t) /\
      (unknown_overflow r = false -> e = EUndef)
  end.

(* the stored value read back as an extended number *)
Inductive sval := SFin (z : Z) | SPinf | SMinf | SNan.
Definition decode p t s : sval :=
  if has_nan p && (s =? nan_enc p t) then SNan
  else if has_inf p && (s =? pinf t) then SPinf
  else if has_inf p && (s =? minf t) then SMinf else SFin s.

Definition sv_ge sv e : Prop :=    (* stored >= exact *)
  match sv with SPinf => e <> EUndef | SMinf => e = EMinf | SNan => False | SFin z => ex_lt e z \/ ex_eq e z end.
Definition sv_le sv e : Prop :=    (* stored <= exact *)
  match sv with SMinf => e <> EUndef | SPinf => e = EPinf | SNan => False | SFin z => ex_gt e z \/ ex_eq e z end.

(* directed rounding is honoured: whenever something representable was stored and the result is a number *)
Definition directed p t (d r : Z) (e : exact) (s : Z) : Prop :=
  class_of r <> CNan -> is_unrep r = false ->
  (round_up d = true -> sv_ge (decode p t s) e) /\ (round_down d = true -> sv_le (decode p t s) e).

Definition ok p t d (sr : Z * Z) e : Prop := claim p t (snd sr) e (fst sr) /\ directed p t d (snd sr) e (fst sr).

(* a result that is either exact or classified as overflow / not-a-number: what the integer ring operations
   (neg, add, sub, mul, add_mul, sub_mul, abs, conversions) return -- they never round *)
Definition crisp r := r = V_EQ \/ result_overflow r <> 0.
Definition okx p t d (sr : Z * Z) e : Prop := ok p t d sr e /\ crisp (snd sr).
(* ... or, for the fused operations, "unknown" (a NaN-class result) *)
Definition okn p t d (sr : Z * Z) e : Prop := ok p t d sr e /\ (crisp (snd sr) \/ class_of (snd sr) = CNan).

(* ---- layout obligations: each is a computation on the regenerated numbers ---- *)
Definition dec r := (class_of r, rel_of r, is_ovf r, is_unrep r).
Lemma dec_V_EQ : dec V_EQ = (CNormal, REq, false, false). Proof. reflexivity. Qed.
Lemma dec_V_LT : dec V_LT = (CNormal, RLt, false, false). Proof. reflexivity. Qed.
Lemma dec_V_GT : dec V_GT = (CNormal, RGt, false, false). Proof. reflexivity. Qed.
Lemma dec_V_LE : dec V_LE = (CNormal, RLe, false, false). Proof. reflexivity. Qed.
Lemma dec_V_GE : dec V_GE = (CNormal, RGe, false, false). Proof. reflexivity. Qed.
Lemma dec_V_LGE : dec V_LGE = (CNormal, RLge, false, false). Proof. reflexivity. Qed.
Lemma dec_V_LT_INF : dec V_LT_INF = (CNormal, RLt, true, false). Proof. reflexivity. Qed.
Lemma dec_V_GT_SUP : dec V_GT_SUP = (CNormal, RGt, true, false). Proof. reflexivity. Qed.
Lemma dec_V_LT_PINF : dec V_LT_PLUS_INFINITY = (CPinf, RLt, false, false). Proof. reflexivity. Qed.
Lemma dec_V_GT_MINF : dec V_GT_MINUS_INFINITY = (CMinf, RGt, false, false). Proof. reflexivity. Qed.
Lemma dec_V_EQ_PINF : dec V_EQ_PLUS_INFINITY = (CPinf, REq, false, false). Proof. reflexivity. Qed.
Lemma dec_V_EQ_MINF : dec V_EQ_MINUS_INFINITY = (CMinf, REq, false, false). Proof. reflexivity. Qed.
Lemma dec_V_LT_PINF_U : dec (Z.lor V_LT_PLUS_INFINITY V_UNREPRESENTABLE) = (CPinf, RLt, false, true). Proof. reflexivity. Qed.
Lemma dec_V_GT_MINF_U : dec (Z.lor V_GT_MINUS_INFINITY V_UNREPRESENTABLE) = (CMinf, RGt, false, true). Proof. reflexivity. Qed.
Lemma dec_V_EQ_PINF_U : dec (Z.lor V_EQ_PLUS_INFINITY V_UNREPRESENTABLE) = (CPinf, REq, false, true). Proof. reflexivity. Qed.
Lemma dec_V_EQ_MINF_U : dec (Z.lor V_EQ_MINUS_INFINITY V_UNREPRESENTABLE) = (CMinf, REq, false, true). Proof. reflexivity. Qed.
Lemma dec_V_NAN : dec V_NAN = (CNan, REmpty, false, false). Proof. reflexivity. Qed.
Lemma dec_V_NAN_U : dec (Z.lor V_NAN V_UNREPRESENTABLE) = (CNan, REmpty, false, true). Proof. reflexivity. Qed.
Lemma class_nan_reasons :
  (class_of V_DIV_ZERO, class_of V_MOD_ZERO, class_of V_SQRT_NEG, class_of V_INF_ADD_INF, class_of V_INF_SUB_INF,
   class_of V_INF_MUL_ZERO, class_of V_INF_DIV_INF, class_of V_INF_MOD, class_of V_UNKNOWN_NEG_OVERFLOW,
   class_of V_UNKNOWN_POS_OVERFLOW) = (CNan, CNan, CNan, CNan, CNan, CNan, CNan, CNan, CNan, CNan).
Proof. reflexivity. Qed.
Lemma unknown_overflow_reasons :
  (unknown_overflow V_NAN, unknown_overflow V_DIV_ZERO, unknown_overflow V_MOD_ZERO, unknown_overflow V_SQRT_NEG,
   unknown_overflow V_INF_ADD_INF, unknown_overflow V_INF_SUB_INF, unknown_overflow V_INF_MUL_ZERO,
   unknown_overflow V_INF_DIV_INF, unknown_overflow V_INF_MOD,
   unknown_overflow V_UNKNOWN_NEG_OVERFLOW, unknown_overflow V_UNKNOWN_POS_OVERFLOW)
  = (false, false, false, false, false, false, false, false, false, true, true).
Proof. reflexivity. Qed.
Lemma result_overflow_values :
  (result_overflow V_EQ, result_overflow V_LT, result_overflow V_GT, result_overflow V_LGE, result_overflow V_GE,
   result_overflow V_LE, result_overflow V_LT_INF, result_overflow V_GT_SUP,
   result_overflow V_LT_PLUS_INFINITY, result_overflow V_GT_MINUS_INFINITY,
   result_overflow (Z.lor V_LT_PLUS_INFINITY V_UNREPRESENTABLE),
   result_overflow (Z.lor V_GT_MINUS_INFINITY V_UNREPRESENTABLE), result_overflow V_NAN)
  = (0, 0, 0, 0, 0, 0, -1, 1, 1, -1, 1, -1, 0).
Proof. reflexivity. Qed.
Lemma rounding_layout :
  (round_up ROUND_UP, round_down ROUND_UP, round_up ROUND_DOWN, round_down ROUND_DOWN,
   round_not_requested ROUND_IGNORE, round_not_requested ROUND_NOT_NEEDED,
   round_not_requested ROUND_UP, round_not_requested ROUND_DOWN, round_up ROUND_CHECK)
  = (true, false, false, true, true, true, false, false, true).
Proof. reflexivity. Qed.
Definition layout_obligations := 24%nat.   (* number of layout lemmas above (counted by the check) *)

Ltac dec_of H := let E := fresh in pose proof H as E; unfold dec in E; inversion E; clear E.

(* ---- range facts (linear once 2^(bits-1) is abstracted) ---- *)
Ltac ranges p t :=
  unfold fin, emin, emax, pinf, minf, nan_enc, cmin, cmax, b2z in *;
  let P := fresh "P" in
  (assert (P : 128 <= 2 ^ (bits t - 1)) by (apply pow_ge_128; lia));
  (rewrite ?(pow_half (bits t)) in * by lia).
