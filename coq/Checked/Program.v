(* C11 -- the "consequently" clause: a program over the coefficient interface, run with bounded (checked)
   coefficients, either raises Overflow or returns exactly what the unbounded interpretation returns.

   Expressions are built from the ring operations the library applies to Coefficients (neg, add, sub, mul,
   add_mul, sub_mul, abs).  [eval_Z] interprets them in Z; [eval_checked] interprets them with the model of
   the checked primitives (Int.v) followed by Policy::handle_result of Bounded_Integer_Coefficient_Policy
   (Coefficient_inlines.hh:31: throw when result_overflow(r) != 0 or the class is NaN). *)
From Coq Require Import ZArith Lia Bool.
Require Import PPLV.gen.Facts_Result PPLV.Checked.Mach PPLV.Checked.Result PPLV.Checked.Int
               PPLV.Checked.IntBlocks PPLV.Checked.IntArith.
Local Open Scope Z_scope.

Inductive expr :=
| Const (z : Z)
| Neg (a : expr) | Abs (a : expr)
| Add (a b : expr) | Sub (a b : expr) | Mul (a b : expr)
| AddMul (a b c : expr)        (* a + b*c   (add_mul_assign) *)
| SubMul (a b c : expr).       (* a - b*c   (sub_mul_assign) *)

Fixpoint eval_Z (e : expr) : Z :=
  match e with
  | Const z => z
  | Neg a => - eval_Z a | Abs a => Z.abs (eval_Z a)
  | Add a b => eval_Z a + eval_Z b | Sub a b => eval_Z a - eval_Z b | Mul a b => eval_Z a * eval_Z b
  | AddMul a b c => eval_Z a + eval_Z b * eval_Z c
  | SubMul a b c => eval_Z a - eval_Z b * eval_Z c
  end.

Inductive outcome := Value (v : Z) | Overflow | Stuck.   (* Stuck: the model met undefined behaviour *)

(* handle_result of the bounded coefficient policy *)
Definition handle (m : M) : outcome :=
  match m with
  | None => Stuck
  | Some (s, r) =>
      if negb (result_overflow r =? 0) then Overflow
      else match class_of r with CNan => Overflow | _ => Value s end
  end.

Section Prog.
Variable c : cfg.
Variable d : Z.                      (* the rounding direction the operators pass (ROUND_NATIVE in the library) *)
Let t := ty c.
Let p := pol c.

Definition bind1 (o : outcome) (f : Z -> outcome) :=
  match o with Value v => f v | Overflow => Overflow | Stuck => Stuck end.

Fixpoint eval_checked (e : expr) : outcome :=
  match e with
  | Const z => if (emin p t <=? z) && (z <=? emax p t) then Value z else Overflow   (* construction from mpz/long *)
  | Neg a => bind1 (eval_checked a) (fun x => handle (neg_int c d x x))
  | Abs a => bind1 (eval_checked a) (fun x => handle (abs_int c d x x))
  | Add a b => bind1 (eval_checked a) (fun x => bind1 (eval_checked b) (fun y => handle (add_int c d x y 0)))
  | Sub a b => bind1 (eval_checked a) (fun x => bind1 (eval_checked b) (fun y => handle (sub_int c d x y 0)))
  | Mul a b => bind1 (eval_checked a) (fun x => bind1 (eval_checked b) (fun y => handle (mul_int c d x y 0)))
  | AddMul a b c' => bind1 (eval_checked a) (fun z => bind1 (eval_checked b) (fun x =>
                     bind1 (eval_checked c') (fun y => handle (add_mul_int c d x y z))))
  | SubMul a b c' => bind1 (eval_checked a) (fun z => bind1 (eval_checked b) (fun x =>
                     bind1 (eval_checked c') (fun y => handle (sub_mul_int c d x y z))))
  end.

Hypothesis Hwf : cfg_wf c.
Hypothesis Hco : check_overflow p = true.
Let Hb : 8 <= bits t. Proof. destruct Hwf; auto. Qed.

(* a primitive "never lies": it does not get stuck, and what handle_result lets through is the exact value *)
Definition nl (m : M) (v : Z) := handle m = Overflow \/ (handle m = Value v /\ fin p t v).

Lemma okn_nl m v : (exists sr, m = Some sr /\ okn p t d sr (EInt v)) -> nl m v.
Proof.
  intros ([s r] & -> & [[Cl _] Cr]). unfold nl, handle. cbn [fst snd] in *.
  destruct Cr as [[Cr|Cr]|Cr].
  - subst r. right. change (result_overflow V_EQ =? 0) with true. cbn [negb].
    revert Cl. unfold claim. decs. cbn. intros (_ & F & E & _). subst s. auto.
  - left. destruct (Z.eqb_spec (result_overflow r) 0); [contradiction|reflexivity].
  - left. rewrite Cr. destruct (negb _); reflexivity.
Qed.
Lemma okx_nl m v : (exists sr, m = Some sr /\ okx p t d sr (EInt v)) -> nl m v.
Proof. intros (sr & E & O). apply okn_nl. exists sr. split; auto. apply okx_okn; auto. Qed.

Lemma sub_mul_nl x y z : fin p t x -> fin p t y -> fin p t z -> nl (sub_mul_int c d x y z) (z - x * y).
Proof. intros. apply okn_nl. apply sub_mul_int_ok; auto. Qed.

Lemma nl_value m v w : nl m v -> handle m = Value w -> w = v /\ fin p t v.
Proof. intros [H|[H F]] E; rewrite H in E; [discriminate|]. inversion E. subst. auto. Qed.

(* THE THEOREM: a value returned by the bounded evaluation is the unbounded value (and it is representable) *)
Theorem bounded_never_lies e v : eval_checked e = Value v -> eval_Z e = v /\ fin p t v.
Proof.
  revert v. induction e; intros v; cbn [eval_checked eval_Z].
  - destruct (Z.leb_spec (emin p t) z), (Z.leb_spec z (emax p t)); cbn [andb]; try discriminate.
    intros HH; inversion HH; subst. unfold fin. auto.
  - destruct (eval_checked e) as [x| |]; cbn [bind1]; try discriminate.
    destruct (IHe x eq_refl) as [<- F]. intros H.
    destruct (nl_value _ _ _ (okx_nl _ _ (neg_int_ok c Hwf Hco d _ _ F)) H). subst; auto.
  - destruct (eval_checked e) as [x| |]; cbn [bind1]; try discriminate.
    destruct (IHe x eq_refl) as [<- F]. intros H.
    destruct (nl_value _ _ _ (okx_nl _ _ (abs_int_ok c Hwf Hco d _ _ F)) H). subst; auto.
  - destruct (eval_checked e1) as [x| |]; cbn [bind1]; try discriminate.
    destruct (eval_checked e2) as [y| |]; cbn [bind1]; try discriminate.
    destruct (IHe1 x eq_refl) as [<- Fx]. destruct (IHe2 y eq_refl) as [<- Fy]. intros H.
    destruct (nl_value _ _ _ (okx_nl _ _ (add_int_ok c Hwf Hco d _ _ _ Fx Fy)) H). subst; auto.
  - destruct (eval_checked e1) as [x| |]; cbn [bind1]; try discriminate.
    destruct (eval_checked e2) as [y| |]; cbn [bind1]; try discriminate.
    destruct (IHe1 x eq_refl) as [<- Fx]. destruct (IHe2 y eq_refl) as [<- Fy]. intros H.
    destruct (nl_value _ _ _ (okx_nl _ _ (sub_int_ok c Hwf Hco d _ _ _ Fx Fy)) H). subst; auto.
  - destruct (eval_checked e1) as [x| |]; cbn [bind1]; try discriminate.
    destruct (eval_checked e2) as [y| |]; cbn [bind1]; try discriminate.
    destruct (IHe1 x eq_refl) as [<- Fx]. destruct (IHe2 y eq_refl) as [<- Fy]. intros H.
    destruct (nl_value _ _ _ (okx_nl _ _ (mul_int_ok c Hwf Hco d _ _ _ Fx Fy)) H). subst; auto.
  - destruct (eval_checked e1) as [z| |]; cbn [bind1]; try discriminate.
    destruct (eval_checked e2) as [x| |]; cbn [bind1]; try discriminate.
    destruct (eval_checked e3) as [y| |]; cbn [bind1]; try discriminate.
    destruct (IHe1 z eq_refl) as [<- Fz]. destruct (IHe2 x eq_refl) as [<- Fx]. destruct (IHe3 y eq_refl) as [<- Fy].
    intros H. destruct (nl_value _ _ _ (okn_nl _ _ (add_mul_int_ok c Hwf Hco d _ _ _ Fx Fy Fz)) H). subst; auto.
  - destruct (eval_checked e1) as [z| |]; cbn [bind1]; try discriminate.
    destruct (eval_checked e2) as [x| |]; cbn [bind1]; try discriminate.
    destruct (eval_checked e3) as [y| |]; cbn [bind1]; try discriminate.
    destruct (IHe1 z eq_refl) as [<- Fz]. destruct (IHe2 x eq_refl) as [<- Fx]. destruct (IHe3 y eq_refl) as [<- Fy].
    intros H. destruct (nl_value _ _ _ (sub_mul_nl _ _ _ Fx Fy Fz) H). subst; auto.
Qed.

(* ... and the bounded evaluation never gets stuck: it is Overflow or the exact value *)
Theorem bounded_total e : eval_checked e = Overflow \/ eval_checked e = Value (eval_Z e).
Proof.
  assert (G : forall e, eval_checked e <> Stuck).
  { induction e0; cbn [eval_checked].
    - destruct (_ && _); discriminate.
    - destruct (eval_checked e0) as [x| |] eqn:E; cbn [bind1]; try congruence.
      destruct (bounded_never_lies _ _ E) as [_ F].
      destruct (okx_nl _ _ (neg_int_ok c Hwf Hco d x x F)) as [H|[H _]]; rewrite H; discriminate.
    - destruct (eval_checked e0) as [x| |] eqn:E; cbn [bind1]; try congruence.
      destruct (bounded_never_lies _ _ E) as [_ F].
      destruct (okx_nl _ _ (abs_int_ok c Hwf Hco d x x F)) as [H|[H _]]; rewrite H; discriminate.
    - destruct (eval_checked e0_1) as [x| |] eqn:E1; cbn [bind1]; try congruence.
      destruct (eval_checked e0_2) as [y| |] eqn:E2; cbn [bind1]; try congruence.
      destruct (bounded_never_lies _ _ E1) as [_ Fx]. destruct (bounded_never_lies _ _ E2) as [_ Fy].
      destruct (okx_nl _ _ (add_int_ok c Hwf Hco d x y 0 Fx Fy)) as [H|[H _]]; rewrite H; discriminate.
    - destruct (eval_checked e0_1) as [x| |] eqn:E1; cbn [bind1]; try congruence.
      destruct (eval_checked e0_2) as [y| |] eqn:E2; cbn [bind1]; try congruence.
      destruct (bounded_never_lies _ _ E1) as [_ Fx]. destruct (bounded_never_lies _ _ E2) as [_ Fy].
      destruct (okx_nl _ _ (sub_int_ok c Hwf Hco d x y 0 Fx Fy)) as [H|[H _]]; rewrite H; discriminate.
    - destruct (eval_checked e0_1) as [x| |] eqn:E1; cbn [bind1]; try congruence.
      destruct (eval_checked e0_2) as [y| |] eqn:E2; cbn [bind1]; try congruence.
      destruct (bounded_never_lies _ _ E1) as [_ Fx]. destruct (bounded_never_lies _ _ E2) as [_ Fy].
      destruct (okx_nl _ _ (mul_int_ok c Hwf Hco d x y 0 Fx Fy)) as [H|[H _]]; rewrite H; discriminate.
    - destruct (eval_checked e0_1) as [z| |] eqn:E1; cbn [bind1]; try congruence.
      destruct (eval_checked e0_2) as [x| |] eqn:E2; cbn [bind1]; try congruence.
      destruct (eval_checked e0_3) as [y| |] eqn:E3; cbn [bind1]; try congruence.
      destruct (bounded_never_lies _ _ E1) as [_ Fz]. destruct (bounded_never_lies _ _ E2) as [_ Fx].
      destruct (bounded_never_lies _ _ E3) as [_ Fy].
      destruct (okn_nl _ _ (add_mul_int_ok c Hwf Hco d x y z Fx Fy Fz)) as [H|[H _]]; rewrite H; discriminate.
    - destruct (eval_checked e0_1) as [z| |] eqn:E1; cbn [bind1]; try congruence.
      destruct (eval_checked e0_2) as [x| |] eqn:E2; cbn [bind1]; try congruence.
      destruct (eval_checked e0_3) as [y| |] eqn:E3; cbn [bind1]; try congruence.
      destruct (bounded_never_lies _ _ E1) as [_ Fz]. destruct (bounded_never_lies _ _ E2) as [_ Fx].
      destruct (bounded_never_lies _ _ E3) as [_ Fy].
      destruct (sub_mul_nl x y z Fx Fy Fz) as [H|[H _]]; rewrite H; discriminate. }
  destruct (eval_checked e) as [v| |] eqn:E; auto.
  - right. destruct (bounded_never_lies _ _ E) as [<- _]. reflexivity.
  - exfalso. apply (G e). exact E.
Qed.
End Prog.
