(* C11 -- the infinity / NaN layer of /repo/src/checked_ext_inlines.hh on top of the native-integer primitives
   (what assign_r, add_assign_r, ... of Checked_Number_inlines.hh call).  All operands share the policy and
   type of the destination (the configurations used by the library and driven by the harness). *)
From Coq Require Import ZArith Lia Bool.
Require Import PPLV.gen.Facts_Result PPLV.Checked.Mach PPLV.Checked.Result PPLV.Checked.Int.
Local Open Scope Z_scope.

Section Ext.
Variable c : cfg.
Let t := ty c.
Let p := pol c.

Definition to_handle := has_inf p || has_nan p.          (* ext_to_handle: not FPU related *)
Definition isnan v := is_nan_int p t v.
Definition isminf v := is_minf_int p t v.
Definition ispinf v := is_pinf_int p t v.
Definition special d (k : rclass) old : M := Some (assign_special p t k d old).
Definition nan_res old : M := Some (assign_special p t CNan ROUND_IGNORE old).
Definition nan_with r old : M := Some (assign_nan p t r old).

(* sgn_ext *)
Definition sgn_ext x : Z :=
  if negb to_handle then sgn_int x
  else if isnan x then VR_EMPTY else if isminf x then VR_LT else if ispinf x then VR_GT else sgn_int x.

Definition unary_ext (native : Z -> Z -> Z -> M) d x old : M :=
  if negb to_handle then native d x old
  else if isnan x then nan_res old
  else if isminf x then special d CMinf old
  else if ispinf x then special d CPinf old
  else native d x old.

Definition assign_ext d x old := unary_ext (fun d x old => assign_int_int p t p t d x old) d x old.
Definition neg_ext d x old : M :=
  if negb to_handle then neg_int c d x old
  else if isnan x then nan_res old
  else if isminf x then special d CPinf old
  else if ispinf x then special d CMinf old
  else neg_int c d x old.
Definition abs_ext d x old : M :=
  if negb to_handle then abs_int c d x old
  else if isnan x then nan_res old
  else if isminf x || ispinf x then special d CPinf old
  else abs_int c d x old.

Definition add_ext d x y old : M :=
  if negb to_handle then add_int c d x y old
  else if isnan x || isnan y then nan_res old
  else if isminf x then
    do b <- check_p (check_inf_add_inf p) (ispinf y);
    if b then nan_with V_INF_ADD_INF old else special d CMinf old
  else if ispinf x then
    do b <- check_p (check_inf_add_inf p) (isminf y);
    if b then nan_with V_INF_ADD_INF old else special d CPinf old
  else if isminf y then special d CMinf old
  else if ispinf y then special d CPinf old
  else add_int c d x y old.

Definition sub_ext d x y old : M :=
  if negb to_handle then sub_int c d x y old
  else if isnan x || isnan y then nan_res old
  else if isminf x then
    do b <- check_p (check_inf_sub_inf p) (isminf y);
    if b then nan_with V_INF_SUB_INF old else special d CMinf old
  else if ispinf x then
    do b <- check_p (check_inf_sub_inf p) (ispinf y);
    if b then nan_with V_INF_SUB_INF old else special d CPinf old
  else if ispinf y then special d CMinf old
  else if isminf y then special d CPinf old
  else sub_int c d x y old.

(* the sign dispatch shared by mul_ext / add_mul_ext / sub_mul_ext: Some CMinf / Some CPinf for an infinite
   product, Some CNan for inf * 0, None when both factors are finite *)
Definition mul_sign x y : option rclass :=
  let of_sgn s (neg pos : rclass) :=
    if s =? VR_LT then neg else if s =? VR_GT then pos else CNan in
  if isminf x then Some (of_sgn (sgn_ext y) CPinf CMinf)
  else if ispinf x then Some (of_sgn (sgn_ext y) CMinf CPinf)
  else if isminf y then Some (of_sgn (sgn_int x) CPinf CMinf)
  else if ispinf y then Some (of_sgn (sgn_int x) CMinf CPinf)
  else None.

Definition mul_ext d x y old : M :=
  if negb to_handle then mul_int c d x y old
  else if isnan x || isnan y then nan_res old
  else match mul_sign x y with
       | Some CNan => nan_with V_INF_MUL_ZERO old          (* PPL_ASSERT(check_inf_mul_zero) is compiled out *)
       | Some k => special d k old
       | None => mul_int c d x y old
       end.

Definition add_mul_ext d x y to : M :=
  if negb to_handle then add_mul_int c d x y to
  else if isnan to || isnan x || isnan y then nan_res to
  else match mul_sign x y with
       | Some CNan => nan_with V_INF_MUL_ZERO to
       | Some CMinf =>
           do b <- check_p (check_inf_add_inf p) (ispinf to);
           if b then nan_with V_INF_ADD_INF to else special d CMinf to
       | Some _ =>
           do b <- check_p (check_inf_add_inf p) (isminf to);
           if b then nan_with V_INF_ADD_INF to else special d CPinf to
       | None =>
           if isminf to then special d CMinf to
           else if ispinf to then special d CPinf to
           else add_mul_int c d x y to
       end.

Definition sub_mul_ext d x y to : M :=
  if negb to_handle then sub_mul_int c d x y to
  else if isnan to || isnan x || isnan y then nan_res to
  else match mul_sign x y with
       | Some CNan => nan_with V_INF_MUL_ZERO to
       | Some CMinf =>                                     (* product is -inf: to - (-inf) *)
           do b <- check_p (check_inf_sub_inf p) (isminf to);
           if b then nan_with V_INF_SUB_INF to else special d CPinf to
       | Some _ =>
           do b <- check_p (check_inf_sub_inf p) (ispinf to);
           if b then nan_with V_INF_SUB_INF to else special d CMinf to
       | None =>
           if isminf to then special d CMinf to
           else if ispinf to then special d CPinf to
           else sub_mul_int c d x y to
       end.

(* add_mul_assign_r / sub_mul_assign_r with an extended ACCUMULATOR and factors of a non-extended type (native
   integers: Checked_Number_Transparent_Policy has neither infinities nor NaN): only the accumulator can be special *)
Definition fused_acc_ext (native : Z -> Z -> Z -> Z -> M) d x y to : M :=
  if negb to_handle then native d x y to
  else if isnan to then nan_res to
  else if isminf to then special d CMinf to
  else if ispinf to then special d CPinf to
  else native d x y to.
Definition add_mul_ext_nat := fused_acc_ext (add_mul_int c).
Definition sub_mul_ext_nat := fused_acc_ext (sub_mul_int c).

Definition divlike_ext (native : Z -> Z -> Z -> Z -> M) d x y old : M :=
  if negb to_handle then native d x y old
  else if isnan x || isnan y then nan_res old
  else if isminf x || ispinf x then
    do b <- check_p (check_inf_div_inf p) (isminf y || ispinf y);
    if b then nan_with V_INF_DIV_INF old else
    let s := sgn_int y in
    if s =? VR_LT then special d (if isminf x then CPinf else CMinf) old
    else if s =? VR_GT then special d (if isminf x then CMinf else CPinf) old
    else nan_with V_DIV_ZERO old
  else if isminf y || ispinf y then Some (0, V_EQ)
  else native d x y old.
Definition div_ext := divlike_ext (div_int c).
Definition idiv_ext := divlike_ext (idiv_int c).

Definition rem_ext d x y old : M :=
  if negb to_handle then rem_int c d x y old
  else if isnan x || isnan y then nan_res old
  else
    do b <- check_p (check_inf_mod p) (isminf x || ispinf x);
    if b then nan_with V_INF_MOD old
    else if isminf y || ispinf y then Some (x, V_EQ)
    else rem_int c d x y old.

Definition exp_ext (native : Z -> Z -> Z -> Z -> M) d x (e : Z) old : M :=
  if negb to_handle then native d x e old
  else if isnan x then nan_res old
  else if isminf x then special d CMinf old
  else if ispinf x then special d CPinf old
  else native d x e old.
Definition add_2exp_ext := exp_ext (add_2exp_int c).
Definition sub_2exp_ext := exp_ext (sub_2exp_int c).
Definition mul_2exp_ext := exp_ext (mul_2exp_int c).
Definition div_2exp_ext := exp_ext (div_2exp_int c).
Definition mod_ext (native : Z -> Z -> Z -> Z -> M) d x (e : Z) old : M :=
  if negb to_handle then native d x e old
  else if isnan x then nan_res old
  else
    do b <- check_p (check_inf_mod p) (isminf x || ispinf x);
    if b then nan_with V_INF_MOD old else native d x e old.
Definition smod_2exp_ext := mod_ext (smod_2exp_int c).
Definition umod_2exp_ext := mod_ext (umod_2exp_int c).

Definition sqrt_ext d x old : M :=
  if negb to_handle then sqrt_int c d x old
  else if isnan x then nan_res old
  else if isminf x then nan_with V_SQRT_NEG old
  else if ispinf x then special d CPinf old
  else sqrt_int c d x old.

Definition gcd_ext d x y old : M :=
  if isnan x || isnan y then nan_res old
  else if isminf x || ispinf x then abs_ext d y old
  else if isminf y || ispinf y then abs_ext d x old
  else gcd_int c d x y old.
Definition lcm_ext d x y old : M :=
  if isnan x || isnan y then nan_res old
  else if isminf x || ispinf x || isminf y || ispinf y then special d CPinf old
  else lcm_int c d x y old.

Definition cmp_ext x y : Z :=
  if negb to_handle then cmp_int x y
  else if isnan x || isnan y then VR_EMPTY
  else if isminf x then (if isminf y then VR_EQ else VR_LT)
  else if ispinf x then (if ispinf y then VR_EQ else VR_GT)
  else if isminf y then VR_GT
  else if ispinf y then VR_LT
  else cmp_int x y.

End Ext.
