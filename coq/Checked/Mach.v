(* C11 -- machine integers with a range.

   Every C++ sub-expression of integer type that the model of checked_int_inlines.hh evaluates goes
   through [mach t z : option Z], which fails ([None]) when the mathematical value [z] is outside the range
   of the C++ type [t].  A model function that returns [Some _] therefore certifies that no signed
   overflow, no out-of-range conversion, no division by zero and no failed PPL assertion happened on the
   way: proofs cannot silently compute in Z where the code would overflow.

   Strictness: sub-expressions are evaluated in the operand type itself (the integer promotion to [int] of
   types narrower than int is NOT used, and unsigned wrap-around counts as a failure too, except in the few
   places where the code wraps on purpose, which use [wrap] explicitly).  This is an abstraction in the safe
   direction: whenever the strict evaluation succeeds, the C++ evaluation yields the same value. *)
From Coq Require Import ZArith Lia Bool.
Local Open Scope Z_scope.

Record ity := { bits : Z; sgn : bool }.

Definition cmin t := if sgn t then - 2 ^ (bits t - 1) else 0.
Definition cmax t := if sgn t then 2 ^ (bits t - 1) - 1 else 2 ^ (bits t) - 1.
Definition inr t z := (cmin t <=? z) && (z <=? cmax t).
Definition mach t z : option Z := if inr t z then Some z else None.

(* two's complement / modular conversion to [t] (only where the C++ code relies on it) *)
Definition wrap t z :=
  if sgn t then (z + 2 ^ (bits t - 1)) mod 2 ^ (bits t) - 2 ^ (bits t - 1) else z mod 2 ^ (bits t).

Notation "'do' x <- a ; b" := (match a with Some x => b | None => None end)
  (at level 200, x name, a at level 100, b at level 200).

(* C++ '/' and '%' (truncation toward zero); undefined for a zero divisor and for min / -1 *)
Definition mquot t x y := if y =? 0 then None else mach t (Z.quot x y).
Definition mrem t x y := if y =? 0 then None else do _ <- mach t (Z.quot x y); mach t (Z.rem x y).
(* '<<' : undefined for negative left operands, shift counts outside [0,bits) and signed overflow;
   unsigned left shift wraps *)
Definition mshl t x k :=
  if (k <? 0) || (bits t <=? k) || (x <? 0) then None
  else if sgn t then mach t (x * 2 ^ k) else Some (wrap t (x * 2 ^ k)).
(* '>>' on non-negative values *)
Definition mshr t x k :=
  if (k <? 0) || (bits t <=? k) || (x <? 0) then None else Some (x / 2 ^ k).
(* '&' on non-negative values *)
Definition mand (x y : Z) := if (x <? 0) || (y <? 0) then None else Some (Z.land x y).

Lemma mach_some t z v : mach t z = Some v -> v = z /\ cmin t <= z <= cmax t.
Proof. unfold mach, inr. destruct (cmin t <=? z) eqn:A, (z <=? cmax t) eqn:B; cbn; try discriminate.
  intros H; inversion H; subst. apply Z.leb_le in A, B. lia. Qed.

Lemma mach_in t z : cmin t <= z <= cmax t -> mach t z = Some z.
Proof. intros [A B]. unfold mach, inr. apply Z.leb_le in A, B. now rewrite A, B. Qed.

(* the only facts about 2^(bits-1) the proofs need: with them every range side condition is linear *)
Lemma pow_half b : 1 <= b -> 2 ^ b = 2 * 2 ^ (b - 1).
Proof. intros. replace b with (Z.succ (b - 1)) at 1 by lia. rewrite Z.pow_succ_r; lia. Qed.

Lemma pow_ge_128 b : 8 <= b -> 128 <= 2 ^ (b - 1).
Proof. intros. change 128 with (2 ^ 7). apply Z.pow_le_mono_r; lia. Qed.

Lemma pow_mono b c : 0 <= b <= c -> 2 ^ b <= 2 ^ c.
Proof. intros. apply Z.pow_le_mono_r; lia. Qed.
